package main

// Property-level oracle for C19, used by the hunt: checks the implementation
// directly against the mathematical-set semantics stated by the property
// (no Coq model involved), and shrinks a failing history.

import (
	"fmt"
	"math"
	"sort"

	ad "github.com/pbenner/autodiff"
)

type refIter struct {
	tree  int
	ended bool
	value int64
}

func sortedKeys(s map[int64]bool) []int64 {
	ks := make([]int64, 0, len(s))
	for k := range s {
		ks = append(ks, k)
	}
	sort.Slice(ks, func(i, j int) bool { return ks[i] < ks[j] })
	return ks
}
func minGE(s map[int64]bool, i int64) (int64, bool) {
	found := false
	var best int64
	for k := range s {
		if k >= i && (!found || k < best) {
			best, found = k, true
		}
	}
	return best, found
}
func minGT(s map[int64]bool, i int64) (int64, bool) {
	if i == math.MaxInt64 {
		return 0, false
	}
	return minGE(s, i+1)
}

// structural check of one tree: BST order, balance factors = height difference
// in {-1,0,1}, parent links, no tombstone reachable; returns height.
func checkNode(n, parent *ad.AvlNode, lo, hi *int64, msg *string) int64 {
	if n == nil {
		return 0
	}
	if n.Parent != parent && *msg == "" {
		*msg = fmt.Sprintf("node %d: stored parent differs from structural parent", n.Value)
	}
	if n.Deleted && *msg == "" {
		*msg = fmt.Sprintf("node %d: reachable node flagged Deleted", n.Value)
	}
	v := int64(n.Value)
	if ((lo != nil && v <= *lo) || (hi != nil && v >= *hi)) && *msg == "" {
		*msg = fmt.Sprintf("node %d: search-tree order violated", n.Value)
	}
	hl := checkNode(n.Left, n, lo, &v, msg)
	hr := checkNode(n.Right, n, &v, hi, msg)
	if int64(n.Balance) != hr-hl && *msg == "" {
		*msg = fmt.Sprintf("node %d: balance factor %d but height difference %d", n.Value, n.Balance, hr-hl)
	}
	if (hr-hl > 1 || hr-hl < -1) && *msg == "" {
		*msg = fmt.Sprintf("node %d: not height balanced (%d)", n.Value, hr-hl)
	}
	if hl > hr {
		return hl + 1
	}
	return hr + 1
}

// valid reports whether every op refers to an existing tree / iterator.
func valid(ops []Op) bool {
	nt, ni := 1, 0
	for _, o := range ops {
		switch o.Op {
		case "Ins", "Del", "Find", "FindLE", "Elems":
			if o.T >= nt {
				return false
			}
		case "Clone":
			if o.T >= nt {
				return false
			}
			nt++
		case "ItBegin", "ItFrom":
			if o.T >= nt {
				return false
			}
			ni++
		case "ItClone":
			if o.T >= ni {
				return false
			}
			ni++
		case "Next":
			if o.T >= ni {
				return false
			}
		}
	}
	return true
}

// propCheck runs the history on the implementation and compares every
// observation with the set semantics. Returns "" if the property held,
// otherwise (description, index of the failing op).
func propCheck(ops []Op) (fail string, at int) {
	defer func() {
		if r := recover(); r != nil {
			fail = fmt.Sprintf("panic: %v", r)
		}
	}()
	outs := []Out{}
	trees := []*ad.AvlTree{ad.NewAvlTree()}
	sets := []map[int64]bool{{}}
	var iters []*ad.AvlIterator
	var rits []refIter
	for idx, o := range ops {
		at = idx
		one := execOne(o, &trees, &iters)
		outs = append(outs, one)
		switch o.Op {
		case "Ins":
			exp := !sets[o.T][o.I]
			sets[o.T][o.I] = true
			if one.F != exp {
				return fmt.Sprintf("Insert(%d) returned %v, set semantics %v", o.I, one.F, exp), idx
			}
		case "Del":
			exp := sets[o.T][o.I]
			delete(sets[o.T], o.I)
			if one.F != exp {
				return fmt.Sprintf("Delete(%d) returned %v, set semantics %v", o.I, one.F, exp), idx
			}
		case "Find":
			if one.F != sets[o.T][o.I] {
				return fmt.Sprintf("FindNode(%d) found=%v, membership %v", o.I, one.F, sets[o.T][o.I]), idx
			}
		case "FindLE":
			v, ok := minGE(sets[o.T], o.I)
			if one.F != ok || (ok && one.V != v) {
				return fmt.Sprintf("FindNodeLE(%d) = (%v,%d), expected (%v,%d)", o.I, one.F, one.V, ok, v), idx
			}
		case "Clone":
			c := map[int64]bool{}
			for k := range sets[o.T] {
				c[k] = true
			}
			sets = append(sets, c)
		case "ItBegin", "ItFrom":
			lo := int64(math.MinInt64)
			if o.Op == "ItFrom" {
				lo = o.I
			}
			v, ok := minGE(sets[o.T], lo)
			rits = append(rits, refIter{o.T, !ok, v})
			if one.F != ok || (ok && one.V != v) {
				return fmt.Sprintf("%s(%d) positioned at (%v,%d), expected (%v,%d)", o.Op, o.I, one.F, one.V, ok, v), idx
			}
		case "ItClone":
			rits = append(rits, rits[o.T])
			if one.F != !rits[o.T].ended || (one.F && one.V != rits[o.T].value) {
				return "iterator clone differs from its source", idx
			}
		case "Next":
			ri := &rits[o.T]
			if !ri.ended {
				v, ok := minGT(sets[ri.tree], ri.value)
				if ok {
					ri.value = v
				} else {
					ri.ended = true
				}
			}
			if one.F != !ri.ended || (one.F && one.V != ri.value) {
				return fmt.Sprintf("Next() moved to (%v,%d); the smallest surviving larger element is (%v,%d)", one.F, one.V, !ri.ended, ri.value), idx
			}
		case "Elems":
			ks := sortedKeys(sets[o.T])
			if fmt.Sprint(ks) != fmt.Sprint(one.L) {
				return fmt.Sprintf("iteration %v differs from sorted set %v", one.L, ks), idx
			}
		}
		if o.Op == "Ins" || o.Op == "Del" || o.Op == "Clone" {
			t := trees[o.T]
			if o.Op == "Clone" {
				t = trees[len(trees)-1]
			}
			msg := ""
			if t.Root != nil && t.Root.Parent != nil {
				msg = "root has a parent"
			}
			checkNode(t.Root, nil, nil, nil, &msg)
			if msg != "" {
				return "after " + o.Op + fmt.Sprintf("(%d): ", o.I) + msg, idx
			}
		}
	}
	return "", -1
}

// ddmin-style shrinking of a failing history
func shrink(ops []Op) []Op {
	fails := func(c []Op) bool {
		if !valid(c) {
			return false
		}
		f, _ := propCheck(c)
		return f != ""
	}
	// truncate after the failing op
	if f, at := propCheck(ops); f != "" && at >= 0 && at+1 < len(ops) {
		ops = ops[:at+1]
	}
	chunk := len(ops) / 2
	for chunk >= 1 {
		changed := false
		for start := 0; start+chunk <= len(ops); {
			cand := append(append([]Op{}, ops[:start]...), ops[start+chunk:]...)
			if fails(cand) {
				ops = cand
				changed = true
			} else {
				start += chunk
			}
		}
		if !changed || chunk == 1 {
			if chunk == 1 && !changed {
				break
			}
		}
		if chunk > 1 {
			chunk /= 2
		} else if !changed {
			break
		}
	}
	return ops
}
