// C19 harness: random operation histories on the AVL tree of /repo, observed
// outputs written as Coq case files for the model in coq/C19.
package main

import (
	"encoding/json"
	"fmt"
	"math"
	"os"
	"strings"
	"time"

	. "adharness/common"

	ad "github.com/pbenner/autodiff"
)

type Op struct {
	Op string `json:"op"`
	T  int    `json:"t"`
	I  int64  `json:"i"`
}
type Out struct {
	F bool    `json:"f"`
	V int64   `json:"v"`
	H int64   `json:"h"`
	L []int64 `json:"l"`
	P int64   `json:"p"` // checksum of the whole heap (node identities, Left/Right/Parent pointers, Deleted, iterators)
	// SafeIt / SafeItFrom are ONE call of the implementation and TWO steps of the model
	// (Clone t; ItBegin/ItFrom on the hidden clone): Pre is the outcome of the Clone step
	Pre *Out `json:"pre,omitempty"`
}
type Case struct {
	Ops  []Op  `json:"ops"`
	Outs []Out `json:"outs"`
	Via  bool  `json:"via,omitempty"` // history run through the index wrappers of vector_sparse_index.go
}

// viaIndex: the current history is run through vectorSparseIndex / vectorSparseIndexIterator
// (hook verif_c19h.go); idxOf / iidxOf map the underlying objects to their wrappers (objects
// created behind the wrappers' back, e.g. the hidden clone of a Safe iterator, have none and are
// operated on directly)
var viaIndex bool
var idxOf = map[*ad.AvlTree]*ad.VerifC19Index{}
var iidxOf = map[*ad.AvlIterator]*ad.VerifC19IndexIter{}

func newWorld() []*ad.AvlTree {
	idxOf = map[*ad.AvlTree]*ad.VerifC19Index{}
	iidxOf = map[*ad.AvlIterator]*ad.VerifC19IndexIter{}
	if viaIndex {
		x := ad.VerifC19NewIndex()
		idxOf[x.Tree()] = x
		return []*ad.AvlTree{x.Tree()}
	}
	return []*ad.AvlTree{ad.NewAvlTree()}
}

func countNodes(n *ad.AvlNode) int {
	c := 0
	budget := walkGuard
	preorder(n, func(*ad.AvlNode) { c++ }, &budget)
	return c
}

const HP = 2147483647

func mod(v int64) int64 { return ((v % HP) + HP) % HP }

// maxDepth bounds the harness's own recursions: a legal AVL tree of the sizes generated here
// is < 20 deep; anything deeper is a cycle through broken links of a mutated library
const maxDepth = 4000

func dumpHash(n *ad.AvlNode, parent *ad.AvlNode, pv int64, h int64, bad *int64) int64 {
	return dumpHashD(n, parent, pv, h, bad, 0)
}
func dumpHashD(n *ad.AvlNode, parent *ad.AvlNode, pv int64, h int64, bad *int64, depth int) int64 {
	if n == nil {
		return (h*31 + 7) % HP
	}
	if depth > maxDepth {
		*bad++
		return h
	}
	if n.Parent != parent || n.Deleted {
		*bad++ // stored parent link differs from the structural parent, or tombstone reachable
	}
	h1 := (h*1000003 + mod(int64(n.Value))*13 + int64(n.Balance+2)*5 + mod(pv)*3 + 1) % HP
	hl := dumpHashD(n.Left, n, int64(n.Value), h1, bad, depth+1)
	return dumpHashD(n.Right, n, int64(n.Value), hl, bad, depth+1)
}
func treeHash(t *ad.AvlTree) int64 {
	var bad int64
	// the root accessors Emtpy / Value / Left / Right must describe the root object
	if t.Emtpy() != (t.Root == nil) {
		bad++
	}
	if t.Root != nil {
		l, r := t.Left(), t.Right()
		if t.Value() != t.Root.Value || l.Root != t.Root.Left || r.Root != t.Root.Right {
			bad++
		}
	}
	h := dumpHash(t.Root, nil, -1, 17, &bad)
	if bad != 0 {
		return -bad // never equals a model checksum (those are >= 0)
	}
	return h
}
func height(n *ad.AvlNode) int64 { return heightD(n, 0) }
func heightD(n *ad.AvlNode, depth int) int64 {
	if n == nil || depth > maxDepth {
		return 0
	}
	a, b := heightD(n.Left, depth+1), heightD(n.Right, depth+1)
	if a > b {
		return 1 + a
	}
	return 1 + b
}

func execute(ops []Op) []Out {
	trees := newWorld()
	var iters []*ad.AvlIterator
	tk := newTracker()
	outs := make([]Out, 0, len(ops))
	for k, o := range ops {
		r, panicked := safeExecOne(o, &trees, &iters)
		if !panicked && r.Pre != nil {
			// the heap after the Clone half of a Safe iterator: the hidden clone, not yet the iterator
			r.Pre.P, panicked = safeWorldHash(tk, trees, iters[:len(iters)-1])
		}
		if !panicked {
			r.P, panicked = safeWorldHash(tk, trees, iters)
		}
		if panicked {
			pre := r.Pre
			r = Out{F: false, V: 0, H: -777, L: []int64{}, P: -777}
			if pre != nil || o.Op == "SafeIt" || o.Op == "SafeItFrom" {
				r.Pre = &Out{F: false, V: 0, H: -777, L: []int64{}, P: -777}
			}
		}
		outs = append(outs, r)
		if panicked {
			// the implementation panicked: its state is garbage from here on; mark this and
			// every remaining step with an outcome the model never produces (checksum < 0)
			for j := k + 1; j < len(ops); j++ {
				x := Out{F: false, V: 0, H: -777, L: []int64{}, P: -777}
				if ops[j].Op == "SafeIt" || ops[j].Op == "SafeItFrom" {
					x.Pre = &Out{F: false, V: 0, H: -777, L: []int64{}, P: -777}
				}
				outs = append(outs, x)
			}
			break
		}
	}
	return outs
}

func safeWorldHash(tk *tracker, trees []*ad.AvlTree, iters []*ad.AvlIterator) (h int64, panicked bool) {
	defer func() {
		if e := recover(); e != nil {
			h, panicked = -777, true
		}
	}()
	tk.scan(trees)
	return tk.worldHash(trees, iters), false
}

// safeExecOne runs one operation and turns a panic of the implementation into an outcome
// kind (checksum -777) instead of killing the harness; an operation that does not return
// within opTimeout (a loop through broken links of a mutated library: the parent climb of
// Next, the descent of Iterator) becomes the outcome kind -778, the goroutine is abandoned
// and the harness stops generating further histories (hangs > 0).
var hangs int

const opTimeout = 3 * time.Second

func safeExecOne(o Op, ptrees *[]*ad.AvlTree, piters *[]*ad.AvlIterator) (Out, bool) {
	type res struct {
		r Out
		p bool
	}
	ch := make(chan res, 1)
	go func() {
		defer func() {
			if e := recover(); e != nil {
				ch <- res{Out{F: false, V: 0, H: -777, L: []int64{}}, true}
			}
		}()
		ch <- res{execOne(o, ptrees, piters), false}
	}()
	select {
	case x := <-ch:
		return x.r, x.p
	case <-time.After(opTimeout):
		hangs++
		return Out{F: false, V: 0, H: -778, L: []int64{}}, true
	}
}

func execOne(o Op, ptrees *[]*ad.AvlTree, piters *[]*ad.AvlIterator) Out {
	trees, iters := *ptrees, *piters
	var r Out
	r.L = []int64{}
	switch o.Op {
	case "Ins":
		if x := idxOf[trees[o.T]]; x != nil {
			// indexInsert drops the flag: observe it as "the number of reachable objects grew"
			before := countNodes(trees[o.T].Root)
			x.Insert(int(o.I))
			r.F = countNodes(trees[o.T].Root) == before+1
		} else {
			r.F = trees[o.T].Insert(int(o.I))
		}
		r.H = treeHash(trees[o.T])
	case "Del":
		noteDelete(trees[o.T], int(o.I))
		if x := idxOf[trees[o.T]]; x != nil {
			before := countNodes(trees[o.T].Root)
			x.Delete(int(o.I))
			r.F = countNodes(trees[o.T].Root) == before-1
		} else {
			r.F = trees[o.T].Delete(int(o.I))
		}
		r.H = treeHash(trees[o.T])
	case "Find":
		r.F = trees[o.T].FindNode(int(o.I)) != nil
	case "FindLE":
		n := trees[o.T].FindNodeLE(int(o.I))
		if n != nil {
			r.F = true
			r.V = int64(n.Value)
		}
	case "Clone":
		var c *ad.AvlTree
		if x := idxOf[trees[o.T]]; x != nil {
			cx := x.Clone()
			c = cx.Tree()
			idxOf[c] = cx
		} else {
			c = trees[o.T].Clone()
		}
		*ptrees = append(trees, c)
		r.F = true
		r.H = treeHash(c)
	case "ItBegin", "ItFrom", "SafeIt", "SafeItFrom":
		var it *ad.AvlIterator
		get := func() int { return it.Get() }
		if x := idxOf[trees[o.T]]; x != nil {
			var xi *ad.VerifC19IndexIter
			switch o.Op {
			case "ItBegin":
				xi = x.Iterator()
			case "ItFrom":
				xi = x.IteratorFrom(int(o.I))
			case "SafeIt":
				xi = x.SafeIterator()
			default:
				xi = x.SafeIteratorFrom(int(o.I))
			}
			it = xi.It()
			iidxOf[it] = xi
			get = xi.Get
		} else {
			switch o.Op {
			case "ItBegin":
				it = trees[o.T].Iterator()
			case "ItFrom":
				it = trees[o.T].IteratorFrom(int(o.I))
			case "SafeIt":
				it = trees[o.T].SafeIterator()
			default:
				it = trees[o.T].SafeIteratorFrom(int(o.I))
			}
		}
		if o.Op == "SafeIt" || o.Op == "SafeItFrom" {
			// the private clone the iterator walks becomes a tree of the world (model: Clone t)
			c := ad.VerifC19IterTree(it)
			*ptrees = append(trees, c)
			r.Pre = &Out{F: true, H: treeHash(c), L: []int64{}}
		}
		*piters = append(iters, it)
		r.F, r.V = it.Ok(), int64(get())
	case "ItClone":
		if xi := iidxOf[iters[o.T]]; xi != nil {
			cx := xi.Clone()
			c := cx.It()
			iidxOf[c] = cx
			*piters = append(iters, c)
			r.F, r.V = c.Ok(), int64(cx.Get())
		} else {
			c := iters[o.T].Clone()
			*piters = append(iters, &c)
			r.F, r.V = c.Ok(), int64(c.Get())
		}
	case "Next":
		it := iters[o.T]
		it.Next()
		r.F, r.V = it.Ok(), int64(it.Get())
		if xi := iidxOf[it]; xi != nil {
			r.V = int64(xi.Get())
		}
	case "Elems":
		r.F = true
		r.V = height(trees[o.T].Root)
		// histories hold at most a few hundred keys; an iteration that does not end within
		// 2000 steps is a runaway (e.g. a cycle through broken parent links): report it as an
		// outcome kind (flag false, list cut) instead of writing a giant case file
		guard := 0
		for it := trees[o.T].Iterator(); it.Ok(); it.Next() {
			if guard >= 2000 {
				r.F = false
				r.L = r.L[:8]
				break
			}
			r.L = append(r.L, int64(it.Get()))
			guard++
		}
	default:
		Die("unknown op %s", o.Op)
	}
	return r
}

func coqOp(o Op) string {
	switch o.Op {
	case "Ins", "Del", "Find", "FindLE", "ItFrom":
		return fmt.Sprintf("%s %d %s", o.Op, o.T, Z(o.I))
	default:
		return fmt.Sprintf("%s %d", o.Op, o.T)
	}
}
func coqOut(o Out) string { return fmt.Sprintf("(%s, %s, %s, %s)", B(o.F), Z(o.V), Z(o.H), ZList(o.L)) }

// SafeIt t / SafeItFrom t i are printed as the two model steps  Clone t; ItBegin j / ItFrom j i
// where j is the index the hidden clone gets (the number of trees so far)
func coqCase(c Case) string {
	var ops, outs []string
	var phs []int64
	nt := 1
	for i, o := range c.Ops {
		out := c.Outs[i]
		switch o.Op {
		case "SafeIt", "SafeItFrom":
			pre := Out{H: -777, P: -777, L: []int64{}}
			if out.Pre != nil {
				pre = *out.Pre
			}
			ops = append(ops, fmt.Sprintf("Clone %d", o.T))
			outs = append(outs, coqOut(pre))
			phs = append(phs, pre.P)
			if o.Op == "SafeIt" {
				ops = append(ops, fmt.Sprintf("ItBegin %d", nt))
			} else {
				ops = append(ops, fmt.Sprintf("ItFrom %d %s", nt, Z(o.I)))
			}
			nt++
		default:
			ops = append(ops, coqOp(o))
			if o.Op == "Clone" {
				nt++
			}
		}
		outs = append(outs, coqOut(out))
		phs = append(phs, out.P)
	}
	return "(" + List(ops) + ", " + List(outs) + ", " + ZList(phs) + ")"
}

// key universes: tiny (collisions), medium (big trees), int64 extremes
func genKey(r *Rng, univ int) int64 {
	switch univ {
	case 0:
		return int64(r.Intn(8))
	case 1:
		return int64(r.Intn(48))
	case 2:
		return int64(r.Intn(200)) - 100
	case 4:
		return genDirKey(r)
	default:
		ext := []int64{math.MaxInt64, math.MaxInt64 - 1, math.MaxInt64 - 2, math.MinInt64, math.MinInt64 + 1, 0, -1, 1, math.MaxInt64 - 3, math.MinInt64 + 2}
		return ext[r.Intn(len(ext))]
	}
}

type stats struct{ rot, midmut, maxsize int }

func genCase(r *Rng, w *CaseWriter) (Case, stats) {
	univ := r.Pick([]int{2, 5, 3, 1})
	n := r.Range(10, 60)
	if univ >= 1 && r.Intn(3) > 0 {
		n = r.Range(60, 160)
	}
	var ops []Op
	ntrees, niters := 1, 0
	// prefill phase: grow the tree so that rotations (incl. double ones) and
	// two-child deletions are common
	pre := 0
	if univ >= 1 {
		pre = r.Range(8, 40)
	}
	// round 7: directed families (harness/c19/directed.go): 0 = a deletion reaching a double
	// rotation with a balanced two-child pivot, 1 = SafeIteratorFrom + mutation of the source
	// during the iteration, >= 2 = purely random
	family := r.Intn(5)
	dirKeys = dirKeys[:0]
	burstAt := -1
	if family == 0 {
		univ, pre = 4, 0
		var dops []Op
		dops, niters = directedDelete(r, w)
		ops = append(ops, dops...)
	} else if family == 1 {
		burstAt = r.Intn(n/2 + 1)
		w.Count("directed:safe-from-burst")
	}
	for k := 0; k < pre; k++ {
		ops = append(ops, Op{"Ins", 0, genKey(r, univ)})
	}
	liveIter := false
	for k := 0; k < n; k++ {
		if (k == burstAt || (family == 0 && k > 0 && k%40 == 0)) && ntrees < 4 && niters < 6 {
			ops = append(ops, safeFromBurst(r, 0, niters, func() int64 { return genKey(r, univ) })...)
			ntrees++
			niters++
			continue
		}
		t := r.Intn(ntrees)
		if r.Intn(4) > 0 {
			t = 0
		}
		// weights: Ins Del Find FindLE Clone ItBegin ItFrom ItClone Next Elems SafeIt SafeItFrom
		wts := []int{22, 22, 3, 4, 1, 3, 5, 1, 0, 2, 1, 2}
		if niters > 0 {
			wts[8] = 40
		} else {
			wts[7] = 0
		}
		if ntrees >= 3 {
			wts[4] = 0
		}
		if ntrees >= 4 || niters >= 6 {
			wts[10], wts[11] = 0, 0
		}
		if niters >= 6 {
			wts[5], wts[6], wts[7] = 1, 1, 0
		}
		switch r.Pick(wts) {
		case 0:
			ops = append(ops, Op{"Ins", t, genKey(r, univ)})
		case 1:
			ops = append(ops, Op{"Del", t, genKey(r, univ)})
		case 2:
			ops = append(ops, Op{"Find", t, genKey(r, univ)})
		case 3:
			ops = append(ops, Op{"FindLE", t, genKey(r, univ)})
		case 4:
			ops = append(ops, Op{"Clone", t, 0})
			ntrees++
		case 5:
			ops = append(ops, Op{"ItBegin", t, 0})
			niters++
			liveIter = true
		case 6:
			ops = append(ops, Op{"ItFrom", t, genKey(r, univ)})
			niters++
			liveIter = true
		case 7:
			ops = append(ops, Op{"ItClone", r.Intn(niters), 0})
			niters++
		case 8:
			// favour the most recent iterator, so that iterations make progress
			k := niters - 1
			if r.Intn(3) == 0 {
				k = r.Intn(niters)
			}
			ops = append(ops, Op{"Next", k, 0})
		case 9:
			ops = append(ops, Op{"Elems", t, 0})
		case 10:
			ops = append(ops, Op{"SafeIt", t, 0})
			ntrees++
			niters++
		case 11:
			ops = append(ops, Op{"SafeItFrom", t, genKey(r, univ)})
			ntrees++
			niters++
		}
	}
	_ = liveIter
	for t := 0; t < ntrees; t++ {
		ops = append(ops, Op{"Elems", t, 0})
	}
	viaIndex = r.Intn(3) == 0
	dblPivotHits, sglBalancedHits = 0, 0
	outs := execute(ops)
	if sglBalancedHits > 0 {
		w.Count("del:single-rotation-with-balanced-child(histories)")
	}
	if dblPivotHits > 0 {
		w.Count("del:double-rotation-with-balanced-two-child-pivot(histories)")
	}
	for j := 0; j < dblPivotHits; j++ {
		w.Count("del:double-rotation-with-balanced-two-child-pivot(deletions)")
	}
	// statistics for the non-triviality rule
	var st stats
	seenIter := false
	for i, o := range ops {
		w.Count("op:" + o.Op)
		switch o.Op {
		case "ItBegin", "ItFrom", "SafeIt", "SafeItFrom":
			seenIter = true
		case "Ins", "Del":
			if outs[i].F && seenIter {
				st.midmut++
			}
		case "Elems":
			if len(outs[i].L) > st.maxsize {
				st.maxsize = len(outs[i].L)
			}
		}
	}
	w.Count(fmt.Sprintf("universe:%d", univ))
	if viaIndex {
		w.Count("via-index-wrappers")
	}
	return Case{ops, outs, viaIndex}, st
}

func main() {
	o := ParseFlags()
	hdr := "From Coq Require Import ZArith List Bool. Import ListNotations.\nFrom ADV Require Import C19.Model C19.ModelW C19.Corr.\nOpen Scope Z_scope.\n"
	if o.Extra == "hunt" {
		hunt(o)
		return
	}
	if o.Replay != "" {
		b, err := os.ReadFile(o.Replay)
		if err != nil {
			Die("%v", err)
		}
		var rp struct {
			Case Case `json:"case"`
		}
		if err := json.Unmarshal(b, &rp); err != nil {
			Die("%v", err)
		}
		viaIndex = rp.Case.Via
		c := Case{rp.Case.Ops, execute(rp.Case.Ops), rp.Case.Via}
		w := NewCaseWriter(o.Out, "replay", hdr, "pmism", 1000)
		w.Type = "pcase"
		w.Add(coqCase(c), c, "replay", true)
		w.Flush()
		return
	}
	w := NewCaseWriter(o.Out, "cases", hdr, "pmism", 25)
	w.Type = "pcase"
	w.Rule = "every step is compared on flag, value, tree checksum, key list AND on the checksum of the whole heap (node identities in allocation order, Left/Right/Parent pointers, Deleted flags, unlinked objects, the node pointer of every iterator); random histories of Insert/Delete/Find/FindLE/Clone/Iterator/IteratorFrom/SafeIterator/SafeIteratorFrom (one call = the two model steps Clone; Iterator[From] on the hidden clone, whose objects are part of the heap checksum)/iterator Clone/Next over 1-4 trees, one third of the histories run through the index wrappers of vector_sparse_index.go (hook verif_c19h.go), every tree checksum read through Emtpy/Value/Left/Right and up to 7 live iterators; key universes {0..7, 0..47, -100..99, int64 extremes, the keys of a directed template +-1}; one fifth of the histories start from a rotation-free AVL shape followed by ONE deletion that reaches rotateLR/rotateRL from balance2/balance1 with a balanced two-child pivot (directed.go; counted on the real tree by a read-only detector), one fifth contain SafeIteratorFrom(lo) + inserts/deletes on the source at lo..lo+8 interleaved with Next on the safe iterator; a case is non-trivial iff its largest tree held >= 12 keys and at least 3 successful Insert/Delete happened while an iterator was live; distinct = distinct op list"
	// committed corpus first
	corpus, _ := os.ReadFile(o.Extra)
	if len(corpus) > 0 {
		for _, line := range strings.Split(string(corpus), "\n") {
			line = strings.TrimSpace(line)
			if line == "" {
				continue
			}
			var c Case
			if err := json.Unmarshal([]byte(line), &c); err != nil {
				Die("corpus: %v", err)
			}
			viaIndex = c.Via
			c.Outs = execute(c.Ops)
			w.Add(coqCase(c), c, "corpus:"+line, true)
			w.Count("corpus")
		}
	}
	rng := NewRng(o.Seed)
	for k := 0; k < o.N; k++ {
		c, st := genCase(rng.Split(), w)
		key := fmt.Sprint(c.Ops)
		w.Add(coqCase(c), c, key, st.maxsize >= 12 && st.midmut >= 3)
		w.Count(fmt.Sprintf("maxsize>=%d", (st.maxsize/8)*8))
		if hangs > 0 {
			break // an operation of the implementation did not terminate: report what we have
		}
	}
	if err := w.Flush(); err != nil {
		Die("%v", err)
	}
}

// hunt: look for a history on which the PROPERTY (set semantics, balance,
// parent links, live-iterator behaviour) fails on the implementation; first on
// the cases listed in the replay file, then on fresh random histories.
func hunt(o Opts) {
	type res struct {
		Found   bool   `json:"found"`
		Failure string `json:"failure"`
		At      int    `json:"at"`
		Case    Case   `json:"case"`
		Tried   int    `json:"tried"`
	}
	var r res
	report := func(ops []Op) {
		ops = shrink(ops)
		f, at := propCheck(ops)
		r.Found, r.Failure, r.At = true, f, at
		r.Case = Case{ops, nil, viaIndex}
		func() {
			defer func() { recover() }()
			r.Case.Outs = execute(ops)
		}()
	}
	done := false
	if o.Replay != "" {
		if b, err := os.ReadFile(o.Replay); err == nil {
			var rp struct {
				Cases []Case `json:"cases"`
			}
			json.Unmarshal(b, &rp)
			for _, c := range rp.Cases {
				r.Tried++
				viaIndex = c.Via
				if f, _ := propCheck(c.Ops); f != "" {
					report(c.Ops)
					done = true
					break
				}
			}
		}
	}
	if !done {
		rng := NewRng(o.Seed + 7919)
		w := NewCaseWriter(o.Out, "huntcases", "", "mism", 1000)
		for k := 0; k < o.N && !done; k++ {
			c, _ := genCase(rng.Split(), w)
			r.Tried++
			if f, _ := propCheck(c.Ops); f != "" {
				report(c.Ops)
				done = true
			}
			if hangs > 3 {
				break
			}
		}
	}
	b, _ := json.MarshalIndent(r, "", " ")
	os.MkdirAll(o.Out, 0755)
	os.WriteFile(o.Out+"/hunt.json", b, 0644)
}
