// C19 harness, round 7: directed history families and a read-only detector.
//
//	(a) deletions that reach a DOUBLE rotation (rotateLR / rotateRL) from the delete path
//	    (balance1 / balance2, also inside the predecessor extraction deleteRec) whose pivot a2
//	    has balance 0 AND two children — a configuration the insert path never produces (there a
//	    balanced pivot is the freshly inserted leaf);
//	(b) SafeIteratorFrom(lo) followed by insertions / deletions on the ORIGINAL tree right at and
//	    after the cursor, interleaved with Next() on the safe iterator (clone independence under
//	    modification of the source DURING the iteration).
package main

import (
	"math"

	. "adharness/common"

	ad "github.com/pbenner/autodiff"
)

// ---- detector: would Delete(i) run a double rotation with a balanced two-child pivot? -------
// Read-only mirror of the control flow of delete / deleteRec / balance1 / balance2 of
// avl-tree.go: the balance fields a rebalancing step reads are those of the node itself and of
// the subtree on the side the recursion did NOT enter, which the recursion leaves untouched.
// It only feeds coverage counters (how often the generated histories reach the configuration).

// dblPivotHits counts, per history, the deletions that reach the configuration
var dblPivotHits int

// sglBalancedHits counts the deletions that reach a SINGLE rotation (rotateRR / rotateLL) with a
// balanced child: the height-preserving case of balance1 / balance2 (balances rewritten to -1 / +1)
var sglBalancedHits int

func twoChildBalanced(n *ad.AvlNode) bool {
	return n != nil && n.Balance == 0 && n.Left != nil && n.Right != nil
}

// left side of obj shrank
func simBalance1(obj *ad.AvlNode) (shrinks, hit bool) {
	switch obj.Balance {
	case -1:
		return true, false
	case 0:
		return false, false
	case 1:
		if obj.Right == nil {
			return true, false
		}
		if b := obj.Right.Balance; b >= 0 {
			if b == 0 {
				sglBalancedHits++
			}
			return b != 0, false
		}
		return true, twoChildBalanced(obj.Right.Left)
	}
	return true, false
}

// right side of obj shrank
func simBalance2(obj *ad.AvlNode) (shrinks, hit bool) {
	switch obj.Balance {
	case 1:
		return true, false
	case 0:
		return false, false
	case -1:
		if obj.Left == nil {
			return true, false
		}
		if b := obj.Left.Balance; b <= 0 {
			if b == 0 {
				sglBalancedHits++
			}
			return b != 0, false
		}
		return true, twoChildBalanced(obj.Left.Right)
	}
	return true, false
}

func simDelRec(obj *ad.AvlNode, depth int) (shrinks, hit bool) {
	if obj.Right != nil && depth < 200 {
		s, h := simDelRec(obj.Right, depth+1)
		if s {
			s2, h2 := simBalance2(obj)
			return s2, h || h2
		}
		return s, h
	}
	return true, false
}

func simDel(n *ad.AvlNode, i int, depth int) (found, shrinks, hit bool) {
	if n == nil || depth > 200 {
		return false, false, false
	}
	if i < n.Value {
		f, s, h := simDel(n.Left, i, depth+1)
		if f && s {
			s2, h2 := simBalance1(n)
			return true, s2, h || h2
		}
		return f, false, h
	}
	if i > n.Value {
		f, s, h := simDel(n.Right, i, depth+1)
		if f && s {
			s2, h2 := simBalance2(n)
			return true, s2, h || h2
		}
		return f, false, h
	}
	if n.Left == nil || n.Right == nil {
		return true, true, false
	}
	s, h := simDelRec(n.Left, depth+1)
	if s {
		s2, h2 := simBalance1(n)
		return true, s2, h || h2
	}
	return true, false, h
}

func noteDelete(t *ad.AvlTree, i int) {
	defer func() { recover() }()
	if _, _, hit := simDel(t.Root, i, 0); hit {
		dblPivotHits++
	}
}

// ---- (a) templates ----------------------------------------------------------------------------
// AVL shapes inserted in breadth-first order (no rotation happens while building them), then
// ONE deletion that shrinks the low side of a node whose high side leans inwards with a
// balanced two-child pivot.  key -> sign*scale*key + off also yields the mirror images
// (rotateLR <-> rotateRL, balance2 <-> balance1).
type delTemplate struct {
	name     string
	ins      []int64
	del      int64
	nomirror bool // two-children deletes always extract the PREDECESSOR: the mirror image is not the configuration
}

var delTemplates = []delTemplate{
	// delete a leaf of the short side: balance2 -> rotateLR at the root, pivot 30 (25, 35)
	{"leaf-root", []int64{50, 20, 60, 10, 30, 70, 25, 35}, 70, false},
	// two-children delete of the root: predecessor extraction shrinks the left side,
	// balance1 on the replaced node -> rotateRL, pivot 70 (65, 75)
	{"twochild-root", []int64{50, 40, 80, 30, 70, 90, 65, 75}, 50, true},
	// the same configuration one level below the root (the rotated subtree shrinks, the root absorbs it)
	{"leaf-deep", []int64{100, 50, 140, 20, 60, 120, 160, 10, 30, 70, 110, 130, 150, 170, 25, 35}, 70, false},
	// inside deleteRec: the extracted predecessor 70 shrinks 60, balance2 at 50 -> rotateLR, pivot 30
	{"extract-deep", []int64{200, 50, 240, 20, 60, 220, 260, 10, 30, 70, 210, 230, 250, 270, 25, 35}, 200, true},
	// one-child delete (60 has only 70): its subtree shrinks, balance2 -> rotateLR at the root
	{"onechild-root", []int64{50, 20, 60, 10, 30, 70, 25, 35}, 60, false},
}

// dirKeys: the keys of the current directed history (tail operations pick keys at / next to them)
var dirKeys []int64

func genDirKey(r *Rng) int64 {
	if len(dirKeys) == 0 {
		return int64(r.Intn(48))
	}
	return dirKeys[r.Intn(len(dirKeys))] + int64(r.Intn(3)) - 1
}

// directedDelete: the operation prefix of family (a); returns ops and the number of iterators created
func directedDelete(r *Rng, w *CaseWriter) ([]Op, int) {
	tp := delTemplates[r.Intn(len(delTemplates))]
	sign, scale, off := int64(1), int64(r.Range(1, 3)), int64(r.Intn(81))-40
	tag := tp.name
	if r.Bool() && !tp.nomirror {
		sign = -1
		tag += "-mirror"
	}
	f := func(k int64) int64 { return sign*scale*k + off }
	var ops []Op
	dirKeys = dirKeys[:0]
	for _, k := range tp.ins {
		ops = append(ops, Op{"Ins", 0, f(k)})
		dirKeys = append(dirKeys, f(k))
	}
	niters := 0
	// a live iterator positioned somewhere in the tree while the rotation swaps values
	if r.Intn(3) > 0 {
		ops = append(ops, Op{"ItFrom", 0, genDirKey(r)})
		niters++
		for j := r.Intn(3); j > 0; j-- {
			ops = append(ops, Op{"Next", 0, 0})
		}
	}
	ops = append(ops, Op{"Del", 0, f(tp.del)})
	w.Count("directed:del-" + tag)
	return ops, niters
}

// safeFromBurst: family (b). SafeIteratorFrom(lo) on tree t (iterator index = niters), then
// insertions / deletions on t at lo .. lo+span interleaved with Next() on the safe iterator.
func safeFromBurst(r *Rng, t int, niters int, key func() int64) []Op {
	lo := key()
	ops := []Op{{"SafeItFrom", t, lo}}
	m := r.Range(6, 16)
	near := func() int64 {
		if len(dirKeys) > 0 && r.Bool() {
			return genDirKey(r)
		}
		d := int64(r.Intn(9))
		if lo > math.MaxInt64-16 { // no wrap at the int64 extremes
			return lo - d
		}
		return lo + d
	}
	for j := 0; j < m; j++ {
		switch r.Pick([]int{3, 3, 4}) {
		case 0:
			ops = append(ops, Op{"Ins", t, near()})
		case 1:
			ops = append(ops, Op{"Del", t, near()})
		case 2:
			ops = append(ops, Op{"Next", niters, 0})
		}
	}
	return ops
}
