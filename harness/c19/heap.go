package main

// Pointer-level observation of the implementation's heap: every node object the
// harness has ever seen gets an address in allocation order (the order the
// pointer-level model coq/C19/ModelW.v allocates: Insert = one new object, Clone =
// the copy's objects in preorder), and after every step the whole heap — for every
// tree the reachable objects in preorder with Value, Balance, Deleted and the
// addresses of Left/Right/Parent, the objects unlinked from that tree with the
// fields they were left with, and for every iterator the tree, the address of its
// node and its value — is folded into one checksum that Coq recomputes from the
// model.  Addresses are only compared through this numbering, never as raw values.

import (
	ad "github.com/pbenner/autodiff"
)

type nodeInfo struct{ addr, region int }

type tracker struct {
	reg   map[*ad.AvlNode]nodeInfo
	byReg [][]*ad.AvlNode // every object ever reachable from tree j, in registration order
	gnx   int
	bad   int64
}

func newTracker() *tracker { return &tracker{reg: map[*ad.AvlNode]nodeInfo{}} }

const walkGuard = 20000

// preorder walk with a guard against cycles (broken links in a mutated library)
func preorder(n *ad.AvlNode, f func(*ad.AvlNode), budget *int) {
	if n == nil || *budget <= 0 {
		return
	}
	*budget--
	f(n)
	preorder(n.Left, f, budget)
	preorder(n.Right, f, budget)
}

func (tk *tracker) scan(trees []*ad.AvlTree) {
	for len(tk.byReg) < len(trees) {
		tk.byReg = append(tk.byReg, nil)
	}
	for j, t := range trees {
		budget := walkGuard
		preorder(t.Root, func(n *ad.AvlNode) {
			if _, ok := tk.reg[n]; !ok {
				tk.reg[n] = nodeInfo{tk.gnx, j}
				tk.byReg[j] = append(tk.byReg[j], n)
				tk.gnx++
			}
		}, &budget)
	}
}

// 0 = nil, addr+1 otherwise; an object the harness never saw poisons the checksum
func (tk *tracker) optz(n *ad.AvlNode) int64 {
	if n == nil {
		return 0
	}
	if i, ok := tk.reg[n]; ok {
		return int64(i.addr) + 1
	}
	tk.bad++
	return 0
}

func (tk *tracker) cellHash(h int64, n *ad.AvlNode) int64 {
	d := int64(0)
	if n.Deleted {
		d = 3
	}
	return (h*1000003 + int64(tk.reg[n].addr)*7 + mod(int64(n.Value))*13 + int64(n.Balance+2)*5 + d +
		tk.optz(n.Left)*11 + tk.optz(n.Right)*17 + tk.optz(n.Parent)*19 + 1) % HP
}

func (tk *tracker) regionHash(j int, t *ad.AvlTree) int64 {
	live := int64(17)
	reached := map[*ad.AvlNode]bool{}
	budget := walkGuard
	preorder(t.Root, func(n *ad.AvlNode) {
		if reached[n] || tk.reg[n].region != j {
			tk.bad++ // an object reachable twice, or reachable from two trees
		}
		reached[n] = true
		live = tk.cellHash(live, n)
	}, &budget)
	if budget <= 0 {
		tk.bad++
	}
	dead := int64(0)
	for _, n := range tk.byReg[j] {
		if !reached[n] {
			dead = (dead + tk.cellHash(0, n)) % HP
		}
	}
	return (live*31 + dead) % HP
}

func (tk *tracker) worldHash(trees []*ad.AvlTree, iters []*ad.AvlIterator) int64 {
	tk.bad = 0
	h := int64(tk.gnx)
	for j, t := range trees {
		h = (h*131 + tk.regionHash(j, t)) % HP
	}
	for _, it := range iters {
		ti := int64(-1)
		for j, t := range trees {
			if ad.VerifC19IterTree(it) == t {
				ti = int64(j)
			}
		}
		if ti < 0 {
			tk.bad++
			ti = 0
		}
		h = (h*137 + ti*3 + tk.optz(ad.VerifC19IterNode(it))*5 + mod(int64(it.Get()))) % HP
	}
	if tk.bad != 0 {
		return -tk.bad
	}
	return h
}
