// C18 harness — building Go objects from recipes, observing their state (reflection,
// read-only), mirror-decoding documents, running one case.
package main

import (
	"encoding/json"
	"fmt"
	"math"
	"reflect"
	"sort"
	"strings"

	. "adharness/common"

	ad "github.com/pbenner/autodiff"
)

// ---------------------------------------------------------------- setting elements

func setPlain(s ad.Scalar, et EType, e El) {
	if et.Kind == "int" {
		s.SetInt64(e.Z)
	} else {
		s.SetFloat64(e.F)
	}
}
func setReal(s ad.Scalar, et EType, r RealV) {
	m := s.(ad.MagicScalar)
	m.SetFloat64(r.Val.F)
	m.Alloc(r.N, r.Order)
	if r.Order >= 1 {
		for i := 0; i < r.N; i++ {
			m.SetDerivative(i, r.D[i].F)
		}
	}
	if r.Order >= 2 {
		for i := 0; i < r.N; i++ {
			for j := 0; j < r.N; j++ {
				m.SetHessian(i, j, r.H[i][j].F)
			}
		}
	}
}
func setElem(s ad.Scalar, et EType, e Elem) {
	if et.Real {
		setReal(s, et, *e.R)
	} else {
		setPlain(s, et, e.P)
	}
}
func newScalar(et EType) ad.Scalar {
	switch et.Name {
	case "Real64":
		return ad.NewReal64(0)
	case "Real32":
		return ad.NewReal32(0)
	}
	return ad.NewScalar(et.T, 0)
}
func newConst(et EType, e El) ad.ConstScalar {
	switch et.Name {
	case "Float64":
		return ad.NewConstFloat64(e.F)
	case "Float32":
		return ad.NewConstFloat32(float32(e.F))
	case "Int":
		return ad.NewConstInt(int(e.Z))
	case "Int64":
		return ad.NewConstInt64(e.Z)
	case "Int32":
		return ad.NewConstInt32(int32(e.Z))
	case "Int16":
		return ad.NewConstInt16(int16(e.Z))
	case "Int8":
		return ad.NewConstInt8(int8(e.Z))
	}
	return ad.NewConstFloat64(e.F)
}

// ---------------------------------------------------------------- observing state (read-only reflection)

func obsRV(rv reflect.Value) Elem {
	switch rv.Kind() {
	case reflect.Float32, reflect.Float64:
		return Elem{P: El{F: rv.Float()}}
	case reflect.Int, reflect.Int8, reflect.Int16, reflect.Int32, reflect.Int64:
		return Elem{P: El{Int: true, Z: rv.Int()}}
	case reflect.Interface:
		return obsRV(rv.Elem())
	case reflect.Ptr:
		if rv.IsNil() {
			return Elem{R: &RealV{Order: -99}} // nil element: never equal to a model value
		}
		return obsRV(rv.Elem())
	case reflect.Struct:
		if f := rv.FieldByName("ptr"); f.IsValid() {
			return obsRV(f.Elem())
		}
		// Real32 / Real64
		r := RealV{Val: obsRV(rv.FieldByName("Value")).P, Order: int(rv.FieldByName("Order").Int()), N: int(rv.FieldByName("N").Int())}
		d := rv.FieldByName("Derivative")
		r.D = make([]El, d.Len())
		for i := range r.D {
			r.D[i] = obsRV(d.Index(i)).P
		}
		h := rv.FieldByName("Hessian")
		r.H = make([][]El, h.Len())
		for i := range r.H {
			row := h.Index(i)
			r.H[i] = make([]El, row.Len())
			for j := range r.H[i] {
				r.H[i][j] = obsRV(row.Index(j)).P
			}
		}
		return Elem{R: &r}
	}
	panic(fmt.Sprintf("obsRV: unexpected kind %v", rv.Kind()))
}

func obsDv(v interface{}) []Elem {
	rv := reflect.ValueOf(v)
	if rv.Kind() == reflect.Ptr {
		rv = rv.Elem()
	}
	out := make([]Elem, rv.Len())
	for i := range out {
		out[i] = obsRV(rv.Index(i))
	}
	return out
}
func obsSvRV(rv reflect.Value) SvState {
	if rv.Kind() == reflect.Ptr {
		rv = rv.Elem()
	}
	m := rv.FieldByName("values")
	keys := m.MapKeys()
	st := SvState{N: rv.FieldByName("n").Int()}
	for _, k := range keys {
		st.Ents = append(st.Ents, Ent{K: k.Int(), E: obsRV(m.MapIndex(k))})
	}
	sort.Slice(st.Ents, func(i, j int) bool { return st.Ents[i].K < st.Ents[j].K })
	return st
}
func obsDm(m interface{}) DmState {
	rv := reflect.ValueOf(m).Elem()
	g := func(n string) int64 { return rv.FieldByName(n).Int() }
	st := DmState{Rows: g("rows"), Cols: g("cols"), Roff: g("rowOffset"), Rmax: g("rowMax"), Coff: g("colOffset"), Cmax: g("colMax"),
		Tr: rv.FieldByName("transposed").Bool()}
	vals := rv.FieldByName("values")
	st.Vals = make([]Elem, vals.Len())
	for i := range st.Vals {
		st.Vals[i] = obsRV(vals.Index(i))
	}
	return st
}
func obsSm(m interface{}) SmState {
	rv := reflect.ValueOf(m).Elem()
	g := func(n string) int64 { return rv.FieldByName(n).Int() }
	return SmState{St: obsSvRV(rv.FieldByName("values")), Rows: g("rows"), Cols: g("cols"), Roff: g("rowOffset"), Rmax: g("rowMax"),
		Coff: g("colOffset"), Cmax: g("colMax")}
}

// ---------------------------------------------------------------- mirror decoding (layer iii: encoding/json into the same struct shapes)

func elOK(et EType, e El) bool {
	switch et.Kind {
	case "f32":
		return math.Abs(e.F) <= math.MaxFloat32
	case "int":
		if et.Bits < 64 {
			lim := int64(1) << uint(et.Bits-1)
			return e.Z >= -lim && e.Z < lim
		}
	}
	return true
}
func elOfF(et EType, f float64) El {
	if et.Kind == "f32" {
		return El{F: float64(float32(f))}
	}
	return El{F: f}
}

// decode a JSON number list at the element type; ok=false when encoding/json would fail
func decEls(et EType, raw json.RawMessage) ([]El, bool, bool) { // values, present(non-null), ok
	if raw == nil || string(raw) == "null" {
		return nil, false, true
	}
	if et.Kind == "int" {
		var xs []int64
		if json.Unmarshal(raw, &xs) != nil {
			return nil, true, false
		}
		out := make([]El, len(xs))
		for i, x := range xs {
			out[i] = El{Int: true, Z: x}
			if !elOK(et, out[i]) {
				return nil, true, false
			}
		}
		return out, true, true
	}
	if et.Kind == "f32" {
		var xs []float32
		if json.Unmarshal(raw, &xs) != nil {
			return nil, true, false
		}
		out := make([]El, len(xs))
		for i, x := range xs {
			out[i] = El{F: float64(x)}
		}
		return out, true, true
	}
	var xs []float64
	if json.Unmarshal(raw, &xs) != nil {
		return nil, true, false
	}
	out := make([]El, len(xs))
	for i, x := range xs {
		out[i] = El{F: x}
	}
	return out, true, true
}
func decEl(et EType, raw json.RawMessage) (El, bool) {
	xs, _, ok := decEls(et, json.RawMessage("["+string(raw)+"]"))
	if !ok || len(xs) != 1 || string(raw) == "null" {
		if string(raw) == "null" {
			return zeroEl(et), true
		}
		return El{}, false
	}
	return xs[0], true
}
func decSdoc(et EType, data []byte) (Sdoc, bool) {
	r := struct {
		Value      json.RawMessage
		Derivative json.RawMessage
		Hessian    json.RawMessage
	}{}
	if err := json.Unmarshal(data, &r); err == nil {
		d := Sdoc{}
		ok := true
		if r.Value == nil {
			d.V = zeroEl(et)
		} else if d.V, ok = decEl(et, r.Value); !ok {
			return d, false
		}
		var ok1 bool
		if d.D, d.HasD, ok1 = decEls(et, r.Derivative); !ok1 {
			return d, false
		}
		if r.Hessian != nil && string(r.Hessian) != "null" {
			var rows []json.RawMessage
			if json.Unmarshal(r.Hessian, &rows) != nil {
				return d, false
			}
			d.HasH = true
			d.H = make([][]El, len(rows))
			for i, row := range rows {
				xs, _, ok2 := decEls(et, row)
				if !ok2 {
					return d, false
				}
				if xs == nil {
					xs = []El{}
				}
				d.H[i] = xs
			}
		}
		return d, true
	}
	v, ok := decEl(et, data)
	if !ok || string(data) == "null" {
		return Sdoc{}, false
	}
	return Sdoc{Num: true, V: v}, true
}

type mirrorSv struct {
	Index  []int64
	Value  json.RawMessage
	Length int64
}
type mirrorSm struct {
	Index []int64
	Value json.RawMessage
	Rows  int64
	Cols  int64
}
type mirrorDm struct {
	Values []json.RawMessage
	Rows   int64
	Cols   int64
}

func decSvDoc(et EType, data []byte) (string, bool) {
	var r mirrorSv
	if json.Unmarshal(data, &r) != nil {
		return "", false
	}
	vals, _, ok := decEls(et, r.Value)
	if !ok {
		return "", false
	}
	return fmt.Sprintf("(mkSvDoc %s %s %s)", ZList(r.Index), elsCoq(vals), Z(r.Length)), true
}
func decSmDoc(et EType, data []byte) (string, bool) {
	var r mirrorSm
	if json.Unmarshal(data, &r) != nil {
		return "", false
	}
	vals, _, ok := decEls(et, r.Value)
	if !ok {
		return "", false
	}
	return fmt.Sprintf("(mkSmDoc %s %s %s %s)", ZList(r.Index), elsCoq(vals), Z(r.Rows), Z(r.Cols)), true
}
func decElemDocs(et EType, raws []json.RawMessage) (string, bool) {
	xs := make([]string, len(raws))
	for i, raw := range raws {
		if et.Real {
			if string(raw) == "null" {
				return "", false // a nil element: not representable, the generator never produces it
			}
			d, ok := decSdoc(et, raw)
			if !ok {
				return "", false
			}
			xs[i] = d.Coq()
		} else {
			e, ok := decEl(et, raw)
			if !ok {
				return "", false
			}
			xs[i] = e.Coq()
		}
	}
	return List(xs), true
}
func decDvDoc(et EType, data []byte) (string, bool) {
	var raws []json.RawMessage
	if json.Unmarshal(data, &raws) != nil {
		return "", false
	}
	return decElemDocs(et, raws)
}
func decDmDoc(et EType, data []byte) (string, bool) {
	var r mirrorDm
	if json.Unmarshal(data, &r) != nil {
		return "", false
	}
	vs, ok := decElemDocs(et, r.Values)
	if !ok {
		return "", false
	}
	return fmt.Sprintf("(mkDmDoc %s %s %s)", vs, Z(r.Rows), Z(r.Cols)), true
}
func decDoc(kind string, et EType, data []byte) (string, bool) {
	switch kind {
	case "plain":
		e, ok := decEl(et, data)
		if !ok || string(data) == "null" {
			return "", false
		}
		return e.Coq(), true
	case "real":
		d, ok := decSdoc(et, data)
		return d.Coq(), ok
	case "dv":
		return decDvDoc(et, data)
	case "sv":
		return decSvDoc(et, data)
	case "dm":
		return decDmDoc(et, data)
	case "sm":
		return decSmDoc(et, data)
	}
	return "", false
}

// ---------------------------------------------------------------- building objects

type Built struct {
	Obj    interface{} // the Go object (json.Marshaler)
	Target interface{} // a fresh object to unmarshal into (pointer)
	Get    func() interface{}
}

func freshTarget(kind string, et EType) (interface{}, func() interface{}) {
	switch kind {
	case "plain":
		s := newScalar(et)
		p := reflect.New(reflect.TypeOf(s))
		p.Elem().Set(reflect.ValueOf(s))
		return p.Interface(), func() interface{} { return s }
	case "real":
		s := newScalar(et)
		return s, func() interface{} { return s }
	case "dv":
		v := ad.NullDenseVector(et.T, 0)
		p := reflect.New(reflect.TypeOf(v))
		return p.Interface(), func() interface{} { return p.Elem().Interface() }
	case "sv":
		v := ad.NullSparseVector(et.T, 0)
		return v, func() interface{} { return v }
	case "dm":
		m := ad.NullDenseMatrix(et.T, 0, 0)
		return m, func() interface{} { return m }
	case "sm":
		m := ad.NullSparseMatrix(et.T, 0, 0)
		return m, func() interface{} { return m }
	}
	panic("freshTarget: " + kind)
}

func build(rc Recipe, et EType) interface{} {
	switch rc.Kind {
	case "plain":
		s := newScalar(et)
		setPlain(s, et, rc.Els[0].P)
		return s
	case "const":
		return newConst(et, rc.Els[0].P)
	case "real":
		s := newScalar(et)
		setReal(s, et, *rc.Els[0].R)
		return s
	case "dv":
		v := ad.NullDenseVector(et.T, len(rc.Els))
		for i, e := range rc.Els {
			setElem(v.At(i), et, e)
		}
		return v
	case "sv":
		v := ad.NullSparseVector(et.T, rc.N)
		for _, e := range rc.Ents {
			setElem(v.At(int(e.K)), et, e.E)
		}
		return v
	case "dm":
		m := ad.NullDenseMatrix(et.T, rc.R0, rc.C0)
		for k, e := range rc.Els {
			setElem(m.At(k/rc.C0, k%rc.C0), et, e)
		}
		buildParent = m
		for _, o := range rc.Ops {
			if o.Tip {
				m.(interface{ Tip() }).Tip()
			} else if o.T {
				m = m.T()
			} else {
				m = m.Slice(o.Rf, o.Rt, o.Cf, o.Ct)
			}
		}
		return m
	case "sm":
		m := ad.NullSparseMatrix(et.T, rc.R0, rc.C0)
		for _, e := range rc.Ents {
			setElem(m.At(int(e.K)/rc.C0, int(e.K)%rc.C0), et, e.E)
		}
		buildParent = m
		for _, o := range rc.Ops {
			m = m.Slice(o.Rf, o.Rt, o.Cf, o.Ct)
		}
		return m
	}
	panic("build: " + rc.Kind)
}

// observed state as a Coq term; input=true prints sparse elements as the model's input type
func stateCoq(kind string, et EType, obj interface{}, input bool) string {
	switch kind {
	case "plain", "const":
		if c, ok := obj.(ad.ConstScalar); ok {
			if et.Kind == "int" {
				return El{Int: true, Z: c.GetInt64()}.Coq()
			}
			return El{F: c.GetFloat64()}.Coq()
		}
	case "real":
		return obsRV(reflect.ValueOf(obj)).Coq()
	case "dv":
		return elemsCoq(obsDv(obj))
	case "sv":
		return obsSvRV(reflect.ValueOf(obj)).Coq(input)
	case "dm":
		return obsDm(obj).Coq()
	case "sm":
		return obsSm(obj).Coq(input)
	}
	panic("stateCoq: " + kind)
}

func guard(f func() error) (kind string, msg string) {
	defer func() {
		if r := recover(); r != nil {
			kind, msg = "panic", fmt.Sprint(r)
		}
	}()
	if err := f(); err != nil {
		return "err", err.Error()
	}
	return "ok", ""
}

func baseKind(k string) string {
	if len(k) > 4 && k[:4] == "mal-" {
		return k[4:]
	}
	return k
}

// Result of running one recipe on the implementation.
type Result struct {
	Coq      string    // the Coq case term
	Key      string    // structural key
	Nontriv  bool
	Failures []Failure // property-level failures seen by the oracle (independent of the Coq model)
	Hist     []string
}

func ctorSuffix(kind string, et EType) string {
	switch kind {
	case "dv", "dm":
		if et.Real {
			return "R"
		}
		return "P"
	}
	return ""
}
func ctorName(kind string) string {
	return map[string]string{"plain": "Plain", "const": "Const", "real": "Real", "dv": "Dv", "sv": "Sv", "dm": "Dm", "sm": "Sm"}[kind]
}

func runRecipe(rc Recipe) (res Result) {
	if _, _, ok := tableKind(rc.Kind); ok {
		return runTable(rc)
	}
	if strings.HasPrefix(rc.Kind, "reg-") {
		return runRegistry(rc)
	}
	if strings.HasPrefix(rc.Kind, "vcfg") {
		return runVConfig(rc)
	}
	if strings.HasPrefix(rc.Kind, "cfg") {
		return runConfig(rc)
	}
	if _, _, ok := recvKind(rc.Kind); ok {
		return runRecv(rc)
	}
	et := etypeByName(rc.Type)
	kind := baseKind(rc.Kind)
	res.Key = rc.Kind + "/" + rc.Type
	if kind != rc.Kind {
		return runMalformed(rc, et, kind)
	}
	if kind == "const" {
		return runConst(rc, et)
	}
	obj := build(rc, et)
	in := stateCoq(kind, et, obj, true)
	var data []byte
	wk, wmsg := guard(func() error {
		var err error
		data, err = json.Marshal(obj)
		return err
	})
	gw := Outcome{Kind: wk, Msg: wmsg}
	gr := Outcome{Kind: "err"}
	var back interface{}
	if wk == "ok" {
		term, ok := decDoc(kind, et, data)
		if !ok {
			// the writer produced something the mirror decoder rejects: report as a distinct outcome
			gw = Outcome{Kind: "crash", Msg: "writer output not decodable: " + string(data)}
		} else {
			gw.Term = term
			target, get := freshTarget(kind, et)
			rk, rmsg := guard(func() error { return json.Unmarshal(data, target) })
			gr = Outcome{Kind: rk, Msg: rmsg}
			if rk == "ok" {
				back = get()
				gr.Term = stateCoq(kind, et, back, false)
			}
		}
	}
	name := "Rt" + ctorName(kind) + ctorSuffix(kind, et)
	switch kind {
	case "dm":
		res.Coq = fmt.Sprintf("%s %s %d %d %s %s %s %s", name, zeroEl(et).Coq(), rc.R0, rc.C0, opsCoq(rc.Ops), in, gw.Coq(), gr.Coq())
	case "sm":
		res.Coq = fmt.Sprintf("%s %d %d %s %s %s %s", name, rc.R0, rc.C0, opsCoq(rc.Ops), in, gw.Coq(), gr.Coq())
	default:
		res.Coq = fmt.Sprintf("%s %s %s %s", name, in, gw.Coq(), gr.Coq())
	}
	res.Hist = append(res.Hist, "rt/"+kind+"/"+rc.Type, "write:"+gw.Kind)
	if gw.Kind == "ok" {
		res.Hist = append(res.Hist, "read:"+gr.Kind)
	}
	res.Failures = oracleRoundTrip(rc, et, kind, obj, gw, gr, back)
	res.Key += fmt.Sprintf("/%d/%s/%s", len(data), gw.Kind, gr.Kind)
	res.Nontriv = gw.Kind == "ok" && gr.Kind == "ok" && len(data) > 4
	return res
}

func runMalformed(rc Recipe, et EType, kind string) (res Result) {
	data := []byte(rc.Bytes)
	term, ok := decDoc(kind, et, data)
	doc := Outcome{Kind: "err"}
	if ok {
		doc = Outcome{Kind: "ok", Term: term}
	}
	target, get := freshTarget(kind, et)
	rk, rmsg := guard(func() error { return json.Unmarshal(data, target) })
	gr := Outcome{Kind: rk, Msg: rmsg}
	var back interface{}
	if rk == "ok" {
		back = get()
		gr.Term = stateCoq(kind, et, back, false)
	}
	name := "Mal" + ctorName(kind) + ctorSuffix(kind, et)
	res.Coq = fmt.Sprintf("%s %s %s", name, doc.Coq(), gr.Coq())
	res.Key = fmt.Sprintf("%s/%s/%s/%s/%d", rc.Kind, rc.Type, rc.Mut, gr.Kind, len(data))
	res.Nontriv = ok
	res.Hist = append(res.Hist, "mal/"+kind+"/"+rc.Type, "mal-read:"+gr.Kind, "mut:"+rc.Mut)
	res.Failures = oracleMalformed(rc, et, kind, gr, back)
	return res
}
