// C18 harness: serialisation round trips and malformed documents on the
// implementation in /repo, written as Coq cases for coq/C18/Corr.v, plus the
// property-level oracle (oracle.go).
//
//   c18 --seed S --n N --out DIR --tier T [--extra CORPUS.jsonl]   correspondence cases + oracle verdicts
//   c18 --extra hunt --n N --seed S --out DIR                       oracle only, more cases, shrinks what it finds
//   c18 --replay FILE --out DIR                                     re-execute one recipe (replay_0.v + oracle verdict)
package main

import (
	"bufio"
	"encoding/json"
	"fmt"
	"math"
	"os"
	"path/filepath"
	"strconv"
	"strings"

	. "adharness/common"
)

const header = "From Coq Require Import ZArith List Bool Floats.\nFrom ADV Require Import C18.Model C18.Corr.\nImport ListNotations.\nOpen Scope Z_scope.\n"

// ---------------------------------------------------------------- element generators

var f64special = []float64{0, math.Copysign(0, -1), 1, -1, 0.1, -0.3, 1.0 / 3, 5e-324, -5e-324, 2.2250738585072014e-308,
	2.225073858507201e-308, math.MaxFloat64, -math.MaxFloat64, 1e308, 1e-308, 9007199254740993, 4503599627370497.5, 1e21, 1e-7,
	123456789.125, 6.02214076e23, 0x1p-1074, 0x1.fffffffffffffp+1023, 0x1p-1022, 0x1p+1023, 100, 1e20, 1e21 - 65536}
var f32special = []float32{0, float32(math.Copysign(0, -1)), 1, -1, 0.1, 1.0 / 3, 1e-45, -1e-45, 1.17549435e-38, 1.1754942e-38,
	math.MaxFloat32, -math.MaxFloat32, 16777216, 16777217, 1e21, 1e-7, 8388608.5, 3.4e38, 33554434}

func genF(r *Rng, et EType, allowNonFinite bool) float64 {
	if allowNonFinite && r.Intn(40) == 0 {
		return []float64{math.NaN(), math.Inf(1), math.Inf(-1)}[r.Intn(3)]
	}
	if et.Kind == "f32" {
		switch r.Intn(4) {
		case 0:
			return float64(f32special[r.Intn(len(f32special))])
		case 1:
			return float64(r.Range(-9, 9))
		case 2:
			for {
				x := math.Float32frombits(uint32(r.U64()))
				if !math.IsNaN(float64(x)) && !math.IsInf(float64(x), 0) {
					return float64(x)
				}
			}
		}
		return float64(float32((r.Float() - 0.5) * 200))
	}
	switch r.Intn(5) {
	case 0:
		return f64special[r.Intn(len(f64special))]
	case 1:
		return float64(r.Range(-9, 9))
	case 2:
		for {
			x := math.Float64frombits(r.U64())
			if !math.IsNaN(x) && !math.IsInf(x, 0) {
				return x
			}
		}
	case 3:
		return math.Ldexp(r.Float()+0.5, r.Range(-1074, 1023))
	}
	return (r.Float() - 0.5) * 200
}
func genZ(r *Rng, et EType) int64 {
	lim := int64(math.MaxInt64)
	lo := int64(math.MinInt64)
	if et.Bits < 64 {
		lim = int64(1)<<uint(et.Bits-1) - 1
		lo = -lim - 1
	}
	switch r.Intn(5) {
	case 0:
		return []int64{lim, lo, lim - 1, lo + 1, 0, 1, -1}[r.Intn(7)]
	case 1:
		x := int64(r.U64())
		if et.Bits < 64 {
			x = x >> uint(64-et.Bits)
		}
		return x
	case 2:
		if et.Bits == 64 {
			return []int64{9007199254740993, -9007199254740993, 1 << 53, 1<<62 + 1}[r.Intn(4)]
		}
	}
	return int64(r.Range(-9, 9))
}
func genEl(r *Rng, et EType, nonFinite bool) El {
	if et.Kind == "int" {
		return El{Int: true, Z: genZ(r, et)}
	}
	return El{F: genF(r, et, nonFinite)}
}

// derivative entries: mostly small so that zero patterns are frequent
func genD(r *Rng, et EType, pzero int) El {
	if r.Intn(100) < pzero {
		if r.Intn(6) == 0 {
			return El{F: math.Copysign(0, -1)}
		}
		return El{}
	}
	return El{F: genF(r, et, false)}
}
func genReal(r *Rng, et EType, nonFinite bool) RealV {
	rv := RealV{Val: El{F: genF(r, et, nonFinite)}}
	rv.Order = r.Pick([]int{2, 3, 5})
	rv.N = r.Pick([]int{1, 3, 4, 2})
	pzD := []int{0, 30, 100, 100}[r.Intn(4)] // gradient pattern: dense, mixed, all zero, all zero
	pzH := []int{0, 50, 100}[r.Intn(3)]
	if rv.Order >= 1 {
		rv.D = make([]El, rv.N)
		for i := range rv.D {
			rv.D[i] = genD(r, et, pzD)
		}
	}
	if rv.Order >= 2 {
		rv.H = make([][]El, rv.N)
		for i := range rv.H {
			rv.H[i] = make([]El, rv.N)
			for j := range rv.H[i] {
				rv.H[i][j] = genD(r, et, pzH)
			}
		}
	}
	return rv
}
func genElem(r *Rng, et EType, nonFinite bool) Elem {
	if et.Real {
		rv := genReal(r, et, nonFinite)
		return Elem{R: &rv}
	}
	return Elem{P: genEl(r, et, nonFinite)}
}

// sparse containers: explicit zeros are stored entries too
func genSparseElem(r *Rng, et EType) Elem {
	if r.Intn(5) == 0 {
		if et.Real {
			rv := genReal(r, et, false)
			rv.Val = El{}
			return Elem{R: &rv}
		}
		z := zeroEl(et)
		if !z.Int && r.Bool() {
			z.F = math.Copysign(0, -1)
		}
		return Elem{P: z}
	}
	return genElem(r, et, r.Intn(30) == 0)
}

func pickType(r *Rng, realOnly, plainOnly bool) EType {
	for {
		et := etypes[r.Pick([]int{3, 3, 2, 2, 2, 2, 2, 2, 2})]
		if realOnly && !et.Real || plainOnly && et.Real {
			continue
		}
		return et
	}
}

// ---------------------------------------------------------------- round-trip recipes

func genOps(r *Rng, rows, cols int, allowT bool) []Op {
	var ops []Op
	if allowT && r.Intn(5) == 0 { // a pure transpose: the only view that keeps rowMax == rows and colMax == cols
		return []Op{{T: true}}
	}
	n := r.Pick([]int{3, 4, 3, 2})
	for k := 0; k < n; k++ {
		if allowT && r.Intn(3) == 0 {
			ops = append(ops, Op{T: true})
			rows, cols = cols, rows
			continue
		}
		rf := r.Range(0, rows)
		rt := r.Range(rf, rows)
		cf := r.Range(0, cols)
		ct := r.Range(cf, cols)
		if r.Intn(3) > 0 && rows > 0 && cols > 0 { // mostly non-empty slices
			rf, cf = r.Range(0, rows-1), r.Range(0, cols-1)
			rt, ct = r.Range(rf+1, rows), r.Range(cf+1, cols)
		}
		ops = append(ops, Op{Rf: rf, Rt: rt, Cf: cf, Ct: ct})
		rows, cols = rt-rf, ct-cf
	}
	return ops
}

func genRoundTrip(r *Rng) Recipe {
	switch r.Pick([]int{2, 4, 2, 4, 6, 4, 1}) {
	case 0:
		et := pickType(r, false, true)
		return Recipe{Kind: "plain", Type: et.Name, Els: []Elem{{P: genEl(r, et, true)}}}
	case 6: // constant scalars (writable since da67985): every number type, non-finite values included
		et := pickType(r, false, true)
		return Recipe{Kind: "const", Type: et.Name, Els: []Elem{{P: genEl(r, et, true)}}}
	case 1:
		et := pickType(r, true, false)
		return Recipe{Kind: "real", Type: et.Name, Els: []Elem{genElem(r, et, r.Intn(20) == 0)}}
	case 2:
		et := pickType(r, false, false)
		n := r.Range(0, 5)
		rc := Recipe{Kind: "dv", Type: et.Name, Els: []Elem{}}
		nf := r.Intn(15) == 0
		for i := 0; i < n; i++ {
			rc.Els = append(rc.Els, genElem(r, et, nf))
		}
		return rc
	case 3:
		et := pickType(r, false, false)
		n := r.Range(0, 9)
		rc := Recipe{Kind: "sv", Type: et.Name, N: n}
		if n > 0 {
			for i, m := 0, r.Range(0, n+1); i < m; i++ {
				rc.Ents = append(rc.Ents, Ent{K: int64(r.Intn(n)), E: genSparseElem(r, et)})
			}
		}
		return rc
	case 4:
		et := pickType(r, false, false)
		rc := Recipe{Kind: "dm", Type: et.Name, R0: r.Range(1, 4), C0: r.Range(1, 4)}
		if r.Intn(12) == 0 {
			rc.R0 = r.Range(0, 2)
		}
		nf := r.Intn(20) == 0
		if rc.C0 == 0 {
			rc.C0 = 1
		}
		for i := 0; i < rc.R0*rc.C0; i++ {
			rc.Els = append(rc.Els, genElem(r, et, nf))
		}
		rc.Ops = genOps(r, rc.R0, rc.C0, true)
		return rc
	default:
		et := pickType(r, false, false)
		rc := Recipe{Kind: "sm", Type: et.Name, R0: r.Range(1, 4), C0: r.Range(1, 4)}
		rc.Ops = genOps(r, rc.R0, rc.C0, false)
		if len(rc.Ops) > 2 {
			rc.Ops = rc.Ops[:2]
		}
		roff, coff, rows, cols := 0, 0, rc.R0, rc.C0
		for _, o := range rc.Ops {
			roff += o.Rf
			coff += o.Cf
			rows, cols = o.Rt-o.Rf, o.Ct-o.Cf
		}
		inside := r.Intn(3) > 0 // mostly: all entries inside the final view
		for i, m := 0, r.Range(0, rc.R0*rc.C0); i < m; i++ {
			ri, ci := r.Intn(rc.R0), r.Intn(rc.C0)
			if inside {
				if rows == 0 || cols == 0 {
					continue
				}
				ri, ci = roff+r.Intn(rows), coff+r.Intn(cols)
			}
			rc.Ents = append(rc.Ents, Ent{K: int64(ri*rc.C0 + ci), E: genSparseElem(r, et)})
		}
		return rc
	}
}

// ---------------------------------------------------------------- malformed documents (structure-aware)

func numText(et EType, e El) string {
	if e.Int {
		return strconv.FormatInt(e.Z, 10)
	}
	if et.Kind == "f32" {
		return strconv.FormatFloat(e.F, 'g', -1, 32)
	}
	return strconv.FormatFloat(e.F, 'g', -1, 64)
}
func numsText(et EType, xs []El) string {
	s := make([]string, len(xs))
	for i, x := range xs {
		s[i] = numText(et, x)
	}
	return "[" + strings.Join(s, ",") + "]"
}
func intsText(xs []int64) string {
	s := make([]string, len(xs))
	for i, x := range xs {
		s[i] = strconv.FormatInt(x, 10)
	}
	return "[" + strings.Join(s, ",") + "]"
}

// a scalar document for a real element; mut selects the deformation
func genSdocText(r *Rng, et EType) (string, string) {
	n := r.Range(1, 3)
	D := make([]El, n)
	for i := range D {
		D[i] = El{F: genF(r, et, false)}
	}
	mkH := func(rows, cols int) string {
		s := make([]string, rows)
		for i := range s {
			row := make([]El, cols)
			for j := range row {
				row[j] = El{F: genF(r, et, false)}
			}
			s[i] = numsText(et, row)
		}
		return "[" + strings.Join(s, ",") + "]"
	}
	v := numText(et, El{F: genF(r, et, false)})
	switch r.Intn(12) {
	case 0:
		return v, "number"
	case 1:
		return fmt.Sprintf(`{"Value":%s,"Derivative":%s}`, v, numsText(et, D)), "d-only"
	case 2:
		return fmt.Sprintf(`{"Value":%s,"Derivative":%s,"Hessian":%s}`, v, numsText(et, D), mkH(n, n)), "valid-dh"
	case 3:
		return fmt.Sprintf(`{"Value":%s,"Hessian":%s}`, v, mkH(n, n)), "h-only"
	case 4:
		return fmt.Sprintf(`{"Value":%s,"Derivative":%s,"Hessian":%s}`, v, numsText(et, D), mkH(n+1, n)), "h-rows"
	case 5:
		return fmt.Sprintf(`{"Value":%s,"Derivative":%s,"Hessian":%s}`, v, numsText(et, D), mkH(n, n-1)), "h-cols"
	case 6:
		return fmt.Sprintf(`{"Value":%s,"Derivative":[],"Hessian":%s}`, v, mkH(n, n)), "d-empty"
	case 7:
		return fmt.Sprintf(`{"value":%s,"derivative":%s,"Extra":[1,"x"]}`, v, numsText(et, D)), "case-and-extra-keys"
	case 8:
		return fmt.Sprintf(`{"Value":%s,"Derivative":null,"Hessian":[]}`, v), "null-fields"
	case 9:
		return `{"Value":"1.5"}`, "type-error"
	case 10:
		return fmt.Sprintf(`{"Derivative":%s,"Hessian":[[1],[]]}`, numsText(et, D)), "ragged"
	}
	return `{}`, "empty-object"
}

func genElemDocText(r *Rng, et EType) string {
	if et.Real {
		s, _ := genSdocText(r, et)
		return s
	}
	return numText(et, genEl(r, et, false))
}

func genMalformed(r *Rng) Recipe {
	switch r.Pick([]int{3, 1, 4, 3, 4}) {
	case 0:
		et := pickType(r, true, false)
		s, mut := genSdocText(r, et)
		if r.Intn(15) == 0 {
			s, mut = s[:len(s)/2], "truncated"
		}
		return Recipe{Kind: "mal-real", Type: et.Name, Bytes: s, Mut: mut}
	case 1:
		et := pickType(r, false, false)
		n := r.Range(0, 4)
		xs := make([]string, n)
		for i := range xs {
			xs[i] = genElemDocText(r, et)
		}
		s, mut := "["+strings.Join(xs, ",")+"]", "list"
		switch r.Intn(6) {
		case 0:
			s, mut = `{"Values":`+s+`}`, "not-array"
		case 1:
			s, mut = `[1,"a"]`, "type-error"
		}
		return Recipe{Kind: "mal-dv", Type: et.Name, Bytes: s, Mut: mut}
	case 2, 4:
		et := pickType(r, false, false)
		matrix := r.Bool()
		rows, cols := int64(r.Range(1, 4)), int64(r.Range(1, 4))
		n := int64(r.Range(1, 8))
		if matrix {
			n = rows * cols
		}
		var idx []int64
		var vals []El
		for k := int64(0); k < n; k++ {
			if r.Intn(2) == 0 {
				idx = append(idx, k)
				e := genEl(r, et, false)
				if et.Real {
					e = El{F: genF(r, et, false)}
				}
				if r.Intn(6) == 0 {
					e = zeroEl(EType{Kind: et.Kind})
				}
				vals = append(vals, e)
			}
		}
		if r.Bool() { // order of the entries is free
			for i := len(idx) - 1; i > 0; i-- {
				j := r.Intn(i + 1)
				idx[i], idx[j] = idx[j], idx[i]
				vals[i], vals[j] = vals[j], vals[i]
			}
		}
		mut := "valid"
		length := n
		switch r.Intn(12) {
		case 0:
			if len(idx) > 0 {
				idx[r.Intn(len(idx))] = n + int64(r.Intn(2))
				mut = "idx-ge-n"
			}
		case 1:
			if len(idx) > 0 {
				i := r.Intn(len(idx))
				idx = append(idx, idx[i])
				vals = append(vals, []El{vals[i], zeroEl(EType{Kind: et.Kind})}[r.Intn(2)])
				if r.Bool() {
					l := len(idx) - 1
					idx[i], idx[l] = idx[l], idx[i]
					vals[i], vals[l] = vals[l], vals[i]
				}
				mut = "dup"
			}
		case 2:
			if len(idx) > 0 {
				idx[r.Intn(len(idx))] = -int64(r.Range(1, 3))
				mut = "neg-idx"
			}
		case 3:
			if len(idx) > 0 {
				if r.Bool() {
					idx = idx[:len(idx)-1]
				} else {
					vals = vals[:len(vals)-1]
				}
				mut = "len-mismatch"
			}
		case 4:
			length, rows, mut = -n, -rows, "neg-dim"
		case 5:
			if !matrix {
				length = n - 1 - int64(r.Intn(2))
			} else if r.Bool() {
				rows--
			} else {
				cols--
			}
			mut = "smaller-dim"
		case 6:
			if matrix {
				switch r.Intn(4) {
				case 0:
					rows, cols = 1<<32, 1<<32
				case 1:
					rows, cols = 3037000500, 3037000500
				case 2:
					rows, cols = 1<<31, 1<<32
				case 3:
					rows, cols = -1, -1
				}
				mut = "dim-overflow"
			} else {
				length, mut = math.MaxInt64, "huge-length"
			}
		case 7:
			rows, cols, mut = cols, rows, "swapped-dims"
		}
		var s string
		if matrix {
			s = fmt.Sprintf(`{"Index":%s,"Value":%s,"Rows":%d,"Cols":%d}`, intsText(idx), numsText(et, vals), rows, cols)
		} else {
			s = fmt.Sprintf(`{"Index":%s,"Value":%s,"Length":%d}`, intsText(idx), numsText(et, vals), length)
		}
		switch r.Intn(25) {
		case 0:
			s, mut = s[:len(s)*2/3], "truncated"
		case 1:
			s, mut = strings.Replace(s, `"Value":[`, `"Value":["x",`, 1), "type-error"
		case 2:
			s, mut = `[`+s+`]`, "wrong-shape"
		case 3:
			s, mut = strings.Replace(s, `"Index":`, `"Index":null,"index2":`, 1), "null-index"
		}
		kind := "mal-sv"
		if matrix {
			kind = "mal-sm"
		}
		return Recipe{Kind: kind, Type: et.Name, Bytes: s, Mut: mut}
	default:
		et := pickType(r, false, false)
		rows, cols := int64(r.Range(0, 3)), int64(r.Range(0, 3))
		nvals := rows * cols
		mut := "valid"
		switch r.Intn(10) {
		case 0:
			rows, mut = rows+1, "rows+1"
		case 1:
			if cols > 0 {
				cols, mut = cols-1, "cols-1"
			}
		case 2:
			rows, mut = -rows-1, "neg-rows"
		case 3:
			rows, cols, mut = -rows-1, -cols-1, "both-neg"
		case 4:
			nvals, mut = nvals+1, "extra-value"
		case 5:
			if nvals > 0 {
				nvals, mut = nvals-1, "missing-value"
			}
		case 6:
			rows, cols, mut = 1000, 1000, "big-dims"
		case 7:
			// Rows*Cols wraps around (rejected since 6dfd87a).  Plain element types only: if the check regressed, a
			// Real matrix would allocate max(Rows, Cols) >= 2^32 scratch scalars in initTmp (out of memory, not a panic)
			if !et.Real {
				switch r.Intn(4) {
				case 0:
					rows, cols, nvals = 1<<32, 1<<32, 0
				case 1:
					rows, cols, nvals = 1<<62, 4, 0
				case 2:
					rows, cols, nvals = 6148914691236517206, 3, 2 // 3 * 0x5555555555555556 = 2^64 + 2
				case 3:
					rows, cols, nvals = 3037000500, 3037000500, 0 // wraps to a negative number
				}
				mut = "dim-overflow"
			}
		}
		xs := make([]string, nvals)
		for i := range xs {
			xs[i] = genElemDocText(r, et)
		}
		s := fmt.Sprintf(`{"Values":[%s],"Rows":%d,"Cols":%d}`, strings.Join(xs, ","), rows, cols)
		switch r.Intn(25) {
		case 0:
			s, mut = s[:len(s)*2/3], "truncated"
		case 1:
			s, mut = strings.Replace(s, `"Rows":`, `"Rows":"3","rows2":`, 1), "type-error"
		case 2:
			s, mut = `"`+strings.Replace(s, `"`, `'`, -1)+`"`, "wrong-shape"
		}
		return Recipe{Kind: "mal-dm", Type: et.Name, Bytes: s, Mut: mut}
	}
}

func genRecipe(r *Rng) Recipe {
	if r.Intn(5) < 2 {
		return genMalformed(r)
	}
	return genRoundTrip(r)
}

// ---------------------------------------------------------------- driver

type OracleRec struct {
	Index   int     `json:"index"`
	Recipe  Recipe  `json:"recipe"`
	Failure Failure `json:"failure"`
}

func readCorpus(path string) []Recipe {
	var out []Recipe
	f, err := os.Open(path)
	if err != nil {
		return out
	}
	defer f.Close()
	sc := bufio.NewScanner(f)
	sc.Buffer(make([]byte, 1<<20), 1<<24)
	for sc.Scan() {
		l := strings.TrimSpace(sc.Text())
		if l == "" || strings.HasPrefix(l, "#") {
			continue
		}
		var rc Recipe
		if err := json.Unmarshal([]byte(l), &rc); err != nil {
			Die("corpus line: %v", err)
		}
		out = append(out, rc)
	}
	return out
}

func main() {
	o := ParseFlags()
	if o.Out != "" {
		os.MkdirAll(o.Out, 0755)
		workDir = o.Out
	}
	defer os.Remove(tableFile())
	if strings.HasPrefix(o.Extra, "constchild:") {
		constChild(o.Extra[len("constchild:"):])
		return
	}
	if o.Replay != "" && o.Extra != "hunt" {
		replay(o)
		return
	}
	if o.Extra == "hunt" {
		hunt(o)
		return
	}
	rng := NewRng(o.Seed)
	ws := newWriters(o.Out, "")
	var recipes []Recipe
	if o.Extra != "" {
		recipes = append(recipes, readCorpus(o.Extra)...)
	}
	ncorpus := len(recipes)
	for len(recipes) < ncorpus+o.N {
		recipes = append(recipes, genRecipe(rng))
	}
	// the table and configuration parts have their own streams (the JSON stream of round 1 is unchanged)
	trng := NewRng(o.Seed ^ 0x7ab1e)
	for i := 0; i < o.N/2; i++ {
		recipes = append(recipes, genTableRecipe(trng))
	}
	recipes = append(recipes, cfgRegistrySweep()...)
	crng := NewRng(o.Seed ^ 0xc0f19)
	for i := 0; i < o.N/8; i++ {
		recipes = append(recipes, genCfgRecipe(crng))
	}
	// round 5: recycled receivers (own stream, own generator state: the three streams above are unchanged)
	recipes = append(recipes, fieldsSweep()...)
	rrng := NewRng(o.Seed ^ 0x4ec7)
	for i := 0; i < o.N/2; i++ {
		recipes = append(recipes, genRecvRecipe(rrng))
	}
	// round 6: the vector and matrix distribution registries (own stream, own generator state)
	recipes = append(recipes, registrySweep()...)
	recipes = append(recipes, vcfgSweep()...)
	vrng := NewRng(o.Seed ^ 0x7ec6)
	for i := 0; i < o.N/6; i++ {
		recipes = append(recipes, genVCfgRecipe(vrng))
	}
	// round 7: mixed-order Real containers; view receivers of the document's own shape (own stream, own generator state)
	recipes = append(recipes, r7Sweep()...)
	r7rng := NewRng(o.Seed ^ 0x7a11)
	for i := 0; i < o.N/8; i++ {
		recipes = append(recipes, genR7Recipe(r7rng))
	}
	var orc []OracleRec
	for i, rc := range recipes {
		if os.Getenv("C18_TRACE") != "" {
			b, _ := json.Marshal(rc)
			fmt.Fprintln(os.Stderr, i, string(b))
		}
		res := runRecipe(rc)
		if res.Coq == "" {
			continue
		}
		w := ws.pick(rc.Kind)
		w.Add(res.Coq, rc, res.Key, res.Nontriv)
		for _, h := range res.Hist {
			w.Count(h)
		}
		for _, f := range res.Failures {
			orc = append(orc, OracleRec{Index: i, Recipe: rc, Failure: f})
			w.Count("oracle:" + f.Site + ":" + f.Kind)
		}
	}
	ws.json.Extra["corpus_cases"] = ncorpus
	ws.flush()
	writeOracle(filepath.Join(o.Out, "oracle.jsonl"), orc)
}

// one case writer per Coq case type: JSON formats (Corr.v), tables (TableCorr.v), configurations (ConfigCorr.v)
type writers struct{ json, table, cfg, recv, vcfg, reg *CaseWriter }

func newWriters(dir, prefix string) *writers {
	w := NewCaseWriter(dir, prefix+"cases", header, "mism", 60)
	w.Type = "case"
	w.Rule = "a case is non-trivial when the writer and the reader both succeeded on a document of more than 4 bytes (round trips) or the malformed document passed the decoding layer and reached the reader's own validation; distinct = distinct (kind, element type, document length, outcome kinds)"
	t := NewCaseWriter(dir, prefix+"tcases", theader, "tmism", 60)
	t.Type = "tcase"
	t.Rule = "table cases: non-trivial when Export and Import both succeeded on a file of more than 2 bytes (round trips), the malformed file has at least one line for the reader, or the literal is not exactly representable in binary64; distinct = distinct (kind, element type, mutation, file length, outcome kinds)"
	c := NewCaseWriter(dir, prefix+"ccases", cheader, "cmism", 60)
	c.Type = "ccase"
	c.Rule = "configuration cases: non-trivial when ExportConfig -> JSON -> ImportConfig succeeded on a nested or multi-parameter distribution, or the malformed configuration reached ImportConfig; distinct = distinct (family path, outcome kinds)"
	rv := NewCaseWriter(dir, prefix+"rcases", rheader, "rmism", 40)
	rv.Type = "rcase"
	rv.Rule = "recycled-receiver cases: non-trivial when the bytes were decoded successfully into a receiver that was not fresh; distinct = distinct (kind, element type, receiver shape, byte length, outcome)"
	vc := NewCaseWriter(dir, prefix+"vcases", vheader, "vmism", 40)
	vc.Type = "vcase"
	vc.Rule = "vector/matrix registry cases: non-trivial when ExportConfig -> JSON -> ImportConfig succeeded on a distribution with components, or the malformed configuration reached the importer; distinct = distinct (family path | mutation, root name, outcome kind)"
	g := NewCaseWriter(dir, prefix+"gcases", gheader, "gmism", 10)
	g.Type = "gcase"
	g.Rule = "registry obligation: five tables (registry assignments, ExportConfig names and ImportConfig callees regenerated from the sources by go/ast; the registries of the running program; the harness's name tables), each non-trivial"
	return &writers{w, t, c, rv, vc, g}
}
func (ws *writers) pick(kind string) *CaseWriter {
	if _, _, ok := recvKind(kind); ok {
		return ws.recv
	}
	if _, _, ok := tableKind(kind); ok {
		return ws.table
	}
	if strings.HasPrefix(kind, "reg-") {
		return ws.reg
	}
	if strings.HasPrefix(kind, "vcfg") {
		return ws.vcfg
	}
	if strings.HasPrefix(kind, "cfg") {
		return ws.cfg
	}
	return ws.json
}
func (ws *writers) flush() {
	for _, w := range []*CaseWriter{ws.json, ws.table, ws.cfg, ws.recv, ws.vcfg, ws.reg} {
		if err := w.Flush(); err != nil {
			Die("flush: %v", err)
		}
	}
}

func writeOracle(path string, orc []OracleRec) {
	f, err := os.Create(path)
	if err != nil {
		Die("%v", err)
	}
	defer f.Close()
	enc := json.NewEncoder(f)
	for _, r := range orc {
		enc.Encode(r)
	}
}

// hunt: the oracle alone on many fresh recipes (and on the recipes of mismatching cases, if given);
// every distinct (site, kind, cause) is shrunk and reported once.
func hunt(o Opts) {
	rng := NewRng(o.Seed ^ 0x5eed)
	var recipes []Recipe
	if o.Replay != "" {
		var in struct{ Cases []Recipe }
		b, err := os.ReadFile(o.Replay)
		if err == nil {
			json.Unmarshal(b, &in)
		}
		recipes = append(recipes, in.Cases...)
	}
	for i := 0; i < o.N; i++ {
		switch i % 7 {
		case 6:
			recipes = append(recipes, genVCfgRecipe(rng))
		case 1, 3:
			recipes = append(recipes, genTableRecipe(rng))
		case 2:
			recipes = append(recipes, genCfgRecipe(rng))
		case 4:
			recipes = append(recipes, genRecvRecipe(rng))
		case 5:
			recipes = append(recipes, genR7Recipe(rng))
		default:
			recipes = append(recipes, genRecipe(rng))
		}
	}
	seen := map[string]bool{}
	var out []OracleRec
	for i, rc := range recipes {
		if rc.Kind == "t-lit" || rc.Kind == "rv-fields" || strings.HasPrefix(rc.Kind, "reg-") {
			continue
		}
		for _, f := range runRecipe(rc).Failures {
			key := f.Site + "|" + f.Kind + "|" + f.Cause
			if seen[key] {
				continue
			}
			seen[key] = true
			small := shrinkRecipe(rc, f)
			g := f
			for _, h := range runRecipe(small).Failures {
				if h.Site == f.Site && h.Kind == f.Kind && h.Cause == f.Cause {
					g = h
				}
			}
			out = append(out, OracleRec{Index: i, Recipe: small, Failure: g})
		}
	}
	writeOracle(filepath.Join(o.Out, "hunt.jsonl"), out)
}

func replay(o Opts) {
	b, err := os.ReadFile(o.Replay)
	if err != nil {
		Die("%v", err)
	}
	var in struct {
		Recipe *Recipe `json:"recipe"`
		Case   *Recipe `json:"case"`
	}
	if err := json.Unmarshal(b, &in); err != nil {
		Die("%v", err)
	}
	rc := in.Recipe
	if rc == nil {
		rc = in.Case
	}
	if rc == nil {
		Die("replay file holds no recipe")
	}
	res := runRecipe(*rc)
	for _, old := range []string{"replay_0.v", "replay_tcases_0.v", "replay_ccases_0.v", "replay_cases_0.v", "replay_rcases_0.v", "replay_vcases_0.v", "replay_gcases_0.v"} {
		os.Remove(filepath.Join(o.Out, old))
	}
	ws := newWriters(o.Out, "replay_")
	ws.pick(rc.Kind).Add(res.Coq, rc, res.Key, res.Nontriv)
	ws.flush()
	var orc []OracleRec
	for _, f := range res.Failures {
		orc = append(orc, OracleRec{Recipe: *rc, Failure: f})
	}
	writeOracle(filepath.Join(o.Out, "replay_oracle.jsonl"), orc)
}
