// C18 harness (round 6) — the VECTOR and MATRIX distribution registries: "vector:scalar id", "vector:vector id",
// "vector:vector iid", "vector:mixture distribution", "matrix:vector id", "matrix:vector iid", "matrix:mixture
// distribution" (over "vector:scalar iid" and every scalar family), nested to any depth, through
// ExportConfig -> JSON -> ImportVectorPdfConfig / ImportMatrixPdfConfig on the implementation; malformed documents;
// Coq cases for coq/C18/ConfigCorrV.v; the property-level oracle (round trip by reflected state AND by the public
// API: Dim/Dims, GetParameters; well-formedness of whatever a reader accepts).
package main

import (
	"bytes"
	"encoding/json"
	"fmt"
	"reflect"
	"sort"
	"strings"

	. "adharness/common"

	ad "github.com/pbenner/autodiff"
	st "github.com/pbenner/autodiff/statistics"
	md "github.com/pbenner/autodiff/statistics/matrixDistribution"
	vd "github.com/pbenner/autodiff/statistics/vectorDistribution"
)

const vheader = "From Coq Require Import ZArith List Bool Floats.\nFrom ADV Require Import C18.Model C18.Corr C18.ConfigModel C18.ConfigCorr C18.ConfigModelV C18.ConfigCorrV.\nImport ListNotations.\nOpen Scope Z_scope.\n"

type vnameInfo struct{ Coq, Name, Level string }

// the modelled names of the vector / matrix registries (cross-checked against the registries and the sources by the
// registry obligation, see registry.go)
var vnames = []vnameInfo{
	{"NVScalarId", "vector:scalar id", "vec"},
	{"NVVectorId", "vector:vector id", "vec"},
	{"NVVectorIid", "vector:vector iid", "vec"},
	{"NVMixture", "vector:mixture distribution", "vec"},
	{"NMVectorId", "matrix:vector id", "mat"},
	{"NMVectorIid", "matrix:vector iid", "mat"},
	{"NMMixture", "matrix:mixture distribution", "mat"},
}

func vnameOfName(n string) (vnameInfo, bool) {
	for _, v := range vnames {
		if v.Name == n {
			return v, true
		}
	}
	return vnameInfo{}, false
}
func vnameOfCoq(c string) (vnameInfo, bool) {
	for _, v := range vnames {
		if v.Coq == c {
			return v, true
		}
	}
	return vnameInfo{}, false
}

// registered in the vector / matrix registry but outside the model (HMMs, normal, ...)
func unmodelledName(n string) bool {
	if _, ok := vnameOfName(n); ok {
		return false
	}
	if famOfName(n) != "FUnknown" {
		return false
	}
	_, inV := st.VectorPdfRegistry[n]
	_, inM := st.MatrixPdfRegistry[n]
	return inV || inM
}

// ---------------------------------------------------------------- observed trees

type VDist struct {
	K    string // VOld VSId VVId VVIid VMix MVId MVIid MMix
	N    int64
	Lw   []float64
	Old  *DistT
	Olds []DistT
	Kids []VDist
}

func (d VDist) Coq() string {
	ks := make([]string, len(d.Kids))
	for i, k := range d.Kids {
		ks[i] = k.Coq()
	}
	switch d.K {
	case "VOld":
		return "(VOld " + d.Old.Coq() + ")"
	case "VSId":
		os := make([]string, len(d.Olds))
		for i, k := range d.Olds {
			os[i] = k.Coq()
		}
		return "(VSId " + List(os) + ")"
	case "VVId":
		return "(VVId " + Z(d.N) + " " + List(ks) + ")"
	case "VVIid", "MVIid":
		return "(" + d.K + " " + Z(d.N) + " " + ks[0] + ")"
	case "VMix", "MMix":
		return "(" + d.K + " " + FList(d.Lw) + " " + List(ks) + ")"
	case "MVId":
		return "(MVId " + List(ks) + ")"
	}
	Die("VDist kind %q", d.K)
	return ""
}

func privInt(x interface{}, field string) int64 {
	return reflect.ValueOf(x).Elem().FieldByName(field).Int()
}

// read-only observation of a vector / matrix distribution object (stored state, by reflection)
func obsV(x interface{}) VDist {
	switch d := x.(type) {
	case *vd.ScalarIid:
		o := obsDist(d)
		return VDist{K: "VOld", Old: &o}
	case *vd.ScalarId:
		t := VDist{K: "VSId"}
		for _, e := range d.Distributions {
			t.Olds = append(t.Olds, obsDist(e))
		}
		return t
	case *vd.VectorId:
		t := VDist{K: "VVId", N: privInt(d, "n")}
		for _, e := range d.Distributions {
			t.Kids = append(t.Kids, obsV(e))
		}
		return t
	case *vd.VectorIid:
		return VDist{K: "VVIid", N: privInt(d, "n"), Kids: []VDist{obsV(d.Distribution)}}
	case *vd.Mixture:
		t := VDist{K: "VMix", Lw: vecFloats(d.Mixture.LogWeights)}
		for _, e := range d.Edist {
			t.Kids = append(t.Kids, obsV(e))
		}
		return t
	case *md.VectorId:
		t := VDist{K: "MVId"}
		for _, e := range d.Distributions {
			t.Kids = append(t.Kids, obsV(e))
		}
		return t
	case *md.VectorIid:
		return VDist{K: "MVIid", N: privInt(d, "n"), Kids: []VDist{obsV(d.Distribution)}}
	case *md.Mixture:
		t := VDist{K: "MMix", Lw: vecFloats(d.Mixture.LogWeights)}
		for _, e := range d.Edist {
			t.Kids = append(t.Kids, obsV(e))
		}
		return t
	}
	panic(fmt.Sprintf("obsV: unmodelled distribution type %T", x))
}

// Dim() as the observed state implies it (oracle side; the real Dim() is compared with it)
func (d VDist) dim() int64 {
	switch d.K {
	case "VOld":
		return int64(d.Old.Ps[0])
	case "VSId":
		return int64(len(d.Olds))
	case "VVId", "VVIid":
		return d.N
	case "VMix":
		if len(d.Kids) == 0 {
			return 0
		}
		return d.Kids[0].dim()
	}
	return 0
}

// document -> Coq cfg2 term; ok=false when a registered but unmodelled name occurs
func cfg2Coq(c st.ConfigDistribution, ok *bool) string {
	if v, is := vnameOfName(c.Name); is {
		ks := make([]string, len(c.Distributions))
		for i, k := range c.Distributions {
			ks[i] = cfg2Coq(k, ok)
		}
		return "(CNew " + v.Coq + " " + jvCoq(c.Parameters) + " " + List(ks) + ")"
	}
	var walk func(c st.ConfigDistribution)
	walk = func(c st.ConfigDistribution) {
		if unmodelledName(c.Name) {
			*ok = false
		}
		for _, k := range c.Distributions {
			walk(k)
		}
	}
	walk(c)
	return "(COld " + cfgCoq(c) + ")"
}

// ---------------------------------------------------------------- building

func recLevel(r CfgRecipe) string {
	if v, ok := vnameOfCoq(r.Fam); ok {
		return v.Level
	}
	if r.Fam == "FIid" {
		return "vec"
	}
	return "scalar"
}

func buildV(r CfgRecipe) (interface{}, error) {
	vkids := func() ([]st.VectorPdf, error) {
		out := make([]st.VectorPdf, len(r.Kids))
		for i := range r.Kids {
			k, err := buildV(r.Kids[i])
			if err != nil {
				return nil, err
			}
			v, ok := k.(st.VectorPdf)
			if !ok {
				return nil, fmt.Errorf("child %d of %s is not a vector distribution", i, r.Fam)
			}
			out[i] = v
		}
		return out, nil
	}
	n := 0
	if len(r.Ps) > 0 {
		n = int(r.Ps[0])
	}
	weights := ad.NewDenseFloat64Vector(append([]float64{}, r.Ps...))
	switch r.Fam {
	case "NVScalarId":
		kids := make([]st.ScalarPdf, len(r.Kids))
		for i := range r.Kids {
			k, err := buildDist(r.Kids[i])
			if err != nil {
				return nil, err
			}
			s, ok := k.(st.ScalarPdf)
			if !ok {
				return nil, fmt.Errorf("child %d of %s is not a scalar distribution", i, r.Fam)
			}
			kids[i] = s
		}
		return vd.NewScalarId(kids...)
	case "NVVectorId", "NMVectorId":
		kids, err := vkids()
		if err != nil {
			return nil, err
		}
		if r.Fam == "NMVectorId" {
			return md.NewVectorId(kids...)
		}
		return vd.NewVectorId(kids...)
	case "NVVectorIid", "NMVectorIid":
		kids, err := vkids()
		if err != nil || len(kids) != 1 {
			return nil, fmt.Errorf("iid needs one vector child (%v)", err)
		}
		if r.Fam == "NMVectorIid" {
			return md.NewVectorIid(kids[0], n)
		}
		return vd.NewVectorIid(kids[0], n)
	case "NVMixture":
		kids, err := vkids()
		if err != nil {
			return nil, err
		}
		if len(kids) != len(r.Ps) {
			return nil, fmt.Errorf("mixture recipe: %d weights, %d components", len(r.Ps), len(kids))
		}
		return vd.NewMixture(weights, kids)
	case "NMMixture":
		kids := make([]st.MatrixPdf, len(r.Kids))
		for i := range r.Kids {
			k, err := buildV(r.Kids[i])
			if err != nil {
				return nil, err
			}
			m, ok := k.(st.MatrixPdf)
			if !ok {
				return nil, fmt.Errorf("child %d of %s is not a matrix distribution", i, r.Fam)
			}
			kids[i] = m
		}
		if len(kids) != len(r.Ps) {
			return nil, fmt.Errorf("mixture recipe: %d weights, %d components", len(r.Ps), len(kids))
		}
		return md.NewMixture(weights, kids)
	case "FIid":
		return buildDist(r)
	}
	return nil, fmt.Errorf("not a vector / matrix family: %s", r.Fam)
}

func importDocV(c st.ConfigDistribution, level string) (interface{}, error) {
	if level == "mat" {
		return st.ImportMatrixPdfConfig(c, ad.Float64Type)
	}
	return st.ImportVectorPdfConfig(c, ad.Float64Type)
}

func guardImportV(c st.ConfigDistribution, level string) (Outcome, *VDist, interface{}) {
	var back interface{}
	k, msg := guard(func() error {
		var err error
		back, err = importDocV(c, level)
		return err
	})
	o := Outcome{Kind: k, Msg: msg}
	if k != "ok" {
		return o, nil, nil
	}
	var t VDist
	if k2, m2 := guard(func() error { t = obsV(back); return nil }); k2 != "ok" {
		return Outcome{Kind: "crash", Msg: "imported object cannot be observed: " + m2}, nil, nil
	}
	o.Term = t.Coq()
	return o, &t, back
}

// ---------------------------------------------------------------- oracle

func vdistDiff(a, b VDist, path string) string {
	if a.K != b.K {
		return fmt.Sprintf("%s: %s vs %s", path, a.K, b.K)
	}
	if a.N != b.N {
		return fmt.Sprintf("%s: n = %d vs %d", path, a.N, b.N)
	}
	if len(a.Lw) != len(b.Lw) {
		return fmt.Sprintf("%s: %d vs %d weights", path, len(a.Lw), len(b.Lw))
	}
	for i := range a.Lw {
		if !approx(a.Lw[i], b.Lw[i]) {
			return fmt.Sprintf("%s: log-weight %d: %v vs %v", path, i, a.Lw[i], b.Lw[i])
		}
	}
	if (a.Old == nil) != (b.Old == nil) {
		return path + ": shape"
	}
	if a.Old != nil {
		if d := distDiff(*a.Old, *b.Old, path+"/iid"); d != "" {
			return d
		}
	}
	if len(a.Olds) != len(b.Olds) || len(a.Kids) != len(b.Kids) {
		return fmt.Sprintf("%s: %d vs %d components", path, len(a.Olds)+len(a.Kids), len(b.Olds)+len(b.Kids))
	}
	for i := range a.Olds {
		if d := distDiff(a.Olds[i], b.Olds[i], fmt.Sprintf("%s/%d", path, i)); d != "" {
			return d
		}
	}
	for i := range a.Kids {
		if d := vdistDiff(a.Kids[i], b.Kids[i], fmt.Sprintf("%s/%d", path, i)); d != "" {
			return d
		}
	}
	return ""
}

// the public observables of a distribution: dimensions and the flat parameter vector
func publicObs(x interface{}) (dims []int, ps []float64, err string) {
	k, msg := guard(func() error {
		switch d := x.(type) {
		case st.VectorPdf:
			dims = []int{d.Dim()}
			if p := d.GetParameters(); p != nil {
				ps = vecFloats(p)
			}
		case st.MatrixPdf:
			if v := obsV(x); !(v.K == "MVId" && len(v.Kids) == 0) { // Dims() of an empty id distribution indexes [0]
				a, b := d.Dims()
				dims = []int{a, b}
			}
			if p := d.GetParameters(); p != nil {
				ps = vecFloats(p)
			}
		}
		return nil
	})
	if k != "ok" {
		err = msg
	}
	return
}

// what the constructors insist on, checked on whatever a reader accepted (observed tree)
func wfCauses(d VDist, set map[string]bool) {
	switch d.K {
	case "VMix", "MMix":
		if len(d.Lw) != len(d.Kids) {
			set["mixture-arity"] = true
		}
		if d.K == "VMix" {
			for i := 1; i < len(d.Kids); i++ {
				if d.Kids[i].dim() != d.Kids[0].dim() {
					set["mixture-dims"] = true
				}
			}
		}
	case "VVId":
		s := int64(0)
		for _, k := range d.Kids {
			s += k.dim()
		}
		if s != d.N {
			set["id-n"] = true
		}
	case "VVIid", "MVIid":
		m := d.Kids[0].dim()
		if d.N < 0 || m == 0 || d.N%m != 0 {
			set["iid-n"] = true
		}
	}
	for _, k := range d.Kids {
		wfCauses(k, set)
	}
}

func joinSet(set map[string]bool) string {
	var c []string
	for k := range set {
		c = append(c, k)
	}
	sort.Strings(c)
	return strings.Join(c, "+")
}

func runVConfig(rc Recipe) (res Result) {
	if rc.Kind == "vcfg-mal" {
		return runVConfigMal(rc)
	}
	r := *rc.Cfg
	var obj interface{}
	bk, bmsg := guard(func() error {
		var err error
		obj, err = buildV(r)
		return err
	})
	res.Key = "vcfg/" + famPath(r)
	if bk != "ok" {
		// The generators only produce trees every constructor guard admits (recDim / recStypeOK): a constructor that
		// refuses one refuses a well-formed distribution.  The importers go through the same constructors: hand them
		// the document the tree would be written as.
		level := recLevel(r)
		res.Hist = []string{"vcfg-unbuildable:" + bk}
		var doc st.ConfigDistribution
		if level == "scalar" || json.Unmarshal([]byte(docTextV(r)), &doc) != nil {
			return res
		}
		gr, _, _ := guardImportV(doc, level)
		modelled := true
		docTerm := cfg2Coq(doc, &modelled)
		if modelled {
			res.Coq = fmt.Sprintf("%s (Ok %s) %s", map[string]string{"vec": "VMal", "mat": "MMal"}[level], docTerm, gr.Coq())
		}
		if gr.Kind != "ok" {
			res.Failures = append(res.Failures, Failure{Site: "vcfg.ImportConfig", Kind: "roundtrip-" + gr.Kind, Type: famPath(r),
				Detail: "the constructor (" + bmsg + ") and the importer (" + gr.Msg + ") refuse a well-formed distribution"})
		}
		return res
	}
	level := recLevel(r)
	d := obsV(obj)
	fail := func(kind, detail string) {
		res.Failures = append(res.Failures, Failure{Site: "vcfg.ImportConfig", Kind: kind, Detail: detail, Type: famPath(r)})
	}
	var doc st.ConfigDistribution
	wk, wmsg := guard(func() error {
		var buf bytes.Buffer
		if err := obj.(st.ConfigurableDistribution).ExportConfig().WriteJson(&buf); err != nil {
			return err
		}
		return json.Unmarshal(buf.Bytes(), &doc)
	})
	res.Hist = []string{"vcfg/" + r.Fam, "vcfg-level:" + level, "vcfg-export:" + wk}
	ctor := map[string]string{"vec": "VRt", "mat": "MRt"}[level]
	if wk != "ok" {
		res.Failures = append(res.Failures, Failure{Site: "vcfg.ExportConfig", Kind: "write-" + wk, Detail: wmsg, Type: famPath(r)})
		res.Coq = "VMal Err Err"
		return res
	}
	gr, back, bobj := guardImportV(doc, level)
	modelled := true
	docTerm := cfg2Coq(doc, &modelled)
	if !modelled {
		Die("the export of %s names an unmodelled distribution", famPath(r))
	}
	res.Coq = fmt.Sprintf("%s %s %s %s", ctor, d.Coq(), docTerm, gr.Coq())
	res.Hist = append(res.Hist, "vcfg-import:"+gr.Kind)
	res.Key += "/" + gr.Kind
	res.Nontriv = gr.Kind == "ok" && len(r.Kids) > 0
	switch {
	case gr.Kind != "ok":
		fail("roundtrip-"+gr.Kind, gr.Msg)
	default:
		if diff := vdistDiff(d, *back, ""); diff != "" {
			fail("roundtrip-mismatch", diff)
		}
		// the same through the public API only
		d1, p1, e1 := publicObs(obj)
		d2, p2, e2 := publicObs(bobj)
		switch {
		case e1 != "" || e2 != "":
			if e1 != e2 {
				fail("roundtrip-mismatch", "public API: "+e1+" vs "+e2)
			}
		case !reflect.DeepEqual(d1, d2):
			fail("roundtrip-mismatch", fmt.Sprintf("Dim/Dims: %v vs %v", d1, d2))
		case len(p1) != len(p2):
			fail("roundtrip-mismatch", fmt.Sprintf("GetParameters: %d vs %d values", len(p1), len(p2)))
		default:
			for i := range p1 {
				if !approx(p1[i], p2[i]) {
					fail("roundtrip-mismatch", fmt.Sprintf("GetParameters[%d]: %v vs %v", i, p1[i], p2[i]))
					break
				}
			}
		}
		// the state the original's constructor computed is the state its own Dim() reports
		if level == "vec" && len(d1) == 1 && int64(d1[0]) != d.dim() {
			fail("roundtrip-mismatch", fmt.Sprintf("Dim() = %d but the stored state gives %d", d1[0], d.dim()))
		}
	}
	return res
}

// Dim() / ScalarType() as the DOCUMENT implies them (oracle side, to label the panics narrowly)
func docP0(c st.ConfigDistribution) (int, bool) {
	if arr, ok := c.Parameters.([]interface{}); ok && len(arr) == 1 {
		if f, ok := arr[0].(float64); ok {
			return int(f), true
		}
	}
	return 0, false
}
func docDim(c st.ConfigDistribution) int {
	switch c.Name {
	case "vector:scalar iid", "vector:vector iid":
		n, _ := docP0(c)
		return n
	case "vector:scalar id":
		return len(c.Distributions)
	case "vector:vector id":
		s := 0
		for _, k := range c.Distributions {
			s += docDim(k)
		}
		return s
	case "vector:mixture distribution":
		if len(c.Distributions) > 0 {
			return docDim(c.Distributions[0])
		}
	}
	return 0
}
func docStypeOK(c st.ConfigDistribution) bool {
	switch c.Name {
	case "vector:scalar id":
		return len(c.Distributions) > 0
	case "vector:vector id":
		return len(c.Distributions) > 0 && docStypeOK(c.Distributions[0])
	case "vector:vector iid":
		return len(c.Distributions) != 1 || docStypeOK(c.Distributions[0])
	}
	return true
}

// why a document is malformed, from the document alone (labels of the panics it may provoke)
func vcfgDocCause(c st.ConfigDistribution, set map[string]bool) {
	if arr, ok := c.Parameters.([]interface{}); ok {
		for _, e := range arr {
			if e == nil {
				set["null-param"] = true
			}
		}
	}
	if v, ok := vnameOfName(c.Name); ok {
		switch v.Coq {
		case "NVVectorIid", "NMVectorIid":
			if n, ok := docP0(c); ok && len(c.Distributions) == 1 {
				if !docStypeOK(c.Distributions[0]) {
					set["empty-id-stype"] = true // ScalarType() of an empty id distribution indexes Distributions[0]
				} else if n >= 0 && docDim(c.Distributions[0]) == 0 {
					set["iid-zero-dim"] = true // n % m with m == 0
				}
			}
		case "NVVectorId", "NMVectorId":
			if len(c.Distributions) > 0 && !docStypeOK(c.Distributions[0]) {
				set["empty-id-stype"] = true
			}
		}
		for _, k := range c.Distributions {
			vcfgDocCause(k, set)
		}
		return
	}
	sub := map[string]bool{}
	cfgDocCause(c, sub)
	for k := range sub {
		set[k] = true
	}
}

func runVConfigMal(rc Recipe) (res Result) {
	var doc st.ConfigDistribution
	level := rc.Cfg.Lvl
	if level == "" {
		level = "vec"
	}
	ctor := map[string]string{"vec": "VMal", "mat": "MMal"}[level]
	err := json.Unmarshal([]byte(rc.Cfg.Doc), &doc)
	res.Key = "vcfg-mal/" + rc.Mut
	res.Hist = []string{"vcfg-mal", "vmut:" + rc.Mut, "vcfg-level:" + level}
	if err != nil {
		res.Coq = ctor + " Err Err"
		res.Hist = append(res.Hist, "vcfg-mal-import:undecodable")
		return res
	}
	modelled := true
	docTerm := "(Ok " + cfg2Coq(doc, &modelled) + ")"
	gr, back, _ := guardImportV(doc, level)
	if modelled {
		res.Coq = fmt.Sprintf("%s %s %s", ctor, docTerm, gr.Coq())
	} else {
		res.Hist = append(res.Hist, "vcfg-mal-unmodelled-name")
	}
	res.Key += "/" + doc.Name + "/" + gr.Kind
	res.Nontriv = true
	res.Hist = append(res.Hist, "vcfg-mal-import:"+gr.Kind)
	switch gr.Kind {
	case "panic", "crash":
		set := map[string]bool{}
		vcfgDocCause(doc, set)
		res.Failures = []Failure{{Site: "vcfg.ImportConfig", Kind: "reader-panic", Cause: joinSet(set), Detail: gr.Msg, Type: doc.Name}}
	case "ok":
		set := map[string]bool{}
		wfCauses(*back, set)
		if len(set) > 0 {
			res.Failures = []Failure{{Site: "vcfg.ImportConfig", Kind: "reader-accepts-malformed", Cause: joinSet(set),
				Detail: "the imported object violates what its own constructor insists on", Type: doc.Name}}
		}
	}
	return res
}

// ---------------------------------------------------------------- generators

func recDim(r CfgRecipe) int {
	switch r.Fam {
	case "FIid", "NVVectorIid":
		return int(r.Ps[0])
	case "NVScalarId":
		return len(r.Kids)
	case "NVVectorId":
		s := 0
		for _, k := range r.Kids {
			s += recDim(k)
		}
		return s
	case "NVMixture":
		if len(r.Kids) == 0 {
			return 0
		}
		return recDim(r.Kids[0])
	}
	return 0
}
func recStypeOK(r CfgRecipe) bool {
	switch r.Fam {
	case "NVScalarId":
		return len(r.Kids) > 0
	case "NVVectorId":
		return len(r.Kids) > 0 && recStypeOK(r.Kids[0])
	case "NVVectorIid":
		return recStypeOK(r.Kids[0])
	}
	return true
}

func genScalarNoBinomial(r *Rng, depth int) CfgRecipe {
	for {
		c := genScalarDist(r, depth)
		if !hasFam(c, "FBinomial") {
			return c
		}
	}
}

func genVecDist(r *Rng, depth int) CfgRecipe {
	if depth <= 0 || r.Intn(3) == 0 {
		if r.Bool() {
			n := []float64{0, 1, 2, 3, 5, 50, -1, 4}[r.Intn(8)]
			return CfgRecipe{Fam: "FIid", Ps: []float64{n}, Kids: []CfgRecipe{genScalarNoBinomial(r, 1)}}
		}
		c := CfgRecipe{Fam: "NVScalarId"}
		for i, n := 0, r.Range(0, 3); i < n; i++ {
			c.Kids = append(c.Kids, genScalarNoBinomial(r, 1))
		}
		return c
	}
	switch r.Intn(3) {
	case 0:
		c := CfgRecipe{Fam: "NVVectorId"}
		for i, n := 0, r.Range(0, 3); i < n; i++ {
			k := genVecDist(r, depth-1)
			for i == 0 && !recStypeOK(k) {
				k = genVecDist(r, depth-1)
			}
			c.Kids = append(c.Kids, k)
		}
		return c
	case 1:
		k := genVecDist(r, depth-1)
		for !recStypeOK(k) || recDim(k) == 0 {
			k = genVecDist(r, depth-1)
		}
		m := recDim(k)
		if m < 0 {
			m = -m
		}
		return CfgRecipe{Fam: "NVVectorIid", Ps: []float64{float64(m * r.Intn(4))}, Kids: []CfgRecipe{k}}
	}
	c := CfgRecipe{Fam: "NVMixture"}
	n := r.Range(0, 3)
	for i := 0; i < n; i++ {
		c.Ps = append(c.Ps, genProb(r))
		if i == 0 {
			c.Kids = append(c.Kids, genVecDist(r, depth-1))
			continue
		}
		k := genVecDist(r, depth-1)
		for try := 0; try < 30 && recDim(k) != recDim(c.Kids[0]); try++ {
			k = genVecDist(r, depth-1)
		}
		if recDim(k) != recDim(c.Kids[0]) {
			k = c.Kids[0]
		}
		c.Kids = append(c.Kids, k)
	}
	return c
}

// Dims() of the object does not panic (an empty "matrix:vector id" indexes Distributions[0])
func recDimsOK(r CfgRecipe) bool {
	switch r.Fam {
	case "NMVectorId":
		return len(r.Kids) > 0
	case "NMMixture":
		return len(r.Kids) == 0 || recDimsOK(r.Kids[0])
	}
	return true
}
func recDims(r CfgRecipe) [2]int {
	switch r.Fam {
	case "NMVectorId":
		return [2]int{len(r.Kids), recDim(r.Kids[0])}
	case "NMVectorIid":
		return [2]int{int(r.Ps[0]), recDim(r.Kids[0])}
	case "NMMixture":
		if len(r.Kids) > 0 {
			return recDims(r.Kids[0])
		}
	}
	return [2]int{0, 0}
}

func genMatDist(r *Rng, depth int) CfgRecipe {
	switch r.Intn(3) {
	case 0:
		c := CfgRecipe{Fam: "NMVectorId"}
		for i, n := 0, r.Range(0, 3); i < n; i++ {
			k := genVecDist(r, depth-1)
			for i == 0 && !recStypeOK(k) {
				k = genVecDist(r, depth-1)
			}
			c.Kids = append(c.Kids, k)
		}
		return c
	case 1:
		k := genVecDist(r, depth-1)
		for !recStypeOK(k) || recDim(k) == 0 {
			k = genVecDist(r, depth-1)
		}
		m := recDim(k)
		if m < 0 {
			m = -m
		}
		return CfgRecipe{Fam: "NMVectorIid", Ps: []float64{float64(m * r.Intn(4))}, Kids: []CfgRecipe{k}}
	}
	c := CfgRecipe{Fam: "NMMixture"}
	if depth <= 0 {
		return c
	}
	n := r.Range(0, 3)
	for i := 0; i < n; i++ {
		c.Ps = append(c.Ps, genProb(r))
		if i == 0 {
			k := genMatDist(r, depth-1)
			for n > 1 && !recDimsOK(k) {
				k = genMatDist(r, depth-1)
			}
			c.Kids = append(c.Kids, k)
			continue
		}
		k := genMatDist(r, depth-1)
		for try := 0; try < 30 && (!recDimsOK(k) || recDims(k) != recDims(c.Kids[0])); try++ {
			k = genMatDist(r, depth-1)
		}
		if !recDimsOK(k) || recDims(k) != recDims(c.Kids[0]) {
			k = c.Kids[0]
		}
		c.Kids = append(c.Kids, k)
	}
	return c
}

func nameOfFam(f string) string {
	if v, ok := vnameOfCoq(f); ok {
		return v.Name
	}
	return famByCoq(f).Name
}

// the JSON text of a recipe tree; Ps == nil on an id node prints "null" (what ExportConfig writes)
func docTextV(c CfgRecipe) string {
	ps := make([]string, len(c.Ps))
	for i, p := range c.Ps {
		ps[i] = numText(EType{Kind: "f64"}, El{F: p})
	}
	ks := make([]string, len(c.Kids))
	for i, k := range c.Kids {
		ks[i] = docTextV(k)
	}
	d := "null"
	if len(ks) > 0 {
		d = "[" + strings.Join(ks, ",") + "]"
	}
	p := "[" + strings.Join(ps, ",") + "]"
	if c.Ps == nil && (c.Fam == "NVScalarId" || c.Fam == "NVVectorId" || c.Fam == "NMVectorId") {
		p = "null"
	}
	return fmt.Sprintf(`{"Name":%q,"Parameters":%s,"Distributions":%s}`, nameOfFam(c.Fam), p, d)
}

func genVCfgMal(r *Rng) Recipe {
	rc := genVCfgMal1(r)
	for try := 0; try < 3 && rc.Mut == "valid"; try++ {
		rc = genVCfgMal1(r)
	}
	return rc
}

func genVCfgMal1(r *Rng) Recipe {
	level := "vec"
	var c CfgRecipe
	if r.Intn(3) == 0 {
		level, c = "mat", genMatDist(r, 2)
	} else {
		c = genVecDist(r, 2)
	}
	var walk func(n *CfgRecipe) []*CfgRecipe
	walk = func(n *CfgRecipe) []*CfgRecipe {
		out := []*CfgRecipe{n}
		for i := range n.Kids {
			out = append(out, walk(&n.Kids[i])...)
		}
		return out
	}
	nodes := walk(&c)
	var newNodes []*CfgRecipe // prefer the nodes of the new registries
	for _, n := range nodes {
		if _, ok := vnameOfCoq(n.Fam); ok || n.Fam == "FIid" {
			newNodes = append(newNodes, n)
		}
	}
	n := nodes[r.Intn(len(nodes))]
	if len(newNodes) > 0 && r.Intn(4) > 0 {
		n = newNodes[r.Intn(len(newNodes))]
	}
	mut, textMut := "valid", ""
	switch r.Intn(16) {
	case 0:
		if len(n.Ps) > 0 {
			n.Ps, mut = n.Ps[:len(n.Ps)-1], "drop-param"
		}
	case 1:
		n.Ps, mut = append(n.Ps, genAny(r)), "extra-param"
	case 2:
		if len(n.Ps) > 0 {
			n.Ps[r.Intn(len(n.Ps))], mut = -genPos(r), "negative-param"
		}
	case 3:
		if len(n.Ps) > 0 {
			n.Ps[0], mut = n.Ps[0]+[]float64{1, -1, 0.5, 7}[r.Intn(4)], "shift-param"
		}
	case 4:
		if len(n.Kids) > 0 {
			n.Kids, mut = n.Kids[:len(n.Kids)-1], "drop-child"
		}
	case 5:
		switch r.Intn(3) {
		case 0:
			n.Kids = append(n.Kids, genSimple(r))
		case 1:
			n.Kids = append(n.Kids, genVecDist(r, 1))
		default:
			n.Kids = append(n.Kids, genMatDist(r, 1))
		}
		mut = "extra-child"
	case 6:
		if len(n.Kids) > 0 { // a child of another registry / an empty id distribution in its place
			i := r.Intn(len(n.Kids))
			switch r.Intn(4) {
			case 0:
				n.Kids[i] = genSimple(r)
			case 1:
				n.Kids[i] = CfgRecipe{Fam: "NVScalarId"}
			case 2:
				n.Kids[i] = CfgRecipe{Fam: "NVVectorId"}
			default:
				n.Kids[i] = genMatDist(r, 1)
			}
			mut = "swap-child"
		}
	case 7:
		textMut, mut = "null-elem", "null-elem"
	case 8:
		textMut, mut = "string-elem", "string-elem"
	case 9:
		textMut, mut = "params-not-array", "params-not-array"
	case 10:
		textMut, mut = "unknown-name", "unknown-name"
	case 11:
		if level == "vec" {
			level = "mat"
		} else {
			level = "vec"
		}
		mut = "other-registry"
	case 12:
		if n.Fam == "NVMixture" || n.Fam == "NMMixture" {
			n.Ps, mut = append(n.Ps, genProb(r)), "extra-weight"
		}
	case 13:
		if len(n.Kids) > 0 && (n.Fam == "NVVectorIid" || n.Fam == "NMVectorIid") {
			n.Ps, mut = []float64{[]float64{-1, -6, 1, 7, 1e19, -1e19, 2.5}[r.Intn(7)]}, "iid-n"
		}
	case 14:
		if n.Fam == "FIid" { // changes Dim() under a vector iid / id / mixture
			n.Ps, mut = []float64{[]float64{0, -1, 3, 1e19, 2.7}[r.Intn(5)]}, "scalar-iid-n"
		}
	}
	s := docTextV(c)
	switch textMut {
	case "null-elem":
		if strings.Contains(s, `"Parameters":[]`) {
			s = strings.Replace(s, `"Parameters":[]`, `"Parameters":[null]`, 1)
		} else if strings.Contains(s, `"Parameters":[`) {
			s = strings.Replace(s, `"Parameters":[`, `"Parameters":[null,`, 1)
		} else {
			s = strings.Replace(s, `"Parameters":null`, `"Parameters":[null]`, 1)
		}
	case "string-elem":
		s = strings.Replace(s, `"Parameters":[`, `"Parameters":["1.5",`, 1)
		s = strings.Replace(s, `["1.5",]`, `["1.5"]`, 1)
	case "params-not-array":
		s = strings.Replace(s, `"Parameters":`, `"Parameters":`+[]string{`1.5,"x":`, `"abc","x":`, `{"a":1},"x":`, `true,"x":`}[r.Intn(4)], 1)
	case "unknown-name":
		if r.Bool() {
			s = strings.Replace(s, `"Name":"vector:`, `"Name":"vector :`, 1)
		} else {
			s = strings.Replace(s, `"Name":"matrix:`, `"Name":"matrix :`, 1)
		}
	}
	if r.Intn(30) == 0 {
		s, mut = s[:len(s)*2/3], mut+"+truncated"
	}
	return Recipe{Kind: "vcfg-mal", Type: "vcfg", Cfg: &CfgRecipe{Doc: s, Lvl: level}, Mut: mut}
}

func genVCfgRecipe(r *Rng) Recipe {
	if r.Intn(5) < 2 {
		return genVCfgMal(r)
	}
	var c CfgRecipe
	if r.Intn(3) == 0 {
		c = genMatDist(r, 3)
	} else {
		c = genVecDist(r, 3)
	}
	return Recipe{Kind: "vcfg", Type: "vcfg", Cfg: &c}
}

// every modelled name of the two registries, in every nesting position it can take, plus the boundary
// documents of the constructors' guards (runs with the corpus, independent of the seed)
func vcfgSweep() []Recipe {
	nrm := CfgRecipe{Fam: "FNormal", Ps: []float64{1, 2}}
	gam := CfgRecipe{Fam: "FGamma", Ps: []float64{2, 0.5}}
	iid := func(n float64) CfgRecipe { return CfgRecipe{Fam: "FIid", Ps: []float64{n}, Kids: []CfgRecipe{nrm}} }
	sid := CfgRecipe{Fam: "NVScalarId", Kids: []CfgRecipe{nrm, gam, {Fam: "FLogT", Ps: []float64{1}, Kids: []CfgRecipe{gam}}}}
	vid := CfgRecipe{Fam: "NVVectorId", Kids: []CfgRecipe{sid, iid(2), {Fam: "NVScalarId"}}}
	viid := CfgRecipe{Fam: "NVVectorIid", Ps: []float64{10}, Kids: []CfgRecipe{vid}}
	vmix := CfgRecipe{Fam: "NVMixture", Ps: []float64{0.25, 0.75}, Kids: []CfgRecipe{vid, iid(5)}}
	mid := CfgRecipe{Fam: "NMVectorId", Kids: []CfgRecipe{vid, viid, vmix}}
	miid := CfgRecipe{Fam: "NMVectorIid", Ps: []float64{6}, Kids: []CfgRecipe{sid}}
	mmix := CfgRecipe{Fam: "NMMixture", Ps: []float64{0.5, 0.5}, Kids: []CfgRecipe{miid, miid}}
	var out []Recipe
	for _, c := range []CfgRecipe{iid(3), iid(0), iid(-1), sid, {Fam: "NVScalarId"}, vid, {Fam: "NVVectorId"}, viid,
		{Fam: "NVVectorIid", Ps: []float64{0}, Kids: []CfgRecipe{sid}}, {Fam: "NVVectorIid", Ps: []float64{7}, Kids: []CfgRecipe{iid(-1)}},
		vmix, {Fam: "NVMixture"}, {Fam: "NVMixture", Ps: []float64{1}, Kids: []CfgRecipe{{Fam: "NVScalarId"}}},
		mid, {Fam: "NMVectorId"}, miid, mmix, {Fam: "NMMixture"},
		{Fam: "NMMixture", Ps: []float64{1}, Kids: []CfgRecipe{{Fam: "NMMixture", Ps: []float64{0.5, 0.5}, Kids: []CfgRecipe{mid, mid}}}}} {
		c := c
		out = append(out, Recipe{Kind: "vcfg", Type: "vcfg", Cfg: &c})
	}
	mal := func(level, mut string, c CfgRecipe) {
		out = append(out, Recipe{Kind: "vcfg-mal", Type: "vcfg", Cfg: &CfgRecipe{Doc: docTextV(c), Lvl: level}, Mut: mut})
	}
	// guards of NewVectorIid: n < 0, n % m != 0, m == 0 (divide), empty id child (ScalarType)
	mal("vec", "iid-n", CfgRecipe{Fam: "NVVectorIid", Ps: []float64{-3}, Kids: []CfgRecipe{sid}})
	mal("vec", "iid-n", CfgRecipe{Fam: "NVVectorIid", Ps: []float64{4}, Kids: []CfgRecipe{sid}})
	mal("vec", "iid-n", CfgRecipe{Fam: "NVVectorIid", Ps: []float64{4}, Kids: []CfgRecipe{iid(0)}})
	mal("vec", "iid-n", CfgRecipe{Fam: "NVVectorIid", Ps: []float64{-4}, Kids: []CfgRecipe{iid(0)}})
	mal("vec", "swap-child", CfgRecipe{Fam: "NVVectorIid", Ps: []float64{0}, Kids: []CfgRecipe{{Fam: "NVScalarId"}}})
	mal("vec", "swap-child", CfgRecipe{Fam: "NVVectorIid", Ps: []float64{0}, Kids: []CfgRecipe{{Fam: "NVMixture"}}})
	mal("mat", "iid-n", CfgRecipe{Fam: "NMVectorIid", Ps: []float64{4}, Kids: []CfgRecipe{sid}})
	mal("mat", "iid-n", CfgRecipe{Fam: "NMVectorIid", Ps: []float64{3}, Kids: []CfgRecipe{iid(0)}})
	mal("vec", "swap-child", CfgRecipe{Fam: "NVVectorId", Kids: []CfgRecipe{{Fam: "NVVectorId"}, sid}})
	mal("vec", "swap-child", CfgRecipe{Fam: "NVVectorId", Kids: []CfgRecipe{sid, {Fam: "NVVectorId"}}})
	mal("mat", "swap-child", CfgRecipe{Fam: "NMVectorId", Kids: []CfgRecipe{{Fam: "NVScalarId"}}})
	mal("vec", "swap-child", CfgRecipe{Fam: "NVScalarId", Kids: []CfgRecipe{iid(2)}})
	mal("vec", "swap-child", CfgRecipe{Fam: "NVVectorId", Kids: []CfgRecipe{nrm}})
	mal("vec", "other-registry", mid)
	mal("mat", "other-registry", vid)
	mal("mat", "other-registry", iid(2))
	mal("vec", "extra-weight", CfgRecipe{Fam: "NVMixture", Ps: []float64{0.5, 0.5}, Kids: []CfgRecipe{sid}})
	mal("vec", "extra-child", CfgRecipe{Fam: "NVMixture", Ps: []float64{1}, Kids: []CfgRecipe{sid, iid(2)}})
	mal("mat", "extra-weight", CfgRecipe{Fam: "NMMixture", Ps: []float64{0.5, 0.5}, Kids: []CfgRecipe{miid}})
	mal("vec", "negative-param", CfgRecipe{Fam: "NVMixture", Ps: []float64{-0.5, 0.5}, Kids: []CfgRecipe{sid, sid}})
	// int(parameters[0]) outside the int range; VectorId.n wrapping around
	mal("vec", "iid-n", CfgRecipe{Fam: "NVVectorIid", Ps: []float64{1e19}, Kids: []CfgRecipe{sid}})
	mal("vec", "scalar-iid-n", CfgRecipe{Fam: "NVVectorId", Kids: []CfgRecipe{iid(9e18), iid(9e18)}})
	return out
}

// ---------------------------------------------------------------- shrinking

func shrinkVCfg(rc Recipe, still func(Recipe) bool) Recipe {
	if rc.Cfg.Doc != "" {
		for round := 0; round < 200; round++ {
			var v interface{}
			if json.Unmarshal([]byte(rc.Cfg.Doc), &v) != nil {
				return rc
			}
			progressed := false
			for _, cand := range shrinkJSON(v) {
				b, err := json.Marshal(cand)
				if err != nil || len(b) >= len(rc.Cfg.Doc) {
					continue
				}
				c := rc
				c.Cfg = &CfgRecipe{Doc: string(b), Lvl: rc.Cfg.Lvl}
				if still(c) {
					rc, progressed = c, true
					break
				}
			}
			if !progressed {
				break
			}
		}
		return rc
	}
	for round := 0; round < 50; round++ {
		progressed := false
		for i := range rc.Cfg.Kids { // replace the tree by one of its (vector / matrix) children
			k := rc.Cfg.Kids[i]
			if recLevel(k) == "scalar" {
				continue
			}
			c := rc
			c.Cfg = &k
			if still(c) {
				rc, progressed = c, true
				break
			}
		}
		if !progressed {
			break
		}
	}
	return rc
}
