// C18 harness — data types shared by the generator, the executor and the oracle,
// and the printers of Coq terms for coq/C18/Corr.v.
package main

import (
	"encoding/json"
	"fmt"
	"math"
	"strconv"
	"strings"

	. "adharness/common"

	ad "github.com/pbenner/autodiff"
)

// ---------------------------------------------------------------- element types

type EType struct {
	Name string
	T    ad.ScalarType
	Kind string // "f64" | "f32" | "int"
	Bits int    // for ints
	Real bool
}

var etypes = []EType{
	{"Float64", ad.Float64Type, "f64", 0, false},
	{"Real64", ad.Real64Type, "f64", 0, true},
	{"Float32", ad.Float32Type, "f32", 0, false},
	{"Real32", ad.Real32Type, "f32", 0, true},
	{"Int", ad.IntType, "int", 64, false},
	{"Int64", ad.Int64Type, "int", 64, false},
	{"Int32", ad.Int32Type, "int", 32, false},
	{"Int16", ad.Int16Type, "int", 16, false},
	{"Int8", ad.Int8Type, "int", 8, false},
}

func etypeByName(n string) EType {
	for _, e := range etypes {
		if e.Name == n {
			return e
		}
	}
	Die("unknown element type %q", n)
	return EType{}
}

// ---------------------------------------------------------------- elements

// El is one element value: a binary64 (float32 values are a subset) or an integer.
type El struct {
	Int bool
	F   float64
	Z   int64
}

func (e El) MarshalJSON() ([]byte, error) {
	if e.Int {
		return json.Marshal("z:" + strconv.FormatInt(e.Z, 10))
	}
	return json.Marshal("f:" + strconv.FormatFloat(e.F, 'x', -1, 64))
}
func (e *El) UnmarshalJSON(b []byte) error {
	var s string
	if err := json.Unmarshal(b, &s); err != nil {
		return err
	}
	if strings.HasPrefix(s, "z:") {
		z, err := strconv.ParseInt(s[2:], 10, 64)
		e.Int, e.Z = true, z
		return err
	}
	f, err := strconv.ParseFloat(s[2:], 64)
	if err != nil && !(math.IsInf(f, 0)) {
		return err
	}
	e.Int, e.F = false, f
	return nil
}
func (e El) Coq() string {
	if e.Int {
		return "(EZ " + Z(e.Z) + ")"
	}
	return "(EF " + F(e.F) + ")"
}
func (e El) NonZero() bool {
	if e.Int {
		return e.Z != 0
	}
	return e.F != 0
}
func (e El) Finite() bool { return e.Int || !(math.IsNaN(e.F) || math.IsInf(e.F, 0)) }

// bit-exact equality (NaNs identified)
func (e El) Same(o El) bool {
	if e.Int != o.Int {
		return false
	}
	if e.Int {
		return e.Z == o.Z
	}
	if math.IsNaN(e.F) && math.IsNaN(o.F) {
		return true
	}
	return math.Float64bits(e.F) == math.Float64bits(o.F)
}

// equal, or both are zeros (the formats do not carry zeros)
func (e El) ZEq(o El) bool { return e.Same(o) || (!e.NonZero() && !o.NonZero() && e.Int == o.Int) }

func zeroEl(et EType) El { return El{Int: et.Kind == "int"} }

func elsCoq(xs []El) string {
	s := make([]string, len(xs))
	for i, x := range xs {
		s[i] = x.Coq()
	}
	return List(s)
}
func rowsCoq(xs [][]El) string {
	s := make([]string, len(xs))
	for i, x := range xs {
		s[i] = elsCoq(x)
	}
	return List(s)
}

// RealV: the state of a Real32/Real64 (exported fields).
type RealV struct {
	Val   El
	Order int
	N     int
	D     []El
	H     [][]El
}

func (r RealV) Coq() string {
	return fmt.Sprintf("(mkReal %s %s %s %s %s)", r.Val.Coq(), ZI(r.Order), ZI(r.N), elsCoq(r.D), rowsCoq(r.H))
}
func (r RealV) anyDeriv() bool {
	for _, d := range r.D {
		if d.NonZero() {
			return true
		}
	}
	for _, row := range r.H {
		for _, h := range row {
			if h.NonZero() {
				return true
			}
		}
	}
	return false
}
func realsCoq(xs []RealV) string {
	s := make([]string, len(xs))
	for i, x := range xs {
		s[i] = x.Coq()
	}
	return List(s)
}

// Elem: an element of a container: plain or real.
type Elem struct {
	P El
	R *RealV `json:",omitempty"`
}

func (e Elem) Value() El {
	if e.R != nil {
		return e.R.Val
	}
	return e.P
}
func (e Elem) Coq() string {
	if e.R != nil {
		return e.R.Coq()
	}
	return e.P.Coq()
}

// sparse element as the model sees it: (value, some derivative entry non-zero)
func (e Elem) SelCoq() string {
	b := false
	if e.R != nil {
		b = e.R.anyDeriv()
	}
	return "(" + e.Value().Coq() + ", " + B(b) + ")"
}
func elemsCoq(xs []Elem) string {
	s := make([]string, len(xs))
	for i, x := range xs {
		s[i] = x.Coq()
	}
	return List(s)
}

type Ent struct {
	K int64
	E Elem
}

// ---------------------------------------------------------------- observed container states

type SvState struct {
	Ents []Ent // ascending keys
	N    int64
}

func (s SvState) Coq(sel bool) string {
	xs := make([]string, len(s.Ents))
	for i, e := range s.Ents {
		if sel {
			xs[i] = "(" + Z(e.K) + ", " + e.E.SelCoq() + ")"
		} else {
			xs[i] = "(" + Z(e.K) + ", " + e.E.Value().Coq() + ")"
		}
	}
	return "(mkSv " + List(xs) + " " + Z(s.N) + ")"
}

type DmState struct {
	Vals                               []Elem
	Rows, Cols, Roff, Rmax, Coff, Cmax int64
	Tr                                 bool
}

func (m DmState) Coq() string {
	return fmt.Sprintf("(mkDm %s %s %s %s %s %s %s %s)", elemsCoq(m.Vals), Z(m.Rows), Z(m.Cols), Z(m.Roff), Z(m.Rmax), Z(m.Coff), Z(m.Cmax), B(m.Tr))
}

type SmState struct {
	St                                 SvState
	Rows, Cols, Roff, Rmax, Coff, Cmax int64
}

func (m SmState) Coq(sel bool) string {
	return fmt.Sprintf("(mkSm %s %s %s %s %s %s %s)", m.St.Coq(sel), Z(m.Rows), Z(m.Cols), Z(m.Roff), Z(m.Rmax), Z(m.Coff), Z(m.Cmax))
}

// ---------------------------------------------------------------- typed documents (mirror of the Go structs)

type Sdoc struct {
	Num  bool
	V    El
	D    []El
	H    [][]El
	HasD bool
	HasH bool
}

func (d Sdoc) Coq() string {
	if d.Num {
		return "(SNum " + d.V.Coq() + ")"
	}
	ds, hs := "None", "None"
	if d.HasD {
		ds = "(Some " + elsCoq(d.D) + ")"
	}
	if d.HasH {
		hs = "(Some " + rowsCoq(d.H) + ")"
	}
	return "(SObj " + d.V.Coq() + " " + ds + " " + hs + ")"
}

// ---------------------------------------------------------------- outcomes

// Outcome kind of a Go call; Term is the Coq term of the value when Kind == "ok".
type Outcome struct {
	Kind string // ok | err | panic | crash
	Term string
	Msg  string
}

func (o Outcome) Coq() string {
	switch o.Kind {
	case "ok":
		return "(Ok " + o.Term + ")"
	case "err":
		return "Err"
	case "panic":
		return "Panic"
	}
	return "Crash"
}

// ---------------------------------------------------------------- recipes (replayable inputs)

type Op struct {
	T              bool // transpose
	Tip            bool `json:",omitempty"` // in-place transpose (receivers only, round 7)
	Rf, Rt, Cf, Ct int  // slice
}

func opsCoq(ops []Op) string {
	s := make([]string, len(ops))
	for i, o := range ops {
		if o.T {
			s[i] = "VT"
		} else {
			s[i] = fmt.Sprintf("(VSlice %d %d %d %d)", o.Rf, o.Rt, o.Cf, o.Ct)
		}
	}
	return List(s)
}

// Recipe: one case. Kind: plain const real dv sv dm sm (JSON round trips), mal-real mal-dv mal-sv mal-dm mal-sm (malformed JSON);
// t-dv t-dm t-sv t-sm (table round trips), tmal-dv tmal-dm tmal-sv tmal-sm (malformed table files), t-lit; cfg cfg-mal (distribution configs).
type Recipe struct {
	Kind  string
	Type  string
	Els   []Elem `json:",omitempty"` // plain/const/real: one element; dv: elements; dm: r0*c0 elements row-major
	Ents  []Ent  `json:",omitempty"` // sv / sm: touched positions (sm: k = i*c0+j) in order of assignment
	N     int    `json:",omitempty"` // sv dimension
	R0    int    `json:",omitempty"`
	C0    int    `json:",omitempty"`
	Ops   []Op   `json:",omitempty"`
	Bytes string `json:",omitempty"` // malformed stream: the JSON text handed to the reader
	Mut   string `json:",omitempty"` // which mutation produced Bytes (histogram only)
	File  string `json:",omitempty"` // table malformed stream (tmal-*): the bytes of the file, hex-encoded
	Cfg   *CfgRecipe `json:",omitempty"` // distribution configuration cases (cfg, cfg-mal)
	// rv-real rv-dv rv-sv rv-dm rv-sm (JSON) / rvt-dv rvt-dm rvt-sv rvt-sm (tables): decode into a RECYCLED receiver.  The bytes are
	// Bytes / File when given, else what the writer makes of the object described by Els/Ents/N/R0/C0/Ops.  Recv describes the
	// receiver (a recipe of the same base kind and Type; Kind "zero": a zero-value struct; nil: fresh), Recv2 the receiver of the
	// second generation.  rv-fields: Mut = base kind, the struct declaration check.
	Recv  *Recipe `json:",omitempty"`
	Recv2 *Recipe `json:",omitempty"`
}
