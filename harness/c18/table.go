// C18 harness — TABLE (text file) Export / Import: recipes, the mirror of the byte layer
// (bufio lines + strings.Fields + gzip, standard library), execution on the implementation,
// Coq cases for coq/C18/TableCorr.v, and the property-level oracle for tables.
package main

import (
	"bytes"
	"compress/gzip"
	"encoding/hex"
	"fmt"
	"io"
	"math"
	"os"
	"path/filepath"
	"reflect"
	"sort"
	"strconv"
	"strings"

	. "adharness/common"

	ad "github.com/pbenner/autodiff"
)

const theader = "From Coq Require Import ZArith List Bool Floats.\nFrom ADV Require Import C18.Model C18.Corr C18.TableModel C18.TableCorr.\nImport ListNotations.\nOpen Scope Z_scope.\n"

var workDir = "." // directory for the files written by Export / read by Import (set from --out)

// tableKind: "t-dv" -> ("dv", false, true); "tmal-sm" -> ("sm", true, true); "t-lit" -> ("lit", false, true)
func tableKind(kind string) (base string, mal bool, ok bool) {
	switch {
	case strings.HasPrefix(kind, "tmal-"):
		return kind[5:], true, true
	case strings.HasPrefix(kind, "t-"):
		return kind[2:], false, true
	}
	return "", false, false
}

func kindCoq(et EType) string {
	switch et.Kind {
	case "f32":
		return "KF32"
	case "int":
		return fmt.Sprintf("(KInt %d)", et.Bits)
	}
	return "KF64"
}

// ---------------------------------------------------------------- mirror of the byte layer

type TLine struct {
	Empty  bool
	Fields []string
}

// the lines bufioReadLine returns until EOF: split at '\n'; the unterminated rest is a line only when
// it is non-empty and the stream ended with EOF (on a read error the partial line is not processed)
func tokenize(data []byte, failed bool) []TLine {
	segs := bytes.Split(data, []byte("\n"))
	last := segs[len(segs)-1]
	segs = segs[:len(segs)-1]
	if !failed && len(last) > 0 {
		segs = append(segs, last)
	}
	out := make([]TLine, len(segs))
	for i, s := range segs {
		if len(s) == 0 {
			out[i] = TLine{Empty: true}
		} else {
			out[i] = TLine{Fields: strings.Fields(string(s))}
		}
	}
	return out
}

func tokCoq(s string) string {
	f, i := "None", "None"
	if v, err := strconv.ParseFloat(s, 64); err == nil {
		f = "(Some " + F(v) + ")"
	}
	if v, err := strconv.ParseInt(s, 10, 64); err == nil {
		i = "(Some " + Z(v) + ")"
	}
	return "(mkTok " + f + " " + i + ")"
}
func linesCoq(ls []TLine) string {
	xs := make([]string, len(ls))
	for i, l := range ls {
		if l.Empty {
			xs[i] = "LEmpty"
			continue
		}
		ts := make([]string, len(l.Fields))
		for j, t := range l.Fields {
			ts[j] = tokCoq(t)
		}
		xs[i] = "(LFields " + List(ts) + ")"
	}
	return List(xs)
}
func prefixCoq(data []byte) string {
	var p []int64
	for i := 0; i < len(data) && i < 2; i++ {
		p = append(p, int64(data[i]))
	}
	return ZList(p)
}

// what gzip makes of the bytes: ok=false when gzip.NewReader rejects them
func gunzip(data []byte) (out []byte, failed bool, ok bool) {
	g, err := gzip.NewReader(bytes.NewReader(data))
	if err != nil {
		return nil, false, false
	}
	out, err = io.ReadAll(g)
	return out, err != nil, true
}
func isGzMagic(data []byte) bool { return len(data) >= 2 && data[0] == 31 && data[1] == 139 }

// the content lines a reader would see (used by the oracle's cause labels)
func effectiveLines(data []byte) []TLine {
	if isGzMagic(data) {
		if out, failed, ok := gunzip(data); ok {
			return tokenize(out, failed)
		}
		return nil
	}
	return tokenize(data, false)
}

func fileCoq(data []byte) string {
	gz := "None"
	plain := "(mkTs [] false)"
	if isGzMagic(data) {
		if out, failed, ok := gunzip(data); ok {
			gz = "(Some (mkTs " + linesCoq(tokenize(out, failed)) + " " + B(failed) + "))"
		}
	} else {
		plain = "(mkTs " + linesCoq(tokenize(data, false)) + " false)"
	}
	return "(mkTf " + prefixCoq(data) + " " + plain + " " + gz + ")"
}

// ---------------------------------------------------------------- observed states, values only

func valsCoq(xs []Elem) string {
	s := make([]string, len(xs))
	for i, x := range xs {
		s[i] = x.Value().Coq()
	}
	return List(s)
}
func derivFree(xs []Elem) bool {
	for _, x := range xs {
		if x.R != nil && (x.R.Order != 0 || x.R.N != 0 || len(x.R.D) != 0 || len(x.R.H) != 0) {
			return false
		}
	}
	return true
}
func tableStateCoq(base string, obj interface{}, input bool) (string, bool) {
	switch base {
	case "dv":
		xs := obsDv(obj)
		return valsCoq(xs), input || derivFree(xs)
	case "dm":
		m := obsDm(obj)
		return fmt.Sprintf("(mkDm %s %s %s %s %s %s %s %s)", valsCoq(m.Vals), Z(m.Rows), Z(m.Cols), Z(m.Roff), Z(m.Rmax), Z(m.Coff), Z(m.Cmax), B(m.Tr)),
			input || derivFree(m.Vals)
	case "sv":
		s := obsSvRV(reflect.ValueOf(obj))
		return s.Coq(input), input || derivFreeEnts(s.Ents)
	case "sm":
		m := obsSm(obj)
		return m.Coq(input), input || derivFreeEnts(m.St.Ents)
	}
	panic("tableStateCoq: " + base)
}
func derivFreeEnts(es []Ent) bool {
	for _, e := range es {
		if !derivFree([]Elem{e.E}) {
			return false
		}
	}
	return true
}

type importer interface{ Import(string) error }
type exporter interface{ Export(string) error }

// ---------------------------------------------------------------- running a table recipe

func tableFile() string { return filepath.Join(workDir, "c18_table.tmp") }

func runTable(rc Recipe) (res Result) {
	base, mal, _ := tableKind(rc.Kind)
	if base == "lit" {
		z := rc.Els[0].P.Z
		x, _ := strconv.ParseFloat(strconv.FormatInt(z, 10), 64)
		res.Coq = fmt.Sprintf("TLit %s %s", Z(z), F(x))
		res.Key = fmt.Sprintf("t-lit/%d", z)
		res.Nontriv = float64(z) != x || int64(x) != z
		res.Hist = []string{"t-lit"}
		return res
	}
	et := etypeByName(rc.Type)
	if mal {
		return runTableMal(rc, et, base)
	}
	brc := rc
	brc.Kind = base
	obj := build(brc, et)
	in, _ := tableStateCoq(base, obj, true)
	cause := tableCause(brc, et, base, obj)
	file := tableFile()
	os.Remove(file)
	wk, wmsg := guard(func() error { return obj.(exporter).Export(file) })
	gw := Outcome{Kind: wk, Msg: wmsg}
	gr := Outcome{Kind: "err"}
	var back interface{}
	var data []byte
	if wk == "ok" {
		var err error
		if data, err = os.ReadFile(file); err != nil {
			gw = Outcome{Kind: "crash", Msg: "Export returned nil but wrote no readable file"}
		} else {
			gw.Term = linesCoq(tokenize(data, false))
			target, get := freshTarget(base, et)
			rk, rmsg := guard(func() error { return target.(importer).Import(file) })
			gr = Outcome{Kind: rk, Msg: rmsg}
			if rk == "ok" {
				back = get()
				term, clean := tableStateCoq(base, back, false)
				gr.Term = term
				if !clean {
					gr = Outcome{Kind: "crash", Msg: "Import produced elements with derivative storage"}
				}
			}
		}
	}
	k := kindCoq(et)
	switch base {
	case "dv", "sv":
		res.Coq = fmt.Sprintf("TRt%s %s %s %s %s %s", ctorName(base), k, in, gw.Coq(), prefixCoq(data), gr.Coq())
	case "dm":
		res.Coq = fmt.Sprintf("TRtDm %s %s %d %d %s %s %s %s %s", k, B(et.Real), rc.R0, rc.C0, opsCoq(rc.Ops), in, gw.Coq(), prefixCoq(data), gr.Coq())
	case "sm":
		res.Coq = fmt.Sprintf("TRtSm %s %d %d %s %s %s %s %s", k, rc.R0, rc.C0, opsCoq(rc.Ops), in, gw.Coq(), prefixCoq(data), gr.Coq())
	}
	res.Hist = append(res.Hist, "trt/"+base+"/"+rc.Type, "export:"+gw.Kind)
	if gw.Kind == "ok" {
		res.Hist = append(res.Hist, "import:"+gr.Kind)
	}
	res.Failures = oracleTableRT(rc, et, base, cause, obj, gw, gr, back)
	res.Key = fmt.Sprintf("%s/%s/%d/%s/%s", rc.Kind, rc.Type, len(data), gw.Kind, gr.Kind)
	res.Nontriv = gw.Kind == "ok" && gr.Kind == "ok" && len(data) > 2
	return res
}

func fileBytes(rc Recipe) []byte {
	b, err := hex.DecodeString(rc.File)
	if err != nil {
		Die("recipe file bytes: %v", err)
	}
	return b
}

func runTableMal(rc Recipe, et EType, base string) (res Result) {
	data := fileBytes(rc)
	file := tableFile()
	if err := os.WriteFile(file, data, 0644); err != nil {
		Die("%v", err)
	}
	target, get := freshTarget(base, et)
	rk, rmsg := guard(func() error { return target.(importer).Import(file) })
	gr := Outcome{Kind: rk, Msg: rmsg}
	var back interface{}
	if rk == "ok" {
		back = get()
		term, clean := tableStateCoq(base, back, false)
		gr.Term = term
		if !clean {
			gr = Outcome{Kind: "crash", Msg: "Import produced elements with derivative storage"}
		}
	}
	k := kindCoq(et)
	if base == "dm" {
		res.Coq = fmt.Sprintf("TMalDm %s %s %s %s", k, B(et.Real), fileCoq(data), gr.Coq())
	} else {
		res.Coq = fmt.Sprintf("TMal%s %s %s %s", ctorName(base), k, fileCoq(data), gr.Coq())
	}
	res.Key = fmt.Sprintf("%s/%s/%s/%s/%d", rc.Kind, rc.Type, rc.Mut, gr.Kind, len(data))
	res.Nontriv = len(effectiveLines(data)) > 0
	res.Hist = append(res.Hist, "tmal/"+base+"/"+rc.Type, "tmal-import:"+gr.Kind, "tmut:"+rc.Mut)
	res.Failures = oracleTableMal(rc, et, base, data, gr, back)
	return res
}

// ---------------------------------------------------------------- oracle (independent of the Coq model)

func cmpValue(et EType, a, b ad.ConstScalar, exact bool) string {
	va, vb := scalarEl(et, a), scalarEl(et, b)
	if exact && !va.Same(vb) || !exact && !va.ZEq(vb) {
		return fmt.Sprintf("value %v vs %v", va, vb)
	}
	return ""
}

// why a table round trip may be special, from the object as built (before Export)
func tableCause(brc Recipe, et EType, base string, obj interface{}) string {
	var c []string
	odd := func(s ad.ConstScalar) bool {
		if et.Kind != "int" {
			return false
		}
		z := s.GetInt64()
		f := float64(z)
		return f >= 9.3e18 || int64(f) != z
	}
	guard(func() error {
		bad := false
		switch base {
		case "dv", "sv":
			v := obj.(ad.Vector)
			for i := 0; i < v.Dim(); i++ {
				bad = bad || odd(v.ConstAt(i))
			}
		case "dm", "sm":
			m := obj.(ad.Matrix)
			r, cc := m.Dims()
			for i := 0; i < r; i++ {
				for j := 0; j < cc; j++ {
					bad = bad || odd(m.ConstAt(i, j))
				}
			}
			if base == "dm" && (r == 0) != (cc == 0) {
				c = append(c, "empty-dim")
			}
		}
		if bad {
			c = append(c, "int-not-binary64")
		}
		return nil
	})
	if base == "sm" {
		if x := recipeCause(brc, "sm"); x != "" {
			c = append(c, x)
		}
	}
	sort.Strings(c)
	return strings.Join(c, "+")
}

func oracleTableRT(rc Recipe, et EType, base, cause string, obj interface{}, gw, gr Outcome, back interface{}) []Failure {
	fail := func(site, k, detail string) []Failure {
		return []Failure{{Site: base + "." + site, Kind: k, Cause: cause, Detail: detail, Type: rc.Type}}
	}
	if gw.Kind != "ok" {
		return fail("Export", "write-"+gw.Kind, gw.Msg)
	}
	if gr.Kind != "ok" {
		return fail("Import", "roundtrip-"+gr.Kind, gr.Msg)
	}
	var diff string
	k, msg := guard(func() error {
		switch base {
		case "dv", "sv":
			a, b := obj.(ad.Vector), back.(ad.Vector)
			if a.Dim() != b.Dim() {
				diff = fmt.Sprintf("dim %d vs %d", a.Dim(), b.Dim())
				return nil
			}
			for i := 0; i < a.Dim() && diff == ""; i++ {
				if d := cmpValue(et, a.ConstAt(i), b.ConstAt(i), base == "dv"); d != "" {
					diff = fmt.Sprintf("element %d: %s", i, d)
				}
			}
		case "dm", "sm":
			a, b := obj.(ad.Matrix), back.(ad.Matrix)
			r1, c1 := a.Dims()
			r2, c2 := b.Dims()
			if r1 != r2 || c1 != c2 {
				diff = fmt.Sprintf("dims %dx%d vs %dx%d", r1, c1, r2, c2)
				return nil
			}
			for i := 0; i < r1 && diff == ""; i++ {
				for j := 0; j < c1 && diff == ""; j++ {
					if d := cmpValue(et, a.ConstAt(i, j), b.ConstAt(i, j), base == "dm"); d != "" {
						diff = fmt.Sprintf("element %d,%d: %s", i, j, d)
					}
				}
			}
		}
		return nil
	})
	if k == "panic" {
		return fail("Import", "roundtrip-access-panic", msg)
	}
	if diff != "" {
		return fail("Import", "roundtrip-mismatch", diff)
	}
	return nil
}

// why a table file is malformed, from its lines alone
func tableDocCause(base string, data []byte) string {
	ls := effectiveLines(data)
	var c []string
	pint := func(s string) (int64, bool) { v, err := strconv.ParseInt(s, 10, 64); return v, err == nil }
	var content [][]string
	for _, l := range ls {
		if !l.Empty {
			content = append(content, l.Fields)
		}
	}
	switch base {
	case "dm":
		for _, f := range content {
			if len(f) == 0 {
				c = append(c, "ws-line")
				break
			}
		}
	case "sv":
		if len(content) > 0 && len(content[0]) == 1 {
			if n, ok := pint(content[0][0]); ok {
				var idx []int64
				for _, f := range content[1:] {
					if len(f) == 2 {
						if k, ok := pint(f[0]); ok {
							idx = append(idx, k)
						}
					}
				}
				c = sparseCause(idx, len(idx), n, true, n < 0)
			}
		}
	case "sm":
		if len(content) > 0 && len(content[0]) == 2 {
			rows, ok1 := pint(content[0][0])
			cols, ok2 := pint(content[0][1])
			if ok1 && ok2 {
				n := rows * cols
				exact := rows == 0 || (n/rows == cols && !(rows == -1 && cols == math.MinInt64))
				if rows < 0 || cols < 0 {
					c = append(c, "neg-dim")
				}
				if !exact {
					c = append(c, "dim-overflow")
				}
				for _, f := range content[1:] {
					if len(f) == 3 {
						i, oki := pint(f[0])
						j, okj := pint(f[1])
						if oki && okj && (i < 0 || j < 0 || i >= rows || j >= cols) {
							c = append(c, "index-outside")
							break
						}
						// overflowing dimensions: the backing vector has the WRAPPED dimension n, so an index inside the
						// nominal rows x cols can still lie outside [0, n) (e.g. "2 9223372036854775807" / "0 0 1": n = -2)
						if k := i*cols + j; oki && okj && !exact && (k < 0 || k >= n) {
							c = append(c, "index-outside")
							break
						}
					}
				}
			}
		}
	}
	sort.Strings(c)
	return strings.Join(c, "+")
}

func oracleTableMal(rc Recipe, et EType, base string, data []byte, gr Outcome, back interface{}) []Failure {
	switch gr.Kind {
	case "panic":
		return []Failure{{Site: base + ".Import", Kind: "reader-panic", Cause: tableDocCause(base, data), Detail: gr.Msg, Type: rc.Type}}
	case "crash":
		return []Failure{{Site: base + ".Import", Kind: "corrupt-object", Cause: tableDocCause(base, data), Detail: gr.Msg, Type: rc.Type}}
	case "ok":
		okk, _ := guard(func() error {
			if !wfBack(base, back) {
				return fmt.Errorf("not wf")
			}
			return nil
		})
		if okk != "ok" {
			return []Failure{{Site: base + ".Import", Kind: "corrupt-object", Cause: tableDocCause(base, data),
				Detail: "Import accepted the file and returned an object violating the container invariants", Type: rc.Type}}
		}
	}
	return nil
}

// ---------------------------------------------------------------- generators

func genTableRT(r *Rng) Recipe {
	var rc Recipe
	for {
		rc = genRoundTrip(r)
		if rc.Kind == "dv" || rc.Kind == "sv" || rc.Kind == "dm" || rc.Kind == "sm" {
			break
		}
	}
	et := etypeByName(rc.Type)
	// tables carry NaN and infinities; aim at the empty shapes and the integer bounds more often
	switch rc.Kind {
	case "dv":
		if r.Intn(6) == 0 {
			rc.Els = []Elem{}
		}
	case "dm":
		switch r.Intn(10) {
		case 0:
			rc.R0, rc.Els, rc.Ops = 0, nil, nil
		case 1: // an empty view of a non-empty matrix
			if rc.R0 > 0 && rc.C0 > 0 {
				if r.Bool() {
					rc.Ops = []Op{{Rf: 0, Rt: 0, Cf: 0, Ct: rc.C0}}
				} else {
					rc.Ops = []Op{{Rf: 0, Rt: rc.R0, Cf: 0, Ct: 0}}
				}
				if r.Bool() {
					rc.Ops = append(rc.Ops, Op{T: true})
				}
			}
		}
	}
	if et.Kind == "int" && r.Intn(3) == 0 {
		big := func() Elem { return Elem{P: El{Int: true, Z: genZ(r, et)}} }
		for i := range rc.Els {
			if r.Bool() {
				rc.Els[i] = big()
			}
		}
		for i := range rc.Ents {
			if r.Bool() {
				rc.Ents[i].E = big()
			}
		}
	}
	rc.Kind = "t-" + rc.Kind
	return rc
}

var litSpecial = []int64{math.MaxInt64, math.MinInt64, 1<<53 + 1, -(1<<53 + 1), 1<<53 + 3, 1<<54 + 2, 1<<54 + 6, 1<<62 + 1, math.MaxInt64 - 511, math.MaxInt64 - 512,
	math.MaxInt64 - 513, 1 << 53, 1<<53 - 1, 0, -1, 1<<60 + 1<<7, 1<<60 + 1<<7 + 1, 1<<60 + 3<<7}

func genLit(r *Rng) Recipe {
	z := litSpecial[r.Intn(len(litSpecial))]
	if r.Bool() {
		z = int64(r.U64()) >> uint(r.Intn(11))
	}
	return Recipe{Kind: "t-lit", Type: "Int64", Els: []Elem{{P: El{Int: true, Z: z}}}}
}

var oddTokens = []string{"NaN", "+Inf", "-Inf", "inf", "1e400", "-1e400", "1e-400", "0x1p-2", "0x10", "1_000", "abc", "1,5", "-0", "+1", ".5", "5.", "1e3", "3.7", "-200.7",
	"300", "40000", "3000000000", "1e10", "1e19", "-1e19", "9223372036854775807", "9223372036854775808", "9007199254740993", "340282356779733661637539395458142568448", "1e39", "1e-50", "0.1", "16777217"}

func genValTok(r *Rng, et EType) string {
	if r.Intn(8) == 0 {
		return oddTokens[r.Intn(len(oddTokens))]
	}
	return numText(et, genEl(r, EType{Kind: et.Kind, Bits: et.Bits}, false))
}

func gzipBytes(b []byte) []byte {
	var buf bytes.Buffer
	w := gzip.NewWriter(&buf)
	w.Write(b)
	w.Close()
	return buf.Bytes()
}

// a (mostly valid) table of the given shape as lines of tokens, then one structure-aware mutation
func genTableMal(r *Rng) Recipe {
	et := pickType(r, false, false)
	base := []string{"dv", "dm", "sv", "sm"}[r.Pick([]int{2, 4, 3, 4})]
	var lines [][]string
	hdr := 0 // number of header lines
	n := int64(r.Range(0, 6))
	rows, cols := int64(r.Range(0, 3)), int64(r.Range(0, 3))
	switch base {
	case "dv":
		for i := int64(0); i < n; i++ {
			lines = append(lines, []string{genValTok(r, et)})
		}
	case "dm":
		for i := int64(0); i < rows; i++ {
			var l []string
			for j := int64(0); j < cols; j++ {
				l = append(l, genValTok(r, et))
			}
			lines = append(lines, l)
		}
	case "sv":
		hdr = 1
		lines = append(lines, []string{strconv.FormatInt(n, 10)})
		for k := int64(0); k < n; k++ {
			if r.Bool() {
				t := genValTok(r, et)
				if r.Intn(6) == 0 {
					t = "0"
				}
				lines = append(lines, []string{strconv.FormatInt(k, 10), t})
			}
		}
	case "sm":
		hdr = 1
		lines = append(lines, []string{strconv.FormatInt(rows, 10), strconv.FormatInt(cols, 10)})
		for i := int64(0); i < rows; i++ {
			for j := int64(0); j < cols; j++ {
				if r.Bool() {
					t := genValTok(r, et)
					if r.Intn(6) == 0 {
						t = "0"
					}
					lines = append(lines, []string{strconv.FormatInt(i, 10), strconv.FormatInt(j, 10), t})
				}
			}
		}
	}
	if base[0] == 's' && r.Bool() && len(lines) > hdr+1 { // order of the entries is free
		body := lines[hdr:]
		for i := len(body) - 1; i > 0; i-- {
			j := r.Intn(i + 1)
			body[i], body[j] = body[j], body[i]
		}
	}
	mut := "valid"
	pickLine := func(from int) int {
		if len(lines) <= from {
			return -1
		}
		return from + r.Intn(len(lines)-from)
	}
	insert := func(at int, l []string) {
		lines = append(lines, nil)
		copy(lines[at+1:], lines[at:])
		lines[at] = l
	}
	ws := []string{" ", "\t", "  ", " \t ", "\r"}
	switch r.Intn(16) {
	case 0: // drop a token
		if i := pickLine(0); i >= 0 && len(lines[i]) > 0 {
			j := r.Intn(len(lines[i]))
			lines[i] = append(append([]string{}, lines[i][:j]...), lines[i][j+1:]...)
			if len(lines[i]) == 0 {
				lines[i] = []string{"\x00EMPTY"}
			}
			mut = "drop-token"
		}
	case 1: // an extra token
		if i := pickLine(0); i >= 0 {
			lines[i] = append(append([]string{}, lines[i]...), genValTok(r, et))
			mut = "extra-token"
		}
	case 2: // blank (empty) line anywhere
		insert(r.Intn(len(lines)+1), []string{"\x00EMPTY"})
		mut = "blank-line"
	case 3: // whitespace-only line anywhere
		insert(r.Intn(len(lines)+1), []string{"\x00WS" + ws[r.Intn(len(ws))]})
		mut = "ws-line"
	case 4: // whitespace-only line first / last
		if r.Bool() {
			insert(0, []string{"\x00WS" + ws[r.Intn(len(ws))]})
		} else {
			insert(len(lines), []string{"\x00WS" + ws[r.Intn(len(ws))]})
		}
		mut = "ws-line-edge"
	case 5: // drop a whole line (also the header)
		if i := pickLine(0); i >= 0 {
			lines = append(lines[:i], lines[i+1:]...)
			mut = "drop-line"
		}
	case 6: // sparse: header dimension changed
		if hdr == 1 {
			j := r.Intn(len(lines[0]))
			lines[0] = append([]string{}, lines[0]...)
			lines[0][j] = []string{"0", "1", "-1", "-3", "4294967296", "9223372036854775807", "3037000500", "99999999999999999999", "2.0", "x"}[r.Intn(10)]
			mut = "header-dim"
		}
	case 7: // sparse: an index changed
		if i := pickLine(hdr); hdr == 1 && i >= hdr && len(lines[i]) > 1 {
			lines[i] = append([]string{}, lines[i]...)
			lines[i][r.Intn(len(lines[i])-1)] = []string{"-1", "-2", strconv.FormatInt(n, 10), strconv.FormatInt(rows, 10), strconv.FormatInt(cols, 10), "7", "1.0", "9223372036854775807"}[r.Intn(8)]
			mut = "index"
		}
	case 8: // sparse: a repeated entry
		if i := pickLine(hdr); hdr == 1 && i >= hdr {
			l := append([]string{}, lines[i]...)
			if r.Bool() && len(l) > 0 {
				l[len(l)-1] = genValTok(r, et)
			}
			insert(hdr+r.Intn(len(lines)-hdr+1), l)
			mut = "dup-entry"
		}
	case 9: // a non-numeric / odd token
		if i := pickLine(hdr); i >= 0 && len(lines[i]) > 0 {
			lines[i] = append([]string{}, lines[i]...)
			lines[i][len(lines[i])-1] = oddTokens[r.Intn(len(oddTokens))]
			mut = "odd-token"
		}
	case 10: // dense matrix: ragged
		if base == "dm" && len(lines) > 1 {
			i := 1 + r.Intn(len(lines)-1)
			lines[i] = append(append([]string{}, lines[i]...), genValTok(r, et))
			mut = "ragged"
		}
	}
	sep := []string{" ", " ", " ", "\t", "  "}[r.Intn(5)]
	eol := "\n"
	if r.Intn(12) == 0 {
		eol, mut = "\r\n", mut+"+crlf"
	}
	var sb strings.Builder
	for _, l := range lines {
		switch {
		case len(l) == 1 && l[0] == "\x00EMPTY":
		case len(l) == 1 && strings.HasPrefix(l[0], "\x00WS"):
			sb.WriteString(l[0][3:])
		default:
			if r.Intn(10) == 0 {
				sb.WriteString(" ")
			}
			sb.WriteString(strings.Join(l, sep))
			if r.Intn(10) == 0 {
				sb.WriteString(" ")
			}
		}
		sb.WriteString(eol)
	}
	data := []byte(sb.String())
	if (base == "dv" || base == "dm") && r.Intn(3) > 0 { // the writers end with an extra "\n"
		data = append(data, '\n')
	}
	switch r.Intn(14) {
	case 0:
		if len(data) > 0 && data[len(data)-1] == '\n' {
			data, mut = data[:len(data)-1], mut+"+no-final-newline"
		}
	case 1:
		data, mut = data[:len(data)*r.Intn(4)/4], mut+"+truncated"
	case 2:
		data, mut = gzipBytes(data), mut+"+gzip"
	case 3:
		g := gzipBytes(data)
		data, mut = g[:len(g)-1-r.Intn(12)], mut+"+gzip-truncated"
	case 4:
		g := gzipBytes(data)
		g[len(g)-6] ^= 0x40
		data, mut = g, mut+"+gzip-badcrc"
	case 5:
		data, mut = append([]byte{31, 139}, data...), mut+"+gzip-magic-prefix"
	case 6:
		data, mut = []byte{[]byte("\n 1\x1f")[r.Intn(4)]}, "one-byte"
	case 7:
		data, mut = []byte{}, "empty-file"
	case 8:
		data, mut = []byte{31, 139}, "gzip-magic-only"
	case 9:
		data, mut = gzipBytes(nil), mut+"+gzip-of-nothing"
	}
	return Recipe{Kind: "tmal-" + base, Type: et.Name, File: hex.EncodeToString(data), Mut: mut}
}

func genTableRecipe(r *Rng) Recipe {
	switch r.Pick([]int{10, 9, 1}) {
	case 0:
		return genTableRT(r)
	case 1:
		return genTableMal(r)
	}
	return genLit(r)
}

// ---------------------------------------------------------------- shrinking table files

func shrinkTableFile(rc Recipe, still func(Recipe) bool) Recipe {
	data := fileBytes(rc)
	if isGzMagic(data) {
		if out, failed, ok := gunzip(data); ok && !failed {
			c := rc
			c.File = hex.EncodeToString(out)
			if still(c) {
				rc, data = c, out
			}
		}
	}
	if isGzMagic(data) {
		return rc
	}
	for round := 0; round < 200; round++ {
		lines := strings.Split(string(data), "\n")
		var cands []string
		for i := range lines {
			cands = append(cands, strings.Join(append(append([]string{}, lines[:i]...), lines[i+1:]...), "\n"))
		}
		for i, l := range lines {
			fs := strings.Fields(l)
			for j, f := range fs {
				for _, s := range []string{"0", "1", "2"} {
					if len(s) < len(f) || (len(s) == len(f) && s < f) {
						g := append([]string{}, fs...)
						g[j] = s
						m := append([]string{}, lines...)
						m[i] = strings.Join(g, " ")
						cands = append(cands, strings.Join(m, "\n"))
					}
				}
			}
			if j := strings.Join(fs, " "); j != l && len(fs) > 0 {
				m := append([]string{}, lines...)
				m[i] = j
				cands = append(cands, strings.Join(m, "\n"))
			}
		}
		progressed := false
		for _, cand := range cands {
			c := rc
			c.File = hex.EncodeToString([]byte(cand))
			if still(c) {
				rc, data, progressed = c, []byte(cand), true
				break
			}
		}
		if !progressed {
			break
		}
	}
	return rc
}
