// C18 harness — distribution configurations: every registered scalar family (plus mixtures,
// transforms and "vector:scalar iid") through ExportConfig -> JSON -> ImportConfig on the implementation,
// malformed configurations, Coq cases for coq/C18/ConfigCorr.v, and the property-level oracle.
package main

import (
	"bytes"
	"encoding/json"
	"fmt"
	"math"
	"reflect"
	"sort"
	"strings"

	. "adharness/common"

	ad "github.com/pbenner/autodiff"
	st "github.com/pbenner/autodiff/statistics"
	sd "github.com/pbenner/autodiff/statistics/scalarDistribution"
	vd "github.com/pbenner/autodiff/statistics/vectorDistribution"
)

const cheader = "From Coq Require Import ZArith List Bool Floats.\nFrom ADV Require Import C18.Model C18.Corr C18.ConfigModel C18.ConfigCorr.\nImport ListNotations.\nOpen Scope Z_scope.\n"

// CfgRecipe: a distribution by its constructor arguments (natural scale), or a malformed document.
type CfgRecipe struct {
	Fam  string      `json:",omitempty"` // Coq constructor name of the family, e.g. FNormal
	Ps   []float64   `json:",omitempty"`
	Kids []CfgRecipe `json:",omitempty"`
	Doc  string      `json:",omitempty"` // cfg-mal: the JSON text
	Lvl  string      `json:",omitempty"` // vcfg-mal: "vec" (ImportVectorPdfConfig) or "mat" (ImportMatrixPdfConfig)
}

type famInfo struct {
	Coq, Name, GoType string
	Arity             int
}

var fams = []famInfo{
	{"FBeta", "scalar:beta distribution", "BetaDistribution", 3},
	{"FBinomial", "scalar:binomial distribution", "BinomialDistribution", 2},
	{"FCategorical", "scalar:categorical distribution", "CategoricalDistribution", -1},
	{"FCauchy", "scalar:cauchy distribution", "CauchyDistribution", 2},
	{"FDelta", "scalar:delta distribution", "DeltaDistribution", 1},
	{"FExponential", "scalar:exponential distribution", "ExponentialDistribution", 1},
	{"FGamma", "scalar:gamma distribution", "GammaDistribution", 2},
	{"FGenGamma", "scalar:generalized gamma distribution", "GeneralizedGammaDistribution", 3},
	{"FGeometric", "scalar:geometric distribution", "GeometricDistribution", 1},
	{"FGev", "scalar:gev distribution", "GevDistribution", 3},
	{"FLaplace", "scalar:laplace distribution", "LaplaceDistribution", 2},
	{"FNegBinomial", "scalar:negative binomial distribution", "NegativeBinomialDistribution", 2},
	{"FNormal", "scalar:normal distribution", "NormalDistribution", 2},
	{"FPareto", "scalar:pareto distribution", "ParetoDistribution", 2},
	{"FGPareto", "scalar:generalized pareto distribution", "GParetoDistribution", 3},
	{"FPoisson", "scalar:poisson distribution", "PoissonDistribution", 1},
	{"FPowerLaw", "scalar:power law distribution", "PowerLawDistribution", 2},
	{"FMixture", "scalar:mixture distribution", "Mixture", -1},
	{"FLogT", "scalar:pdf log transform", "PdfLogTransform", 1},
	{"FTrans", "scalar:pdf translation", "PdfTranslation", 1},
	{"FIid", "vector:scalar iid", "ScalarIid", 1},
}

func famByCoq(c string) famInfo {
	for _, f := range fams {
		if f.Coq == c {
			return f
		}
	}
	Die("unknown family %q", c)
	return famInfo{}
}
func famOfName(n string) string {
	for _, f := range fams {
		if f.Name == n {
			return f.Coq
		}
	}
	return "FUnknown"
}
func famOfType(t string) string {
	for _, f := range fams {
		if f.GoType == t {
			return f.Coq
		}
	}
	return "FUnknown"
}

// ---------------------------------------------------------------- trees as observed

type DistT struct {
	Fam  string
	Ps   []float64
	Kids []DistT
}

func (d DistT) Coq() string {
	ks := make([]string, len(d.Kids))
	for i, k := range d.Kids {
		ks[i] = k.Coq()
	}
	return "(Dist " + d.Fam + " " + FList(d.Ps) + " " + List(ks) + ")"
}
func vecFloats(v ad.Vector) []float64 {
	out := make([]float64, v.Dim())
	for i := range out {
		out[i] = v.ConstAt(i).GetFloat64()
	}
	return out
}

// read-only observation of a distribution object
func obsDist(x interface{}) DistT {
	switch d := x.(type) {
	case *sd.Mixture:
		t := DistT{Fam: "FMixture", Ps: vecFloats(d.Mixture.LogWeights)}
		for _, e := range d.Edist {
			t.Kids = append(t.Kids, obsDist(e))
		}
		return t
	case *sd.PdfLogTransform:
		return DistT{Fam: "FLogT", Ps: []float64{reflect.ValueOf(d).Elem().FieldByName("c").Float()}, Kids: []DistT{obsDist(d.ScalarPdf)}}
	case *sd.PdfTranslation:
		return DistT{Fam: "FTrans", Ps: []float64{reflect.ValueOf(d).Elem().FieldByName("c").Float()}, Kids: []DistT{obsDist(d.ScalarPdf)}}
	case *vd.ScalarIid:
		return DistT{Fam: "FIid", Ps: []float64{float64(reflect.ValueOf(d).Elem().FieldByName("n").Int())}, Kids: []DistT{obsDist(d.Distribution)}}
	}
	b := x.(st.BasicDistribution)
	return DistT{Fam: famOfType(reflect.TypeOf(x).Elem().Name()), Ps: vecFloats(b.GetParameters())}
}

func jvCoq(p interface{}) string {
	switch v := p.(type) {
	case nil:
		return "JNull"
	case float64:
		return "(JNum " + F(v) + ")"
	case []interface{}:
		xs := make([]string, len(v))
		for i, e := range v {
			xs[i] = jvCoq(e)
		}
		return "(JArr " + List(xs) + ")"
	}
	return "JOther"
}
func cfgCoq(c st.ConfigDistribution) string {
	ks := make([]string, len(c.Distributions))
	for i, k := range c.Distributions {
		ks[i] = cfgCoq(k)
	}
	return "(Cfg " + famOfName(c.Name) + " " + jvCoq(c.Parameters) + " " + List(ks) + ")"
}

// ---------------------------------------------------------------- building distributions

func sc(x float64) ad.Scalar { return ad.NewScalar(ad.Float64Type, x) }

func buildDist(r CfgRecipe) (interface{}, error) {
	p := func(i int) float64 {
		if i < len(r.Ps) {
			return r.Ps[i]
		}
		return 0
	}
	kid := func(i int) (st.ScalarPdf, error) {
		k, err := buildDist(r.Kids[i])
		if err != nil {
			return nil, err
		}
		return k.(st.ScalarPdf), nil
	}
	switch r.Fam {
	case "FBeta":
		return sd.NewBetaDistribution(sc(p(0)), sc(p(1)), p(2) == 1)
	case "FBinomial":
		return sd.NewBinomialDistribution(sc(p(0)), int(p(1)))
	case "FCategorical":
		return sd.NewCategoricalDistribution(ad.NewDenseFloat64Vector(append([]float64{}, r.Ps...)))
	case "FCauchy":
		return sd.NewCauchyDistribution(sc(p(0)), sc(p(1)))
	case "FDelta":
		return sd.NewDeltaDistribution(sc(p(0)))
	case "FExponential":
		return sd.NewExponentialDistribution(sc(p(0)))
	case "FGamma":
		return sd.NewGammaDistribution(sc(p(0)), sc(p(1)))
	case "FGenGamma":
		return sd.NewGeneralizedGammaDistribution(sc(p(0)), sc(p(1)), sc(p(2)))
	case "FGeometric":
		return sd.NewGeometricDistribution(sc(p(0)))
	case "FGev":
		return sd.NewGevDistribution(sc(p(0)), sc(p(1)), sc(p(2)))
	case "FLaplace":
		return sd.NewLaplaceDistribution(sc(p(0)), sc(p(1)))
	case "FNegBinomial":
		return sd.NewNegativeBinomialDistribution(sc(p(0)), sc(p(1)))
	case "FNormal":
		return sd.NewNormalDistribution(sc(p(0)), sc(p(1)))
	case "FPareto":
		return sd.NewParetoDistribution(sc(p(0)), sc(p(1)))
	case "FGPareto":
		return sd.NewGParetoDistribution(sc(p(0)), sc(p(1)), sc(p(2)))
	case "FPoisson":
		return sd.NewPoissonDistribution(sc(p(0)))
	case "FPowerLaw":
		return sd.NewPowerLawDistribution(sc(p(0)), sc(p(1)))
	case "FMixture":
		kids := make([]st.ScalarPdf, len(r.Kids))
		for i := range kids {
			k, err := kid(i)
			if err != nil {
				return nil, err
			}
			kids[i] = k
		}
		return sd.NewMixture(ad.NewDenseFloat64Vector(append([]float64{}, r.Ps...)), kids)
	case "FLogT":
		k, err := kid(0)
		if err != nil {
			return nil, err
		}
		return sd.NewPdfLogTransform(k, p(0))
	case "FTrans":
		k, err := kid(0)
		if err != nil {
			return nil, err
		}
		return sd.NewPdfTranslation(k, p(0))
	case "FIid":
		k, err := kid(0)
		if err != nil {
			return nil, err
		}
		return vd.NewScalarIid(k, int(p(0)))
	}
	return nil, fmt.Errorf("unknown family %s", r.Fam)
}

func importDoc(c st.ConfigDistribution) (interface{}, error) {
	if c.Name == "vector:scalar iid" {
		return st.ImportVectorPdfConfig(c, ad.Float64Type)
	}
	return st.ImportScalarPdfConfig(c, ad.Float64Type)
}

func guardImport(c st.ConfigDistribution) (Outcome, *DistT) {
	var back interface{}
	k, msg := guard(func() error {
		var err error
		back, err = importDoc(c)
		return err
	})
	o := Outcome{Kind: k, Msg: msg}
	if k != "ok" {
		return o, nil
	}
	var t DistT
	if k2, m2 := guard(func() error { t = obsDist(back); return nil }); k2 != "ok" {
		return Outcome{Kind: "crash", Msg: "imported object cannot be observed: " + m2}, nil
	}
	o.Term = t.Coq()
	return o, &t
}

// ---------------------------------------------------------------- running a configuration recipe

func hasFam(r CfgRecipe, f string) bool {
	if r.Fam == f {
		return true
	}
	for _, k := range r.Kids {
		if hasFam(k, f) {
			return true
		}
	}
	return false
}
func famPath(r CfgRecipe) string {
	s := r.Fam
	if len(r.Kids) > 0 {
		ks := make([]string, len(r.Kids))
		for i, k := range r.Kids {
			ks[i] = famPath(k)
		}
		s += "(" + strings.Join(ks, ",") + ")"
	}
	return s
}

func approx(a, b float64) bool {
	if a == b || (math.IsNaN(a) && math.IsNaN(b)) {
		return true
	}
	return math.Abs(a-b) <= 1e-9*(math.Abs(a)+math.Abs(b))+1e-12 // log-scale parameters: absolute tolerance
}
func distDiff(a, b DistT, path string) string {
	if a.Fam != b.Fam {
		return fmt.Sprintf("%s: family %s vs %s", path, a.Fam, b.Fam)
	}
	if len(a.Ps) != len(b.Ps) {
		return fmt.Sprintf("%s: %d vs %d parameters", path, len(a.Ps), len(b.Ps))
	}
	exact := a.Fam != "FCategorical" && a.Fam != "FMixture" && a.Fam != "FBinomial"
	for i := range a.Ps {
		if exact && !(El{F: a.Ps[i]}).Same(El{F: b.Ps[i]}) || !exact && !approx(a.Ps[i], b.Ps[i]) {
			return fmt.Sprintf("%s: parameter %d: %v vs %v", path, i, a.Ps[i], b.Ps[i])
		}
	}
	if len(a.Kids) != len(b.Kids) {
		return fmt.Sprintf("%s: %d vs %d components", path, len(a.Kids), len(b.Kids))
	}
	for i := range a.Kids {
		if d := distDiff(a.Kids[i], b.Kids[i], fmt.Sprintf("%s/%d", path, i)); d != "" {
			return d
		}
	}
	return ""
}

func runConfig(rc Recipe) (res Result) {
	r := *rc.Cfg
	if rc.Kind == "cfg-mal" {
		return runConfigMal(rc)
	}
	obj, err := buildDist(r)
	if err != nil {
		Die("cfg recipe does not build: %v (%s)", err, famPath(r))
	}
	d := obsDist(obj)
	cause := ""
	if hasFam(r, "FBinomial") {
		cause = "binomial"
	}
	fail := func(kind, detail string) {
		res.Failures = append(res.Failures, Failure{Site: "cfg.ImportConfig", Kind: kind, Cause: cause, Detail: detail, Type: famPath(r)})
	}
	var doc st.ConfigDistribution
	wk, wmsg := guard(func() error {
		var buf bytes.Buffer
		if err := obj.(st.ConfigurableDistribution).ExportConfig().WriteJson(&buf); err != nil {
			return err
		}
		return json.Unmarshal(buf.Bytes(), &doc)
	})
	res.Key = "cfg/" + famPath(r)
	res.Hist = []string{"cfg/" + r.Fam, "cfg-export:" + wk}
	if wk != "ok" {
		// outside the model (generator produces finite parameters only): report, no Coq case
		res.Failures = append(res.Failures, Failure{Site: "cfg.ExportConfig", Kind: "write-" + wk, Cause: cause, Detail: wmsg, Type: famPath(r)})
		res.Coq = "CMal Err Err"
		return res
	}
	gr, back := guardImport(doc)
	res.Coq = fmt.Sprintf("CRt %s %s %s", d.Coq(), cfgCoq(doc), gr.Coq())
	res.Hist = append(res.Hist, "cfg-import:"+gr.Kind)
	res.Key += "/" + gr.Kind
	res.Nontriv = gr.Kind == "ok" && (len(d.Ps) > 1 || len(d.Kids) > 0)
	switch {
	case gr.Kind != "ok":
		fail("roundtrip-"+gr.Kind, gr.Msg)
	default:
		if diff := distDiff(d, *back, ""); diff != "" {
			fail("roundtrip-mismatch", diff)
		}
	}
	return res
}

// why a configuration document is malformed, from the document alone
func cfgDocCause(c st.ConfigDistribution, set map[string]bool) {
	if arr, ok := c.Parameters.([]interface{}); ok {
		n := 0
		for _, e := range arr {
			if e == nil {
				set["null-param"] = true
				break
			}
			if _, isf := e.(float64); !isf {
				break
			}
			n++
		}
		if f := famOfName(c.Name); f != "FUnknown" {
			if a := famByCoq(f).Arity; a > 0 && n == len(arr) && n < a && f != "FLogT" && f != "FTrans" && f != "FIid" {
				set["too-few-params"] = true
			}
		}
	} else if c.Parameters == nil {
		if f := famOfName(c.Name); f != "FUnknown" && f != "FMixture" && f != "FCategorical" && f != "FLogT" && f != "FTrans" && f != "FIid" {
			set["too-few-params"] = true
		}
	}
	for _, k := range c.Distributions {
		cfgDocCause(k, set)
	}
}

// NewMixture insists on one component per weight; the importer is expected to hand back nothing less
func scalarMixturesConsistent(d DistT) bool {
	if d.Fam == "FMixture" && len(d.Ps) != len(d.Kids) {
		return false
	}
	for _, k := range d.Kids {
		if !scalarMixturesConsistent(k) {
			return false
		}
	}
	return true
}

func runConfigMal(rc Recipe) (res Result) {
	var doc st.ConfigDistribution
	err := json.Unmarshal([]byte(rc.Cfg.Doc), &doc)
	docTerm := "Err"
	res.Key = "cfg-mal/" + rc.Mut
	res.Hist = []string{"cfg-mal", "cmut:" + rc.Mut}
	if err != nil {
		res.Coq = "CMal Err Err"
		res.Hist = append(res.Hist, "cfg-mal-import:undecodable")
		return res
	}
	docTerm = "(Ok " + cfgCoq(doc) + ")"
	gr, back := guardImport(doc)
	res.Coq = fmt.Sprintf("CMal %s %s", docTerm, gr.Coq())
	res.Key += "/" + famOfName(doc.Name) + "/" + gr.Kind
	res.Nontriv = true
	res.Hist = append(res.Hist, "cfg-mal-import:"+gr.Kind)
	if gr.Kind == "ok" && back != nil && !scalarMixturesConsistent(*back) {
		res.Failures = []Failure{{Site: "cfg.ImportConfig", Kind: "reader-accepts-malformed", Cause: "mixture-arity",
			Detail: "a mixture was imported whose number of weights differs from its number of components (NewMixture rejects that)", Type: famOfName(doc.Name)}}
	}
	if gr.Kind == "panic" || gr.Kind == "crash" {
		set := map[string]bool{}
		cfgDocCause(doc, set)
		var c []string
		for k := range set {
			c = append(c, k)
		}
		sort.Strings(c)
		res.Failures = []Failure{{Site: "cfg.ImportConfig", Kind: "reader-panic", Cause: strings.Join(c, "+"), Detail: gr.Msg, Type: famOfName(doc.Name)}}
	}
	return res
}

// ---------------------------------------------------------------- generators

func genPos(r *Rng) float64 {
	return []float64{0.5, 1, 2, 3.25, 1e-3, 1e3, 0.1, 7, 5e-324, 1e300, 0.9999999999999999}[r.Intn(11)]
}
func genAny(r *Rng) float64 {
	x := genPos(r)
	switch r.Intn(4) {
	case 0:
		return -x
	case 1:
		return 0
	}
	return x
}
func genProb(r *Rng) float64 { return []float64{0.5, 0.25, 1, 0.1, 1e-10, 0.9999999999999999, 0.75}[r.Intn(7)] }

func genSimple(r *Rng) CfgRecipe {
	f := fams[r.Intn(17)]
	c := CfgRecipe{Fam: f.Coq}
	switch f.Coq {
	case "FBeta":
		c.Ps = []float64{genPos(r), genPos(r), float64(r.Intn(2))}
	case "FBinomial":
		c.Ps = []float64{append([]float64{0}, genProb(r))[r.Intn(2)], float64(r.Intn(20))}
		if c.Ps[0] == 0 {
			c.Ps[0] = genProb(r)
		}
	case "FCategorical":
		n := r.Range(1, 4)
		for i := 0; i < n; i++ {
			c.Ps = append(c.Ps, genProb(r))
		}
		if r.Intn(4) == 0 {
			c.Ps[r.Intn(n)] = 0
		}
	case "FCauchy", "FNormal":
		c.Ps = []float64{genAny(r), genPos(r)}
	case "FDelta":
		c.Ps = []float64{genAny(r)}
	case "FExponential", "FPoisson":
		c.Ps = []float64{genPos(r)}
	case "FGamma", "FPareto":
		c.Ps = []float64{genPos(r), genPos(r)}
	case "FGenGamma":
		c.Ps = []float64{genPos(r), genPos(r), genPos(r)}
	case "FGeometric":
		c.Ps = []float64{genProb(r)}
	case "FGev", "FGPareto":
		c.Ps = []float64{genAny(r), genPos(r), genAny(r)}
	case "FLaplace":
		c.Ps = []float64{genAny(r), genPos(r)}
	case "FNegBinomial":
		// p = 1 is rejected by the constructor (guard `p >= 1.0`); the rejected document is a corpus case
		c.Ps = []float64{genPos(r), genProb(r)}
		if c.Ps[1] == 1 {
			c.Ps[1] = 0.9999999999999999
		}
	case "FPowerLaw":
		c.Ps = []float64{[]float64{1.5, 2, 3.25, 1.0000000000000002, 1e3}[r.Intn(5)], genPos(r)}
	}
	return c
}

func genScalarDist(r *Rng, depth int) CfgRecipe {
	if depth <= 0 || r.Intn(3) > 0 {
		return genSimple(r)
	}
	switch r.Intn(3) {
	case 0:
		n := r.Range(0, 3)
		c := CfgRecipe{Fam: "FMixture"}
		for i := 0; i < n; i++ {
			c.Ps = append(c.Ps, genProb(r))
			c.Kids = append(c.Kids, genScalarDist(r, depth-1))
		}
		return c
	case 1:
		return CfgRecipe{Fam: "FLogT", Ps: []float64{genAny(r)}, Kids: []CfgRecipe{genScalarDist(r, depth-1)}}
	}
	return CfgRecipe{Fam: "FTrans", Ps: []float64{genAny(r)}, Kids: []CfgRecipe{genScalarDist(r, depth-1)}}
}

func docText(c CfgRecipe, r *Rng) string {
	f := famByCoq(c.Fam)
	ps := make([]string, len(c.Ps))
	for i, p := range c.Ps {
		ps[i] = numText(EType{Kind: "f64"}, El{F: p})
	}
	ks := make([]string, len(c.Kids))
	for i, k := range c.Kids {
		ks[i] = docText(k, r)
	}
	d := "null"
	if len(ks) > 0 {
		d = "[" + strings.Join(ks, ",") + "]"
	}
	return fmt.Sprintf(`{"Name":%q,"Parameters":[%s],"Distributions":%s}`, f.Name, strings.Join(ps, ","), d)
}

func genCfgMal(r *Rng) Recipe {
	c := genScalarDist(r, 2)
	if r.Intn(6) == 0 {
		c = CfgRecipe{Fam: "FIid", Ps: []float64{[]float64{3, 2.7, 0, -1}[r.Intn(4)]}, Kids: []CfgRecipe{c}}
	}
	// mutate one node of the tree (or the text)
	mut := "valid"
	var walk func(n *CfgRecipe) []*CfgRecipe
	walk = func(n *CfgRecipe) []*CfgRecipe {
		out := []*CfgRecipe{n}
		for i := range n.Kids {
			out = append(out, walk(&n.Kids[i])...)
		}
		return out
	}
	nodes := walk(&c)
	n := nodes[r.Intn(len(nodes))]
	textMut := ""
	switch r.Intn(14) {
	case 0:
		if len(n.Ps) > 0 {
			n.Ps, mut = n.Ps[:len(n.Ps)-1], "drop-param"
		}
	case 1:
		n.Ps, mut = append(n.Ps, genAny(r)), "extra-param"
	case 2:
		if len(n.Ps) > 0 {
			n.Ps[r.Intn(len(n.Ps))], mut = -genPos(r), "negative-param"
		}
	case 3:
		if len(n.Ps) > 0 {
			n.Ps[r.Intn(len(n.Ps))], mut = 0, "zero-param"
		}
	case 4:
		if len(n.Kids) > 0 {
			n.Kids, mut = n.Kids[:len(n.Kids)-1], "drop-child"
		}
	case 5:
		n.Kids, mut = append(n.Kids, genSimple(r)), "extra-child"
	case 6:
		n.Ps, mut = nil, "no-params"
	case 7:
		textMut, mut = "null-elem", "null-elem"
	case 8:
		textMut, mut = "string-elem", "string-elem"
	case 9:
		textMut, mut = "params-not-array", "params-not-array"
	case 10:
		textMut, mut = "unknown-name", "unknown-name"
	case 11:
		textMut, mut = "params-null", "params-null"
	case 12:
		if len(n.Ps) > 1 {
			n.Ps[0], n.Ps[1] = n.Ps[1], n.Ps[0]
			mut = "swap-params"
		}
	}
	s := docText(c, r)
	switch textMut {
	case "null-elem":
		if i := strings.Index(s, `"Parameters":[`); i >= 0 && r.Bool() {
			s = s[:i] + `"Parameters":[null,` + s[i+len(`"Parameters":[`):]
		} else {
			s = strings.Replace(s, `]`, `,null]`, 1)
		}
		s = strings.Replace(s, `[,null]`, `[null]`, 1)
		s = strings.Replace(s, `[null,]`, `[null]`, 1)
	case "string-elem":
		s = strings.Replace(s, `"Parameters":[`, `"Parameters":["1.5",`, 1)
		s = strings.Replace(s, `["1.5",]`, `["1.5"]`, 1)
	case "params-not-array":
		s = strings.Replace(s, `"Parameters":[`, `"Parameters":`+[]string{`1.5,"x":[`, `"abc","x":[`, `{"a":1},"x":[`, `true,"x":[`}[r.Intn(4)], 1)
	case "unknown-name":
		s = strings.Replace(s, `"Name":"scalar:`, `"Name":"scalar :`, 1)
	case "params-null":
		s = strings.Replace(s, `"Parameters":[`, `"Parameters":null,"x":[`, 1)
	}
	if r.Intn(25) == 0 {
		s, mut = s[:len(s)*2/3], mut+"+truncated"
	}
	return Recipe{Kind: "cfg-mal", Type: "cfg", Cfg: &CfgRecipe{Doc: s}, Mut: mut}
}

func genCfgRecipe(r *Rng) Recipe {
	if r.Intn(5) < 2 {
		return genCfgMal(r)
	}
	c := genScalarDist(r, 3)
	if r.Intn(8) == 0 {
		c = CfgRecipe{Fam: "FIid", Ps: []float64{float64(r.Intn(50))}, Kids: []CfgRecipe{c}}
	}
	return Recipe{Kind: "cfg", Type: "cfg", Cfg: &c}
}

// every registered family once, plain and nested (runs with the corpus)
func cfgRegistrySweep() []Recipe {
	r := NewRng(20260929)
	var out []Recipe
	seen := map[string]bool{}
	for len(seen) < 17 {
		c := genSimple(r)
		if seen[c.Fam] {
			continue
		}
		seen[c.Fam] = true
		out = append(out, Recipe{Kind: "cfg", Type: "cfg", Cfg: &CfgRecipe{Fam: c.Fam, Ps: c.Ps}})
		k := c
		out = append(out, Recipe{Kind: "cfg", Type: "cfg", Cfg: &CfgRecipe{Fam: "FMixture", Ps: []float64{0.25, 0.75}, Kids: []CfgRecipe{k, {Fam: "FLogT", Ps: []float64{1}, Kids: []CfgRecipe{k}}}}})
	}
	n := CfgRecipe{Fam: "FNormal", Ps: []float64{1, 2}}
	out = append(out, Recipe{Kind: "cfg", Type: "cfg", Cfg: &CfgRecipe{Fam: "FIid", Ps: []float64{5}, Kids: []CfgRecipe{{Fam: "FTrans", Ps: []float64{-0.5}, Kids: []CfgRecipe{n}}}}})
	out = append(out, Recipe{Kind: "cfg", Type: "cfg", Cfg: &CfgRecipe{Fam: "FMixture"}})
	return out
}

// ---------------------------------------------------------------- shrinking

func shrinkCfg(rc Recipe, still func(Recipe) bool) Recipe {
	if rc.Cfg.Doc != "" {
		c := rc
		c.Bytes = rc.Cfg.Doc // reuse the JSON-tree shrinker through a temporary view
		return rc
	}
	for round := 0; round < 50; round++ {
		progressed := false
		for i := range rc.Cfg.Kids { // replace the tree by one of its children
			k := rc.Cfg.Kids[i]
			c := rc
			c.Cfg = &k
			if k.Fam != "" && still(c) {
				rc, progressed = c, true
				break
			}
		}
		if !progressed {
			break
		}
	}
	return rc
}
