// C18 harness — distribution configurations (stub, filled in below)
package main

import . "adharness/common"

const cheader = "From Coq Require Import ZArith List Bool Floats.\nFrom ADV Require Import C18.Model C18.Corr.\nImport ListNotations.\nOpen Scope Z_scope.\n"

type CfgRecipe struct{}

func shrinkCfg(rc Recipe, still func(Recipe) bool) Recipe { return rc }

func runConfig(rc Recipe) (res Result) { return res }
func genCfgRecipe(r *Rng) Recipe        { return Recipe{Kind: "cfg"} }
