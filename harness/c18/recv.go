// C18 harness, round 5 — decoding into RECYCLED receivers.
//
// UnmarshalJSON / Import are methods of an existing object.  Every case here builds a receiver that already
// has state (a dense matrix returned by T() or Slice(), a matrix of other dimensions, a sparse container with
// entries, a Real with derivative storage, a zero-value struct, ...), observes it, decodes a document / table
// file into it and observes the result; then writes the result a second time and decodes that into a second
// recycled receiver.  The Coq cases (coq/C18/RecvCorr.v) compare every step with the model
// (old state, document) -> new state.  The oracle (independent of the model) decodes the same bytes into a
// fresh receiver and demands the same object — every field of the struct, generically by reflection, and the
// public API — and a stable second generation.
package main

import (
	"encoding/hex"
	"encoding/json"
	"fmt"
	"go/ast"
	"go/parser"
	"go/token"
	"os"
	"path/filepath"
	"reflect"
	"sort"
	"strings"

	. "adharness/common"

	ad "github.com/pbenner/autodiff"
)

const rheader = "From Coq Require Import ZArith List Bool Floats String.\nFrom ADV Require Import C18.Model C18.Corr C18.TableModel C18.TableCorr C18.RecvModel C18.RecvCorr.\nImport ListNotations.\nOpen Scope Z_scope.\n"

// recvKind: "rv-dm" -> ("dm", false, true); "rvt-sv" -> ("sv", true, true)
func recvKind(kind string) (base string, table bool, ok bool) {
	switch {
	case strings.HasPrefix(kind, "rvt-"):
		return kind[4:], true, true
	case strings.HasPrefix(kind, "rv-"):
		return kind[3:], false, true
	}
	return "", false, false
}

// ---------------------------------------------------------------- building receivers

func zeroStruct(base string, et EType) (interface{}, func() interface{}) {
	var proto interface{}
	switch base {
	case "real":
		proto = newScalar(et)
	case "dv":
		return freshTarget(base, et) // a nil slice
	case "sv":
		proto = ad.NullSparseVector(et.T, 0)
	case "dm":
		proto = ad.NullDenseMatrix(et.T, 0, 0)
	case "sm":
		proto = ad.NullSparseMatrix(et.T, 0, 0)
	}
	p := reflect.New(reflect.TypeOf(proto).Elem()).Interface()
	return p, func() interface{} { return p }
}

// round 7: the object a view receiver was cut from (nil: the receiver is no view); set by buildRecv
var recvParent, buildParent interface{}

// the receiver described by spec (nil: a fresh object as the constructors return it)
func buildRecv(spec *Recipe, base string, et EType) (interface{}, func() interface{}) {
	if spec == nil {
		return freshTarget(base, et)
	}
	if spec.Kind == "zero" {
		return zeroStruct(base, et)
	}
	s := *spec
	s.Kind = base
	obj := build(s, et)
	if len(s.Ops) > 0 {
		if buildParent != obj {
			recvParent = buildParent
		}
		if base == "dv" || base == "sv" {
			recvParent = obj
		}
	}
	switch base {
	case "dv":
		v := obj.(ad.Vector)
		if len(s.Ops) > 0 { // a slice header into a longer vector
			v = v.Slice(s.Ops[0].Rf, s.Ops[0].Rt)
		}
		p := reflect.New(reflect.TypeOf(v))
		p.Elem().Set(reflect.ValueOf(v))
		return p.Interface(), func() interface{} { return p.Elem().Interface() }
	case "sv":
		v := obj.(ad.Vector)
		if len(s.Ops) > 0 {
			v = v.Slice(s.Ops[0].Rf, s.Ops[0].Rt)
		}
		return v, func() interface{} { return v }
	}
	return obj, func() interface{} { return obj }
}

// ---------------------------------------------------------------- observing receivers

func svStateSafe(rv reflect.Value) SvState {
	if rv.Kind() == reflect.Ptr && rv.IsNil() {
		return SvState{}
	}
	return obsSvRV(rv)
}
func obsSmSafe(m interface{}) SmState {
	rv := reflect.ValueOf(m).Elem()
	g := func(n string) int64 { return rv.FieldByName(n).Int() }
	return SmState{St: svStateSafe(rv.FieldByName("values")), Rows: g("rows"), Cols: g("cols"), Roff: g("rowOffset"), Rmax: g("rowMax"),
		Coff: g("colOffset"), Cmax: g("colMax")}
}

// state as a Coq term; vals: only the values of Real elements (table model)
func recvStateCoq(base string, et EType, obj interface{}, vals bool) string {
	switch base {
	case "real":
		return obsRV(reflect.ValueOf(obj)).Coq()
	case "dv":
		if vals {
			return valsCoq(obsDv(obj))
		}
		return elemsCoq(obsDv(obj))
	case "sv":
		return svStateSafe(reflect.ValueOf(obj)).Coq(false)
	case "dm":
		m := obsDm(obj)
		if vals {
			return fmt.Sprintf("(mkDm %s %s %s %s %s %s %s %s)", valsCoq(m.Vals), Z(m.Rows), Z(m.Cols), Z(m.Roff), Z(m.Rmax), Z(m.Coff), Z(m.Cmax), B(m.Tr))
		}
		return m.Coq()
	case "sm":
		return obsSmSafe(obj).Coq(false)
	}
	panic("recvStateCoq: " + base)
}

// lengths of the scratch vectors tmp1 / tmp2 (None: nil pointer / no such field)
func tmpsCoq(obj interface{}) string {
	rv := reflect.ValueOf(obj)
	for rv.Kind() == reflect.Ptr || rv.Kind() == reflect.Interface {
		rv = rv.Elem()
	}
	one := func(name string) string {
		if rv.Kind() != reflect.Struct {
			return "None"
		}
		f := rv.FieldByName(name)
		if !f.IsValid() {
			return "None"
		}
		switch f.Kind() {
		case reflect.Slice:
			return "(Some " + ZI(f.Len()) + ")"
		case reflect.Ptr:
			if f.IsNil() {
				return "None"
			}
			return "(Some " + Z(f.Elem().FieldByName("n").Int()) + ")"
		}
		return "None"
	}
	return "(" + one("tmp1") + ", " + one("tmp2") + ")"
}

// the iterator's index sequence (public API); sparse matrices: i*cols + j
func iterKeys(base string, obj interface{}) (keys []int64, kind string) {
	kind, _ = guard(func() error {
		switch base {
		case "sv":
			for it := obj.(ad.Vector).ConstIterator(); it.Ok(); it.Next() {
				keys = append(keys, int64(it.Index()))
			}
		case "sm":
			m := obj.(ad.Matrix)
			_, c := m.Dims()
			for it := m.ConstIterator(); it.Ok(); it.Next() {
				i, j := it.Index()
				keys = append(keys, int64(i)*int64(c)+int64(j))
			}
		}
		return nil
	})
	if kind != "ok" {
		keys = []int64{-777}
	}
	return
}

// ---------------------------------------------------------------- generic dump of an object (every field)

// canonical text of everything reachable from v; scratch vectors by length only; cycles (AVL parent links) cut
func dumpValue(sb *strings.Builder, v reflect.Value, seen map[uintptr]bool, depth int) {
	if depth > 60 {
		sb.WriteString("<deep>")
		return
	}
	switch v.Kind() {
	case reflect.Bool:
		fmt.Fprintf(sb, "%v", v.Bool())
	case reflect.Int, reflect.Int8, reflect.Int16, reflect.Int32, reflect.Int64:
		fmt.Fprintf(sb, "%d", v.Int())
	case reflect.Uint, reflect.Uint8, reflect.Uint16, reflect.Uint32, reflect.Uint64, reflect.Uintptr:
		fmt.Fprintf(sb, "%d", v.Uint())
	case reflect.Float32, reflect.Float64:
		fmt.Fprintf(sb, "%x", v.Float())
	case reflect.String:
		fmt.Fprintf(sb, "%q", v.String())
	case reflect.Ptr:
		if v.IsNil() {
			sb.WriteString("nil")
			return
		}
		if seen[v.Pointer()] {
			sb.WriteString("<seen>")
			return
		}
		seen[v.Pointer()] = true
		sb.WriteString("&")
		dumpValue(sb, v.Elem(), seen, depth+1)
	case reflect.Interface:
		if v.IsNil() {
			sb.WriteString("nil")
			return
		}
		dumpValue(sb, v.Elem(), seen, depth+1)
	case reflect.Slice, reflect.Array:
		// a nil slice and an empty slice are the same object to every reader
		fmt.Fprintf(sb, "[%d:", v.Len())
		for i := 0; i < v.Len(); i++ {
			if i > 0 {
				sb.WriteString(" ")
			}
			dumpValue(sb, v.Index(i), seen, depth+1)
		}
		sb.WriteString("]")
	case reflect.Map:
		keys := v.MapKeys()
		sort.Slice(keys, func(i, j int) bool { return keys[i].Int() < keys[j].Int() })
		fmt.Fprintf(sb, "map[%d:", len(keys))
		for _, k := range keys {
			fmt.Fprintf(sb, " %d=", k.Int())
			dumpValue(sb, v.MapIndex(k), seen, depth+1)
		}
		sb.WriteString("]")
	case reflect.Struct:
		sb.WriteString("{")
		t := v.Type()
		for i := 0; i < v.NumField(); i++ {
			name := t.Field(i).Name
			sb.WriteString(" " + name + "=")
			if name == "tmp1" || name == "tmp2" {
				f := v.Field(i)
				switch {
				case f.Kind() == reflect.Slice:
					fmt.Fprintf(sb, "len %d", f.Len())
				case f.Kind() == reflect.Ptr && f.IsNil():
					sb.WriteString("nil")
				case f.Kind() == reflect.Ptr:
					fmt.Fprintf(sb, "len %d", f.Elem().FieldByName("n").Int())
				}
				continue
			}
			dumpValue(sb, v.Field(i), seen, depth+1)
		}
		sb.WriteString(" }")
	case reflect.Func, reflect.Chan, reflect.UnsafePointer:
		if v.IsNil() {
			sb.WriteString("nil")
		} else {
			sb.WriteString("<ref>")
		}
	default:
		sb.WriteString("<?>")
	}
}
func dumpObj(obj interface{}) string {
	var sb strings.Builder
	dumpValue(&sb, reflect.ValueOf(obj), map[uintptr]bool{}, 0)
	return sb.String()
}
func firstDiff(a, b string) string {
	n := 0
	for n < len(a) && n < len(b) && a[n] == b[n] {
		n++
	}
	lo := n - 60
	if lo < 0 {
		lo = 0
	}
	cut := func(s string) string {
		hi := n + 40
		if hi > len(s) {
			hi = len(s)
		}
		return s[lo:hi]
	}
	return fmt.Sprintf("at %d: recycled ...%s... vs fresh ...%s...", n, cut(a), cut(b))
}

// the positions compared through the public API: all of them, or (huge sparse containers) the stored ones and the ends
func probePositions(base string, n int, a, b interface{}) []int {
	var out []int
	if n <= 4096 {
		for i := 0; i < n; i++ {
			out = append(out, i)
		}
		return out
	}
	set := map[int]bool{0: true, n - 1: true}
	if base == "sv" || base == "sm" {
		for _, o := range []interface{}{a, b} {
			ks, _ := iterKeys(base, o)
			for _, k := range ks {
				if k >= 0 && int(k) < n {
					set[int(k)] = true
				}
			}
		}
	}
	for k := range set {
		out = append(out, k)
	}
	sort.Ints(out)
	return out
}

// difference of two objects through the public API only ("" = none)
func apiDiff(base string, et EType, a, b interface{}, strict bool) (diff string) {
	k, msg := guard(func() error {
		switch base {
		case "real":
			x, y := a.(ad.ConstScalar), b.(ad.ConstScalar)
			if strict && (x.GetOrder() != y.GetOrder() || x.GetN() != y.GetN()) {
				diff = fmt.Sprintf("order/N %d/%d vs %d/%d", x.GetOrder(), x.GetN(), y.GetOrder(), y.GetN())
				return nil
			}
			if diff = cmpScalar(et, x, y, true); diff == "" {
				diff = cmpScalar(et, y, x, true)
			}
		case "dv", "sv":
			x, y := a.(ad.Vector), b.(ad.Vector)
			if x.Dim() != y.Dim() {
				diff = fmt.Sprintf("dim %d vs %d", x.Dim(), y.Dim())
				return nil
			}
			for _, i := range probePositions(base, x.Dim(), a, b) {
				if diff != "" {
					break
				}
				if d := cmpScalar(et, x.ConstAt(i), y.ConstAt(i), true); d != "" {
					diff = fmt.Sprintf("element %d: %s", i, d)
				} else if d := cmpScalar(et, y.ConstAt(i), x.ConstAt(i), true); d != "" {
					diff = fmt.Sprintf("element %d: %s", i, d)
				}
			}
		case "dm", "sm":
			x, y := a.(ad.Matrix), b.(ad.Matrix)
			r1, c1 := x.Dims()
			r2, c2 := y.Dims()
			if r1 != r2 || c1 != c2 {
				diff = fmt.Sprintf("dims %dx%d vs %dx%d", r1, c1, r2, c2)
				return nil
			}
			n := r1 * c1
			if c1 != 0 && n/c1 != r1 {
				n = 1 << 62
			}
			for _, k := range probePositions(base, n, a, b) {
				if diff != "" || c1 == 0 {
					break
				}
				i, j := k/c1, k%c1
				if d := cmpScalar(et, x.ConstAt(i, j), y.ConstAt(i, j), true); d != "" {
					diff = fmt.Sprintf("element %d,%d: %s", i, j, d)
				} else if d := cmpScalar(et, y.ConstAt(i, j), x.ConstAt(i, j), true); d != "" {
					diff = fmt.Sprintf("element %d,%d: %s", i, j, d)
				}
			}
		}
		if diff == "" && (base == "sv" || base == "sm") {
			ka, _ := iterKeys(base, a)
			kb, _ := iterKeys(base, b)
			if fmt.Sprint(ka) != fmt.Sprint(kb) {
				diff = fmt.Sprintf("iterator visits %v vs %v", ka, kb)
			}
		}
		return nil
	})
	if k == "panic" {
		if strict {
			// differential use: both objects have the same state field by field (compared before); an access panic is a
			// property of that state (e.g. the unvalidated table readers, F-TABLE-WSLINE), not of the receiver
			return ""
		}
		return "access panics: " + msg
	}
	return diff
}

// ---------------------------------------------------------------- labels (computed from the recipe alone)

func recvHasDerivStorage(spec *Recipe) bool {
	if spec == nil || spec.Kind == "zero" || len(spec.Els) == 0 || spec.Els[0].R == nil {
		return false
	}
	r := spec.Els[0].R
	return r.Order != 0 || r.N != 0
}
func recvLabel(spec *Recipe) string {
	if spec == nil {
		return "fresh"
	}
	if spec.Kind == "zero" {
		return "zero-value struct"
	}
	var l []string
	for _, o := range spec.Ops {
		if o.Tip {
			l = append(l, "Tip")
		} else if o.T {
			l = append(l, "T")
		} else {
			l = append(l, fmt.Sprintf("slice[%d:%d,%d:%d]", o.Rf, o.Rt, o.Cf, o.Ct))
		}
	}
	return fmt.Sprintf("%dx%d n=%d els=%d ents=%d ops=%s", spec.R0, spec.C0, spec.N, len(spec.Els), len(spec.Ents), strings.Join(l, "."))
}

// a Real receiver with derivative storage and a document without derivative information: F-JSON-REAL-RECV
func recvCause(rc Recipe, base string, et EType, data []byte, spec *Recipe) string {
	if base == "real" && recvHasDerivStorage(spec) {
		if d, ok := decSdoc(et, data); ok && len(d.D) == 0 && len(d.H) == 0 {
			return "const-doc-into-derivative-receiver"
		}
	}
	return ""
}

// ---------------------------------------------------------------- running one case

func outcomeOf(kind, msg string) Outcome { return Outcome{Kind: kind, Msg: msg} }

// the bytes to decode: given (malformed stream) or produced by the writer from the source object
func recvSource(rc Recipe, base string, table bool, et EType) (data []byte, ok bool) {
	if table {
		if rc.File != "" {
			return fileBytes(rc), true
		}
		src := rc
		src.Kind, src.Recv, src.Recv2 = base, nil, nil
		file := tableFile()
		os.Remove(file)
		k, _ := guard(func() error { return build(src, et).(exporter).Export(file) })
		if k != "ok" {
			return nil, false
		}
		b, err := os.ReadFile(file)
		return b, err == nil
	}
	if rc.Bytes != "" {
		return []byte(rc.Bytes), true
	}
	src := rc
	src.Kind, src.Recv, src.Recv2 = base, nil, nil
	k, _ := guard(func() error {
		var err error
		data, err = json.Marshal(build(src, et))
		return err
	})
	return data, k == "ok"
}

func decodeInto(table bool, data []byte, target interface{}) (string, string) {
	if table {
		file := tableFile()
		if err := os.WriteFile(file, data, 0644); err != nil {
			Die("%v", err)
		}
		return guard(func() error { return target.(importer).Import(file) })
	}
	return guard(func() error { return json.Unmarshal(data, target) })
}

func runRecv(rc Recipe) (res Result) {
	base, table, _ := recvKind(rc.Kind)
	if base == "fields" {
		return runFields(rc)
	}
	et := etypeByName(rc.Type)
	data, ok := recvSource(rc, base, table, et)
	if !ok {
		return res // the writer failed on the source object: nothing to decode (the round-trip streams report writers)
	}
	site := base + ".UnmarshalJSON"
	if table {
		site = base + ".Import"
	}
	fail := func(kind, cause, detail string) {
		res.Failures = append(res.Failures, Failure{Site: site, Kind: kind, Cause: cause, Detail: detail, Type: rc.Type})
	}
	cause := recvCause(rc, base, et, data, rc.Recv)

	// first generation: recycled receiver, and a fresh one for the oracle
	recvParent = nil
	target, get := buildRecv(rc.Recv, base, et)
	parent, pdump := recvParent, ""
	if parent != nil {
		pdump = dumpObj(parent)
	}
	old := recvStateCoq(base, et, get(), table)
	ot := tmpsCoq(get())
	rk, rmsg := decodeInto(table, data, target)
	if parent != nil && rk == "ok" {
		if a := dumpObj(parent); a != pdump {
			fail("recv-parent", cause, fmt.Sprintf("decoding into a view (%s) wrote through to the object the view was cut from: %s", recvLabel(rc.Recv), firstDiff(a, pdump)))
		}
	}
	gr := outcomeOf(rk, rmsg)
	var back interface{}
	keys := "[]"
	gt := "(None, None)"
	if rk == "ok" {
		back = get()
		gr.Term = recvStateCoq(base, et, back, table)
		gt = tmpsCoq(back)
		ks, _ := iterKeys(base, back)
		keys = ZList(ks)
	}
	ftarget, fget := freshTarget(base, et)
	fk, _ := decodeInto(table, data, ftarget)
	var fback interface{}
	if fk != rk {
		fail("recv-outcome", cause, fmt.Sprintf("decoding into a recycled receiver (%s): %s, into a fresh one: %s", recvLabel(rc.Recv), rk, fk))
	} else if rk == "ok" {
		fback = fget()
		if a, b := dumpObj(back), dumpObj(fback); a != b {
			fail("recv-mismatch", cause, fmt.Sprintf("receiver (%s) differs from a fresh one after decoding the same bytes: %s", recvLabel(rc.Recv), firstDiff(a, b)))
		} else if d := apiDiff(base, et, back, fback, true); d != "" {
			fail("recv-mismatch", cause, fmt.Sprintf("receiver (%s) vs fresh, public API: %s", recvLabel(rc.Recv), d))
		}
	}
	k := kindCoq(et)
	res.Key = fmt.Sprintf("%s/%s/%s/%d/%s", rc.Kind, rc.Type, recvShape(rc.Recv), len(data), rk)
	res.Hist = append(res.Hist, "recv/"+rc.Kind+"/"+rc.Type, "recv-kind:"+recvShape(rc.Recv), "recv-decode:"+rk)
	res.Nontriv = rk == "ok" && rc.Recv != nil
	if table {
		f := fileCoq(data)
		switch base {
		case "dv":
			res.Coq = fmt.Sprintf("RvTDv %s %s %s %s", k, old, f, gr.Coq())
		case "dm":
			res.Coq = fmt.Sprintf("RvTDm %s %s %s %s %s %s %s", k, B(et.Real), old, ot, f, gr.Coq(), gt)
		case "sv":
			res.Coq = fmt.Sprintf("RvTSv %s %s %s %s %s", k, old, f, gr.Coq(), keys)
		case "sm":
			res.Coq = fmt.Sprintf("RvTSm %s %s %s %s %s %s %s", k, old, ot, f, gr.Coq(), gt, keys)
		}
		return res
	}

	// the document as the decoding layer sees it
	doc := Outcome{Kind: "err"}
	if term, ok := decDoc(base, et, data); ok {
		doc = Outcome{Kind: "ok", Term: term}
	}
	// second generation
	gw2 := Outcome{Kind: "err"}
	gr2 := Outcome{Kind: "err"}
	target2, get2 := buildRecv(rc.Recv2, base, et)
	old2 := recvStateCoq(base, et, get2(), false)
	if rk == "ok" {
		var data2 []byte
		wk, wmsg := guard(func() error {
			var err error
			data2, err = json.Marshal(back)
			return err
		})
		gw2 = outcomeOf(wk, wmsg)
		if wk == "ok" {
			if term, ok := decDoc(base, et, data2); ok {
				gw2.Term = term
			} else {
				gw2 = Outcome{Kind: "crash", Msg: "writer output not decodable: " + string(data2)}
			}
		}
		if gw2.Kind == "ok" {
			rk2, rmsg2 := decodeInto(false, data2, target2)
			gr2 = outcomeOf(rk2, rmsg2)
			if rk2 == "ok" {
				gr2.Term = recvStateCoq(base, et, get2(), false)
			}
			res.Hist = append(res.Hist, "recv-gen2:"+rk2)
			if len(res.Failures) == 0 {
				// the oracle on the second generation: same bytes as from the fresh object; decodes; observably the same object
				var fdata2 []byte
				guard(func() error {
					var err error
					fdata2, err = json.Marshal(fback)
					return err
				})
				switch {
				case string(fdata2) != string(data2):
					fail("recv-gen2", cause, fmt.Sprintf("second-generation document differs: %.120s vs %.120s", data2, fdata2))
				case rk2 != "ok":
					fail("recv-gen2", cause, "the re-written document is rejected: "+rmsg2)
				default:
					cause2 := recvCause(rc, base, et, data2, rc.Recv2)
					f2, g2 := freshTarget(base, et)
					decodeInto(false, data2, f2)
					if a, b := dumpObj(get2()), dumpObj(g2()); a != b {
						fail("recv-mismatch", cause2, fmt.Sprintf("second generation: receiver (%s) differs from a fresh one: %s", recvLabel(rc.Recv2), firstDiff(a, b)))
					} else if d := apiDiff(base, et, get2(), back, false); d != "" {
						fail("recv-gen2", cause, "second generation not stable: "+d)
					}
				}
			}
		} else if recipeFiniteObj(base, back) {
			fail("recv-gen2", cause, "the decoded object cannot be written again: "+gw2.Kind+" "+gw2.Msg)
		}
	}
	z := zeroEl(et).Coq()
	switch base {
	case "real":
		res.Coq = fmt.Sprintf("RvReal %s %s %s %s %s %s", old, doc.Coq(), gr.Coq(), gw2.Coq(), old2, gr2.Coq())
	case "dv":
		res.Coq = fmt.Sprintf("RvDv%s %s %s %s %s %s %s", ctorSuffix("dv", et), old, doc.Coq(), gr.Coq(), gw2.Coq(), old2, gr2.Coq())
	case "sv":
		res.Coq = fmt.Sprintf("RvSv %s %s %s %s %s %s %s", old, doc.Coq(), gr.Coq(), keys, gw2.Coq(), old2, gr2.Coq())
	case "dm":
		if et.Real {
			res.Coq = fmt.Sprintf("RvDmR %s %s %s %s %s %s %s %s %s", z, old, ot, doc.Coq(), gr.Coq(), gt, gw2.Coq(), old2, gr2.Coq())
		} else {
			res.Coq = fmt.Sprintf("RvDmP %s %s %s %s %s %s %s", z, old, doc.Coq(), gr.Coq(), gw2.Coq(), old2, gr2.Coq())
		}
	case "sm":
		res.Coq = fmt.Sprintf("RvSm %s %s %s %s %s %s %s %s %s", old, ot, doc.Coq(), gr.Coq(), gt, keys, gw2.Coq(), old2, gr2.Coq())
	}
	return res
}

// documents may carry nothing non-finite (encoding/json refuses them), so a decoded object is always writable
func recipeFiniteObj(base string, obj interface{}) bool { return true }

func recvShape(spec *Recipe) string {
	switch {
	case spec == nil:
		return "fresh"
	case spec.Kind == "zero":
		return "zero-struct"
	}
	t, s, tip := false, false, false
	for _, o := range spec.Ops {
		if o.Tip {
			tip = true
			continue
		}
		t = t != o.T
		s = s || !o.T
	}
	switch {
	case tip && t:
		return "tip-transposed"
	case tip && s:
		return "tip-slice"
	case tip:
		return "tip"
	case t && s:
		return "transposed-slice"
	case t:
		return "transposed"
	case s:
		return "slice"
	case len(spec.Ents) > 0:
		return "entries"
	case len(spec.Els) > 0 && spec.Els[0].R != nil && (spec.Kind == "real" || spec.Kind == ""):
		return fmt.Sprintf("real-order%d", spec.Els[0].R.Order)
	}
	return "whole"
}

// ---------------------------------------------------------------- struct declarations (go/ast)

func repoDir() string {
	if d := os.Getenv("C18_REPO"); d != "" {
		return d
	}
	if d := os.Getenv("VERIF_REPO"); d != "" {
		return d
	}
	return "/repo"
}

var structDecls map[string][]string

func loadStructDecls() {
	structDecls = map[string][]string{}
	fset := token.NewFileSet()
	for _, pat := range []string{"matrix_dense_*.go", "matrix_sparse_*.go", "vector_sparse_*.go", "scalar_real*.go"} {
		files, _ := filepath.Glob(filepath.Join(repoDir(), pat))
		sort.Strings(files)
		for _, fn := range files {
			if strings.HasSuffix(fn, "_test.go") {
				continue
			}
			f, err := parser.ParseFile(fset, fn, nil, parser.SkipObjectResolution)
			if err != nil {
				continue
			}
			for _, d := range f.Decls {
				gd, ok := d.(*ast.GenDecl)
				if !ok || gd.Tok != token.TYPE {
					continue
				}
				for _, sp := range gd.Specs {
					ts := sp.(*ast.TypeSpec)
					st, ok := ts.Type.(*ast.StructType)
					if !ok {
						continue
					}
					names := []string{}
					for _, fl := range st.Fields.List {
						if len(fl.Names) == 0 { // embedded
							names = append(names, embeddedName(fl.Type))
						}
						for _, n := range fl.Names {
							names = append(names, n.Name)
						}
					}
					structDecls[ts.Name.Name] = names
				}
			}
		}
	}
}
func embeddedName(e ast.Expr) string {
	switch x := e.(type) {
	case *ast.Ident:
		return x.Name
	case *ast.StarExpr:
		return embeddedName(x.X)
	case *ast.SelectorExpr:
		return x.Sel.Name
	}
	return "?"
}

func structName(base string, et EType) (goName, ck string) {
	switch base {
	case "real":
		return et.Name, "CReal"
	case "dm":
		if et.Real {
			return "Dense" + et.Name + "Matrix", "CDmReal"
		}
		return "Dense" + et.Name + "Matrix", "CDmPlain"
	case "sv":
		return "Sparse" + et.Name + "Vector", "CSv"
	case "sm":
		return "Sparse" + et.Name + "Matrix", "CSm"
	}
	return "", ""
}

// rv-fields: Mut = base kind; the struct's field names as declared in the sources of /repo, which must also be
// the fields of the compiled type (reflection)
func runFields(rc Recipe) (res Result) {
	et := etypeByName(rc.Type)
	base := rc.Mut
	if structDecls == nil {
		loadStructDecls()
	}
	goName, ck := structName(base, et)
	names, ok := structDecls[goName]
	if !ok {
		names = []string{"<no declaration of " + goName + " found in " + repoDir() + ">"}
	}
	_, get := zeroStruct(base, et)
	t := reflect.TypeOf(get()).Elem()
	var rnames []string
	for i := 0; i < t.NumField(); i++ {
		rnames = append(rnames, t.Field(i).Name)
	}
	if t.Name() != goName || strings.Join(rnames, ",") != strings.Join(names, ",") {
		names = append(names, "<compiled type "+t.Name()+" has fields "+strings.Join(rnames, ",")+">")
	}
	q := make([]string, len(names))
	for i, n := range names {
		q[i] = `"` + strings.Replace(n, `"`, `'`, -1) + `"`
	}
	res.Coq = fmt.Sprintf("RvFields %s (%s%%string)", ck, List(q))
	res.Key = "rv-fields/" + goName
	res.Nontriv = true
	res.Hist = []string{"recv-fields/" + base}
	return res
}

func fieldsSweep() []Recipe {
	var out []Recipe
	for _, et := range etypes {
		for _, base := range []string{"real", "dm", "sv", "sm"} {
			if base == "real" && !et.Real {
				continue
			}
			out = append(out, Recipe{Kind: "rv-fields", Type: et.Name, Mut: base})
		}
	}
	return out
}

// ---------------------------------------------------------------- generators

// a receiver of the given kind; (r0, c0, n) describe the document where known, so that receivers of the SAME
// dimensions (where a lazy decoder could keep more) are frequent too
func genRecv(r *Rng, base string, et EType, r0, c0, n int, src *Recipe) *Recipe {
	if r.Intn(14) == 0 {
		return nil
	}
	if r.Intn(9) == 0 {
		return &Recipe{Kind: "zero", Type: et.Name}
	}
	spec := &Recipe{Kind: base, Type: et.Name}
	switch base {
	case "real":
		rv := genReal(r, et, false)
		if src != nil && len(src.Els) > 0 && src.Els[0].R != nil && r.Intn(3) == 0 { // same N and Order: Alloc keeps the storage
			rv.Order, rv.N = src.Els[0].R.Order, src.Els[0].R.N
			rv.D, rv.H = nil, nil
			if rv.Order >= 1 {
				rv.D = make([]El, rv.N)
				for i := range rv.D {
					rv.D[i] = genD(r, et, 20)
				}
			}
			if rv.Order >= 2 {
				rv.H = make([][]El, rv.N)
				for i := range rv.H {
					rv.H[i] = make([]El, rv.N)
					for j := range rv.H[i] {
						rv.H[i][j] = genD(r, et, 20)
					}
				}
			}
		}
		spec.Els = []Elem{{R: &rv}}
	case "dv":
		m := r.Range(1, 5)
		if r.Intn(3) == 0 && n > 0 {
			m = n
		}
		for i := 0; i < m; i++ {
			spec.Els = append(spec.Els, genElem(r, et, false))
		}
		if r.Intn(3) == 0 {
			rf := r.Range(0, m)
			spec.Ops = []Op{{Rf: rf, Rt: r.Range(rf, m)}}
		}
	case "sv":
		spec.N = r.Range(1, 9)
		if r.Intn(3) == 0 && n > 0 {
			spec.N = n
		}
		for i, m := 0, r.Range(1, spec.N); i < m; i++ {
			spec.Ents = append(spec.Ents, Ent{K: int64(r.Intn(spec.N)), E: genSparseElem(r, et)})
		}
		if r.Intn(4) == 0 {
			rf := r.Range(0, spec.N)
			spec.Ops = []Op{{Rf: rf, Rt: r.Range(rf, spec.N)}}
		}
	case "dm":
		spec.R0, spec.C0 = r.Range(1, 4), r.Range(1, 4)
		same := r.Intn(3) == 0 && r0 > 0 && c0 > 0
		if same {
			spec.R0, spec.C0 = r0, c0
		}
		for i := 0; i < spec.R0*spec.C0; i++ {
			spec.Els = append(spec.Els, genElem(r, et, false))
		}
		switch r.Intn(6) {
		case 0: // whole matrix of other (or the same) dimensions
		case 1, 2: // T(): only the transposed flag differs from a fresh header
			if same {
				spec.R0, spec.C0 = c0, r0
			}
			spec.Ops = []Op{{T: true}}
		default:
			spec.Ops = genOps(r, spec.R0, spec.C0, true)
		}
	case "sm":
		spec.R0, spec.C0 = r.Range(1, 4), r.Range(1, 4)
		if r.Intn(3) == 0 && r0 > 0 && c0 > 0 {
			spec.R0, spec.C0 = r0, c0
		}
		for i, m := 0, r.Range(1, spec.R0*spec.C0); i < m; i++ {
			spec.Ents = append(spec.Ents, Ent{K: int64(r.Intn(spec.R0 * spec.C0)), E: genSparseElem(r, et)})
		}
		if r.Intn(2) == 0 {
			spec.Ops = genOps(r, spec.R0, spec.C0, false)
			if len(spec.Ops) > 2 {
				spec.Ops = spec.Ops[:2]
			}
		}
	}
	return spec
}

func finalDims(rc Recipe) (int, int) {
	rows, cols := rc.R0, rc.C0
	for _, o := range rc.Ops {
		if o.T || o.Tip {
			rows, cols = cols, rows
		} else {
			rows, cols = o.Rt-o.Rf, o.Ct-o.Cf
		}
	}
	return rows, cols
}

func genRecvRecipe(r *Rng) Recipe {
	var rc Recipe
	table := r.Intn(3) == 0
	if table {
		for {
			rc = genTableRecipe(r)
			if rc.Kind != "t-lit" {
				break
			}
		}
		base, _, _ := tableKind(rc.Kind)
		if base == "sm" && rc.File == "" {
			rc.Ops = nil // whole sources: the writers of slices are the business of the round-trip streams
		}
		rc.Kind = "rvt-" + base
	} else {
		for {
			rc = genRecipe(r)
			if k := baseKind(rc.Kind); k != "plain" && k != "const" {
				break
			}
		}
		base := baseKind(rc.Kind)
		if base == "sm" && rc.Bytes == "" {
			rc.Ops = nil
		}
		rc.Kind = "rv-" + base
	}
	base, _, _ := recvKind(rc.Kind)
	et := etypeByName(rc.Type)
	r0, c0 := finalDims(rc)
	n := rc.N
	if base == "dv" {
		n = len(rc.Els)
	}
	src := &rc
	if rc.Bytes != "" || rc.File != "" {
		src, r0, c0, n = nil, r.Range(0, 3), r.Range(0, 3), r.Range(0, 4)
	}
	for rc.Recv == nil { // the first receiver is never fresh here (the other streams decode into fresh ones)
		rc.Recv = genRecv(r, base, et, r0, c0, n, src)
	}
	rc.Recv2 = genRecv(r, base, et, r0, c0, n, src)
	return rc
}

// ---------------------------------------------------------------- shrinking the receiver

func shrinkRecv(rc Recipe, still func(Recipe) bool) Recipe {
	if rc.Recv2 != nil {
		c := rc
		c.Recv2 = nil
		if still(c) {
			rc = c
		}
	}
	for round := 0; round < 50 && rc.Recv != nil; round++ {
		var cands []Recipe
		cur := *rc.Recv
		with := func(s Recipe) Recipe {
			c := rc
			c.Recv = &s
			return c
		}
		for i := range cur.Ops {
			s := cur
			s.Ops = append(append([]Op{}, cur.Ops[:i]...), cur.Ops[i+1:]...)
			if s.Kind != "dm" || validOps(s) {
				cands = append(cands, with(s))
			}
		}
		for i := range cur.Ents {
			s := cur
			s.Ents = append(append([]Ent{}, cur.Ents[:i]...), cur.Ents[i+1:]...)
			cands = append(cands, with(s))
		}
		if cur.Kind == "dv" && len(cur.Ops) == 0 {
			for i := range cur.Els {
				s := cur
				s.Els = append(append([]Elem{}, cur.Els[:i]...), cur.Els[i+1:]...)
				cands = append(cands, with(s))
			}
		}
		if cur.Kind == "dm" && len(cur.Ops) <= 1 && (cur.R0 > 1 || cur.C0 > 1) && (len(cur.Ops) == 0 || cur.Ops[0].T) {
			for _, d := range [][2]int{{1, cur.C0}, {cur.R0, 1}} {
				s := cur
				s.R0, s.C0 = d[0], d[1]
				s.Els = append([]Elem{}, cur.Els[:s.R0*s.C0]...)
				cands = append(cands, with(s))
			}
		}
		progressed := false
		for _, c := range cands {
			if still(c) {
				rc, progressed = c, true
				break
			}
		}
		if !progressed {
			break
		}
	}
	return rc
}

var _ = hex.EncodeToString
