// C18 harness, round 7: two aimed streams (own generator state; the streams of rounds 1-6 are unchanged).
//
//  (a) containers of Real scalars whose elements carry DIFFERENT amounts of derivative information: element 0 (of the storage
//      and of the view) a constant, gradient / Hessian only further back — a writer that picks the format of the whole
//      container from its first element loses them.
//  (b) recycled receivers that are VIEWS whose visible shape equals the shape of the incoming table / document: a transposed
//      c x r matrix for an r x c table, a slice of a larger matrix, a transposed slice, a Tip()ed matrix; same-length slices of
//      longer vectors.  A storage-reusing fast path keyed on the dimensions alone would permute the elements and write through
//      to the parent; the oracle also checks that the parent of the view is left alone.
package main

import (
	"strings"

	. "adharness/common"
)

// ---------------------------------------------------------------- (a) mixed-order Real containers

func constReal(r *Rng, et EType) Elem {
	rv := RealV{Val: El{F: genF(r, et, false)}}
	if r.Intn(3) == 0 { // storage allocated, nothing in it: still written as a bare number
		rv.Order = 1 + r.Intn(2)
		rv.N = 1 + r.Intn(3)
		rv.D = make([]El, rv.N)
		if rv.Order >= 2 {
			rv.H = make([][]El, rv.N)
			for i := range rv.H {
				rv.H[i] = make([]El, rv.N)
			}
		}
	}
	return Elem{R: &rv}
}

// an element that certainly carries derivative information; shape 0: gradient, 1: gradient + Hessian, 2: Hessian only
func derivReal(r *Rng, et EType, shape int) Elem {
	rv := RealV{Val: El{F: genF(r, et, false)}, N: 1 + r.Intn(3)}
	nzf := func() El {
		for {
			e := El{F: genF(r, et, false)}
			if e.NonZero() {
				return e
			}
		}
	}
	rv.Order = 1
	if shape > 0 {
		rv.Order = 2
	}
	rv.D = make([]El, rv.N)
	if shape < 2 {
		for i := range rv.D {
			rv.D[i] = genD(r, et, 30)
		}
		rv.D[r.Intn(rv.N)] = nzf()
	}
	if rv.Order == 2 {
		rv.H = make([][]El, rv.N)
		for i := range rv.H {
			rv.H[i] = make([]El, rv.N)
			for j := range rv.H[i] {
				rv.H[i][j] = genD(r, et, 50)
			}
		}
		rv.H[r.Intn(rv.N)][r.Intn(rv.N)] = nzf()
	}
	return Elem{R: &rv}
}

// n elements; element 0 is a constant (or, pattern 1, carries less than a later one); derivatives only further back
func mixedElems(r *Rng, et EType, n int) []Elem {
	els := make([]Elem, n)
	pattern := r.Intn(4)
	for i := range els {
		els[i] = constReal(r, et)
	}
	if n == 0 {
		return els
	}
	switch pattern {
	case 0: // the last element only
		els[n-1] = derivReal(r, et, r.Intn(3))
	case 1: // gradient in front, Hessian behind
		els[0] = derivReal(r, et, 0)
		els[n-1] = derivReal(r, et, 1+r.Intn(2))
	default: // a random subset of the tail
		for i := 1; i < n; i++ {
			if r.Bool() {
				els[i] = derivReal(r, et, r.Intn(3))
			}
		}
		if n > 1 && r.Bool() {
			els[1+r.Intn(n-1)] = derivReal(r, et, r.Intn(3))
		}
	}
	return els
}

func genMixed(r *Rng) Recipe {
	et := pickType(r, true, false)
	var rc Recipe
	switch r.Intn(4) {
	case 0:
		rc = Recipe{Kind: "dv", Type: et.Name, Els: mixedElems(r, et, r.Range(2, 5))}
	case 1:
		n := r.Range(2, 9)
		rc = Recipe{Kind: "sv", Type: et.Name, N: n}
		var keys []int
		for k := 0; k < n; k++ {
			if r.Intn(3) > 0 {
				keys = append(keys, k)
			}
		}
		if len(keys) < 2 {
			keys = []int{0, n - 1}
		}
		for i, e := range mixedElems(r, et, len(keys)) {
			rc.Ents = append(rc.Ents, Ent{K: int64(keys[i]), E: e})
		}
	case 2:
		rc = Recipe{Kind: "dm", Type: et.Name, R0: r.Range(1, 3), C0: r.Range(2, 3)}
		if r.Bool() {
			rc.R0, rc.C0 = rc.C0, rc.R0
		}
		rc.Els = mixedElems(r, et, rc.R0*rc.C0)
		switch r.Intn(4) {
		case 0:
		case 1:
			rc.Ops = []Op{{T: true}}
		case 2: // a view that keeps the last row / column, so that the view's first element is a constant too
			rf, cf := r.Range(0, rc.R0-1), r.Range(0, rc.C0-1)
			rc.Ops = []Op{{Rf: rf, Rt: rc.R0, Cf: cf, Ct: rc.C0}}
			if r.Bool() {
				rc.Ops = append(rc.Ops, Op{T: true})
			}
		default:
			rc.Ops = genOps(r, rc.R0, rc.C0, true)
		}
	default:
		rc = Recipe{Kind: "sm", Type: et.Name, R0: r.Range(1, 3), C0: r.Range(2, 3)}
		var keys []int
		for k := 0; k < rc.R0*rc.C0; k++ {
			if r.Intn(3) > 0 {
				keys = append(keys, k)
			}
		}
		if len(keys) < 2 {
			keys = []int{0, rc.R0*rc.C0 - 1}
		}
		for i, e := range mixedElems(r, et, len(keys)) {
			rc.Ents = append(rc.Ents, Ent{K: int64(keys[i]), E: e})
		}
	}
	if r.Intn(3) == 0 { // the same document into recycled receivers, and a second generation
		base := rc.Kind
		r0, c0 := finalDims(rc)
		n := rc.N
		if base == "dv" {
			n = len(rc.Els)
		}
		if base == "sm" {
			rc.Ops = nil
		}
		src := rc
		rc.Kind = "rv-" + base
		rc.Recv = genRecv(r, base, et, r0, c0, n, &src)
		rc.Recv2 = genRecv(r, base, et, r0, c0, n, &src)
	}
	return rc
}

// ---------------------------------------------------------------- (b) view receivers of the document's own shape

// a dense-matrix receiver whose visible shape is r0 x c0 (both > 0); variant selects the kind of view
func sameShapeDm(r *Rng, et EType, r0, c0, variant int) *Recipe {
	spec := &Recipe{Kind: "dm", Type: et.Name}
	fill := func(rows, cols int) {
		spec.R0, spec.C0 = rows, cols
		for i := 0; i < rows*cols; i++ {
			spec.Els = append(spec.Els, genElem(r, et, false))
		}
	}
	switch variant {
	case 0: // a.T() of a c0 x r0 matrix
		fill(c0, r0)
		spec.Ops = []Op{{T: true}}
	case 1: // slice of a larger matrix
		a, b := r.Range(0, 2), r.Range(0, 2)
		if a+b == 0 {
			a = 1
		}
		fill(r0+a, c0+b)
		rf, cf := r.Range(0, a), r.Range(0, b)
		spec.Ops = []Op{{Rf: rf, Rt: rf + r0, Cf: cf, Ct: cf + c0}}
	case 2: // transposed slice
		a, b := r.Range(0, 2), r.Range(0, 2)
		fill(c0+a, r0+b)
		rf, cf := r.Range(0, a), r.Range(0, b)
		if r.Bool() {
			spec.Ops = []Op{{Rf: rf, Rt: rf + c0, Cf: cf, Ct: cf + r0}, {T: true}}
		} else {
			spec.Ops = []Op{{T: true}, {Rf: cf, Rt: cf + r0, Cf: rf, Ct: rf + c0}}
		}
	case 3: // Tip() of a c0 x r0 matrix: in-place transposition
		fill(c0, r0)
		spec.Ops = []Op{{Tip: true}}
	case 4: // a.T() then Tip()
		fill(c0, r0)
		spec.Ops = []Op{{T: true}, {Tip: true}, {T: true}}
	case 5: // Tip() then T()
		fill(r0, c0)
		spec.Ops = []Op{{Tip: true}, {T: true}}
	default: // the whole matrix of the same dimensions
		fill(r0, c0)
	}
	return spec
}

func sameShapeRecv(r *Rng, base string, et EType, r0, c0, n int) *Recipe {
	switch base {
	case "dm":
		if r0 <= 0 || c0 <= 0 {
			return nil
		}
		return sameShapeDm(r, et, r0, c0, r.Intn(7))
	case "dv":
		if n <= 0 {
			return nil
		}
		spec := &Recipe{Kind: "dv", Type: et.Name}
		a, b := r.Range(0, 2), r.Range(0, 2)
		for i := 0; i < a+n+b; i++ {
			spec.Els = append(spec.Els, genElem(r, et, false))
		}
		if a+b > 0 {
			spec.Ops = []Op{{Rf: a, Rt: a + n}}
		}
		return spec
	case "sv":
		if n <= 0 {
			return nil
		}
		spec := &Recipe{Kind: "sv", Type: et.Name}
		a, b := r.Range(0, 2), r.Range(0, 2)
		spec.N = a + n + b
		for i, m := 0, r.Range(1, spec.N); i < m; i++ {
			spec.Ents = append(spec.Ents, Ent{K: int64(r.Intn(spec.N)), E: genSparseElem(r, et)})
		}
		if a+b > 0 {
			spec.Ops = []Op{{Rf: a, Rt: a + n}}
		}
		return spec
	case "sm":
		if r0 <= 0 || c0 <= 0 {
			return nil
		}
		spec := &Recipe{Kind: "sm", Type: et.Name}
		a, b := r.Range(0, 2), r.Range(0, 2)
		spec.R0, spec.C0 = r0+a, c0+b
		for i, m := 0, r.Range(1, spec.R0*spec.C0); i < m; i++ {
			spec.Ents = append(spec.Ents, Ent{K: int64(r.Intn(spec.R0 * spec.C0)), E: genSparseElem(r, et)})
		}
		if a+b > 0 {
			rf, cf := r.Range(0, a), r.Range(0, b)
			spec.Ops = []Op{{Rf: rf, Rt: rf + r0, Cf: cf, Ct: cf + c0}}
		}
		return spec
	}
	return nil
}

// the shape of a well-formed dense table file (rows = non-empty lines, cols = fields of the first one); 0, 0 otherwise
func tableShape(data []byte) (int, int) {
	if isGzMagic(data) {
		out, failed, ok := gunzip(data)
		if !ok || failed {
			return 0, 0
		}
		data = out
	}
	rows, cols := 0, 0
	for _, l := range strings.Split(string(data), "\n") {
		if len(l) == 0 {
			continue
		}
		if cols == 0 {
			cols = len(strings.Fields(l))
		}
		rows++
	}
	return rows, cols
}

func genSameShape(r *Rng) Recipe {
	var rc Recipe
	table := r.Intn(5) < 3
	var base string
	if table {
		for {
			rc = genTableRecipe(r)
			if rc.Kind != "t-lit" {
				break
			}
		}
		base, _, _ = tableKind(rc.Kind)
		if r.Intn(3) > 0 && base != "dm" && rc.File == "" { // mostly dense matrices: the views with a transposed flag
			for {
				rc = genTableRT(r)
				if rc.Kind == "t-dm" {
					break
				}
			}
			base = "dm"
		}
		if base == "sm" && rc.File == "" {
			rc.Ops = nil
		}
		rc.Kind = "rvt-" + base
	} else {
		for {
			rc = genRoundTrip(r)
			if k := rc.Kind; k == "dv" || k == "sv" || k == "dm" || k == "sm" {
				break
			}
		}
		base = rc.Kind
		if base == "sm" {
			rc.Ops = nil
		}
		rc.Kind = "rv-" + base
	}
	et := etypeByName(rc.Type)
	r0, c0 := finalDims(rc)
	n := rc.N
	if base == "dv" {
		n = len(rc.Els)
	}
	if rc.File != "" {
		r0, c0 = tableShape(fileBytes(rc))
		n = r0 * c0
		if base == "sv" || base == "sm" {
			r0, c0, n = r.Range(1, 3), r.Range(1, 3), r.Range(1, 4)
		}
	}
	rc.Recv = sameShapeRecv(r, base, et, r0, c0, n)
	for rc.Recv == nil {
		rc.Recv = genRecv(r, base, et, r0, c0, n, nil)
	}
	if r.Bool() {
		rc.Recv2 = sameShapeRecv(r, base, et, r0, c0, n)
	} else {
		rc.Recv2 = genRecv(r, base, et, r0, c0, n, nil)
	}
	return rc
}

func genR7Recipe(r *Rng) Recipe {
	if r.Intn(5) < 2 {
		return genMixed(r)
	}
	return genSameShape(r)
}

// ---------------------------------------------------------------- the fixed part (runs for every seed)

func r7Sweep() []Recipe {
	var out []Recipe
	fl := func(x float64) El { return El{F: x} }
	cst := func(x float64) Elem { return Elem{R: &RealV{Val: fl(x)}} }
	grad := func(x float64, d ...float64) Elem {
		rv := RealV{Val: fl(x), Order: 1, N: len(d)}
		for _, y := range d {
			rv.D = append(rv.D, fl(y))
		}
		return Elem{R: &rv}
	}
	hess := func(x float64, d0 float64) Elem {
		return Elem{R: &RealV{Val: fl(x), Order: 2, N: 2, D: []El{fl(d0), fl(0)}, H: [][]El{{fl(0), fl(3)}, {fl(3), fl(0)}}}}
	}
	for _, tn := range []string{"Real64", "Real32"} {
		et := etypeByName(tn)
		// (a) derivative on the tail only, and gradient in front of a Hessian
		out = append(out,
			Recipe{Kind: "dv", Type: tn, Els: []Elem{cst(1), grad(2, 5)}},
			Recipe{Kind: "dv", Type: tn, Els: []Elem{cst(1), cst(2), hess(3, 0)}},
			Recipe{Kind: "dv", Type: tn, Els: []Elem{grad(1, 7, 0), hess(2, 1)}},
			Recipe{Kind: "dm", Type: tn, R0: 2, C0: 2, Els: []Elem{cst(1), cst(2), cst(3), grad(4, 0, 6)}},
			Recipe{Kind: "dm", Type: tn, R0: 2, C0: 3, Els: []Elem{cst(1), cst(2), cst(3), cst(4), grad(5, 1), hess(6, 2)}, Ops: []Op{{T: true}}},
			Recipe{Kind: "dm", Type: tn, R0: 3, C0: 2, Els: []Elem{grad(1, 1), cst(2), cst(3), cst(4), cst(5), hess(6, 0)}, Ops: []Op{{Rf: 1, Rt: 3, Cf: 0, Ct: 2}}},
			Recipe{Kind: "sv", Type: tn, N: 5, Ents: []Ent{{K: 1, E: cst(1)}, {K: 3, E: grad(2, 9)}}},
			Recipe{Kind: "sm", Type: tn, R0: 2, C0: 2, Ents: []Ent{{K: 0, E: cst(1)}, {K: 3, E: hess(2, 4)}}},
			Recipe{Kind: "rv-dv", Type: tn, Els: []Elem{cst(1), grad(2, 5)}, Recv: &Recipe{Kind: "dv", Type: tn, Els: []Elem{hess(8, 8), cst(9)}}},
		)
		_ = et
	}
	// (b) an r x c table / document into every kind of view of the same visible shape, every element type
	rng := NewRng(0x7a11b)
	for _, et := range etypes {
		for _, dims := range [][2]int{{2, 2}, {2, 3}} {
			r0, c0 := dims[0], dims[1]
			for variant := 0; variant < 7; variant++ {
				for _, kind := range []string{"rvt-dm", "rv-dm"} {
					if kind == "rv-dm" && (dims[0] != 2 || dims[1] != 3) {
						continue
					}
					rc := Recipe{Kind: kind, Type: et.Name, R0: r0, C0: c0}
					for i := 0; i < r0*c0; i++ {
						rc.Els = append(rc.Els, genElem(rng, et, false))
					}
					rc.Recv = sameShapeDm(rng, et, r0, c0, variant)
					out = append(out, rc)
				}
			}
		}
	}
	return out
}
