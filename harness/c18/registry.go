// C18 harness (round 6) — the registry obligation: a small go/ast translator reads, from the library's sources,
//   - the assignments X["key"] = new(T) of the init() functions of statistics/{scalar,vector,matrix}Distribution,
//   - the Name every ExportConfig writes (NewConfigDistribution("literal", ...) or config.Name = "literal"),
//   - the Import{Scalar,Vector,Matrix}PdfConfig functions every ImportConfig calls,
// and emits them as Coq terms for coq/C18/RegistryCorr.v, which compares them with the rows behind the
// constructors of the models (RegistryModel.v).  The registries of the running program (reflection) and the
// harness's own name tables go through the same check.
package main

import (
	"fmt"
	"go/ast"
	"go/parser"
	"go/token"
	"path/filepath"
	"reflect"
	"sort"
	"strconv"
	"strings"

	. "adharness/common"

	st "github.com/pbenner/autodiff/statistics"
)

const gheader = "From Coq Require Import String List Bool.\nFrom ADV Require Import C18.ConfigModel C18.ConfigModelV C18.RegistryModel C18.RegistryCorr.\nImport ListNotations.\nOpen Scope string_scope.\n"

var regPkgs = []struct{ Dir, Level, Registry string }{
	{"scalarDistribution", "LS", "ScalarPdfRegistry"},
	{"vectorDistribution", "LV", "VectorPdfRegistry"},
	{"matrixDistribution", "LM", "MatrixPdfRegistry"},
}

func coqStr(s string) string { return `"` + strings.ReplaceAll(s, `"`, `""`) + `"` }

func recvType(fd *ast.FuncDecl) string {
	if fd.Recv == nil || len(fd.Recv.List) != 1 {
		return ""
	}
	switch t := fd.Recv.List[0].Type.(type) {
	case *ast.StarExpr:
		if id, ok := t.X.(*ast.Ident); ok {
			return id.Name
		}
	case *ast.Ident:
		return t.Name
	}
	return ""
}

func strLit(e ast.Expr) (string, bool) {
	if bl, ok := e.(*ast.BasicLit); ok && bl.Kind == token.STRING {
		if s, err := strconv.Unquote(bl.Value); err == nil {
			return s, true
		}
	}
	return "", false
}

type regTables struct {
	Registry []string // (level, key, type)
	Exports  []string // (level, type, literal)
	Children []string // (level, type, [levels])
}

func translateRegistries() regTables {
	var out regTables
	fset := token.NewFileSet()
	for _, pk := range regPkgs {
		files, _ := filepath.Glob(filepath.Join(repoDir(), "statistics", pk.Dir, "*.go"))
		sort.Strings(files)
		for _, fn := range files {
			if strings.HasSuffix(fn, "_test.go") || strings.HasPrefix(filepath.Base(fn), "verif_") {
				continue
			}
			f, err := parser.ParseFile(fset, fn, nil, parser.SkipObjectResolution)
			if err != nil {
				Die("registry translator: %v", err)
			}
			for _, d := range f.Decls {
				fd, ok := d.(*ast.FuncDecl)
				if !ok || fd.Body == nil {
					continue
				}
				switch {
				case fd.Name.Name == "init" && fd.Recv == nil:
					ast.Inspect(fd.Body, func(n ast.Node) bool {
						as, ok := n.(*ast.AssignStmt)
						if !ok || len(as.Lhs) != 1 || len(as.Rhs) != 1 {
							return true
						}
						ix, ok := as.Lhs[0].(*ast.IndexExpr)
						if !ok {
							return true
						}
						reg, ok := ix.X.(*ast.Ident)
						if !ok || !strings.HasSuffix(reg.Name, "PdfRegistry") {
							return true
						}
						key, ok := strLit(ix.Index)
						call, ok2 := as.Rhs[0].(*ast.CallExpr)
						if !ok || !ok2 || len(call.Args) != 1 {
							Die("registry translator: %s: unexpected registry assignment", fn)
						}
						fun, ok := call.Fun.(*ast.Ident)
						typ, ok2 := call.Args[0].(*ast.Ident)
						if !ok || !ok2 || fun.Name != "new" {
							Die("registry translator: %s: unexpected registry value", fn)
						}
						lvl := ""
						for _, p := range regPkgs {
							if p.Registry == reg.Name {
								lvl = p.Level
							}
						}
						if lvl != pk.Level { // a package registering in another package's map: outside the model's reading
							Die("registry translator: %s registers in %s", pk.Dir, reg.Name)
						}
						out.Registry = append(out.Registry, fmt.Sprintf("(%s, %s, %s)", lvl, coqStr(key), coqStr(typ.Name)))
						return true
					})
				case fd.Name.Name == "ExportConfig" && recvType(fd) != "":
					var names []string // every Name literal the function can write
					seen := map[string]bool{}
					add := func(s string) {
						if !seen[s] {
							seen[s] = true
							names = append(names, s)
						}
					}
					ast.Inspect(fd.Body, func(n ast.Node) bool {
						switch x := n.(type) {
						case *ast.CallExpr:
							if id, ok := x.Fun.(*ast.Ident); ok && id.Name == "NewConfigDistribution" && len(x.Args) > 0 {
								if s, ok := strLit(x.Args[0]); ok {
									add(s)
								} else {
									add("<computed>")
								}
							}
						case *ast.AssignStmt:
							if len(x.Lhs) == 1 && len(x.Rhs) == 1 {
								if sel, ok := x.Lhs[0].(*ast.SelectorExpr); ok && sel.Sel.Name == "Name" {
									if s, ok := strLit(x.Rhs[0]); ok {
										add(s)
									} else {
										add("<computed>")
									}
								}
							}
						}
						return true
					})
					for _, name := range names {
						out.Exports = append(out.Exports, fmt.Sprintf("(%s, %s, %s)", pk.Level, coqStr(recvType(fd)), coqStr(name)))
					}
				case fd.Name.Name == "ImportConfig" && recvType(fd) != "":
					var lv []string
					seen := map[string]bool{}
					ast.Inspect(fd.Body, func(n ast.Node) bool {
						if call, ok := n.(*ast.CallExpr); ok {
							if id, ok := call.Fun.(*ast.Ident); ok {
								l := map[string]string{"ImportScalarPdfConfig": "LS", "ImportVectorPdfConfig": "LV", "ImportMatrixPdfConfig": "LM"}[id.Name]
								if l != "" && !seen[l] {
									seen[l] = true
									lv = append(lv, l)
								}
							}
						}
						return true
					})
					out.Children = append(out.Children, fmt.Sprintf("(%s, %s, %s)", pk.Level, coqStr(recvType(fd)), List(lv)))
				}
			}
		}
	}
	return out
}

func runtimeRegistries() []string {
	var out []string
	add := func(level string, m interface{}) {
		v := reflect.ValueOf(m)
		var keys []string
		for _, k := range v.MapKeys() {
			keys = append(keys, k.String())
		}
		sort.Strings(keys)
		for _, k := range keys {
			e := v.MapIndex(reflect.ValueOf(k)).Elem() // interface -> pointer
			out = append(out, fmt.Sprintf("(%s, %s, %s)", level, coqStr(k), coqStr(e.Type().Elem().Name())))
		}
	}
	add("LS", st.ScalarPdfRegistry)
	add("LV", st.VectorPdfRegistry)
	add("LM", st.MatrixPdfRegistry)
	return out
}

func harnessTables() []string {
	var out []string
	for _, f := range fams {
		l := "LS"
		if f.Coq == "FIid" {
			l = "LV"
		}
		out = append(out, fmt.Sprintf("(%s, %s, %s)", coqStr(f.Coq), coqStr(f.Name), l))
	}
	for _, v := range vnames {
		out = append(out, fmt.Sprintf("(%s, %s, %s)", coqStr(v.Coq), coqStr(v.Name), map[string]string{"vec": "LV", "mat": "LM"}[v.Level]))
	}
	return out
}

func registrySweep() []Recipe {
	var out []Recipe
	for _, k := range []string{"reg-registry", "reg-runtime", "reg-exports", "reg-children", "reg-harness"} {
		out = append(out, Recipe{Kind: k, Type: "registry"})
	}
	return out
}

var regCache *regTables

func runRegistry(rc Recipe) (res Result) {
	if regCache == nil {
		t := translateRegistries()
		regCache = &t
	}
	res.Key, res.Nontriv = rc.Kind, true
	switch rc.Kind {
	case "reg-registry":
		res.Coq = "GRegistry " + List(regCache.Registry)
		res.Hist = []string{fmt.Sprintf("registry-entries-from-source:%d", len(regCache.Registry))}
	case "reg-runtime":
		rt := runtimeRegistries()
		res.Coq = "GRuntime " + List(rt)
		res.Hist = []string{fmt.Sprintf("registry-entries-at-runtime:%d", len(rt))}
	case "reg-exports":
		res.Coq = "GExports " + List(regCache.Exports)
		res.Hist = []string{fmt.Sprintf("export-names-from-source:%d", len(regCache.Exports))}
	case "reg-children":
		res.Coq = "GChildren " + List(regCache.Children)
		res.Hist = []string{fmt.Sprintf("import-config-functions-from-source:%d", len(regCache.Children))}
	case "reg-harness":
		res.Coq = "GHarness " + List(harnessTables())
	}
	return res
}
