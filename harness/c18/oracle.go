// C18 harness — the property-level oracle on the implementation (independent of the Coq
// model): write -> read -> observables equal (public API only); malformed input -> error,
// never a panic, never an object that violates the container invariants.  Plus shrinking.
package main

import (
	"encoding/json"
	"fmt"
	"os"
	"os/exec"
	"reflect"
	"sort"
	"strings"

	ad "github.com/pbenner/autodiff"
)

type Failure struct {
	Site   string // e.g. sv.UnmarshalJSON
	Kind   string // write-err write-panic write-crash roundtrip-err roundtrip-panic roundtrip-mismatch roundtrip-access-panic reader-panic corrupt-object
	Cause  string // '+'-joined labels describing why the input is special (computed from the input only)
	Detail string
	Type   string
}

func scalarEl(et EType, c ad.ConstScalar) El {
	if et.Kind == "int" {
		return El{Int: true, Z: c.GetInt64()}
	}
	return El{F: c.GetFloat64()}
}

// compare two scalars through the public API; derivatives only for real element types
func cmpScalar(et EType, a, b ad.ConstScalar, exact bool) string {
	va, vb := scalarEl(et, a), scalarEl(et, b)
	if exact && !va.Same(vb) || !exact && !va.ZEq(vb) {
		return fmt.Sprintf("value %v vs %v", va, vb)
	}
	if et.Real && exact {
		n := a.GetN()
		for i := 0; i < n; i++ {
			if x, y := (El{F: a.GetDerivative(i)}), (El{F: b.GetDerivative(i)}); !x.ZEq(y) {
				return fmt.Sprintf("derivative %d: %v vs %v", i, x.F, y.F)
			}
		}
		for i := 0; i < n; i++ {
			for j := 0; j < n; j++ {
				if x, y := (El{F: a.GetHessian(i, j)}), (El{F: b.GetHessian(i, j)}); !x.ZEq(y) {
					return fmt.Sprintf("hessian %d,%d: %v vs %v", i, j, x.F, y.F)
				}
			}
		}
	}
	return ""
}

func hessOnly(r *RealV) bool {
	if r == nil || r.Order < 2 || r.N <= 0 {
		return false
	}
	for _, d := range r.D {
		if d.NonZero() {
			return false
		}
	}
	return r.anyDeriv()
}

func recipeFinite(rc Recipe) bool {
	chk := func(e Elem) bool {
		if e.R == nil {
			return e.P.Finite()
		}
		if !e.R.Val.Finite() {
			return false
		}
		for _, d := range e.R.D {
			if !d.Finite() {
				return false
			}
		}
		for _, row := range e.R.H {
			for _, h := range row {
				if !h.Finite() {
					return false
				}
			}
		}
		return true
	}
	for _, e := range rc.Els {
		if !chk(e) {
			return false
		}
	}
	for _, e := range rc.Ents {
		if !chk(e.E) {
			return false
		}
	}
	return true
}

// causes visible in a round-trip recipe
func recipeCause(rc Recipe, kind string) string {
	var c []string
	ho := false
	for _, e := range rc.Els {
		ho = ho || hessOnly(e.R)
	}
	if ho && (kind == "real" || kind == "dv" || kind == "dm") {
		c = append(c, "zero-gradient-nonzero-hessian")
	}
	if kind == "sm" && len(rc.Ops) > 0 {
		// a stored non-null entry outside the final view?
		roff, coff, rows, cols := 0, 0, rc.R0, rc.C0
		for _, o := range rc.Ops {
			roff += o.Rf
			coff += o.Cf
			rows, cols = o.Rt-o.Rf, o.Ct-o.Cf
		}
		final := map[int64]Elem{}
		for _, e := range rc.Ents {
			final[e.K] = e.E
		}
		out := false
		for k, e := range final {
			i, j := int(k)/rc.C0, int(k)%rc.C0
			null := !e.Value().NonZero() && (e.R == nil || !e.R.anyDeriv())
			if !null && (i < roff || i >= roff+rows || j < coff || j >= coff+cols) {
				out = true
			}
		}
		if out {
			c = append(c, "slice-with-entries-outside")
		}
	}
	return strings.Join(c, "+")
}

func oracleRoundTrip(rc Recipe, et EType, kind string, obj interface{}, gw, gr Outcome, back interface{}) []Failure {
	fail := func(site, k, detail string) []Failure {
		return []Failure{{Site: kind + "." + site, Kind: k, Cause: recipeCause(rc, kind), Detail: detail, Type: rc.Type}}
	}
	if !recipeFinite(rc) {
		if gw.Kind == "panic" || gw.Kind == "crash" {
			return fail("MarshalJSON", "write-"+gw.Kind, gw.Msg)
		}
		return nil
	}
	if gw.Kind != "ok" {
		return fail("MarshalJSON", "write-"+gw.Kind, gw.Msg)
	}
	if gr.Kind != "ok" {
		return fail("UnmarshalJSON", "roundtrip-"+gr.Kind, gr.Msg)
	}
	var diff string
	k, msg := guard(func() error {
		switch kind {
		case "plain", "real":
			diff = cmpScalar(et, obj.(ad.ConstScalar), back.(ad.ConstScalar), true)
		case "dv", "sv":
			a, b := obj.(ad.Vector), back.(ad.Vector)
			if a.Dim() != b.Dim() {
				diff = fmt.Sprintf("dim %d vs %d", a.Dim(), b.Dim())
				return nil
			}
			for i := 0; i < a.Dim() && diff == ""; i++ {
				if d := cmpScalar(et, a.ConstAt(i), b.ConstAt(i), kind == "dv"); d != "" {
					diff = fmt.Sprintf("element %d: %s", i, d)
				}
			}
		case "dm", "sm":
			a, b := obj.(ad.Matrix), back.(ad.Matrix)
			r1, c1 := a.Dims()
			r2, c2 := b.Dims()
			if r1 != r2 || c1 != c2 {
				diff = fmt.Sprintf("dims %dx%d vs %dx%d", r1, c1, r2, c2)
				return nil
			}
			for i := 0; i < r1 && diff == ""; i++ {
				for j := 0; j < c1 && diff == ""; j++ {
					if d := cmpScalar(et, a.ConstAt(i, j), b.ConstAt(i, j), kind == "dm"); d != "" {
						diff = fmt.Sprintf("element %d,%d: %s", i, j, d)
					}
				}
			}
		}
		return nil
	})
	if k == "panic" {
		return fail("UnmarshalJSON", "roundtrip-access-panic", msg)
	}
	if diff != "" {
		return fail("UnmarshalJSON", "roundtrip-mismatch", diff)
	}
	return nil
}

// ---------------------------------------------------------------- wf of reader results (state by reflection)

func wfReal(r *RealV) bool {
	if r == nil {
		return true
	}
	if r.Order < 0 || r.Order > 2 || r.N < 0 {
		return false
	}
	if r.Order >= 1 && len(r.D) != r.N {
		return false
	}
	if r.Order >= 2 {
		if len(r.H) != r.N {
			return false
		}
		for _, row := range r.H {
			if len(row) != r.N {
				return false
			}
		}
	}
	return true
}
func wfElems(xs []Elem) bool {
	for _, e := range xs {
		if !wfReal(e.R) {
			return false
		}
	}
	return true
}
func wfSv(s SvState) bool {
	if s.N < 0 {
		return false
	}
	for _, e := range s.Ents {
		if e.K < 0 || e.K >= s.N {
			return false
		}
	}
	return true
}
func wfBack(kind string, back interface{}) bool {
	switch kind {
	case "real":
		return wfReal(obsRV(reflect.ValueOf(back)).R)
	case "dv":
		return wfElems(obsDv(back))
	case "sv":
		return wfSv(obsSvRV(reflect.ValueOf(back)))
	case "dm":
		m := obsDm(back)
		return m.Rows >= 0 && m.Cols >= 0 && exactProduct(m.Rows, m.Cols, int64(len(m.Vals))) && m.Rmax == m.Rows && m.Cmax == m.Cols &&
			m.Roff == 0 && m.Coff == 0 && !m.Tr && wfElems(m.Vals)
	case "sm":
		m := obsSm(back)
		return m.Rows >= 0 && m.Cols >= 0 && exactProduct(m.Rows, m.Cols, m.St.N) && wfSv(m.St) && m.Rmax == m.Rows && m.Cmax == m.Cols &&
			m.Roff == 0 && m.Coff == 0
	}
	return true
}

// a*b == p over the integers (a, b >= 0), no wrap-around
func exactProduct(a, b, p int64) bool {
	if a == 0 || b == 0 {
		return p == 0
	}
	return p >= 0 && p%b == 0 && p/b == a
}

// why a document is malformed, from the document alone (labels sorted, '+'-joined)
func sdocCause(d Sdoc) []string {
	var c []string
	if d.Num {
		return nil
	}
	if len(d.D) == 0 && len(d.H) != 0 { // legal since 500dcc2 when the Hessian is square
		c = append(c, "hessian-without-derivative")
		for _, row := range d.H {
			if len(row) != len(d.H) {
				c = append(c, "hessian-shape")
				break
			}
		}
	}
	if len(d.D) != 0 && len(d.H) != 0 {
		bad := len(d.H) != len(d.D)
		for _, row := range d.H {
			bad = bad || len(row) != len(d.D)
		}
		if bad {
			c = append(c, "hessian-shape")
		}
	}
	return c
}
func sparseCause(index []int64, nvals int, n int64, exactN bool, negDim bool) []string {
	var c []string
	if len(index) != nvals {
		c = append(c, "len-mismatch")
	}
	seen := map[int64]bool{}
	ge, neg, dup := false, false, false
	for _, k := range index {
		ge = ge || k >= n
		neg = neg || k < 0
		dup = dup || seen[k]
		seen[k] = true
	}
	if ge {
		c = append(c, "index>=n")
	}
	if neg {
		c = append(c, "neg-index")
	}
	if dup {
		c = append(c, "dup-index")
	}
	if negDim {
		c = append(c, "neg-dim")
	}
	if !exactN {
		c = append(c, "dim-overflow")
	}
	return c
}
func elemDocCauses(et EType, raws []json.RawMessage) []string {
	set := map[string]bool{}
	if et.Real {
		for _, raw := range raws {
			if d, ok := decSdoc(et, raw); ok {
				for _, x := range sdocCause(d) {
					set["elem:"+x] = true
				}
			}
		}
	}
	var c []string
	for k := range set {
		c = append(c, k)
	}
	return c
}
func docCause(kind string, et EType, data []byte) string {
	var c []string
	switch kind {
	case "real":
		if d, ok := decSdoc(et, data); ok {
			c = sdocCause(d)
		}
	case "dv":
		var raws []json.RawMessage
		if json.Unmarshal(data, &raws) == nil {
			c = elemDocCauses(et, raws)
		}
	case "sv":
		var r mirrorSv
		if json.Unmarshal(data, &r) == nil {
			vals, _, _ := decEls(et, r.Value)
			c = sparseCause(r.Index, len(vals), r.Length, true, r.Length < 0)
		}
	case "sm":
		var r mirrorSm
		if json.Unmarshal(data, &r) == nil {
			vals, _, _ := decEls(et, r.Value)
			n := r.Rows * r.Cols // wraps like Go
			exact := r.Rows == 0 || (n/r.Rows == r.Cols && !(r.Rows == -1 && r.Cols == -9223372036854775808))
			c = sparseCause(r.Index, len(vals), n, exact, r.Rows < 0 || r.Cols < 0)
		}
	case "dm":
		var r mirrorDm
		if json.Unmarshal(data, &r) == nil {
			if r.Rows < 0 || r.Cols < 0 {
				c = append(c, "neg-dim")
			}
			if r.Rows >= 0 && r.Cols >= 0 && !exactProduct(r.Rows, r.Cols, r.Rows*r.Cols) {
				c = append(c, "dim-overflow")
			} else if int64(len(r.Values)) != r.Rows*r.Cols {
				c = append(c, "len!=rows*cols")
			}
			c = append(c, elemDocCauses(et, r.Values)...)
		}
	}
	sort.Strings(c)
	return strings.Join(c, "+")
}

func oracleMalformed(rc Recipe, et EType, kind string, gr Outcome, back interface{}) []Failure {
	switch gr.Kind {
	case "panic":
		return []Failure{{Site: kind + ".UnmarshalJSON", Kind: "reader-panic", Cause: docCause(kind, et, []byte(rc.Bytes)), Detail: gr.Msg, Type: rc.Type}}
	case "ok":
		okk, _ := guard(func() error {
			if !wfBack(kind, back) {
				return fmt.Errorf("not wf")
			}
			return nil
		})
		if okk != "ok" {
			return []Failure{{Site: kind + ".UnmarshalJSON", Kind: "corrupt-object", Cause: docCause(kind, et, []byte(rc.Bytes)),
				Detail: "reader accepted the document and returned an object violating the container invariants", Type: rc.Type}}
		}
	}
	return nil
}

// ---------------------------------------------------------------- constant scalars (fatal stack overflow: run in a child process)

// MarshalJSON of a constant type once recursed without end (fatal stack overflow, not recoverable): the first
// case of every type runs in a child process; once a child has returned, that type is marshalled in-process
var constReturned = map[string]bool{}
var constCrashed = map[string]string{} // a fatal crash is a property of the type's method, not of the value: run it once (~3 s each)

func constWrite(rc Recipe, et EType) (string, error) {
	if constReturned[et.Name] {
		var data []byte
		k, msg := guard(func() error {
			var err error
			data, err = json.Marshal(build(rc, et))
			return err
		})
		switch k {
		case "ok":
			return "OK " + string(data), nil
		case "err":
			return "ERR " + msg, nil
		}
		return "PANIC " + msg, nil
	}
	if out, ok := constCrashed[et.Name]; ok {
		return out, fmt.Errorf("child died")
	}
	b, _ := json.Marshal(rc)
	cmd := exec.Command(os.Args[0], "--extra", "constchild:"+string(b))
	out, err := cmd.CombinedOutput()
	if err == nil {
		constReturned[et.Name] = true
	} else {
		constCrashed[et.Name] = string(out)
		if len(out) > 4000 {
			constCrashed[et.Name] = string(out[:4000])
		}
	}
	return string(out), err
}

func runConst(rc Recipe, et EType) (res Result) {
	s, err := constWrite(rc, et)
	gw := Outcome{Kind: "crash", Msg: "child died"}
	var data []byte
	switch {
	case err == nil && strings.HasPrefix(s, "OK "):
		data = []byte(strings.TrimSpace(s[3:]))
		term, ok := decDoc("plain", et, data)
		if ok {
			gw = Outcome{Kind: "ok", Term: term}
		} else {
			gw = Outcome{Kind: "crash", Msg: "writer output not decodable: " + string(data)}
		}
	case err == nil && strings.HasPrefix(s, "ERR"):
		gw = Outcome{Kind: "err", Msg: s}
	case err == nil && strings.HasPrefix(s, "PANIC"):
		gw = Outcome{Kind: "panic", Msg: s}
	case strings.Contains(s, "stack overflow"):
		gw = Outcome{Kind: "crash", Msg: "fatal error: stack overflow"}
	}
	obj := build(rc, et)
	// there is no UnmarshalJSON for the constant types: the number is read back into the mutable scalar
	// of the same number type
	gr := Outcome{Kind: "err"}
	var back interface{}
	if gw.Kind == "ok" {
		target, get := freshTarget("plain", et)
		rk, rmsg := guard(func() error { return json.Unmarshal(data, target) })
		gr = Outcome{Kind: rk, Msg: rmsg}
		if rk == "ok" {
			back = get()
			gr.Term = stateCoq("plain", et, back, false)
		}
	}
	res.Coq = fmt.Sprintf("RtConst %s %s %s", stateCoq("const", et, obj, true), gw.Coq(), gr.Coq())
	res.Key = "const/" + rc.Type + "/" + gw.Kind + "/" + gr.Kind + fmt.Sprintf("/%d", len(data))
	res.Nontriv = gw.Kind == "ok" && gr.Kind == "ok"
	res.Hist = []string{"rt/const/" + rc.Type, "write:" + gw.Kind}
	fail := func(site, k, detail string) {
		res.Failures = []Failure{{Site: "const." + site, Kind: k, Detail: detail, Type: rc.Type}}
	}
	finite := rc.Els[0].P.Finite()
	switch {
	case gw.Kind != "ok":
		if finite || gw.Kind != "err" {
			fail("MarshalJSON", "write-"+gw.Kind, gw.Msg)
		}
	case gr.Kind != "ok":
		res.Hist = append(res.Hist, "read:"+gr.Kind)
		fail("UnmarshalJSON", "roundtrip-"+gr.Kind, gr.Msg)
	default:
		res.Hist = append(res.Hist, "read:ok")
		if d := cmpScalar(et, obj.(ad.ConstScalar), back.(ad.ConstScalar), true); d != "" {
			fail("UnmarshalJSON", "roundtrip-mismatch", d)
		}
	}
	return res
}

func constChild(arg string) {
	var rc Recipe
	if err := json.Unmarshal([]byte(arg), &rc); err != nil {
		fmt.Println("BAD", err)
		os.Exit(3)
	}
	et := etypeByName(rc.Type)
	obj := build(rc, et)
	var data []byte
	k, msg := guard(func() error {
		var err error
		data, err = json.Marshal(obj)
		return err
	})
	switch k {
	case "ok":
		fmt.Println("OK " + string(data))
	case "err":
		fmt.Println("ERR " + msg)
	default:
		fmt.Println("PANIC " + msg)
	}
}

// ---------------------------------------------------------------- shrinking

func sameFailure(fs []Failure, f Failure) bool {
	for _, g := range fs {
		if g.Site == f.Site && g.Kind == f.Kind && g.Cause == f.Cause {
			return true
		}
	}
	return false
}

// generic JSON-tree shrinking of a malformed document
func shrinkJSON(v interface{}) []interface{} {
	var out []interface{}
	switch x := v.(type) {
	case []interface{}:
		for i := range x {
			y := append(append([]interface{}{}, x[:i]...), x[i+1:]...)
			out = append(out, y)
		}
		for i := range x {
			for _, s := range shrinkJSON(x[i]) {
				y := append([]interface{}{}, x...)
				y[i] = s
				out = append(out, y)
			}
		}
	case map[string]interface{}:
		keys := make([]string, 0, len(x))
		for k := range x {
			keys = append(keys, k)
		}
		sort.Strings(keys)
		for _, k := range keys {
			for _, s := range shrinkJSON(x[k]) {
				y := map[string]interface{}{}
				for kk, vv := range x {
					y[kk] = vv
				}
				y[k] = s
				out = append(out, y)
			}
		}
	case json.Number:
		for _, c := range []string{"0", "1", "-1", "2"} {
			if string(x) != c && len(string(x)) >= len(c) && (len(string(x)) > len(c) || string(x) > c) {
				out = append(out, json.Number(c))
			}
		}
	}
	return out
}

func shrinkRecipe(rc Recipe, f Failure) Recipe {
	still := func(c Recipe) bool {
		k, _ := guard(func() error {
			if !sameFailure(runRecipe(c).Failures, f) {
				return fmt.Errorf("gone")
			}
			return nil
		})
		return k == "ok"
	}
	if rc.Recv != nil || rc.Recv2 != nil {
		rc = shrinkRecv(rc, still)
	}
	if rc.File != "" {
		return shrinkTableFile(rc, still)
	}
	if rc.Cfg != nil && strings.HasPrefix(rc.Kind, "vcfg") {
		return shrinkVCfg(rc, still)
	}
	if rc.Cfg != nil {
		return shrinkCfg(rc, still)
	}
	if rc.Bytes != "" {
		for round := 0; round < 200; round++ {
			dec := json.NewDecoder(strings.NewReader(rc.Bytes))
			dec.UseNumber()
			var v interface{}
			if dec.Decode(&v) != nil {
				return rc
			}
			progressed := false
			for _, cand := range shrinkJSON(v) {
				b, err := json.Marshal(cand)
				if err != nil || len(b) >= len(rc.Bytes) && string(b) >= rc.Bytes {
					continue
				}
				c := rc
				c.Bytes = string(b)
				if still(c) {
					rc = c
					progressed = true
					break
				}
			}
			if !progressed {
				break
			}
		}
		return rc
	}
	// round-trip recipes: drop view operations, drop entries, simplify elements
	for round := 0; round < 200; round++ {
		progressed := false
		var cands []Recipe
		if rc.Kind == "dm" || rc.Kind == "t-dm" || rc.Kind == "t-sm" {
			for i := range rc.Ops {
				c := rc
				c.Ops = append(append([]Op{}, rc.Ops[:i]...), rc.Ops[i+1:]...)
				if validOps(c) {
					cands = append(cands, c)
				}
			}
		}
		for i := range rc.Ents {
			c := rc
			c.Ents = append(append([]Ent{}, rc.Ents[:i]...), rc.Ents[i+1:]...)
			cands = append(cands, c)
		}
		if rc.Kind == "dv" || rc.Kind == "t-dv" {
			for i := range rc.Els {
				c := rc
				c.Els = append(append([]Elem{}, rc.Els[:i]...), rc.Els[i+1:]...)
				cands = append(cands, c)
			}
		}
		for i := range rc.Els { // integer elements: towards 1
			if e := rc.Els[i]; e.R == nil && e.P.Int && e.P.Z != 1 && e.P.Z != 0 {
				c := rc
				c.Els = append([]Elem{}, rc.Els...)
				c.Els[i] = Elem{P: El{Int: true, Z: 1}}
				cands = append(cands, c)
			}
		}
		one := El{F: 1}
		for i := range rc.Els {
			e := rc.Els[i]
			if e.R == nil && !e.P.Int && !e.P.Same(one) && !e.P.Same(El{}) {
				c := rc
				c.Els = append([]Elem{}, rc.Els...)
				c.Els[i] = Elem{P: one}
				cands = append(cands, c)
			}
		}
		for _, c := range cands {
			if still(c) {
				rc = c
				progressed = true
				break
			}
		}
		if !progressed {
			break
		}
	}
	return rc
}

func validOps(rc Recipe) bool {
	rows, cols := rc.R0, rc.C0
	for _, o := range rc.Ops {
		if o.T || o.Tip {
			rows, cols = cols, rows
			continue
		}
		if o.Rf < 0 || o.Rf > o.Rt || o.Rt > rows || o.Cf < 0 || o.Cf > o.Ct || o.Ct > cols {
			return false
		}
		rows, cols = o.Rt-o.Rf, o.Ct-o.Cf
	}
	return true
}
