// go2coq_c17 — derives the access lists of the thread-pool job closures of pbenner/autodiff
// mechanically (go/parser + go/ast only, no type checker) and prints them as Coq data
// (Sites_gen.v).  For every function literal handed to AddJob / AddRangeJob / RangeJob / Job
// under statistics/ and algorithm/ it lists every assignment and every method call whose target
// is not a variable declared inside the closure, as a path
//     root . field [index] . method(...)
// where each index is classified: the job's own index (the range index of the closure, or a
// per-iteration copy declared in the loop that queues the job), a thread id obtained from
// GetThreadId() of the closure's OWN pool handle or of some OTHER handle, or anything else.
// Calls to methods declared in the same package (on the enclosing receiver or with a unique
// name) are followed with the arguments substituted (depth <= 4), so the accesses made by
// baumWelchThread through `tmp`, or by NewObservation through `id := p.GetThreadId()`, appear
// with the caller's classification.  Every pool handle passed on to a callee is recorded too.
package main

import (
	"encoding/json"
	"flag"
	"fmt"
	"go/ast"
	"go/parser"
	"go/token"
	"os"
	"path/filepath"
	"sort"
	"strings"
)

// ---------------------------------------------------------------- symbolic values

type idxClass int

const (
	iAny idxClass = iota
	iJob
	iTidOwn
	iTidForeign
)

type val struct {
	kind   string // "path" | "handle" | "job" | "tid" | "fresh" | "any"
	root   string
	local  bool // the root object was created inside the closure
	elems  []string
	idx    []idxClass
	own    bool // handle / tid: the closure's own pool handle
}

func fresh() val { return val{kind: "fresh", local: true} }
func anyv() val  { return val{kind: "any"} }

func (v val) String() string {
	if v.kind != "path" {
		return v.kind
	}
	return v.root + strings.Join(v.elems, "")
}

func (v val) extend(elem string, ix ...idxClass) val {
	r := val{kind: "path", root: v.root, local: v.local}
	r.elems = append(append([]string{}, v.elems...), elem)
	r.idx = append(append([]idxClass{}, v.idx...), ix...)
	return r
}

type access struct {
	Write  bool   `json:"write"` // assignment (true) or call (false)
	Path   string `json:"path"`
	Root   string `json:"root"`
	Local  bool   `json:"local"`
	Idx    []idxClass `json:"idx"`
	Method string `json:"method"`
	Handle string `json:"handle"` // "", "own", "foreign"
	Pos    string `json:"pos"`
	Via    string `json:"via"`
	Followed bool `json:"followed"` // a call whose body (same package) was analysed in place
}

type site struct {
	Name string   `json:"name"`
	File string   `json:"file"`
	Func string   `json:"func"`
	Kind string   `json:"kind"`
	Line int      `json:"line"`
	Acc  []access `json:"accesses"`
}

// ---------------------------------------------------------------- package index

type pkgInfo struct {
	dir     string
	files   []*ast.File
	methods map[string][]*ast.FuncDecl // by method name
}

func recvType(fd *ast.FuncDecl) string {
	if fd.Recv == nil || len(fd.Recv.List) == 0 {
		return ""
	}
	t := fd.Recv.List[0].Type
	if s, ok := t.(*ast.StarExpr); ok {
		t = s.X
	}
	if id, ok := t.(*ast.Ident); ok {
		return id.Name
	}
	return ""
}
func recvName(fd *ast.FuncDecl) string {
	if fd.Recv == nil || len(fd.Recv.List) == 0 || len(fd.Recv.List[0].Names) == 0 {
		return ""
	}
	return fd.Recv.List[0].Names[0].Name
}

// ---------------------------------------------------------------- analysis of one closure

type env struct {
	vars   map[string]val // by name, innermost wins (a := shadowing re-binds the name from then on)
	parent *env
}

func (e *env) lookup(n string) (val, bool) {
	for c := e; c != nil; c = c.parent {
		if v, ok := c.vars[n]; ok {
			return v, true
		}
	}
	return val{}, false
}
func (e *env) bind(n string, v val) { e.vars[n] = v }
func child(e *env) *env          { return &env{vars: map[string]val{}, parent: e} }

type analyzer struct {
	fset     *token.FileSet
	pkg      *pkgInfo
	imports  map[string]bool
	loopVars map[string]bool // captured per-iteration copies (declared in the loop that queues the job)
	acc      []access
	encl     *ast.FuncDecl
	depth    int
	via      []string
	seen     map[string]bool
}

var accessors = map[string]bool{"At": true, "AT": true, "ConstAt": true, "Float64At": true, "Slice": true, "ConstSlice": true, "Row": true, "ConstRow": true, "Col": true, "ConstCol": true}

func (a *analyzer) classify(v val) idxClass {
	switch v.kind {
	case "job":
		return iJob
	case "path":
		// a value obtained from the job index by calls / accessors (record.MapIndex(i + r/2))
		onlyJob := len(v.idx) > 0
		for _, c := range v.idx {
			if c != iJob {
				onlyJob = false
			}
		}
		if onlyJob {
			return iJob
		}
	case "tid":
		if v.own {
			return iTidOwn
		}
		return iTidForeign
	}
	return iAny
}

func idxStr(c idxClass) string {
	switch c {
	case iJob:
		return "job"
	case iTidOwn:
		return "tid"
	case iTidForeign:
		return "tid(foreign)"
	}
	return "*"
}

func (a *analyzer) record(write bool, v val, method string, handle string, pos token.Pos) {
	a.recordF(write, v, method, handle, pos, false)
}

func (a *analyzer) recordF(write bool, v val, method string, handle string, pos token.Pos, followed bool) {
	if v.kind != "path" {
		return
	}
	p := a.fset.Position(pos)
	ac := access{Write: write, Path: v.String(), Root: v.root, Local: v.local, Idx: v.idx, Method: method, Handle: handle,
		Pos: fmt.Sprintf("%s:%d", filepath.Base(p.Filename), p.Line), Via: strings.Join(a.via, ">"), Followed: followed}
	key := fmt.Sprintf("%v|%s|%s|%s|%v|%v|%v", ac.Write, ac.Path, ac.Method, ac.Handle, ac.Idx, ac.Local, ac.Followed)
	if a.seen[key] {
		return
	}
	a.seen[key] = true
	a.acc = append(a.acc, ac)
}

func (a *analyzer) eval(e ast.Expr, en *env) val {
	switch x := e.(type) {
	case nil:
		return anyv()
	case *ast.Ident:
		if x.Name == "nil" || x.Name == "true" || x.Name == "false" || x.Name == "_" {
			return fresh()
		}
		if v, ok := en.lookup(x.Name); ok {
			return v
		}
		if a.imports[x.Name] {
			return anyv()
		}
		if a.loopVars[x.Name] {
			return val{kind: "job"}
		}
		return val{kind: "path", root: x.Name}
	case *ast.ParenExpr:
		return a.eval(x.X, en)
	case *ast.StarExpr:
		return a.eval(x.X, en)
	case *ast.UnaryExpr:
		v := a.eval(x.X, en)
		if x.Op == token.AND {
			return v
		}
		return fresh()
	case *ast.BinaryExpr:
		l := a.eval(x.X, en)
		r := a.eval(x.Y, en)
		if (x.Op == token.ADD || x.Op == token.SUB) && (l.kind == "job" || r.kind == "job") && l.kind != "tid" && r.kind != "tid" {
			return val{kind: "job"} // the job index shifted by a job-independent amount
		}
		return fresh()
	case *ast.BasicLit, *ast.FuncLit, *ast.CompositeLit:
		if fl, ok := x.(*ast.FuncLit); ok {
			// a nested function literal runs (if at all) inside the job: analyse it in place
			c := child(en)
			for _, p := range fl.Type.Params.List {
				for _, nm := range p.Names {
					c.bind(nm.Name, fresh())
				}
			}
			a.block(fl.Body, c)
		}
		return fresh()
	case *ast.SelectorExpr:
		v := a.eval(x.X, en)
		if v.kind == "path" {
			return v.extend("." + x.Sel.Name)
		}
		return anyv()
	case *ast.IndexExpr:
		v := a.eval(x.X, en)
		i := a.eval(x.Index, en)
		if v.kind == "path" {
			c := a.classify(i)
			return v.extend("["+idxStr(c)+"]", c)
		}
		return anyv()
	case *ast.SliceExpr:
		v := a.eval(x.X, en)
		a.eval(x.Low, en)
		a.eval(x.High, en)
		if v.kind == "path" {
			return v.extend("[:]", iAny)
		}
		return anyv()
	case *ast.TypeAssertExpr:
		return a.eval(x.X, en)
	case *ast.CallExpr:
		return a.call(x, en)
	}
	return anyv()
}

func (a *analyzer) call(c *ast.CallExpr, en *env) val {
	args := make([]val, len(c.Args))
	handle := ""
	for i, ar := range c.Args {
		args[i] = a.eval(ar, en)
		if args[i].kind == "handle" {
			if args[i].own {
				if handle == "" {
					handle = "own"
				}
			} else {
				handle = "foreign"
			}
		}
	}
	switch f := c.Fun.(type) {
	case *ast.SelectorExpr:
		recv := a.eval(f.X, en)
		name := f.Sel.Name
		if recv.kind == "handle" {
			if name == "GetThreadId" {
				return val{kind: "tid", own: recv.own}
			}
			// nested use of a pool handle (NewJobGroup, AddJob, Wait, NumberOfThreads ...)
			h := "foreign"
			if recv.own {
				h = "own"
			}
			a.record(false, val{kind: "path", root: "<pool handle>"}, name, h, c.Pos())
			return fresh()
		}
		if recv.kind != "path" {
			return fresh()
		}
		if accessors[name] {
			cs := []idxClass{}
			strs := []string{}
			best := iAny
			for _, v := range args {
				k := a.classify(v)
				if k != iAny {
					best = k
				}
				strs = append(strs, idxStr(k))
			}
			_ = cs
			return recv.extend("."+name+"("+strings.Join(strs, ",")+")", best)
		}
		// a method call on a non-local object; follow it when the callee is known
		if fd := a.resolve(f, name); fd != nil && a.depth < 4 && fd.Body != nil {
			a.recordF(false, recv, name, handle, c.Pos(), true)
			a.inline(fd, recv, args, c)
		} else {
			a.record(false, recv, name, handle, c.Pos())
		}
		strs := []string{}
		best := []idxClass{}
		for _, v := range args {
			k := a.classify(v)
			strs = append(strs, idxStr(k))
			if k != iAny {
				best = append(best, k)
			}
		}
		return recv.extend("."+name+"("+strings.Join(strs, ",")+")", best...)
	case *ast.Ident:
		if v, ok := en.lookup(f.Name); ok && v.kind == "path" {
			a.record(false, v, "()", handle, c.Pos())
			return fresh()
		}
		if _, ok := en.lookup(f.Name); !ok && !a.imports[f.Name] {
			// builtin, conversion, package-level function or a captured function value
			if isBuiltin(f.Name) {
				return fresh()
			}
			if fd := a.resolveFunc(f.Name); fd != nil && a.depth < 4 && fd.Body != nil {
				a.inline(fd, val{}, args, c)
				return fresh()
			}
			if isLower(f.Name) {
				a.record(false, val{kind: "path", root: f.Name}, "()", handle, c.Pos())
			} else if handle != "" {
				a.record(false, val{kind: "path", root: f.Name}, "()", handle, c.Pos())
			}
		}
		return fresh()
	}
	return fresh()
}

func isLower(s string) bool { return s != "" && s[0] >= 'a' && s[0] <= 'z' }
func isBuiltin(s string) bool {
	switch s {
	case "len", "cap", "append", "make", "new", "copy", "panic", "float64", "int", "delete", "string", "int64", "bool", "recover", "print", "println", "min", "max":
		return true
	}
	return false
}

func (a *analyzer) resolve(f *ast.SelectorExpr, name string) *ast.FuncDecl {
	cands := a.pkg.methods[name]
	if len(cands) == 0 {
		return nil
	}
	// the receiver of the enclosing method: type known
	if id, ok := f.X.(*ast.Ident); ok && a.encl != nil && id.Name == recvName(a.encl) && len(a.via) == 0 {
		for _, fd := range cands {
			if recvType(fd) == recvType(a.encl) {
				return fd
			}
		}
	}
	// a unique method name: private helpers anywhere, exported ones only below the enclosing receiver
	if len(cands) == 1 && cands[0].Recv != nil {
		if isLower(name) {
			return cands[0]
		}
		if a.encl != nil && recvName(a.encl) != "" && rootOf(f.X) == recvName(a.encl) && len(a.via) == 0 {
			return cands[0]
		}
	}
	return nil
}

func rootOf(e ast.Expr) string {
	for {
		switch x := e.(type) {
		case *ast.Ident:
			return x.Name
		case *ast.SelectorExpr:
			e = x.X
		case *ast.IndexExpr:
			e = x.X
		case *ast.CallExpr:
			e = x.Fun
		case *ast.ParenExpr:
			e = x.X
		case *ast.StarExpr:
			e = x.X
		default:
			return ""
		}
	}
}

func (a *analyzer) resolveFunc(name string) *ast.FuncDecl {
	for _, fd := range a.pkg.methods[name] {
		if fd.Recv == nil {
			return fd
		}
	}
	return nil
}

func (a *analyzer) inline(fd *ast.FuncDecl, recv val, args []val, c *ast.CallExpr) {
	en := &env{vars: map[string]val{}}
	if rn := recvName(fd); rn != "" {
		en.bind(rn, recv)
	}
	i := 0
	for _, fl := range fd.Type.Params.List {
		for _, n := range fl.Names {
			if i < len(args) {
				v := args[i]
				if v.kind == "any" {
					v = fresh()
				}
				en.bind(n.Name, v)
			} else {
				en.bind(n.Name, fresh())
			}
			i++
		}
	}
	if fd.Type.Results != nil {
		for _, fl := range fd.Type.Results.List {
			for _, n := range fl.Names {
				en.bind(n.Name, fresh())
			}
		}
	}
	a.depth++
	a.via = append(a.via, fd.Name.Name)
	saveLoop := a.loopVars
	a.loopVars = map[string]bool{}
	a.block(fd.Body, en)
	a.loopVars = saveLoop
	a.via = a.via[:len(a.via)-1]
	a.depth--
}

func (a *analyzer) block(b *ast.BlockStmt, en *env) {
	if b == nil {
		return
	}
	for _, s := range b.List {
		a.stmt(s, en)
	}
}

func (a *analyzer) assignTarget(lhs ast.Expr, en *env, pos token.Pos) {
	switch x := lhs.(type) {
	case *ast.Ident:
		if x.Name == "_" {
			return
		}
		if _, ok := en.lookup(x.Name); ok {
			return // a variable of the closure (or a parameter of a followed callee)
		}
		a.record(true, val{kind: "path", root: x.Name}, "=", "", pos)
	default:
		v := a.eval(lhs, en)
		if v.kind == "path" {
			a.record(true, v, "=", "", pos)
		}
	}
}

func (a *analyzer) stmt(s ast.Stmt, en *env) {
	switch x := s.(type) {
	case *ast.AssignStmt:
		rv := make([]val, len(x.Rhs))
		for i, r := range x.Rhs {
			rv[i] = a.eval(r, en)
		}
		if x.Tok == token.DEFINE {
			for i, l := range x.Lhs {
				id, ok := l.(*ast.Ident)
				if !ok {
					continue
				}
				v := fresh()
				if len(x.Lhs) == len(x.Rhs) {
					v = rv[i]
					if v.kind == "any" {
						v = fresh()
					}
				}
				en.bind(id.Name, v)
			}
			return
		}
		for i, l := range x.Lhs {
			// `*alias = ...` / `alias.field = ...` resolve through eval; a plain local is skipped
			if id, ok := l.(*ast.Ident); ok {
				if v, ok2 := en.lookup(id.Name); ok2 {
					_ = v
					if x.Tok == token.ASSIGN && len(x.Lhs) == len(x.Rhs) {
						nv := rv[i]
						if nv.kind == "any" {
							nv = fresh()
						}
						// re-binding a local: keep value kinds that matter (handles, thread ids)
						if nv.kind == "handle" || nv.kind == "tid" || nv.kind == "job" {
							en.rebind(id.Name, nv)
						}
					}
					continue
				}
			}
			a.assignTarget(l, en, x.Pos())
		}
	case *ast.IncDecStmt:
		a.assignTarget(x.X, en, x.Pos())
	case *ast.ExprStmt:
		a.eval(x.X, en)
	case *ast.DeclStmt:
		if gd, ok := x.Decl.(*ast.GenDecl); ok {
			for _, sp := range gd.Specs {
				if vs, ok := sp.(*ast.ValueSpec); ok {
					for i, n := range vs.Names {
						v := fresh()
						if i < len(vs.Values) {
							v = a.eval(vs.Values[i], en)
							if v.kind == "any" {
								v = fresh()
							}
						}
						en.bind(n.Name, v)
					}
				}
			}
		}
	case *ast.IfStmt:
		c := child(en)
		if x.Init != nil {
			a.stmt(x.Init, c)
		}
		a.eval(x.Cond, c)
		a.block(x.Body, child(c))
		if x.Else != nil {
			a.stmt(x.Else, child(c))
		}
	case *ast.ForStmt:
		c := child(en)
		if x.Init != nil {
			a.stmt(x.Init, c)
		}
		if x.Cond != nil {
			a.eval(x.Cond, c)
		}
		if x.Post != nil {
			a.stmt(x.Post, c)
		}
		a.block(x.Body, child(c))
	case *ast.RangeStmt:
		c := child(en)
		rv := a.eval(x.X, en)
		if id, ok := x.Key.(*ast.Ident); ok && id.Name != "_" {
			c.bind(id.Name, fresh())
		}
		if id, ok := x.Value.(*ast.Ident); ok && id.Name != "_" {
			if rv.kind == "path" {
				c.bind(id.Name, rv.extend("[*]", iAny))
			} else {
				c.bind(id.Name, fresh())
			}
		}
		a.block(x.Body, child(c))
	case *ast.BlockStmt:
		a.block(x, child(en))
	case *ast.ReturnStmt:
		for _, r := range x.Results {
			a.eval(r, en)
		}
	case *ast.SwitchStmt:
		c := child(en)
		if x.Init != nil {
			a.stmt(x.Init, c)
		}
		if x.Tag != nil {
			a.eval(x.Tag, c)
		}
		for _, cc := range x.Body.List {
			if cl, ok := cc.(*ast.CaseClause); ok {
				for _, e := range cl.List {
					a.eval(e, c)
				}
				cb := child(c)
				for _, st := range cl.Body {
					a.stmt(st, cb)
				}
			}
		}
	case *ast.TypeSwitchStmt:
		c := child(en)
		if x.Init != nil {
			a.stmt(x.Init, c)
		}
		if as, ok := x.Assign.(*ast.AssignStmt); ok && len(as.Lhs) == 1 && len(as.Rhs) == 1 {
			if id, ok := as.Lhs[0].(*ast.Ident); ok {
				c.bind(id.Name, a.eval(as.Rhs[0], c))
			}
		}
		for _, cc := range x.Body.List {
			if cl, ok := cc.(*ast.CaseClause); ok {
				cb := child(c)
				for _, st := range cl.Body {
					a.stmt(st, cb)
				}
			}
		}
	case *ast.DeferStmt:
		a.eval(x.Call, en)
	case *ast.GoStmt:
		a.record(false, val{kind: "path", root: "<go statement>"}, "go", "", x.Pos())
		a.eval(x.Call, en)
	case *ast.LabeledStmt:
		a.stmt(x.Stmt, en)
	}
}

func (e *env) rebind(n string, v val) {
	for c := e; c != nil; c = c.parent {
		if _, ok := c.vars[n]; ok {
			c.vars[n] = v
			return
		}
	}
}

// ---------------------------------------------------------------- driver

var jobFuncs = map[string]int{"AddJob": 1, "AddRangeJob": 3, "AddRangeJob_": 3, "RangeJob": 2, "RangeJob_": 2, "Job": 0}

func isPoolType(t ast.Expr) bool {
	if id, ok := t.(*ast.Ident); ok {
		return id.Name == "ThreadPool"
	}
	if se, ok := t.(*ast.SelectorExpr); ok {
		return se.Sel.Name == "ThreadPool"
	}
	return false
}

// names declared (:= or var or range/for init) lexically inside the loops that enclose the call, before the call
func loopLocals(stack []ast.Node, call *ast.CallExpr) map[string]bool {
	out := map[string]bool{}
	for _, n := range stack {
		var body *ast.BlockStmt
		switch l := n.(type) {
		case *ast.ForStmt:
			body = l.Body
		case *ast.RangeStmt:
			body = l.Body
			if id, ok := l.Key.(*ast.Ident); ok {
				_ = id // a shared range variable (Go < 1.22): NOT a per-iteration copy
			}
		}
		if body == nil {
			continue
		}
		ast.Inspect(body, func(m ast.Node) bool {
			if m == nil {
				return false
			}
			if m.Pos() >= call.Pos() {
				return false
			}
			if fl, ok := m.(*ast.FuncLit); ok && fl.Pos() < call.Pos() && fl.End() > call.Pos() {
				return true
			}
			if as, ok := m.(*ast.AssignStmt); ok && as.Tok == token.DEFINE {
				for _, l := range as.Lhs {
					if id, ok := l.(*ast.Ident); ok {
						out[id.Name] = true
					}
				}
			}
			return true
		})
	}
	return out
}

func main() {
	repo := flag.String("repo", "/repo", "path of the library")
	outp := flag.String("out", "Sites_gen.v", "Coq output")
	rep := flag.String("report", "", "JSON report")
	scratchOut := flag.String("scratch", "", "Coq output of the scratch pass (Scratch_gen.v)")
	errflowOut := flag.String("errflow", "", "Coq output of the error-flow pass (ErrFlow_gen.v)")
	accumOut := flag.String("accum", "", "Coq output of the accumulator pass (Accum_gen.v)")
	flag.Parse()
	fset := token.NewFileSet()
	var dirs []string
	for _, top := range []string{"statistics", "algorithm"} {
		filepath.Walk(filepath.Join(*repo, top), func(p string, info os.FileInfo, err error) error {
			if err == nil && info.IsDir() {
				dirs = append(dirs, p)
			}
			return nil
		})
	}
	sort.Strings(dirs)
	var sites []site
	parseErrors := []string{}
	for _, d := range dirs {
		ents, _ := os.ReadDir(d)
		pk := &pkgInfo{dir: d, methods: map[string][]*ast.FuncDecl{}}
		for _, e := range ents {
			n := e.Name()
			if e.IsDir() || !strings.HasSuffix(n, ".go") || strings.HasSuffix(n, "_test.go") || strings.HasPrefix(n, "verif_") {
				continue
			}
			f, err := parser.ParseFile(fset, filepath.Join(d, n), nil, 0)
			if err != nil {
				parseErrors = append(parseErrors, err.Error())
				continue
			}
			pk.files = append(pk.files, f)
			for _, dc := range f.Decls {
				if fd, ok := dc.(*ast.FuncDecl); ok {
					pk.methods[fd.Name.Name] = append(pk.methods[fd.Name.Name], fd)
				}
			}
		}
		for _, f := range pk.files {
			imports := map[string]bool{}
			for _, im := range f.Imports {
				p := strings.Trim(im.Path.Value, "\"")
				nm := filepath.Base(p)
				if im.Name != nil {
					nm = im.Name.Name
				}
				imports[nm] = true
			}
			fname, _ := filepath.Rel(*repo, fset.Position(f.Pos()).Filename)
			for _, dc := range f.Decls {
				fd, ok := dc.(*ast.FuncDecl)
				if !ok || fd.Body == nil {
					continue
				}
				count := 0
				var stack []ast.Node
				ast.Inspect(fd.Body, func(n ast.Node) bool {
					if n == nil {
						stack = stack[:len(stack)-1]
						return false
					}
					stack = append(stack, n)
					c, ok := n.(*ast.CallExpr)
					if !ok {
						return true
					}
					se, ok := c.Fun.(*ast.SelectorExpr)
					if !ok {
						return true
					}
					pos, isJob := jobFuncs[se.Sel.Name]
					if !isJob || len(c.Args) != pos+1 {
						return true
					}
					fl, ok := c.Args[pos].(*ast.FuncLit)
					if !ok {
						return true
					}
					count++
					a := &analyzer{fset: fset, pkg: pk, imports: imports, encl: fd, seen: map[string]bool{}}
					a.loopVars = loopLocals(stack[:len(stack)-1], c)
					en := &env{vars: map[string]val{}}
					first := true
					for _, p := range fl.Type.Params.List {
						for _, nm := range p.Names {
							switch {
							case isPoolType(p.Type):
								en.bind(nm.Name, val{kind: "handle", own: true})
							case first && strings.Contains(se.Sel.Name, "Range"):
								en.bind(nm.Name, val{kind: "job"})
							default:
								en.bind(nm.Name, fresh())
							}
							first = false
						}
					}
					// every OTHER ThreadPool-typed name in scope is a foreign handle: parameters of the enclosing function
					for _, p := range fd.Type.Params.List {
						if isPoolType(p.Type) {
							for _, nm := range p.Names {
								if _, ok := en.lookup(nm.Name); !ok {
									en.bind(nm.Name, val{kind: "handle", own: false})
								}
							}
						}
					}
					// the handle the job is queued on, when it is a field (obj.Pool)
					a.block(fl.Body, child(en))
					fnm := fd.Name.Name
					if rt := recvType(fd); rt != "" {
						fnm = rt + "." + fnm
					}
					sites = append(sites, site{Name: fmt.Sprintf("%s:%s#%d", fname, fnm, count), File: fname, Func: fnm, Kind: se.Sel.Name,
						Line: fset.Position(c.Pos()).Line, Acc: a.acc})
					return true
				})
			}
		}
	}
	sort.Slice(sites, func(i, j int) bool { return sites[i].Name < sites[j].Name })
	var sb strings.Builder
	sb.WriteString("(* GENERATED by /verif/go2coq_c17 from the job closures of the library - do not edit.\n")
	sb.WriteString("   One entry per function literal handed to AddJob / AddRangeJob / RangeJob / Job. *)\n")
	sb.WriteString("From Coq Require Import List String Bool.\nFrom ADV Require Import C17.SitesGenDefs.\nImport ListNotations.\nOpen Scope string_scope.\n\n")
	sb.WriteString("Definition gen_sites : list gsite := [\n")
	for i, s := range sites {
		sb.WriteString(fmt.Sprintf("  mkGSite %q %q [\n", s.Name, s.Kind))
		for j, ac := range s.Acc {
			ix := make([]string, len(ac.Idx))
			for k, c := range ac.Idx {
				ix[k] = []string{"IAny", "IJob", "(ITid true)", "(ITid false)"}[c]
			}
			h := map[string]string{"": "HNone", "own": "HOwn", "foreign": "HForeign"}[ac.Handle]
			sep := ";"
			if j == len(s.Acc)-1 {
				sep = ""
			}
			bs := map[bool]string{true: "true", false: "false"}
			sb.WriteString(fmt.Sprintf("    mkGAcc %s %q %q %s [%s] %q %s %s%s   (* %s %s *)\n", bs[ac.Write],
				ac.Root, ac.Path, bs[ac.Local], strings.Join(ix, "; "), ac.Method, h, bs[ac.Followed], sep, strings.Split(ac.Pos, ":")[0], ac.Via))
		}
		sep := ";"
		if i == len(sites)-1 {
			sep = ""
		}
		sb.WriteString("  ]" + sep + "\n")
	}
	sb.WriteString("].\n")
	if err := os.WriteFile(*outp, []byte(sb.String()), 0644); err != nil {
		fmt.Fprintln(os.Stderr, err)
		os.Exit(2)
	}
	var scr []scratchRec
	var cfs []cloneFieldRec
	if *scratchOut != "" {
		var serrs []string
		scr, cfs, serrs = scratchPass(*repo)
		parseErrors = append(parseErrors, serrs...)
		if err := writeScratch(*scratchOut, scr, cfs); err != nil {
			fmt.Fprintln(os.Stderr, err)
			os.Exit(2)
		}
	}
	var escopes []errScope
	if *errflowOut != "" {
		var eerrs []string
		escopes, eerrs = errflowPass(*repo)
		parseErrors = append(parseErrors, eerrs...)
		if err := writeErrflow(*errflowOut, escopes); err != nil {
			fmt.Fprintln(os.Stderr, err)
			os.Exit(2)
		}
	}
	var aests []accEst
	if *accumOut != "" {
		var aerrs []string
		aests, aerrs = accumPass(*repo)
		parseErrors = append(parseErrors, aerrs...)
		if err := writeAccum(*accumOut, aests); err != nil {
			fmt.Fprintln(os.Stderr, err)
			os.Exit(2)
		}
	}
	if *rep != "" {
		n := 0
		for _, s := range sites {
			n += len(s.Acc)
		}
		b, _ := json.MarshalIndent(map[string]interface{}{"ok": len(parseErrors) == 0 && len(sites) > 0, "closures": len(sites), "accesses": n,
			"parse_errors": parseErrors, "sites": sites, "scratch_methods": len(scr), "clone_fields": cfs, "errscopes": escopes, "estimators": aests}, "", " ")
		os.WriteFile(*rep, b, 0644)
	}
	if len(parseErrors) > 0 {
		fmt.Fprintln(os.Stderr, strings.Join(parseErrors, "\n"))
		os.Exit(1)
	}
}
