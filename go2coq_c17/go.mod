module go2coq_c17

go 1.14
