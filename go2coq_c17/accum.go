// go2coq_c17, accumulator pass (round 6).
//
// The batch estimators of the library (every type with an Initialize(p ThreadPool) and a NewObservation(..., p ThreadPool)
// method under statistics/scalarEstimator, vectorEstimator, matrixEstimator) keep per-thread partial sums in slices that
// are allocated by Initialize with make(T, p.NumberOfThreads()), updated by NewObservation at index p.GetThreadId() and
// folded by a loop over the threads in some other method (updateEstimate, estimateParameters).  This pass prints, per type,
//   - every such field with its allocation length, its initial value and the loop that writes it,
//   - every update of the field in NewObservation (operator, first index),
//   - every statement that reads field[v] inside a `for v := a; v < b; v++` loop of another method (operator, transfer
//     function, start a, bound b, how the target was initialised before the loop)
// as Coq data (Accum_gen.v).  ModelAccum.v interprets the description (acc_run), ProofsAccum.v proves that every description
// accepted by gest_ok returns the monoid sum of the contributions for every pool size and schedule.
package main

import (
	"fmt"
	"go/ast"
	"go/parser"
	"go/token"
	"go/types"
	"os"
	"path/filepath"
	"sort"
	"strconv"
	"strings"
)

var accumPkgs = []string{"scalarEstimator", "vectorEstimator", "matrixEstimator"}

type accUpd struct {
	Op   string `json:"op"`  // plus | logadd | other
	Tid  bool   `json:"tid"` // first index is a variable bound to GetThreadId() of the method's own pool parameter
	Line int    `json:"line"`
	Text string `json:"text"`
}

type accMerge struct {
	Method   string `json:"method"`
	Target   string `json:"target"`
	Op       string `json:"op"`       // plus | logadd | other
	Transfer string `json:"transfer"` // id | logcount | other
	Start    int    `json:"start"`
	Bound    string `json:"bound"` // len | threads | other
	TInit    string `json:"tinit"` // neginf | zero | acc0 | other
	Line     int    `json:"line"`
}

type accField struct {
	Field      string     `json:"field"`
	Elem       string     `json:"elem"`
	LenThreads bool       `json:"len_threads"`
	Init       string     `json:"init"`     // neginf | zero | other
	InitAll    bool       `json:"init_all"` // the literal is stored by a loop over 0 .. p.NumberOfThreads() (or it is Go's zero value)
	Upd        []accUpd   `json:"updates"`
	Merge      []accMerge `json:"merges"`
}

type accEst struct {
	Pkg    string     `json:"pkg"`
	Type   string     `json:"type"`
	Pos    string     `json:"pos"`
	Fields []accField `json:"fields"`
}

func poolParam(fd *ast.FuncDecl) string {
	for _, p := range fd.Type.Params.List {
		if isPoolType(p.Type) {
			for _, nm := range p.Names {
				return nm.Name
			}
		}
	}
	return ""
}

func isCallOn(e ast.Expr, recv, method string) bool {
	c, ok := e.(*ast.CallExpr)
	if !ok {
		return false
	}
	se, ok := c.Fun.(*ast.SelectorExpr)
	if !ok || se.Sel.Name != method {
		return false
	}
	id, ok := se.X.(*ast.Ident)
	return ok && id.Name == recv
}

// obj.F[i]...[j]  ->  F, [i, ..., j]
func fieldIndex(e ast.Expr, recv string) (string, []ast.Expr) {
	var idx []ast.Expr
	for {
		switch x := e.(type) {
		case *ast.IndexExpr:
			idx = append([]ast.Expr{x.Index}, idx...)
			e = x.X
			continue
		case *ast.ParenExpr:
			e = x.X
			continue
		case *ast.SelectorExpr:
			if id, ok := x.X.(*ast.Ident); ok && id.Name == recv {
				return x.Sel.Name, idx
			}
		}
		return "", nil
	}
}

func litKind(e ast.Expr) string {
	switch x := e.(type) {
	case *ast.BasicLit:
		if v, err := strconv.ParseFloat(x.Value, 64); err == nil && v == 0 {
			return "zero"
		}
		return "other"
	case *ast.CallExpr:
		if se, ok := x.Fun.(*ast.SelectorExpr); ok && se.Sel.Name == "Inf" && len(x.Args) == 1 {
			if types.ExprString(x.Args[0]) == "-1" {
				return "neginf"
			}
			return "other"
		}
		if id, ok := x.Fun.(*ast.Ident); ok && id.Name == "make" {
			return "make"
		}
	}
	return "other"
}

func intLit(e ast.Expr) (int, bool) {
	if b, ok := e.(*ast.BasicLit); ok && b.Kind == token.INT {
		if v, err := strconv.Atoi(b.Value); err == nil {
			return v, true
		}
	}
	return 0, false
}

// for v := a; v < b; v++
func countingLoop(fs *ast.ForStmt) (v string, start ast.Expr, bound ast.Expr, ok bool) {
	as, ok1 := fs.Init.(*ast.AssignStmt)
	if !ok1 || as.Tok != token.DEFINE || len(as.Lhs) != 1 || len(as.Rhs) != 1 {
		return
	}
	id, ok1 := as.Lhs[0].(*ast.Ident)
	if !ok1 {
		return
	}
	be, ok1 := fs.Cond.(*ast.BinaryExpr)
	if !ok1 || be.Op != token.LSS {
		return
	}
	if l, ok2 := be.X.(*ast.Ident); !ok2 || l.Name != id.Name {
		return
	}
	inc, ok1 := fs.Post.(*ast.IncDecStmt)
	if !ok1 || inc.Tok != token.INC {
		return
	}
	if l, ok2 := inc.X.(*ast.Ident); !ok2 || l.Name != id.Name {
		return
	}
	return id.Name, as.Rhs[0], be.Y, true
}

func rootIdent(e ast.Expr) string {
	for {
		switch x := e.(type) {
		case *ast.IndexExpr:
			e = x.X
		case *ast.ParenExpr:
			e = x.X
		case *ast.Ident:
			return x.Name
		default:
			return ""
		}
	}
}

func mentionsField(n ast.Node, recv, field, loopVar string) bool {
	found := false
	ast.Inspect(n, func(m ast.Node) bool {
		if e, ok := m.(ast.Expr); ok {
			if f, idx := fieldIndex(e, recv); f == field && len(idx) > 0 {
				if id, ok := idx[0].(*ast.Ident); ok && id.Name == loopVar {
					found = true
				}
			}
		}
		return !found
	})
	return found
}

func accumPass(repo string) (ests []accEst, errs []string) {
	for _, pkg := range accumPkgs {
		dir := filepath.Join(repo, "statistics", pkg)
		files, _ := filepath.Glob(filepath.Join(dir, "*.go"))
		sort.Strings(files)
		fset := token.NewFileSet()
		methods := map[string]map[string]*ast.FuncDecl{}
		for _, f := range files {
			base := filepath.Base(f)
			if strings.HasSuffix(base, "_test.go") || strings.HasPrefix(base, "verif_") {
				continue
			}
			af, err := parser.ParseFile(fset, f, nil, 0)
			if err != nil {
				errs = append(errs, err.Error())
				continue
			}
			for _, d := range af.Decls {
				if fd, ok := d.(*ast.FuncDecl); ok && fd.Body != nil {
					if rt := recvType(fd); rt != "" {
						if methods[rt] == nil {
							methods[rt] = map[string]*ast.FuncDecl{}
						}
						methods[rt][fd.Name.Name] = fd
					}
				}
			}
		}
		tnames := []string{}
		for t, ms := range methods {
			if ms["Initialize"] != nil && ms["NewObservation"] != nil && poolParam(ms["Initialize"]) != "" {
				tnames = append(tnames, t)
			}
		}
		sort.Strings(tnames)
		for _, t := range tnames {
			ms := methods[t]
			ini := ms["Initialize"]
			p0 := fset.Position(ini.Pos())
			est := accEst{Pkg: pkg, Type: t, Pos: fmt.Sprintf("%s:%d", filepath.Base(p0.Filename), p0.Line)}
			fields := map[string]*accField{}
			order := []string{}
			// ---- Initialize: allocations and initial values
			recv, pn := recvName(ini), poolParam(ini)
			for _, s := range ini.Body.List {
				as, ok := s.(*ast.AssignStmt)
				if !ok || len(as.Lhs) != 1 || len(as.Rhs) != 1 {
					continue
				}
				f, idx := fieldIndex(as.Lhs[0], recv)
				c, ok := as.Rhs[0].(*ast.CallExpr)
				if f == "" || len(idx) != 0 || !ok {
					continue
				}
				if id, ok := c.Fun.(*ast.Ident); !ok || id.Name != "make" || len(c.Args) < 2 {
					continue
				}
				if _, isSlice := c.Args[0].(*ast.ArrayType); !isSlice {
					continue
				}
				if _, seen := fields[f]; !seen {
					order = append(order, f)
				}
				fields[f] = &accField{Field: f, Elem: strings.ReplaceAll(types.ExprString(c.Args[0]), " ", ""),
					LenThreads: isCallOn(c.Args[1], pn, "NumberOfThreads"), Init: "zero", InitAll: true}
			}
			var initWalk func(n ast.Node, tv string, all bool)
			initWalk = func(n ast.Node, tv string, all bool) {
				ast.Inspect(n, func(m ast.Node) bool {
					switch x := m.(type) {
					case *ast.ForStmt:
						v, st, bd, ok := countingLoop(x)
						if ok && tv == "" {
							s0, isInt := intLit(st)
							initWalk(x.Body, v, isInt && s0 == 0 && isCallOn(bd, pn, "NumberOfThreads"))
							return false
						}
					case *ast.AssignStmt:
						if len(x.Lhs) == 1 && len(x.Rhs) == 1 && x.Tok == token.ASSIGN {
							f, idx := fieldIndex(x.Lhs[0], recv)
							if af, ok := fields[f]; ok && len(idx) > 0 {
								k := litKind(x.Rhs[0])
								if k == "make" {
									return true
								}
								if id, ok := idx[0].(*ast.Ident); ok && id.Name == tv && tv != "" {
									af.Init, af.InitAll = k, all
								} else {
									af.Init, af.InitAll = k, false
								}
							}
						}
					}
					return true
				})
			}
			initWalk(ini.Body, "", false)
			// ---- NewObservation: updates
			no := ms["NewObservation"]
			nrecv, npn := recvName(no), poolParam(no)
			tids := map[string]bool{}
			ast.Inspect(no.Body, func(m ast.Node) bool {
				if as, ok := m.(*ast.AssignStmt); ok && len(as.Lhs) == 1 && len(as.Rhs) == 1 {
					if id, ok := as.Lhs[0].(*ast.Ident); ok {
						if npn != "" && isCallOn(as.Rhs[0], npn, "GetThreadId") {
							tids[id.Name] = true
						} else {
							delete(tids, id.Name)
						}
					}
				}
				return true
			})
			isTid := func(e ast.Expr) bool {
				if id, ok := e.(*ast.Ident); ok {
					return tids[id.Name]
				}
				return npn != "" && isCallOn(e, npn, "GetThreadId")
			}
			ast.Inspect(no.Body, func(m ast.Node) bool {
				switch x := m.(type) {
				case *ast.IncDecStmt:
					f, idx := fieldIndex(x.X, nrecv)
					if af, ok := fields[f]; ok && len(idx) > 0 {
						op := "other"
						if x.Tok == token.INC {
							op = "plus"
						}
						af.Upd = append(af.Upd, accUpd{op, isTid(idx[0]), fset.Position(x.Pos()).Line, types.ExprString(x.X) + x.Tok.String()})
					}
				case *ast.AssignStmt:
					for li, lhs := range x.Lhs {
						f, idx := fieldIndex(lhs, nrecv)
						af, ok := fields[f]
						if !ok {
							continue
						}
						op := "other"
						switch {
						case len(idx) == 0:
							// the slice itself is replaced from inside a job
						case x.Tok == token.ADD_ASSIGN:
							op = "plus"
						case x.Tok == token.ASSIGN && li < len(x.Rhs):
							if c, ok := x.Rhs[li].(*ast.CallExpr); ok && len(c.Args) == 2 {
								if id, ok := c.Fun.(*ast.Ident); ok && id.Name == "LogAdd" && types.ExprString(c.Args[0]) == types.ExprString(lhs) {
									op = "logadd"
								}
							}
						}
						tid := len(idx) > 0 && isTid(idx[0])
						af.Upd = append(af.Upd, accUpd{op, tid, fset.Position(x.Pos()).Line, types.ExprString(lhs) + " " + x.Tok.String()})
					}
				}
				return true
			})
			// ---- the merge loops of the other methods
			mnames := []string{}
			for m := range ms {
				if m != "Initialize" && m != "NewObservation" {
					mnames = append(mnames, m)
				}
			}
			sort.Strings(mnames)
			for _, mn := range mnames {
				fd := ms[mn]
				mrecv, mpn := recvName(fd), poolParam(fd)
				if mrecv == "" {
					continue
				}
				var walkBlock func(b *ast.BlockStmt)
				walkBlock = func(b *ast.BlockStmt) {
					for si, s := range b.List {
						fs, ok := s.(*ast.ForStmt)
						if !ok {
							// nested blocks (if / else) may hold the loop
							switch y := s.(type) {
							case *ast.IfStmt:
								walkBlock(y.Body)
								if eb, ok := y.Else.(*ast.BlockStmt); ok {
									walkBlock(eb)
								}
							case *ast.BlockStmt:
								walkBlock(y)
							}
							continue
						}
						v, st, bd, ok := countingLoop(fs)
						if !ok {
							continue
						}
						uses := false
						for _, f := range order {
							uses = uses || mentionsField(fs.Body, mrecv, f, v)
						}
						if !uses {
							walkBlock(fs.Body)
							continue
						}
						start, isInt := intLit(st)
						if !isInt {
							start = -1
						}
						bound := "other"
						if c, ok := bd.(*ast.CallExpr); ok && len(c.Args) == 1 {
							if id, ok := c.Fun.(*ast.Ident); ok && id.Name == "len" {
								if f, idx := fieldIndex(c.Args[0], mrecv); len(idx) == 0 {
									if af, ok := fields[f]; ok && af.LenThreads {
										bound = "len"
									}
								}
							}
						}
						if mpn != "" && isCallOn(bd, mpn, "NumberOfThreads") {
							bound = "threads"
						}
						// how a target was initialised before the loop (statements of the same block)
						tinit := func(target, field string) string {
							r := "other"
							for _, ps := range b.List[:si] {
								ast.Inspect(ps, func(m ast.Node) bool {
									as, ok := m.(*ast.AssignStmt)
									if !ok || len(as.Lhs) != 1 || len(as.Rhs) != 1 || rootIdent(as.Lhs[0]) != target {
										return true
									}
									if as.Tok != token.DEFINE && as.Tok != token.ASSIGN {
										r = "other"
										return true
									}
									switch k := litKind(as.Rhs[0]); k {
									case "neginf", "zero":
										r = k
									case "make":
										r = "zero"
									default:
										r = "other"
										if f, idx := fieldIndex(as.Rhs[0], mrecv); f == field && len(idx) == 1 {
											if z, ok := intLit(idx[0]); ok && z == 0 {
												r = "acc0"
											}
										}
									}
									return true
								})
							}
							return r
						}
						ast.Inspect(fs.Body, func(m ast.Node) bool {
							as, ok := m.(*ast.AssignStmt)
							if !ok || len(as.Lhs) != 1 || len(as.Rhs) != 1 {
								return true
							}
							for _, f := range order {
								if !mentionsField(as, mrecv, f, v) {
									continue
								}
								mg := accMerge{Method: mn, Target: rootIdent(as.Lhs[0]), Op: "other", Transfer: "other", Start: start, Bound: bound,
									Line: fset.Position(as.Pos()).Line}
								var src ast.Expr
								switch {
								case as.Tok == token.ADD_ASSIGN:
									mg.Op, src = "plus", as.Rhs[0]
								case as.Tok == token.ASSIGN:
									if c, ok := as.Rhs[0].(*ast.CallExpr); ok && len(c.Args) == 2 {
										if id, ok := c.Fun.(*ast.Ident); ok && id.Name == "LogAdd" && types.ExprString(c.Args[0]) == types.ExprString(as.Lhs[0]) {
											mg.Op, src = "logadd", c.Args[1]
										}
									}
								}
								if src != nil {
									if g, idx := fieldIndex(src, mrecv); g == f && len(idx) > 0 {
										mg.Transfer = "id"
									} else if strings.ReplaceAll(types.ExprString(src), " ", "") == "math.Log(float64("+strings.ReplaceAll(types.ExprString(innermostField(src, mrecv, f)), " ", "")+"))" {
										mg.Transfer = "logcount"
									}
								}
								if mg.Target == "" {
									mg.Op = "other"
								}
								mg.TInit = tinit(mg.Target, f)
								fields[f].Merge = append(fields[f].Merge, mg)
							}
							return true
						})
					}
				}
				walkBlock(fd.Body)
			}
			for _, f := range order {
				est.Fields = append(est.Fields, *fields[f])
			}
			ests = append(ests, est)
		}
	}
	return
}

// the sub-expression obj.F[...]... of e
func innermostField(e ast.Expr, recv, field string) ast.Expr {
	var out ast.Expr = e
	ast.Inspect(e, func(m ast.Node) bool {
		if x, ok := m.(ast.Expr); ok {
			if f, idx := fieldIndex(x, recv); f == field && len(idx) > 0 {
				out = x
				return false
			}
		}
		return true
	})
	return out
}

func writeAccum(path string, ests []accEst) error {
	var sb strings.Builder
	sb.WriteString("(* GENERATED by /verif/go2coq_c17 (accumulator pass) from the batch estimators of the library - do not edit.\n")
	sb.WriteString("   One entry per type with Initialize(p) and NewObservation(..., p): the slices Initialize allocates, their updates in\n")
	sb.WriteString("   NewObservation and the loops over the threads that fold them. *)\n")
	sb.WriteString("From Coq Require Import List String Bool.\nFrom ADV Require Import C17.ModelAccum.\nImport ListNotations.\nOpen Scope string_scope.\n\n")
	op := map[string]string{"plus": "OPlus", "logadd": "OLogAdd", "other": "OOther"}
	iv := map[string]string{"neginf": "VNegInf", "zero": "VZero", "other": "VOther", "make": "VOther"}
	tr := map[string]string{"id": "TId", "logcount": "TLogCount", "other": "TOther"}
	bd := map[string]string{"len": "BLen", "threads": "BThreads", "other": "BOther"}
	ti := map[string]string{"neginf": "INegInf", "zero": "IZero", "acc0": "IAcc0", "other": "IOther"}
	bs := map[bool]string{true: "true", false: "false"}
	sb.WriteString("Definition gen_estimators : list gest := [\n")
	for i, e := range ests {
		sb.WriteString(fmt.Sprintf("  mkGEst %q %q [   (* %s *)\n", e.Pkg, e.Type, e.Pos))
		for j, f := range e.Fields {
			us := make([]string, len(f.Upd))
			for k, u := range f.Upd {
				us[k] = fmt.Sprintf("mkGUpd %s %s", op[u.Op], bs[u.Tid])
			}
			ms := make([]string, len(f.Merge))
			for k, m := range f.Merge {
				st := m.Start
				if st < 0 {
					st = 99
				}
				ms[k] = fmt.Sprintf("mkGMerge %q %q %s %s %d %s %s", m.Method, m.Target, op[m.Op], tr[m.Transfer], st, bd[m.Bound], ti[m.TInit])
			}
			sep := ";"
			if j == len(e.Fields)-1 {
				sep = ""
			}
			sb.WriteString(fmt.Sprintf("    mkGAccum %q %q %s %s %s\n      [%s]\n      [%s]%s\n", f.Field, f.Elem, bs[f.LenThreads], iv[f.Init], bs[f.InitAll],
				strings.Join(us, "; "), strings.Join(ms, "; "), sep))
		}
		sep := ";"
		if i == len(ests)-1 {
			sep = ""
		}
		sb.WriteString("  ]" + sep + "\n")
	}
	sb.WriteString("].\n")
	return os.WriteFile(path, []byte(sb.String()), 0644)
}
