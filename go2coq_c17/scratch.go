// go2coq_c17, round 3: SCRATCH cells of the distribution objects and how Clone() produces them.
//
// The job closures of the batch evaluation routines call LogPdf on per-thread clones
// (d[tid][j].LogPdf(...)): an interface method, which the closure pass cannot follow.  This pass
// follows it one level into EVERY implementation found in statistics/{generic,scalarDistribution,
// vectorDistribution,matrixDistribution}: for every method of every struct type it lists the
// receiver fields the body WRITES (Scratch_gen.v: gen_scratch), and for every such field how the
// type's Clone() method produces it in the clone (gen_clone_fields): by a call (CloneScalar(),
// NewScalar(..), a constructor - a fresh object) or by copying the original's value (struct copy
// `r := *obj`, `r.f = obj.f`, a composite literal element `obj.f` - for pointer-like fields the
// SAME object).  go/ast only, no type checker:
//
//   a receiver field f is written by a method body if
//     - it is assigned (obj.f = .., obj.f[i] = ..), or
//     - a method other than the read-only ones (GetFloat64, At, Dim, ...) is called on obj.f, on
//       obj.f.At(..) or on a local alias (t1 := obj.t1), or
//     - it (or an alias) is passed as the FIRST argument of a call that is not a scalar operation
//       (data.LogPdf(t1, j): destination convention of the library), or as the temporary (third)
//       argument of LogAdd / LogSub.
package main

import (
	"fmt"
	"go/ast"
	"go/parser"
	"go/token"
	"os"
	"path/filepath"
	"sort"
	"strings"
)

type scratchRec struct {
	Pkg, Type, Method string
	Fields            []string
	Pos               string
}

type cloneFieldRec struct {
	Pkg, Type, Field string
	Fresh            bool
	How              string
}

var scratchPkgs = []string{"generic", "scalarDistribution", "vectorDistribution", "matrixDistribution"}

var readOnlyMethods = map[string]bool{"GetFloat64": true, "GetValue": true, "GetLogValue": true, "GetInt": true, "GetInt64": true, "GetFloat32": true,
	"At": true, "AT": true, "ConstAt": true, "Float64At": true, "Dim": true, "Dims": true, "ElementType": true, "Type": true, "String": true,
	"GetOrder": true, "GetN": true, "GetDerivative": true, "GetHessian": true, "CloneScalar": true, "CloneVector": true, "CloneMatrix": true,
	"CloneScalarPdf": true, "CloneVectorPdf": true, "CloneMatrixPdf": true, "Clone": true, "ConstSlice": true, "Slice": true, "ConstRow": true,
	"Row": true, "Col": true, "ConstCol": true, "ScalarType": true, "GetParameters": true, "NComponents": true, "NStates": true, "NEDists": true,
	"ConstIterator": true, "ConstJointIterator": true, "Sign": true, "IsNaN": true, "IsInf": true, "Equals": true, "Greater": true, "Smaller": true,
	"CloneProbabilityVector": true, "CloneTransitionMatrix": true, "GetMatrix": true, "ExportConfig": true, "Table": true, "AsVector": true, "AsMatrix": true}

// scalar operations r.Op(a, b[, tmp]): the receiver is the destination, a and b are read
var scalarOps = map[string]bool{"Add": true, "Sub": true, "Mul": true, "Div": true, "Pow": true, "Log": true, "Exp": true, "Set": true, "Neg": true,
	"LogAdd": true, "LogSub": true, "Log1p": true, "Log1pExp": true, "Sqrt": true, "Abs": true, "Min": true, "Max": true, "Lgamma": true, "Gamma": true,
	"Mlgamma": true, "Erf": true, "Erfc": true, "LogErfc": true, "Sigmoid": true, "Tanh": true, "Sin": true, "Cos": true, "Tan": true, "SetFloat64": true,
	"ADD": true, "SUB": true, "MUL": true, "DIV": true, "LOGADD": true, "LOGSUB": true, "SET": true, "Vnorm": true, "VdotV": true, "MdotV": true,
	"VdotM": true, "VaddV": true, "VsubV": true, "VmulS": true, "VdivS": true, "VmulV": true, "MdotM": true, "Mnorm": true, "Mtrace": true, "Outer": true}

type typeInfo struct {
	fields  []string // in declaration order (embedded: the type name)
	methods map[string]*ast.FuncDecl
}

// the receiver field an expression ultimately denotes (through selectors, indices, accessor calls and aliases)
func fieldOf(e ast.Expr, recv string, alias map[string]string) string {
	for {
		switch x := e.(type) {
		case *ast.Ident:
			return alias[x.Name]
		case *ast.ParenExpr:
			e = x.X
		case *ast.StarExpr:
			e = x.X
		case *ast.UnaryExpr:
			e = x.X
		case *ast.IndexExpr:
			e = x.X
		case *ast.SliceExpr:
			e = x.X
		case *ast.SelectorExpr:
			if id, ok := x.X.(*ast.Ident); ok && id.Name == recv && recv != "" {
				return x.Sel.Name
			}
			e = x.X
		case *ast.CallExpr:
			se, ok := x.Fun.(*ast.SelectorExpr)
			if !ok || !accessors[se.Sel.Name] {
				return ""
			}
			e = se.X
		default:
			return ""
		}
	}
}

func writtenFields(fd *ast.FuncDecl) []string {
	recv := recvName(fd)
	if recv == "" || fd.Body == nil {
		return nil
	}
	alias := map[string]string{}
	set := map[string]bool{}
	ast.Inspect(fd.Body, func(n ast.Node) bool {
		switch x := n.(type) {
		case *ast.AssignStmt:
			if x.Tok == token.DEFINE && len(x.Lhs) == len(x.Rhs) {
				for i, l := range x.Lhs {
					if id, ok := l.(*ast.Ident); ok {
						// an alias only when the right-hand side is the field itself or an element of it (no call that copies)
						if f := fieldOf(x.Rhs[i], recv, alias); f != "" {
							alias[id.Name] = f
						} else {
							delete(alias, id.Name)
						}
					}
				}
				return true
			}
			for _, l := range x.Lhs {
				if _, isId := l.(*ast.Ident); isId {
					continue // re-binding a local name
				}
				if f := fieldOf(l, recv, alias); f != "" {
					set[f] = true
				}
			}
		case *ast.IncDecStmt:
			if _, isId := x.X.(*ast.Ident); !isId {
				if f := fieldOf(x.X, recv, alias); f != "" {
					set[f] = true
				}
			}
		case *ast.CallExpr:
			se, ok := x.Fun.(*ast.SelectorExpr)
			if !ok {
				return true
			}
			name := se.Sel.Name
			if f := fieldOf(se.X, recv, alias); f != "" && !readOnlyMethods[name] {
				set[f] = true
			}
			if !scalarOps[name] && !readOnlyMethods[name] && len(x.Args) > 0 {
				if f := fieldOf(x.Args[0], recv, alias); f != "" {
					set[f] = true
				}
			}
			if (name == "LogAdd" || name == "LogSub") && len(x.Args) >= 3 {
				if f := fieldOf(x.Args[2], recv, alias); f != "" {
					set[f] = true
				}
			}
		}
		return true
	})
	out := []string{}
	for f := range set {
		out = append(out, f)
	}
	sort.Strings(out)
	return out
}

// how a function body that builds a value of type T initialises field f of the value it returns:
// "call" (fresh object), "copy" (the original's value), "zero" (never set), "ctor:<name>" (delegated)
func fieldInit(body *ast.BlockStmt, typ string, ti *typeInfo, field string, types map[string]*typeInfo, funcs map[string]*ast.FuncDecl, depth int, pre map[string]string) string {
	how := "zero"
	classify := func(e ast.Expr) string {
		switch x := e.(type) {
		case *ast.CallExpr:
			_ = x
			return "call"
		case *ast.StarExpr:
			if _, ok := x.X.(*ast.CallExpr); ok {
				return "call" // *obj.Mixture.Clone(): a copy of a fresh object
			}
			return "copy"
		case *ast.Ident:
			if x.Name == "nil" {
				return "zero"
			}
			return "local:" + x.Name
		case *ast.BasicLit, *ast.CompositeLit, *ast.FuncLit:
			return "call"
		}
		return "copy"
	}
	locals := map[string]string{} // local name -> classification of what it was bound to
	for k, v := range pre {
		locals[k] = v // parameters of a followed constructor: classification of the caller's arguments
	}
	resolveLocal := func(h string) string {
		for i := 0; i < 4 && strings.HasPrefix(h, "local:"); i++ {
			if v, ok := locals[strings.TrimPrefix(h, "local:")]; ok {
				h = v
			} else {
				return "copy" // a parameter or an unknown name: the caller's object
			}
		}
		return h
	}
	fromLit := func(cl *ast.CompositeLit) (string, bool) {
		id, ok := cl.Type.(*ast.Ident)
		if !ok || id.Name != typ {
			return "", false
		}
		for i, el := range cl.Elts {
			if kv, ok := el.(*ast.KeyValueExpr); ok {
				if k, ok := kv.Key.(*ast.Ident); ok && k.Name == field {
					return resolveLocal(classify(kv.Value)), true
				}
				continue
			}
			if i < len(ti.fields) && ti.fields[i] == field {
				return resolveLocal(classify(el)), true
			}
		}
		return "zero", true
	}
	ast.Inspect(body, func(n ast.Node) bool {
		switch x := n.(type) {
		case *ast.AssignStmt:
			for i, l := range x.Lhs {
				var rhs ast.Expr
				if len(x.Lhs) == len(x.Rhs) {
					rhs = x.Rhs[i]
				} else if len(x.Rhs) == 1 {
					rhs = x.Rhs[0]
				}
				if id, ok := l.(*ast.Ident); ok && rhs != nil {
					// r := T{..} | r := *obj | r, _ := NewT(..) | r = *obj | local := <expr>
					switch r := rhs.(type) {
					case *ast.CompositeLit:
						if h, ok := fromLit(r); ok {
							how = h
						} else {
							locals[id.Name] = "call"
						}
					case *ast.StarExpr:
						if _, isCall := r.X.(*ast.CallExpr); !isCall {
							how = "copy" // struct copy of the original: every field is the original's
						}
						locals[id.Name] = "copy"
					case *ast.CallExpr:
						nm := ""
						if f, ok := r.Fun.(*ast.Ident); ok {
							nm = f.Name
						}
						if fd, ok := funcs[nm]; ok && depth < 2 && (strings.HasPrefix(nm, "New") || strings.HasPrefix(nm, "new")) && i == 0 {
							// the constructor's parameters carry the classification of the arguments at this call
							par := map[string]string{}
							k := 0
							for _, fl := range fd.Type.Params.List {
								for _, pn := range fl.Names {
									if k < len(r.Args) {
										par[pn.Name] = resolveLocal(classify(r.Args[k]))
									}
									k++
								}
							}
							how = "ctor:" + nm + ":" + fieldInit(fd.Body, typ, ti, field, types, funcs, depth+1, par)
						}
						locals[id.Name] = "call"
					default:
						locals[id.Name] = resolveLocal(classify(rhs))
					}
					continue
				}
				if se, ok := l.(*ast.SelectorExpr); ok && se.Sel.Name == field && rhs != nil {
					if _, isId := se.X.(*ast.Ident); isId {
						how = resolveLocal(classify(rhs))
					}
				}
			}
		case *ast.ReturnStmt:
			for _, r := range x.Results {
				if u, ok := r.(*ast.UnaryExpr); ok {
					r = u.X
				}
				if cl, ok := r.(*ast.CompositeLit); ok {
					if h, ok := fromLit(cl); ok {
						how = h
					}
				}
			}
		}
		return true
	})
	return how
}

func scratchPass(repo string) (scr []scratchRec, clones []cloneFieldRec, errs []string) {
	for _, pkg := range scratchPkgs {
		dir := filepath.Join(repo, "statistics", pkg)
		files, _ := filepath.Glob(filepath.Join(dir, "*.go"))
		sort.Strings(files)
		fset := token.NewFileSet()
		types := map[string]*typeInfo{}
		funcs := map[string]*ast.FuncDecl{}
		var decls []*ast.FuncDecl
		for _, f := range files {
			base := filepath.Base(f)
			if strings.HasSuffix(base, "_test.go") || strings.HasPrefix(base, "verif_") {
				continue
			}
			af, err := parser.ParseFile(fset, f, nil, 0)
			if err != nil {
				errs = append(errs, err.Error())
				continue
			}
			for _, d := range af.Decls {
				switch x := d.(type) {
				case *ast.GenDecl:
					for _, sp := range x.Specs {
						ts, ok := sp.(*ast.TypeSpec)
						if !ok {
							continue
						}
						st, ok := ts.Type.(*ast.StructType)
						if !ok {
							continue
						}
						ti := &typeInfo{methods: map[string]*ast.FuncDecl{}}
						for _, fl := range st.Fields.List {
							if len(fl.Names) == 0 {
								t := fl.Type
								if s, ok := t.(*ast.StarExpr); ok {
									t = s.X
								}
								switch tt := t.(type) {
								case *ast.Ident:
									ti.fields = append(ti.fields, tt.Name)
								case *ast.SelectorExpr:
									ti.fields = append(ti.fields, tt.Sel.Name)
								}
							}
							for _, nm := range fl.Names {
								ti.fields = append(ti.fields, nm.Name)
							}
						}
						types[ts.Name.Name] = ti
					}
				case *ast.FuncDecl:
					if x.Recv == nil {
						funcs[x.Name.Name] = x
					}
					decls = append(decls, x)
				}
			}
		}
		for _, fd := range decls {
			if rt := recvType(fd); rt != "" {
				if ti, ok := types[rt]; ok {
					ti.methods[fd.Name.Name] = fd
				}
			}
		}
		tnames := []string{}
		for t := range types {
			tnames = append(tnames, t)
		}
		sort.Strings(tnames)
		for _, t := range tnames {
			ti := types[t]
			mnames := []string{}
			for m := range ti.methods {
				mnames = append(mnames, m)
			}
			sort.Strings(mnames)
			written := map[string]bool{}
			for _, m := range mnames {
				fd := ti.methods[m]
				// methods a job can reach on a clone: the evaluation methods (not constructors / setters / importers)
				if !evalMethod(m) {
					continue
				}
				ws := writtenFields(fd)
				if len(ws) == 0 {
					continue
				}
				p := fset.Position(fd.Pos())
				scr = append(scr, scratchRec{pkg, t, m, ws, fmt.Sprintf("%s:%d", filepath.Base(p.Filename), p.Line)})
				for _, w := range ws {
					written[w] = true
				}
			}
			cl, ok := ti.methods["Clone"]
			if !ok || cl.Body == nil {
				// a type without a Clone method is never handed to the threads as a per-thread clone (the data records
				// MixtureDataRecord{obj.Edist, x} are temporaries built inside the evaluating method): not listed
				kept := scr[:0]
				for _, r := range scr {
					if !(r.Pkg == pkg && r.Type == t) {
						kept = append(kept, r)
					}
				}
				scr = kept
				continue
			}
			ws := []string{}
			for w := range written {
				ws = append(ws, w)
			}
			sort.Strings(ws)
			for _, w := range ws {
				how := fieldInit(cl.Body, t, ti, w, types, funcs, 0, nil)
				fresh := how == "call" || how == "zero" || strings.HasSuffix(how, ":call") || strings.HasSuffix(how, ":zero")
				clones = append(clones, cloneFieldRec{pkg, t, w, fresh, how})
			}
		}
	}
	return
}

func evalMethod(m string) bool {
	switch m {
	case "LogPdf", "Pdf", "LogCdf", "Cdf", "Likelihood", "Posterior", "PosteriorMarginals", "Viterbi", "LogPdfDense", "LogPdfSparse", "ClassLogPdf",
		"ClassLogPdfDense", "ClassLogPdfSparse", "LogPdfVector", "normalize":
		return true
	}
	return false
}

func writeScratch(path string, scr []scratchRec, clones []cloneFieldRec) error {
	var sb strings.Builder
	sb.WriteString("(* GENERATED by /verif/go2coq_c17 (scratch pass) from the distribution types of the library - do not edit.\n")
	sb.WriteString("   gen_scratch: receiver fields written by the evaluation methods a job calls on a per-thread clone;\n")
	sb.WriteString("   gen_clone_fields: how the type's Clone() produces each of these fields (true = a fresh object). *)\n")
	sb.WriteString("From Coq Require Import List String Bool.\nFrom ADV Require Import C17.ScratchGenDefs.\nImport ListNotations.\nOpen Scope string_scope.\n\n")
	sb.WriteString("Definition gen_scratch : list scratch_rec := [\n")
	for i, s := range scr {
		fs := make([]string, len(s.Fields))
		for j, f := range s.Fields {
			fs[j] = fmt.Sprintf("%q", f)
		}
		sep := ";"
		if i == len(scr)-1 {
			sep = ""
		}
		sb.WriteString(fmt.Sprintf("  mkScratch %q %q %q [%s]%s   (* %s *)\n", s.Pkg, s.Type, s.Method, strings.Join(fs, "; "), sep, s.Pos))
	}
	sb.WriteString("].\n\nDefinition gen_clone_fields : list clone_field := [\n")
	for i, c := range clones {
		sep := ";"
		if i == len(clones)-1 {
			sep = ""
		}
		b := "false"
		if c.Fresh {
			b = "true"
		}
		sb.WriteString(fmt.Sprintf("  mkCloneField %q %q %q %s %q%s\n", c.Pkg, c.Type, c.Field, b, c.How, sep))
	}
	sb.WriteString("].\n")
	return os.WriteFile(path, []byte(sb.String()), 0644)
}
