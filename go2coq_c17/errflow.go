// go2coq_c17, error-flow pass (round 5): the inventory of every place where an error produced by the
// thread pool or by a job can be lost.
//
// With the zero-value pool AddJob / AddRangeJob run the jobs inline and return the job's error
// themselves; with a real pool (k >= 2) a job's error reaches the caller ONLY through the value
// returned by Wait(g).  From there it has to travel up the call chain (Emissions -> baumWelchAlgorithm
// -> Estimate -> EstimateOnData ...) and, below the pool, from the failing callee out of the job closure.
// This pass lists, for every SCOPE (function declaration or function literal) of statistics/ and
// algorithm/ that lies on such a path, every call whose result carries an error, in source order, with
//     kind         AddJob | AddRangeJob | RangeJob | Job | Wait | call (an error-returning library function)
//     disposition  returned   the error is tested `!= nil` and a return statement mentioning it follows
//                             (or the call is itself the operand of a return statement)
//                  stored     bound to a variable / field that is not returned under `!= nil`
//                  discarded  expression statement, `_ =`, or tested and then NOT returned
// go/parser + go/ast only, no type checker: "error-returning" is decided by name over the declarations
// (functions, methods, interface methods) of the parsed packages - a name counts when every declaration
// of it has `error` as its last result.
package main

import (
	"fmt"
	"go/ast"
	"go/parser"
	"go/token"
	"os"
	"path/filepath"
	"sort"
	"strings"
)

type errOp struct {
	Kind  string `json:"kind"`  // AddJob | AddRangeJob | RangeJob | Job | Wait | call
	Name  string `json:"name"`  // callee name
	Disp  string `json:"disp"`  // returned | stored | discarded
	Why   string `json:"why"`   // how the disposition was decided
	Line  int    `json:"line"`
	Chain bool   `json:"chain"` // callee is on the pool's error chain (contains pool operations, transitively)
	Nil      bool `json:"nil"`      // the callee returns the literal nil as its error on every path (cannot fail)
	Resolved bool `json:"resolved"` // callee resolved to the method of the enclosing receiver's type
}

type errScope struct {
	Name     string  `json:"name"` // file:Func or file:Func#lit<n>
	File     string  `json:"file"`
	Func     string  `json:"func"`
	Kind     string  `json:"kind"`     // func | job | lit
	Relevant string  `json:"relevant"` // chain | job | jobcallee | ""
	RetErr   bool    `json:"ret_err"`  // the scope's last result is `error`
	Line     int     `json:"line"`
	Ops      []errOp `json:"ops"`
}

var poolOps = map[string]string{"AddJob": "AddJob", "AddRangeJob": "AddRangeJob", "AddRangeJob_": "AddRangeJob", "RangeJob": "RangeJob",
	"RangeJob_": "RangeJob", "Job": "Job", "Wait": "Wait"}

func lastIsError(ft *ast.FuncType) bool {
	if ft == nil || ft.Results == nil || len(ft.Results.List) == 0 {
		return false
	}
	l := ft.Results.List[len(ft.Results.List)-1]
	id, ok := l.Type.(*ast.Ident)
	return ok && id.Name == "error"
}

func calleeName(c *ast.CallExpr) (string, bool) {
	switch f := c.Fun.(type) {
	case *ast.SelectorExpr:
		return f.Sel.Name, true
	case *ast.Ident:
		return f.Name, false
	}
	return "", false
}

// does expression e mention identifier v?
func mentions(e ast.Node, v string) bool {
	found := false
	ast.Inspect(e, func(n ast.Node) bool {
		if id, ok := n.(*ast.Ident); ok && id.Name == v {
			found = true
		}
		return !found
	})
	return found
}

// cond contains `v != nil` as the whole condition or as an operand of && / ||
func testsNonNil(cond ast.Expr, v string) bool {
	switch c := cond.(type) {
	case *ast.ParenExpr:
		return testsNonNil(c.X, v)
	case *ast.BinaryExpr:
		if c.Op == token.NEQ {
			x, xok := c.X.(*ast.Ident)
			y, yok := c.Y.(*ast.Ident)
			return xok && yok && ((x.Name == v && y.Name == "nil") || (y.Name == v && x.Name == "nil"))
		}
		if c.Op == token.LAND || c.Op == token.LOR {
			return testsNonNil(c.X, v) || testsNonNil(c.Y, v)
		}
	}
	return false
}

// a return statement DIRECTLY in the block (or in nested plain blocks / else-less ifs are NOT searched: the
// error branch must return on every path) whose results mention v
func blockReturns(b *ast.BlockStmt, v string) bool {
	if b == nil {
		return false
	}
	for _, s := range b.List {
		if r, ok := s.(*ast.ReturnStmt); ok {
			for _, e := range r.Results {
				if mentions(e, v) {
					return true
				}
			}
			return false
		}
	}
	return false
}

// `if v != nil { ... return ..v.. }`
func ifPropagates(is *ast.IfStmt, v string) bool {
	return testsNonNil(is.Cond, v) && blockReturns(is.Body, v)
}

type errflow struct {
	fset     *token.FileSet
	errNames map[string]bool
	chain    map[string]bool
	// infallible[name] : every declaration of the name returns the literal nil as its error on every path;
	// infallibleM[pkgdir/Type.name] : that method does (used when the call is on the enclosing receiver)
	infallible  map[string]bool
	infallibleM map[string]bool
	curRecv     string // name of the enclosing method's receiver variable
	curType     string // pkgdir/Type of the enclosing method
}

// every return statement of the body (nested literals excluded) has the literal nil as last result
func returnsOnlyNil(body *ast.BlockStmt) bool {
	ok, seen := true, false
	var visit func(n ast.Node) bool
	visit = func(n ast.Node) bool {
		switch t := n.(type) {
		case *ast.FuncLit:
			return false
		case *ast.ReturnStmt:
			seen = true
			if len(t.Results) == 0 {
				ok = false
				return false
			}
			id, isId := t.Results[len(t.Results)-1].(*ast.Ident)
			if !isId || id.Name != "nil" {
				ok = false
			}
		}
		return true
	}
	ast.Inspect(body, visit)
	return ok && seen
}

// the variable receiving the error of call c in an assignment (last LHS when the call is the only RHS)
func errVarOf(as *ast.AssignStmt, c *ast.CallExpr) (string, bool) {
	if len(as.Rhs) != 1 || as.Rhs[0] != ast.Expr(c) {
		return "", false
	}
	l := as.Lhs[len(as.Lhs)-1]
	if id, ok := l.(*ast.Ident); ok {
		return id.Name, true
	}
	return "", false
}

// walk the statements of one scope; nested function literals are separate scopes
func (ef *errflow) scopeOps(body *ast.BlockStmt, lits *[]*ast.FuncLit) []errOp {
	var ops []errOp
	handled := map[*ast.CallExpr]bool{}
	add := func(c *ast.CallExpr, disp, why string) {
		if handled[c] {
			return
		}
		handled[c] = true
		nm, isSel := calleeName(c)
		kind := "call"
		if k, ok := poolOps[nm]; ok && isSel {
			kind = k
		} else if !ef.errNames[nm] {
			return
		}
		op := errOp{Kind: kind, Name: nm, Disp: disp, Why: why, Line: ef.fset.Position(c.Pos()).Line, Chain: ef.chain[nm] || kind != "call"}
		if kind == "call" {
			if se, ok := c.Fun.(*ast.SelectorExpr); ok {
				if id, ok := se.X.(*ast.Ident); ok && ef.curRecv != "" && id.Name == ef.curRecv {
					if v, known := ef.infallibleM[ef.curType+"."+nm]; known {
						op.Nil = v
						op.Resolved = true
					}
				}
			}
			if !op.Resolved {
				op.Nil = ef.infallible[nm]
			}
		}
		ops = append(ops, op)
	}
	// the rest of a block after statement i: is v propagated before it is overwritten?
	later := func(rest []ast.Stmt, v string) (string, string) {
		for _, s := range rest {
			switch t := s.(type) {
			case *ast.IfStmt:
				if t.Init == nil && ifPropagates(t, v) {
					return "returned", "tested != nil in a later statement and returned"
				}
				if t.Init == nil && testsNonNil(t.Cond, v) {
					return "discarded", "tested != nil in a later statement but not returned"
				}
			case *ast.ReturnStmt:
				for _, e := range t.Results {
					if mentions(e, v) {
						return "returned", "returned by a later return statement"
					}
				}
				return "stored", "not returned by the following return statement"
			case *ast.AssignStmt:
				for _, l := range t.Lhs {
					if id, ok := l.(*ast.Ident); ok && id.Name == v {
						return "stored", "overwritten before it is tested"
					}
				}
			}
		}
		return "stored", "bound to a variable that is never tested and returned"
	}
	var walkBlock func(list []ast.Stmt, outer []ast.Stmt)
	var walkStmt func(s ast.Stmt, rest []ast.Stmt)
	// every call in an expression that is not handled by a statement pattern: used as an operand
	exprCalls := func(e ast.Node, disp, why string) {
		if e == nil {
			return
		}
		ast.Inspect(e, func(n ast.Node) bool {
			switch t := n.(type) {
			case *ast.FuncLit:
				*lits = append(*lits, t)
				return false
			case *ast.CallExpr:
				add(t, disp, why)
			}
			return true
		})
	}
	assign := func(as *ast.AssignStmt, is *ast.IfStmt, rest []ast.Stmt) {
		for _, r := range as.Rhs {
			c, ok := r.(*ast.CallExpr)
			if !ok {
				continue
			}
			v, ok := errVarOf(as, c)
			switch {
			case !ok:
				add(c, "stored", "result assigned to a non-variable or one of several right-hand sides")
			case v == "_":
				add(c, "discarded", "assigned to _")
			case is != nil:
				switch {
				case ifPropagates(is, v):
					add(c, "returned", "if "+v+" := ...; "+v+" != nil { return "+v+" }")
				case testsNonNil(is.Cond, v):
					add(c, "discarded", "tested != nil but the branch does not return it")
				default:
					add(c, "discarded", "bound in an if statement whose condition does not test it != nil")
				}
			default:
				d, w := later(rest, v)
				add(c, d, w)
			}
		}
		for _, r := range as.Rhs {
			exprCalls(r, "stored", "operand of an expression")
		}
	}
	walkStmt = func(s ast.Stmt, rest []ast.Stmt) {
		switch t := s.(type) {
		case nil:
		case *ast.ExprStmt:
			if c, ok := t.X.(*ast.CallExpr); ok {
				add(c, "discarded", "expression statement: the result is dropped")
				for _, a := range c.Args {
					exprCalls(a, "stored", "operand of an expression")
				}
				exprCalls(c.Fun, "stored", "operand of an expression")
			} else {
				exprCalls(t.X, "stored", "operand of an expression")
			}
		case *ast.AssignStmt:
			assign(t, nil, rest)
		case *ast.ReturnStmt:
			for _, e := range t.Results {
				if c, ok := e.(*ast.CallExpr); ok {
					add(c, "returned", "operand of a return statement")
					for _, a := range c.Args {
						exprCalls(a, "stored", "operand of an expression")
					}
				} else {
					exprCalls(e, "stored", "operand of an expression")
				}
			}
		case *ast.IfStmt:
			if as, ok := t.Init.(*ast.AssignStmt); ok {
				assign(as, t, rest)
			} else if t.Init != nil {
				walkStmt(t.Init, nil)
			}
			exprCalls(t.Cond, "stored", "operand of a condition")
			walkBlock(t.Body.List, rest)
			if t.Else != nil {
				walkStmt(t.Else, rest)
			}
		case *ast.BlockStmt:
			walkBlock(t.List, rest)
		case *ast.ForStmt:
			walkStmt(t.Init, nil)
			exprCalls(t.Cond, "stored", "operand of a condition")
			walkStmt(t.Post, nil)
			walkBlock(t.Body.List, nil)
		case *ast.RangeStmt:
			exprCalls(t.X, "stored", "operand of an expression")
			walkBlock(t.Body.List, nil)
		case *ast.SwitchStmt:
			walkStmt(t.Init, nil)
			exprCalls(t.Tag, "stored", "operand of an expression")
			for _, cc := range t.Body.List {
				walkStmt(cc, rest)
			}
		case *ast.TypeSwitchStmt:
			walkStmt(t.Init, nil)
			walkStmt(t.Assign, nil)
			for _, cc := range t.Body.List {
				walkStmt(cc, rest)
			}
		case *ast.CaseClause:
			for _, e := range t.List {
				exprCalls(e, "stored", "operand of an expression")
			}
			walkBlock(t.Body, rest)
		case *ast.SelectStmt:
			walkBlock(t.Body.List, nil)
		case *ast.CommClause:
			walkStmt(t.Comm, nil)
			walkBlock(t.Body, nil)
		case *ast.LabeledStmt:
			walkStmt(t.Stmt, rest)
		case *ast.GoStmt:
			add(t.Call, "discarded", "go statement")
			exprCalls(t.Call, "stored", "operand of an expression")
		case *ast.DeferStmt:
			add(t.Call, "discarded", "defer statement")
			exprCalls(t.Call, "stored", "operand of an expression")
		case *ast.DeclStmt:
			exprCalls(t, "stored", "initialiser of a declaration")
		case *ast.IncDecStmt:
			exprCalls(t.X, "stored", "operand of an expression")
		case *ast.SendStmt:
			exprCalls(t.Value, "stored", "operand of an expression")
		}
	}
	walkBlock = func(list []ast.Stmt, outer []ast.Stmt) {
		for i, s := range list {
			r := append(append([]ast.Stmt{}, list[i+1:]...), outer...)
			walkStmt(s, r)
		}
	}
	walkBlock(body.List, nil)
	sort.SliceStable(ops, func(i, j int) bool { return ops[i].Line < ops[j].Line })
	return ops
}

func errflowPass(repo string) (scopes []errScope, errs []string) {
	fset := token.NewFileSet()
	var dirs []string
	for _, top := range []string{"statistics", "algorithm"} {
		filepath.Walk(filepath.Join(repo, top), func(p string, info os.FileInfo, err error) error {
			if err == nil && info.IsDir() {
				dirs = append(dirs, p)
			}
			return nil
		})
	}
	sort.Strings(dirs)
	type fileRec struct {
		name string
		f    *ast.File
	}
	var files []fileRec
	yes, no := map[string]int{}, map[string]int{}
	ifaceOnly := map[string]bool{} // names declared by an interface: implementations outside the parsed packages may fail
	for _, d := range dirs {
		ents, _ := os.ReadDir(d)
		for _, e := range ents {
			n := e.Name()
			if e.IsDir() || !strings.HasSuffix(n, ".go") || strings.HasSuffix(n, "_test.go") || strings.HasPrefix(n, "verif_") {
				continue
			}
			f, err := parser.ParseFile(fset, filepath.Join(d, n), nil, 0)
			if err != nil {
				errs = append(errs, err.Error())
				continue
			}
			rel, _ := filepath.Rel(repo, filepath.Join(d, n))
			files = append(files, fileRec{rel, f})
			ast.Inspect(f, func(nd ast.Node) bool {
				switch t := nd.(type) {
				case *ast.FuncDecl:
					if lastIsError(t.Type) {
						yes[t.Name.Name]++
					} else {
						no[t.Name.Name]++
					}
				case *ast.InterfaceType:
					for _, m := range t.Methods.List {
						ft, ok := m.Type.(*ast.FuncType)
						if !ok {
							continue
						}
						for _, nm := range m.Names {
							ifaceOnly[nm.Name] = true
							if lastIsError(ft) {
								yes[nm.Name]++
							} else {
								no[nm.Name]++
							}
						}
					}
				}
				return true
			})
		}
	}
	ef := &errflow{fset: fset, errNames: map[string]bool{}, chain: map[string]bool{}, infallible: map[string]bool{}, infallibleM: map[string]bool{}}
	fallibleName := map[string]bool{}
	for _, fr := range files {
		for _, dc := range fr.f.Decls {
			fd, ok := dc.(*ast.FuncDecl)
			if !ok || fd.Body == nil || !lastIsError(fd.Type) {
				continue
			}
			inf := returnsOnlyNil(fd.Body)
			if rt := recvType(fd); rt != "" {
				ef.infallibleM[filepath.Dir(fr.name)+"/"+rt+"."+fd.Name.Name] = inf
			}
			if !inf {
				fallibleName[fd.Name.Name] = true
			}
		}
	}
	for n, c := range yes {
		if c > 0 && no[n] == 0 {
			ef.errNames[n] = true
			ef.infallible[n] = !fallibleName[n] && !ifaceOnly[n]
		}
	}
	// first pass: scopes with their operations
	type rawScope struct {
		sc   errScope
		decl string // enclosing declaration name
	}
	var raws []rawScope
	for _, fr := range files {
		for _, dc := range fr.f.Decls {
			fd, ok := dc.(*ast.FuncDecl)
			if !ok || fd.Body == nil {
				continue
			}
			fnm := fd.Name.Name
			if rt := recvType(fd); rt != "" {
				fnm = rt + "." + fnm
			}
			// which literals are job closures
			jobLits := map[*ast.FuncLit]bool{}
			ast.Inspect(fd.Body, func(n ast.Node) bool {
				if c, ok := n.(*ast.CallExpr); ok {
					if se, ok := c.Fun.(*ast.SelectorExpr); ok {
						if pos, isJob := jobFuncs[se.Sel.Name]; isJob && len(c.Args) == pos+1 {
							if fl, ok := c.Args[pos].(*ast.FuncLit); ok {
								jobLits[fl] = true
							}
						}
					}
				}
				return true
			})
			var lits []*ast.FuncLit
			ef.curRecv, ef.curType = recvName(fd), ""
			if rt := recvType(fd); rt != "" {
				ef.curType = filepath.Dir(fr.name) + "/" + rt
			}
			ops := ef.scopeOps(fd.Body, &lits)
			raws = append(raws, rawScope{errScope{Name: fr.name + ":" + fnm, File: fr.name, Func: fnm, Kind: "func", RetErr: lastIsError(fd.Type),
				Line: fset.Position(fd.Pos()).Line, Ops: ops}, fd.Name.Name})
			for i := 0; i < len(lits); i++ {
				fl := lits[i]
				kind := "lit"
				if jobLits[fl] {
					kind = "job"
				}
				lops := ef.scopeOps(fl.Body, &lits)
				raws = append(raws, rawScope{errScope{Name: fmt.Sprintf("%s:%s#lit%d", fr.name, fnm, i+1), File: fr.name, Func: fnm, Kind: kind,
					RetErr: lastIsError(fl.Type), Line: fset.Position(fl.Pos()).Line, Ops: lops}, fd.Name.Name})
			}
		}
	}
	// chain = declarations that return an error and contain (in any of their scopes) a pool operation or a call of a chain name
	for changed := true; changed; {
		changed = false
		for _, r := range raws {
			if ef.chain[r.decl] || !ef.errNames[r.decl] {
				continue
			}
			for _, op := range r.sc.Ops {
				if op.Kind != "call" || ef.chain[op.Name] {
					ef.chain[r.decl] = true
					changed = true
					break
				}
			}
		}
	}
	// names called (transitively, by name) from job closures
	jobCallee := map[string]bool{}
	byDecl := map[string][]int{}
	for i, r := range raws {
		byDecl[r.decl] = append(byDecl[r.decl], i)
	}
	var work []string
	for _, r := range raws {
		if r.sc.Kind == "job" {
			for _, op := range r.sc.Ops {
				if op.Kind == "call" && !jobCallee[op.Name] {
					jobCallee[op.Name] = true
					work = append(work, op.Name)
				}
			}
		}
	}
	for len(work) > 0 {
		n := work[0]
		work = work[1:]
		for _, i := range byDecl[n] {
			for _, op := range raws[i].sc.Ops {
				if op.Kind == "call" && !jobCallee[op.Name] {
					jobCallee[op.Name] = true
					work = append(work, op.Name)
				}
			}
		}
	}
	for _, r := range raws {
		sc := r.sc
		for i := range sc.Ops {
			sc.Ops[i].Chain = sc.Ops[i].Kind != "call" || ef.chain[sc.Ops[i].Name]
		}
		hasPool := false
		for _, op := range sc.Ops {
			if op.Kind != "call" {
				hasPool = true
			}
		}
		switch {
		case sc.Kind == "job":
			sc.Relevant = "job"
		case hasPool || ef.chain[r.decl]:
			sc.Relevant = "chain"
		case jobCallee[r.decl] && ef.errNames[r.decl]:
			sc.Relevant = "jobcallee"
		}
		if len(sc.Ops) > 0 {
			scopes = append(scopes, sc)
		}
	}
	sort.SliceStable(scopes, func(i, j int) bool { return scopes[i].Name < scopes[j].Name })
	return
}

func writeErrflow(path string, scopes []errScope) error {
	var sb strings.Builder
	sb.WriteString("(* GENERATED by /verif/go2coq_c17 (error-flow pass) from the library - do not edit.\n")
	sb.WriteString("   One entry per scope (function or function literal) on the error path of the thread pool:\n")
	sb.WriteString("   the error-carrying calls in source order with what happens to their error result. *)\n")
	sb.WriteString("From Coq Require Import List String Bool.\nFrom ADV Require Import C17.ModelErrFlow.\nImport ListNotations.\nOpen Scope string_scope.\n\n")
	sb.WriteString("Definition gen_errscopes : list escope := [\n")
	var rel []errScope
	for _, s := range scopes {
		if s.Relevant != "" {
			rel = append(rel, s)
		}
	}
	for i, s := range rel {
		sb.WriteString(fmt.Sprintf("  mkEScope %q %s %v [\n", s.Name, map[string]string{"job": "SJob", "chain": "SChain", "jobcallee": "SJobCallee"}[s.Relevant], s.RetErr))
		for j, op := range s.Ops {
			sep := ";"
			if j == len(s.Ops)-1 {
				sep = ""
			}
			k := map[string]string{"AddJob": "KAdd", "AddRangeJob": "KAdd", "RangeJob": "KRange", "Job": "KRange", "Wait": "KWait", "call": "KCall"}[op.Kind]
			d := map[string]string{"returned": "DReturned", "stored": "DStored", "discarded": "DDiscarded"}[op.Disp]
			sb.WriteString(fmt.Sprintf("    mkEOp %s %q %s %v %v%s   (* line %d: %s *)\n", k, op.Name, d, op.Chain, op.Nil, sep, op.Line, op.Why))
		}
		sep := ";"
		if i == len(rel)-1 {
			sep = ""
		}
		sb.WriteString("  ]" + sep + "\n")
	}
	sb.WriteString("].\n")
	return os.WriteFile(path, []byte(sb.String()), 0644)
}
