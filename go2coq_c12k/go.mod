module go2coq_c12k

go 1.21
