// go2coq_c12k (property C12, round 7): regenerates the bodies of ModelCtor.v from the library source.
//
// Scope: every top-level function of statistics/generic whose name starts with New/new and that has a parameter of
// type Vector or Matrix (the caller's container) and a bool parameter named isLog (the flag).  The body is translated
// into the statement list of coq/C12/ModelCtor.v over the container-holding variables (variable 0 = the parameter):
//
//	x := y.CloneVector() / CloneMatrix() / Clone()        KClone x y
//	x := y,  x := T{y, ...}                                  KAlias x y
//	any other use of a tracked variable (method call that is not a whitelisted reader, passed as an argument,
//	At(..) handed out, ...)                                  KWrite x   (conservative: "may rewrite x in place")
//	if isLog / if !isLog                                     the branch of the flag
//	any other if / for / block                               both arms in sequence; a Clone / alias inside is UNSUPPORTED
//	return f(.., p, .., isLog, ..) with f translated         the body of f (delegating wrapper)
//	return x, ...                                            x is the result variable
//
// Anything else that mentions a tracked variable in a way the grammar does not cover fails the run (unsupported).
package main

import (
	"encoding/json"
	"flag"
	"fmt"
	"go/ast"
	"go/parser"
	"go/token"
	"os"
	"path/filepath"
	"sort"
	"strings"
)

var fset = token.NewFileSet()

var readers = map[string]bool{"ElementType": true, "Dim": true, "Dims": true, "ConstAt": true, "String": true,
	"ConstRow": true, "ConstCol": true, "ConstIterator": true}
var cloners = map[string]bool{"CloneVector": true, "CloneMatrix": true, "Clone": true}

type stmt struct {
	Coq  string `json:"coq"`
	Pos  string `json:"pos"`
	Flag int    `json:"flag"` // -1 both, 0 only isLog=false, 1 only isLog=true
}

type fn struct {
	Name        string   `json:"name"`
	Pos         string   `json:"pos"`
	Stmts       []stmt   `json:"stmts"`
	Res         int      `json:"res"`
	Delegates   string   `json:"delegates,omitempty"`
	Unsupported []string `json:"unsupported"`
	vars        map[string]int
	decl        *ast.FuncDecl
	param       string
}

func pos(n ast.Node) string {
	p := fset.Position(n.Pos())
	return fmt.Sprintf("%s:%d", filepath.Base(p.Filename), p.Line)
}

func (f *fn) v(name string) (int, bool) { i, ok := f.vars[name]; return i, ok }
func (f *fn) def(name string) int {
	if i, ok := f.vars[name]; ok {
		return i
	}
	i := len(f.vars)
	f.vars[name] = i
	return i
}
func (f *fn) bad(n ast.Node, what string) {
	f.Unsupported = append(f.Unsupported, fmt.Sprintf("%s %s: %s", f.Name, pos(n), what))
}
func (f *fn) emit(n ast.Node, flag int, format string, a ...interface{}) {
	f.Stmts = append(f.Stmts, stmt{fmt.Sprintf(format, a...), pos(n), flag})
}

// tracked identifier?
func (f *fn) tid(e ast.Expr) (int, bool) {
	if id, ok := e.(*ast.Ident); ok {
		return f.v(id.Name)
	}
	return 0, false
}

// classify the right-hand side of an assignment to a (new) variable: "clone" y, "alias" y, or "" (no tracked source)
func (f *fn) rhs(e ast.Expr) (string, int) {
	if y, ok := f.tid(e); ok {
		return "alias", y
	}
	if c, ok := e.(*ast.CallExpr); ok {
		if s, ok := c.Fun.(*ast.SelectorExpr); ok {
			if y, ok := f.tid(s.X); ok && cloners[s.Sel.Name] && len(c.Args) == 0 {
				return "clone", y
			}
		}
	}
	if cl, ok := e.(*ast.CompositeLit); ok {
		src, n := 0, 0
		for _, el := range cl.Elts {
			if kv, ok := el.(*ast.KeyValueExpr); ok {
				el = kv.Value
			}
			if y, ok := f.tid(el); ok {
				src, n = y, n+1
			}
		}
		if n == 1 {
			return "alias", src
		}
		if n > 1 {
			return "multi", 0
		}
	}
	return "", 0
}

// conservative scan of an expression / statement: every tracked variable that may be written through
func (f *fn) uses(n ast.Node, flag int) {
	if n == nil {
		return
	}
	seen := map[int]bool{}
	ast.Inspect(n, func(m ast.Node) bool {
		switch x := m.(type) {
		case *ast.CallExpr:
			if s, ok := x.Fun.(*ast.SelectorExpr); ok {
				if y, ok := f.tid(s.X); ok {
					if !readers[s.Sel.Name] && !seen[y] {
						seen[y] = true
						f.emit(x, flag, "KWrite %d (g %d)", y, len(f.Stmts))
					}
					for _, a := range x.Args {
						f.uses(a, flag)
					}
					return false
				}
			}
			for _, a := range x.Args {
				if y, ok := f.tid(a); ok && !seen[y] {
					seen[y] = true
					f.emit(x, flag, "KWrite %d (g %d)", y, len(f.Stmts))
				}
			}
		case *ast.FuncLit:
			return true
		}
		return true
	})
}

func flagCond(e ast.Expr) (int, bool) {
	if id, ok := e.(*ast.Ident); ok && id.Name == "isLog" {
		return 1, true
	}
	if u, ok := e.(*ast.UnaryExpr); ok && u.Op == token.NOT {
		if id, ok := u.X.(*ast.Ident); ok && id.Name == "isLog" {
			return 0, true
		}
	}
	return 0, false
}

func (f *fn) block(b *ast.BlockStmt, flag int, nested bool, table map[string]*fn) {
	if b == nil {
		return
	}
	for _, s := range b.List {
		f.stmt(s, flag, nested, table)
	}
}

func (f *fn) assign(n ast.Node, lhs ast.Expr, rhs ast.Expr, flag int, nested bool) bool {
	kind, y := f.rhs(rhs)
	if kind == "" {
		return false
	}
	id, ok := lhs.(*ast.Ident)
	if !ok || kind == "multi" {
		f.bad(n, "a tracked container is stored somewhere the grammar does not cover")
		return true
	}
	if nested {
		f.bad(n, "Clone / alias of a tracked container under a condition other than isLog")
		return true
	}
	d := f.def(id.Name)
	if kind == "clone" {
		f.emit(n, flag, "KClone %d %d", d, y)
	} else {
		f.emit(n, flag, "KAlias %d %d", d, y)
	}
	return true
}

func (f *fn) stmt(s ast.Stmt, flag int, nested bool, table map[string]*fn) {
	switch x := s.(type) {
	case *ast.AssignStmt:
		if len(x.Lhs) == len(x.Rhs) {
			for i := range x.Lhs {
				if !f.assign(x, x.Lhs[i], x.Rhs[i], flag, nested && flag == -1 || nested) {
					// an assignment TO a tracked variable from something else forgets it: unsupported
					if _, ok := f.tid(x.Lhs[i]); ok {
						f.bad(x, "a tracked variable is re-assigned from an untracked value")
					}
					f.uses(x.Rhs[i], flag)
				}
			}
		} else {
			f.uses(x, flag)
		}
	case *ast.IfStmt:
		if x.Init != nil {
			f.stmt(x.Init, flag, nested, table)
		}
		if fl, ok := flagCond(x.Cond); ok && flag == -1 {
			f.block(x.Body, fl, nested, table)
			if x.Else != nil {
				if eb, ok := x.Else.(*ast.BlockStmt); ok {
					f.block(eb, 1-fl, nested, table)
				} else {
					f.stmt(x.Else, 1-fl, nested, table)
				}
			}
			return
		}
		f.uses(x.Cond, flag)
		f.block(x.Body, flag, true, table)
		if x.Else != nil {
			if eb, ok := x.Else.(*ast.BlockStmt); ok {
				f.block(eb, flag, true, table)
			} else {
				f.stmt(x.Else, flag, true, table)
			}
		}
	case *ast.BlockStmt:
		f.block(x, flag, nested, table)
	case *ast.ForStmt:
		f.uses(x.Init, flag)
		f.uses(x.Cond, flag)
		f.uses(x.Post, flag)
		f.block(x.Body, flag, true, table)
	case *ast.RangeStmt:
		f.uses(x.X, flag)
		f.block(x.Body, flag, true, table)
	case *ast.ReturnStmt:
		if len(x.Results) == 0 {
			return
		}
		r0 := x.Results[0]
		// delegating wrapper
		if c, ok := r0.(*ast.CallExpr); ok && len(x.Results) == 1 {
			if id, ok := c.Fun.(*ast.Ident); ok {
				if g, ok := table[id.Name]; ok && g != f {
					passes := false
					for _, a := range c.Args {
						if y, ok := f.tid(a); ok && y == 0 {
							passes = true
						}
					}
					if passes && len(f.Stmts) == 0 {
						f.Delegates = g.Name
						return
					}
				}
			}
		}
		if y, ok := f.tid(r0); ok {
			if f.Res >= 0 && f.Res != y {
				f.bad(x, "two different result variables")
			}
			f.Res = y
			return
		}
		if kind, y := f.rhs(r0); kind == "alias" {
			if f.Res >= 0 && f.Res != y {
				f.bad(x, "two different result variables")
			}
			f.Res = y
			return
		} else if kind != "" {
			f.bad(x, "result expression outside the grammar")
			return
		}
		f.uses(r0, flag)
	case *ast.ExprStmt:
		f.uses(x.X, flag)
	case *ast.DeclStmt, *ast.IncDecStmt, *ast.EmptyStmt, *ast.BranchStmt:
		f.uses(x, flag)
	default:
		// anything else mentioning a tracked variable is outside the grammar
		mention := false
		ast.Inspect(s, func(m ast.Node) bool {
			if id, ok := m.(*ast.Ident); ok {
				if _, ok := f.v(id.Name); ok {
					mention = true
				}
			}
			return true
		})
		if mention {
			f.bad(s, "statement kind outside the grammar mentions a tracked container")
		}
	}
}

func main() {
	repo := flag.String("repo", "/repo", "library checkout")
	out := flag.String("out", "GenCtor.v", "Gallina output")
	report := flag.String("report", "", "JSON report")
	flag.Parse()
	files, _ := filepath.Glob(filepath.Join(*repo, "statistics", "generic", "*.go"))
	sort.Strings(files)
	table := map[string]*fn{}
	var fns []*fn
	for _, fp := range files {
		base := filepath.Base(fp)
		if strings.HasSuffix(base, "_test.go") || strings.HasPrefix(base, "verif_") {
			continue
		}
		file, err := parser.ParseFile(fset, fp, nil, 0)
		if err != nil {
			fmt.Fprintf(os.Stderr, "parse %s: %v\n", fp, err)
			os.Exit(2)
		}
		for _, d := range file.Decls {
			fd, ok := d.(*ast.FuncDecl)
			if !ok || fd.Recv != nil || fd.Body == nil || !(strings.HasPrefix(fd.Name.Name, "New") || strings.HasPrefix(fd.Name.Name, "new")) {
				continue
			}
			param, hasFlag := "", false
			for _, p := range fd.Type.Params.List {
				tn := ""
				if id, ok := p.Type.(*ast.Ident); ok {
					tn = id.Name
				}
				for _, nm := range p.Names {
					if (tn == "Vector" || tn == "Matrix") && param == "" {
						param = nm.Name
					}
					if tn == "bool" && nm.Name == "isLog" {
						hasFlag = true
					}
				}
			}
			if param == "" || !hasFlag {
				continue
			}
			f := &fn{Name: fd.Name.Name, Pos: pos(fd), Res: -1, vars: map[string]int{param: 0}, decl: fd, param: param, Unsupported: []string{}}
			table[f.Name] = f
			fns = append(fns, f)
		}
	}
	sort.Slice(fns, func(i, j int) bool { return fns[i].Name < fns[j].Name })
	for _, f := range fns {
		f.block(f.decl.Body, -1, false, table)
	}
	var unsupported []string
	for _, f := range fns {
		if f.Delegates != "" {
			g := table[f.Delegates]
			f.Stmts, f.Res = g.Stmts, g.Res
			f.Unsupported = append(f.Unsupported, g.Unsupported...)
		}
		if f.Res < 0 {
			f.bad(f.decl, "no result variable found")
		}
		unsupported = append(unsupported, f.Unsupported...)
	}
	var sb strings.Builder
	sb.WriteString("(* GENERATED by go2coq_c12k from statistics/generic/*.go — do not edit.\n   One entry per constructor with a container parameter and an isLog flag: (result variable, flag -> body). *)\n")
	sb.WriteString("From Coq Require Import List Arith.\nFrom ADV Require Import C12.ModelCtor.\nImport ListNotations.\n\n")
	sb.WriteString("Definition repo_ctors {A : Type} (g : nat -> list A -> list A) : list (nat * (bool -> list (@stmt A))) := [\n")
	for i, f := range fns {
		arm := func(fl int) string {
			var parts []string
			for _, s := range f.Stmts {
				if s.Flag == -1 || s.Flag == fl {
					parts = append(parts, s.Coq)
				}
			}
			return "[" + strings.Join(parts, "; ") + "]"
		}
		res := f.Res
		if res < 0 {
			res = 0
		}
		fmt.Fprintf(&sb, "  (* %d %s %s *)\n  (%d, fun isLog : bool => if isLog then %s else %s)", i, f.Name, f.Pos, res, arm(1), arm(0))
		if i+1 < len(fns) {
			sb.WriteString(";")
		}
		sb.WriteString("\n")
	}
	sb.WriteString("].\n")
	names := make([]string, len(fns))
	for i, f := range fns {
		names[i] = f.Name
	}
	fmt.Fprintf(&sb, "Definition repo_ctor_count : nat := %d.\n", len(fns))
	if err := os.WriteFile(*out, []byte(sb.String()), 0644); err != nil {
		fmt.Fprintln(os.Stderr, err)
		os.Exit(2)
	}
	if *report != "" {
		sort.Strings(unsupported)
		if unsupported == nil {
			unsupported = []string{}
		}
		b, _ := json.MarshalIndent(map[string]interface{}{"ok": len(unsupported) == 0 && len(fns) > 0, "functions": fns, "names": names, "unsupported": unsupported}, "", " ")
		os.WriteFile(*report, b, 0644)
	}
}
