module go2coq_c12

go 1.14
