// go2coq_c12 — what do the algorithm entry points do with their option lists?
//
// Every function of <repo>/algorithm/* with a variadic `...interface{}` parameter is
// translated into the statement list of coq/C12/ModelArgs.v: how the function uses the slice
// header it received (variable 0) and every local []interface{} variable (range / read,
// fresh literal, append, element store, alias / reslice, forwarding with `v...`, call with
// explicit elements, anything else = escape).  The list is flow-insensitive; ModelArgs.exec
// runs the statements in any order, any number of times.  coq/C12/ProofsArgs.v proves that a
// program accepted by ModelArgs.args_safe never writes an array that existed when the entry
// point was called; the plugin evaluates args_safe on the regenerated program on every run.
//
// Only the Go standard library is used.  Constructs outside the accepted grammar yield
// SEscape (treated as "may write the whole capacity window") or are listed under
// "unsupported" in the report, which fails the check.
package main

import (
	"encoding/json"
	"flag"
	"fmt"
	"go/ast"
	"go/parser"
	"go/token"
	"os"
	"path/filepath"
	"sort"
	"strings"
)

type stmtOut struct {
	Coq  string `json:"coq"`
	Pos  string `json:"pos"`
	Text string `json:"text"`
}

type fnOut struct {
	Index    int       `json:"index"`
	Name     string    `json:"name"` // pkg.Func
	Param    string    `json:"param"`
	Exported bool      `json:"exported"`
	File     string    `json:"file"`
	Vars     []string  `json:"vars"`
	Stmts    []stmtOut `json:"stmts"`
}

type fnInfo struct {
	key      string
	pkg      string
	decl     *ast.FuncDecl
	file     *ast.File
	fname    string // relative path
	param    string
	variadic bool
	out      *fnOut
}

var fset = token.NewFileSet()
var unsupported []string

func isEmptyInterface(e ast.Expr) bool {
	it, ok := e.(*ast.InterfaceType)
	return ok && (it.Methods == nil || len(it.Methods.List) == 0)
}

func isIfaceSliceType(e ast.Expr) bool {
	at, ok := e.(*ast.ArrayType)
	return ok && at.Len == nil && isEmptyInterface(at.Elt)
}

// the option-list parameter: a final `name ...interface{}` (variadic) or `name []interface{}`
func variadicParam(fd *ast.FuncDecl) (string, bool) {
	ps := fd.Type.Params
	if ps == nil || len(ps.List) == 0 {
		return "", false
	}
	last := ps.List[len(ps.List)-1]
	if len(last.Names) != 1 {
		return "", false
	}
	if el, ok := last.Type.(*ast.Ellipsis); ok && isEmptyInterface(el.Elt) {
		return last.Names[0].Name, true
	}
	if isIfaceSliceType(last.Type) {
		return last.Names[0].Name, false
	}
	return "", false
}

type tr struct {
	fn      *fnInfo
	table   map[string]*fnInfo
	imports map[string]string // alias -> algorithm package
	vars    map[string]int
	names   []string
	used    map[*ast.Ident]bool
	stmts   []stmtOut
}

func (t *tr) v(name string) int {
	if i, ok := t.vars[name]; ok {
		return i
	}
	i := len(t.names)
	t.vars[name] = i
	t.names = append(t.names, name)
	return i
}

func (t *tr) tmp() int {
	i := len(t.names)
	t.names = append(t.names, fmt.Sprintf("_tmp%d", i))
	return i
}

func (t *tr) tracked(e ast.Expr) (*ast.Ident, bool) {
	id, ok := e.(*ast.Ident)
	if !ok {
		return nil, false
	}
	_, ok = t.vars[id.Name]
	return id, ok
}

func src(n ast.Node) string {
	p1, p2 := fset.Position(n.Pos()), fset.Position(n.End())
	b, err := os.ReadFile(p1.Filename)
	if err != nil || p2.Offset > len(b) {
		return ""
	}
	s := strings.Join(strings.Fields(string(b[p1.Offset:p2.Offset])), " ")
	if len(s) > 90 {
		s = s[:90] + ".."
	}
	return s
}

func (t *tr) emit(n ast.Node, format string, a ...interface{}) {
	p := fset.Position(n.Pos())
	t.stmts = append(t.stmts, stmtOut{Coq: fmt.Sprintf(format, a...), Pos: fmt.Sprintf("%s:%d", t.fn.fname, p.Line), Text: src(n)})
}

// is e an expression of type []interface{} that we understand?  returns kind:
// "var" (tracked ident), "slice" (reslice of a tracked ident), "fresh" (literal / make / nil), "append", ""
func (t *tr) sliceKind(e ast.Expr) string {
	switch x := e.(type) {
	case *ast.ParenExpr:
		return t.sliceKind(x.X)
	case *ast.Ident:
		if _, ok := t.vars[x.Name]; ok {
			return "var"
		}
	case *ast.SliceExpr:
		if _, ok := t.tracked(x.X); ok {
			return "slice"
		}
	case *ast.CompositeLit:
		if x.Type != nil && isIfaceSliceType(x.Type) {
			return "fresh"
		}
	case *ast.CallExpr:
		if id, ok := x.Fun.(*ast.Ident); ok {
			if id.Name == "make" && len(x.Args) > 0 && isIfaceSliceType(x.Args[0]) {
				return "fresh"
			}
			if id.Name == "append" && len(x.Args) > 0 && t.sliceKind(x.Args[0]) != "" {
				return "append"
			}
		}
	}
	return ""
}

// discover the local []interface{} variables (fixpoint over the body)
func (t *tr) discover(body *ast.BlockStmt) {
	for changed := true; changed; {
		changed = false
		ast.Inspect(body, func(n ast.Node) bool {
			switch x := n.(type) {
			case *ast.AssignStmt:
				if len(x.Lhs) != len(x.Rhs) {
					return true
				}
				for i := range x.Lhs {
					id, ok := x.Lhs[i].(*ast.Ident)
					if !ok || id.Name == "_" {
						continue
					}
					if _, known := t.vars[id.Name]; known {
						continue
					}
					if t.sliceKind(x.Rhs[i]) != "" {
						t.v(id.Name)
						changed = true
					}
				}
			case *ast.ValueSpec:
				isSl := x.Type != nil && isIfaceSliceType(x.Type)
				for i, id := range x.Names {
					if _, known := t.vars[id.Name]; known || id.Name == "_" {
						continue
					}
					if isSl || (i < len(x.Values) && t.sliceKind(x.Values[i]) != "") {
						t.v(id.Name)
						changed = true
					}
				}
			}
			return true
		})
	}
}

// value of a slice-typed expression into variable dst
func (t *tr) assign(n ast.Node, dst int, rhs ast.Expr) {
	switch x := rhs.(type) {
	case *ast.ParenExpr:
		t.assign(n, dst, x.X)
		return
	case *ast.Ident:
		t.used[x] = true
		t.emit(n, "SAlias %d %d", dst, t.vars[x.Name])
		return
	case *ast.SliceExpr:
		id, _ := t.tracked(x.X)
		t.used[id] = true
		t.emit(n, "SAlias %d %d", dst, t.vars[id.Name])
		return
	case *ast.CompositeLit:
		t.emit(n, "SFresh %d", dst)
		return
	case *ast.CallExpr:
		id := x.Fun.(*ast.Ident)
		if id.Name == "make" {
			t.emit(n, "SFresh %d", dst)
			return
		}
		// append(first, ...)
		first := x.Args[0]
		var s int
		switch t.sliceKind(first) {
		case "var":
			fid, _ := t.tracked(first)
			t.used[fid] = true
			s = t.vars[fid.Name]
		default:
			s = t.tmp()
			t.assign(first, s, first)
		}
		if x.Ellipsis.IsValid() && len(x.Args) == 2 {
			if oid, ok := t.tracked(x.Args[1]); ok {
				t.used[oid] = true
				t.emit(x.Args[1], "SRange %d", t.vars[oid.Name])
			}
		}
		t.emit(n, "SAppend %d %d", dst, s)
		return
	}
	unsupported = append(unsupported, fmt.Sprintf("%s: slice expression %q", fset.Position(rhs.Pos()), src(rhs)))
}

func (t *tr) callee(fun ast.Expr) *fnInfo {
	switch f := fun.(type) {
	case *ast.Ident:
		return t.table[t.fn.pkg+"."+f.Name]
	case *ast.SelectorExpr:
		if p, ok := f.X.(*ast.Ident); ok {
			if pkg, ok := t.imports[p.Name]; ok {
				return t.table[pkg+"."+f.Sel.Name]
			}
		}
	}
	return nil
}

func (t *tr) walk(body *ast.BlockStmt) {
	ast.Inspect(body, func(n ast.Node) bool {
		switch x := n.(type) {
		case *ast.SelectorExpr:
			t.used[x.Sel] = true // field / method name, not a variable
		case *ast.KeyValueExpr:
			if id, ok := x.Key.(*ast.Ident); ok {
				t.used[id] = true
			}
		case *ast.RangeStmt:
			if id, ok := t.tracked(x.X); ok {
				t.used[id] = true
				t.emit(x.X, "SRange %d", t.vars[id.Name])
			}
		case *ast.ValueSpec:
			for i, id := range x.Names {
				if _, ok := t.vars[id.Name]; !ok {
					continue
				}
				t.used[id] = true
				if i < len(x.Values) && t.sliceKind(x.Values[i]) != "" {
					t.assign(x, t.vars[id.Name], x.Values[i])
				} else if len(x.Values) == 0 {
					t.emit(x, "SFresh %d", t.vars[id.Name])
				}
			}
		case *ast.AssignStmt:
			if len(x.Lhs) != len(x.Rhs) {
				return true
			}
			for i := range x.Lhs {
				// element store
				if ix, ok := x.Lhs[i].(*ast.IndexExpr); ok {
					if id, ok := t.tracked(ix.X); ok {
						t.used[id] = true
						t.emit(x, "SStore %d", t.vars[id.Name])
					}
					continue
				}
				kind := t.sliceKind(x.Rhs[i])
				lid, isId := x.Lhs[i].(*ast.Ident)
				if kind == "" {
					if isId {
						if _, ok := t.vars[lid.Name]; ok {
							if r, ok := x.Rhs[i].(*ast.Ident); ok && r.Name == "nil" {
								t.used[lid] = true
								t.emit(x, "SFresh %d", t.vars[lid.Name])
							} else {
								unsupported = append(unsupported, fmt.Sprintf("%s: option list assigned from %q", fset.Position(x.Pos()), src(x.Rhs[i])))
							}
						}
					}
					continue
				}
				var dst int
				if isId && lid.Name != "_" {
					if _, ok := t.vars[lid.Name]; ok {
						dst = t.vars[lid.Name]
						t.used[lid] = true
					} else {
						dst = t.tmp()
					}
				} else {
					// stored somewhere else (struct field, element): the value escapes
					dst = t.tmp()
					t.assign(x, dst, x.Rhs[i])
					t.emit(x, "SEscape %d", dst)
					continue
				}
				t.assign(x, dst, x.Rhs[i])
			}
		case *ast.IndexExpr:
			if id, ok := t.tracked(x.X); ok && !t.used[id] {
				t.used[id] = true
				t.emit(x, "SRange %d", t.vars[id.Name])
			}
		case *ast.BinaryExpr:
			for _, side := range []ast.Expr{x.X, x.Y} {
				if id, ok := t.tracked(side); ok && (x.Op == token.EQL || x.Op == token.NEQ) {
					t.used[id] = true
					t.emit(x, "SRange %d", t.vars[id.Name])
				}
			}
		case *ast.CallExpr:
			if id, ok := x.Fun.(*ast.Ident); ok {
				switch id.Name {
				case "len", "cap":
					if len(x.Args) == 1 {
						if a, ok := t.tracked(x.Args[0]); ok {
							t.used[a] = true
							t.emit(x, "SRange %d", t.vars[a.Name])
						}
					}
					return true
				case "copy":
					if len(x.Args) == 2 {
						if a, ok := t.tracked(x.Args[0]); ok {
							t.used[a] = true
							t.emit(x, "SStore %d", t.vars[a.Name])
						}
						if a, ok := t.tracked(x.Args[1]); ok {
							t.used[a] = true
							t.emit(x, "SRange %d", t.vars[a.Name])
						}
					}
					return true
				case "append", "make":
					return true // handled where the value goes; a bare occurrence leaves its idents unused -> escape
				}
			}
			g := t.callee(x.Fun)
			if g == nil {
				return true
			}
			if x.Ellipsis.IsValid() || (!g.variadic && len(x.Args) > 0) {
				// `g(.., v...)` or a plain []interface{} parameter: the callee receives the header itself
				last := x.Args[len(x.Args)-1]
				switch t.sliceKind(last) {
				case "var":
					id, _ := t.tracked(last)
					t.used[id] = true
					t.emit(x, "SCallSpread %d %d", g.out.Index, t.vars[id.Name])
				case "":
					unsupported = append(unsupported, fmt.Sprintf("%s: spread of %q", fset.Position(x.Pos()), src(last)))
				default:
					d := t.tmp()
					t.assign(last, d, last)
					t.emit(x, "SCallSpread %d %d", g.out.Index, d)
				}
			} else {
				t.emit(x, "SCallFresh %d", g.out.Index)
			}
		}
		return true
	})
	// every other occurrence of a tracked variable
	ast.Inspect(body, func(n ast.Node) bool {
		if id, ok := n.(*ast.Ident); ok && !t.used[id] {
			if _, ok := t.vars[id.Name]; ok {
				t.used[id] = true
				t.emit(id, "SEscape %d", t.vars[id.Name])
			}
		}
		return true
	})
}

func main() {
	repo := flag.String("repo", "/repo", "library checkout")
	out := flag.String("out", "GenArgs.v", "Gallina output")
	report := flag.String("report", "", "JSON report")
	insitu := flag.String("insitu", "", "Gallina output for the stores into InSitu structs (GenInSitu.v)")
	flag.Parse()
	var stores []isStore
	var naming []string

	dirs, _ := filepath.Glob(filepath.Join(*repo, "algorithm", "*"))
	sort.Strings(dirs)
	table := map[string]*fnInfo{}
	var fns []*fnInfo
	fileImports := map[*ast.File]map[string]string{}
	nfiles := 0
	typeSwitchOnSlice := []string{}
	for _, d := range dirs {
		st, err := os.Stat(d)
		if err != nil || !st.IsDir() {
			continue
		}
		files, _ := filepath.Glob(filepath.Join(d, "*.go"))
		sort.Strings(files)
		for _, fp := range files {
			base := filepath.Base(fp)
			if strings.HasSuffix(base, "_test.go") || strings.HasPrefix(base, "verif_") {
				continue
			}
			f, err := parser.ParseFile(fset, fp, nil, 0)
			if err != nil {
				fmt.Fprintf(os.Stderr, "parse %s: %v\n", fp, err)
				os.Exit(2)
			}
			nfiles++
			rel, _ := filepath.Rel(*repo, fp)
			imp := map[string]string{}
			for _, is := range f.Imports {
				p := strings.Trim(is.Path.Value, "\"")
				if !strings.Contains(p, "/algorithm/") {
					continue
				}
				name := p[strings.LastIndex(p, "/")+1:]
				alias := name
				if is.Name != nil {
					alias = is.Name.Name
				}
				imp[alias] = name
			}
			fileImports[f] = imp
			pkg := filepath.Base(d)
			for _, dcl := range f.Decls {
				fd, ok := dcl.(*ast.FuncDecl)
				if !ok || fd.Body == nil {
					continue
				}
				scanInSitu(pkg, rel, fd, &stores, &naming)
				// a callee that digs a slice out of an element would defeat the per-variable analysis
				ast.Inspect(fd.Body, func(n ast.Node) bool {
					if cc, ok := n.(*ast.CaseClause); ok {
						for _, e := range cc.List {
							if isIfaceSliceType(e) {
								typeSwitchOnSlice = append(typeSwitchOnSlice, fset.Position(e.Pos()).String())
							}
						}
					}
					if ta, ok := n.(*ast.TypeAssertExpr); ok && ta.Type != nil && isIfaceSliceType(ta.Type) {
						typeSwitchOnSlice = append(typeSwitchOnSlice, fset.Position(ta.Pos()).String())
					}
					return true
				})
				p, variadic := variadicParam(fd)
				if p == "" {
					continue
				}
				name := fd.Name.Name
				if fd.Recv != nil && len(fd.Recv.List) == 1 {
					rt := fd.Recv.List[0].Type
					if s, ok := rt.(*ast.StarExpr); ok {
						rt = s.X
					}
					if id, ok := rt.(*ast.Ident); ok {
						name = id.Name + "." + name
					}
				}
				fi := &fnInfo{key: pkg + "." + name, pkg: pkg, decl: fd, file: f, fname: rel, param: p, variadic: variadic}
				table[fi.key] = fi
				fns = append(fns, fi)
			}
		}
	}
	sort.Slice(fns, func(i, j int) bool { return fns[i].key < fns[j].key })
	for i, f := range fns {
		f.out = &fnOut{Index: i, Name: f.key, Param: f.param, Exported: ast.IsExported(f.decl.Name.Name) && f.decl.Recv == nil, File: f.fname}
	}
	for _, f := range fns {
		t := &tr{fn: f, table: table, imports: fileImports[f.file], vars: map[string]int{}, used: map[*ast.Ident]bool{}}
		t.v(f.param)
		// the declaration of the parameter itself is not a use
		ps := f.decl.Type.Params.List
		t.used[ps[len(ps)-1].Names[0]] = true
		t.discover(f.decl.Body)
		t.walk(f.decl.Body)
		f.out.Vars = t.names
		f.out.Stmts = t.stmts
	}
	for _, p := range typeSwitchOnSlice {
		unsupported = append(unsupported, p+": type switch / assertion on []interface{} (an option list passed as ONE element could be written by the callee)")
	}

	var sb strings.Builder
	sb.WriteString("(* GENERATED by go2coq_c12 from the functions of algorithm/* that take `args ...interface{}`; do not edit.\n")
	sb.WriteString("   One statement list per function (ModelArgs.stmt), variable 0 = the variadic parameter. *)\n")
	sb.WriteString("From Coq Require Import List.\nFrom ADV Require Import C12.ModelArgs.\nImport ListNotations.\n\n")
	sb.WriteString("Definition repo_prog : prog := [\n")
	for i, f := range fns {
		fmt.Fprintf(&sb, "  (* %d %s(%s %sinterface{})%s  vars: %s *)\n  [", i, f.key, f.param, map[bool]string{true: "...", false: "[]"}[f.variadic], map[bool]string{true: " ROOT", false: ""}[f.out.Exported], strings.Join(f.out.Vars, " "))
		for j, s := range f.out.Stmts {
			if j > 0 {
				sb.WriteString("; ")
			}
			sb.WriteString(s.Coq)
		}
		sb.WriteString("]")
		if i+1 < len(fns) {
			sb.WriteString(";")
		}
		sb.WriteString("\n")
	}
	sb.WriteString("].\n\nDefinition repo_roots : list nat := [")
	first := true
	roots := []string{}
	for i, f := range fns {
		if f.out.Exported {
			if !first {
				sb.WriteString("; ")
			}
			first = false
			fmt.Fprintf(&sb, "%d", i)
			roots = append(roots, f.key)
		}
	}
	sb.WriteString("].\n")
	if err := os.WriteFile(*out, []byte(sb.String()), 0644); err != nil {
		fmt.Fprintln(os.Stderr, err)
		os.Exit(2)
	}
	if *report != "" {
		outs := make([]*fnOut, len(fns))
		for i, f := range fns {
			outs[i] = f.out
		}
		nst := 0
		for _, f := range outs {
			nst += len(f.Stmts)
		}
		sort.Strings(unsupported)
		if *insitu != "" {
			if err := os.WriteFile(*insitu, []byte(emitInSitu(stores)), 0644); err != nil {
				fmt.Fprintln(os.Stderr, err)
				os.Exit(2)
			}
		}
		for _, s := range naming {
			unsupported = append(unsupported, s)
		}
		sort.Strings(unsupported)
		rep := map[string]interface{}{"insitu_stores": stores, "ok": len(unsupported) == 0, "files": nfiles, "functions": outs, "roots": roots,
			"statements": nst, "unsupported": unsupported}
		b, _ := json.MarshalIndent(rep, "", " ")
		os.WriteFile(*report, b, 0644)
	}
}
