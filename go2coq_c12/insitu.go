// Stores into the caller's InSitu struct:  inSitu.<field> = <expr>  (see coq/C12/ModelIS.v).
//
// Every assignment of algorithm/* whose left-hand side is a selector chain rooted at the
// identifier `inSitu` (the library's convention for the work-space struct, checked: every
// variable / parameter of a type named InSitu must be called inSitu) is emitted with the class
// of its right-hand side: RFresh (Null*/New*/Clone*/As* call, composite literal), RNone (nil,
// boolean, number), RField (rooted at inSitu, or a view of that), RParam (a parameter, an
// option value, a range / type-switch variable over one, or a view of one), ROther.
package main

import (
	"fmt"
	"go/ast"
	"go/token"
	"sort"
	"strings"
)

const (
	cNone = iota
	cFresh
	cField
	cParam
	cOther
)

var className = []string{"RNone", "RFresh", "RField", "RParam", "ROther"}

var viewMethods = map[string]bool{"Slice": true, "T": true, "Row": true, "Col": true, "Diag": true, "ROW": true, "COL": true,
	"DIAG": true, "AsVector": true, "AsMatrix": true, "ConstSlice": true, "ConstRow": true, "ConstCol": true, "ConstDiag": true,
	"At": true, "ConstAt": true, "AT": true, "AsConstVector": true, "AsConstMatrix": true, "MagicT": true, "MagicSlice": true}

type isStore struct {
	Field string `json:"field"`
	Class string `json:"class"`
	Pos   string `json:"pos"`
	Text  string `json:"text"`
	Func  string `json:"func"`
}

type isCtx struct {
	params map[string]bool
	locals map[string]int
}

func rootIdent(e ast.Expr) *ast.Ident {
	for {
		switch x := e.(type) {
		case *ast.SelectorExpr:
			e = x.X
		case *ast.ParenExpr:
			e = x.X
		case *ast.StarExpr:
			e = x.X
		case *ast.IndexExpr:
			e = x.X
		case *ast.Ident:
			return x
		default:
			return nil
		}
	}
}

func (c *isCtx) identClass(id *ast.Ident) int {
	switch id.Name {
	case "nil", "true", "false":
		return cNone
	case "inSitu":
		return cField
	}
	if v, ok := c.locals[id.Name]; ok {
		return v
	}
	if c.params[id.Name] {
		return cParam
	}
	return cOther
}

func (c *isCtx) class(e ast.Expr) int {
	switch x := e.(type) {
	case *ast.BasicLit:
		return cNone
	case *ast.Ident:
		return c.identClass(x)
	case *ast.ParenExpr:
		return c.class(x.X)
	case *ast.StarExpr:
		return c.class(x.X)
	case *ast.UnaryExpr:
		if x.Op == token.AND {
			return c.class(x.X)
		}
		return cNone
	case *ast.BinaryExpr:
		return cNone
	case *ast.TypeAssertExpr:
		return c.class(x.X)
	case *ast.CompositeLit:
		return cFresh
	case *ast.FuncLit:
		return cOther
	case *ast.IndexExpr:
		return c.class(x.X)
	case *ast.SelectorExpr:
		if r := rootIdent(x); r != nil {
			return c.identClass(r)
		}
		return cOther
	case *ast.CallExpr:
		name := ""
		var recv ast.Expr
		switch f := x.Fun.(type) {
		case *ast.Ident:
			name = f.Name
		case *ast.SelectorExpr:
			name = f.Sel.Name
			recv = f.X
		}
		for _, p := range []string{"Null", "New", "Clone", "As", "make"} {
			if strings.HasPrefix(name, p) {
				return cFresh
			}
		}
		if recv != nil && viewMethods[name] {
			return c.class(recv)
		}
		return cOther
	}
	return cOther
}

func join(a, b int) int {
	if a > b {
		return a
	}
	return b
}

func scanInSitu(pkg, rel string, fd *ast.FuncDecl, out *[]isStore, naming *[]string) {
	c := &isCtx{params: map[string]bool{}, locals: map[string]int{}}
	isInSituType := func(t ast.Expr) bool {
		if s, ok := t.(*ast.StarExpr); ok {
			t = s.X
		}
		switch x := t.(type) {
		case *ast.Ident:
			return x.Name == "InSitu"
		case *ast.SelectorExpr:
			return x.Sel.Name == "InSitu"
		}
		return false
	}
	for _, fl := range []*ast.FieldList{fd.Type.Params, fd.Recv} {
		if fl == nil {
			continue
		}
		for _, f := range fl.List {
			for _, n := range f.Names {
				c.params[n.Name] = true
				if isInSituType(f.Type) && n.Name != "inSitu" {
					*naming = append(*naming, fmt.Sprintf("%s: parameter %s of type InSitu is not called inSitu", fset.Position(n.Pos()), n.Name))
				}
			}
		}
	}
	structIsParam := c.params["inSitu"]
	delete(c.params, "inSitu")
	// is the struct the function works on possibly the caller's?  (a parameter, or assigned from an option value);
	// a struct built locally and never re-assigned (getEigenvector's backSubstitution.InSitu{}) is the function's own:
	// there the function IS the caller who places buffers himself
	structCls := cNone
	// locals: flow-insensitive join of the classes of everything assigned to them
	def := func(lhs ast.Expr, cls int) bool {
		id, ok := lhs.(*ast.Ident)
		if ok && id.Name == "inSitu" {
			if n := join(structCls, cls); n != structCls {
				structCls = n
				return true
			}
			return false
		}
		if !ok || id.Name == "_" || c.params[id.Name] {
			return false
		}
		old, known := c.locals[id.Name]
		if n := join(old, cls); !known || n != old {
			c.locals[id.Name] = n
			return true
		}
		return false
	}
	for changed := true; changed; {
		changed = false
		ast.Inspect(fd.Body, func(n ast.Node) bool {
			switch x := n.(type) {
			case *ast.AssignStmt:
				if len(x.Lhs) == len(x.Rhs) {
					for i := range x.Lhs {
						if def(x.Lhs[i], c.class(x.Rhs[i])) {
							changed = true
						}
					}
				} else if len(x.Rhs) == 1 {
					cls := c.class(x.Rhs[0])
					if _, isCall := x.Rhs[0].(*ast.CallExpr); isCall && cls == cOther {
						// results of an unknown call: results of library algorithms are either new or part of their own
						// InSitu struct; classified as "other" only when they reach a store
						cls = cOther
					}
					for _, l := range x.Lhs {
						if def(l, cls) {
							changed = true
						}
					}
				}
			case *ast.ValueSpec:
				for i, id := range x.Names {
					cls := cNone
					if i < len(x.Values) {
						cls = c.class(x.Values[i])
					}
					if def(id, cls) {
						changed = true
					}
				}
			case *ast.RangeStmt:
				cls := c.class(x.X)
				for _, l := range []ast.Expr{x.Key, x.Value} {
					if l != nil && x.Tok == token.DEFINE && def(l, cls) {
						changed = true
					}
				}
			case *ast.TypeSwitchStmt:
				if as, ok := x.Assign.(*ast.AssignStmt); ok && len(as.Lhs) == 1 && len(as.Rhs) == 1 {
					if def(as.Lhs[0], c.class(as.Rhs[0])) {
						changed = true
					}
				}
			}
			return true
		})
	}
	// a local of type InSitu with another name
	ast.Inspect(fd.Body, func(n ast.Node) bool {
		if as, ok := n.(*ast.AssignStmt); ok && as.Tok == token.DEFINE && len(as.Lhs) == len(as.Rhs) {
			for i := range as.Lhs {
				r := as.Rhs[i]
				if u, ok := r.(*ast.UnaryExpr); ok && u.Op == token.AND {
					r = u.X
				}
				if cl, ok := r.(*ast.CompositeLit); ok && cl.Type != nil && isInSituType(cl.Type) {
					if id, ok := as.Lhs[i].(*ast.Ident); ok && id.Name != "inSitu" {
						*naming = append(*naming, fmt.Sprintf("%s: variable %s of type InSitu is not called inSitu", fset.Position(id.Pos()), id.Name))
					}
				}
			}
		}
		return true
	})
	if !structIsParam && structCls <= cFresh {
		return // private struct
	}
	// the stores
	ast.Inspect(fd.Body, func(n ast.Node) bool {
		as, ok := n.(*ast.AssignStmt)
		if !ok {
			return true
		}
		for i, l := range as.Lhs {
			sel, ok := l.(*ast.SelectorExpr)
			if !ok {
				continue
			}
			if r := rootIdent(sel); r == nil || r.Name != "inSitu" {
				continue
			}
			cls := cOther
			if len(as.Lhs) == len(as.Rhs) {
				cls = c.class(as.Rhs[i])
			}
			p := fset.Position(as.Pos())
			*out = append(*out, isStore{Field: pkg + ":" + strings.TrimPrefix(src(sel), "inSitu."), Class: className[cls],
				Pos: fmt.Sprintf("%s:%d", rel, p.Line), Text: src(as), Func: pkg + "." + fd.Name.Name})
		}
		return true
	})
}

func emitInSitu(stores []isStore) string {
	fields := map[string]int{}
	var names []string
	for _, s := range stores {
		if _, ok := fields[s.Field]; !ok {
			names = append(names, s.Field)
		}
		fields[s.Field] = 0
	}
	sort.Strings(names)
	for i, n := range names {
		fields[n] = i
	}
	var sb strings.Builder
	sb.WriteString("(* GENERATED by go2coq_c12 from every assignment `inSitu.<field> = <expr>` of algorithm/*; do not edit. *)\n")
	sb.WriteString("From Coq Require Import List.\nFrom ADV Require Import C12.ModelIS.\nImport ListNotations.\n\n")
	sb.WriteString("Definition repo_insitu_stores : list istore := [\n")
	for i, s := range stores {
		sep := ";"
		if i+1 == len(stores) {
			sep = ""
		}
		fmt.Fprintf(&sb, "  (%d, %s)%s  (* %s  %s *)\n", fields[s.Field], s.Class, sep, s.Pos, strings.ReplaceAll(strings.ReplaceAll(strings.ReplaceAll(s.Text, "(*", "( *"), "*)", "* )"), "\"", "'"))
	}
	sb.WriteString("].\n")
	return sb.String()
}
