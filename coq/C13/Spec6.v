(* C13 (round 6) — references for the regime where the RESULT is near zero, and for integer-order Bessel functions.

   (A) integer-order I_n(x): the power series of Spec3.bessel_term, enclosed by a partial sum plus a geometric bound
       of the tail (ProofsAnchors6.bessel_series_enclosure).  Reference of BesselI / LogBesselI at integer order, in
       particular of ln I_0(x) = x^2/4 - ... for tiny x where the result itself is tiny.
   (B) the standard model of binary floating-point arithmetic (every operation returns the exact result times
       (1 + delta), |delta| <= u) applied to the text of LogAdd / LogSub: the computed value is within
       la_bound / ls_bound of ln(e^a + e^b) / ln(e^a - e^b) -- a bound RELATIVE TO THE RESULT plus the
       conditioning of the log1p term, not an absolute one.  These are the tolerances of the round-6 anchors.
   Purely additive. *)
From Coq Require Import ZArith QArith Reals List Bool.
From Coquelicot Require Import Coquelicot.
From ADV Require Import Base.Num C13.Model C13.Spec C13.Spec3.
Local Open Scope R_scope.

(* ---- (A) ---- *)
Definition bessel_partial (n : nat) (x : R) (K : nat) : R := sumf (bessel_term n x) K.
(* ratio of consecutive terms at index K: t_{K+1}/t_K = (x/2)^2 / ((K+1)(n+K+1)), decreasing in K *)
Definition bessel_q (n : nat) (x : R) (K : nat) : R :=
  (x / 2) ^ 2 / (IZR (Z.of_nat (S K)) * IZR (Z.of_nat (S (n + K)))).
Definition bessel_rad (n : nat) (x : R) (K : nat) : R := bessel_term n x K / (1 - bessel_q n x K).

(* linear-size nested form of the partial sum:  sum_{i<j} t_{k+i} = t_k * bessel_nest n ((x/2)^2) j k *)
Fixpoint bessel_nest (n : nat) (y : R) (j k : nat) : R :=
  match j with
  | O => 0
  | S j' => 1 + y / (IZR (Z.of_nat (S k)) * IZR (Z.of_nat (S (n + k)))) * bessel_nest n y j' (S k)
  end.
Definition bessel_partial_nest (n : nat) (x : R) (K : nat) : R := bessel_term n x 0 * bessel_nest n ((x / 2) ^ 2) K 0.

(* ---- (B) ---- *)
(* text of LogAdd after the swap (a <= b, both finite):  b + log1p(exp(a - b))  with one rounding per operation *)
Definition la_float (d1 d2 d3 d4 : R) (a b : R) : R :=
  (b + ln (1 + exp ((a - b) * (1 + d1)) * (1 + d2)) * (1 + d3)) * (1 + d4).
Definition la_exact (a b : R) : R := b + ln (1 + exp (a - b)).
(* error bound: u (|result| + ...) + (log1p term) * (relative perturbation of exp: rounding of a - b scaled by |a-b|, exp, log1p) *)
Definition la_pert (u : R) (a b : R) : R := exp (Rabs (a - b) * u) * (1 + u) - 1.
Definition la_bound (u : R) (a b : R) : R :=
  u * Rabs (la_exact a b) + (1 + u) * (u + (1 + u) * la_pert u a b) * exp (a - b).

(* text of LogSub (b < a, both finite):  a + log1p(-exp(b - a)) *)
Definition ls_float (d1 d2 d3 d4 : R) (a b : R) : R :=
  (a + ln (1 - exp ((b - a) * (1 + d1)) * (1 + d2)) * (1 + d3)) * (1 + d4).
Definition ls_exact (a b : R) : R := a + ln (1 - exp (b - a)).
Definition ls_bound (u : R) (a b : R) : R :=
  u * Rabs (ls_exact a b) +
  (1 + u) * (u * - ln (1 - exp (b - a)) +
             (1 + u) * (exp (b - a) * la_pert u b a / (1 - exp (b - a) * (1 + la_pert u b a)))).
