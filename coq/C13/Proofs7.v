(* C13 (round 7) — proofs about Model7.v. *)
From Coq Require Import Reals List Lra Bool.
From Interval Require Import Tactic.
From ADV Require Import Base.Num C13.Model C13.Spec C13.Model7.
Import ListNotations.
Local Open Scope R_scope.

Lemma pfx_log_direct : forall a z, 0 < a -> 0 < z -> pfx_log a z = pfx_direct a z.
Proof.
  intros a z Ha Hz. unfold pfx_log, pfx_direct, Rpower. rewrite exp_plus. reflexivity.
Qed.

Lemma pfx_scaled_direct : forall a z, 0 < a -> 0 < z -> pfx_scaled a z = pfx_direct a z.
Proof.
  intros a z Ha Hz. unfold pfx_scaled, pfx_direct, Rpower.
  assert (Hq : 0 < z / a) by (apply Rdiv_lt_0_compat; assumption).
  rewrite ln_mult by (try assumption; apply exp_pos).
  rewrite ln_exp. rewrite <- exp_plus. f_equal. field. lra.
Qed.

Lemma reg_prefix_large_value : forall a z sum, 0 < a -> 0 < z ->
  reg_prefix_large a z sum = Rpower (z / a) a * exp (a - z) / sum.
Proof.
  intros a z sum Ha Hz. unfold reg_prefix_large. cbv zeta.
  destruct (orb (rleb (Rmin (a * ln (z / a)) (a - z)) MinLog7) (rleb MaxLog7 (Rmax (a * ln (z / a)) (a - z)))) eqn:E1.
  - destruct (orb (rleb ((a - z) / a) MinLog7) (rleb MaxLog7 ((a - z) / a))) eqn:E2.
    + rewrite pfx_log_direct by assumption. reflexivity.
    + rewrite pfx_scaled_direct by assumption. reflexivity.
  - reflexivity.
Qed.

Lemma reg_prefix_small_value : forall a z sum, 0 < a -> 0 < z ->
  reg_prefix_small a z sum = Rpower (z / 10) a * exp (10 - z) / sum.
Proof.
  intros a z sum Ha Hz. unfold reg_prefix_small. cbv zeta.
  destruct (Req_EM_T 0 (Rpower (z / 10) a * exp (10 - z))) as [E|E]; [|reflexivity].
  exfalso. assert (H : 0 < Rpower (z / 10) a * exp (10 - z)).
  { apply Rmult_lt_0_compat; [unfold Rpower|]; apply exp_pos. }
  lra.
Qed.

(* the fallback of the small-a branch is the same value too (it is dead code over R, live in binary64) *)
Lemma reg_prefix_small_fallback : forall a z, 0 < a -> 0 < z ->
  Rpower (z * exp ((10 - z) / a) / 10) a = Rpower (z / 10) a * exp (10 - z).
Proof.
  intros a z Ha Hz. unfold Rpower.
  replace (z * exp ((10 - z) / a) / 10) with (z / 10 * exp ((10 - z) / a)) by (field).
  rewrite ln_mult by (try apply exp_pos; lra).
  rewrite ln_exp. rewrite <- exp_plus. f_equal. field. lra.
Qed.

Lemma reg_prefix_value : forall a z sum, 0 < a -> 0 < z ->
  reg_prefix a z sum = Rpower (z / Rmax 10 a) a * exp (Rmax 10 a - z) / sum.
Proof.
  intros a z sum Ha Hz. unfold reg_prefix. destruct (Rlt_dec a 10) as [L|L].
  - rewrite Rmax_left by lra. apply reg_prefix_small_value; assumption.
  - rewrite Rmax_right by lra. apply reg_prefix_large_value; assumption.
Qed.

(* every guarded formula is selected by some argument: the far upper tail (a = 50, z = 800: a - z <= MinLog, scaled form, value
   ~ 1e-267), the direct form (a = 50, z = 60), the inner guard (a = 10, z = 8000: (a - z)/a <= MinLog, log form) *)
Lemma reg_prefix_branches_example :
  orb (rleb (Rmin (50 * ln (800 / 50)) (50 - 800)) MinLog7) (rleb MaxLog7 (Rmax (50 * ln (800 / 50)) (50 - 800))) = true /\
  orb (rleb ((50 - 800) / 50) MinLog7) (rleb MaxLog7 ((50 - 800) / 50)) = false /\
  orb (rleb (Rmin (50 * ln (60 / 50)) (50 - 60)) MinLog7) (rleb MaxLog7 (Rmax (50 * ln (60 / 50)) (50 - 60))) = false /\
  orb (rleb ((10 - 8000) / 10) MinLog7) (rleb MaxLog7 ((10 - 8000) / 10)) = true /\
  / 10 ^ 269 < Rpower (800 / 50) 50 * exp (50 - 800) < / 10 ^ 265.
Proof.
  unfold rleb, MinLog7, MaxLog7, Rpower.
  repeat split.
  - destruct (Rle_dec (Rmin (50 * ln (800 / 50)) (50 - 800)) (-709)) as [H|H]; [reflexivity|].
    exfalso. apply H. eapply Rle_trans; [apply Rmin_r|lra].
  - destruct (Rle_dec ((50 - 800) / 50) (-709)) as [H|H]; [exfalso; lra|].
    destruct (Rle_dec 709 ((50 - 800) / 50)) as [H2|H2]; [exfalso; lra|reflexivity].
  - destruct (Rle_dec (Rmin (50 * ln (60 / 50)) (50 - 60)) (-709)) as [H|H].
    + exfalso. assert (0 <= 50 * ln (60 / 50)) by interval.
      unfold Rmin in H. destruct (Rle_dec (50 * ln (60 / 50)) (50 - 60)); lra.
    + destruct (Rle_dec 709 (Rmax (50 * ln (60 / 50)) (50 - 60))) as [H2|H2]; [|reflexivity].
      exfalso. assert (50 * ln (60 / 50) <= 10) by interval.
      unfold Rmax in H2. destruct (Rle_dec (50 * ln (60 / 50)) (50 - 60)); lra.
  - destruct (Rle_dec ((10 - 8000) / 10) (-709)) as [H|H]; [reflexivity|exfalso; lra].
  - interval with (i_prec 80).
  - interval with (i_prec 80).
Qed.

(* (B) *)
Lemma bessel_large_value : forall P x, bessel_large P x = exp x * P (1 / x) / sqrt x.
Proof.
  intros P x. unfold bessel_large. cbv zeta.
  replace (exp x) with (exp (x / 2) * exp (x / 2)) by (rewrite <- exp_plus; f_equal; field).
  unfold Rdiv. ring.
Qed.

(* no intermediate of the split evaluation exceeds max(|result|, e^(x/2)): for x >= 0 the partial product is at most the result *)
Lemma bessel_large_inter_le : forall P x, 0 <= x ->
  bessel_large P x = bessel_large_inter P x * exp (x / 2) /\
  Rabs (bessel_large_inter P x) <= Rabs (bessel_large P x).
Proof.
  intros P x Hx. split; [reflexivity|].
  unfold bessel_large. cbv zeta. fold (bessel_large_inter P x).
  rewrite Rabs_mult. rewrite (Rabs_right (exp (x / 2))) by (left; apply exp_pos).
  assert (H1 : 1 <= exp (x / 2)).
  { rewrite <- exp_0. destruct (Req_dec x 0) as [->|N].
    - replace (0 / 2) with 0 by field. lra.
    - left. apply exp_increasing. lra. }
  pose proof (Rabs_pos (bessel_large_inter P x)). nra.
Qed.

(* on the window where e^x overflows binary64 and I_0 does not, e^(x/2) and the model value stay below MaxFloat64 = (2 - 2^-52) 2^1023 *)
Lemma bessel_i0_large_window_example :
  exp (7098 / 10) > (2 - / 2 ^ 52) * 2 ^ 1023 /\
  exp (7139 / 10 / 2) < 2 ^ 520 /\
  0 < bessel_i0_large (7139 / 10) < (2 - / 2 ^ 52) * 2 ^ 1023 /\
  0 < bessel_i1_large (7139 / 10) < bessel_i0_large (7139 / 10).
Proof.
  unfold bessel_i0_large, bessel_i1_large. rewrite !bessel_large_value.
  unfold i0_large_cs, i1_large_cs, poly_val.
  repeat split; interval with (i_prec 80).
Qed.
