(* C13 (round 2) — additional closed forms, in shapes Coq-Interval evaluates in
   time LINEAR in the order (the round-1 forms of Spec.v are quadratic /
   exponential in the order once unfolded):
   - Q(n, x) for integer n as a nested (Horner-like) exponential sum;
   - I_{+-(n+1/2)}(x) at a rational argument x = a/b as
       sqrt(2/(pi x)) (P_n(1/x) sinh x + Q_n(1/x) cosh x)
     with integer coefficient lists produced by the three-term recurrence and
     evaluated exactly over Z (so the goal handed to Coq-Interval contains four
     integer constants instead of n nested levels);
   - zeta at even positive and at non-positive integers (Bernoulli numbers of Spec.v).
   Purely additive: nothing of Spec.v / Model.v is changed. *)
From Coq Require Import ZArith QArith Reals List Bool.
From ADV Require Import Base.Num C13.Model C13.Spec.
Import ListNotations.
Local Open Scope R_scope.

(* ---------------- nested exponential sum ---------------- *)
(* expsum_nest x j m = sum_{k<=m} x^k (j-1)!/(j-1+k)!  ;  j = 1: sum_{k<=m} x^k/k! *)
Fixpoint expsum_nest (x : R) (j : Z) (m : nat) : R :=
  match m with
  | O => 1
  | S m' => 1 + x / IZR j * expsum_nest x (j + 1)%Z m'
  end.
(* Q(n, x), n >= 1 *)
Definition Q_int_nest (n : nat) (x : R) : R := exp (- x) * expsum_nest x 1 (n - 1).
Definition P_int_nest (n : nat) (x : R) : R := 1 - Q_int_nest n x.

(* ---------------- half-integer Bessel functions, polynomial form ---------------- *)
Fixpoint zpoly (l : list Z) (y : R) : R :=
  match l with [] => 0 | c :: r => IZR c + y * zpoly r y end.
(* a - c*b, coefficientwise, padded *)
Fixpoint zl_sub_scaled (a b : list Z) (c : Z) : list Z :=
  match a, b with
  | [], _ => map (fun z => (- (c * z))%Z) b
  | _, [] => a
  | x :: a', y :: b' => (x - c * y)%Z :: zl_sub_scaled a' b' c
  end.
(* coefficient lists (in y = 1/x) of the sinh and the cosh part: ((P_n, Q_n), (P_{n-1}, Q_{n-1})) *)
Fixpoint bes_pq (n : nat) (cur prev : list Z * list Z) : (list Z * list Z) * (list Z * list Z) :=
  match n with
  | O => (cur, prev)
  | S k =>
      let '(c, p) := bes_pq k cur prev in
      let w := (2 * Z.of_nat k + 1)%Z in
      ((zl_sub_scaled (fst p) (0%Z :: fst c) w, zl_sub_scaled (snd p) (0%Z :: snd c) w), c)
  end.
Definition bes_val (pq : list Z * list Z) (x : R) : R :=
  sqrt (2 / (PI * x)) * (zpoly (fst pq) (1 / x) * sinh x + zpoly (snd pq) (1 / x) * cosh x).
Definition half_init : (list Z * list Z) * (list Z * list Z) := (([1%Z], [0%Z]), ([0%Z], [1%Z])).
Definition mhalf_init : (list Z * list Z) * (list Z * list Z) := (([0%Z], [1%Z]), ([1%Z], [0%Z])).
Definition i_half_poly (n : nat) (x : R) : R := bes_val (fst (bes_pq n (fst half_init) (snd half_init))) x.
Definition i_mhalf_poly (n : nat) (x : R) : R := bes_val (fst (bes_pq n (fst mhalf_init) (snd mhalf_init))) x.

(* exact evaluation of zpoly l (u/v) as a fraction num/den over Z *)
Fixpoint homd (l : list Z) (u v : Z) : Z * Z :=
  match l with
  | [] => (0%Z, 1%Z)
  | c :: r => let '(n, d) := homd r u v in ((c * v * d + u * n)%Z, (v * d)%Z)
  end.
(* (NP, DP, NQ, DQ): P_n(b/a) = NP/DP, Q_n(b/a) = NQ/DQ *)
Definition bes_ints (n : nat) (a b : Z) (init : (list Z * list Z) * (list Z * list Z)) : (Z * Z) * (Z * Z) :=
  let pq := fst (bes_pq n (fst init) (snd init)) in (homd (fst pq) b a, homd (snd pq) b a).
Definition i_gen_rat (n : nat) (a b : Z) (init : (list Z * list Z) * (list Z * list Z)) : R :=
  let r := bes_ints n a b init in
  sqrt (2 / (PI * (IZR a / IZR b))) *
  (IZR (fst (fst r)) / IZR (snd (fst r)) * sinh (IZR a / IZR b) + IZR (fst (snd r)) / IZR (snd (snd r)) * cosh (IZR a / IZR b)).
(* I_{n+1/2}(a/b) and I_{-(n+1/2)}(a/b) *)
Definition i_half_rat (n : nat) (a b : Z) : R := i_gen_rat n a b half_init.
Definition i_mhalf_rat (n : nat) (a b : Z) : R := i_gen_rat n a b mhalf_init.

(* ---------------- zeta at integers ---------------- *)
Definition Qr (q : Q) : R := IZR (Qnum q) / IZR (Zpos (Qden q)).
(* zeta(-n), n >= 0 (B_1 = +1/2 convention of Spec.bern) *)
Definition zeta_neg (n : nat) : R := - Qr (bern (S n)) / IZR (Z.of_nat (S n)).
(* zeta(2k), k >= 1 *)
Definition zeta_even (k : nat) : R :=
  (-1) ^ (S k) * Qr (bern (2 * k)) * (2 * PI) ^ (2 * k) / (2 * IZR (zfact (2 * k))).

(* ---------------- digamma at 1/4 - m (Gauss: psi(1/4) = -gamma - pi/2 - 3 ln 2) ---------------- *)
(* psi(1/4 - m) - psi(1); the reflection term pi*cot(pi x) of the code does not vanish here (it does at half-integers) *)
Definition psi_mquarter_diff (m : nat) : R :=
  - PI / 2 - 3 * ln 2 + sumf (fun k => 1 / (IZR (Z.of_nat (S k)) - 1 / 4)) m.
