(* C13 — tactic used by the per-run anchor shards (runs/C13/anchors_*.v):
   unfold the closed forms of Spec.v / the R-models of Model.v down to the
   operations Coq-Interval understands, then `interval` / `integral`.
   erfcR is kept folded during cbv (cbv would also normalise the implicit
   structure arguments of RInt, which `integral` then no longer recognises). *)
From Coq Require Import Reals ZArith QArith List.
From Coquelicot Require Import Coquelicot.
From Interval Require Import Tactic.
From ADV Require Import Base.Num C13.Model C13.Spec.

Ltac unf :=
  cbv -[Rplus Rminus Rmult Rdiv Ropp Rinv Rabs exp ln sqrt PI IZR Rle Rlt pow RInt
        atan sin cos tan sinh cosh tanh Rpower erfcR];
  unfold erfcR, erfR.
