(* C13 (round 3) — parity / reflection identities behind the anchors of the sign branches. *)
From Coq Require Import ZArith QArith Reals List Bool Lia Lra.
From Coquelicot Require Import Coquelicot.
From ADV Require Import Base.Num C13.Model C13.Spec C13.Spec2 C13.Spec3 C13.ProofsAnchors C13.ProofsAnchors2.
Import ListNotations.
Local Open Scope R_scope.

Section Psi3Quarter.
Variable psi : R -> R.
Hypothesis psi_3quarter : psi (3 / 4) - psi 1 = PI / 2 - 3 * ln 2.
Hypothesis psi_rec_neg3q : forall m : nat, psi (3 / 4 - INR (S m) + 1) = psi (3 / 4 - INR (S m)) + 1 / (3 / 4 - INR (S m)).

Lemma psi_m3quarter_closed : forall m, psi (3 / 4 - INR m) - psi 1 = psi_m3quarter_diff m.
Proof.
  unfold psi_m3quarter_diff. induction m as [|m IH].
  - simpl. rewrite Rminus_0_r, Rplus_0_r. exact psi_3quarter.
  - pose proof (psi_rec_neg3q m) as H. pose proof (pos_INR m).
    replace (3 / 4 - INR (S m) + 1) with (3 / 4 - INR m) in H by (rewrite S_INR; ring).
    rewrite sumf_S, IZR_of_nat.
    replace (psi (3 / 4 - INR (S m)) - psi 1)
      with (psi (3 / 4 - INR m) - psi 1 - 1 / (3 / 4 - INR (S m))) by (rewrite H; ring).
    rewrite IH, S_INR. field. split; lra.
Qed.
End Psi3Quarter.

(* I_n(-x) = (-1)^n I_n(x) for every function that is the sum of the power series *)
Lemma bessel_term_neg : forall n x k, bessel_term n (- x) k = (-1) ^ n * bessel_term n x k.
Proof.
  intros n x k. unfold bessel_term.
  replace (- x / 2) with (-1 * (x / 2)) by (unfold Rdiv; ring).
  rewrite Rpow_mult_distr, pow_add, pow_mult.
  replace ((-1) ^ 2) with 1 by (simpl; ring). rewrite pow1. unfold Rdiv. ring.
Qed.

Section BesselParity.
Variable I : nat -> R -> R.
Hypothesis I_series : forall n x, is_series (bessel_term n x) (I n x).

Lemma bessel_int_order_parity : forall n x, I n (- x) = (-1) ^ n * I n x.
Proof.
  intros n x.
  pose proof (I_series n (- x)) as H1.
  pose proof (is_series_scal ((-1) ^ n) _ _ (I_series n x)) as H2.
  apply is_series_unique in H1.
  assert (H3 : is_series (bessel_term n (- x)) (scal ((-1) ^ n) (I n x))).
  { eapply is_series_ext; [|exact H2]. intro k. simpl. rewrite bessel_term_neg. reflexivity. }
  apply is_series_unique in H3. rewrite H1 in H3. exact H3.
Qed.
(* consequently I_n(-x) and I_n(x) have opposite signs for odd n: ln I_n(-x) is undefined there *)
Lemma bessel_int_order_odd_negative : forall n x, Nat.odd n = true -> 0 < I n x -> I n (- x) < 0.
Proof.
  intros n x Ho Hp. rewrite bessel_int_order_parity.
  destruct (Nat.odd_spec n) as [Hs _]. destruct (Hs Ho) as [j Ej]. subst n.
  replace (2 * j + 1)%nat with (S (2 * j)) in * by lia. rewrite <- tech_pow_Rmult, pow_mult.
  replace ((-1) ^ 2) with 1 by (simpl; ring). rewrite pow1. lra.
Qed.
Lemma bessel_int_order_even : forall n x, Nat.even n = true -> I n (- x) = I n x.
Proof.
  intros n x He. rewrite bessel_int_order_parity.
  destruct (Nat.even_spec n) as [Hs _]. destruct (Hs He) as [j Ej]. subst n.
  rewrite pow_mult. replace ((-1) ^ 2) with 1 by (simpl; ring). rewrite pow1. ring.
Qed.
End BesselParity.

(* psi_n(1/2 - m) from the recurrence on the negative axis *)
Section PolygammaNegHalf.
Variable n : nat.
Variable pn : R -> R.
Hypothesis pn_half : pn (1 / 2) = (2 ^ (S n) - 1) * pn 1.
Hypothesis pn_rec_neg : forall m : nat,
  pn (1 / 2 - INR (S m) + 1) = pn (1 / 2 - INR (S m)) + (-1) ^ n * IZR (zfact n) / (1 / 2 - INR (S m)) ^ (S n).

Lemma polyg_mhalf_closed : forall m, pn (1 / 2 - INR m) - (2 ^ (S n) - 1) * pn 1 = polyg_mhalf_diff n m.
Proof.
  unfold polyg_mhalf_diff. induction m as [|m IH].
  - simpl sumf. rewrite Rminus_0_r, pn_half. ring.
  - pose proof (pn_rec_neg m) as H. pose proof (pos_INR m) as Hm.
    replace (1 / 2 - INR (S m) + 1) with (1 / 2 - INR m) in H by (rewrite S_INR; ring).
    rewrite sumf_S, Rmult_plus_distr_l, <- IH, H.
    set (y := (2 * INR m + 1) / 2).
    assert (Hy : 0 < y) by (unfold y; lra).
    assert (Hyp : y ^ S n <> 0) by (apply pow_nonzero; lra).
    assert (Hs : (-1) ^ n <> 0) by (apply pow_nonzero; lra).
    assert (E1 : (1 / 2 - INR (S m)) ^ S n = - (-1) ^ n * y ^ S n).
    { rewrite S_INR. replace (1 / 2 - (INR m + 1)) with (-1 * y) by (unfold y; field).
      rewrite Rpow_mult_distr. rewrite <- (tech_pow_Rmult (-1) n). ring. }
    assert (E2 : (2 / IZR (2 * Z.of_nat m + 1)) ^ S n = / y ^ S n).
    { rewrite plus_IZR, mult_IZR, <- INR_IZR_INZ.
      replace (2 / (2 * INR m + 1)) with (/ y) by (unfold y; field; lra).
      apply pow_inv. }
    rewrite E1, E2. field. split; assumption.
Qed.
End PolygammaNegHalf.

(* zeta at -(m + 1/2) through the functional equation *)
Section ZetaReflect.
Variable Zf G : R -> R.
Hypothesis G_half : forall n, G (INR n + 1 / 2) = gamma_half n.
Hypothesis Z_fe_gen : forall s, s < 0 -> Zf s = 2 * Rpower (2 * PI) (s - 1) * sin (PI * s / 2) * G (1 - s) * Zf (1 - s).

Lemma zeta_reflect_mhalf_closed : forall m,
  Zf (- (INR m + 1 / 2)) = zeta_reflect_mhalf m (Zf (INR m + 1 + 1 / 2)).
Proof.
  intro m. pose proof (pos_INR m) as Hm. rewrite Z_fe_gen by lra. unfold zeta_reflect_mhalf.
  replace (1 - - (INR m + 1 / 2)) with (INR (S m) + 1 / 2) by (rewrite S_INR; ring).
  rewrite G_half, IZR_of_nat.
  assert (H2pi : 0 < 2 * PI) by (pose proof PI_RGT_0; lra).
  replace (- (INR m + 1 / 2) - 1) with (- (INR (S m) + / 2)) by (rewrite S_INR; field).
  rewrite Rpower_Ropp, Rpower_plus, Rpower_pow by assumption. rewrite <- Rpower_sqrt by assumption.
  assert (Rpower (2 * PI) (/ 2) <> 0) by (unfold Rpower; apply Rgt_not_eq, exp_pos).
  assert ((2 * PI) ^ S m <> 0) by (apply pow_nonzero; lra).
  rewrite S_INR. field. split; assumption.
Qed.
End ZetaReflect.
