(* C13 (round 5) — the Hurwitz series enclosure (integral test, all s > 1, x > 0, K), its x -> x+1 recurrence,
   the polygamma consequences (series enclosure, recurrence = cross-branch relation, forward recursion of the
   transition branch), agreement over R of the linear and log-domain initialisations selected by the order test,
   and the accuracy of the tiny-argument branch of zeta_imp given the Taylor expansion of zeta at 0. *)
From Coq Require Import ZArith QArith Reals List Bool Lia Lra.
From Coquelicot Require Import Coquelicot.
From Interval Require Import Tactic.
From ADV Require Import Base.Num C13.Model C13.Spec C13.Spec4 C13.Model4.
Local Open Scope R_scope.

Lemma IZR_of_nat4 : forall n, IZR (Z.of_nat n) = INR n.
Proof. intro n. symmetry. apply INR_IZR_INZ. Qed.

(* ------------------------------------------------------------------ one step of the integral test *)
Lemma hz_pow_split : forall s t, 0 < t -> exp (- s * ln t) = exp ((1 - s) * ln t) / t.
Proof.
  intros s t Ht. replace (- s * ln t) with ((1 - s) * ln t + - ln t) by ring.
  rewrite exp_plus, exp_Ropp, exp_ln by assumption. reflexivity.
Qed.

Lemma hz_tail_derive : forall s t, 0 < t -> s <> 1 -> is_derive (fun y => hz_tail s y) t (- exp (- s * ln t)).
Proof.
  intros s t Ht Hs. unfold hz_tail. auto_derive.
  - exact Ht.
  - rewrite hz_pow_split by assumption. field. split; lra.
Qed.

Lemma hz_pow_decr : forall s a b, 0 < s -> 0 < a -> a <= b -> exp (- s * ln b) <= exp (- s * ln a).
Proof.
  intros s a b Hs Ha Hab.
  destruct (Req_dec a b) as [->|Hne]; [lra|].
  left. apply exp_increasing.
  assert (ln a < ln b) by (apply ln_increasing; lra). nra.
Qed.

Lemma hz_step : forall s y, 1 < s -> 0 < y ->
  exp (- s * ln (y + 1)) <= hz_tail s y - hz_tail s (y + 1) <= exp (- s * ln y).
Proof.
  intros s y Hs Hy.
  destruct (MVT_gen (fun t => hz_tail s t) y (y + 1) (fun t => - exp (- s * ln t))) as [c [Hc Hv]].
  - intros t Ht. rewrite Rmin_left, Rmax_right in Ht by lra. apply hz_tail_derive; lra.
  - intros t Ht. rewrite Rmin_left, Rmax_right in Ht by lra.
    apply continuity_pt_filterlim. apply (ex_derive_continuous (fun t0 => hz_tail s t0)).
    eexists. apply hz_tail_derive; lra.
  - rewrite Rmin_left, Rmax_right in Hc by lra. simpl in Hv.
    assert (E : hz_tail s y - hz_tail s (y + 1) = exp (- s * ln c)) by lra.
    rewrite E. split; apply hz_pow_decr; lra.
Qed.

Lemma hz_term_pos : forall s x k, 0 < hz_term s x k.
Proof. intros. apply exp_pos. Qed.
Lemma hz_tail_pos : forall s y, 1 < s -> 0 < hz_tail s y.
Proof. intros s y Hs. unfold hz_tail. apply Rdiv_lt_0_compat; [apply exp_pos|lra]. Qed.

Lemma hz_partial_S : forall s x K, hz_partial s x (S K) = hz_partial s x K + hz_term s x K.
Proof. reflexivity. Qed.
Lemma hz_partial_incr : forall s x K, hz_partial s x K <= hz_partial s x (S K).
Proof. intros. rewrite hz_partial_S. pose proof (hz_term_pos s x K). lra. Qed.

Lemma xk_pos : forall x (k : nat), 0 < x -> 0 < x + IZR (Z.of_nat k).
Proof. intros x k Hx. rewrite IZR_of_nat4. pose proof (pos_INR k). lra. Qed.
Lemma xk_S : forall x (k : nat), x + IZR (Z.of_nat (S k)) = x + IZR (Z.of_nat k) + 1.
Proof. intros. rewrite !IZR_of_nat4, S_INR. ring. Qed.

(* finite form: every partial sum beyond K lies between  lo - tail(x+K+M)  and  hi *)
Lemma hz_partial_lower : forall s x K M, 1 < s -> 0 < x ->
  hz_partial s x K + hz_tail s (x + IZR (Z.of_nat K)) - hz_tail s (x + IZR (Z.of_nat (K + M))) <= hz_partial s x (K + M).
Proof.
  intros s x K M Hs Hx. induction M as [|M IH].
  - rewrite Nat.add_0_r. lra.
  - replace (K + S M)%nat with (S (K + M)) by lia. rewrite hz_partial_S, xk_S.
    pose proof (hz_step s (x + IZR (Z.of_nat (K + M))) Hs (xk_pos x (K + M) Hx)) as [_ H2].
    unfold hz_term. lra.
Qed.
Lemma hz_partial_upper : forall s x K M, 1 < s -> 0 < x ->
  hz_partial s x (S (K + M)) <= hz_partial s x K + hz_term s x K + hz_tail s (x + IZR (Z.of_nat K)) - hz_tail s (x + IZR (Z.of_nat (K + M))).
Proof.
  intros s x K M Hs Hx. induction M as [|M IH].
  - rewrite Nat.add_0_r, hz_partial_S. lra.
  - replace (K + S M)%nat with (S (K + M)) by lia. rewrite hz_partial_S. rewrite (xk_S x (K + M)).
    pose proof (hz_step s (x + IZR (Z.of_nat (K + M))) Hs (xk_pos x (K + M) Hx)) as [H1 _].
    unfold hz_term at 1. rewrite (xk_S x (K + M)). lra.
Qed.
Lemma hz_partial_le_hi : forall s x K N, 1 < s -> 0 < x -> hz_partial s x N <= hz_hi s x K.
Proof.
  intros s x K N Hs Hx. unfold hz_hi, hz_lo.
  pose proof (hz_term_pos s x K). pose proof (hz_tail_pos s (x + IZR (Z.of_nat K)) Hs).
  destruct (le_lt_dec N K) as [Hle|Hlt].
  - assert (Hm : forall d, hz_partial s x N <= hz_partial s x (N + d)).
    { induction d as [|d IHd]; [rewrite Nat.add_0_r; lra|].
      replace (N + S d)%nat with (S (N + d)) by lia. pose proof (hz_partial_incr s x (N + d)). lra. }
    specialize (Hm (K - N)%nat). replace (N + (K - N))%nat with K in Hm by lia. lra.
  - replace N with (S (K + (N - S K))) by lia.
    pose proof (hz_partial_upper s x K (N - S K) Hs Hx).
    pose proof (hz_tail_pos s (x + IZR (Z.of_nat (K + (N - S K)))) Hs). lra.
Qed.

(* the tail integral tends to 0 *)
Lemma hz_tail_small : forall s eps, 1 < s -> 0 < eps -> exists Y, forall y, Y < y -> 0 < y -> hz_tail s y < eps.
Proof.
  intros s eps Hs He. exists (exp (ln (eps * (s - 1)) / (1 - s))). intros y HY Hy.
  assert (Hp : 0 < eps * (s - 1)) by nra.
  assert (H1 : ln (eps * (s - 1)) / (1 - s) < ln y).
  { rewrite <- (ln_exp (ln (eps * (s - 1)) / (1 - s))). apply ln_increasing; [apply exp_pos|exact HY]. }
  assert (H2 : (1 - s) * ln y < ln (eps * (s - 1))).
  { assert (Hn : 1 - s < 0) by lra.
    replace (ln (eps * (s - 1))) with ((1 - s) * (ln (eps * (s - 1)) / (1 - s))) by (field; lra).
    apply Rmult_lt_gt_compat_neg_l; assumption. }
  unfold hz_tail. apply Rlt_div_l; [lra|].
  rewrite <- (exp_ln (eps * (s - 1))) by exact Hp. apply exp_increasing. exact H2.
Qed.

Lemma nat_beyond : forall r : R, exists M : nat, r < INR M.
Proof.
  intro r. destruct (archimed r) as [H _]. exists (Z.to_nat (Z.max 0 (up r))).
  rewrite INR_IZR_INZ, Z2Nat.id by lia.
  apply Rlt_le_trans with (IZR (up r)); [lra|]. apply IZR_le. lia.
Qed.

(* the sum of the series lies in [hz_lo, hz_hi] for every K *)
Lemma hurwitz_enclosure : forall s x l K, 1 < s -> 0 < x -> is_hurwitz s x l -> hz_lo s x K <= l <= hz_hi s x K.
Proof.
  intros s x l K Hs Hx Hl. unfold is_hurwitz in Hl. split.
  - destruct (Rle_lt_dec (hz_lo s x K) l) as [H|H]; [exact H|exfalso].
    destruct (hz_tail_small s (hz_lo s x K - l) Hs) as [Y HY]; [lra|].
    destruct (nat_beyond (Y - x)) as [M HM].
    pose proof (hz_partial_lower s x K M Hs Hx) as HL.
    pose proof (is_lim_seq_incr_compare _ _ Hl (hz_partial_incr s x) (K + M)%nat) as HC.
    assert (Hy : Y < x + IZR (Z.of_nat (K + M))).
    { rewrite IZR_of_nat4, plus_INR. pose proof (pos_INR K). lra. }
    specialize (HY _ Hy (xk_pos x (K + M) Hx)). unfold hz_lo in *. lra.
  - assert (Hb : Rbar_le l (hz_hi s x K)).
    { apply (is_lim_seq_le (hz_partial s x) (fun _ => hz_hi s x K) l (hz_hi s x K)).
      - intro n. apply hz_partial_le_hi; assumption.
      - exact Hl.
      - apply is_lim_seq_const. }
    exact Hb.
Qed.

Lemma hurwitz_mid_rad : forall s x l K, 1 < s -> 0 < x -> is_hurwitz s x l -> Rabs (l - hz_mid s x K) <= hz_rad s x K.
Proof.
  intros s x l K Hs Hx Hl. destruct (hurwitz_enclosure s x l K Hs Hx Hl) as [H1 H2].
  unfold hz_mid, hz_rad, hz_hi in *. apply Rabs_le. lra.
Qed.

(* the series converges (the hypothesis is_hurwitz is satisfiable for every s > 1, x > 0) *)
Lemma hurwitz_exists : forall s x, 1 < s -> 0 < x -> exists l, is_hurwitz s x l.
Proof.
  intros s x Hs Hx.
  destruct (ex_finite_lim_seq_incr (hz_partial s x) (hz_hi s x 0)) as [l Hl].
  - apply hz_partial_incr.
  - intro n. apply hz_partial_le_hi; assumption.
  - exists l. exact Hl.
Qed.

(* zeta(s, x) = x^-s + zeta(s, x + 1) *)
Lemma sumf_shift : forall f K, sumf f (S K) = f O + sumf (fun k => f (S k)) K.
Proof.
  intros f K. induction K as [|K IH]; [simpl; ring|].
  change (sumf f (S (S K))) with (sumf f (S K) + f (S K)). rewrite IH. simpl. ring.
Qed.
Lemma hz_term_shift : forall s x k, hz_term s (x + 1) k = hz_term s x (S k).
Proof. intros. unfold hz_term. rewrite xk_S. f_equal. f_equal. f_equal. ring. Qed.
Lemma sumf_ext4 : forall f g K, (forall k, f k = g k) -> sumf f K = sumf g K.
Proof. intros f g K H. induction K as [|K IH]; simpl; [reflexivity|]. rewrite IH, H. reflexivity. Qed.

Lemma hurwitz_shift : forall s x l, is_hurwitz s x l -> is_hurwitz s (x + 1) (l - hz_term s x O).
Proof.
  intros s x l Hl. unfold is_hurwitz in *.
  apply (is_lim_seq_ext (fun K => hz_partial s x (S K) - hz_term s x O)).
  - intro K. unfold hz_partial. rewrite sumf_shift.
    rewrite (sumf_ext4 (hz_term s (x + 1)) (fun k => hz_term s x (S k)) K (hz_term_shift s x)). ring.
  - apply is_lim_seq_minus'; [|apply is_lim_seq_const].
    apply -> (is_lim_seq_incr_1 (hz_partial s x) l). exact Hl.
Qed.

(* ------------------------------------------------------------------ integer exponent: pow forms *)
Lemma hz_term_pow : forall n x k, 0 < x -> hz_term (INR (S n)) x k = hzn_term n x k.
Proof.
  intros n x k Hx. unfold hz_term, hzn_term. pose proof (xk_pos x k Hx) as Hp.
  replace (- INR (S n) * ln (x + IZR (Z.of_nat k))) with (- (INR (S n) * ln (x + IZR (Z.of_nat k)))) by ring.
  rewrite exp_Ropp. f_equal.
  rewrite <- (exp_ln ((x + IZR (Z.of_nat k)) ^ S n)) by (apply pow_lt; exact Hp).
  f_equal. rewrite ln_pow by exact Hp. reflexivity.
Qed.
Lemma hz_tail_pow : forall n y, 0 < y -> (1 <= n)%nat -> hz_tail (INR (S n)) y = hzn_tail n y.
Proof.
  intros n y Hy Hn. unfold hz_tail, hzn_tail. rewrite IZR_of_nat4.
  replace ((1 - INR (S n)) * ln y) with (- (INR n * ln y)) by (rewrite S_INR; ring).
  rewrite exp_Ropp. rewrite <- ln_pow by exact Hy. rewrite exp_ln by (apply pow_lt; exact Hy).
  assert (0 < INR n) by (apply lt_0_INR; lia). assert (0 < y ^ n) by (apply pow_lt; exact Hy).
  rewrite S_INR. field. split; lra.
Qed.
Lemma hz_partial_pow : forall n x K, 0 < x -> hz_partial (INR (S n)) x K = hzn_partial n x K.
Proof. intros n x K Hx. unfold hz_partial, hzn_partial. apply sumf_ext4. intro k. apply hz_term_pow. exact Hx. Qed.

Lemma hurwitz_int_mid_rad : forall n x l K, (1 <= n)%nat -> 0 < x -> is_hurwitz (INR (S n)) x l ->
  Rabs (l - hzn_mid n x K) <= hzn_rad n x K.
Proof.
  intros n x l K Hn Hx Hl.
  assert (Hs : 1 < INR (S n)) by (rewrite S_INR; assert (0 < INR n) by (apply lt_0_INR; lia); lra).
  pose proof (hurwitz_mid_rad _ x l K Hs Hx Hl) as H.
  unfold hz_mid, hz_rad, hz_lo in H.
  rewrite hz_partial_pow, hz_tail_pow, hz_term_pow in H by (try exact Hx; try exact Hn; apply xk_pos; exact Hx).
  exact H.
Qed.

(* ------------------------------------------------------------------ polygamma *)
Lemma zfact_pos : forall n, 0 < IZR (zfact n).
Proof.
  induction n as [|n IH]; [simpl; lra|].
  change (zfact (S n)) with (Z.of_nat (S n) * zfact n)%Z. rewrite mult_IZR, IZR_of_nat4.
  apply Rmult_lt_0_compat; [apply lt_0_INR; lia|exact IH].
Qed.
Lemma polyg_sign_abs : forall n, Rabs (polyg_sign n) = 1.
Proof.
  intro n. unfold polyg_sign. rewrite <- RPow_abs.
  replace (Rabs (-1)) with 1 by (unfold Rabs; destruct (Rcase_abs (-1)); lra). apply pow1.
Qed.

Section Polygamma.
Variable n : nat.
Hypothesis n_pos : (1 <= n)%nat.
(* psi_n(x) = (-1)^(n+1) n! sum_{k>=0} (x+k)^-(n+1) for x > 0 *)
Variable pn : R -> R.
Variable zl : R -> R.
Hypothesis pn_series : forall x, 0 < x -> is_hurwitz (INR (S n)) x (zl x) /\ pn x = polyg_sign n * IZR (zfact n) * zl x.

Lemma polyg_series_enclosure : forall x K, 0 < x -> Rabs (pn x - polyg_mid n x K) <= polyg_rad n x K.
Proof.
  intros x K Hx. destruct (pn_series x Hx) as [Hl Hp].
  pose proof (hurwitz_int_mid_rad n x (zl x) K n_pos Hx Hl) as H.
  rewrite Hp. unfold polyg_mid, polyg_rad.
  replace (polyg_sign n * IZR (zfact n) * zl x - polyg_sign n * IZR (zfact n) * hzn_mid n x K)
    with (polyg_sign n * (IZR (zfact n) * (zl x - hzn_mid n x K))) by ring.
  rewrite Rabs_mult, polyg_sign_abs, Rmult_1_l, Rabs_mult, (Rabs_pos_eq (IZR (zfact n))) by (left; apply zfact_pos).
  apply Rmult_le_compat_l; [left; apply zfact_pos|exact H].
Qed.

Lemma polyg_recurrence : forall x, 0 < x -> pn (x + 1) = pn x + polyg_step n x.
Proof.
  intros x Hx. destruct (pn_series x Hx) as [Hl Hp].
  assert (Hx1 : 0 < x + 1) by lra. destruct (pn_series (x + 1) Hx1) as [Hl1 Hp1].
  pose proof (hurwitz_shift _ _ _ Hl) as Hs.
  assert (E : zl (x + 1) = zl x - hz_term (INR (S n)) x O).
  { apply is_lim_seq_unique in Hl1. apply is_lim_seq_unique in Hs. rewrite Hl1 in Hs.
    injection Hs as Hs. exact Hs. }
  rewrite Hp1, Hp, E, hz_term_pow by exact Hx. unfold hzn_term, polyg_step, polyg_sign. simpl (IZR (Z.of_nat 0)).
  rewrite Rplus_0_r. assert (0 < x ^ S n) by (apply pow_lt; exact Hx).
  change ((-1) ^ S (S n)) with (-1 * (-1) ^ S n). change ((-1) ^ S n) with (-1 * (-1) ^ n).
  field. lra.
Qed.

(* forward recursion of polygamma_attransitionplus: psi_n(x) = (-1)^(n+1) n! sum_{k<iter} (x+k)^-(n+1) + psi_n(x + iter) *)
Lemma polyg_transition : forall iter x, 0 < x -> pn x = pg_transition (pg_trans_lin n iter x) n iter x pn.
Proof.
  intros iter x Hx. unfold pg_transition, pg_trans_lin. induction iter as [|it IH].
  - simpl. rewrite Rmult_0_r, Rmult_0_r, Rplus_0_l, Rplus_0_r. reflexivity.
  - rewrite IH. simpl sumf. rewrite S_INR.
    replace (x + (INR it + 1)) with (x + INR it + 1) by ring.
    assert (Hp : 0 < x + INR it) by (pose proof (pos_INR it); lra).
    rewrite (polyg_recurrence (x + INR it) Hp). unfold polyg_step.
    replace (n + 1)%nat with (S n) by lia. assert (0 < (x + INR it) ^ S n) by (apply pow_lt; exact Hp).
    change ((-1) ^ S n) with (-1 * (-1) ^ n). field. lra.
Qed.
End Polygamma.

(* ------------------------------------------------------------------ the formula pairs selected by the order tests agree over R *)
Lemma ln_zfact_split : forall n, (1 <= n)%nat -> IZR (zfact n) = INR n * IZR (zfact (n - 1)).
Proof.
  intros n Hn. destruct n as [|n]; [lia|]. replace (S n - 1)%nat with n by lia.
  change (zfact (S n)) with (Z.of_nat (S n) * zfact n)%Z. rewrite mult_IZR, IZR_of_nat4. reflexivity.
Qed.

Lemma pg_init_agree : forall n x lgam, (1 <= n)%nat -> 0 < x -> lgam = ln (IZR (zfact (n - 1))) ->
  pg_init_log lgam n x = pg_init_lin n x.
Proof.
  intros n x lgam Hn Hx Hg. unfold pg_init_log, pg_init_lin. subst lgam.
  pose proof (zfact_pos (n - 1)) as Hf.
  assert (Hn0 : 0 < INR n) by (apply lt_0_INR; lia).
  assert (Hnn : 0 < INR (n * (n + 1))) by (apply lt_0_INR; nia).
  assert (Hs : 0 < INR n + 2 * x) by lra.
  assert (Hpw : 0 < x ^ (n + 1)) by (apply pow_lt; exact Hx).
  assert (E : exp (ln (IZR (zfact (n - 1))) - INR (n + 1) * ln x) = IZR (zfact (n - 1)) * / x ^ (n + 1)).
  { unfold Rminus. rewrite exp_plus, exp_ln by exact Hf. f_equal.
    rewrite <- ln_pow by exact Hx. rewrite exp_Ropp, exp_ln by exact Hpw. reflexivity. }
  f_equal.
  - replace (ln (IZR (zfact (n - 1))) - INR (n + 1) * ln x + ln (INR n + 2 * x) - ln 2)
      with ((ln (IZR (zfact (n - 1))) - INR (n + 1) * ln x) + (ln (INR n + 2 * x) + - ln 2)) by ring.
    rewrite exp_plus, E, exp_plus, exp_Ropp, !exp_ln by lra. field. lra.
  - replace (ln (IZR (zfact (n - 1))) - INR (n + 1) * ln x + ln (INR (n * (n + 1))) - ln 2 - ln x)
      with ((ln (IZR (zfact (n - 1))) - INR (n + 1) * ln x) + (ln (INR (n * (n + 1))) + (- ln 2 + - ln x))) by ring.
    rewrite exp_plus, E, !exp_plus, !exp_Ropp, !exp_ln by lra. field. lra.
Qed.

Lemma pg_huge_agree : forall n x lgam, 0 < x -> lgam = ln (IZR (zfact (n - 1))) -> pg_huge_log lgam n x = pg_huge_lin n x.
Proof.
  intros n x lgam Hx Hg. unfold pg_huge_log, pg_huge_lin. subst lgam.
  pose proof (zfact_pos (n - 1)) as Hf. assert (Hpw : 0 < x ^ n) by (apply pow_lt; exact Hx).
  unfold Rminus. rewrite exp_plus, exp_ln by exact Hf.
  rewrite <- ln_pow by exact Hx. rewrite exp_Ropp, exp_ln by exact Hpw. ring.
Qed.

Lemma pg_trans_agree : forall n iter x lgam1, 0 < x -> lgam1 = ln (IZR (zfact n)) -> pg_trans_log lgam1 n iter x = pg_trans_lin n iter x.
Proof.
  intros n iter x lgam1 Hx Hg. unfold pg_trans_log, pg_trans_lin. subst lgam1.
  pose proof (zfact_pos n) as Hf.
  induction iter as [|it IH]; [simpl; ring|].
  simpl sumf. rewrite IH. rewrite Rmult_plus_distr_l. f_equal.
  assert (Hp : 0 < x + INR it) by (pose proof (pos_INR it); lra).
  assert (Hpw : 0 < (x + INR it) ^ (n + 1)) by (apply pow_lt; exact Hp).
  rewrite exp_plus, exp_ln by exact Hf.
  replace (ln (x + INR it) * - INR (n + 1)) with (- (INR (n + 1) * ln (x + INR it))) by ring.
  rewrite <- ln_pow by exact Hp. rewrite exp_Ropp, exp_ln by exact Hpw. ring.
Qed.

(* the coded order test selects the log domain exactly for n >= 27 *)
Lemma pg_use_log_order_spec : forall n, pg_use_log_order n = true <-> (27 <= n)%nat.
Proof.
  intro n. unfold pg_use_log_order. rewrite andb_true_iff, !Nat.ltb_lt. split.
  - intros [H1 H2]. nia.
  - intro H. split; nia.
Qed.

(* ------------------------------------------------------------------ zeta near 0 *)
Lemma Rabs_le_inv4 : forall x y, Rabs x <= y -> - y <= x <= y.
Proof. intros x y H. apply Rabs_le_between. exact H. Qed.

Lemma zeta_c1_close : Rabs (zeta_c1 - log_root_two_pi) <= / 2 ^ 60.
Proof. unfold zeta_c1, log_root_two_pi. interval with (i_prec 100). Qed.

Section ZetaNearZero.
Variable Zf : R -> R.
Hypothesis Zf_taylor : zeta_taylor0 Zf.

(* the tiny-argument branch of zeta_imp is accurate to 2^-50 relative on its whole window |s| < rootEpsilon *)
Lemma zeta_small_accurate : forall s, Rabs s <= zeta_root_eps -> Rabs (zeta_small s - Zf s) <= / 2 ^ 50 * Rabs (Zf s).
Proof.
  intros s Hs. unfold zeta_root_eps in Hs.
  assert (Hs' : - (149012 / 10 ^ 13) <= s <= 149012 / 10 ^ 13) by (apply Rabs_le_inv4; exact Hs).
  assert (H16 : Rabs s <= / 2 ^ 16) by (eapply Rle_trans; [exact Hs|interval]).
  pose proof (Zf_taylor s H16) as HT.
  pose proof zeta_c1_close as Hc.
  apply Rabs_le_inv4 in HT. apply Rabs_le_inv4 in Hc.
  assert (Hd : Rabs (zeta_small s - zeta_T3 s) <= 223 / 10 ^ 18).
  { unfold zeta_small, zeta_T3, zeta_c2, zeta_c3.
    replace (- (1 / 2) - log_root_two_pi * s - (- (1 / 2) - zeta_c1 * s + - (10031782279543 / 10000000000000) * s ^ 2 + - (1000785194477 / 1000000000000) * s ^ 3))
      with ((zeta_c1 - log_root_two_pi) * s + (10031782279543 / 10000000000000) * s ^ 2 + (1000785194477 / 1000000000000) * s ^ 3) by ring.
    set (d := zeta_c1 - log_root_two_pi) in *.
    assert (Hd1 : - / 2 ^ 60 <= d <= / 2 ^ 60) by lra. clearbody d.
    interval with (i_prec 80). }
  assert (H4 : 2 * s ^ 4 <= 1 / 10 ^ 30) by interval.
  assert (HZ : Zf s <= - (4999999 / 10000000)).
  { assert (HT3 : zeta_T3 s <= - (49999998 / 100000000)).
    { unfold zeta_T3, zeta_c1, zeta_c2, zeta_c3. interval with (i_prec 60). }
    lra. }
  apply Rabs_le_inv4 in Hd.
  rewrite (Rabs_left (Zf s)) by lra.
  apply Rabs_le.
  assert (Hq : 223 / 10 ^ 18 + 1 / 10 ^ 30 <= / 2 ^ 50 * (4999999 / 10000000)) by interval.
  assert (Hm : / 2 ^ 50 * (4999999 / 10000000) <= / 2 ^ 50 * - Zf s).
  { apply Rmult_le_compat_l; [|lra]. left. apply Rinv_0_lt_compat. apply pow_lt. lra. }
  lra.
Qed.

(* just outside the window the linear formula would no longer do: the quadratic term is a few ulp at 4 rootEpsilon *)
Lemma zeta_small_window_needed : forall s, Rabs s = 4 * zeta_root_eps -> / 2 ^ 49 < Rabs (zeta_small s - zeta_T3 s).
Proof.
  intros s Hs. unfold zeta_root_eps in Hs.
  pose proof zeta_c1_close as Hc. apply Rabs_le_inv4 in Hc.
  unfold zeta_small, zeta_T3, zeta_c2, zeta_c3.
  replace (- (1 / 2) - log_root_two_pi * s - (- (1 / 2) - zeta_c1 * s + - (10031782279543 / 10000000000000) * s ^ 2 + - (1000785194477 / 1000000000000) * s ^ 3))
    with ((zeta_c1 - log_root_two_pi) * s + (10031782279543 / 10000000000000) * s ^ 2 + (1000785194477 / 1000000000000) * s ^ 3) by ring.
  set (d := zeta_c1 - log_root_two_pi) in *.
  assert (Hd1 : - / 2 ^ 60 <= d <= / 2 ^ 60) by lra. clearbody d.
  assert (E : s = 4 * (149012 / 10 ^ 13) \/ s = - (4 * (149012 / 10 ^ 13))).
  { unfold Rabs in Hs. destruct (Rcase_abs s); [right|left]; lra. }
  destruct E as [-> | ->]; interval with (i_prec 80).
Qed.
End ZetaNearZero.
