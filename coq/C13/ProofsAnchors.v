(* C13 — the closed forms of Spec.v follow from the defining relations of the
   special functions (functional equation + base value), stated as Section
   hypotheses (never as global assumptions).  Each anchor of the per-run shards
   is an enclosure of one of these closed forms at concrete arguments. *)
From Coq Require Import ZArith Reals List Bool Lia Lra.
From ADV Require Import Base.Num C13.Model C13.Spec.
Local Open Scope R_scope.

Lemma zfact_S n : zfact (S n) = (Z.of_nat (S n) * zfact n)%Z.
Proof. reflexivity. Qed.
Lemma zfact_pos n : (0 < zfact n)%Z.
Proof. induction n as [|n IH]; [reflexivity|]. rewrite zfact_S. lia. Qed.
Lemma IZR_zfact_neq n : IZR (zfact n) <> 0.
Proof. apply not_0_IZR. pose proof (zfact_pos n). lia. Qed.
Lemma IZR_of_nat n : IZR (Z.of_nat n) = INR n.
Proof. symmetry. apply INR_IZR_INZ. Qed.
Lemma sumf_S f n : sumf f (S n) = sumf f n + f n.
Proof. reflexivity. Qed.

(* ------------------------------------------------------------------ *)
Section GammaClosed.
Variable G : R -> R.
Hypothesis G_rec : forall x, 0 < x -> G (x + 1) = x * G x.
Hypothesis G_one : G 1 = 1.
Hypothesis G_half : G (1 / 2) = sqrt PI.

Lemma gamma_int_closed : forall n, G (INR (S n)) = gamma_int (S n).
Proof.
  unfold gamma_int. induction n as [|n IH].
  - simpl. exact G_one.
  - rewrite S_INR, G_rec by (apply lt_0_INR; lia). rewrite IH.
    replace (S (S n) - 1)%nat with (S n) by lia. replace (S n - 1)%nat with n by lia.
    rewrite zfact_S, mult_IZR, IZR_of_nat. reflexivity.
Qed.

Lemma gamma_half_closed : forall n, G (INR n + 1 / 2) = gamma_half n.
Proof.
  induction n as [|n IH].
  - unfold gamma_half. simpl. rewrite Rplus_0_l, G_half. field.
  - rewrite S_INR. replace (INR n + 1 + 1 / 2) with (INR n + 1 / 2 + 1) by ring.
    rewrite G_rec by (pose proof (pos_INR n); lra). rewrite IH. unfold gamma_half.
    replace (2 * S n)%nat with (S (S (2 * n))) by lia.
    rewrite !zfact_S, !mult_IZR, !IZR_of_nat, !S_INR, mult_INR. simpl INR.
    pose proof (IZR_zfact_neq n). pose proof (pos_INR n).
    assert (4 ^ n <> 0) by (apply pow_nonzero; lra).
    simpl pow. field. repeat split; try assumption; lra.
Qed.
End GammaClosed.

(* ------------------------------------------------------------------ *)
Section PsiClosed.
Variable psi : R -> R.
Hypothesis psi_rec : forall x, 0 < x -> psi (x + 1) = psi x + 1 / x.
Hypothesis psi_half : psi (1 / 2) - psi 1 = - 2 * ln 2.
(* the same recurrence at the negative half-integers 1/2 - m *)
Hypothesis psi_rec_neg : forall m : nat, psi (1 / 2 - INR (S m) + 1) = psi (1 / 2 - INR (S m)) + 1 / (1 / 2 - INR (S m)).

Lemma psi_int_closed : forall n, psi (INR (S n)) - psi 1 = psi_int_diff n.
Proof.
  unfold psi_int_diff. induction n as [|n IH].
  - simpl. ring.
  - rewrite S_INR, psi_rec by (apply lt_0_INR; lia). rewrite sumf_S, <- IH, IZR_of_nat. ring.
Qed.

Lemma psi_half_closed : forall n, psi (INR n + 1 / 2) - psi 1 = psi_half_diff n.
Proof.
  unfold psi_half_diff. induction n as [|n IH].
  - simpl. rewrite Rplus_0_l, Rplus_0_r. exact psi_half.
  - rewrite S_INR. replace (INR n + 1 + 1 / 2) with (INR n + 1 / 2 + 1) by ring.
    pose proof (pos_INR n). rewrite psi_rec by lra. rewrite sumf_S.
    rewrite plus_IZR, mult_IZR, IZR_of_nat.
    replace (psi (INR n + 1 / 2) + 1 / (INR n + 1 / 2) - psi 1)
      with (psi (INR n + 1 / 2) - psi 1 + 1 / (INR n + 1 / 2)) by ring.
    rewrite IH. field. lra.
Qed.

Lemma psi_mhalf_closed : forall n, psi (1 / 2 - INR n) - psi 1 = psi_half_diff n.
Proof.
  unfold psi_half_diff. induction n as [|n IH].
  - simpl. rewrite Rminus_0_r, Rplus_0_r. exact psi_half.
  - pose proof (psi_rec_neg n) as H. pose proof (pos_INR n).
    replace (1 / 2 - INR (S n) + 1) with (1 / 2 - INR n) in H by (rewrite S_INR; ring).
    rewrite sumf_S, plus_IZR, mult_IZR, IZR_of_nat.
    replace (psi (1 / 2 - INR (S n)) - psi 1)
      with (psi (1 / 2 - INR n) - psi 1 - 1 / (1 / 2 - INR (S n))) by (rewrite H; ring).
    rewrite IH, S_INR. field. lra.
Qed.
End PsiClosed.

(* ------------------------------------------------------------------ *)
Section TrigammaClosed.
Variable psi1 : R -> R.
Hypothesis psi1_rec : forall x, 0 < x -> psi1 (x + 1) = psi1 x - 1 / x ^ 2.
Hypothesis psi1_one : psi1 1 = PI ^ 2 / 6.
Hypothesis psi1_half_v : psi1 (1 / 2) = PI ^ 2 / 2.
Hypothesis psi1_rec_neg : forall m : nat, psi1 (1 / 2 - INR (S m) + 1) = psi1 (1 / 2 - INR (S m)) - 1 / (1 / 2 - INR (S m)) ^ 2.

Lemma psi1_int_closed : forall n, psi1 (INR (S n)) = psi1_int n.
Proof.
  unfold psi1_int. induction n as [|n IH].
  - simpl. rewrite psi1_one. simpl. ring.
  - rewrite S_INR, psi1_rec by (apply lt_0_INR; lia). rewrite sumf_S, IH, IZR_of_nat.
    assert (INR (S n) <> 0) by (apply not_0_INR; lia). field. assumption.
Qed.

Lemma psi1_half_closed : forall n, psi1 (INR n + 1 / 2) = psi1_half n.
Proof.
  unfold psi1_half. induction n as [|n IH].
  - simpl. rewrite Rplus_0_l, psi1_half_v. simpl. ring.
  - rewrite S_INR. replace (INR n + 1 + 1 / 2) with (INR n + 1 / 2 + 1) by ring.
    pose proof (pos_INR n). rewrite psi1_rec by lra. rewrite sumf_S, IH.
    rewrite plus_IZR, mult_IZR, IZR_of_nat. field. lra.
Qed.

Lemma psi1_mhalf_closed : forall n, psi1 (1 / 2 - INR n) = psi1_mhalf n.
Proof.
  unfold psi1_mhalf. induction n as [|n IH].
  - simpl. rewrite Rminus_0_r, psi1_half_v. simpl. ring.
  - pose proof (psi1_rec_neg n) as H. pose proof (pos_INR n).
    replace (1 / 2 - INR (S n) + 1) with (1 / 2 - INR n) in H by (rewrite S_INR; ring).
    rewrite sumf_S, plus_IZR, mult_IZR, IZR_of_nat.
    replace (psi1 (1 / 2 - INR (S n))) with (psi1 (1 / 2 - INR n) + 1 / (1 / 2 - INR (S n)) ^ 2) by (rewrite H; ring).
    rewrite IH, S_INR. field. lra.
Qed.
End TrigammaClosed.

(* ------------------------------------------------------------------ *)
Section PolygammaClosed.
Variable n : nat.                      (* order *)
Variable pn : R -> R.                  (* psi_n *)
Hypothesis pn_rec : forall x, 0 < x -> pn (x + 1) = pn x + (-1) ^ n * IZR (zfact n) / x ^ (S n).
Hypothesis pn_dup : pn (1 / 2) = (2 ^ (S n) - 1) * pn 1.     (* duplication formula at 1/2 *)

Lemma polyg_int_closed : forall m, pn (INR (S m)) - pn 1 = polyg_int_diff n m.
Proof.
  unfold polyg_int_diff. induction m as [|m IH].
  - simpl sumf. simpl INR. ring.
  - rewrite S_INR, pn_rec by (apply lt_0_INR; lia). rewrite sumf_S, IZR_of_nat.
    assert (INR (S m) <> 0) by (apply not_0_INR; lia).
    replace (pn (INR (S m)) + (-1) ^ n * IZR (zfact n) / INR (S m) ^ S n - pn 1)
      with (pn (INR (S m)) - pn 1 + (-1) ^ n * IZR (zfact n) / INR (S m) ^ S n) by ring.
    rewrite IH. unfold Rdiv. ring.
Qed.

Lemma polyg_half_closed : forall m, pn (INR m + 1 / 2) - (2 ^ (S n) - 1) * pn 1 = polyg_half_diff n m.
Proof.
  unfold polyg_half_diff. induction m as [|m IH].
  - simpl sumf. simpl INR. rewrite Rplus_0_l, pn_dup. ring.
  - rewrite S_INR. replace (INR m + 1 + 1 / 2) with (INR m + 1 / 2 + 1) by ring.
    pose proof (pos_INR m). rewrite pn_rec by lra. rewrite sumf_S.
    rewrite plus_IZR, mult_IZR, IZR_of_nat.
    replace (pn (INR m + 1 / 2) + (-1) ^ n * IZR (zfact n) / (INR m + 1 / 2) ^ S n - (2 ^ S n - 1) * pn 1)
      with (pn (INR m + 1 / 2) - (2 ^ S n - 1) * pn 1 + (-1) ^ n * IZR (zfact n) / (INR m + 1 / 2) ^ S n) by ring.
    rewrite IH.
    assert (E : (2 / (2 * INR m + 1)) ^ S n = / (INR m + 1 / 2) ^ S n).
    { replace (2 / (2 * INR m + 1)) with (/ (INR m + 1 / 2)) by (field; lra). apply pow_inv. }
    rewrite E. unfold Rdiv. ring.
Qed.
End PolygammaClosed.

(* ------------------------------------------------------------------ *)
Section IncompleteGammaClosed.
Variable Qf : R -> R -> R.             (* regularised upper incomplete gamma Q(a, x) *)
Variable x : R.
(* Q(a+1, x) = Q(a, x) + x^a e^-x / Γ(a+1) at integer and half-integer a, with Γ in closed form *)
Hypothesis Q_one : Qf 1 x = exp (- x).
Hypothesis Q_rec_int : forall n : nat, (1 <= n)%nat -> Qf (INR n + 1) x = Qf (INR n) x + x ^ n * exp (- x) / IZR (zfact n).
Hypothesis Q_half_v : Qf (1 / 2) x = erfcR (sqrt x).
Hypothesis Q_rec_half : forall k : nat, Qf (INR k + 1 / 2 + 1) x = Qf (INR k + 1 / 2) x + x ^ k * sqrt x * exp (- x) / gamma_half (S k).

Lemma Q_int_closed : forall n, Qf (INR (S n)) x = Q_int (S n) x.
Proof.
  unfold Q_int. induction n as [|n IH].
  - simpl. rewrite Q_one. field.
  - rewrite S_INR, Q_rec_int by lia. rewrite IH, (sumf_S _ (S n)).
    pose proof (IZR_zfact_neq (S n)). field. assumption.
Qed.

Lemma Q_half_closed : forall n, Qf (INR n + 1 / 2) x = Q_half n x.
Proof.
  unfold Q_half. induction n as [|n IH].
  - simpl. rewrite Rplus_0_l, Q_half_v. ring.
  - rewrite S_INR. replace (INR n + 1 + 1 / 2) with (INR n + 1 / 2 + 1) by ring.
    rewrite Q_rec_half, IH, sumf_S. unfold Rdiv. ring.
Qed.
End IncompleteGammaClosed.

(* ------------------------------------------------------------------ *)
Section BesselClosed.
Variable I : R -> R -> R.              (* I_v(x) *)
Variable x : R.
Hypothesis I_rec : forall v, I (v - 1) x - I (v + 1) x = 2 * v / x * I v x.
Hypothesis I_half : I (1 / 2) x = sqrt (2 / (PI * x)) * sinh x.
Hypothesis I_mhalf : I (- (1 / 2)) x = sqrt (2 / (PI * x)) * cosh x.

Lemma i_half_pair_closed : forall n, i_half_pair n x = (I (INR n + 1 / 2) x, I (INR n - 1 / 2) x).
Proof.
  induction n as [|n IH].
  - simpl. rewrite Rplus_0_l, Rminus_0_l, I_half, I_mhalf. reflexivity.
  - simpl i_half_pair. rewrite IH. f_equal.
    + pose proof (I_rec (INR n + 1 / 2)) as H. rewrite S_INR, IZR_of_nat.
      replace (INR n + 1 / 2 - 1) with (INR n - 1 / 2) in H by lra.
      replace (INR n + 1 + 1 / 2) with (INR n + 1 / 2 + 1) by lra.
      replace (2 * INR n + 1) with (2 * (INR n + 1 / 2)) by lra. lra.
    + rewrite S_INR. f_equal; lra.
Qed.
Lemma i_half_closed : forall n, I (INR n + 1 / 2) x = i_half n x.
Proof. intro n. unfold i_half. rewrite i_half_pair_closed. reflexivity. Qed.

Lemma i_mhalf_pair_closed : forall n, i_mhalf_pair n x = (I (- (INR n + 1 / 2)) x, I (- (INR n - 1 / 2)) x).
Proof.
  induction n as [|n IH].
  - simpl. rewrite Rplus_0_l, Rminus_0_l, I_mhalf, Ropp_involutive, I_half. reflexivity.
  - simpl i_mhalf_pair. rewrite IH. f_equal.
    + pose proof (I_rec (- (INR n + 1 / 2))) as H. rewrite S_INR, IZR_of_nat.
      replace (- (INR n + 1 / 2) - 1) with (- (INR n + 1 + 1 / 2)) in H by lra.
      replace (- (INR n + 1 / 2) + 1) with (- (INR n - 1 / 2)) in H by lra.
      replace (2 * INR n + 1) with (2 * (INR n + 1 / 2)) by lra.
      replace (2 * - (INR n + 1 / 2) / x * I (- (INR n + 1 / 2)) x)
        with (- (2 * (INR n + 1 / 2) / x * I (- (INR n + 1 / 2)) x)) in H by (unfold Rdiv; ring).
      lra.
    + rewrite S_INR. f_equal; lra.
Qed.
Lemma i_mhalf_closed : forall n, I (- (INR n + 1 / 2)) x = i_mhalf n x.
Proof. intro n. unfold i_mhalf. rewrite i_mhalf_pair_closed. reflexivity. Qed.
End BesselClosed.

(* the hypotheses of IncompleteGammaClosed are satisfiable: the closed forms themselves *)
Example Q_closed_forms_satisfy_relations : forall x,
  Q_int 1 x = exp (- x) /\
  (forall n, (1 <= n)%nat -> Q_int (S n) x = Q_int n x + x ^ n * exp (- x) / IZR (zfact n)) /\
  Q_half 0 x = erfcR (sqrt x) /\
  (forall k, Q_half (S k) x = Q_half k x + x ^ k * sqrt x * exp (- x) / gamma_half (S k)).
Proof.
  intro x. unfold Q_int, Q_half. repeat split.
  - simpl. field.
  - intros n _. rewrite sumf_S. pose proof (IZR_zfact_neq n). field. assumption.
  - simpl. ring.
  - intro k. rewrite sumf_S. unfold Rdiv. ring.
Qed.
