(* C13 (round 6) — tactic of the round-6 anchor goals (integer-order Bessel series, result-relative LogAdd / LogSub bounds). *)
From Coq Require Import Reals ZArith QArith List.
From Coquelicot Require Import Coquelicot.
From Interval Require Import Tactic.
From ADV Require Import Base.Num C13.Model C13.Spec C13.Spec3 C13.Spec6 C13.Anchors C13.Anchors2.

Ltac unf6 :=
  unfold la_bound, ls_bound, la_exact, ls_exact, la_pert, bessel_rad, bessel_partial_nest, bessel_q, bessel_term;
  repeat match goal with
  | |- context [zfact ?n] => vmc (zfact n)
  end;
  cbv -[Rplus Rminus Rmult Rdiv Ropp Rinv Rabs exp ln sqrt PI IZR Rle Rlt pow].
