(* C13 (round 6) — proofs: (A) geometric enclosure of the power series of I_n, (B) standard-model error bounds of LogAdd / LogSub *)
From Coq Require Import ZArith QArith Reals List Bool Lia Lra.
From Coquelicot Require Import Coquelicot.
From Interval Require Import Tactic.
From ADV Require Import Base.Num C13.Model C13.Spec C13.Spec3 C13.Spec6.
Local Open Scope R_scope.

Lemma IZR_of_nat6 : forall n, IZR (Z.of_nat n) = INR n.
Proof. intro n. now rewrite INR_IZR_INZ. Qed.

Lemma zfact_pos6 : forall n, 0 < IZR (zfact n).
Proof.
  induction n as [|n IH]; [simpl; lra|].
  change (zfact (S n)) with (Z.of_nat (S n) * zfact n)%Z. rewrite mult_IZR, IZR_of_nat6.
  apply Rmult_lt_0_compat; [apply lt_0_INR; lia|exact IH].
Qed.

Lemma zfact_S6 : forall n, IZR (zfact (S n)) = IZR (Z.of_nat (S n)) * IZR (zfact n).
Proof. intro n. change (zfact (S n)) with (Z.of_nat (S n) * zfact n)%Z. now rewrite mult_IZR. Qed.

Lemma bessel_term_nonneg : forall n x k, 0 <= x -> 0 <= bessel_term n x k.
Proof.
  intros n x k Hx. unfold bessel_term. apply Rmult_le_pos.
  - apply pow_le. lra.
  - left. apply Rinv_0_lt_compat. apply Rmult_lt_0_compat; apply zfact_pos6.
Qed.

Lemma bessel_term_S : forall n x k, bessel_term n x (S k) = bessel_term n x k * bessel_q n x k.
Proof.
  intros n x k. unfold bessel_term, bessel_q.
  replace (2 * S k + n)%nat with (S (S (2 * k + n))) by lia.
  replace (n + S k)%nat with (S (n + k)) by lia.
  rewrite !zfact_S6. simpl pow.
  assert (H1 := zfact_pos6 k). assert (H2 := zfact_pos6 (n + k)).
  assert (H3 : 0 < IZR (Z.of_nat (S k))) by (rewrite IZR_of_nat6; apply lt_0_INR; lia).
  assert (H4 : 0 < IZR (Z.of_nat (S (n + k)))) by (rewrite IZR_of_nat6; apply lt_0_INR; lia).
  field. repeat split; lra.
Qed.

Lemma bessel_q_nonneg : forall n x k, 0 <= bessel_q n x k.
Proof.
  intros n x k. unfold bessel_q. apply Rmult_le_pos; [apply pow2_ge_0|].
  left. apply Rinv_0_lt_compat. apply Rmult_lt_0_compat; rewrite IZR_of_nat6; apply lt_0_INR; lia.
Qed.

Lemma bessel_q_decr : forall n x k j, bessel_q n x (k + j) <= bessel_q n x k.
Proof.
  intros n x k j. unfold bessel_q. apply Rmult_le_compat_l; [apply pow2_ge_0|].
  apply Rinv_le_contravar.
  - apply Rmult_lt_0_compat; rewrite IZR_of_nat6; apply lt_0_INR; lia.
  - rewrite !IZR_of_nat6. apply Rmult_le_compat; try (apply pos_INR); apply le_INR; lia.
Qed.

(* t_{K+j} <= t_K q_K^j *)
Lemma bessel_term_geom : forall n x K j, 0 <= x -> bessel_term n x (K + j) <= bessel_term n x K * bessel_q n x K ^ j.
Proof.
  intros n x K j Hx. induction j as [|j IH].
  - rewrite Nat.add_0_r. simpl. lra.
  - replace (K + S j)%nat with (S (K + j)) by lia. rewrite bessel_term_S. simpl pow.
    replace (bessel_term n x K * (bessel_q n x K * bessel_q n x K ^ j))
      with ((bessel_term n x K * bessel_q n x K ^ j) * bessel_q n x K) by ring.
    apply Rmult_le_compat; [apply bessel_term_nonneg, Hx|apply bessel_q_nonneg|exact IH|apply bessel_q_decr].
Qed.

Lemma sumf_sum_n : forall f K, sumf f (S K) = sum_n f K.
Proof.
  intros f K. induction K as [|K IH].
  - simpl. rewrite sum_O. ring.
  - rewrite sum_Sn. unfold plus; simpl. rewrite <- IH. simpl. ring.
Qed.

Section BesselSeries.
Variable I : nat -> R -> R.
Hypothesis HI : is_bessel_I I.

(* the tail after K terms, as a series of its own *)
Lemma bessel_tail_series : forall n x K, is_series (fun j => bessel_term n x (K + j)) (I n x - bessel_partial n x K).
Proof.
  intros n x K. destruct K as [|K].
  - unfold bessel_partial. simpl. rewrite Rminus_0_r. apply (is_series_ext (bessel_term n x)); [intro; reflexivity|apply HI].
  - unfold bessel_partial. rewrite sumf_sum_n.
    apply (is_series_incr_n (bessel_term n x) (S K) (I n x - sum_n (bessel_term n x) K) (Nat.lt_0_succ K)).
    simpl pred.
    assert (E : forall a b : R, plus (a - b) b = a) by (intros a b; unfold plus; simpl; ring).
    match goal with |- is_series _ ?l => replace l with (I n x) by (symmetry; apply E) end.
    apply HI.
Qed.

Lemma zero_series6 : is_series (fun j : nat => 0 * 0 ^ j) (0 * / (1 - 0)).
Proof.
  apply (is_series_scal_l 0 (fun j => 0 ^ j) (/ (1 - 0))). apply is_series_geom. rewrite Rabs_R0. lra.
Qed.

Lemma bessel_series_enclosure : forall n x K, 0 <= x -> bessel_q n x K < 1 ->
  bessel_partial n x K <= I n x <= bessel_partial n x K + bessel_rad n x K.
Proof.
  intros n x K Hx Hq.
  assert (Ht := bessel_tail_series n x K).
  assert (Hq0 := bessel_q_nonneg n x K).
  assert (Hg : is_series (fun j => bessel_term n x K * bessel_q n x K ^ j) (bessel_rad n x K)).
  { unfold bessel_rad, Rdiv. apply (is_series_scal_l (bessel_term n x K) (fun j => bessel_q n x K ^ j) (/ (1 - bessel_q n x K))).
    apply is_series_geom. rewrite Rabs_pos_eq; assumption. }
  assert (Hle : Series (fun j => bessel_term n x (K + j)) <= Series (fun j => bessel_term n x K * bessel_q n x K ^ j)).
  { apply Series_le; [|exists (bessel_rad n x K); exact Hg].
    intro j. split; [apply bessel_term_nonneg, Hx|apply bessel_term_geom, Hx]. }
  assert (Hge : Series (fun j : nat => 0 * 0 ^ j) <= Series (fun j => bessel_term n x (K + j))).
  { apply Series_le; [|exists (I n x - bessel_partial n x K); exact Ht].
    intro j. split; [lra|]. rewrite Rmult_0_l. apply bessel_term_nonneg, Hx. }
  rewrite (is_series_unique _ _ Ht) in Hle, Hge. rewrite (is_series_unique _ _ Hg) in Hle.
  rewrite (is_series_unique _ _ zero_series6) in Hge.
  split; lra.
Qed.

(* ln I_n(x) relative to the partial sum: the reference of LogBesselI at integer order *)
Lemma bessel_log_enclosure : forall n x K, 0 <= x -> bessel_q n x K < 1 -> 0 < bessel_partial n x K ->
  Rabs (ln (I n x) - ln (bessel_partial n x K)) <= bessel_rad n x K / bessel_partial n x K.
Proof.
  intros n x K Hx Hq Hp. destruct (bessel_series_enclosure n x K Hx Hq) as [H1 H2].
  set (S := bessel_partial n x K) in *. set (r := bessel_rad n x K) in *.
  assert (Hr : 0 <= r) by lra.
  assert (HI0 : 0 < I n x) by lra.
  rewrite <- ln_div by lra.
  assert (Hd : 1 <= I n x / S) by (apply (Rmult_le_reg_r S); [exact Hp|]; unfold Rdiv; rewrite Rmult_assoc, Rinv_l by lra; lra).
  rewrite Rabs_pos_eq.
  2:{ rewrite <- ln_1. destruct Hd as [Hd|Hd]; [left; apply ln_increasing; lra|rewrite <- Hd; lra]. }
  apply Rle_trans with (I n x / S - 1).
  - apply Rplus_le_reg_r with 1. replace (I n x / S - 1 + 1) with (I n x / S) by ring.
    assert (Hexp := exp_ineq1_le (ln (I n x / S))). rewrite exp_ln in Hexp by lra. lra.
  - unfold Rdiv. replace (I n x * / S - 1) with ((I n x - S) * / S) by (field; lra).
    apply Rmult_le_compat_r; [left; apply Rinv_0_lt_compat; exact Hp|lra].
Qed.
End BesselSeries.

Lemma sumf_shift6 : forall f K, sumf f (S K) = f O + sumf (fun k => f (S k)) K.
Proof. intros f K. induction K as [|K IH]; [simpl; ring|]. change (sumf f (S (S K))) with (sumf f (S K) + f (S K)). rewrite IH. simpl. ring. Qed.
Lemma sumf_ext6 : forall f g K, (forall k, f k = g k) -> sumf f K = sumf g K.
Proof. intros f g K H. induction K as [|K IH]; [reflexivity|]. simpl. now rewrite IH, H. Qed.

Lemma bessel_nest_S : forall n y j k, bessel_nest n y (S j) k =
  1 + y / (IZR (Z.of_nat (S k)) * IZR (Z.of_nat (S (n + k)))) * bessel_nest n y j (S k).
Proof. reflexivity. Qed.

Lemma bessel_nest_sum : forall n x j k,
  sumf (fun i => bessel_term n x (k + i)) j = bessel_term n x k * bessel_nest n ((x / 2) ^ 2) j k.
Proof.
  intros n x j. induction j as [|j IH]; intro k.
  - simpl. ring.
  - rewrite sumf_shift6. rewrite Nat.add_0_r.
    rewrite (sumf_ext6 (fun i => bessel_term n x (k + S i)) (fun i => bessel_term n x (S k + i))) by (intro i; f_equal; lia).
    rewrite IH, bessel_term_S, bessel_nest_S. unfold bessel_q. ring.
Qed.

Lemma bessel_partial_nest_eq : forall n x K, bessel_partial n x K = bessel_partial_nest n x K.
Proof.
  intros n x K. unfold bessel_partial, bessel_partial_nest. rewrite <- bessel_nest_sum.
  apply sumf_ext6. intro k. reflexivity.
Qed.

(* ------------------------------------------------------------------ *)
(* (B) standard-model error bounds                                      *)
(* ------------------------------------------------------------------ *)
Lemma ln_le_minus1 : forall z, 0 < z -> ln z <= z - 1.
Proof. intros z Hz. assert (H := exp_ineq1_le (ln z)). rewrite exp_ln in H by exact Hz. lra. Qed.

Lemma ln_diff_le : forall s t, 0 < s -> 0 < t -> ln s - ln t <= (s - t) / t.
Proof.
  intros s t Hs Ht. rewrite <- ln_div by assumption.
  apply Rle_trans with (s / t - 1); [apply ln_le_minus1; apply Rdiv_lt_0_compat; assumption|].
  right. field. lra.
Qed.

Lemma Rabs_le_both : forall x y, - y <= x <= y -> Rabs x <= y.
Proof. intros x y H. apply Rabs_le. exact H. Qed.
Lemma Rabs_both_le : forall x y, Rabs x <= y -> - y <= x <= y.
Proof. intros x y H. split; [apply Ropp_le_cancel; rewrite Ropp_involutive; apply Rle_trans with (Rabs x); [rewrite <- Rabs_Ropp; apply Rle_abs|exact H]|apply Rle_trans with (Rabs x); [apply Rle_abs|exact H]]. Qed.

(* relative perturbation of exp(D) by the rounding of D and of exp itself *)
Lemma pert_bound : forall u D d1 d2, 0 <= u < 1 -> Rabs d1 <= u -> Rabs d2 <= u ->
  Rabs (exp (D * d1) * (1 + d2) - 1) <= exp (Rabs D * u) * (1 + u) - 1.
Proof.
  intros u D d1 d2 Hu H1 H2.
  apply Rabs_both_le in H1. apply Rabs_both_le in H2.
  set (A := exp (Rabs D * u)).
  assert (HA1 : 1 <= A).
  { unfold A. rewrite <- exp_0 at 1. assert (H := Rabs_pos D).
    destruct (Req_dec (Rabs D * u) 0) as [E|E]; [rewrite E; lra|].
    left. apply exp_increasing. assert (0 <= Rabs D * u) by (apply Rmult_le_pos; lra). lra. }
  assert (HDd : - (Rabs D * u) <= D * d1 <= Rabs D * u).
  { apply Rabs_both_le. rewrite Rabs_mult. apply Rmult_le_compat_l; [apply Rabs_pos|apply Rabs_le; lra]. }
  assert (Hup : exp (D * d1) <= A).
  { unfold A. destruct (proj2 HDd) as [Hlt|Heq]; [left; apply exp_increasing; exact Hlt|rewrite Heq; lra]. }
  assert (Hlo : / A <= exp (D * d1)).
  { unfold A. rewrite <- exp_Ropp. destruct (proj1 HDd) as [Hlt|Heq]; [left; apply exp_increasing; exact Hlt|rewrite Heq; lra]. }
  assert (He := exp_pos (D * d1)).
  assert (HiA : 0 < / A) by (apply Rinv_0_lt_compat; lra).
  assert (HAi : A * / A = 1) by (apply Rinv_r; lra).
  apply Rabs_le_both. split.
  - (* lower: e (1+d2) >= (1-u)/A >= 2 - A(1+u) *)
    assert (H3 : / A * (1 - u) <= exp (D * d1) * (1 + d2)).
    { apply Rmult_le_compat; lra. }
    assert (H4 : 2 - A * (1 + u) <= / A * (1 - u)).
    { set (B := / A) in *. assert (HB1 : B <= 1). { unfold B. rewrite <- Rinv_1. apply Rinv_le_contravar; lra. }
      (* (1-u) B + A (1+u) - 2 = ((A-1)^2 + u (A^2-1)) B *)
      assert (H0 : 0 <= ((A - 1) * (A - 1) + u * (A * A - 1)) * B).
      { apply Rmult_le_pos; [|lra]. apply Rplus_le_le_0_compat; [apply Rle_0_sqr|]. apply Rmult_le_pos; [lra|]. nra. }
      replace (((A - 1) * (A - 1) + u * (A * A - 1)) * B) with (A * (1 + u) + B * (1 - u) - 2) in H0.
      2:{ transitivity (A * (A * B) - 2 * (A * B) + B + u * A * (A * B) - u * B); [rewrite HAi; ring|ring]. }
      lra. }
    lra.
  - assert (H3 : exp (D * d1) * (1 + d2) <= A * (1 + u)).
    { apply Rmult_le_compat; lra. }
    lra.
Qed.

Lemma la_pert_nonneg : forall u a b, 0 <= u -> 0 <= la_pert u a b.
Proof.
  intros u a b Hu. unfold la_pert.
  assert (H : 1 <= exp (Rabs (a - b) * u)).
  { rewrite <- exp_0 at 1. destruct (Req_dec (Rabs (a - b) * u) 0) as [E|E]; [rewrite E; lra|].
    left. apply exp_increasing. assert (0 <= Rabs (a - b) * u) by (apply Rmult_le_pos; [apply Rabs_pos|lra]). lra. }
  nra.
Qed.

Lemma logadd_float_error : forall u a b d1 d2 d3 d4, 0 <= u < 1 ->
  Rabs d1 <= u -> Rabs d2 <= u -> Rabs d3 <= u -> Rabs d4 <= u -> a <= b ->
  Rabs (la_float d1 d2 d3 d4 a b - la_exact a b) <= la_bound u a b.
Proof.
  intros u a b d1 d2 d3 d4 Hu H1 H2 H3 H4 Hab.
  unfold la_float, la_bound, la_exact.
  set (D := a - b). set (E := exp D). set (p := la_pert u a b).
  assert (Hp0 : 0 <= p) by (apply la_pert_nonneg; lra).
  assert (HE : 0 < E) by apply exp_pos.
  (* e~ = E (1 + eta) *)
  set (eta := exp (D * d1) * (1 + d2) - 1).
  assert (Heta : Rabs eta <= p) by (apply pert_bound; assumption).
  assert (Het : exp (D * (1 + d1)) * (1 + d2) = E * (1 + eta)).
  { unfold eta, E. replace (D * (1 + d1)) with (D + D * d1) by ring. rewrite exp_plus. ring. }
  rewrite Het. apply Rabs_both_le in Heta.
  apply Rabs_both_le in H2. 
  assert (Hpos : 0 < 1 + eta).
  { unfold eta. replace (1 + (exp (D * d1) * (1 + d2) - 1)) with (exp (D * d1) * (1 + d2)) by ring.
    apply Rmult_lt_0_compat; [apply exp_pos|lra]. }
  set (L := ln (1 + E)). set (X := ln (1 + E * (1 + eta))).
  assert (HEe : 0 < E * (1 + eta)) by (apply Rmult_lt_0_compat; assumption).
  assert (HL0 : 0 <= L). { unfold L. rewrite <- ln_1. left. apply ln_increasing; lra. }
  assert (HLE : L <= E). { unfold L. assert (H := ln_le_minus1 (1 + E)). lra. }
  assert (HX0 : 0 <= X). { unfold X. rewrite <- ln_1. left. apply ln_increasing; lra. }
  assert (HXL : - (E * p) <= X - L <= E * p).
  { unfold X, L. split.
    - assert (H := ln_diff_le (1 + E) (1 + E * (1 + eta))). 
      assert (Hq : (1 + E - (1 + E * (1 + eta))) / (1 + E * (1 + eta)) <= E * p).
      { apply Rle_trans with (Rabs (E * - eta) / 1).
        - replace (1 + E - (1 + E * (1 + eta))) with (E * - eta) by ring.
          apply Rle_trans with (Rabs (E * - eta) / (1 + E * (1 + eta))).
          + unfold Rdiv. apply Rmult_le_compat_r; [left; apply Rinv_0_lt_compat; lra|apply Rle_abs].
          + unfold Rdiv. apply Rmult_le_compat_l; [apply Rabs_pos|]. apply Rinv_le_contravar; lra.
        - unfold Rdiv. rewrite Rinv_1, Rmult_1_r, Rabs_mult, Rabs_Ropp, (Rabs_pos_eq E) by lra.
          apply Rmult_le_compat_l; [lra|apply Rabs_le; lra]. }
      assert (H' := H ltac:(lra) ltac:(lra)). lra.
    - assert (H := ln_diff_le (1 + E * (1 + eta)) (1 + E)).
      assert (Hq : (1 + E * (1 + eta) - (1 + E)) / (1 + E) <= E * p).
      { apply Rle_trans with (Rabs (E * eta) / 1).
        - replace (1 + E * (1 + eta) - (1 + E)) with (E * eta) by ring.
          apply Rle_trans with (Rabs (E * eta) / (1 + E)).
          + unfold Rdiv. apply Rmult_le_compat_r; [left; apply Rinv_0_lt_compat; lra|apply Rle_abs].
          + unfold Rdiv. apply Rmult_le_compat_l; [apply Rabs_pos|]. apply Rinv_le_contravar; lra.
        - unfold Rdiv. rewrite Rinv_1, Rmult_1_r, Rabs_mult, (Rabs_pos_eq E) by lra.
          apply Rmult_le_compat_l; [lra|apply Rabs_le; lra]. }
      assert (H' := H ltac:(lra) ltac:(lra)). lra. }
  assert (HEp : 0 <= E * p) by (apply Rmult_le_pos; lra).
  (* l~ = X (1 + d3) *)
  assert (Hl : Rabs (X * (1 + d3) - L) <= E * (u + (1 + u) * p)).
  { replace (X * (1 + d3) - L) with ((X - L) + X * d3) by ring.
    apply Rle_trans with (Rabs (X - L) + Rabs (X * d3)); [apply Rabs_triang|].
    assert (Ha : Rabs (X - L) <= E * p) by (apply Rabs_le; lra).
    assert (Hb : Rabs (X * d3) <= (E + E * p) * u).
    { rewrite Rabs_mult, (Rabs_pos_eq X) by lra. apply Rmult_le_compat; [lra|apply Rabs_pos|lra|exact H3]. }
    replace (E * (u + (1 + u) * p)) with (E * p + (E + E * p) * u) by ring. lra. }
  replace ((b + X * (1 + d3)) * (1 + d4) - (b + L)) with ((X * (1 + d3) - L) * (1 + d4) + (b + L) * d4) by ring.
  apply Rle_trans with (Rabs ((X * (1 + d3) - L) * (1 + d4)) + Rabs ((b + L) * d4)); [apply Rabs_triang|].
  assert (Hd4 : Rabs (1 + d4) <= 1 + u). { apply Rabs_both_le in H4. apply Rabs_le. lra. }
  assert (Hc : Rabs ((X * (1 + d3) - L) * (1 + d4)) <= E * (u + (1 + u) * p) * (1 + u)).
  { rewrite Rabs_mult. apply Rmult_le_compat; try apply Rabs_pos; assumption. }
  assert (Hd : Rabs ((b + L) * d4) <= Rabs (b + L) * u).
  { rewrite Rabs_mult. apply Rmult_le_compat_l; [apply Rabs_pos|exact H4]. }
  fold D E L. lra.
Qed.

Lemma logsub_float_error : forall u a b d1 d2 d3 d4, 0 <= u < 1 ->
  Rabs d1 <= u -> Rabs d2 <= u -> Rabs d3 <= u -> Rabs d4 <= u ->
  exp (b - a) * (1 + la_pert u b a) < 1 ->
  0 < 1 - exp ((b - a) * (1 + d1)) * (1 + d2) /\
  Rabs (ls_float d1 d2 d3 d4 a b - ls_exact a b) <= ls_bound u a b.
Proof.
  intros u a b d1 d2 d3 d4 Hu H1 H2 H3 H4 Hsep.
  unfold ls_float, ls_bound, ls_exact.
  set (D := b - a) in *. set (E := exp D) in *. set (p := la_pert u b a) in *.
  assert (Hp0 : 0 <= p) by (apply la_pert_nonneg; lra).
  assert (HE : 0 < E) by apply exp_pos.
  set (eta := exp (D * d1) * (1 + d2) - 1).
  assert (Heta : Rabs eta <= p) by (apply pert_bound; assumption).
  assert (Het : exp (D * (1 + d1)) * (1 + d2) = E * (1 + eta)).
  { unfold eta, E. replace (D * (1 + d1)) with (D + D * d1) by ring. rewrite exp_plus. ring. }
  rewrite Het. apply Rabs_both_le in Heta. apply Rabs_both_le in H2.
  assert (Hpos : 0 < 1 + eta).
  { unfold eta. replace (1 + (exp (D * d1) * (1 + d2) - 1)) with (exp (D * d1) * (1 + d2)) by ring.
    apply Rmult_lt_0_compat; [apply exp_pos|lra]. }
  assert (HEe : 0 < E * (1 + eta)) by (apply Rmult_lt_0_compat; assumption).
  assert (HEle : E * (1 + eta) <= E * (1 + p)) by (apply Rmult_le_compat_l; lra).
  assert (HE1 : E < 1). { assert (E * 1 <= E * (1 + p)) by (apply Rmult_le_compat_l; lra). lra. }
  set (den := 1 - E * (1 + p)) in *. assert (Hden : 0 < den) by (unfold den; lra).
  split; [lra|].
  set (L := ln (1 - E)). set (X := ln (1 - E * (1 + eta))).
  set (G := E * p / den).
  assert (HEp : 0 <= E * p) by (apply Rmult_le_pos; lra).
  assert (HG0 : 0 <= G) by (unfold G; apply Rmult_le_pos; [exact HEp|left; apply Rinv_0_lt_compat; exact Hden]).
  assert (HL0 : L <= 0). { unfold L. rewrite <- ln_1. left. apply ln_increasing; lra. }
  assert (HEeta : Rabs (E * eta) <= E * p).
  { rewrite Rabs_mult, (Rabs_pos_eq E) by lra. apply Rmult_le_compat_l; [lra|apply Rabs_le; lra]. }
  assert (HXL : - G <= X - L <= G).
  { unfold X, L. split.
    - (* L - X <= (E eta)/(1 - e~) <= G *)
      assert (H := ln_diff_le (1 - E) (1 - E * (1 + eta)) ltac:(lra) ltac:(lra)).
      assert (Hq : (1 - E - (1 - E * (1 + eta))) / (1 - E * (1 + eta)) <= G).
      { replace (1 - E - (1 - E * (1 + eta))) with (E * eta) by ring. unfold G.
        apply Rle_trans with (Rabs (E * eta) / (1 - E * (1 + eta))).
        - unfold Rdiv. apply Rmult_le_compat_r; [left; apply Rinv_0_lt_compat; lra|apply Rle_abs].
        - unfold Rdiv. apply Rmult_le_compat; [apply Rabs_pos|left; apply Rinv_0_lt_compat; lra|exact HEeta|].
          apply Rinv_le_contravar; [exact Hden|unfold den; lra]. }
      lra.
    - assert (H := ln_diff_le (1 - E * (1 + eta)) (1 - E) ltac:(lra) ltac:(lra)).
      assert (Hq : (1 - E * (1 + eta) - (1 - E)) / (1 - E) <= G).
      { replace (1 - E * (1 + eta) - (1 - E)) with (E * - eta) by ring. unfold G.
        apply Rle_trans with (Rabs (E * - eta) / (1 - E)).
        - unfold Rdiv. apply Rmult_le_compat_r; [left; apply Rinv_0_lt_compat; lra|apply Rle_abs].
        - unfold Rdiv. apply Rmult_le_compat; [apply Rabs_pos|left; apply Rinv_0_lt_compat; lra| |].
          + rewrite Rabs_mult, Rabs_Ropp, <- Rabs_mult. exact HEeta.
          + apply Rinv_le_contravar; [exact Hden|unfold den; nra]. }
      lra. }
  assert (HabsX : Rabs X <= - L + G).
  { apply Rabs_le. lra. }
  assert (Hl : Rabs (X * (1 + d3) - L) <= G + (- L + G) * u).
  { replace (X * (1 + d3) - L) with ((X - L) + X * d3) by ring.
    apply Rle_trans with (Rabs (X - L) + Rabs (X * d3)); [apply Rabs_triang|].
    assert (Ha : Rabs (X - L) <= G) by (apply Rabs_le; lra).
    assert (Hb : Rabs (X * d3) <= (- L + G) * u).
    { rewrite Rabs_mult. apply Rmult_le_compat; [apply Rabs_pos|apply Rabs_pos|exact HabsX|exact H3]. }
    lra. }
  replace ((a + X * (1 + d3)) * (1 + d4) - (a + L)) with ((X * (1 + d3) - L) * (1 + d4) + (a + L) * d4) by ring.
  apply Rle_trans with (Rabs ((X * (1 + d3) - L) * (1 + d4)) + Rabs ((a + L) * d4)); [apply Rabs_triang|].
  assert (Hd4 : Rabs (1 + d4) <= 1 + u). { apply Rabs_both_le in H4. apply Rabs_le. lra. }
  assert (Hc : Rabs ((X * (1 + d3) - L) * (1 + d4)) <= (G + (- L + G) * u) * (1 + u)).
  { rewrite Rabs_mult. apply Rmult_le_compat; try apply Rabs_pos; assumption. }
  assert (Hd : Rabs ((a + L) * d4) <= Rabs (a + L) * u).
  { rewrite Rabs_mult. apply Rmult_le_compat_l; [apply Rabs_pos|exact H4]. }
  fold L. fold G. lra.
Qed.

(* the rounding-free instance of the float text is the R-model of Model.v *)
Lemma la_float_exact : forall a b, la_float 0 0 0 0 a b = la_exact a b.
Proof. intros a b. unfold la_float, la_exact. rewrite !Rplus_0_r, !Rmult_1_r. reflexivity. Qed.
Lemma ls_float_exact : forall a b, ls_float 0 0 0 0 a b = ls_exact a b.
Proof. intros a b. unfold ls_float, ls_exact. rewrite !Rplus_0_r, !Rmult_1_r. reflexivity. Qed.

Lemma LogAdd_model_la_exact : forall a b, a <= b ->
  LogAdd (LFin a) (LFin b) = LFin (la_exact a b) /\ LogAdd (LFin b) (LFin a) = LFin (la_exact a b) /\
  la_exact a b = ln (exp a + exp b).
Proof.
  intros a b Hab. unfold LogAdd, lg_gtb, la_exact.
  assert (E1 : Rltb b a = false). { unfold Rltb. destruct (Rlt_dec b a); [lra|reflexivity]. }
  rewrite E1. split; [reflexivity|]. split.
  - destruct (Rltb a b) eqn:E2; [reflexivity|].
    unfold Rltb in E2. destruct (Rlt_dec a b); [discriminate|]. assert (a = b) by lra. subst. reflexivity.
  - replace (exp a + exp b) with (exp b * (1 + exp (a - b))).
    + rewrite ln_mult; [rewrite ln_exp; reflexivity|apply exp_pos|]. assert (H := exp_pos (a - b)). lra.
    + unfold Rminus. rewrite exp_plus, exp_Ropp. field. assert (H := exp_pos b). lra.
Qed.

Lemma LogSub_model_ls_exact : forall a b, b < a ->
  LogSub (LFin a) (LFin b) = LFin (ls_exact a b) /\ ls_exact a b = ln (exp a - exp b).
Proof.
  intros a b Hab. unfold LogSub, ls_exact.
  assert (He : exp (b - a) < 1). { rewrite <- exp_0. apply exp_increasing. lra. }
  assert (E1 : Rltb (exp (b - a)) 1 = true). { unfold Rltb. destruct (Rlt_dec (exp (b - a)) 1); [reflexivity|lra]. }
  rewrite E1. split; [reflexivity|].
  replace (exp a - exp b) with (exp a * (1 - exp (b - a))).
  - rewrite ln_mult; [rewrite ln_exp; reflexivity|apply exp_pos|lra].
  - unfold Rminus. rewrite exp_plus, exp_Ropp. field. assert (H := exp_pos a). lra.
Qed.

(* non-vacuity: binary64 unit roundoff, arguments 40 apart with the larger one 0 (result 4.2e-18): the bound is RELATIVE to the result *)
Lemma la_bound_tiny_result_example :
  la_bound (/ 2 ^ 53) (-40) 0 <= 50 * / 2 ^ 53 * la_exact (-40) 0 /\ la_exact (-40) 0 <= / 10 ^ 17.
Proof. unfold la_bound, la_exact, la_pert. split; interval with (i_prec 200). Qed.
Lemma ls_sep_example : exp (-40 - 0) * (1 + la_pert (/ 2 ^ 53) (-40) 0) < 1 /\
  ls_bound (/ 2 ^ 53) 0 (-40) <= 50 * / 2 ^ 53 * Rabs (ls_exact 0 (-40)).
Proof. unfold ls_bound, ls_exact, la_pert. split; interval with (i_prec 200). Qed.
Lemma bessel_q_example : bessel_q 0 (/ 10 ^ 8) 2 < 1 /\ 0 < bessel_partial 0 (/ 10 ^ 8) 2 /\
  bessel_rad 0 (/ 10 ^ 8) 2 / bessel_partial 0 (/ 10 ^ 8) 2 <= / 10 ^ 33.
Proof.
  unfold bessel_q, bessel_rad, bessel_partial, bessel_q, bessel_term. simpl sumf. simpl zfact. simpl Z.of_nat.
  repeat split; interval with (i_prec 300).
Qed.

Section BesselNest.
Variable I : nat -> R -> R.
Hypothesis HI : is_bessel_I I.
Lemma bessel_nest_enclosure : forall n x K, 0 <= x -> bessel_q n x K < 1 ->
  bessel_partial_nest n x K <= I n x <= bessel_partial_nest n x K + bessel_rad n x K.
Proof. intros n x K Hx Hq. rewrite <- bessel_partial_nest_eq. apply bessel_series_enclosure; assumption. Qed.
Lemma bessel_nest_abs : forall n x K obs, 0 <= x -> bessel_q n x K < 1 ->
  Rabs (I n x - obs) <= Rabs (bessel_partial_nest n x K - obs) + bessel_rad n x K.
Proof.
  intros n x K obs Hx Hq. destruct (bessel_nest_enclosure n x K Hx Hq) as [H1 H2].
  replace (I n x - obs) with ((bessel_partial_nest n x K - obs) + (I n x - bessel_partial_nest n x K)) by ring.
  eapply Rle_trans; [apply Rabs_triang|]. apply Rplus_le_compat_l. rewrite Rabs_pos_eq; lra.
Qed.
Lemma bessel_nest_log_abs : forall n x K obs, 0 <= x -> bessel_q n x K < 1 -> 0 < bessel_partial_nest n x K ->
  Rabs (ln (I n x) - obs) <= Rabs (ln (bessel_partial_nest n x K) - obs) + bessel_rad n x K / bessel_partial_nest n x K.
Proof.
  intros n x K obs Hx Hq Hp. rewrite <- bessel_partial_nest_eq in *.
  assert (H := bessel_log_enclosure I HI n x K Hx Hq Hp).
  replace (ln (I n x) - obs) with ((ln (bessel_partial n x K) - obs) + (ln (I n x) - ln (bessel_partial n x K))) by ring.
  eapply Rle_trans; [apply Rabs_triang|]. lra.
Qed.
End BesselNest.
