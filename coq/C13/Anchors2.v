(* C13 (round 2) — tactics of the round-2 anchor shards.
   `vmc t` replaces the closed Z/Q-valued subterm t by its vm_compute normal form
   (kernel-checked by a VM cast); `unf2` does that for the integer data of the
   half-integer Bessel forms and for the Bernoulli numbers (through the fast
   table bern_ref of ProofsTables.v, proved equal to Spec.bern for n < 65), then unfolds like `unf`. *)
From Coq Require Import Reals ZArith QArith List.
From Coquelicot Require Import Coquelicot.
From Interval Require Import Tactic.
From ADV Require Import Base.Num C13.Model C13.Spec C13.Spec2 C13.Anchors C13.ProofsTables.

Ltac vmc t :=
  let r := eval vm_compute in t in
  let E := fresh "E" in
  assert (E : t = r) by (vm_cast_no_check (@eq_refl _ r)); rewrite E; clear E.

Ltac unf2 :=
  unfold i_half_rat, i_mhalf_rat, i_gen_rat, zeta_neg, zeta_even, Q_int_nest, P_int_nest;
  repeat match goal with
  | |- context [bes_ints ?n ?a ?b ?i] => vmc (bes_ints n a b i)
  | |- context [bern ?n] =>
      rewrite <- (bern_ref_nth n) by (apply Nat.ltb_lt; vm_compute; reflexivity);
      vmc (nth n bern_ref 0%Q)
  end;
  cbv -[Rplus Rminus Rmult Rdiv Ropp Rinv Rabs exp ln sqrt PI IZR Rle Rlt pow RInt
        atan sin cos tan Rpower erfcR];
  unfold erfcR, erfR.
