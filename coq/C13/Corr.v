(* C13 correspondence, exact part: the models of Model.v / ModelKernels.v are run
   on binary64 by vm_compute and compared bit-for-bit (Prim2SF equality) with
   what the Go code returned; tables are compared exactly. *)
From Coq Require Import ZArith QArith Qabs List Bool Floats.
From ADV Require Import Base.Num Base.Corr C13.Model C13.ModelKernels.
Import ListNotations.

Definition tiny64 : float := 0x1p-1074%float.

Inductive case :=
| CPoly (cs : list float) (z : float) (out : float)
| CEvenPoly (cs : list float) (z : float) (out : float)
| CSeries (terms : list float) (dflt init factor : float) (max : Z) (out : float) (calls : nat)
| CFrac (pairs : list (float * float)) (dflt : float * float) (factor : float) (max : Z) (out : float) (calls : nat)
| CLowerSeries (a z factor : float) (max : Z) (out : float)
| CSmallGamma2 (a x factor : float) (max : Z) (out : float)
| CUpperFrac (a z factor : float) (max : Z) (out : float)
| CFactTab (x : Z) (panicked : bool) (v : Z)            (* Factorial(x), x <= 20 (v = int64 of the result) *)
| CFactBig (x : nat) (v : float)                        (* Factorial(x), x >= 21: round(Gamma(x+1)) vs x! within 2^-47 (32 ulp: Go's math.Gamma is
                                                           10 ulp off at 157 and 16 ulp off at 167; round 1 allowed 8 ulp, which the thorough tier refuted) *)
| CBern (n : nat) (v : float)                           (* BernoulliNumber(n) vs the nearest binary64 of the model rational *)
| CLogInf (sub : bool) (a b out : float).               (* LogAdd/LogSub with a -Inf operand *)

Definition fst3 {A B C} (x : A * B * C) : A := fst (fst x).
Definition snd3 {A B C} (x : A * B * C) : B := snd (fst x).

(* |q - f| <= 2^-53 * |f| : f is (one of the at most two) nearest doubles of q *)
Definition nearest_ok (q : Q) (f : float) : bool :=
  match F2Q f with
  | Some fq => Qle_bool (Qabs (q - fq)) (Qabs fq * (1 # (2 ^ 53)))
  | None => false
  end.
(* relative error at most 2^-e *)
Definition rel_ok (e : positive) (q : Q) (f : float) : bool :=
  match F2Q f with
  | Some fq => Qle_bool (Qabs (q - fq)) (Qabs q * (1 # (2 ^ e)))
  | None => false
  end.
Fixpoint zfactZ (n : nat) : Z := match n with O => 1%Z | S k => (Z.of_nat n * zfactZ k)%Z end.

Definition is_neg_inf (x : float) : bool := feqb x neg_infinity.

Definition check (c : case) : bool :=
  match c with
  | CPoly cs z out => option_eqb feqb (poly_eval NumF cs z) (Some out)
  | CEvenPoly cs z out => option_eqb feqb (even_poly_eval NumF cs z) (Some out)
  | CSeries terms d init factor max out calls =>
      let r := SumSeries NumF (list float) (list_step d) terms init factor max in
      feqb (fst3 r) out && Nat.eqb (snd3 r) calls
  | CFrac pairs d factor max out calls =>
      let r := EvalContinuedFraction NumF (list (float * float)) tiny64 (list_step d) pairs factor max in
      feqb (fst3 r) out && Nat.eqb (snd3 r) calls
  | CLowerSeries a z factor max out =>
      feqb (fst3 (SumSeries NumF _ (lower_series_step NumF) (lower_series_init NumF a z) 0%float factor max)) out
  | CSmallGamma2 a x factor max out =>
      feqb (fst3 (SumSeries NumF _ (small_gamma2_step NumF) (small_gamma2_init NumF a x) 0%float factor max)) out
  | CUpperFrac a z factor max out =>
      feqb (fst3 (EvalContinuedFraction NumF _ tiny64 (upper_fraction_step NumF) (upper_fraction_init NumF a z) factor max)) out
  | CFactTab x panicked v =>
      match Factorial x with
      | FactPanic => panicked
      | FactTab t => negb panicked && (t =? v)%Z
      | FactGamma _ => false
      end
  | CFactBig x v =>
      match Factorial (Z.of_nat x) with
      | FactGamma arg => (arg =? Z.of_nat x + 1)%Z && rel_ok 47 (inject_Z (zfactZ x)) v
      | _ => false
      end
  | CBern n v => nearest_ok (BernoulliNumber n) v
  | CLogInf sub a b out =>
      if sub then (if is_neg_inf b then feqb out a else true)
      else (if is_neg_inf a then feqb out b else if is_neg_inf b then feqb out a else true)
  end.

Definition mism (cs : list case) : list nat := mismatches check cs.
