(* C13 (round 3) — closed forms for the sign / parity / reflection branches
   ("whole domain" half of the property).  Purely additive. *)
From Coq Require Import ZArith QArith Reals List Bool.
From Coquelicot Require Import Coquelicot.
From ADV Require Import Base.Num C13.Model C13.Spec C13.Spec2.
Import ListNotations.
Local Open Scope R_scope.

(* psi(3/4 - m) - psi(1); Gauss: psi(3/4) = -gamma + pi/2 - 3 ln 2.  After the reflection x -> 1 - x of
   digamma_imp the fractional part is 1/4 here (no shift) and 3/4 at 1/4 - m (shift): the two sides of `remainder > 0.5` *)
Definition psi_m3quarter_diff (m : nat) : R :=
  PI / 2 - 3 * ln 2 + sumf (fun k => 1 / (IZR (Z.of_nat (S k)) - 3 / 4)) m.

(* psi_n(1/2 - m) - (2^(n+1) - 1) psi_n(1) = n! sum_{k<m} (2/(2k+1))^(n+1)   (reflection branch of polygamma_imp) *)
Definition polyg_mhalf_diff (n m : nat) : R :=
  IZR (zfact n) * sumf (fun k => (2 / IZR (2 * Z.of_nat k + 1)) ^ (S n)) m.

(* term of the power series of I_n(x), integer n >= 0, any real x *)
Definition bessel_term (n : nat) (x : R) (k : nat) : R :=
  (x / 2) ^ (2 * k + n) / (IZR (zfact k) * IZR (zfact (n + k))).

(* I is the modified Bessel function of the first kind of integer order: the sum of its power series for every real x *)
Definition is_bessel_I (I : nat -> R -> R) : Prop := forall n x, is_series (bessel_term n x) (I n x).

(* Riemann's functional equation at s = -(m + 1/2):  zeta(s) = 2 (2 pi)^(s-1) sin(pi s/2) Gamma(1-s) zeta(1-s),
   (2 pi)^(s-1) = 1 / ((2 pi)^(m+1) sqrt(2 pi)),  Gamma(1-s) = Gamma(m + 1 + 1/2) *)
Definition zeta_reflect_mhalf (m : nat) (zpos : R) : R :=
  2 / ((2 * PI) ^ (S m) * sqrt (2 * PI)) * sin (PI * (- (IZR (Z.of_nat m) + 1 / 2)) / 2) * gamma_half (S m) * zpos.
