(* C13 (round 7) — tactic of the round-7 model-tie anchor goals (branch x >= 500 of bessel_i0 / bessel_i1 against its R-model). *)
From Coq Require Import Reals ZArith QArith List.
From Coquelicot Require Import Coquelicot.
From Interval Require Import Tactic.
From ADV Require Import Base.Num C13.Model C13.Spec C13.Model7 C13.Proofs7.

Ltac unf7 :=
  unfold bessel_i0_large, bessel_i1_large; rewrite ?bessel_large_value;
  unfold i0_large_cs, i1_large_cs, poly_val.
