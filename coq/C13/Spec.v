(* C13 — specification: what the glue must compute (over R / Q), and the closed
   forms the ported kernels are compared with at the certified anchors. *)
From Coq Require Import ZArith QArith Reals List Bool.
From Coquelicot Require Import Coquelicot.
From ADV Require Import Base.Num C13.Model.
Import ListNotations.
Local Open Scope R_scope.

(* ---------------- finite sums / products ---------------- *)
Fixpoint sumf (f : nat -> R) (n : nat) : R :=
  match n with O => 0 | S k => sumf f k + f k end.
Fixpoint zfact (n : nat) : Z :=
  match n with O => 1%Z | S k => (Z.of_nat n * zfact k)%Z end.

(* ---------------- log-domain numbers ---------------- *)
Definition lgexp (a : lg) : R :=
  match a with LNegInf => 0 | LFin r => exp r | LNaN => 0 end.
Definition lg_le (b a : lg) : Prop :=            (* b <= a, both not NaN *)
  match b, a with
  | LNegInf, LNegInf => True | LNegInf, LFin _ => True
  | LFin y, LFin x => y <= x
  | _, _ => False
  end.

(* ---------------- polynomials ---------------- *)
Fixpoint poly_val (cs : list R) (z : R) : R :=
  match cs with [] => 0 | c :: r => c + z * poly_val r z end.
Fixpoint lgpoly_val (cs : list lg) (z : R) : R :=
  match cs with [] => 0 | c :: r => lgexp c + z * lgpoly_val r z end.

(* ---------------- series / continued fractions as state machines ---------------- *)
Section Machines.
Context {S A : Type} (step : S -> A * S).
Fixpoint nth_state (s : S) (n : nat) : S :=
  match n with O => s | Datatypes.S k => snd (step (nth_state s k)) end.
Definition nth_out (s : S) (n : nat) : A := fst (step (nth_state s n)).
End Machines.

Section SeriesSpec.
Context {S : Type} (step : S -> R * S) (s : S) (init factor : R).
Definition partial_sum (n : nat) : R := init + sumf (nth_out step s) n.
(* the coded stopping test after adding term j *)
Definition series_stop (j : nat) : Prop :=
  Rabs (nth_out step s j) <= Rabs (factor * partial_sum (Datatypes.S j)).
(* n terms were consumed: no earlier stop, and either the test fired at n-1 or the limit was hit *)
Definition series_result (limit : nat) (r : R) (n : nat) (s' : S) : Prop :=
  (n <= limit)%nat /\ r = partial_sum n /\ s' = nth_state step s n /\
  (forall j, (Datatypes.S j < n)%nat -> ~ series_stop j) /\
  (n = limit \/ ((0 < n)%nat /\ series_stop (n - 1))).
End SeriesSpec.

Section CFSpec.
Context {S : Type} (step : S -> (R * R) * S) (s : S).
Definition cf_a (i : nat) : R := fst (nth_out step s i).
Definition cf_b (i : nat) : R := snd (nth_out step s i).
(* numerators / denominators of the convergents of  b0 + a1/(b1 + a2/(b2 + ...)):
   cfA n = (A_n, A_{n-1}),  cfB n = (B_n, B_{n-1}) *)
Fixpoint cfA (n : nat) : R * R :=
  match n with
  | O => (cf_b 0, 1)
  | Datatypes.S k => let '(p, q) := cfA k in (cf_b n * p + cf_a n * q, p)
  end.
Fixpoint cfB (n : nat) : R * R :=
  match n with
  | O => (1, 0)
  | Datatypes.S k => let '(p, q) := cfB k in (cf_b n * p + cf_a n * q, p)
  end.
Definition convergent (n : nat) : R := fst (cfA n) / fst (cfB n).
(* the `tiny` substitutions of modified Lentz are not triggered up to index n *)
Definition cf_regular (n : nat) : Prop :=
  forall i, (i <= n)%nat -> fst (cfA i) <> 0 /\ fst (cfB i) <> 0.
(* the coded stopping test at step i >= 1:  |delta_i - 1| <= factor,
   delta_i = convergent i / convergent (i-1) *)
Definition cf_stop (factor : R) (i : nat) : Prop :=
  Rabs (convergent i / convergent (i - 1) - 1) <= factor.
End CFSpec.

(* ---------------- exact tables ---------------- *)
(* Bernoulli numbers (B_1 = +1/2 convention, as produced by Akiyama–Tanigawa):
   B_m = 1 - sum_{k<m} C(m,k) B_k / (m-k+1) *)
Fixpoint zbinom (n k : nat) : Z :=
  match k, n with
  | O, _ => 1%Z
  | Datatypes.S _, O => 0%Z
  | Datatypes.S k', Datatypes.S n' => (zbinom n' k' + zbinom n' k)%Z
  end.
Fixpoint bern_list (n : nat) : list Q :=      (* [B_0; ...; B_{n-1}] *)
  match n with
  | O => []
  | Datatypes.S m =>
      let l := bern_list m in
      let s := fold_left Qplus
                 (map (fun k => (inject_Z (zbinom m k) * nth k l 0 / inject_Z (Z.of_nat (m - k + 1)))%Q) (seq 0 m)) 0%Q in
      l ++ [Qred (1 - s)%Q]
  end.
Definition bern (n : nat) : Q := nth n (bern_list (Datatypes.S n)) 0%Q.

(* exactly representable in binary64: an integer whose odd part is below 2^53 *)
Fixpoint odd_part (fuel : nat) (z : Z) : Z :=
  match fuel with O => z | Datatypes.S f => if Z.even z && negb (z =? 0)%Z then odd_part f (z / 2)%Z else z end.
Definition f64_exact (z : Z) : bool := (Z.abs (odd_part 1100 z) <? 2 ^ 53)%Z.

(* ---------------- closed forms used at the anchors ---------------- *)
Definition erfR (x : R) : R := 2 / sqrt PI * RInt (fun t => exp (- (t * t))) 0 x.
Definition erfcR (x : R) : R := 1 - erfR x.

(* Γ(n) for n >= 1 and Γ(n + 1/2) *)
Definition gamma_int (n : nat) : R := IZR (zfact (n - 1)).
Definition gamma_half (n : nat) : R :=           (* Γ(n + 1/2) = (2n)! sqrt(pi) / (4^n n!) *)
  IZR (zfact (2 * n)) * sqrt PI / (4 ^ n * IZR (zfact n)).
(* argument 2a is given as an integer h = 2a >= 1 *)
Definition gamma_h (h : nat) : R :=
  if Nat.even h then gamma_int (h / 2) else gamma_half (h / 2).

(* Q(n, x) = e^-x sum_{k<n} x^k/k!,  Q(n+1/2, x) = erfc(sqrt x) + e^-x sum_{k=1..n} x^(k-1/2)/Γ(k+1/2) *)
Definition Q_int (n : nat) (x : R) : R := exp (- x) * sumf (fun k => x ^ k / IZR (zfact k)) n.
Definition Q_half (n : nat) (x : R) : R :=
  erfcR (sqrt x) + exp (- x) * sumf (fun k => x ^ k * sqrt x / gamma_half (Datatypes.S k)) n.
Definition Q_h (h : nat) (x : R) : R := if Nat.even h then Q_int (h / 2) x else Q_half (h / 2) x.
Definition P_h (h : nat) (x : R) : R := 1 - Q_h h x.
(* d/dx P(a,x) = x^(a-1) e^-x / Γ(a),  a = h/2 *)
Definition pow_h (x : R) (h : nat) : R :=       (* x^((h-2)/2) *)
  if Nat.even h then x ^ (h / 2 - 1) else x ^ (h / 2) / sqrt x.
Definition dP_h (h : nat) (x : R) : R := pow_h x h * exp (- x) / gamma_h h.
Definition d2P_h (h : nat) (x : R) : R := ((IZR (Z.of_nat h) / 2 - 1) / x - 1) * dP_h h x.

(* harmonic-type sums for psi / psi_1 *)
Definition psi_int_diff (n : nat) : R :=        (* psi(n+1) - psi(1) = H_n *)
  sumf (fun k => 1 / IZR (Z.of_nat (Datatypes.S k))) n.
Definition psi_half_diff (n : nat) : R :=       (* psi(n+1/2) - psi(1) *)
  - 2 * ln 2 + sumf (fun k => 2 / IZR (2 * Z.of_nat k + 1)) n.
Definition psi1_int (n : nat) : R :=            (* psi_1(n+1) *)
  PI ^ 2 / 6 - sumf (fun k => 1 / IZR (Z.of_nat (Datatypes.S k)) ^ 2) n.
Definition psi1_half (n : nat) : R :=           (* psi_1(n+1/2) *)
  PI ^ 2 / 2 - sumf (fun k => 4 / IZR (2 * Z.of_nat k + 1) ^ 2) n.

Definition psi1_mhalf (n : nat) : R :=          (* psi_1(1/2 - n) *)
  PI ^ 2 / 2 + sumf (fun k => 4 / IZR (2 * Z.of_nat k + 1) ^ 2) n.

(* psi_n, n >= 2, differences free of zeta values (see harness/c13/anchors.go polygammaN) *)
Definition polyg_int_diff (n m : nat) : R :=
  (-1) ^ n * IZR (zfact n) * sumf (fun k => 1 / IZR (Z.of_nat (Datatypes.S k)) ^ (Datatypes.S n)) m.
Definition polyg_half_diff (n m : nat) : R :=
  (-1) ^ n * IZR (zfact n) * sumf (fun k => (2 / IZR (2 * Z.of_nat k + 1)) ^ (Datatypes.S n)) m.

(* modified Bessel functions of half-integer order.
   i_half n x = I_{n+1/2}(x), i_mhalf n x = I_{-(n+1/2)}(x), by the three-term recurrence
   I_{v+1} = I_{v-1} - (2v/x) I_v (upwards) resp. I_{v-1} = I_{v+1} + (2v/x) I_v (downwards, v = -(k+1/2))
   from  I_{1/2} = sqrt(2/(pi x)) sinh x, I_{-1/2} = sqrt(2/(pi x)) cosh x *)
Fixpoint i_half_pair (n : nat) (x : R) : R * R :=   (* (I_{n+1/2}, I_{n-1/2}) *)
  match n with
  | O => (sqrt (2 / (PI * x)) * sinh x, sqrt (2 / (PI * x)) * cosh x)
  | Datatypes.S k => let '(p, q) := i_half_pair k x in (q - (2 * IZR (Z.of_nat k) + 1) / x * p, p)
  end.
Definition i_half (n : nat) (x : R) : R := fst (i_half_pair n x).
Fixpoint i_mhalf_pair (n : nat) (x : R) : R * R :=  (* (I_{-(n+1/2)}, I_{-(n-1/2)}) *)
  match n with
  | O => (sqrt (2 / (PI * x)) * cosh x, sqrt (2 / (PI * x)) * sinh x)
  | Datatypes.S k => let '(p, q) := i_mhalf_pair k x in (q - (2 * IZR (Z.of_nat k) + 1) / x * p, p)
  end.
Definition i_mhalf (n : nat) (x : R) : R := fst (i_mhalf_pair n x).

(* multivariate log-gamma at half-integer arguments: x = h/2, needs h - k + 1 >= 1 *)
Definition mlgamma_h (h : nat) (k : nat) : R :=
  IZR (Z.of_nat k * (Z.of_nat k - 1)) / 4 * ln PI + sumf (fun j => ln (gamma_h (h - j))) k.
