(* C13 — the exact tables: factorial.go lookup and the Akiyama–Tanigawa
   Bernoulli triangle, checked by computation against the specification. *)
From Coq Require Import ZArith QArith Reals List Bool Lia Lra.
From ADV Require Import Base.Num C13.Model C13.Spec.
Import ListNotations.

(* ------------------------------------------------------------------ *)
(* factorial.go                                                         *)
(* ------------------------------------------------------------------ *)
Definition fact_res_eqb (a b : fact_res) : bool :=
  match a, b with
  | FactPanic, FactPanic => true
  | FactTab u, FactTab v => Z.eqb u v
  | FactGamma u, FactGamma v => Z.eqb u v
  | _, _ => false
  end.

Lemma fact_res_eqb_eq : forall a b, fact_res_eqb a b = true -> a = b.
Proof.
  intros [|u|u] [|v|v] H; simpl in H; try discriminate; try reflexivity;
    apply Z.eqb_eq in H; subst; reflexivity.
Qed.

Lemma in_seq_0 : forall n m, (n < m)%nat -> In n (seq 0 m).
Proof. intros n m H. apply in_seq. lia. Qed.

Lemma factorial_table_check :
  forallb (fun n => fact_res_eqb (Factorial (Z.of_nat n)) (FactTab (zfact n)) && f64_exact (zfact n))
          (seq 0 21) = true.
Proof. vm_compute. reflexivity. Qed.

Lemma factorial_table_exact : forall n, (n < 21)%nat ->
  Factorial (Z.of_nat n) = FactTab (zfact n) /\ f64_exact (zfact n) = true.
Proof.
  intros n Hn.
  pose proof factorial_table_check as H.
  rewrite forallb_forall in H.
  specialize (H n (in_seq_0 n 21 Hn)).
  apply andb_true_iff in H. destruct H as [H1 H2].
  split; [apply fact_res_eqb_eq; exact H1 | exact H2].
Qed.

Lemma factorialMax_val : factorialMax = 21%Z.
Proof. reflexivity. Qed.

Lemma factorial_negative_panics : forall x, (x < 0)%Z -> Factorial x = FactPanic.
Proof.
  intros x Hx. unfold Factorial. rewrite factorialMax_val.
  assert (H1 : (x <? 21)%Z = true) by (apply Z.ltb_lt; lia).
  assert (H2 : (x <? 0)%Z = true) by (apply Z.ltb_lt; lia).
  rewrite H1, H2. reflexivity.
Qed.

Lemma factorial_large_uses_gamma : forall x, (21 <= x)%Z -> Factorial x = FactGamma (x + 1).
Proof.
  intros x Hx. unfold Factorial. rewrite factorialMax_val.
  assert (H1 : (x <? 21)%Z = false) by (apply Z.ltb_ge; lia).
  rewrite H1. reflexivity.
Qed.

(* ------------------------------------------------------------------ *)
(* bernoulliNumber.go                                                   *)
(* ------------------------------------------------------------------ *)
(* The specification's [zbinom] is the plain Pascal recursion (exponential
   cost).  For the computational check it is replaced by rows of Pascal's
   triangle, proved equal to [zbinom]. *)
Fixpoint nrow (prev : Z) (r : list Z) : list Z :=
  match r with
  | [] => [prev]
  | x :: t => (prev + x)%Z :: nrow x t
  end.
Fixpoint prow (n : nat) : list Z :=
  match n with O => [1%Z] | Datatypes.S m => nrow 0%Z (prow m) end.

Lemma nth_nrow : forall r p k,
  nth k (nrow p r) 0%Z =
  match k with
  | O => (p + nth 0 r 0)%Z
  | Datatypes.S k' => (nth k' r 0 + nth k r 0)%Z
  end.
Proof.
  induction r as [|x t IH]; intros p k.
  - destruct k as [|[|k']]; simpl; lia.
  - destruct k as [|k']; simpl nrow; [simpl; reflexivity|].
    change (nth (Datatypes.S k') ((p + x)%Z :: nrow x t) 0%Z) with (nth k' (nrow x t) 0%Z).
    rewrite IH. destruct k' as [|k'']; simpl; reflexivity.
Qed.

Lemma nth_prow : forall n k, nth k (prow n) 0%Z = zbinom n k.
Proof.
  induction n as [|m IH]; intros k.
  - destruct k as [|[|k']]; reflexivity.
  - simpl prow. rewrite nth_nrow. destruct k as [|k'].
    + rewrite IH. destruct m; simpl; reflexivity.
    + rewrite !IH. simpl. reflexivity.
Qed.

Fixpoint bern_list_f (n : nat) : list Q :=
  match n with
  | O => []
  | Datatypes.S m =>
      let l := bern_list_f m in
      let row := prow m in
      let s := fold_left Qplus
                 (map (fun k => (inject_Z (nth k row 0%Z) * nth k l 0 / inject_Z (Z.of_nat (m - k + 1)))%Q)
                      (seq 0 m)) 0%Q in
      l ++ [Qred (1 - s)%Q]
  end.

Lemma bern_list_f_eq : forall n, bern_list_f n = bern_list n.
Proof.
  induction n as [|m IH]; [reflexivity|].
  cbn [bern_list_f bern_list]. rewrite IH.
  rewrite (map_ext
    (fun k => (inject_Z (nth k (prow m) 0%Z) * nth k (bern_list m) 0 / inject_Z (Z.of_nat (m - k + 1)))%Q)
    (fun k => (inject_Z (zbinom m k) * nth k (bern_list m) 0 / inject_Z (Z.of_nat (m - k + 1)))%Q)).
  - reflexivity.
  - intros k. rewrite nth_prow. reflexivity.
Qed.

Lemma bern_list_length : forall m, length (bern_list m) = m.
Proof.
  induction m as [|m IH]; [reflexivity|].
  cbn [bern_list]. rewrite app_length, IH. simpl. lia.
Qed.

Lemma bern_list_nth_stable : forall m n, (n < m)%nat -> nth n (bern_list m) 0%Q = bern n.
Proof.
  induction m as [|m IH]; intros n Hn; [lia|].
  destruct (Nat.eq_dec n m) as [->|Hne]; [reflexivity|].
  cbn [bern_list]. rewrite app_nth1 by (rewrite bern_list_length; lia).
  apply IH. lia.
Qed.

(* one pass: the Go triangle against the specification list, and the odd
   entries of the specification list against zero *)
Definition bern_check_on (L : list Q) : bool :=
  forallb (fun n => Qeq_bool (BernoulliNumber n) (nth n L 0%Q)) (seq 0 65) &&
  forallb (fun n => Qeq_bool (nth (2 * n + 1) L 0%Q) 0%Q) (seq 1 31).

Lemma bern_check_on_sound : forall L, bern_check_on L = true ->
  (forall n, (n <= 64)%nat -> Qeq (BernoulliNumber n) (nth n L 0%Q)) /\
  (forall n, (1 <= n <= 31)%nat -> Qeq (nth (2 * n + 1) L 0%Q) 0%Q).
Proof.
  intros L H. unfold bern_check_on in H.
  apply andb_true_iff in H. destruct H as [H1 H2].
  rewrite forallb_forall in H1. rewrite forallb_forall in H2.
  split; intros n Hn.
  - apply Qeq_bool_iff. apply H1. apply in_seq_0. lia.
  - apply Qeq_bool_iff. apply H2. apply in_seq. lia.
Qed.

Definition bern_ref : list Q := bern_list_f 65.

Lemma bernoulli_check_true : bern_check_on bern_ref = true.
Proof. vm_cast_no_check (eq_refl true). Qed.

Lemma bern_ref_nth : forall n, (n < 65)%nat -> nth n bern_ref 0%Q = bern n.
Proof.
  intros n Hn. unfold bern_ref. rewrite bern_list_f_eq.
  apply bern_list_nth_stable. exact Hn.
Qed.

Global Opaque bern_ref.

Lemma bernoulli_table_partial : forall n, (n <= 64)%nat -> Qeq (BernoulliNumber n) (bern n).
Proof.
  intros n Hn.
  destruct (bern_check_on_sound bern_ref bernoulli_check_true) as [H _].
  rewrite <- bern_ref_nth by lia. apply H. exact Hn.
Qed.

Lemma bernoulli_odd_zero_partial : forall n, (1 <= n <= 31)%nat -> Qeq (BernoulliNumber (2*n+1)) 0.
Proof.
  intros n Hn.
  destruct (bern_check_on_sound bern_ref bernoulli_check_true) as [H1 H2].
  rewrite (H1 (2 * n + 1)%nat) by lia. apply H2. exact Hn.
Qed.
