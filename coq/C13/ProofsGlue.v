(* C13 — proofs about the library's glue over R: log-domain arithmetic,
   the polynomial evaluators, and Mgamma / Mlgamma. *)
From Coq Require Import ZArith QArith Reals List Bool Lia Lra.
From ADV Require Import Base.Num C13.Model C13.Spec.
Import ListNotations.
Local Open Scope R_scope.

(* ------------------------------------------------------------------ *)
(* LogAdd / LogSub                                                      *)
(* ------------------------------------------------------------------ *)
Lemma exp_logadd : forall x y, exp (y + ln (1 + exp (x - y))) = exp x + exp y.
Proof.
  intros x y.
  assert (Hp : 0 < 1 + exp (x - y)) by (pose proof (exp_pos (x - y)); lra).
  rewrite exp_plus, (exp_ln _ Hp).
  rewrite Rmult_plus_distr_l, Rmult_1_r, <- exp_plus.
  replace (y + (x - y)) with x by ring. ring.
Qed.

Lemma logadd_correct : forall a b, a <> LNaN -> b <> LNaN ->
  LogAdd a b <> LNaN /\ lgexp (LogAdd a b) = lgexp a + lgexp b.
Proof.
  intros [|x|] [|y|] Ha Hb; try (exfalso; apply Ha; reflexivity);
    try (exfalso; apply Hb; reflexivity).
  - unfold LogAdd; simpl. split; [discriminate | lra].
  - unfold LogAdd; simpl. split; [discriminate | lra].
  - unfold LogAdd; simpl. split; [discriminate | lra].
  - unfold LogAdd. simpl lg_gtb. destruct (Rltb y x); simpl.
    + split; [discriminate|]. rewrite exp_logadd. ring.
    + split; [discriminate|]. rewrite exp_logadd. ring.
Qed.

Lemma exp_le_1 : forall t, t <= 0 -> exp t <= 1.
Proof.
  intros t [Ht|Ht].
  - rewrite <- exp_0. left. apply exp_increasing. exact Ht.
  - subst t. rewrite exp_0. right. reflexivity.
Qed.

Lemma logsub_correct : forall a b, lg_le b a ->
  LogSub a b <> LNaN /\ lgexp (LogSub a b) = lgexp a - lgexp b.
Proof.
  intros [|x|] [|y|] H; simpl in H; try contradiction.
  - simpl. split; [discriminate | lra].
  - simpl. split; [discriminate | lra].
  - unfold LogSub.
    destruct (Rltb (exp (y - x)) 1) eqn:Hlt.
    + apply Rltb_true in Hlt. split; [discriminate|]. simpl.
      assert (Hp : 0 < 1 - exp (y - x)) by lra.
      rewrite exp_plus, (exp_ln _ Hp).
      unfold Rminus at 1. rewrite Rmult_plus_distr_l, Rmult_1_r.
      rewrite <- Ropp_mult_distr_r, <- exp_plus.
      replace (x + (y - x)) with y by ring. ring.
    + assert (Hge : ~ exp (y - x) < 1).
      { intro Hc. apply Rltb_true in Hc. rewrite Hc in Hlt. discriminate. }
      assert (Hle : exp (y - x) <= 1) by (apply exp_le_1; lra).
      assert (Heq : exp (y - x) = 1) by lra.
      assert (Hb : Reqb (exp (y - x)) 1 = true) by (apply Reqb_true; exact Heq).
      rewrite Hb. split; [discriminate|]. simpl.
      rewrite <- exp_0 in Heq. apply exp_inv in Heq.
      replace y with x by lra. ring.
Qed.

(* ------------------------------------------------------------------ *)
(* Polynomial.Eval / EvenPolynomial.Eval                                *)
(* ------------------------------------------------------------------ *)
Lemma poly_val_snoc : forall (l : list R) (h z : R), poly_val (l ++ [h]) z = poly_val l z + h * z ^ length l.
Proof.
  induction l as [|c t IH]; intros h z; simpl.
  - ring.
  - rewrite IH. ring.
Qed.

Lemma horner_fold_rev : forall (z : R) (l : list R) (h : R),
  fold_left (fun s c => s * z + c) (rev l) h = poly_val l z + h * z ^ length l.
Proof.
  intros z. induction l as [|c t IH]; intros h.
  - simpl. ring.
  - simpl rev. rewrite fold_left_app. simpl fold_left. rewrite IH. simpl. ring.
Qed.

Lemma rev_cons_case : forall {A : Type} (c : A) (cs : list A),
  exists h t, rev (c :: cs) = h :: t /\ c :: cs = rev t ++ [h].
Proof.
  intros A c cs. destruct (rev (c :: cs)) as [|h t] eqn:E.
  - exfalso. apply (f_equal (@length A)) in E. rewrite rev_length in E. simpl in E. lia.
  - exists h, t. split; [reflexivity|].
    rewrite <- (rev_involutive (c :: cs)), E. reflexivity.
Qed.

Lemma poly_eval_R : forall (l : list R) (z : R),
  poly_eval NumR l z =
  match rev l with [] => None | h :: t => Some (fold_left (fun s c => s * z + c) t h) end.
Proof. intros l z. reflexivity. Qed.

Lemma poly_eval_horner : forall (c : R) (cs : list R) (z : R),
  poly_eval NumR (c :: cs) z = Some (poly_val (c :: cs) z).
Proof.
  intros c cs z. rewrite poly_eval_R.
  destruct (rev_cons_case c cs) as [h [t [E1 E2]]].
  rewrite E1, E2. f_equal.
  rewrite <- (rev_involutive t) at 1.
  rewrite horner_fold_rev, poly_val_snoc. reflexivity.
Qed.

Lemma poly_eval_empty : forall z : R, poly_eval NumR [] z = None.
Proof. intros z. reflexivity. Qed.

Lemma even_poly_eval_horner : forall c cs z,
  even_poly_eval NumR (c :: cs) z = Some (poly_val (c :: cs) (z * z)).
Proof.
  intros c cs z. unfold even_poly_eval.
  change (mul NumR z z) with (z * z). apply poly_eval_horner.
Qed.

(* ------------------------------------------------------------------ *)
(* LogPolynomial.Eval                                                   *)
(* ------------------------------------------------------------------ *)
Lemma lg_addR_correct : forall a z, a <> LNaN ->
  lg_addR a z <> LNaN /\ lgexp (lg_addR a z) = lgexp a * exp z.
Proof.
  intros [|x|] z Ha; simpl.
  - split; [discriminate | ring].
  - split; [discriminate | apply exp_plus].
  - exfalso. apply Ha. reflexivity.
Qed.

Lemma lgpoly_val_snoc : forall (l : list lg) (h : lg) (z : R),
  lgpoly_val (l ++ [h]) z = lgpoly_val l z + lgexp h * z ^ length l.
Proof.
  induction l as [|c t IH]; intros h z; simpl.
  - ring.
  - rewrite IH. ring.
Qed.

Lemma logpoly_fold_rev : forall (logz : R) (l : list lg) (h : lg),
  Forall (fun x => x <> LNaN) l -> h <> LNaN ->
  fold_left (fun s c => LogAdd (lg_addR s logz) c) (rev l) h <> LNaN /\
  lgexp (fold_left (fun s c => LogAdd (lg_addR s logz) c) (rev l) h) =
    lgpoly_val l (exp logz) + lgexp h * exp logz ^ length l.
Proof.
  intros logz. induction l as [|c t IH]; intros h Hl Hh.
  - simpl. split; [exact Hh | ring].
  - inversion Hl as [|c' t' Hc Ht]; subst.
    simpl rev. rewrite fold_left_app. simpl fold_left.
    destruct (IH h Ht Hh) as [Hn Hv].
    set (v := fold_left (fun s c0 => LogAdd (lg_addR s logz) c0) (rev t) h) in *.
    destruct (lg_addR_correct v logz Hn) as [Hn2 Hv2].
    destruct (logadd_correct (lg_addR v logz) c Hn2 Hc) as [Hn3 Hv3].
    split; [exact Hn3|].
    rewrite Hv3, Hv2, Hv. simpl. ring.
Qed.

Lemma logpoly_eval_correct : forall (c : lg) (cs : list lg) (logz : R),
  Forall (fun x => x <> LNaN) (c :: cs) ->
  exists v, logpoly_eval (c :: cs) logz = Some v /\ v <> LNaN /\
            lgexp v = lgpoly_val (c :: cs) (exp logz).
Proof.
  intros c cs logz HF. unfold logpoly_eval.
  destruct (rev_cons_case c cs) as [h [t [E1 E2]]].
  rewrite E1. rewrite E2 in HF. rewrite E2.
  apply Forall_app in HF. destruct HF as [HF1 HF2].
  inversion HF2 as [|h' t' Hh _]; subst.
  destruct (logpoly_fold_rev logz (rev t) h HF1 Hh) as [Hn Hv].
  rewrite rev_involutive in Hn, Hv.
  eexists. split; [reflexivity|]. split; [exact Hn|].
  rewrite Hv, lgpoly_val_snoc. reflexivity.
Qed.

(* ------------------------------------------------------------------ *)
(* Mgamma / Mlgamma                                                     *)
(* ------------------------------------------------------------------ *)
Section MG.
Variable gam lgam : R -> R.

Lemma mg_loop_snoc : forall (f : R -> R) (op : R -> R -> R) (x : R) (n : nat) (i : Z) (r : R),
  mg_loop f op x i (Datatypes.S n) r =
  op (mg_loop f op x i n r) (f ((2 * x + 1 - IZR (i + Z.of_nat n)) / 2)).
Proof.
  intros f op x. induction n as [|m IH]; intros i r.
  - simpl. rewrite Z.add_0_r. reflexivity.
  - change (mg_loop f op x i (Datatypes.S (Datatypes.S m)) r)
      with (mg_loop f op x (i + 1)%Z (Datatypes.S m) (op r (f ((2 * x + 1 - IZR i) / 2)))).
    rewrite IH.
    change (mg_loop f op x i (Datatypes.S m) r)
      with (mg_loop f op x (i + 1)%Z m (op r (f ((2 * x + 1 - IZR i) / 2)))).
    replace (i + 1 + Z.of_nat m)%Z with (i + Z.of_nat (Datatypes.S m))%Z by lia.
    reflexivity.
Qed.

Lemma mg_loop_lgam_sum : forall x n c,
  mg_loop lgam Rplus x 1%Z n c =
  c + sumf (fun j => lgam (x + (1 - IZR (Z.of_nat j + 1)) / 2)) n.
Proof.
  intros x. induction n as [|m IH]; intros c.
  - simpl. ring.
  - rewrite mg_loop_snoc, IH. simpl sumf.
    replace (1 + Z.of_nat m)%Z with (Z.of_nat m + 1)%Z by lia.
    replace ((2 * x + 1 - IZR (Z.of_nat m + 1)) / 2)
      with (x + (1 - IZR (Z.of_nat m + 1)) / 2) by field.
    ring.
Qed.

Lemma Mlgamma_sum : forall x k, (0 <= k)%Z ->
  Mlgamma lgam x k = IZR (k * (k - 1)) / 4 * ln PI +
    sumf (fun j => lgam (x + (1 - IZR (Z.of_nat j + 1)) / 2)) (Z.to_nat k).
Proof.
  intros x k _. unfold Mlgamma. apply mg_loop_lgam_sum.
Qed.

Lemma Mlgamma_nonpos : forall x k, (k <= 0)%Z ->
  Mlgamma lgam x k = IZR (k * (k - 1)) / 4 * ln PI.
Proof.
  intros x k Hk. unfold Mlgamma.
  replace (Z.to_nat k) with O by lia. reflexivity.
Qed.

Lemma mg_loop_exp : forall x n c1 c2,
  c1 = exp c2 ->
  (forall j, (j < n)%nat ->
     gam ((2 * x + 1 - IZR (Z.of_nat j + 1)) / 2) = exp (lgam ((2 * x + 1 - IZR (Z.of_nat j + 1)) / 2))) ->
  mg_loop gam Rmult x 1%Z n c1 = exp (mg_loop lgam Rplus x 1%Z n c2).
Proof.
  intros x. induction n as [|m IH]; intros c1 c2 Hc Hg.
  - simpl. exact Hc.
  - rewrite !mg_loop_snoc.
    rewrite (IH c1 c2 Hc) by (intros j Hj; apply Hg; lia).
    rewrite exp_plus.
    replace (1 + Z.of_nat m)%Z with (Z.of_nat m + 1)%Z by lia.
    rewrite (Hg m) by lia. reflexivity.
Qed.

Lemma Mgamma_exp_Mlgamma : forall x k,
  (forall j, (j < Z.to_nat k)%nat ->
     gam ((2 * x + 1 - IZR (Z.of_nat j + 1)) / 2) = exp (lgam ((2 * x + 1 - IZR (Z.of_nat j + 1)) / 2))) ->
  Mgamma gam x k = exp (Mlgamma lgam x k).
Proof.
  intros x k Hg. unfold Mgamma, Mlgamma.
  apply mg_loop_exp; [|exact Hg].
  unfold Rpower. reflexivity.
Qed.

End MG.
