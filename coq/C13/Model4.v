(* C13 (round 5) — R-models of the formula pairs selected by the order / tiny-argument tests of
   special/polygamma.go and special/zeta.go (operation order of the Go code; rounding not modelled:
   math.Pow / Log / Exp / Lgamma are not bit-reproducible, the tie is the certified-anchor comparison).
   No proofs here.  Purely additive. *)
From Coq Require Import ZArith Reals.
From ADV Require Import Base.Num C13.Model C13.Spec.
Local Open Scope R_scope.

(* ---- zeta_imp: `if math.Abs(s) < rootEpsilon { result = -0.5 - log_root_two_pi * s }` *)
Definition log_root_two_pi : R := 9189385332046727417803297364056176398 / 10 ^ 37.
Definition zeta_small (s : R) : R := - (1 / 2) - log_root_two_pi * s.

(* ---- polygamma_atinfinityplus, initial values (sum, part_term) of the asymptotic series.
   linear:   part_term = Factorial(n-1) * Pow(x, -n-1); sum = part_term*(n + 2x)/2; part_term *= n(n+1)/2; part_term /= x
   log:      part_term = lgamma(n) - (n+1) Log(x); sum = Exp(part_term + Log(n + 2x) - Log 2);
             part_term += Log(n(n+1)) - Log 2 - Log x; part_term = Exp(part_term)
   selected by `n > factorialMax && n*n > MaxLogFloat64` (-> n >= 27 with factorialMax = 21) or `part_term == 0` (underflow) *)
Definition pg_init_lin (n : nat) (x : R) : R * R :=
  let pt := IZR (zfact (n - 1)) * / x ^ (n + 1) in
  (pt * (INR n + 2 * x) / 2, pt * (INR (n * (n + 1)) / 2) / x).
Definition pg_init_log (lgam : R) (n : nat) (x : R) : R * R :=
  let pt := lgam - INR (n + 1) * ln x in
  (exp (pt + ln (INR n + 2 * x) - ln 2), exp (pt + ln (INR (n * (n + 1))) - ln 2 - ln x)).
(* order test as coded (factorialMax = len(factorialList) = 21, MaxLogFloat64 = 709) *)
Definition pg_use_log_order (n : nat) : bool := andb (21 <? n)%nat (709 <? n * n)%nat.

(* `float64(n) + x == x` ("x is crazy large"): first term only *)
Definition pg_huge_lin (n : nat) (x : R) : R := (-1) ^ (n + 1) * IZR (zfact (n - 1)) * / x ^ n.
Definition pg_huge_log (lgam : R) (n : nat) (x : R) : R := (-1) ^ (n + 1) * exp (lgam - INR n * ln x).

(* ---- polygamma_attransitionplus: forward recursion to z = x + iter, then the asymptotic series there.
   linear:  sum0 = Factorial(n) * sum_{k<iter} Pow(x + k, -n-1)
   log:     sum0 = sum_{k<iter} Exp(Log(x + k) * (-n-1) + lgamma(n+1))     (when (x+iter)^(-n-1) would underflow) *)
Definition pg_trans_lin (n iter : nat) (x : R) : R :=
  IZR (zfact n) * sumf (fun k => / (x + INR k) ^ (n + 1)) iter.
Definition pg_trans_log (lgam1 : R) (n iter : nat) (x : R) : R :=
  sumf (fun k => exp (ln (x + INR k) * - INR (n + 1) + lgam1)) iter.
(* result = (-1)^(n+1) sum0 + polygamma_atinfinityplus(n, x + iter) *)
Definition pg_transition (sum0 : R) (n iter : nat) (x : R) (atinf : R -> R) : R :=
  (-1) ^ (n + 1) * sum0 + atinf (x + INR iter).
