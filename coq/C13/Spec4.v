(* C13 (round 5) — references for the two algorithm-selection classes the anchors did not reach:
   (A) tiny-argument Taylor branches (zeta near 0), (B) branches selected by the ORDER parameter
   (polygamma: linear / log-domain initialisation of the asymptotic series, small-x / transition /
   asymptotic regimes), plus zeta_imp_prec at non-integer s >= 7.  Purely additive.

   The common reference is the Hurwitz series  zeta(s, x) = sum_{k>=0} (x + k)^-s  (s > 1, x > 0):
     psi_n(x) = (-1)^(n+1) n! zeta(n+1, x),   zeta(s) = zeta(s, 1),
   enclosed by a finite partial sum plus the integral of the tail (ProofsAnchors4.hurwitz_enclosure). *)
From Coq Require Import ZArith QArith Reals List Bool.
From Coquelicot Require Import Coquelicot.
From ADV Require Import Base.Num C13.Model C13.Spec.
Local Open Scope R_scope.

(* (x + k)^-s for real s, x + k > 0 *)
Definition hz_term (s x : R) (k : nat) : R := exp (- s * ln (x + IZR (Z.of_nat k))).
Definition hz_partial (s x : R) (K : nat) : R := sumf (hz_term s x) K.
(* int_y^infty t^-s dt = y^(1-s) / (s-1) *)
Definition hz_tail (s y : R) : R := exp ((1 - s) * ln y) / (s - 1).
(* l is the sum of the Hurwitz series *)
Definition is_hurwitz (s x l : R) : Prop := is_lim_seq (hz_partial s x) l.
Definition hz_lo (s x : R) (K : nat) : R := hz_partial s x K + hz_tail s (x + IZR (Z.of_nat K)).
Definition hz_hi (s x : R) (K : nat) : R := hz_lo s x K + hz_term s x K.
(* midpoint of the enclosure and its half width *)
Definition hz_mid (s x : R) (K : nat) : R := hz_lo s x K + hz_term s x K / 2.
Definition hz_rad (s x : R) (K : nat) : R := hz_term s x K / 2.

(* integer exponent: the same objects with `pow` (faster for Coq-Interval) *)
Definition hzn_term (n : nat) (x : R) (k : nat) : R := / (x + IZR (Z.of_nat k)) ^ (Datatypes.S n).
Definition hzn_partial (n : nat) (x : R) (K : nat) : R := sumf (hzn_term n x) K.
Definition hzn_tail (n : nat) (y : R) : R := / (IZR (Z.of_nat n) * y ^ n).
Definition hzn_mid (n : nat) (x : R) (K : nat) : R :=
  hzn_partial n x K + hzn_tail n (x + IZR (Z.of_nat K)) + hzn_term n x K / 2.
Definition hzn_rad (n : nat) (x : R) (K : nat) : R := hzn_term n x K / 2.

(* |psi_n(x)| = n! zeta(n+1, x); sign (-1)^(n+1) *)
Definition polyg_sign (n : nat) : R := (-1) ^ (Datatypes.S n).
Definition polyg_mid (n : nat) (x : R) (K : nat) : R := polyg_sign n * IZR (zfact n) * hzn_mid n x K.
Definition polyg_rad (n : nat) (x : R) (K : nat) : R := IZR (zfact n) * hzn_rad n x K.
(* the x -> x + 1 recurrence: psi_n(x+1) - psi_n(x) = (-1)^n n! / x^(n+1) *)
Definition polyg_step (n : nat) (x : R) : R := (-1) ^ n * IZR (zfact n) / x ^ (Datatypes.S n).

(* ---- zeta near 0: Taylor polynomial of degree 3.
   zeta(0) = -1/2, zeta'(0) = -ln(2 pi)/2, zeta''(0)/2 = -1.00317822795..., zeta'''(0)/6 = -1.00078519447...
   (the last two enter as rational constants; only their first 3 digits matter below 1e-5) *)
Definition zeta_c1 : R := ln (2 * PI) / 2.
Definition zeta_c2 : R := - (10031782279543 / 10000000000000).
Definition zeta_c3 : R := - (1000785194477 / 1000000000000).
Definition zeta_T3 (s : R) : R := - (1 / 2) - zeta_c1 * s + zeta_c2 * s ^ 2 + zeta_c3 * s ^ 3.
(* a function agrees with zeta near 0 to fourth order *)
Definition zeta_taylor0 (Zf : R -> R) : Prop :=
  forall s, Rabs s <= / 2 ^ 16 -> Rabs (Zf s - zeta_T3 s) <= 2 * s ^ 4.
(* the threshold of the code: const rootEpsilon = 1.49012e-08 *)
Definition zeta_root_eps : R := 149012 / 10 ^ 13.
