(* C13 — property theorems (statements only; proofs in Proofs*.v).
   Scope (see DESIGN.md §2 C13, §6.1): what is DECIDED BY PROOF here is the
   library's own glue (log-domain arithmetic, Horner evaluation, the generic
   series / continued-fraction drivers, Mlgamma/Mgamma), the exact tables, and
   the closed forms against which the Boost-ported kernels are certified at
   anchors.  No theorem about the accuracy of the kernels between anchors. *)
From Coq Require Import ZArith QArith Reals List Bool Lia.
From ADV Require Import Base.Num C13.Model C13.Spec C13.Spec2 C13.ProofsGlue C13.ProofsDrivers C13.ProofsTables C13.ProofsAnchors C13.ProofsAnchors2.
From ADV Require Import C13.Spec3 C13.ProofsAnchors3.
From ADV Require Import C13.Spec4 C13.Model4 C13.ProofsAnchors4.
From ADV Require Import C13.Spec6 C13.ProofsAnchors6.
From ADV Require Import C13.Model7 C13.Proofs7.
Import ListNotations.
Local Open Scope R_scope.

(* ---- (1) glue over R ---- *)
Theorem LogAdd_is_log_of_sum : forall a b, a <> LNaN -> b <> LNaN ->
  LogAdd a b <> LNaN /\ lgexp (LogAdd a b) = lgexp a + lgexp b.
Proof. exact logadd_correct. Qed.
Theorem LogSub_is_log_of_difference : forall a b, lg_le b a ->
  LogSub a b <> LNaN /\ lgexp (LogSub a b) = lgexp a - lgexp b.
Proof. exact logsub_correct. Qed.
Theorem Polynomial_Eval_is_polynomial_value : forall (c : R) (cs : list R) (z : R),
  poly_eval NumR (c :: cs) z = Some (poly_val (c :: cs) z).
Proof. exact poly_eval_horner. Qed.
Theorem Polynomial_Eval_empty_panics : forall z : R, poly_eval NumR [] z = None.
Proof. exact poly_eval_empty. Qed.
Theorem EvenPolynomial_Eval_is_value_at_square : forall c cs z,
  even_poly_eval NumR (c :: cs) z = Some (poly_val (c :: cs) (z * z)).
Proof. exact even_poly_eval_horner. Qed.
Theorem LogPolynomial_Eval_is_log_of_polynomial : forall (c : lg) (cs : list lg) (logz : R),
  Forall (fun x => x <> LNaN) (c :: cs) ->
  exists v, logpoly_eval (c :: cs) logz = Some v /\ v <> LNaN /\ lgexp v = lgpoly_val (c :: cs) (exp logz).
Proof. exact logpoly_eval_correct. Qed.
Theorem SumSeries_returns_partial_sum_at_stopping_index :
  forall (S : Type) (step : S -> R * S) (s : S) (init factor : R) (max_terms : Z),
  let '(r, n, s') := SumSeries NumR S step s init factor max_terms in
  series_result step s init factor (Z.to_nat max_terms) r n s'.
Proof. exact sum_series_spec. Qed.
Theorem EvalContinuedFraction_returns_convergent_at_stopping_index :
  forall (S : Type) (step : S -> (R*R) * S) (s : S) (tiny factor : R) (max_terms : Z),
  let '(r, n, s') := EvalContinuedFraction NumR S tiny step s factor max_terms in
  (1 <= n <= Datatypes.S (Z.to_nat max_terms))%nat /\ s' = nth_state step s n /\
  (cf_regular step s (n - 1) ->
     r = cf_a step s 0 / convergent step s (n - 1) /\
     (forall i, (1 <= i < n - 1)%nat -> ~ cf_stop step s factor i) /\
     ((n - 1)%nat = Z.to_nat max_terms \/ ((1 <= n - 1)%nat /\ cf_stop step s factor (n - 1)))).
Proof. exact cf_convergent. Qed.
Theorem Mlgamma_is_sum_of_lgamma : forall (lgam : R -> R) x k, (0 <= k)%Z ->
  Mlgamma lgam x k = IZR (k * (k - 1)) / 4 * ln PI + sumf (fun j => lgam (x + (1 - IZR (Z.of_nat j + 1)) / 2)) (Z.to_nat k).
Proof. exact Mlgamma_sum. Qed.
Theorem Mgamma_is_exp_Mlgamma : forall (gam lgam : R -> R) x k,
  (forall j, (j < Z.to_nat k)%nat -> gam ((2 * x + 1 - IZR (Z.of_nat j + 1)) / 2) = exp (lgam ((2 * x + 1 - IZR (Z.of_nat j + 1)) / 2))) ->
  Mgamma gam x k = exp (Mlgamma lgam x k).
Proof. exact Mgamma_exp_Mlgamma. Qed.

(* ---- (2) exact tables ---- *)
Theorem Factorial_table_is_factorial : forall n, (n < 21)%nat ->
  Factorial (Z.of_nat n) = FactTab (zfact n) /\ f64_exact (zfact n) = true.
Proof. exact factorial_table_exact. Qed.
Theorem Factorial_negative_argument_panics : forall x, (x < 0)%Z -> Factorial x = FactPanic.
Proof. exact factorial_negative_panics. Qed.
(* only n <= 64 is checked (exhaustively, by computation); the Akiyama–Tanigawa
   theorem for every n is not proved *)
Theorem BernoulliNumber_matches_recurrence_partial : forall n, (n <= 64)%nat -> Qeq (BernoulliNumber n) (bern n).
Proof. exact bernoulli_table_partial. Qed.

(* ---- (3) closed forms behind the anchors, from defining relations ---- *)
Theorem Gamma_at_integers_and_half_integers : forall G : R -> R,
  (forall x, 0 < x -> G (x + 1) = x * G x) -> G 1 = 1 -> G (1 / 2) = sqrt PI ->
  forall n, G (INR (Datatypes.S n)) = gamma_int (Datatypes.S n) /\ G (INR n + 1 / 2) = gamma_half n.
Proof. intros G H1 H2 H3 n. split; [apply gamma_int_closed | apply gamma_half_closed]; assumption. Qed.
Theorem Digamma_differences : forall psi : R -> R,
  (forall x, 0 < x -> psi (x + 1) = psi x + 1 / x) -> psi (1 / 2) - psi 1 = - 2 * ln 2 ->
  (forall m : nat, psi (1 / 2 - INR (Datatypes.S m) + 1) = psi (1 / 2 - INR (Datatypes.S m)) + 1 / (1 / 2 - INR (Datatypes.S m))) ->
  forall n, psi (INR (Datatypes.S n)) - psi 1 = psi_int_diff n /\ psi (INR n + 1 / 2) - psi 1 = psi_half_diff n /\
            psi (1 / 2 - INR n) - psi 1 = psi_half_diff n.
Proof. intros p H1 H2 H3 n. repeat split; [apply psi_int_closed | apply psi_half_closed | apply psi_mhalf_closed]; assumption. Qed.
Theorem Trigamma_values : forall psi1 : R -> R,
  (forall x, 0 < x -> psi1 (x + 1) = psi1 x - 1 / x ^ 2) -> psi1 1 = PI ^ 2 / 6 -> psi1 (1 / 2) = PI ^ 2 / 2 ->
  (forall m : nat, psi1 (1 / 2 - INR (Datatypes.S m) + 1) = psi1 (1 / 2 - INR (Datatypes.S m)) - 1 / (1 / 2 - INR (Datatypes.S m)) ^ 2) ->
  forall n, psi1 (INR (Datatypes.S n)) = psi1_int n /\ psi1 (INR n + 1 / 2) = psi1_half n /\ psi1 (1 / 2 - INR n) = psi1_mhalf n.
Proof. intros p H1 H2 H3 H4 n. repeat split; [apply psi1_int_closed | apply psi1_half_closed | apply psi1_mhalf_closed]; assumption. Qed.
Theorem Polygamma_differences : forall (n : nat) (pn : R -> R),
  (forall x, 0 < x -> pn (x + 1) = pn x + (-1) ^ n * IZR (zfact n) / x ^ (Datatypes.S n)) ->
  pn (1 / 2) = (2 ^ (Datatypes.S n) - 1) * pn 1 ->
  forall m, pn (INR (Datatypes.S m)) - pn 1 = polyg_int_diff n m /\
            pn (INR m + 1 / 2) - (2 ^ (Datatypes.S n) - 1) * pn 1 = polyg_half_diff n m.
Proof. intros n pn H1 H2 m. split; [apply polyg_int_closed | apply polyg_half_closed]; assumption. Qed.
Theorem GammaQ_at_integer_and_half_integer_order : forall (Qf : R -> R -> R) (x : R),
  Qf 1 x = exp (- x) ->
  (forall n : nat, (1 <= n)%nat -> Qf (INR n + 1) x = Qf (INR n) x + x ^ n * exp (- x) / IZR (zfact n)) ->
  Qf (1 / 2) x = erfcR (sqrt x) ->
  (forall k : nat, Qf (INR k + 1 / 2 + 1) x = Qf (INR k + 1 / 2) x + x ^ k * sqrt x * exp (- x) / gamma_half (Datatypes.S k)) ->
  forall n, Qf (INR (Datatypes.S n)) x = Q_int (Datatypes.S n) x /\ Qf (INR n + 1 / 2) x = Q_half n x.
Proof. intros Qf x H1 H2 H3 H4 n. split; [apply Q_int_closed | apply Q_half_closed]; assumption. Qed.
Theorem BesselI_at_half_integer_order : forall (I : R -> R -> R) (x : R),
  (forall v, I (v - 1) x - I (v + 1) x = 2 * v / x * I v x) ->
  I (1 / 2) x = sqrt (2 / (PI * x)) * sinh x -> I (- (1 / 2)) x = sqrt (2 / (PI * x)) * cosh x ->
  forall n, I (INR n + 1 / 2) x = i_half n x /\ I (- (INR n + 1 / 2)) x = i_mhalf n x.
Proof. intros I x H1 H2 H3 n. split; [apply i_half_closed | apply i_mhalf_closed]; assumption. Qed.

(* the hypotheses above are satisfiable by non-trivial instances *)
Example GammaQ_relations_satisfiable : forall x,
  Q_int 1 x = exp (- x) /\
  (forall n, (1 <= n)%nat -> Q_int (Datatypes.S n) x = Q_int n x + x ^ n * exp (- x) / IZR (zfact n)) /\
  Q_half 0 x = erfcR (sqrt x) /\
  (forall k, Q_half (Datatypes.S k) x = Q_half k x + x ^ k * sqrt x * exp (- x) / gamma_half (Datatypes.S k)).
Proof. exact Q_closed_forms_satisfy_relations. Qed.
Example LogSub_hypothesis_satisfiable : lg_le (LFin 0) (LFin 1) /\ lg_le LNegInf (LFin 0) /\ lg_le LNegInf LNegInf.
Proof. simpl. repeat split; try exact I. apply Rle_0_1. Qed.

(* ---- (4) round 2: linear-size closed forms used by the boundary / large-order anchors ---- *)
(* Q(n, x) = e^-x (1 + x/1 (1 + x/2 (1 + ... x/(n-1)))) — the shape certified for a up to 500 *)
Theorem GammaQ_integer_order_nested_form : forall (Qf : R -> R -> R) (x : R),
  Qf 1 x = exp (- x) ->
  (forall n : nat, (1 <= n)%nat -> Qf (INR n + 1) x = Qf (INR n) x + x ^ n * exp (- x) / IZR (zfact n)) ->
  forall n, Qf (INR (Datatypes.S n)) x = Q_int_nest (Datatypes.S n) x.
Proof.
  intros Qf x H1 H2 n. rewrite <- Q_int_nest_eq by (apply le_n_S, Nat.le_0_l).
  exact (Q_int_closed Qf x H1 H2 n).
Qed.
(* I_{+-(n+1/2)}(a/b) = sqrt(2/(pi x)) (P_n(b/a) sinh x + Q_n(b/a) cosh x), P_n, Q_n over Z from the recurrence *)
Theorem BesselI_half_integer_order_rational_argument : forall (I : R -> R -> R) (a b : Z), a <> 0%Z -> b <> 0%Z ->
  let x := IZR a / IZR b in
  (forall v, I (v - 1) x - I (v + 1) x = 2 * v / x * I v x) ->
  I (1 / 2) x = sqrt (2 / (PI * x)) * sinh x -> I (- (1 / 2)) x = sqrt (2 / (PI * x)) * cosh x ->
  forall n, I (INR n + 1 / 2) x = i_half_rat n a b /\ I (- (INR n + 1 / 2)) x = i_mhalf_rat n a b.
Proof.
  intros I a b Ha Hb x H1 H2 H3 n. split.
  - rewrite <- i_half_rat_eq by assumption. apply i_half_closed; assumption.
  - rewrite <- i_mhalf_rat_eq by assumption. apply i_mhalf_closed; assumption.
Qed.
(* zeta(2k) = (-1)^(k+1) B_2k (2 pi)^2k / (2 (2k)!) from the values at the negative integers and the functional equation *)
Theorem Zeta_at_even_integers : forall Zf : R -> R,
  (forall n : nat, Zf (- INR n) = zeta_neg n) ->
  (forall k : nat, (1 <= k)%nat ->
     Zf (1 - INR (2 * k)) = 2 / (2 * PI) ^ (2 * k) * cos (PI * INR k) * IZR (zfact (2 * k - 1)) * Zf (INR (2 * k))) ->
  forall k, (1 <= k)%nat -> Zf (INR (2 * k)) = zeta_even k.
Proof. exact zeta_even_closed. Qed.
(* psi(1/4 - m) - psi(1): anchors the reflection branch of Digamma where its cotangent term does not vanish *)
Theorem Digamma_at_quarter_minus_integers : forall psi : R -> R,
  psi (1 / 4) - psi 1 = - PI / 2 - 3 * ln 2 ->
  (forall m : nat, psi (1 / 4 - INR (Datatypes.S m) + 1) = psi (1 / 4 - INR (Datatypes.S m)) + 1 / (1 / 4 - INR (Datatypes.S m))) ->
  forall m, psi (1 / 4 - INR m) - psi 1 = psi_mquarter_diff m.
Proof. exact psi_mquarter_closed. Qed.

(* ---- (5) round 3: sign / parity / reflection branches ("whole domain") ---- *)
(* I_n(-x) = (-1)^n I_n(x) for integer order n: the value BesselI must return for x < 0 *)
Theorem BesselI_integer_order_parity : forall I : nat -> R -> R,
  is_bessel_I I ->
  forall n x, I n (- x) = (-1) ^ n * I n x.
Proof. exact bessel_int_order_parity. Qed.
(* ... hence for odd n and x < 0 the value is negative and LogBesselI has no real value (NaN specified) ... *)
Theorem BesselI_odd_order_negative_argument : forall I : nat -> R -> R,
  is_bessel_I I ->
  forall n x, Nat.odd n = true -> 0 < I n x -> I n (- x) < 0.
Proof. exact bessel_int_order_odd_negative. Qed.
(* ... and for even n LogBesselI(n, -x) = LogBesselI(n, x) *)
Theorem BesselI_even_order_negative_argument : forall I : nat -> R -> R,
  is_bessel_I I ->
  forall n x, Nat.even n = true -> I n (- x) = I n x.
Proof. exact bessel_int_order_even. Qed.
(* psi(3/4 - m): after the reflection of digamma_imp the fractional part is 1/4 (the side of `remainder > 0.5` that 1/4 - m does not take) *)
Theorem Digamma_at_three_quarters_minus_integers : forall psi : R -> R,
  psi (3 / 4) - psi 1 = PI / 2 - 3 * ln 2 ->
  (forall m : nat, psi (3 / 4 - INR (Datatypes.S m) + 1) = psi (3 / 4 - INR (Datatypes.S m)) + 1 / (3 / 4 - INR (Datatypes.S m))) ->
  forall m, psi (3 / 4 - INR m) - psi 1 = psi_m3quarter_diff m.
Proof. exact psi_m3quarter_closed. Qed.
(* psi_n(1/2 - m), n >= 1: the reflection branch of polygamma_imp *)
Theorem Polygamma_at_negative_half_integers : forall (n : nat) (pn : R -> R),
  pn (1 / 2) = (2 ^ (Datatypes.S n) - 1) * pn 1 ->
  (forall m : nat, pn (1 / 2 - INR (Datatypes.S m) + 1) =
     pn (1 / 2 - INR (Datatypes.S m)) + (-1) ^ n * IZR (zfact n) / (1 / 2 - INR (Datatypes.S m)) ^ (Datatypes.S n)) ->
  forall m, pn (1 / 2 - INR m) - (2 ^ (Datatypes.S n) - 1) * pn 1 = polyg_mhalf_diff n m.
Proof. exact polyg_mhalf_closed. Qed.
(* zeta(-(m+1/2)) from zeta(m + 3/2) through Riemann's functional equation (reflection branch of zeta_imp) *)
Theorem Zeta_reflection_at_negative_half_integers : forall Zf G : R -> R,
  (forall n, G (INR n + 1 / 2) = gamma_half n) ->
  (forall s, s < 0 -> Zf s = 2 * Rpower (2 * PI) (s - 1) * sin (PI * s / 2) * G (1 - s) * Zf (1 - s)) ->
  forall m, Zf (- (INR m + 1 / 2)) = zeta_reflect_mhalf m (Zf (INR m + 1 + 1 / 2)).
Proof. exact zeta_reflect_mhalf_closed. Qed.
(* the series hypothesis is satisfiable at x = 0: I_0(0) = 1 *)
Example bessel_series_at_zero : bessel_term 0 0 0 = 1 /\ forall k, bessel_term 0 0 (Datatypes.S k) = 0.
Proof.
  split; unfold bessel_term.
  - simpl. field.
  - intro k. replace (2 * Datatypes.S k + 0)%nat with (Datatypes.S (2 * k + 1)) by lia.
    rewrite <- tech_pow_Rmult. unfold Rdiv. rewrite !Rmult_0_l. reflexivity.
Qed.

(* ---- (6) round 5: references for branches selected by a TINY-ARGUMENT test or by the ORDER parameter ---- *)
(* Integral test, every s > 1, x > 0, K: the sum of the Hurwitz series sum_k (x+k)^-s lies within half a term of
   partial sum + tail integral + half term.  Reference of Polygamma (s = n+1) and of Zeta (x = 1) at the new anchors. *)
Theorem Hurwitz_series_enclosure : forall s x l K, 1 < s -> 0 < x -> is_hurwitz s x l ->
  hz_lo s x K <= l <= hz_hi s x K /\ Rabs (l - hz_mid s x K) <= hz_rad s x K.
Proof. intros s x l K Hs Hx Hl. split; [exact (hurwitz_enclosure s x l K Hs Hx Hl)|exact (hurwitz_mid_rad s x l K Hs Hx Hl)]. Qed.
(* the series converges: the hypothesis is_hurwitz is satisfiable on the whole domain *)
Theorem Hurwitz_series_converges : forall s x, 1 < s -> 0 < x -> exists l, is_hurwitz s x l.
Proof. exact hurwitz_exists. Qed.
Theorem Hurwitz_series_shift : forall s x l, is_hurwitz s x l -> is_hurwitz s (x + 1) (l - hz_term s x O).
Proof. exact hurwitz_shift. Qed.
(* psi_n(x) = (-1)^(n+1) n! sum_k (x+k)^-(n+1), any order n >= 1, any x > 0, any K: certified enclosure used by the anchors
   on both sides of the order thresholds (n <= 26 / n >= 27 with factorialMax = 21) in every x-regime *)
Theorem Polygamma_series_enclosure : forall (n : nat), (1 <= n)%nat -> forall (pn zl : R -> R),
  (forall x, 0 < x -> is_hurwitz (INR (Datatypes.S n)) x (zl x) /\ pn x = polyg_sign n * IZR (zfact n) * zl x) ->
  forall x K, 0 < x -> Rabs (pn x - polyg_mid n x K) <= polyg_rad n x K.
Proof. exact polyg_series_enclosure. Qed.
(* the exact cross-branch relation psi_n(x+1) = psi_n(x) + (-1)^n n! / x^(n+1), checked across the transition point x = 6 + 4n *)
Theorem Polygamma_recurrence : forall (n : nat) (pn zl : R -> R),
  (forall x, 0 < x -> is_hurwitz (INR (Datatypes.S n)) x (zl x) /\ pn x = polyg_sign n * IZR (zfact n) * zl x) ->
  forall x, 0 < x -> pn (x + 1) = pn x + polyg_step n x.
Proof. exact polyg_recurrence. Qed.
(* polygamma_attransitionplus over R: forward recursion by any number of steps, then the value at x + iter *)
Theorem Polygamma_transition_branch : forall (n : nat), (1 <= n)%nat -> forall (pn zl : R -> R),
  (forall x, 0 < x -> is_hurwitz (INR (Datatypes.S n)) x (zl x) /\ pn x = polyg_sign n * IZR (zfact n) * zl x) ->
  forall iter x, 0 < x -> pn x = pg_transition (pg_trans_lin n iter x) n iter x pn.
Proof. exact polyg_transition. Qed.
(* the formula pairs selected by `n > factorialMax && n*n > MaxLogFloat64` / `part_term == 0` / `nlx < MaxLogFloat64 && n < factorialMax` /
   the overflow test of the forward recursion compute the same real numbers (given lgamma(n) = ln (n-1)!) *)
Theorem Polygamma_log_and_linear_initialisation_agree : forall n x lgam, (1 <= n)%nat -> 0 < x ->
  lgam = ln (IZR (zfact (n - 1))) -> pg_init_log lgam n x = pg_init_lin n x.
Proof. exact pg_init_agree. Qed.
Theorem Polygamma_huge_argument_forms_agree : forall n x lgam, 0 < x ->
  lgam = ln (IZR (zfact (n - 1))) -> pg_huge_log lgam n x = pg_huge_lin n x.
Proof. exact pg_huge_agree. Qed.
Theorem Polygamma_transition_log_and_linear_agree : forall n iter x lgam1, 0 < x ->
  lgam1 = ln (IZR (zfact n)) -> pg_trans_log lgam1 n iter x = pg_trans_lin n iter x.
Proof. exact pg_trans_agree. Qed.
Theorem Polygamma_order_test_is_n_ge_27 : forall n, pg_use_log_order n = true <-> (27 <= n)%nat.
Proof. exact pg_use_log_order_spec. Qed.
(* zeta_imp's branch |s| < rootEpsilon: -1/2 - log_root_two_pi s is within 2^-50 |zeta(s)| of zeta(s) on the WHOLE window, for every
   function that has zeta's Taylor expansion at 0 (zeta_taylor0: hypothesis; the coefficients are classical constants) *)
Theorem Zeta_tiny_argument_branch_accurate : forall Zf : R -> R, zeta_taylor0 Zf ->
  forall s, Rabs s <= zeta_root_eps -> Rabs (zeta_small s - Zf s) <= / 2 ^ 50 * Rabs (Zf s).
Proof. exact zeta_small_accurate. Qed.
(* ... and the window cannot be much wider: at 4 rootEpsilon the linear formula is already off by more than 2^-49 *)
Theorem Zeta_tiny_argument_window_needed : forall s, Rabs s = 4 * zeta_root_eps -> / 2 ^ 49 < Rabs (zeta_small s - zeta_T3 s).
Proof. exact zeta_small_window_needed. Qed.
(* non-trivial instances: the order test at 26 / 27, an enclosure of zeta(2, 1) with 3 terms *)
Example polygamma_order_test_26_27 : pg_use_log_order 26 = false /\ pg_use_log_order 27 = true.
Proof. split; reflexivity. Qed.

(* ---- (7) round 6: accuracy RELATIVE TO THE RESULT where the result is near zero ---- *)
(* Integer-order I_n(x), every n, x >= 0, K beyond the ratio test: the sum of the power series lies between the partial sum (in its
   linear-size nested form) and partial sum + geometric tail bound.  Certified reference of BesselI(n, x) at integer order ... *)
Theorem BesselI_integer_order_series_enclosure : forall I : nat -> R -> R, is_bessel_I I ->
  forall n x K, 0 <= x -> bessel_q n x K < 1 ->
  bessel_partial_nest n x K <= I n x <= bessel_partial_nest n x K + bessel_rad n x K.
Proof. exact bessel_nest_enclosure. Qed.
(* ... in the shape of the anchor goals: |I_n(x) - observed| is bounded by what Coq-Interval certifies per anchor ... *)
Theorem BesselI_integer_order_anchor_sound : forall I : nat -> R -> R, is_bessel_I I ->
  forall n x K obs, 0 <= x -> bessel_q n x K < 1 ->
  Rabs (I n x - obs) <= Rabs (bessel_partial_nest n x K - obs) + bessel_rad n x K.
Proof. exact bessel_nest_abs. Qed.
(* ... and of LogBesselI(n, x) = ln I_n(x), with the tail bound RELATIVE to the partial sum: for n = 0 and tiny x this is the reference
   of ln I_0(x) = x^2/4 - ..., a result near zero that the code obtains as LogAdd(2 ln x - ln 4 + ..., 0) *)
Theorem LogBesselI_integer_order_anchor_sound : forall I : nat -> R -> R, is_bessel_I I ->
  forall n x K obs, 0 <= x -> bessel_q n x K < 1 -> 0 < bessel_partial_nest n x K ->
  Rabs (ln (I n x) - obs) <= Rabs (ln (bessel_partial_nest n x K) - obs) + bessel_rad n x K / bessel_partial_nest n x K.
Proof. exact bessel_nest_log_abs. Qed.
Theorem BesselI_nested_form_is_partial_sum : forall n x K, bessel_partial n x K = bessel_partial_nest n x K.
Proof. exact bessel_partial_nest_eq. Qed.
(* the text of LogAdd / LogSub under the standard model of floating-point arithmetic (each of the four operations - , exp, log1p, +
   returns its exact result times 1 + delta, |delta| <= u; no underflow): the computed value is within la_bound / ls_bound of the exact
   one, for ALL finite a <= b (resp. all b < a that the roundings keep separated).  la_bound = u |result| + ~u (3 + |a-b|) e^(a-b):
   relative to the result up to the conditioning of the log1p term -- NOT an absolute bound: at (a, b) = (-40, 0) it is 50 u |result|. *)
Theorem LogAdd_rounding_error_relative_to_result : forall u a b d1 d2 d3 d4, 0 <= u < 1 ->
  Rabs d1 <= u -> Rabs d2 <= u -> Rabs d3 <= u -> Rabs d4 <= u -> a <= b ->
  Rabs (la_float d1 d2 d3 d4 a b - la_exact a b) <= la_bound u a b.
Proof. exact logadd_float_error. Qed.
Theorem LogSub_rounding_error_relative_to_result : forall u a b d1 d2 d3 d4, 0 <= u < 1 ->
  Rabs d1 <= u -> Rabs d2 <= u -> Rabs d3 <= u -> Rabs d4 <= u ->
  exp (b - a) * (1 + la_pert u b a) < 1 ->
  0 < 1 - exp ((b - a) * (1 + d1)) * (1 + d2) /\
  Rabs (ls_float d1 d2 d3 d4 a b - ls_exact a b) <= ls_bound u a b.
Proof. exact logsub_float_error. Qed.
(* the rounding-free instance is the R-model of Model.v, which is ln(e^a + e^b) / ln(e^a - e^b) in either argument order *)
Theorem LogAdd_float_text_refines_model : forall a b, a <= b ->
  la_float 0 0 0 0 a b = la_exact a b /\
  LogAdd (LFin a) (LFin b) = LFin (la_exact a b) /\ LogAdd (LFin b) (LFin a) = LFin (la_exact a b) /\
  la_exact a b = ln (exp a + exp b).
Proof. intros a b H. split; [exact (la_float_exact a b)|exact (LogAdd_model_la_exact a b H)]. Qed.
Theorem LogSub_float_text_refines_model : forall a b, b < a ->
  ls_float 0 0 0 0 a b = ls_exact a b /\
  LogSub (LFin a) (LFin b) = LFin (ls_exact a b) /\ ls_exact a b = ln (exp a - exp b).
Proof. intros a b H. split; [exact (ls_float_exact a b)|exact (LogSub_model_ls_exact a b H)]. Qed.
(* non-vacuity: binary64 unit roundoff, arguments 40 apart, larger one 0 (result 4.2e-18); separation hypothesis of LogSub; ratio test *)
Example LogAdd_bound_is_relative_at_tiny_result :
  la_bound (/ 2 ^ 53) (-40) 0 <= 50 * / 2 ^ 53 * la_exact (-40) 0 /\ la_exact (-40) 0 <= / 10 ^ 17.
Proof. exact la_bound_tiny_result_example. Qed.
Example LogSub_separation_satisfiable : exp (-40 - 0) * (1 + la_pert (/ 2 ^ 53) (-40) 0) < 1 /\
  ls_bound (/ 2 ^ 53) 0 (-40) <= 50 * / 2 ^ 53 * Rabs (ls_exact 0 (-40)).
Proof. exact ls_sep_example. Qed.
Example BesselI_series_hypotheses_satisfiable : bessel_q 0 (/ 10 ^ 8) 2 < 1 /\ 0 < bessel_partial 0 (/ 10 ^ 8) 2 /\
  bessel_rad 0 (/ 10 ^ 8) 2 / bessel_partial 0 (/ 10 ^ 8) 2 <= / 10 ^ 33.
Proof. exact bessel_q_example. Qed.

(* ---- round 7: code whose purpose is to stay inside the binary64 range (R-models of Model7.v; rounding not modelled) ---- *)
(* regularised_gamma_prefix: whichever guarded formula the overflow / underflow tests select (direct product, scaled power, log form;
   a < 10: product or its fallback), the value is (z/L)^a e^(L-z) / sum with L = max(10, a) -- for ALL a > 0, z > 0, no bounds *)
Theorem regularised_gamma_prefix_same_value_on_every_guarded_branch : forall a z sum, 0 < a -> 0 < z ->
  reg_prefix a z sum = Rpower (z / Rmax 10 a) a * exp (Rmax 10 a - z) / sum.
Proof. exact reg_prefix_value. Qed.
Theorem regularised_gamma_prefix_small_a_fallback_same_value : forall a z, 0 < a -> 0 < z ->
  Rpower (z * exp ((10 - z) / a) / 10) a = Rpower (z / 10) a * exp (10 - z).
Proof. exact reg_prefix_small_fallback. Qed.
(* non-vacuity: each guard outcome is selected by some argument, and the far-upper-tail value is tiny but representable *)
Example regularised_gamma_prefix_every_branch_selected :
  orb (rleb (Rmin (50 * ln (800 / 50)) (50 - 800)) MinLog7) (rleb MaxLog7 (Rmax (50 * ln (800 / 50)) (50 - 800))) = true /\
  orb (rleb ((50 - 800) / 50) MinLog7) (rleb MaxLog7 ((50 - 800) / 50)) = false /\
  orb (rleb (Rmin (50 * ln (60 / 50)) (50 - 60)) MinLog7) (rleb MaxLog7 (Rmax (50 * ln (60 / 50)) (50 - 60))) = false /\
  orb (rleb ((10 - 8000) / 10) MinLog7) (rleb MaxLog7 ((10 - 8000) / 10)) = true /\
  / 10 ^ 269 < Rpower (800 / 50) 50 * exp (50 - 800) < / 10 ^ 265.
Proof. exact reg_prefix_branches_example. Qed.
(* bessel_i0 / bessel_i1, x >= 500: the split exponential computes e^x P(1/x) / sqrt x, and its partial product never exceeds the result *)
Theorem bessel_i_large_x_split_exponential_value : forall P x, bessel_large P x = exp x * P (1 / x) / sqrt x.
Proof. exact bessel_large_value. Qed.
Theorem bessel_i_large_x_partial_product_below_result : forall P x, 0 <= x ->
  bessel_large P x = bessel_large_inter P x * exp (x / 2) /\
  Rabs (bessel_large_inter P x) <= Rabs (bessel_large P x).
Proof. exact bessel_large_inter_le. Qed.
(* non-vacuity: at x = 713.9 > 709.8, e^x exceeds MaxFloat64 while e^(x/2) < 2^520 and the model values of I_0 > I_1 > 0 are below MaxFloat64 *)
Example bessel_i_large_x_window_where_exp_overflows :
  exp (7098 / 10) > (2 - / 2 ^ 52) * 2 ^ 1023 /\
  exp (7139 / 10 / 2) < 2 ^ 520 /\
  0 < bessel_i0_large (7139 / 10) < (2 - / 2 ^ 52) * 2 ^ 1023 /\
  0 < bessel_i1_large (7139 / 10) < bessel_i0_large (7139 / 10).
Proof. exact bessel_i0_large_window_example. Qed.
