(* C13 (round 2) — the linear-size closed forms of Spec2.v equal the round-1
   closed forms of Spec.v (which are proved from the defining relations in
   ProofsAnchors.v), and zeta(2k) follows from the functional equation and the
   values at the negative integers. *)
From Coq Require Import ZArith QArith Reals List Bool Lia Lra.
From ADV Require Import Base.Num C13.Model C13.Spec C13.Spec2 C13.ProofsAnchors.
Import ListNotations.
Local Open Scope R_scope.

(* ---------------- finite sums ---------------- *)
Lemma sumf_ext f g n : (forall k, (k < n)%nat -> f k = g k) -> sumf f n = sumf g n.
Proof.
  induction n as [|n IH]; intro H; simpl; [reflexivity|].
  rewrite IH by (intros k Hk; apply H; lia). rewrite H by lia. reflexivity.
Qed.
Lemma sumf_shift f n : sumf f (S n) = f O + sumf (fun k => f (S k)) n.
Proof.
  induction n as [|n IH]; [simpl; ring|].
  rewrite sumf_S, IH. simpl (sumf (fun k => f (S k)) (S n)). ring.
Qed.
Lemma sumf_scal c f n : c * sumf f n = sumf (fun k => c * f k) n.
Proof. induction n as [|n IH]; simpl; [ring|]. rewrite <- IH. ring. Qed.

(* ---------------- nested exponential sum ---------------- *)
Lemma expsum_nest_sum : forall x m j, (1 <= j)%nat ->
  expsum_nest x (Z.of_nat j) m =
  sumf (fun k => x ^ k * IZR (zfact (j - 1)) / IZR (zfact (j - 1 + k))) (S m).
Proof.
  intros x m. induction m as [|m IH]; intros j Hj.
  - simpl. rewrite Nat.add_0_r. field. apply IZR_zfact_neq.
  - cbn [expsum_nest]. replace (Z.of_nat j + 1)%Z with (Z.of_nat (S j)) by lia.
    rewrite IH by lia. rewrite (sumf_shift _ (S m)). rewrite sumf_scal. f_equal.
    + simpl pow. rewrite Nat.add_0_r. field. apply IZR_zfact_neq.
    + apply sumf_ext. intros k _.
      destruct j as [|j']; [lia|].
      replace (S (S j') - 1)%nat with (S j') by lia.
      replace (S j' - 1)%nat with j' by lia.
      replace (j' + S k)%nat with (S j' + k)%nat by lia.
      rewrite (zfact_S j'), mult_IZR. simpl pow.
      pose proof (IZR_zfact_neq j'). pose proof (IZR_zfact_neq (S j' + k)).
      assert (IZR (Z.of_nat (S j')) <> 0) by (apply not_0_IZR; lia).
      field. repeat split; assumption.
Qed.

Lemma Q_int_nest_eq : forall n x, (1 <= n)%nat -> Q_int n x = Q_int_nest n x.
Proof.
  intros n x Hn. unfold Q_int, Q_int_nest. destruct n as [|n]; [lia|].
  replace (S n - 1)%nat with n by lia.
  change 1%Z with (Z.of_nat 1). rewrite (expsum_nest_sum x n 1) by lia.
  f_equal. apply sumf_ext. intros k _.
  replace (1 - 1 + k)%nat with k by lia. replace (1 - 1)%nat with O by lia.
  change (IZR (zfact 0)) with 1. pose proof (IZR_zfact_neq k). field. assumption.
Qed.

(* ---------------- half-integer Bessel functions ---------------- *)
Lemma zpoly_sub_scaled : forall a b c y, zpoly (zl_sub_scaled a b c) y = zpoly a y - IZR c * zpoly b y.
Proof.
  induction a as [|x a IH]; intros b c y.
  - simpl zl_sub_scaled. simpl (zpoly [] y). induction b as [|z b IHb]; simpl; [ring|].
    rewrite IHb, opp_IZR, mult_IZR. ring.
  - destruct b as [|z b]; simpl; [ring|]. rewrite IH, minus_IZR, mult_IZR. ring.
Qed.

Lemma bes_val_step : forall c p w x,
  bes_val (zl_sub_scaled (fst p) (0%Z :: fst c) w, zl_sub_scaled (snd p) (0%Z :: snd c) w) x
  = bes_val p x - IZR w * (1 / x) * bes_val c x.
Proof.
  intros c p w x. unfold bes_val. cbn [fst snd]. rewrite !zpoly_sub_scaled. cbn [zpoly]. ring.
Qed.

Lemma pair_rec_poly : forall (F : nat -> R -> R * R) init x,
  F O x = (bes_val (fst init) x, bes_val (snd init) x) ->
  (forall k, F (S k) x = let '(p, q) := F k x in (q - (2 * IZR (Z.of_nat k) + 1) / x * p, p)) ->
  forall n, F n x = (bes_val (fst (bes_pq n (fst init) (snd init))) x, bes_val (snd (bes_pq n (fst init) (snd init))) x).
Proof.
  intros F init x H0 HS. induction n as [|n IH].
  - cbn [bes_pq fst snd]. exact H0.
  - rewrite HS, IH. cbn [bes_pq].
    destruct (bes_pq n (fst init) (snd init)) as [c p]. cbn [fst snd].
    f_equal. rewrite bes_val_step, plus_IZR, mult_IZR. unfold Rdiv. ring.
Qed.

Lemma i_half_poly_eq : forall n x, i_half n x = i_half_poly n x.
Proof.
  intros n x. unfold i_half, i_half_poly.
  rewrite (pair_rec_poly i_half_pair half_init x); [reflexivity| |intro k; reflexivity].
  unfold bes_val, half_init. cbn [i_half_pair fst snd zpoly]. f_equal; ring.
Qed.
Lemma i_mhalf_poly_eq : forall n x, i_mhalf n x = i_mhalf_poly n x.
Proof.
  intros n x. unfold i_mhalf, i_mhalf_poly.
  rewrite (pair_rec_poly i_mhalf_pair mhalf_init x); [reflexivity| |intro k; reflexivity].
  unfold bes_val, mhalf_init. cbn [i_mhalf_pair fst snd zpoly]. f_equal; ring.
Qed.

Lemma homd_spec : forall l u v, v <> 0%Z ->
  snd (homd l u v) <> 0%Z /\ zpoly l (IZR u / IZR v) = IZR (fst (homd l u v)) / IZR (snd (homd l u v)).
Proof.
  induction l as [|c l IH]; intros u v Hv.
  - cbn. split; [lia|]. unfold Rdiv. rewrite Rmult_0_l. reflexivity.
  - cbn [homd zpoly]. specialize (IH u v Hv). destruct (homd l u v) as [n d]. cbn [fst snd] in *.
    destruct IH as [Hd E]. split.
    + apply Z.neq_mul_0. split; assumption.
    + rewrite E, plus_IZR, !mult_IZR.
      assert (IZR d <> 0) by (apply not_0_IZR; assumption).
      assert (IZR v <> 0) by (apply not_0_IZR; assumption).
      field. split; assumption.
Qed.

Lemma i_gen_rat_eq : forall n a b init, a <> 0%Z -> b <> 0%Z ->
  i_gen_rat n a b init = bes_val (fst (bes_pq n (fst init) (snd init))) (IZR a / IZR b).
Proof.
  intros n a b init Ha Hb. unfold i_gen_rat, bes_ints, bes_val. cbn [fst snd].
  set (pq := fst (bes_pq n (fst init) (snd init))).
  destruct (homd_spec (fst pq) b a Ha) as [_ EP]. destruct (homd_spec (snd pq) b a Ha) as [_ EQ].
  assert (IZR a <> 0) by (apply not_0_IZR; assumption).
  assert (IZR b <> 0) by (apply not_0_IZR; assumption).
  replace (1 / (IZR a / IZR b)) with (IZR b / IZR a) by (field; split; assumption).
  rewrite EP, EQ. reflexivity.
Qed.

Lemma i_half_rat_eq : forall n a b, a <> 0%Z -> b <> 0%Z -> i_half n (IZR a / IZR b) = i_half_rat n a b.
Proof. intros. rewrite i_half_poly_eq. unfold i_half_rat, i_half_poly. rewrite i_gen_rat_eq by assumption. reflexivity. Qed.
Lemma i_mhalf_rat_eq : forall n a b, a <> 0%Z -> b <> 0%Z -> i_mhalf n (IZR a / IZR b) = i_mhalf_rat n a b.
Proof. intros. rewrite i_mhalf_poly_eq. unfold i_mhalf_rat, i_mhalf_poly. rewrite i_gen_rat_eq by assumption. reflexivity. Qed.

(* ---------------- zeta ---------------- *)
Lemma cos_k_PI : forall k, cos (PI * INR k) = (-1) ^ k.
Proof.
  induction k as [|k IH].
  - simpl. rewrite Rmult_0_r. apply cos_0.
  - rewrite S_INR. replace (PI * (INR k + 1)) with (PI * INR k + PI) by ring.
    rewrite neg_cos, IH. simpl. ring.
Qed.

Section ZetaClosed.
Variable Zf : R -> R.
(* values at the non-positive integers, and Riemann's functional equation at s = 2k *)
Hypothesis Z_neg : forall n : nat, Zf (- INR n) = zeta_neg n.
Hypothesis Z_fe : forall k : nat, (1 <= k)%nat ->
  Zf (1 - INR (2 * k)) = 2 / (2 * PI) ^ (2 * k) * cos (PI * INR k) * IZR (zfact (2 * k - 1)) * Zf (INR (2 * k)).

Lemma zeta_even_closed : forall k, (1 <= k)%nat -> Zf (INR (2 * k)) = zeta_even k.
Proof.
  intros k Hk. pose proof (Z_fe k Hk) as H.
  replace (1 - INR (2 * k)) with (- INR (2 * k - 1)) in H by (rewrite minus_INR by lia; simpl; ring).
  rewrite Z_neg, cos_k_PI in H. unfold zeta_neg in H. unfold zeta_even.
  remember (2 * k - 1)%nat as m eqn:Em.
  replace (2 * k)%nat with (S m) in * by lia.
  rewrite zfact_S, mult_IZR.
  set (s := (-1) ^ k) in *. set (B := Qr (bern (S m))) in *. set (T := (2 * PI) ^ S m) in *.
  set (Fm := IZR (zfact m)) in *. set (N := IZR (Z.of_nat (S m))) in *.
  assert (Hs : s * s = 1).
  { unfold s. rewrite <- Rpow_mult_distr. replace (-1 * -1) with 1 by ring. apply pow1. }
  assert (HT : T <> 0) by (unfold T; apply pow_nonzero; pose proof PI_RGT_0; lra).
  assert (HF : Fm <> 0) by apply IZR_zfact_neq.
  assert (HN : N <> 0) by (unfold N; apply not_0_IZR; lia).
  assert (Hs0 : s <> 0) by (intro E0; rewrite E0 in Hs; lra).
  apply (Rmult_eq_reg_l (2 / T * s * Fm)).
  2:{ unfold Rdiv. repeat apply Rmult_integral_contrapositive_currified; try assumption; try lra. apply Rinv_neq_0_compat; assumption. }
  rewrite <- H. change ((-1) ^ S k) with (-1 * s).
  replace (2 / T * s * Fm * (-1 * s * B * T / (2 * (N * Fm)))) with (- (s * s) * B / N) by (field; repeat split; assumption).
  rewrite Hs. field. assumption.
Qed.
End ZetaClosed.

(* ---------------- digamma at 1/4 - m ---------------- *)
Section PsiQuarter.
Variable psi : R -> R.
Hypothesis psi_quarter : psi (1 / 4) - psi 1 = - PI / 2 - 3 * ln 2.
Hypothesis psi_rec_negq : forall m : nat, psi (1 / 4 - INR (S m) + 1) = psi (1 / 4 - INR (S m)) + 1 / (1 / 4 - INR (S m)).

Lemma psi_mquarter_closed : forall m, psi (1 / 4 - INR m) - psi 1 = psi_mquarter_diff m.
Proof.
  unfold psi_mquarter_diff. induction m as [|m IH].
  - simpl. rewrite Rminus_0_r, Rplus_0_r. exact psi_quarter.
  - pose proof (psi_rec_negq m) as H. pose proof (pos_INR m).
    replace (1 / 4 - INR (S m) + 1) with (1 / 4 - INR m) in H by (rewrite S_INR; ring).
    rewrite sumf_S, IZR_of_nat.
    replace (psi (1 / 4 - INR (S m)) - psi 1)
      with (psi (1 / 4 - INR m) - psi 1 - 1 / (1 / 4 - INR (S m))) by (rewrite H; ring).
    rewrite IH, S_INR. field. split; lra.
Qed.
End PsiQuarter.
