(* C13 — executable models of the library's own glue in /repo/special and
   /repo/logarithmetic (DESIGN.md §2 C13).  No proofs in this file.

   What is modelled (operation order as in the Go text, so that the binary64
   instance is bit-exact wherever the Go code only uses + - * / abs and
   comparisons):
     polynomial.go   Polynomial.Eval, EvenPolynomial.Eval, LogPolynomial.Eval
     series.go       SumSeries
     continued_fraction.go  EvalContinuedFraction (modified Lentz with `tiny`)
     logarithmetic.go       LogAdd, LogSub        (extended log-domain reals)
     mgamma.go       Mgamma, Mlgamma              (relative to Γ / lnΓ parameters)
     factorial.go    the table and the lookup guard
     bernoulliNumber.go     the Akiyama–Tanigawa triangle over Q
     erfc.go         logErfc0 / logErfc8 / LogErfc branch selection over R
   The Boost-ported kernels (gamma_incomplete_imp, bessel_ik, …) are NOT modelled;
   they are checked at certified anchors (see Spec.v / Anchors). *)
From Coq Require Import ZArith QArith Reals List Bool Floats.
From ADV Require Import Base.Num.
Import ListNotations.

(* ------------------------------------------------------------------ *)
(* Generic drivers over a carrier                                       *)
(* ------------------------------------------------------------------ *)
Section Generic.
Context {A : Type} (N : Num A).

(* Polynomial.Eval: count := len; sum := c[count-1]; for i := count-2 .. 0 { sum *= z; sum += c[i] }
   An empty coefficient slice makes Go index c[-1]: panic = None. *)
Definition poly_eval (cs : list A) (z : A) : option A :=
  match rev cs with
  | [] => None
  | h :: t => Some (fold_left (fun s c => add N (mul N s z) c) t h)
  end.

Definition even_poly_eval (cs : list A) (z : A) : option A := poly_eval cs (mul N z z).

(* A Series / ContinuedFraction object is a state machine: Eval() returns a value
   and mutates the receiver. *)
Variable S : Type.

(* SumSeries(series, init_value, factor, max_terms):
     result := init_value
     for i := 0; i < max_terms; i++ {
       next_term := series.Eval(); result += next_term
       if |factor*result| >= |next_term| { break } }
   Returns (result, number of Eval calls, final series state). *)
Fixpoint sum_series_loop (step : S -> A * S) (factor : A) (fuel : nat) (s : S) (result : A) (n : nat)
  : A * nat * S :=
  match fuel with
  | O => (result, n, s)
  | Datatypes.S f =>
      let (t, s') := step s in
      let r := add N result t in
      if leb N (nabs N t) (nabs N (mul N factor r)) then (r, Datatypes.S n, s')
      else sum_series_loop step factor f s' r (Datatypes.S n)
  end.

Definition SumSeries (step : S -> A * S) (s : S) (init_value factor : A) (max_terms : Z) : A * nat * S :=
  sum_series_loop step factor (Z.to_nat max_terms) s init_value 0%nat.

(* EvalContinuedFraction(fraction, factor, max_terms), see continued_fraction.go:31 *)
Variable tiny : A.

Fixpoint cf_loop (step : S -> (A * A) * S) (factor : A) (fuel : nat) (s : S) (f C D : A) (n : nat)
  : A * nat * S :=
  match fuel with
  | O => (f, n, s)
  | Datatypes.S fu =>
      let '((a, b), s') := step s in
      let D1 := add N b (mul N a D) in
      let D2 := if eqb N D1 (zero N) then tiny else D1 in
      let C1 := add N b (div N a C) in
      let C2 := if eqb N C1 (zero N) then tiny else C1 in
      let D3 := div N (one N) D2 in
      let delta := mul N C2 D3 in
      let f' := mul N f delta in
      if leb N (nabs N (sub N delta (one N))) factor then (f', Datatypes.S n, s')
      else cf_loop step factor fu s' f' C2 D3 (Datatypes.S n)
  end.

Definition EvalContinuedFraction (step : S -> (A * A) * S) (s : S) (factor : A) (max_terms : Z)
  : A * nat * S :=
  let '((a0, b0), s1) := step s in
  let f0 := if eqb N b0 (zero N) then tiny else b0 in
  let '(f, n, s2) := cf_loop step factor (Z.to_nat max_terms) s1 f0 f0 (zero N) 0%nat in
  (div N a0 f, Datatypes.S n, s2).

End Generic.

(* list-backed state machines used by the correspondence run (the harness feeds
   SumSeries / EvalContinuedFraction with objects that replay a list and then
   repeat a default) *)
Definition list_step {A} (d : A) (s : list A) : A * list A :=
  match s with [] => (d, []) | x :: r => (x, r) end.

(* ------------------------------------------------------------------ *)
(* logarithmetic.go over the extended log-domain reals                  *)
(* ------------------------------------------------------------------ *)
Inductive lg := LNegInf | LFin (r : R) | LNaN.

Definition lg_gtb (a b : lg) : bool :=
  match a, b with
  | LFin x, LFin y => Rltb y x
  | LFin _, LNegInf => true
  | _, _ => false
  end.

Local Open Scope R_scope.

(* b + math.Log1p(math.Exp(a-b)) on extended reals, a <= b after the swap *)
Definition LogAdd (a b : lg) : lg :=
  let '(a, b) := if lg_gtb a b then (b, a) else (a, b) in
  match a with
  | LNegInf => b                                    (* math.IsInf(a, -1) *)
  | LNaN => LNaN
  | LFin x => match b with
              | LFin y => LFin (y + ln (1 + exp (x - y)))
              | _ => LNaN
              end
  end.

(* a + math.Log1p(-math.Exp(b-a)) *)
Definition LogSub (a b : lg) : lg :=
  match b with
  | LNegInf => a                                    (* math.IsInf(b, -1) *)
  | LNaN => LNaN
  | LFin y =>
      match a with
      | LFin x => if Rltb (exp (y - x)) 1 then LFin (x + ln (1 - exp (y - x)))
                  else if Reqb (exp (y - x)) 1 then LNegInf     (* log1p(-1) = -Inf *)
                  else LNaN
      | _ => LNaN                                   (* -Inf + log1p(-exp(+Inf)) = NaN *)
      end
  end.

(* LogPolynomial.Eval: sum := c[count-1]; for i := count-2..0 { sum += logz; sum = LogAdd(sum, c[i]) } *)
Definition lg_addR (a : lg) (z : R) : lg :=
  match a with LFin x => LFin (x + z) | o => o end.
Definition logpoly_eval (cs : list lg) (logz : R) : option lg :=
  match rev cs with
  | [] => None
  | h :: t => Some (fold_left (fun s c => LogAdd (lg_addR s logz) c) t h)
  end.

(* ------------------------------------------------------------------ *)
(* mgamma.go relative to Γ and lnΓ                                      *)
(* ------------------------------------------------------------------ *)
Section MGamma.
Variable gam lgam : R -> R.

Fixpoint mg_loop (f : R -> R) (op : R -> R -> R) (x : R) (i : Z) (n : nat) (result : R) : R :=
  match n with
  | O => result
  | Datatypes.S m => mg_loop f op x (i + 1)%Z m (op result (f ((2 * x + 1 - IZR i) / 2)))
  end.

(* result := math.Pow(math.Pi, float64(k*(k-1))/4.0); for i := 1; i <= k; i++ { result *= Gamma((2x+1-i)/2) } *)
Definition Mgamma (x : R) (k : Z) : R :=
  mg_loop gam Rmult x 1%Z (Z.to_nat k) (Rpower PI (IZR (k * (k - 1)) / 4)).

(* result := float64(k*(k-1))/4.0*math.Log(math.Pi); for i := 1; i <= k; i++ { result += Lgamma((2x+1-i)/2) } *)
Definition Mlgamma (x : R) (k : Z) : R :=
  mg_loop lgam Rplus x 1%Z (Z.to_nat k) (IZR (k * (k - 1)) / 4 * ln PI).
End MGamma.

(* ------------------------------------------------------------------ *)
(* factorial.go                                                         *)
(* ------------------------------------------------------------------ *)
Definition factorialList : list Z := [
  1; 1; 2; 6; 24; 120; 720; 5040; 40320; 362880; 3628800; 39916800; 479001600;
  6227020800; 87178291200; 1307674368000; 20922789888000; 355687428096000;
  6402373705728000; 121645100408832000; 2432902008176640000 ]%Z.
Definition factorialMax : Z := Z.of_nat (length factorialList).

Inductive fact_res := FactPanic | FactTab (v : Z) | FactGamma (arg : Z).
(* if x < factorialMax { return float64(factorialList[x]) }; return Floor(Gamma(float64(x+1)) + 0.5)
   a negative x passes the guard and indexes out of range: panic *)
Definition Factorial (x : Z) : fact_res :=
  if (x <? factorialMax)%Z then
    (if (x <? 0)%Z then FactPanic else FactTab (nth (Z.to_nat x) factorialList 0%Z))
  else FactGamma (x + 1)%Z.

(* ------------------------------------------------------------------ *)
(* bernoulliNumber.go: Akiyama–Tanigawa over exact rationals            *)
(* ------------------------------------------------------------------ *)
(* inner loop: for j := i; j > 0; j-- { a[j-1] = j*(a[j-1]-a[j]) }   (a[j] already final for this row) *)
Fixpoint at_inner (j : nat) (a : list Q) : list Q :=
  match j with
  | O => a
  | Datatypes.S j' =>
      let aj := nth j a 0%Q in
      let ajm := nth j' a 0%Q in
      let v := Qred (inject_Z (Z.of_nat j) * (ajm - aj))%Q in
      at_inner j' (firstn j' a ++ v :: skipn j a)
  end.
Fixpoint at_outer (rows : nat) (i : nat) (a : list Q) : list Q :=
  match rows with
  | O => a
  | Datatypes.S r =>
      let a1 := firstn i a ++ (Qmake 1 (Pos.of_nat (Datatypes.S i))) :: skipn (Datatypes.S i) a in
      at_outer r (Datatypes.S i) (at_inner i a1)
  end.
Definition BernoulliNumber (n : nat) : Q :=
  nth 0 (at_outer (Datatypes.S n) 0 (repeat 0%Q (Datatypes.S n))) 0%Q.

(* ------------------------------------------------------------------ *)
(* erfc.go over R (coefficients: the decimal literals of the source)     *)
(* ------------------------------------------------------------------ *)
Definition RQ (q : Q) : R := IZR (Qnum q) / IZR (Zpos (Qden q)).
Definition M_SQRTPI_lit : Q := 1.77245385090551602729816748334%Q.

Definition peval (cs : list R) (z : R) : R :=
  match poly_eval NumR cs z with Some v => v | None => 0 end.

Definition logErfc8_P : list Q := [
  2.9788656263939928886200000000; 7.4097406059647417944250000000; 6.1602098531096305440906000000;
  5.0190497267842674634500580000; 1.2753666447299659524795852640; 0.5641895835477550741253201704 ]%Q.
Definition logErfc8_Q : list Q := [
  3.3690752069827527677000000000; 9.6089653271927878706980000000; 17.081440747466004315710950000;
  12.048951927855129036034049100; 9.3960340162350541504305796480; 2.2605285207673269695918669450;
  1.0000000000000000000000000000 ]%Q.
Definition logErfc8 (x : R) : R :=
  ln (peval (map RQ logErfc8_P) x / peval (map RQ logErfc8_Q) x) - x * x.

Definition logErfc0_tail : list Q := [
  -0.001829764677455021; 0.026296515210574650; -0.016215753788354040; 0.001259939617621160;
  0.005569646491380000; -0.004556333980200000; 0.000946158903200000; 0.001320024317400000;
  -0.001429060000000000; 0.000482040000000000 ]%Q.
Definition logErfc0_coeffs : list R :=
  [0; 1; 1; (4 - PI) / 3; 2 * (1 - PI / 3)] ++ map RQ logErfc0_tail.
Definition logErfc0 (x : R) : R :=
  let y := x / RQ M_SQRTPI_lit in -2 * peval logErfc0_coeffs y.

Definition logErfc_switch0 : Q := 2.4607833005759251e-02%Q.
Inductive erfc_branch := BrSeries | BrRational | BrLogErfc.
Definition LogErfc_branch (x : R) : erfc_branch :=
  if Rltb (x * x) (RQ logErfc_switch0) then BrSeries
  else if Rltb 8 x then BrRational else BrLogErfc.
Definition LogErfc (erfc : R -> R) (x : R) : R :=
  match LogErfc_branch x with
  | BrSeries => logErfc0 x
  | BrRational => logErfc8 x
  | BrLogErfc => ln (erfc x)
  end.
