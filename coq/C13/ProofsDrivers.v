(* C13 — the generic drivers over R: SumSeries and EvalContinuedFraction
   (modified Lentz) against the state-machine specifications of Spec.v. *)
From Coq Require Import ZArith QArith Reals List Bool Lia Lra.
From ADV Require Import Base.Num C13.Model C13.Spec.
Import ListNotations.
Local Open Scope R_scope.

Lemma Rleb_false : forall x y, Rleb x y = false <-> ~ x <= y.
Proof.
  intros x y. split.
  - intros H Hc. apply Rleb_true in Hc. rewrite Hc in H. discriminate.
  - intros H. destruct (Rleb x y) eqn:E; [|reflexivity].
    apply Rleb_true in E. contradiction.
Qed.

Lemma Reqb_false : forall x y, x <> y -> Reqb x y = false.
Proof.
  intros x y H. destruct (Reqb x y) eqn:E; [|reflexivity].
  apply Reqb_true in E. contradiction.
Qed.

(* ------------------------------------------------------------------ *)
(* SumSeries                                                            *)
(* ------------------------------------------------------------------ *)
Section Series.
Variable S : Type.
Variable step : S -> R * S.
Variable s : S.
Variable init factor : R.

Lemma sum_series_loop_S : forall fuel s0 r0 n0,
  sum_series_loop NumR S step factor (Datatypes.S fuel) s0 r0 n0 =
  if Rleb (Rabs (fst (step s0))) (Rabs (factor * (r0 + fst (step s0))))
  then (r0 + fst (step s0), Datatypes.S n0, snd (step s0))
  else sum_series_loop NumR S step factor fuel (snd (step s0)) (r0 + fst (step s0)) (Datatypes.S n0).
Proof.
  intros fuel s0 r0 n0. simpl. destruct (step s0) as [t s1]. reflexivity.
Qed.

Lemma sum_series_loop_spec : forall fuel n0 s0 r0 r n s',
  sum_series_loop NumR S step factor fuel s0 r0 n0 = (r, n, s') ->
  s0 = nth_state step s n0 ->
  r0 = partial_sum step s init n0 ->
  (forall j, (j < n0)%nat -> ~ series_stop step s init factor j) ->
  (n <= n0 + fuel)%nat /\ r = partial_sum step s init n /\ s' = nth_state step s n /\
  (forall j, (Datatypes.S j < n)%nat -> ~ series_stop step s init factor j) /\
  (n = (n0 + fuel)%nat \/ ((0 < n)%nat /\ series_stop step s init factor (n - 1))).
Proof.
  induction fuel as [|fu IH]; intros n0 s0 r0 r n s' Hrun Hs Hr Hno.
  - simpl in Hrun. inversion Hrun; subst r n s'. clear Hrun.
    split; [lia|]. split; [exact Hr|]. split; [exact Hs|].
    split; [intros j Hj; apply Hno; lia | left; lia].
  - rewrite sum_series_loop_S in Hrun.
    assert (Ht : fst (step s0) = nth_out step s n0) by (unfold nth_out; rewrite Hs; reflexivity).
    assert (Hs1 : snd (step s0) = nth_state step s (Datatypes.S n0)) by (simpl; rewrite Hs; reflexivity).
    assert (Hr1 : r0 + fst (step s0) = partial_sum step s init (Datatypes.S n0)).
    { rewrite Ht, Hr. unfold partial_sum. simpl sumf. ring. }
    rewrite Hr1 in Hrun.
    destruct (Rleb (Rabs (fst (step s0))) (Rabs (factor * partial_sum step s init (Datatypes.S n0)))) eqn:Htest.
    + inversion Hrun; subst r n s'. clear Hrun.
      apply Rleb_true in Htest. rewrite Ht in Htest.
      split; [lia|]. split; [reflexivity|]. split; [exact Hs1|].
      split; [intros j Hj; apply Hno; lia|].
      right. split; [lia|]. simpl. rewrite Nat.sub_0_r. exact Htest.
    + apply Rleb_false in Htest. rewrite Ht in Htest.
      assert (Hno' : forall j, (j < Datatypes.S n0)%nat -> ~ series_stop step s init factor j).
      { intros j Hj. destruct (Nat.eq_dec j n0) as [->|Hne]; [exact Htest | apply Hno; lia]. }
      destruct (IH (Datatypes.S n0) _ _ r n s' Hrun Hs1 eq_refl Hno') as (H1 & H2 & H3 & H4 & H5).
      split; [lia|]. split; [exact H2|]. split; [exact H3|]. split; [exact H4|].
      destruct H5 as [H5|H5]; [left; lia | right; exact H5].
Qed.

End Series.

Lemma sum_series_spec : forall (S : Type) (step : S -> R * S) (s : S) (init factor : R) (max_terms : Z),
  let '(r, n, s') := SumSeries NumR S step s init factor max_terms in
  series_result step s init factor (Z.to_nat max_terms) r n s'.
Proof.
  intros S step s init factor max_terms.
  destruct (SumSeries NumR S step s init factor max_terms) as [[r n] s'] eqn:E.
  unfold SumSeries in E.
  assert (Hr0 : init = partial_sum step s init 0) by (unfold partial_sum; simpl; ring).
  assert (Hno : forall j, (j < 0)%nat -> ~ series_stop step s init factor j) by (intros j Hj; lia).
  destruct (sum_series_loop_spec S step s init factor _ 0%nat s init r n s' E eq_refl Hr0 Hno)
    as (H1 & H2 & H3 & H4 & H5).
  unfold series_result. simpl in H1, H5.
  split; [exact H1|]. split; [exact H2|]. split; [exact H3|]. split; [exact H4|exact H5].
Qed.

Lemma sum_series_uses_init : forall (S : Type) (step : S -> R * S) (s : S) (init factor : R),
  fst (fst (SumSeries NumR S step s init factor 0)) = init.
Proof. intros. reflexivity. Qed.

(* ------------------------------------------------------------------ *)
(* EvalContinuedFraction (modified Lentz)                               *)
(* ------------------------------------------------------------------ *)
Definition lentz_C (tiny a b C : R) : R :=
  if Reqb (b + a / C) 0 then tiny else b + a / C.
Definition lentz_D (tiny a b D : R) : R :=
  1 / (if Reqb (b + a * D) 0 then tiny else b + a * D).

(* one exact Lentz step on the ratios A_{i-1}/A_{i-2}, B_{i-2}/B_{i-1} *)
Lemma lentz_step_exact : forall tiny a b A1 A0 B1 B0,
  A1 <> 0 -> A0 <> 0 -> B1 <> 0 ->
  b * A1 + a * A0 <> 0 -> b * B1 + a * B0 <> 0 ->
  lentz_C tiny a b (A1 / A0) = (b * A1 + a * A0) / A1 /\
  lentz_D tiny a b (B0 / B1) = B1 / (b * B1 + a * B0).
Proof.
  intros tiny a b A1 A0 B1 B0 HA1 HA0 HB1 HA2 HB2.
  unfold lentz_C, lentz_D.
  assert (EC : b + a / (A1 / A0) = (b * A1 + a * A0) / A1) by (field; split; assumption).
  assert (ED : b + a * (B0 / B1) = (b * B1 + a * B0) / B1) by (field; assumption).
  rewrite EC, ED.
  assert (NC : (b * A1 + a * A0) / A1 <> 0).
  { unfold Rdiv. apply Rmult_integral_contrapositive_currified; [assumption|].
    apply Rinv_neq_0_compat; assumption. }
  assert (ND : (b * B1 + a * B0) / B1 <> 0).
  { unfold Rdiv. apply Rmult_integral_contrapositive_currified; [assumption|].
    apply Rinv_neq_0_compat; assumption. }
  rewrite (Reqb_false _ _ NC), (Reqb_false _ _ ND).
  split; [reflexivity|]. field. split; assumption.
Qed.

Section CF.
Variable S : Type.
Variable step : S -> (R * R) * S.
Variable s : S.
Variable tiny factor : R.

Lemma cf_loop_S : forall fuel s0 f0 C0 D0 m0,
  cf_loop NumR S tiny step factor (Datatypes.S fuel) s0 f0 C0 D0 m0 =
  let a := fst (fst (step s0)) in
  let b := snd (fst (step s0)) in
  let C2 := lentz_C tiny a b C0 in
  let D3 := lentz_D tiny a b D0 in
  if Rleb (Rabs (C2 * D3 - 1)) factor
  then (f0 * (C2 * D3), Datatypes.S m0, snd (step s0))
  else cf_loop NumR S tiny step factor fuel (snd (step s0)) (f0 * (C2 * D3)) C2 D3 (Datatypes.S m0).
Proof.
  intros fuel s0 f0 C0 D0 m0. simpl. destruct (step s0) as [[a b] s1]. reflexivity.
Qed.

(* the Lentz invariant at iteration index m *)
Definition lentz_inv (m : nat) (f C D : R) : Prop :=
  f = fst (cfA step s m) / fst (cfB step s m) /\
  C = fst (cfA step s m) / snd (cfA step s m) /\
  D = snd (cfB step s m) / fst (cfB step s m) /\
  snd (cfA step s m) <> 0.

Lemma cfA_S : forall m,
  cfA step s (Datatypes.S m) =
  (cf_b step s (Datatypes.S m) * fst (cfA step s m) + cf_a step s (Datatypes.S m) * snd (cfA step s m),
   fst (cfA step s m)).
Proof. intros m. simpl. destruct (cfA step s m) as [p q]. reflexivity. Qed.

Lemma cfB_S : forall m,
  cfB step s (Datatypes.S m) =
  (cf_b step s (Datatypes.S m) * fst (cfB step s m) + cf_a step s (Datatypes.S m) * snd (cfB step s m),
   fst (cfB step s m)).
Proof. intros m. simpl. destruct (cfB step s m) as [p q]. reflexivity. Qed.

(* one regular step preserves the invariant and delta is the ratio of convergents *)
Lemma lentz_inv_step : forall m f C D,
  lentz_inv m f C D ->
  cf_regular step s (Datatypes.S m) ->
  let a := cf_a step s (Datatypes.S m) in
  let b := cf_b step s (Datatypes.S m) in
  let C2 := lentz_C tiny a b C in
  let D3 := lentz_D tiny a b D in
  lentz_inv (Datatypes.S m) (f * (C2 * D3)) C2 D3 /\
  C2 * D3 = convergent step s (Datatypes.S m) / convergent step s m.
Proof.
  intros m f C D (Hf & HC & HD & HA0) Hreg a b C2 D3.
  destruct (Hreg m) as [HA1 HB1]; [lia|].
  destruct (Hreg (Datatypes.S m)) as [HA2 HB2]; [lia|].
  rewrite cfA_S in HA2. rewrite cfB_S in HB2. simpl fst in HA2, HB2.
  fold a b in HA2, HB2.
  destruct (lentz_step_exact tiny a b _ _ _ _ HA1 HA0 HB1 HA2 HB2) as [EC ED].
  unfold C2, D3. rewrite HC, HD, EC, ED. unfold lentz_inv, convergent.
  rewrite cfA_S, cfB_S. simpl fst. simpl snd. fold a b.
  set (A1 := fst (cfA step s m)) in *. set (A0 := snd (cfA step s m)) in *.
  set (B1 := fst (cfB step s m)) in *. set (B0 := snd (cfB step s m)) in *.
  split; [split; [|split; [|split]]|].
  - rewrite Hf. field. repeat split; assumption.
  - reflexivity.
  - reflexivity.
  - exact HA1.
  - field. repeat split; assumption.
Qed.

Lemma cf_regular_le : forall m k, (k <= m)%nat -> cf_regular step s m -> cf_regular step s k.
Proof. intros m k Hk Hreg i Hi. apply Hreg. lia. Qed.

Lemma cf_loop_spec : forall fuel m0 s0 f0 C0 D0 f m s',
  cf_loop NumR S tiny step factor fuel s0 f0 C0 D0 m0 = (f, m, s') ->
  s0 = nth_state step s (Datatypes.S m0) ->
  (m0 <= m <= m0 + fuel)%nat /\ s' = nth_state step s (Datatypes.S m) /\
  (cf_regular step s m ->
   lentz_inv m0 f0 C0 D0 ->
   (forall i, (1 <= i <= m0)%nat -> ~ cf_stop step s factor i) ->
   f = convergent step s m /\
   (forall i, (1 <= i < m)%nat -> ~ cf_stop step s factor i) /\
   (m = (m0 + fuel)%nat \/ ((1 <= m)%nat /\ cf_stop step s factor m))).
Proof.
  induction fuel as [|fu IH]; intros m0 s0 f0 C0 D0 f m s' Hrun Hs.
  - simpl in Hrun. inversion Hrun; subst f m s'. clear Hrun.
    split; [lia|]. split; [exact Hs|].
    intros _ (Hf & _) Hno. split; [exact Hf|].
    split; [intros i Hi; apply Hno; lia | left; lia].
  - rewrite cf_loop_S in Hrun. cbv zeta in Hrun.
    assert (Ha : fst (fst (step s0)) = cf_a step s (Datatypes.S m0))
      by (unfold cf_a, nth_out; rewrite Hs; reflexivity).
    assert (Hb : snd (fst (step s0)) = cf_b step s (Datatypes.S m0))
      by (unfold cf_b, nth_out; rewrite Hs; reflexivity).
    assert (Hs1 : snd (step s0) = nth_state step s (Datatypes.S (Datatypes.S m0)))
      by (simpl; rewrite Hs; reflexivity).
    rewrite Ha, Hb in Hrun.
    set (C2 := lentz_C tiny (cf_a step s (Datatypes.S m0)) (cf_b step s (Datatypes.S m0)) C0) in *.
    set (D3 := lentz_D tiny (cf_a step s (Datatypes.S m0)) (cf_b step s (Datatypes.S m0)) D0) in *.
    destruct (Rleb (Rabs (C2 * D3 - 1)) factor) eqn:Htest.
    + inversion Hrun; subst f m s'. clear Hrun.
      split; [lia|]. split; [exact Hs1|].
      intros Hreg Hinv Hno.
      destruct (lentz_inv_step m0 f0 C0 D0 Hinv Hreg) as [(Hf' & _) Hdelta].
      fold C2 D3 in Hf', Hdelta.
      split; [exact Hf'|].
      split; [intros i Hi; apply Hno; lia|].
      right. split; [lia|].
      unfold cf_stop. simpl. rewrite Nat.sub_0_r. rewrite <- Hdelta.
      apply Rleb_true. exact Htest.
    + destruct (IH (Datatypes.S m0) _ _ _ _ f m s' Hrun Hs1) as (Hm & Hs' & Hcond).
      split; [lia|]. split; [exact Hs'|].
      intros Hreg Hinv Hno.
      assert (Hreg1 : cf_regular step s (Datatypes.S m0)) by (apply (cf_regular_le m); [lia | exact Hreg]).
      destruct (lentz_inv_step m0 f0 C0 D0 Hinv Hreg1) as [Hinv' Hdelta].
      fold C2 D3 in Hinv', Hdelta.
      assert (Hno' : forall i, (1 <= i <= Datatypes.S m0)%nat -> ~ cf_stop step s factor i).
      { intros i Hi. destruct (Nat.eq_dec i (Datatypes.S m0)) as [->|Hne]; [|apply Hno; lia].
        unfold cf_stop. simpl. rewrite Nat.sub_0_r. rewrite <- Hdelta.
        apply Rleb_false. exact Htest. }
      destruct (Hcond Hreg Hinv' Hno') as (Hf & Hno2 & Hend).
      split; [exact Hf|]. split; [exact Hno2|].
      destruct Hend as [Hend|Hend]; [left; lia | right; exact Hend].
Qed.

End CF.

Lemma cf_convergent : forall (S : Type) (step : S -> (R*R) * S) (s : S) (tiny factor : R) (max_terms : Z),
  let '(r, n, s') := EvalContinuedFraction NumR S tiny step s factor max_terms in
  (1 <= n <= Datatypes.S (Z.to_nat max_terms))%nat /\
  s' = nth_state step s n /\
  (cf_regular step s (n - 1) ->
     r = cf_a step s 0 / convergent step s (n - 1) /\
     (forall i, (1 <= i < n - 1)%nat -> ~ cf_stop step s factor i) /\
     ((n - 1)%nat = Z.to_nat max_terms \/ ((1 <= n - 1)%nat /\ cf_stop step s factor (n - 1)))).
Proof.
  intros S step s tiny factor max_terms.
  unfold EvalContinuedFraction.
  destruct (step s) as [[a0 b0] s1] eqn:Es.
  set (f0 := if eqb NumR b0 (zero NumR) then tiny else b0).
  destruct (cf_loop NumR S tiny step factor (Z.to_nat max_terms) s1 f0 f0 (zero NumR) 0%nat)
    as [[f m] s2] eqn:El.
  assert (Hs1 : s1 = nth_state step s 1) by (simpl; rewrite Es; reflexivity).
  destruct (cf_loop_spec S step s tiny factor _ _ _ _ _ _ f m s2 El Hs1) as (Hm & Hs2 & Hcond).
  replace (Datatypes.S m - 1)%nat with m by lia.
  split; [lia|]. split; [exact Hs2|].
  intros Hreg.
  assert (Ha0 : a0 = cf_a step s 0) by (unfold cf_a, nth_out; simpl; rewrite Es; reflexivity).
  assert (Hb0 : b0 = cf_b step s 0) by (unfold cf_b, nth_out; simpl; rewrite Es; reflexivity).
  destruct (Hreg 0%nat) as [HA0 _]; [lia|].
  simpl in HA0. rewrite <- Hb0 in HA0.
  assert (Hf0 : f0 = b0).
  { unfold f0. change (eqb NumR b0 (zero NumR)) with (Reqb b0 0).
    rewrite (Reqb_false _ _ HA0). reflexivity. }
  assert (Hinv : lentz_inv S step s 0 f0 f0 (zero NumR)).
  { unfold lentz_inv. simpl. rewrite <- Hb0, Hf0.
    split; [field|]. split; [field|]. split; [field|]. lra. }
  assert (Hno : forall i, (1 <= i <= 0)%nat -> ~ cf_stop step s factor i) by (intros i Hi; lia).
  destruct (Hcond Hreg Hinv Hno) as (Hf & Hno2 & Hend).
  split; [|split; [exact Hno2|]].
  - change (div NumR a0 f) with (a0 / f). rewrite Ha0, Hf. reflexivity.
  - simpl in Hend. exact Hend.
Qed.
