(* Executable sanity tests of the C13 model / specification (tests, not proofs). *)
From Coq Require Import ZArith QArith List Bool Floats.
From ADV Require Import Base.Num C13.Model C13.ModelKernels C13.Spec C13.Corr.
Import ListNotations.

Example t_bern : map BernoulliNumber (seq 0 7) = [1; 1 # 2; 1 # 6; 0; -1 # 30; 0; 1 # 42]%Q.
Proof. vm_compute. reflexivity. Qed.
Example t_bern_spec : map bern (seq 0 7) = [1; 1 # 2; 1 # 6; 0; -1 # 30; 0; 1 # 42]%Q.
Proof. vm_compute. reflexivity. Qed.
Example t_poly : poly_eval NumF [1; 2; 3]%float 2%float = Some 17%float.
Proof. vm_compute. reflexivity. Qed.
Example t_series : SumSeries NumF (list float) (list_step 0%float) [1; 0.5; 0.25; 0x1p-60; 1]%float 0%float 0x1p-52%float 10
                   = (1.75%float, 4%nat, [1%float]).
Proof. vm_compute. reflexivity. Qed.
Example t_series_init : fst (fst (SumSeries NumF (list float) (list_step 0%float) [1]%float 2%float 1%float 10)) = 3%float.
Proof. vm_compute. reflexivity. Qed.
Example t_fact : Factorial 20 = FactTab 2432902008176640000 /\ Factorial (-1) = FactPanic /\ Factorial 21 = FactGamma 22.
Proof. vm_compute. repeat split. Qed.
Example t_check : check (CFactTab 5 false 120) = true /\ check (CFactTab 5 false 121) = false /\
                  check (CBern 2 0x1.5555555555555p-3%float) = true /\ check (CBern 2 0x1.5555555555557p-3%float) = false.
Proof. vm_compute. repeat split. Qed.
