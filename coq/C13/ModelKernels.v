(* C13 — the exported series / continued-fraction objects of gamma.go and
   bessel.go as state machines over a carrier (bit-exact on binary64: only
   + - * / and int->float conversions).  No proofs in this file. *)
From Coq Require Import ZArith Reals List Bool Floats.
From ADV Require Import Base.Num C13.Model.
Import ListNotations.

Section Kernels.
Context {A : Type} (N : Num A).

(* type LowerIncompleteGammaSeries struct { result, a, z }:
   Eval: r := result; a += 1.0; result *= z/a; return r *)
Definition lower_series_init (a1 z1 : A) : A * A * A := (one N, a1, z1).
Definition lower_series_step (st : A * A * A) : A * (A * A * A) :=
  let '(result, a, z) := st in
  let a' := add N a (one N) in
  (result, (mul N result (div N z a'), a', z)).

(* type SmallGamma2Series struct { result, x, apn; n int }, New: {-x, -x, a+1, 1}
   Eval: r := result/apn; result *= x; n += 1; result /= float64(n); apn += 1.0; return r *)
Definition small_gamma2_init (a x : A) : A * A * A * Z := (neg N x, neg N x, add N a (one N), 1%Z).
Definition small_gamma2_step (st : A * A * A * Z) : A * (A * A * A * Z) :=
  let '(result, x, apn, n) := st in
  let r := div N result apn in
  let n' := (n + 1)%Z in
  (r, (div N (mul N result x) (of_Z N n'), x, add N apn (one N), n')).

(* type UpperIncompleteGammaFraction struct { a, z; k int }, New: {a1, z1-a1+1.0, 0}
   Eval: k += 1; z += 2.0; return float64(k)*(a - float64(k)), z *)
Definition upper_fraction_init (a1 z1 : A) : A * A * Z := (a1, add N (sub N z1 a1) (one N), 0%Z).
Definition upper_fraction_step (st : A * A * Z) : (A * A) * (A * A * Z) :=
  let '(a, z, k) := st in
  let k' := (k + 1)%Z in
  let z' := add N z (add N (one N) (one N)) in
  ((mul N (of_Z N k') (sub N a (of_Z N k')), z'), (a, z', k')).

End Kernels.
