(* C13 (round 5) — tactic of the round-5 anchor goals (Hurwitz-series references, zeta Taylor polynomial). *)
From Coq Require Import Reals ZArith QArith List.
From Coquelicot Require Import Coquelicot.
From Interval Require Import Tactic.
From ADV Require Import Base.Num C13.Model C13.Spec C13.Spec4 C13.Anchors C13.Anchors2.

Ltac unf4 :=
  unfold polyg_mid, polyg_rad, polyg_step, polyg_sign, hzn_mid, hzn_rad, hzn_partial, hzn_tail, hzn_term,
         hz_mid, hz_rad, hz_lo, hz_partial, hz_tail, hz_term, zeta_T3, zeta_c1, zeta_c2, zeta_c3;
  repeat match goal with
  | |- context [zfact ?n] => vmc (zfact n)
  end;
  cbv -[Rplus Rminus Rmult Rdiv Ropp Rinv Rabs exp ln sqrt PI IZR Rle Rlt pow].
