(* C13 (round 7) — R-models of two pieces of code whose only purpose is to stay inside the binary64 range
   (operation order and branch structure of the Go text; rounding not modelled: math.Pow / Exp / Log are not
   bit-reproducible, the tie is the certified-anchor comparison of harness/c13/round7.go).  No proofs here.

   (A) special/gamma.go regularised_gamma_prefix(a, z): (z/L)^a e^(L-z) / sum with L = max(10, a), computed by one of
       three formulas selected by guards against overflow / underflow of the factors (a >= 10), resp. by a fallback
       when the product underflowed to 0 (a < 10).  math.Pow(b, a) with b > 0 is Rpower b a.
   (B) special/bessel.go bessel_i0 / bessel_i1, branch x >= 500: ex := Exp(x/2); result := ex * P(1/x) / Sqrt(x);
       result *= ex  -- the exponential is split so that no intermediate exceeds the result. *)
From Coq Require Import Reals List.
From ADV Require Import Base.Num C13.Model C13.Spec.
Import ListNotations.
Local Open Scope R_scope.

Definition rleb (x y : R) : bool := if Rle_dec x y then true else false.
(* constants.go: MaxLogFloat64 = Floor(Log(MaxFloat64)) = 709, MinLogFloat64 = Ceil(Log(SmallestNonzeroFloat64)): the OBSERVED value is
   -709, not -744 (math.Log of the denormal 2^-1074 returns ln 2^-1023 = -709.09 on this platform); the harness ties both constants
   (exact anchor "Constants7").  The theorems do not depend on the two values. *)
Definition MaxLog7 : R := 709.
Definition MinLog7 : R := -709.

Definition pfx_direct (a z : R) : R := Rpower (z / a) a * exp (a - z).
Definition pfx_scaled (a z : R) : R := Rpower (z / a * exp ((a - z) / a)) a.
Definition pfx_log (a z : R) : R := exp (a * ln (z / a) + (a - z)).

Definition reg_prefix_large (a z sum : R) : R :=
  let zoa := z / a in
  let amz := a - z in
  let alzoa := a * ln zoa in
  (if orb (rleb (Rmin alzoa amz) MinLog7) (rleb MaxLog7 (Rmax alzoa amz))
   then let amza := amz / a in
        if orb (rleb amza MinLog7) (rleb MaxLog7 amza) then pfx_log a z else pfx_scaled a z
   else pfx_direct a z) / sum.

Definition reg_prefix_small (a z sum : R) : R :=
  let p := Rpower (z / 10) a * exp (10 - z) in
  (if Req_EM_T 0 p then Rpower (z * exp ((10 - z) / a) / 10) a else p) / sum.

Definition reg_prefix (a z sum : R) : R :=
  if Rlt_dec a 10 then reg_prefix_small a z sum else reg_prefix_large a z sum.

(* (B) *)
Definition bessel_large (P : R -> R) (x : R) : R :=
  let ex := exp (x / 2) in
  let result := ex * P (1 / x) / sqrt x in
  result * ex.
Definition bessel_large_inter (P : R -> R) (x : R) : R := exp (x / 2) * P (1 / x) / sqrt x.

(* coefficient tables of the branch x >= 500 (decimal text of the source) *)
Definition i0_large_cs : list R :=
  [398942280401432905 / 10 ^ 18; 498677850491434560 / 10 ^ 19; 280506308916506102 / 10 ^ 19;
   292179096853915176 / 10 ^ 19; 453371208762579442 / 10 ^ 19].
Definition i1_large_cs : list R :=
  [3989422804014314820 / 10 ^ 19; - (1496033551467584157 / 10 ^ 19); - (4675105322571775911 / 10 ^ 20);
   - (4090421597376992892 / 10 ^ 20); - (5843630344778927582 / 10 ^ 20)].
Definition bessel_i0_large (x : R) : R := bessel_large (poly_val i0_large_cs) x.
Definition bessel_i1_large (x : R) : R := bessel_large (poly_val i1_large_cs) x.
