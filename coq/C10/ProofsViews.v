(* C10 — finite compositions of view constructors, and reads / writes through
   views on the storage-list model. *)
From Coq Require Import ZArith List Bool Lia.
From ADV Require Import C10.Gen C10.Model C10.Spec C10.ProofsIndex.
Import ListNotations.
Open Scope Z_scope.

(* ---------------------------------------------------------------- one constructor *)
Lemma apply1_values : forall real (m : mat) v, d_values (apply1 real m v) = d_values m.
Proof. intros real m [a b c d|a b c d|]; simpl; rewrite ?k_slice_P, ?k_cslice_P, ?k_T_P; reflexivity. Qed.
Lemma apply_views_values : forall real l (m : mat), d_values (apply_views real m l) = d_values m.
Proof.
  intros real l; induction l as [|v l IH]; intros m; [reflexivity|].
  change (apply_views real m (v :: l)) with (apply_views real (apply1 real m v) l).
  rewrite IH. apply apply1_values.
Qed.

Lemma apply1_dims : forall real (m : mat) v,
  (d_rows (apply1 real m v), d_cols (apply1 real m v)) = dims1 v (d_rows m, d_cols m).
Proof. intros real m [a b c d|a b c d|]; simpl; rewrite ?k_slice_P, ?k_cslice_P, ?k_T_P; reflexivity. Qed.

Lemma apply1_wf : forall real len (m : mat) v, wf len m -> guard1 v (d_rows m, d_cols m) -> wf len (apply1 real m v).
Proof.
  intros real len m [a b c d|a b c d|] W G; simpl in *; rewrite ?k_slice_P, ?k_cslice_P, ?k_T_P.
  - apply wf_slice; assumption.
  - apply wf_slice; assumption.
  - apply wf_T; assumption.
Qed.

(* the position (i,j) of the new view is position [coord1 v (i,j)] of the old one *)
Lemma apply1_index : forall real (m : mat) v i j,
  guard1 v (d_rows m, d_cols m) -> in_range (apply1 real m v) i j ->
  in_range m (fst (coord1 v (i, j))) (snd (coord1 v (i, j))) /\
  DenseP.index (apply1 real m v) i j = DenseP.index m (fst (coord1 v (i, j))) (snd (coord1 v (i, j))).
Proof.
  intros real m [a b c d|a b c d|] i j G Rg; simpl in *; rewrite ?k_slice_P, ?k_cslice_P, ?k_T_P in *.
  - split; [apply (slice_in_range m a b c d); assumption | apply index_slice; assumption].
  - split; [apply (slice_in_range m a b c d); assumption | apply index_slice; assumption].
  - split; [apply T_in_range; assumption | apply index_T].
Qed.

(* ---------------------------------------------------------------- every finite composition *)
Lemma view_composition_P : forall real l (m : mat) len,
  guards l (d_rows m, d_cols m) ->
  (d_rows (apply_views real m l), d_cols (apply_views real m l)) = vdims l (d_rows m, d_cols m) /\
  (wf len m -> wf len (apply_views real m l)) /\
  forall i j, in_range (apply_views real m l) i j ->
    in_range m (fst (coord l (i, j))) (snd (coord l (i, j))) /\
    DenseP.index (apply_views real m l) i j = DenseP.index m (fst (coord l (i, j))) (snd (coord l (i, j))).
Proof.
  intros real l; induction l as [|v l IH]; intros m len G.
  - simpl. repeat split; auto; apply H.
  - simpl in G. destruct G as [G1 G2].
    change (apply_views real m (v :: l)) with (apply_views real (apply1 real m v) l).
    rewrite <- (apply1_dims real m v) in G2.
    destruct (IH (apply1 real m v) len G2) as (D & W & I).
    split; [|split].
    + rewrite D. simpl. rewrite (apply1_dims real m v). reflexivity.
    + intros Wm. apply W. apply apply1_wf; assumption.
    + intros i j Rg. destruct (I i j Rg) as [R1 E1].
      simpl coord. destruct (coord l (i, j)) as [i1 j1] eqn:C. simpl in R1, E1.
      destruct (apply1_index real m v i1 j1 G1 R1) as [R2 E2].
      split; [exact R2|]. rewrite E1. exact E2.
Qed.

(* ---------------------------------------------------------------- storage lemmas *)
Lemma upd_length : forall X (l : list X) n v, length (upd n v l) = length l.
Proof. intros X l; induction l as [|x l IH]; intros [|n] v; simpl; auto. Qed.
Lemma nth_upd_same : forall X (l : list X) n v d, (n < length l)%nat -> nth n (upd n v l) d = v.
Proof. intros X l; induction l as [|x l IH]; intros [|n] v d Hn; simpl in *; try lia; auto. apply IH; lia. Qed.
Lemma nth_upd_other : forall X (l : list X) n k v d, n <> k -> nth k (upd n v l) d = nth k l d.
Proof.
  intros X l; induction l as [|x l IH]; intros [|n] [|k] v d Hn; simpl in *; try lia; auto.
Qed.

Lemma get_ok : forall s k, 0 <= k < zlen s -> get s k = ROk (nth (Z.to_nat k) s 0).
Proof.
  intros s k Hk. unfold get.
  replace (k <? 0) with false by (symmetry; apply Z.ltb_ge; lia).
  replace (k >=? zlen s) with false by (symmetry; rewrite Z.geb_leb; apply Z.leb_gt; lia). reflexivity.
Qed.
Lemma put_ok : forall s k v, 0 <= k < zlen s -> put s k v = ROk (upd (Z.to_nat k) v s).
Proof.
  intros s k v Hk. unfold put.
  replace (k <? 0) with false by (symmetry; apply Z.ltb_ge; lia).
  replace (k >=? zlen s) with false by (symmetry; rewrite Z.geb_leb; apply Z.leb_gt; lia). reflexivity.
Qed.
Lemma put_inv : forall s k v s', put s k v = ROk s' -> 0 <= k < zlen s /\ s' = upd (Z.to_nat k) v s.
Proof.
  intros s k v s'. unfold put.
  destruct (k <? 0) eqn:E1; [discriminate|]. destruct (k >=? zlen s) eqn:E2; [discriminate|].
  simpl. intros E; inversion E. apply Z.ltb_ge in E1. rewrite Z.geb_leb in E2. apply Z.leb_gt in E2. split; [lia|reflexivity].
Qed.
Lemma get_put_same : forall s k v, 0 <= k < zlen s -> get (upd (Z.to_nat k) v s) k = ROk v.
Proof.
  intros s k v Hk. rewrite get_ok by (unfold zlen in *; rewrite upd_length; exact Hk).
  rewrite nth_upd_same; [reflexivity|]. unfold zlen in Hk. lia.
Qed.
Lemma get_put_other : forall s k k' v, 0 <= k -> 0 <= k' -> k <> k' -> get (upd (Z.to_nat k) v s) k' = get s k'.
Proof.
  intros s k k' v Hk Hk' Hne. unfold get, zlen. rewrite upd_length.
  destruct ((k' <? 0) || (k' >=? Z.of_nat (length s))); [reflexivity|].
  rewrite nth_upd_other; [reflexivity|]. intros E. apply Hne. apply Z2Nat.inj; assumption.
Qed.
Lemma store_set_same : forall (H : heap) l s, (l < length H)%nat -> store_of (set_store H l s) l = s.
Proof. intros H l s Hl. unfold store_of, set_store. apply nth_upd_same; assumption. Qed.
Lemma store_set_other : forall (H : heap) l l' s, l <> l' -> store_of (set_store H l s) l' = store_of H l'.
Proof. intros H l l' s Hl. unfold store_of, set_store. apply nth_upd_other; assumption. Qed.

(* a matrix is well-formed in a heap: its header is wf over the length of its storage *)
Definition wf_in (H : heap) (m : mat) : Prop :=
  (d_values m < length H)%nat /\ wf (zlen (store_of H (d_values m))) m.

(* ---------------------------------------------------------------- reading through a view *)
Lemma mAT_in_range : forall real H (m : mat) i j, wf_in H m -> in_range m i j ->
  exists k, DenseP.index m i j = Some k /\ 0 <= k < zlen (store_of H (d_values m)) /\
            mAT real H m i j = ROk (nth (Z.to_nat k) (store_of H (d_values m)) 0).
Proof.
  intros real H m i j [Hl W] Rg.
  destruct (index_in_bounds _ m i j W Rg) as (k & E & B).
  exists k. split; [exact E|]. split; [exact B|].
  unfold mAT, idx. rewrite k_index_P, E. simpl. apply get_ok; exact B.
Qed.
Lemma mAT_out_of_range : forall real H (m : mat) i j, ~ in_range m i j -> mAT real H m i j = RPanic.
Proof.
  intros real H m i j N. unfold mAT, idx. rewrite k_index_P.
  destruct (index_guard m i j) as [_ G]. rewrite G; [reflexivity|]. unfold in_range in N. lia.
Qed.

(* reading element (i,j) of any composed view reads element coord(i,j) of the base *)
Lemma view_read : forall real H l (m : mat) i j,
  guards l (d_rows m, d_cols m) -> in_range (apply_views real m l) i j ->
  mAT real H (apply_views real m l) i j = mAT real H m (fst (coord l (i, j))) (snd (coord l (i, j))).
Proof.
  intros real H l m i j G Rg.
  destruct (view_composition_P real l m 0 G) as (_ & _ & I).
  destruct (I i j Rg) as [_ E].
  unfold mAT, idx. rewrite !k_index_P, E, apply_views_values. reflexivity.
Qed.

(* ---------------------------------------------------------------- writing through a view *)
Lemma mSET_spec : forall real H (m : mat) i j v H',
  wf_in H m -> mSET real H m i j v = ROk H' ->
  in_range m i j /\
  mAT real H' m i j = ROk v /\
  (forall i' j', (i', j') <> (i, j) -> mAT real H' m i' j' = mAT real H m i' j') /\
  (forall l, l <> d_values m -> store_of H' l = store_of H l) /\
  length H' = length H /\ zlen (store_of H' (d_values m)) = zlen (store_of H (d_values m)).
Proof.
  intros real H m i j v H' [Hl W] E.
  unfold mSET, idx in E. rewrite k_index_P in E.
  destruct (DenseP.index m i j) as [k|] eqn:Ek; simpl in E; [|discriminate].
  destruct (put (store_of H (d_values m)) k v) as [s| |] eqn:Ep; simpl in E; try discriminate.
  inversion E; subst H'; clear E.
  destruct (put_inv _ _ _ _ Ep) as [Bk Es]. subst s.
  assert (Rg : in_range m i j).
  { destruct (index_guard m i j) as [G1 G2]. unfold in_range.
    destruct (Z_lt_dec i 0); [rewrite G2 in Ek by lia; discriminate|].
    destruct (Z_lt_dec j 0); [rewrite G2 in Ek by lia; discriminate|].
    destruct (Z_ge_dec i (d_rows m)); [rewrite G2 in Ek by lia; discriminate|].
    destruct (Z_ge_dec j (d_cols m)); [rewrite G2 in Ek by lia; discriminate|]. lia. }
  split; [exact Rg|]. split; [|split; [|split; [|split]]].
  - unfold mAT, idx. rewrite k_index_P, Ek. simpl. rewrite store_set_same by exact Hl. apply get_put_same; exact Bk.
  - intros i' j' Hne. unfold mAT, idx. rewrite k_index_P.
    destruct (DenseP.index m i' j') as [k'|] eqn:Ek'; simpl; [|reflexivity].
    rewrite store_set_same by exact Hl.
    assert (k <> k').
    { intros Ekk; subst k'. destruct (index_injective _ m i j i' j' k W Ek Ek') as [A B]. apply Hne; subst; reflexivity. }
    assert (R' : in_range m i' j').
    { destruct (index_guard m i' j') as [G1 G2]. unfold in_range.
      destruct (Z_lt_dec i' 0); [rewrite G2 in Ek' by lia; discriminate|].
      destruct (Z_lt_dec j' 0); [rewrite G2 in Ek' by lia; discriminate|].
      destruct (Z_ge_dec i' (d_rows m)); [rewrite G2 in Ek' by lia; discriminate|].
      destruct (Z_ge_dec j' (d_cols m)); [rewrite G2 in Ek' by lia; discriminate|]. lia. }
    destruct (index_in_bounds _ m i' j' W R') as (k2 & E2 & B2). rewrite Ek' in E2; inversion E2; subst k2.
    apply get_put_other; lia.
  - intros l Hne. apply store_set_other. auto.
  - unfold set_store. apply upd_length.
  - rewrite store_set_same by exact Hl. unfold zlen. rewrite upd_length. reflexivity.
Qed.

Lemma wf_in_views : forall real H l (m : mat), wf_in H m -> guards l (d_rows m, d_cols m) ->
  wf_in H (apply_views real m l).
Proof.
  intros real H l m [Hl W] G. unfold wf_in. rewrite apply_views_values. split; [exact Hl|].
  destruct (view_composition_P real l m (zlen (store_of H (d_values m))) G) as (_ & Wv & _). apply Wv; exact W.
Qed.

(* Reference views write through: a write at (i,j) of any composed view is seen at
   coord(i,j) of the base, and every other element of the base keeps its value. *)
Lemma view_write_through : forall real H l (m : mat) i j v H',
  wf_in H m -> guards l (d_rows m, d_cols m) ->
  mSET real H (apply_views real m l) i j v = ROk H' ->
  let p := coord l (i, j) in
  in_range m (fst p) (snd p) /\
  mAT real H' m (fst p) (snd p) = ROk v /\
  (forall i' j', in_range m i' j' -> (i', j') <> p -> mAT real H' m i' j' = mAT real H m i' j') /\
  (forall loc, loc <> d_values m -> store_of H' loc = store_of H loc).
Proof.
  intros real H l m i j v H' Wm G E p.
  pose proof (wf_in_views real H l m Wm G) as Wv.
  destruct (mSET_spec real H _ i j v H' Wv E) as (Rg & _ & _ & Fr & _ & _).
  destruct (view_composition_P real l m 0 G) as (_ & _ & I).
  destruct (I i j Rg) as [Rp Ei]. fold p in Rp, Ei.
  (* the same write, seen as a write through the base header *)
  assert (Eb : mSET real H m (fst p) (snd p) v = ROk H').
  { unfold mSET, idx in *. rewrite k_index_P in *. rewrite Ei, apply_views_values in E. exact E. }
  destruct (mSET_spec real H m (fst p) (snd p) v H' Wm Eb) as (_ & Rd & Oth & Fr' & _ & _).
  split; [exact Rp|]. split; [exact Rd|]. split; [|exact Fr'].
  intros i' j' _ Hne. apply Oth. destruct p; exact Hne.
Qed.

(* ---------------------------------------------------------------- copies *)
Lemma alloc_spec : forall (H : heap) s, let '(H', l) := alloc H s in
  l = length H /\ store_of H' l = s /\ (forall l', (l' < length H)%nat -> store_of H' l' = store_of H l') /\
  length H' = S (length H).
Proof.
  intros H s. unfold alloc, store_of. split; [reflexivity|]. split; [|split].
  - rewrite app_nth2 by lia. rewrite Nat.sub_diag. reflexivity.
  - intros l' Hl. apply app_nth1; exact Hl.
  - rewrite app_length; simpl; lia.
Qed.

(* Clone: same elements through a fresh location; the original storage is untouched by the
   allocation, and (by mSET_spec's frame clause) by any later write through the clone *)
Lemma clone_fresh : forall real H (m : mat), wf_in H m ->
  let '(H', c) := mClone H m in
  d_values c = length H /\ d_values c <> d_values m /\ wf_in H' c /\
  (forall l, (l < length H)%nat -> store_of H' l = store_of H l) /\
  (forall i j, mAT real H' c i j = mAT real H m i j).
Proof.
  intros real H m [Hl W]. unfold mClone.
  pose proof (alloc_spec H (store_of H (d_values m))) as A.
  destruct (alloc H (store_of H (d_values m))) as [H' l] eqn:EA.
  destruct A as (A1 & A2 & A3 & A4). simpl.
  split; [exact A1|]. split; [lia|]. split; [|split; [exact A3|]].
  - unfold wf_in; simpl. split; [lia|]. rewrite A2. exact W.
  - intros i j. unfold mAT, idx. rewrite !k_index_P.
    assert (Ei : DenseP.index (mkDense l (d_rows m) (d_cols m) (d_rowOffset m) (d_rowMax m) (d_colOffset m) (d_colMax m) (d_transposed m)) i j
                 = DenseP.index m i j) by reflexivity.
    rewrite Ei. simpl. rewrite A2. reflexivity.
Qed.

(* ConstRow of a non-transposed view is the contiguous storage segment that starts at
   index(i,0): cell t of the segment is exactly the cell index(i,t) *)
Lemma row_contiguous : forall V (h : DenseMatrix V) i t, d_transposed h = false ->
  in_range h i 0 -> in_range h i t ->
  exists k0, DenseP.index h i 0 = Some k0 /\ DenseP.index h i t = Some (k0 + t).
Proof.
  intros V h i t Ht R0 Rt. rewrite (index_some h i 0 R0), (index_some h i t Rt), Ht.
  eexists; split; [reflexivity|]. f_equal; ring.
Qed.
Lemma col_contiguous : forall V (h : DenseMatrix V) j t, d_transposed h = true ->
  in_range h 0 j -> in_range h t j ->
  exists k0, DenseP.index h 0 j = Some k0 /\ DenseP.index h t j = Some (k0 + t).
Proof.
  intros V h j t Ht R0 Rt. rewrite (index_some h 0 j R0), (index_some h t j Rt), Ht.
  eexists; split; [reflexivity|]. f_equal; ring.
Qed.
