(* C10 — whole-matrix writes through a view (Reset, SetIdentity, Set/element-wise operations whose
   operands do not live in the receiver's storage) give the view exactly the elements the same
   operation gives an independent deep copy, and touch no other cell of the parent. *)
From Coq Require Import ZArith List Bool Lia.
From ADV Require Import C10.Gen C10.Model C10.Spec C10.ProofsIndex C10.ProofsViews.
Import ListNotations.
Open Scope Z_scope.

Section Fill.
Variable real : bool.
Variable g : Z -> Z -> Z.      (* the value written at (i,j): independent of the receiver's storage *)

Definition fill (m : mat) (ps : list (Z * Z)) (H : heap) : R heap :=
  foldR (fun H p => mSET real H m (fst p) (snd p) (g (fst p) (snd p))) ps H.

Lemma mSET_ok : forall H (m : mat) i j v, wf_in H m -> in_range m i j ->
  exists H' k, mSET real H m i j v = ROk H' /\ DenseP.index m i j = Some k /\
               0 <= k < zlen (store_of H (d_values m)) /\
               store_of H' (d_values m) = upd (Z.to_nat k) v (store_of H (d_values m)) /\
               (forall l, l <> d_values m -> store_of H' l = store_of H l) /\ wf_in H' m.
Proof.
  intros H m i j v [Hl W] Rg.
  destruct (index_in_bounds _ m i j W Rg) as (k & E & B).
  exists (set_store H (d_values m) (upd (Z.to_nat k) v (store_of H (d_values m)))), k.
  unfold mSET, idx. rewrite k_index_P, E. simpl. rewrite put_ok by exact B. simpl.
  split; [reflexivity|]. split; [reflexivity|]. split; [exact B|].
  split; [apply store_set_same; exact Hl|].
  split; [intros l Hne; apply store_set_other; auto|].
  unfold wf_in. split.
  - unfold set_store. rewrite upd_length. exact Hl.
  - rewrite store_set_same by exact Hl. unfold zlen in *. rewrite upd_length. exact W.
Qed.

Definition addressed (m : mat) (ps : list (Z * Z)) (k : Z) : Prop :=
  exists p, In p ps /\ DenseP.index m (fst p) (snd p) = Some k.

Lemma fill_spec : forall (m : mat) ps H, wf_in H m ->
  (forall p, In p ps -> in_range m (fst p) (snd p)) ->
  exists H', fill m ps H = ROk H' /\ wf_in H' m /\
    (forall i j, In (i, j) ps -> mAT real H' m i j = ROk (g i j)) /\
    (forall k, 0 <= k -> ~ addressed m ps k ->
       nth (Z.to_nat k) (store_of H' (d_values m)) 0 = nth (Z.to_nat k) (store_of H (d_values m)) 0) /\
    (forall l, l <> d_values m -> store_of H' l = store_of H l) /\
    zlen (store_of H' (d_values m)) = zlen (store_of H (d_values m)).
Proof.
  intros m ps; induction ps as [|p ps IH]; intros H W Hin.
  - exists H. split; [reflexivity|]. split; [exact W|]. split; [intros i j []|].
    split; [intros; reflexivity|]. split; [intros; reflexivity|reflexivity].
  - destruct p as [pi pj].
    assert (Rp : in_range m pi pj) by (apply (Hin (pi, pj)); left; reflexivity).
    destruct (mSET_ok H m pi pj (g pi pj) W Rp) as (H1 & k & E1 & Ek & Bk & S1 & O1 & W1).
    destruct (IH H1 W1 (fun p Hp => Hin p (or_intror Hp))) as (H' & E' & W' & Vals & Frame & Oth & Len).
    exists H'. unfold fill in *. simpl. rewrite E1. simpl. split; [exact E'|]. split; [exact W'|].
    split; [|split; [|split]].
    + intros i j [Eq|Hps]; [|apply Vals; exact Hps].
      inversion Eq; subst i j.
      destruct (in_dec (fun a b : Z * Z => ltac:(decide equality; apply Z.eq_dec)) (pi, pj) ps) as [I|N];
        [apply Vals; exact I|].
      (* written once, never overwritten later *)
      unfold mAT, idx. rewrite k_index_P, Ek. simpl.
      assert (NA : ~ addressed m ps k).
      { intros (q & Hq & Eq'). destruct W as [_ Wm].
        destruct (index_injective _ m pi pj (fst q) (snd q) k Wm Ek Eq') as [A B].
        apply N. destruct q; simpl in *; subst; exact Hq. }
      rewrite get_ok by (rewrite Len, S1; unfold zlen in *; rewrite upd_length; exact Bk).
      rewrite (Frame k (proj1 Bk) NA), S1. rewrite nth_upd_same; [reflexivity|]. unfold zlen in Bk; lia.
    + intros k' Hk' NA.
      rewrite (Frame k' Hk').
      * rewrite S1. apply nth_upd_other. intros Ekk.
        apply NA. exists (pi, pj). split; [left; reflexivity|]. simpl. rewrite Ek. f_equal.
        apply Z2Nat.inj; lia.
      * intros (q & Hq & Eq'). apply NA. exists q. split; [right; exact Hq|exact Eq'].
    + intros l Hne. rewrite (Oth l Hne). apply O1; exact Hne.
    + rewrite Len, S1. unfold zlen. rewrite upd_length. reflexivity.
Qed.
End Fill.

(* membership in the nested-loop enumeration *)
Lemma in_zseq : forall n x, In x (zseq n) <-> 0 <= x < n.
Proof.
  intros n x. unfold zseq. rewrite in_map_iff. split.
  - intros (k & E & I). apply in_seq in I. lia.
  - intros Hx. exists (Z.to_nat x). split; [lia|]. apply in_seq. lia.
Qed.
Lemma in_positions : forall n m i j, In (i, j) (positions n m) <-> 0 <= i < n /\ 0 <= j < m.
Proof.
  intros n m i j. unfold positions. rewrite in_flat_map. split.
  - intros (x & Hx & I). apply in_map_iff in I. destruct I as (y & E & Hy). inversion E; subst.
    apply in_zseq in Hx. apply in_zseq in Hy. lia.
  - intros [Hi Hj]. exists i. split; [apply in_zseq; exact Hi|]. apply in_map_iff. exists j.
    split; [reflexivity|apply in_zseq; exact Hj].
Qed.

(* Reset / SetIdentity / Set-from-independent-elements on any well-formed view:
   every element of the view gets the value the operation gives a deep copy (g i j), and every
   storage cell that no view position addresses keeps its content *)
Theorem whole_matrix_write : forall real (g : Z -> Z -> Z) H (m : mat), wf_in H m ->
  exists H', fill real g m (mpos real m) H = ROk H' /\
    (forall i j, in_range m i j -> mAT real H' m i j = ROk (g i j)) /\
    (forall k, 0 <= k -> (forall i j, in_range m i j -> DenseP.index m i j <> Some k) ->
       nth (Z.to_nat k) (store_of H' (d_values m)) 0 = nth (Z.to_nat k) (store_of H (d_values m)) 0) /\
    (forall l, l <> d_values m -> store_of H' l = store_of H l).
Proof.
  intros real g H m W. unfold mpos. rewrite k_dims_P.
  assert (Hin : forall p, In p (positions (d_rows m) (d_cols m)) -> in_range m (fst p) (snd p)).
  { intros [i j] I. apply in_positions in I. exact I. }
  destruct (fill_spec real g m _ H W Hin) as (H' & E & _ & Vals & Frame & Oth & _).
  exists H'. split; [exact E|]. split; [|split; [|exact Oth]].
  - intros i j Rg. apply Vals. apply in_positions. exact Rg.
  - intros k Hk NA. apply Frame; [exact Hk|].
    intros ([i j] & I & Ei). apply in_positions in I. exact (NA i j I Ei).
Qed.
Lemma mReset_is_fill : forall real H m, mReset real H m = fill real (fun _ _ => 0) m (mpos real m) H.
Proof. reflexivity. Qed.
Lemma mSetIdentity_is_fill : forall real H m,
  mSetIdentity real H m = fill real (fun i j => if i =? j then 1 else 0) m (mpos real m) H.
Proof. reflexivity. Qed.
