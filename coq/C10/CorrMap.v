(* C10 correspondence, third stream: callback / scalar-operand / vector-operand operations on dense views
   (ModelMap.v) against what the Go implementation returned. *)
From Coq Require Import ZArith List Bool.
From ADV Require Import Base.Corr C10.Gen C10.Model C10.ModelMap C10.Corr.
Import ListNotations.
Open Scope Z_scope.

Record xcase := mkXCase { x_real : bool; x_rows : Z; x_cols : Z; x_vals : list Z;
                          x_views : list vc; x_op : xop; x_obs : observed }.

Definition checkX (c : xcase) : bool :=
  match run_xcase (x_real c) (x_rows c) (x_cols c) (x_vals c) (x_views c) (x_op c), x_obs c with
  | (h, RPanic), ObsPanic h0 => zl_eqb h h0
  | (h, ROk o), ObsOk h0 o' => zl_eqb h h0 && obs_eqb o o'
  | _, _ => false
  end.
Definition mismX (cs : list xcase) : list nat := mismatches checkX cs.
