(* C10 — T() of a sparse matrix that owns its whole storage, for EVERY shape and EVERY content:
   the re-layout loop places the cell of entry k = i*cols + j at position j*rows + i of the new
   vector, so element (i,j) of the result is element (j,i) of the receiver. *)
From Coq Require Import ZArith List Bool Lia.
From ADV Require Import C10.Gen C10.Model C10.ModelSparse C10.Spec C10.ProofsIndex C10.ProofsViews
                        C10.ProofsTipGen C10.ProofsOpsView.
Import ListNotations.
Open Scope Z_scope.

Lemma zseq_length : forall n, length (zseq n) = Z.to_nat n.
Proof. intros n. unfold zseq. rewrite map_length, seq_length. reflexivity. Qed.
Lemma nth_zseq : forall n k d, 0 <= k < n -> nth (Z.to_nat k) (zseq n) d = k.
Proof.
  intros n k d Hk. unfold zseq. rewrite (nth_indep _ d (Z.of_nat 0)) by (rewrite map_length, seq_length; lia).
  rewrite map_nth, seq_nth by lia. lia.
Qed.

(* entries of a zipped, filtered list *)
Lemma in_combine_seq : forall (P : list Z) a k v,
  In (k, v) (combine (map Z.of_nat (seq a (length P))) P) ->
  Z.of_nat a <= k < Z.of_nat a + Z.of_nat (length P) /\ v = nth (Z.to_nat (k - Z.of_nat a)) P 0.
Proof.
  induction P as [|x P IH]; intros a k v I; [destruct I|]. simpl in I. destruct I as [E|I].
  - inversion E; subst. replace (Z.of_nat a - Z.of_nat a) with 0 by lia. simpl. split; [lia|reflexivity].
  - apply IH in I. destruct I as [B E]. split; [simpl length; lia|].
    replace (Z.to_nat (k - Z.of_nat a)) with (S (Z.to_nat (k - Z.of_nat (S a)))) by lia. exact E.
Qed.
Lemma combine_seq_in : forall (P : list Z) a k, Z.of_nat a <= k < Z.of_nat a + Z.of_nat (length P) ->
  In (k, nth (Z.to_nat (k - Z.of_nat a)) P 0) (combine (map Z.of_nat (seq a (length P))) P).
Proof.
  induction P as [|x P IH]; intros a k B; [simpl in B; lia|]. simpl.
  destruct (Z.eq_dec k (Z.of_nat a)) as [E|N].
  - left. subst k. replace (Z.of_nat a - Z.of_nat a) with 0 by lia. reflexivity.
  - right. replace (Z.to_nat (k - Z.of_nat a)) with (S (Z.to_nat (k - Z.of_nat (S a)))) by lia.
    apply IH. simpl length in B. lia.
Qed.
Lemma nodup_fst_filter_combine : forall (f : Z * Z -> bool) (P : list Z) a,
  NoDup (map fst (filter f (combine (map Z.of_nat (seq a (length P))) P))).
Proof.
  intros f. induction P as [|x P IH]; intros a; [constructor|]. simpl.
  destruct (f (Z.of_nat a, x)); [|apply IH]. simpl. constructor; [|apply IH].
  intros I. apply in_map_iff in I. destruct I as ([k v] & E & I). simpl in E. subst k.
  apply filter_In in I. destruct I as [I _]. apply in_combine_seq in I. lia.
Qed.

Lemma nth_map_own0 : forall (l : list cell) n, nth n (map (fun _ : cell => Own 0) l) (Own 0) = Own 0.
Proof. induction l as [|x l IH]; intros [|n]; simpl; auto. Qed.

Section SparseT.
Variable real : bool.
Variables rows cols : Z.
Hypothesis Hr : 0 <= rows.
Hypothesis Hc : 0 <= cols.
Variable P : list Z.
Hypothesis HP : zlen P = rows * cols.

Let N := rows * cols.
Let h := snew rows cols.
Let h' : SparseMatrix unit := mkSparse tt cols rows 0 cols 0 rows.
Let v0 := mkSView h (ident_cells N) true.
(* where the loop puts entry k *)
Let sigma (k : Z) : Z := (k mod cols) * rows + k / cols.

Lemma ident_len : zlen (ident_cells N) = N.
Proof. unfold zlen, ident_cells. rewrite map_length, zseq_length. unfold N. nia. Qed.
Lemma ident_nth : forall k, 0 <= k < N -> nth (Z.to_nat k) (ident_cells N) (Own 0) = Par k.
Proof.
  intros k Hk. unfold ident_cells. rewrite (nth_indep _ (Own 0) (Par 0)) by (rewrite map_length, zseq_length; lia).
  rewrite map_nth, nth_zseq by exact Hk. reflexivity.
Qed.
Lemma cget_ident : forall k, 0 <= k < N -> cget P (ident_cells N) k = ROk (nth (Z.to_nat k) P 0).
Proof.
  intros k Hk. unfold cget. rewrite ident_len.
  replace (k <? 0) with false by (symmetry; apply Z.ltb_ge; lia).
  replace (k >=? N) with false by (symmetry; rewrite Z.geb_leb; apply Z.leb_gt; lia).
  simpl orb. cbv iota. rewrite ident_nth by exact Hk. apply get_ok. fold N in HP. lia.
Qed.
Lemma cvals_ident : cvals P (ident_cells N) = ROk P.
Proof.
  unfold cvals. rewrite ident_len. unfold zseq. rewrite mapR_pre.
  rewrite (mapR_ROk _ _ _ (fun t => nth t P 0)).
  - f_equal. replace (Z.to_nat N) with (length P) by (fold N in HP; unfold zlen in HP; lia). apply map_nth_seq_id.
  - intros t Ht. apply in_seq in Ht. rewrite cget_ident by lia. rewrite Nat2Z.id. reflexivity.
Qed.
Definition es : list (Z * Z) := filter (fun p => negb (snd p =? 0)) (combine (zseq N) P).
Lemma entries_ident : entries P (ident_cells N) = ROk es.
Proof. unfold entries. rewrite cvals_ident. cbn [bind]. rewrite ident_len. reflexivity. Qed.
Lemma es_in : forall k v, In (k, v) es <-> 0 <= k < N /\ v = nth (Z.to_nat k) P 0 /\ v <> 0.
Proof.
  intros k v. unfold es. rewrite filter_In. cbn [snd].
  assert (EN : Z.to_nat N = length P) by (fold N in HP; unfold zlen in HP; lia).
  unfold zseq. rewrite EN. split.
  - intros [I Nz]. apply in_combine_seq in I. destruct I as [B E]. rewrite Z.sub_0_r in E.
    split; [lia|]. split; [exact E|]. apply negb_true_iff, Z.eqb_neq in Nz. exact Nz.
  - intros (B & E & Nz). split; [|apply negb_true_iff, Z.eqb_neq; exact Nz].
    subst v. pose proof (combine_seq_in P 0 k ltac:(lia)) as I. rewrite Z.sub_0_r in I. exact I.
Qed.
Lemma es_nodup : NoDup (map fst es).
Proof.
  unfold es, zseq. replace (Z.to_nat N) with (length P) by (fold N in HP; unfold zlen in HP; lia).
  apply nodup_fst_filter_combine.
Qed.

Lemma sigma_bound : forall k, 0 <= k < N -> 0 <= sigma k < N /\ 0 <= k mod cols < cols /\ 0 <= k / cols < rows.
Proof.
  intros k Hk. assert (C0 : 0 < cols) by (unfold N in Hk; nia).
  assert (M : 0 <= k mod cols < cols) by (apply Z.mod_pos_bound; lia).
  assert (D : 0 <= k / cols < rows).
  { split; [apply Z.div_pos; lia|]. apply Z.div_lt_upper_bound; [lia|]. unfold N in Hk. lia. }
  unfold sigma, N. split; [nia|]. split; assumption.
Qed.
Lemma sigma_inj : forall a b, 0 <= a < N -> 0 <= b < N -> sigma a = sigma b -> a = b.
Proof.
  intros a b Ha Hb E. destruct (sigma_bound a Ha) as (_ & Ma & Da). destruct (sigma_bound b Hb) as (_ & Mb & Db).
  unfold sigma in E. assert (a mod cols = b mod cols) by nia. assert (a / cols = b / cols) by nia.
  assert (C0 : cols <> 0) by lia.
  rewrite (Z.div_mod a cols C0), (Z.div_mod b cols C0). congruence.
Qed.

(* one step of the re-layout loop *)
Definition t_step (cs : list cell) (e : Z * Z) : R (list cell) :=
  let '(i1, j1) := sk_ij real h (fst e) in
  k2 <- of_opt (sk_index real h' j1 i1) ;;
  if (k2 <? 0) || (k2 >=? zlen cs) then RPanic else
  ROk (upd (Z.to_nat k2) (nth (Z.to_nat (fst e)) (sv_cells v0) (Own 0)) cs).
Lemma t_step_ok : forall cs e, zlen cs = N -> 0 <= fst e < N ->
  t_step cs e = ROk (upd (Z.to_nat (sigma (fst e))) (Par (fst e)) cs).
Proof.
  intros cs [k v] Lc Hk. cbn [fst] in *. destruct (sigma_bound k Hk) as (Sb & Mb & Db).
  unfold t_step. cbn [fst].
  assert (IJ : sk_ij real h k = (k / cols, k mod cols)).
  { replace (sk_ij real h k) with (SparseP.ij h k) by (destruct real; reflexivity).
    unfold SparseP.ij, h, snew. cbn [s_colMax s_rowOffset s_colOffset].
    rewrite Z.quot_div_nonneg, Z.rem_mod_nonneg by lia. f_equal; lia. }
  rewrite IJ.
  assert (IX : sk_index real h' (k mod cols) (k / cols) = Some (sigma k)).
  { replace (sk_index real h' (k mod cols) (k / cols)) with (SparseP.index h' (k mod cols) (k / cols)) by (destruct real; reflexivity).
    rewrite (s_index_some h') by (unfold s_in_range, h'; simpl; lia).
    unfold h', sigma. simpl. f_equal; ring. }
  rewrite IX. cbn [of_opt bind]. rewrite Lc.
  replace (sigma k <? 0) with false by (symmetry; apply Z.ltb_ge; lia).
  replace (sigma k >=? N) with false by (symmetry; rewrite Z.geb_leb; apply Z.leb_gt; lia).
  simpl orb. cbv iota. unfold v0. cbn [sv_cells]. rewrite ident_nth by exact Hk. reflexivity.
Qed.

(* the whole loop: every entry's cell lands at sigma(k); every other position keeps its initial cell *)
Lemma t_fold : forall (l : list (Z * Z)) cs, zlen cs = N -> (forall e, In e l -> 0 <= fst e < N) -> NoDup (map fst l) ->
  exists cs', foldR t_step l cs = ROk cs' /\ zlen cs' = N /\
    (forall e, In e l -> nth (Z.to_nat (sigma (fst e))) cs' (Own 0) = Par (fst e)) /\
    (forall q, 0 <= q -> (forall e, In e l -> sigma (fst e) <> q) -> nth (Z.to_nat q) cs' (Own 0) = nth (Z.to_nat q) cs (Own 0)).
Proof.
  induction l as [|e l IH]; intros cs Lc Hin ND.
  - exists cs. split; [reflexivity|]. split; [exact Lc|]. split; [intros e []|]. intros; reflexivity.
  - cbn [foldR]. rewrite (t_step_ok cs e Lc (Hin e (or_introl eq_refl))). cbn [bind].
    set (cs1 := upd (Z.to_nat (sigma (fst e))) (Par (fst e)) cs).
    assert (L1 : zlen cs1 = N) by (unfold cs1, zlen in *; rewrite upd_length; exact Lc).
    inversion ND as [|x xs Nx ND']; subst.
    destruct (IH cs1 L1 (fun e' He' => Hin e' (or_intror He')) ND') as (cs' & E & L' & Hit & Frame).
    exists cs'. split; [exact E|]. split; [exact L'|]. split.
    + intros e' [Eq|I]; [|apply Hit; exact I]. subst e'.
      pose proof (Hin e (or_introl eq_refl)) as He. destruct (sigma_bound _ He) as (Sb & _).
      rewrite Frame.
      * unfold cs1. apply nth_upd_same. unfold zlen in Lc. lia.
      * lia.
      * intros e' I Es. apply Nx. apply sigma_inj in Es; [|apply Hin; right; exact I|exact He].
        rewrite <- Es. apply in_map. exact I.
    + intros q Hq Hne. rewrite Frame by (try exact Hq; intros e' I; apply Hne; right; exact I).
      unfold cs1. apply nth_upd_other. intros Eq. apply (Hne e (or_introl eq_refl)).
      pose proof (Hin e (or_introl eq_refl)) as He. destruct (sigma_bound _ He) as (Sb & _). lia.
Qed.

(* T() of the whole matrix: exchanged dimensions, and element (i,j) of the result is element (j,i) *)
Theorem sparse_T_whole : exists v, sT real P v0 = ROk v /\
  sk_dims real (sv_hdr v) = (cols, rows) /\
  forall i j, 0 <= i < cols -> 0 <= j < rows -> sAT real P v i j = sAT real P v0 j i.
Proof.
  unfold sT. cbn [sv_hdr sv_cells v0]. rewrite entries_ident. cbn [bind].
  set (cs0 := map (fun _ : cell => Own 0) (ident_cells N)).
  assert (L0 : zlen cs0 = N) by (unfold cs0, zlen; rewrite map_length; apply ident_len).
  destruct (t_fold es cs0 L0 (fun e He => proj1 (proj1 (es_in (fst e) (snd e)) ltac:(destruct e; exact He))) es_nodup)
    as (cs' & E & L' & Hit & Frame).
  change (foldR _ es cs0) with (foldR t_step es cs0). rewrite E. cbn [bind].
  eexists. split; [reflexivity|]. cbn [sv_hdr]. split; [destruct real; reflexivity|].
  intros i j Hi Hj.
  unfold sAT, sidx. cbn [sv_hdr sv_cells v0].
  replace (sk_index real (mkSparse tt (s_cols h) (s_rows h) (s_colOffset h) (s_colMax h) (s_rowOffset h) (s_rowMax h)) i j)
    with (SparseP.index h' i j) by (destruct real; reflexivity).
  replace (sk_index real h j i) with (SparseP.index h j i) by (destruct real; reflexivity).
  rewrite (s_index_some h') by (unfold s_in_range, h'; simpl; lia).
  rewrite (s_index_some h) by (unfold s_in_range, h, snew; simpl; lia).
  unfold h', h, snew. cbn [s_rowOffset s_colOffset s_colMax of_opt bind].
  set (q := (0 + i) * rows + (0 + j)). set (k := (0 + j) * cols + (0 + i)).
  assert (Hk : 0 <= k < N) by (unfold k, N; nia).
  assert (Hq : 0 <= q < N) by (unfold q, N; nia).
  assert (Sk : sigma k = q).
  { unfold sigma, k, q. replace ((0 + j) * cols + (0 + i)) with (i + j * cols) by ring.
    rewrite Z.mod_add, Z.div_add by lia. rewrite Z.mod_small, Z.div_small by lia. ring. }
  rewrite (cget_ident k Hk).
  unfold cget. rewrite L'.
  replace (q <? 0) with false by (symmetry; apply Z.ltb_ge; lia).
  replace (q >=? N) with false by (symmetry; rewrite Z.geb_leb; apply Z.leb_gt; lia).
  simpl orb. cbv iota.
  destruct (Z.eq_dec (nth (Z.to_nat k) P 0) 0) as [Z0|NZ].
  - (* no entry at (j,i): the position keeps its own zero cell *)
    rewrite Frame.
    + unfold cs0. rewrite nth_map_own0. rewrite Z0. reflexivity.
    + lia.
    + intros [k1 v1] I Es. cbn [fst] in Es. apply es_in in I. destruct I as (B1 & E1 & N1).
      rewrite <- Sk in Es. apply sigma_inj in Es; [|exact B1|exact Hk]. subst k1. congruence.
  - (* the entry's cell was moved here: shared with the receiver *)
    assert (I : In (k, nth (Z.to_nat k) P 0) es) by (apply es_in; repeat split; try lia; exact NZ).
    pose proof (Hit _ I) as Hn. cbn [fst] in Hn. rewrite Sk in Hn. rewrite Hn.
    apply get_ok. fold N in HP. lia.
Qed.
End SparseT.
