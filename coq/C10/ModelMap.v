(* C10 (round 6) — the remaining public operations of the dense matrices that take a view as receiver or
   operand and reach the storage cell by cell (matrix_dense_template.in / matrix_dense_real_template.in and
   their *_math.go at HEAD), on the storage-list model of Model.v:

     Map(f) / MapSet(f) / Reduce(f, r)   the ScalarContainer callbacks.  A callback is a Gallina function with
                                          its own closure state: it sees the element it is handed and its state,
                                          nothing else (it does not re-enter the matrix);
     the writing iterator                for it := m.Iterator(); it.Ok(); it.Next() { f(it.Get()) };
     MaddS / MsubS / MmulS / MdivS       matrix (op) scalar, receiver = operand or not;
     Outer(a, b), Equals(b, eps), ConstDiag(), the typed element readers (Int16At ... Float64At, ConstAt, At).

   Operation order as coded (receiver cell first, then the operands).  No proofs in this file. *)
From Coq Require Import ZArith List Bool.
From ADV Require Import C10.Gen C10.GenAcc C10.Model.
Import ListNotations.
Open Scope Z_scope.

Section DenseX.
Variable real : bool.

(* ---------------------------------------------------------------- callbacks with closure state *)
Section Callback.
Variable St : Type.
Variable f : St -> Z -> St * Z.        (* closure state, element value |-> new state, new element value *)

(* Map:   for i { for j { f(matrix.At(i, j)) } } : the callback mutates the cell it is handed *)
Definition map_step (m : mat) (st : St * heap) (p : Z * Z) : R (St * heap) :=
  v <- mAT real (snd st) m (fst p) (snd p) ;;
  H' <- mSET real (snd st) m (fst p) (snd p) (snd (f (fst st) v)) ;;
  ROk (fst (f (fst st) v), H').
Definition mMap (s : St) (H : heap) (m : mat) : R (St * heap) := foldR (map_step m) (mpos real m) (s, H).

(* MapSet:  matrix.At(i,j).Set(f(matrix.ConstAt(i, j))) : receiver cell, argument, assignment *)
Definition mapset_step (m : mat) (st : St * heap) (p : Z * Z) : R (St * heap) :=
  _ <- idx real m (fst p) (snd p) ;;
  v <- mAT real (snd st) m (fst p) (snd p) ;;
  H' <- mSET real (snd st) m (fst p) (snd p) (snd (f (fst st) v)) ;;
  ROk (fst (f (fst st) v), H').
Definition mMapSet (s : St) (H : heap) (m : mat) : R (St * heap) := foldR (mapset_step m) (mpos real m) (s, H).

(* the writing iterator: Iterator() skips to the first non-zero element; each round hands the current cell to the
   callback and then Next() moves on over the CURRENT storage (it never re-reads the cell it leaves) *)
Fixpoint it_map (fuel : nat) (st : St * heap) (it : DenseIter nat) : R (St * heap) :=
  match fuel with
  | O => RFuel
  | S n =>
      if k_ok real it then
        v <- it_get real (snd st) it ;;
        H' <- mSET real (snd st) (di_m it) (di_i it) (di_j it) (snd (f (fst st) v)) ;;
        it' <- it_Next real (S n) H' it ;;
        it_map n (fst (f (fst st) v), H') it'
      else ROk st
  end.
Definition mIterMap (s : St) (H : heap) (m : mat) : R (St * heap) :=
  it <- it_from real (iter_fuel m) H m 0 0 ;; it_map (iter_fuel m) (s, H) it.
End Callback.

(* Reduce:  r = f(r, matrix.ConstAt(i, j)) in row-major order *)
Definition mReduce (A : Type) (f : A -> Z -> A) (r : A) (H : heap) (m : mat) : R A :=
  foldR (fun r p => v <- mAT real H m (fst p) (snd p) ;; ROk (f r v)) (mpos real m) r.

(* ---------------------------------------------------------------- matrix (op) scalar *)
(* r.MaddS(a, c) / MsubS / MmulS / MdivS :  r.AT(i,j).ADD(a.AT(i,j), c); the quotient as the harness observes it
   (truncated towards zero: the integer types divide that way, the float types are read back through int64()) *)
Definition ews_fun (f : Z) : Z -> Z -> Z :=
  if f =? 0 then Z.add else if f =? 1 then Z.sub else if f =? 2 then Z.mul else Z.quot.
Definition mEwS (f : Z) (H : heap) (r a : mat) (c : Z) : R heap :=
  if negb (dims_eq real r a) then RPanic else
  foldR (fun H p => _ <- idx real r (fst p) (snd p) ;; x <- mAT real H a (fst p) (snd p) ;;
                    mSET real H r (fst p) (snd p) (ews_fun f x c)) (mpos real r) H.

(* r.Outer(a, b) with a, b dense vectors given by their elements *)
Definition mOuter (H : heap) (r : mat) (a b : list Z) : R heap :=
  let '(n, m) := k_dims real r in
  if negb ((zlen a =? n) && (zlen b =? m)) then RPanic else
  foldR (fun H p => _ <- idx real r (fst p) (snd p) ;; x <- get a (fst p) ;; y <- get b (snd p) ;;
                    mSET real H r (fst p) (snd p) (x * y)) (mpos real r) H.

(* a.Equals(b, eps): panics on different shapes, returns at the first differing position *)
Definition mEquals (H : heap) (a b : mat) : R bool :=
  if negb (dims_eq real a b) then RPanic else
  foldR (fun acc p => if negb acc then ROk false else
                      x <- mAT real H a (fst p) (snd p) ;; y <- mAT real H b (fst p) (snd p) ;; ROk (x =? y))
        (mpos real a) true.

(* ConstDiag() = DIAG(); whether the result shares the element cells is what the table regenerated from the
   source (GenAcc.v, accessor 8) says *)
Definition mConstDiag (H : heap) (m : mat) : R (list Z * bool) :=
  l <- mDIAG real H m ;;
  ROk (l, acc_aliases (if real then AccDenseR.ConstDiag (d_transposed m) else AccDenseP.ConstDiag (d_transposed m))).

End DenseX.

(* ---------------------------------------------------------------- the callbacks of the replay *)
(* a two-parameter family of order-sensitive callbacks: the closure state is a running value (residues mod 997
   stay exact in every element type); the new element depends on the old one and on the state *)
Definition cb_affine (p0 p1 p2 : Z) (s v : Z) : Z * Z :=
  let s' := (p0 * s + v + p1) mod 997 in (s', p2 * v + s').
Definition red_affine (p0 p1 : Z) (r v : Z) : Z := (p0 * r + v + p1) mod 997.

(* ---------------------------------------------------------------- one such operation on a view *)
Inductive xop :=
| XMap (p0 p1 p2 s0 : Z) | XMapSet (p0 p1 p2 s0 : Z) | XIterMap (p0 p1 p2 s0 : Z) | XReduce (p0 p1 r0 : Z)
| XEwS (f mode c : Z) (b : list Z) | XOuter (a b : list Z) | XEquals (mode : Z) (b : list Z)
| XTypedAt | XConstDiag.

(* location 0: storage of the base matrix; location 1: storage of the fresh operand *)
Definition run_xop (real : bool) (H : heap) (m : mat) (o : xop) : R obs :=
  let fin := finish real in
  let '(n, k) := k_dims real m in
  match o with
  | XMap p0 p1 p2 s0 => r <- mMap real Z (cb_affine p0 p1 p2) s0 H m ;; fin [fst r] (snd r) m
  | XMapSet p0 p1 p2 s0 => r <- mMapSet real Z (cb_affine p0 p1 p2) s0 H m ;; fin [fst r] (snd r) m
  | XIterMap p0 p1 p2 s0 => r <- mIterMap real Z (cb_affine p0 p1 p2) s0 H m ;; fin [fst r] (snd r) m
  | XReduce p0 p1 r0 => r <- mReduce real Z (red_affine p0 p1) r0 H m ;; fin [r] H m
  | XEwS f mode c b =>
      let '(H1, l) := alloc H b in
      let fr := new_mat l n k in
      if mode =? 0 then H' <- mEwS real f H1 m m c ;; fin [] H' m
      else if mode =? 1 then H' <- mEwS real f H1 fr m c ;; fin (store_of H' l) H' m
      else H' <- mEwS real f H1 m fr c ;; fin [] H' m
  | XOuter a b => H' <- mOuter real H m a b ;; fin [] H' m
  | XEquals mode b =>
      let '(H1, l) := alloc H b in
      let fr := new_mat l n k in
      e <- (if mode =? 0 then mEquals real H1 m fr else mEquals real H1 fr m) ;; fin [b2z e] H1 m
  | XTypedAt => l <- read_all real H m ;; fin l H m
  | XConstDiag =>
      '(l, al) <- mConstDiag real H m ;;
      (match l with
       | [] => fin [0] H m
       | _ :: _ => H' <- mSET real H m 0 0 777 ;; fin (l ++ [b2z al]) H' m
       end)
  end.

Definition run_xcase (real : bool) (rows cols : Z) (vals : list Z) (views : list vc) (o : xop) : list Z * R obs :=
  let m := apply_views real (new_mat 0 rows cols) views in
  (hdr_list m, run_xop real [vals] m o).
