(* C10 — in-place PERMUTING writes on views: Swap, SwapRows, SwapColumns, PermuteRows / PermuteColumns /
   SymmetricPermutation (interchange-sequence semantics, as coded), MdotM with the VIEW as receiver
   (both schedules).  Each of them reaches the storage only through index(): applied to ANY well-formed
   view they change exactly cells the view denotes, and leave the view with the elements the same
   operation gives an independent deep copy.

   Method: a simulation.  [sim H H'] relates the heap holding the view [m] to the heap holding the
   deep copy [c] (same elements, everything else equal); every primitive step (mSET, mSwap) preserves it
   and preserves the frame of its own heap, and the loops of the model are folds of such steps. *)
From Coq Require Import ZArith List Bool Lia.
From ADV Require Import C10.Gen C10.Model C10.Spec C10.ProofsIndex C10.ProofsViews C10.ProofsIter
                        C10.ProofsIterSkip C10.ProofsOps C10.ProofsTipGen C10.ProofsOpsView.
Import ListNotations.
Open Scope Z_scope.

(* ---------------------------------------------------------------- results related pointwise *)
Definition relR {X Y} (P : X -> Y -> Prop) (r : R X) (r' : R Y) : Prop :=
  match r, r' with
  | ROk a, ROk b => P a b
  | RPanic, RPanic => True
  | RFuel, RFuel => True
  | _, _ => False
  end.
Lemma relR_bind : forall X Y X2 Y2 (P : X -> Y -> Prop) (Q : X2 -> Y2 -> Prop) r r' f g,
  relR P r r' -> (forall a b, P a b -> relR Q (f a) (g b)) -> relR Q (bind r f) (bind r' g).
Proof. intros X Y X2 Y2 P Q [a| |] [b| |] f g HR HF; simpl in *; try contradiction; auto. Qed.
Lemma relR_weaken : forall X Y (P Q : X -> Y -> Prop) r r', (forall a b, P a b -> Q a b) -> relR P r r' -> relR Q r r'.
Proof. intros X Y P Q [a| |] [b| |] HI HR; simpl in *; auto. Qed.

(* ---------------------------------------------------------------- the frame of one heap *)
(* everything the receiver [x] does not denote is as in [H0] *)
Definition frame (x : mat) (H0 H : heap) : Prop :=
  length H = length H0 /\
  (forall l, l <> d_values x -> store_of H l = store_of H0 l) /\
  zlen (store_of H (d_values x)) = zlen (store_of H0 (d_values x)) /\
  (forall k, 0 <= k -> (forall i j, in_range x i j -> DenseP.index x i j <> Some k) ->
     nth (Z.to_nat k) (store_of H (d_values x)) 0 = nth (Z.to_nat k) (store_of H0 (d_values x)) 0).
Lemma frame_refl : forall x H, frame x H H.
Proof. intros x H. repeat split; reflexivity. Qed.
Lemma frame_trans : forall x H0 H1 H2, frame x H0 H1 -> frame x H1 H2 -> frame x H0 H2.
Proof.
  intros x H0 H1 H2 (A1 & A2 & A3 & A4) (B1 & B2 & B3 & B4). split; [lia|]. split; [|split; [lia|]].
  - intros l Hl. rewrite (B2 l Hl). apply A2; exact Hl.
  - intros k Hk NA. rewrite (B4 k Hk NA). apply A4; assumption.
Qed.

Lemma upd_upd : forall X (l : list X) n v w, upd n w (upd n v l) = upd n w l.
Proof. intros X l; induction l as [|x l IH]; intros [|n] v w; simpl; try reflexivity. rewrite IH. reflexivity. Qed.
Lemma set_store_twice : forall (H : heap) l s1 s2, set_store (set_store H l s1) l s2 = set_store H l s2.
Proof. intros H l s1 s2. unfold set_store. apply upd_upd. Qed.

Lemma in_range_dec : forall (x : mat) i j, {in_range x i j} + {~ in_range x i j}.
Proof.
  intros x i j. unfold in_range.
  destruct (Z_le_dec 0 i); [|right; lia]. destruct (Z_lt_dec i (d_rows x)); [|right; lia].
  destruct (Z_le_dec 0 j); [|right; lia]. destruct (Z_lt_dec j (d_cols x)); [|right; lia]. left; lia.
Qed.
Lemma mSET_out_of_range : forall real H (x : mat) i j v, ~ in_range x i j -> mSET real H x i j v = RPanic.
Proof.
  intros real H x i j v N. unfold mSET, idx. rewrite k_index_P.
  destruct (index_guard x i j) as [_ G]. rewrite G; [reflexivity|]. unfold in_range in N. lia.
Qed.

(* one write through the receiver keeps the frame *)
Lemma mSET_frame : forall real H0 H (x : mat) i j v H1, wf_in H x -> frame x H0 H ->
  mSET real H x i j v = ROk H1 -> wf_in H1 x /\ frame x H0 H1.
Proof.
  intros real H0 H x i j v H1 W F E.
  destruct (in_range_dec x i j) as [Rg|N]; [|rewrite mSET_out_of_range in E by exact N; discriminate].
  destruct (mSET_ok real H x i j v W Rg) as (H1' & k & E1 & Ek & Bk & S1 & O1 & W1).
  rewrite E in E1. inversion E1; subst H1'. split; [exact W1|].
  apply (frame_trans x H0 H H1 F). split; [|split; [exact O1|split]].
  - destruct (mSET_spec real H x i j v H1 W E) as (_ & _ & _ & _ & L & _). exact L.
  - rewrite S1. unfold zlen. rewrite upd_length. reflexivity.
  - intros k' Hk' NA. rewrite S1. apply nth_upd_other. intros Ekk. apply (NA i j Rg). rewrite Ek. f_equal.
    apply Z2Nat.inj; lia.
Qed.

(* Swap as coded (two index computations, one parallel assignment) is two reads followed by two writes *)
Lemma mSwap_as_sets : forall real H (x : mat) i1 j1 i2 j2, wf_in H x ->
  mSwap real H x i1 j1 i2 j2 =
  (v1 <- mAT real H x i1 j1 ;; v2 <- mAT real H x i2 j2 ;;
   H1 <- mSET real H x i1 j1 v2 ;; mSET real H1 x i2 j2 v1).
Proof.
  intros real H x i1 j1 i2 j2 W.
  destruct (in_range_dec x i1 j1) as [R1|N1].
  2:{ rewrite (mAT_out_of_range real H x i1 j1 N1). unfold mSwap, idx. rewrite k_index_P.
      destruct (index_guard x i1 j1) as [_ G]. rewrite G; [reflexivity|]. unfold in_range in N1. lia. }
  destruct (in_range_dec x i2 j2) as [R2|N2].
  2:{ destruct (mAT_in_range real H x i1 j1 W R1) as (k1 & E1 & B1 & A1). rewrite A1. cbn [bind].
      rewrite (mAT_out_of_range real H x i2 j2 N2). unfold mSwap, idx. rewrite !k_index_P, E1.
      destruct (index_guard x i2 j2) as [_ G]. rewrite G; [reflexivity|]. unfold in_range in N2. lia. }
  destruct (mAT_in_range real H x i1 j1 W R1) as (k1 & E1 & B1 & A1).
  destruct (mAT_in_range real H x i2 j2 W R2) as (k2 & E2 & B2 & A2).
  rewrite A1, A2. cbn [bind].
  unfold mSwap, mSET, idx. rewrite !k_index_P, E1, E2. cbn [of_opt bind].
  rewrite !get_ok by assumption. cbn [bind].
  rewrite put_ok by exact B1. cbn [bind]. rewrite store_set_same by (destruct W; assumption).
  destruct (put (upd (Z.to_nat k1) _ (store_of H (d_values x))) k2 _) as [s2| |]; cbn [bind]; try reflexivity.
  rewrite set_store_twice. reflexivity.
Qed.

Lemma mSwap_frame : forall real H0 H (x : mat) i1 j1 i2 j2 H1, wf_in H x -> frame x H0 H ->
  mSwap real H x i1 j1 i2 j2 = ROk H1 -> wf_in H1 x /\ frame x H0 H1.
Proof.
  intros real H0 H x i1 j1 i2 j2 H1 W F E. rewrite (mSwap_as_sets real H x i1 j1 i2 j2 W) in E.
  destruct (mAT real H x i1 j1) as [v1| |]; cbn [bind] in E; try discriminate.
  destruct (mAT real H x i2 j2) as [v2| |]; cbn [bind] in E; try discriminate.
  destruct (mSET real H x i1 j1 v2) as [Ha| |] eqn:Ea; cbn [bind] in E; try discriminate.
  destruct (mSET_frame real H0 H x i1 j1 v2 Ha W F Ea) as [Wa Fa].
  exact (mSET_frame real H0 Ha x i2 j2 v1 H1 Wa Fa E).
Qed.

(* ---------------------------------------------------------------- the simulation *)
Section Sim.
Variable real : bool.
Variables (m c : mat).            (* the view and its independent deep copy *)
Hypothesis Hloc : d_values c <> d_values m.
Variables (H0 H0' : heap).        (* the two heaps before the operation *)

Definition sim (H H' : heap) : Prop :=
  wf_in H m /\ wf_in H' c /\ same_elems real H m H' c /\
  (forall l, l <> d_values m -> l <> d_values c -> store_of H l = store_of H' l).
Definition st (H H' : heap) : Prop := sim H H' /\ frame m H0 H /\ frame c H0' H'.

(* operands: the receiver itself (view / copy), or a third matrix living elsewhere *)
Definition corr (a a' : mat) : Prop :=
  (a = m /\ a' = c) \/ (a = a' /\ d_values a <> d_values m /\ d_values a <> d_values c).
Lemma corr_AT : forall H H' a a' i j, sim H H' -> corr a a' -> mAT real H a i j = mAT real H' a' i j.
Proof.
  intros H H' a a' i j (_ & _ & (_ & _ & EA) & Oth) [[-> ->]|(<- & N1 & N2)]; [apply EA|].
  unfold mAT. rewrite (Oth _ N1 N2). reflexivity.
Qed.
Lemma corr_dims : forall H H' a a', sim H H' -> corr a a' -> d_rows a = d_rows a' /\ d_cols a = d_cols a'.
Proof. intros H H' a a' (_ & _ & (Er & Ec & _) & _) [[-> ->]|(<- & _)]; split; auto. Qed.
Lemma sim_in_range : forall H H' i j, sim H H' -> (in_range m i j <-> in_range c i j).
Proof. intros H H' i j (_ & _ & (Er & Ec & _) & _). unfold in_range. rewrite Er, Ec. tauto. Qed.

Lemma mSET_sim : forall H H' i j v, st H H' -> relR st (mSET real H m i j v) (mSET real H' c i j v).
Proof.
  intros H H' i j v (S & F & F'). pose proof S as (W & W' & (Er & Ec & EA) & Oth).
  destruct (in_range_dec m i j) as [Rg|N].
  2:{ rewrite (mSET_out_of_range real H m i j v N).
      rewrite (mSET_out_of_range real H' c i j v) by (rewrite <- (sim_in_range H H' i j S); exact N). exact I. }
  assert (Rg' : in_range c i j) by (apply (sim_in_range H H' i j S); exact Rg).
  destruct (mSET_ok real H m i j v W Rg) as (H1 & k & E1 & Ek & Bk & S1 & O1 & W1).
  destruct (mSET_ok real H' c i j v W' Rg') as (H1' & k' & E1' & Ek' & Bk' & S1' & O1' & W1').
  rewrite E1, E1'. simpl.
  destruct (mSET_spec real H m i j v H1 W E1) as (_ & Rd & Ot & _).
  destruct (mSET_spec real H' c i j v H1' W' E1') as (_ & Rd' & Ot' & _).
  split; [|split; [exact (proj2 (mSET_frame real H0 H m i j v H1 W F E1)) | exact (proj2 (mSET_frame real H0' H' c i j v H1' W' F' E1'))]].
  split; [exact W1|]. split; [exact W1'|]. split.
  - split; [exact Er|]. split; [exact Ec|]. intros i' j'.
    destruct (Z.eq_dec i' i) as [->|Ni]; [destruct (Z.eq_dec j' j) as [->|Nj]|].
    + rewrite Rd, Rd'. reflexivity.
    + rewrite Ot, Ot' by (intros Q; inversion Q; lia). apply EA.
    + rewrite Ot, Ot' by (intros Q; inversion Q; lia). apply EA.
  - intros l N1 N2. rewrite (O1 l N1), (O1' l N2). apply Oth; assumption.
Qed.

Lemma mSwap_sim : forall H H' i1 j1 i2 j2, st H H' ->
  relR st (mSwap real H m i1 j1 i2 j2) (mSwap real H' c i1 j1 i2 j2).
Proof.
  intros H H' i1 j1 i2 j2 S. pose proof S as ((W & W' & (_ & _ & EA) & _) & _).
  rewrite (mSwap_as_sets real H m i1 j1 i2 j2 W), (mSwap_as_sets real H' c i1 j1 i2 j2 W'), !EA.
  destruct (mAT real H' c i1 j1) as [v1| |]; cbn [bind]; try exact I.
  destruct (mAT real H' c i2 j2) as [v2| |]; cbn [bind]; try exact I.
  apply (relR_bind _ _ _ _ st st); [apply mSET_sim; exact S|]. intros Ha Hb Sa. apply mSET_sim; exact Sa.
Qed.

Lemma foldR_sim : forall X (f g : heap -> X -> R heap) l,
  (forall H H' x, st H H' -> relR st (f H x) (g H' x)) ->
  forall H H', st H H' -> relR st (foldR f l H) (foldR g l H').
Proof.
  intros X f g l Step. induction l as [|x l IH]; intros H H' S; [exact S|]. cbn [foldR].
  apply (relR_bind _ _ _ _ st st); [apply Step; exact S|]. exact IH.
Qed.

(* result pairs (heap, error flag) *)
Definition stE (r r' : heap * bool) : Prop := st (fst r) (fst r') /\ snd r = snd r'.

Lemma st_dims : forall H H', st H H' -> k_dims real m = k_dims real c.
Proof. intros H H' ((_ & _ & (Er & Ec & _) & _) & _). rewrite !k_dims_P, Er, Ec. reflexivity. Qed.

Lemma mSwapRows_sim : forall H H' i j, st H H' -> relR stE (mSwapRows real H m i j) (mSwapRows real H' c i j).
Proof.
  intros H H' i j S. unfold mSwapRows. rewrite <- (st_dims H H' S). destruct (k_dims real m) as [n k].
  destruct (negb (n =? k)); [split; [exact S|reflexivity]|].
  apply (relR_bind _ _ _ _ st stE).
  - apply foldR_sim; [|exact S]. intros Ha Hb x Sa. apply mSwap_sim; exact Sa.
  - intros Ha Hb Sa. split; [exact Sa|reflexivity].
Qed.
Lemma mSwapCols_sim : forall H H' i j, st H H' -> relR stE (mSwapCols real H m i j) (mSwapCols real H' c i j).
Proof.
  intros H H' i j S. unfold mSwapCols. rewrite <- (st_dims H H' S). destruct (k_dims real m) as [n k].
  destruct (negb (n =? k)); [split; [exact S|reflexivity]|].
  apply (relR_bind _ _ _ _ st stE).
  - apply foldR_sim; [|exact S]. intros Ha Hb x Sa. apply mSwap_sim; exact Sa.
  - intros Ha Hb Sa. split; [exact Sa|reflexivity].
Qed.

Lemma perm_loop_sim : forall (f g : heap -> Z -> Z -> R heap) strict n is pi,
  (forall H H' i p, st H H' -> relR st (f H i p) (g H' i p)) ->
  forall H H', st H H' -> relR stE (perm_loop f strict n is pi H) (perm_loop g strict n is pi H').
Proof.
  intros f g strict n is pi Step. induction is as [|i is IH]; intros H H' S; [split; [exact S|reflexivity]|].
  cbn [perm_loop]. destruct (get pi i) as [p| |]; cbn [bind]; try exact I.
  destruct ((p <? 0) || (p >? n)); [split; [exact S|reflexivity]|].
  destruct (p >? i); [|apply IH; exact S].
  apply (relR_bind _ _ _ _ st stE); [apply Step; exact S|]. exact IH.
Qed.

Lemma rows_step_sim : forall H H' i p, st H H' ->
  relR st ('(H1, _) <- mSwapRows real H m i p ;; ROk H1) ('(H1, _) <- mSwapRows real H' c i p ;; ROk H1).
Proof.
  intros H H' i p S. apply (relR_bind _ _ _ _ stE st); [apply mSwapRows_sim; exact S|].
  intros [Ha ea] [Hb eb] [Sa _]. exact Sa.
Qed.
Lemma cols_step_sim : forall H H' i p, st H H' ->
  relR st ('(H1, _) <- mSwapCols real H m i p ;; ROk H1) ('(H1, _) <- mSwapCols real H' c i p ;; ROk H1).
Proof.
  intros H H' i p S. apply (relR_bind _ _ _ _ stE st); [apply mSwapCols_sim; exact S|].
  intros [Ha ea] [Hb eb] [Sa _]. exact Sa.
Qed.

Lemma mPermute_sim : forall which H H' pi, st H H' ->
  relR stE (mPermute real which H m pi) (mPermute real which H' c pi).
Proof.
  intros which H H' pi S. unfold mPermute. rewrite <- (st_dims H H' S). destruct (k_dims real m) as [n k].
  destruct (negb (n =? k)); [split; [exact S|reflexivity]|].
  destruct (which =? 0); [apply perm_loop_sim; [apply rows_step_sim|exact S]|].
  destruct (which =? 1); [apply perm_loop_sim; [apply cols_step_sim|exact S]|].
  apply perm_loop_sim; [|exact S]. intros Ha Hb i p Sa.
  apply (relR_bind _ _ _ _ st st); [apply rows_step_sim; exact Sa|]. intros Hc Hd Sc. apply cols_step_sim; exact Sc.
Qed.

(* ---- MdotM with the view as receiver ---- *)
Lemma dot_sim : forall H H' a a' b b' i j m1, sim H H' -> corr a a' -> corr b b' ->
  dot real H a b i j m1 = dot real H' a' b' i j m1.
Proof.
  intros H H' a a' b b' i j m1 S Ca Cb. unfold dot. apply foldR_ext. intros acc k.
  rewrite (corr_AT H H' a a' i k S Ca), (corr_AT H H' b b' k j S Cb). reflexivity.
Qed.
Lemma storage_location_recv : forall H H', sim H H' -> 0 < d_rows m -> 0 < d_cols m ->
  storage_location H m = ROk (d_values m) /\ storage_location H' c = ROk (d_values c).
Proof.
  intros H H' ((_ & Wm) & (_ & Wc) & (Er & Ec & _) & _) Hr Hc. unfold storage_location.
  destruct Wm as (_ & _ & ? & ? & ? & ? & Lm). destruct Wc as (_ & _ & ? & ? & ? & ? & Lc).
  replace (zlen (store_of H (d_values m)) =? 0) with false by (symmetry; apply Z.eqb_neq; nia).
  replace (zlen (store_of H' (d_values c)) =? 0) with false by (symmetry; apply Z.eqb_neq; nia).
  split; reflexivity.
Qed.
Lemma storage_location_corr : forall H H' b b', sim H H' -> 0 < d_rows m -> 0 < d_cols m -> corr b b' ->
  relR (fun l l' => Nat.eqb (d_values m) l = Nat.eqb (d_values c) l') (storage_location H b) (storage_location H' b').
Proof.
  intros H H' b b' S Hr Hc [[-> ->]|(<- & N1 & N2)].
  - destruct (storage_location_recv H H' S Hr Hc) as [-> ->]. simpl. rewrite !Nat.eqb_refl. reflexivity.
  - destruct S as (_ & _ & _ & Oth). unfold storage_location. rewrite (Oth _ N1 N2).
    destruct (zlen (store_of H' (d_values b)) =? 0); simpl; [exact I|].
    rewrite (proj2 (Nat.eqb_neq _ _)) by auto. rewrite (proj2 (Nat.eqb_neq _ _)) by auto. reflexivity.
Qed.

Lemma mMdotM_sim : forall H H' a a' b b', st H H' -> 0 < d_rows m -> 0 < d_cols m -> corr a a' -> corr b b' ->
  relR st (mMdotM real H m a b) (mMdotM real H' c a' b').
Proof.
  intros H H' a a' b b' S Hr Hc Ca Cb. pose proof S as (Sm & _).
  unfold mMdotM. rewrite <- (st_dims H H' S).
  destruct (corr_dims H H' a a' Sm Ca) as [Ea1 Ea2]. destruct (corr_dims H H' b b' Sm Cb) as [Eb1 Eb2].
  rewrite !k_dims_P, <- Ea1, <- Ea2, <- Eb1, <- Eb2.
  destruct (negb ((d_rows a =? d_rows m) && (d_cols b =? d_cols m) && (d_cols a =? d_rows b))); [exact I|].
  destruct (storage_location_recv H H' Sm Hr Hc) as [-> ->]. cbn [bind].
  pose proof (storage_location_corr H H' b b' Sm Hr Hc Cb) as SL.
  destruct (storage_location H b) as [lb| |]; destruct (storage_location H' b') as [lb'| |]; simpl in SL; try contradiction; cbn [bind]; try exact I.
  rewrite <- SL. destruct (Nat.eqb (d_values m) lb).
  - apply foldR_sim; [|exact S]. intros Ha Hb j Sa. pose proof Sa as (Sa' & _).
    rewrite (mapR_ext _ _ (fun i => dot real Ha a b i j (d_cols a)) (fun i => dot real Hb a' b' i j (d_cols a)))
      by (intros i; apply dot_sim; assumption).
    destruct (mapR _ (zseq (d_rows m))) as [t3| |]; cbn [bind]; try exact I.
    apply foldR_sim; [|exact Sa]. intros Hc' Hd it Sc. apply mSET_sim; exact Sc.
  - apply foldR_sim; [|exact S]. intros Ha Hb i Sa. pose proof Sa as (Sa' & _).
    rewrite (mapR_ext _ _ (fun j => dot real Ha a b i j (d_cols a)) (fun j => dot real Hb a' b' i j (d_cols a)))
      by (intros j; apply dot_sim; assumption).
    destruct (mapR _ (zseq (d_cols m))) as [t3| |]; cbn [bind]; try exact I.
    apply foldR_sim; [|exact Sa]. intros Hc' Hd jt Sc. apply mSET_sim; exact Sc.
Qed.
End Sim.

(* ---------------------------------------------------------------- the operations and the theorem *)
Inductive perm_op :=
| PSwap (i1 j1 i2 j2 : Z) | PSwapRows (i j : Z) | PSwapCols (i j : Z)
| PPermute (which : Z) (pi : list Z)           (* 0 PermuteRows, 1 PermuteColumns, else SymmetricPermutation *)
| PMdotM_left (f : mat)                        (* view.MdotM(view, f): row-wise schedule *)
| PMdotM_right (f : mat)                       (* view.MdotM(f, view): column-wise schedule (storageLocation test) *)
| PMdotM_other (a b : mat).                    (* view.MdotM(a, b), both operands elsewhere *)
Definition run_perm (real : bool) (H : heap) (x : mat) (o : perm_op) : R (heap * bool) :=
  match o with
  | PSwap i1 j1 i2 j2 => H1 <- mSwap real H x i1 j1 i2 j2 ;; ROk (H1, false)
  | PSwapRows i j => mSwapRows real H x i j
  | PSwapCols i j => mSwapCols real H x i j
  | PPermute w pi => mPermute real w H x pi
  | PMdotM_left f => H1 <- mMdotM real H x x f ;; ROk (H1, false)
  | PMdotM_right f => H1 <- mMdotM real H x f x ;; ROk (H1, false)
  | PMdotM_other a b => H1 <- mMdotM real H x a b ;; ROk (H1, false)
  end.
(* operands of the product live in other storages of the heap; the receiver of a product is not empty
   (storageLocation takes &values[0]: on an empty deep copy it panics where the view over a non-empty
   parent does not -- C20's business) *)
Definition elsewhere (H : heap) (m f : mat) : Prop := (d_values f < length H)%nat /\ d_values f <> d_values m.
Definition perm_op_ok (H : heap) (m : mat) (o : perm_op) : Prop :=
  match o with
  | PMdotM_left f | PMdotM_right f => 0 < d_rows m /\ 0 < d_cols m /\ elsewhere H m f
  | PMdotM_other a b => 0 < d_rows m /\ 0 < d_cols m /\ elsewhere H m a /\ elsewhere H m b
  | _ => True
  end.

Lemma deep_copy_shape : forall real H m H' c, deep_copy real H m = ROk (H', c) -> exists s, H' = H ++ [s].
Proof.
  intros real H m H' c E. unfold deep_copy in E. destruct (read_all real H m) as [l| |]; cbn [bind] in E; try discriminate.
  unfold alloc in E. inversion E. exists l. reflexivity.
Qed.
Lemma mSET_length : forall real H x i j v H', mSET real H x i j v = ROk H' -> length H' = length H.
Proof.
  intros real H x i j v H' E. unfold mSET in E. destruct (idx real x i j) as [k| |]; cbn [bind] in E; try discriminate.
  destruct (put _ k v) as [s| |]; cbn [bind] in E; try discriminate. inversion E. unfold set_store. apply upd_length.
Qed.
Lemma fill_length : forall real g x ps H H', fill real g x ps H = ROk H' -> length H' = length H.
Proof.
  intros real g x ps. induction ps as [|p ps IH]; intros H H' E; [inversion E; reflexivity|].
  unfold fill in *. cbn [foldR] in E. destruct (mSET real H x (fst p) (snd p) _) as [H1| |] eqn:E1; cbn [bind] in E; try discriminate.
  rewrite (IH H1 H' E). exact (mSET_length _ _ _ _ _ _ _ E1).
Qed.

(* is storage cell k denoted by some position of the view? (decidable: the view is finite) *)
Definition addr_b (x : mat) (k : Z) : bool :=
  existsb (fun p => match DenseP.index x (fst p) (snd p) with Some k' => k' =? k | None => false end)
          (positions (d_rows x) (d_cols x)).
Lemma addr_b_true : forall x k, addr_b x k = true -> exists i j, in_range x i j /\ DenseP.index x i j = Some k.
Proof.
  intros x k E. apply existsb_exists in E. destruct E as ([i j] & I & E). apply in_positions in I. exists i, j.
  split; [exact I|]. simpl in E. destruct (DenseP.index x i j) as [k'|]; [|discriminate]. apply Z.eqb_eq in E. subst; reflexivity.
Qed.
Lemma addr_b_false : forall x k, addr_b x k = false -> forall i j, in_range x i j -> DenseP.index x i j <> Some k.
Proof.
  intros x k E i j Rg Ei. assert (T : addr_b x k = true); [|rewrite T in E; discriminate].
  apply existsb_exists. exists (i, j). split; [apply in_positions; exact Rg|]. simpl. rewrite Ei. apply Z.eqb_refl.
Qed.

Lemma heap_ext : forall H1 H2 : heap, length H1 = length H2 -> (forall l, store_of H1 l = store_of H2 l) -> H1 = H2.
Proof. intros H1 H2 L E. apply (nth_ext H1 H2 [] []); [exact L|]. intros n _. apply E. Qed.

(* what the theorem says about the two results *)
Definition perm_result (real : bool) (H : heap) (m : mat) (c : mat) (r r' : heap * bool) : Prop :=
  let H1 := fst r in let H1' := fst r' in
  snd r = snd r' /\                                                   (* same error outcome *)
  wf_in H1 m /\ wf_in H1' c /\
  (forall i j, mAT real H1 m i j = mAT real H1' c i j) /\              (* the view holds the copy's elements *)
  frame m H H1 /\                                                      (* nothing else was touched *)
  (* "then copy back": H1 IS the heap obtained by writing the copy's elements back through the view *)
  fill real (fun i j => elem real H1' c (i, j)) m (mpos real m) H = ROk H1.

Theorem perm_on_view_equals_perm_on_copy_then_copy_back : forall real H (m : mat), wf_in H m ->
  exists H' c, deep_copy real H m = ROk (H', c) /\ d_values c <> d_values m /\ whole c /\ wf_in H' c /\
    forall o, perm_op_ok H m o -> relR (perm_result real H m c) (run_perm real H m o) (run_perm real H' c o).
Proof.
  intros real H m W.
  destruct (deep_copy_spec real H m W) as (H' & c & E & Fr & Ne & Wh & Wc & Old & SE).
  exists H', c. split; [exact E|]. split; [exact Ne|]. split; [exact Wh|]. split; [exact Wc|].
  destruct (deep_copy_shape real H m H' c E) as (s0 & EH').
  assert (S0 : st real m c H H' H H').
  { split; [|split; apply frame_refl]. split; [exact W|]. split; [exact Wc|]. split; [exact SE|].
    intros l N1 N2. rewrite Fr in N2. destruct (Nat.lt_ge_cases l (length H)) as [Lt|Ge]; [symmetry; apply Old; exact Lt|].
    unfold store_of. rewrite !nth_overflow; [reflexivity| |lia]. rewrite EH', app_length. simpl. lia. }
  (* from the simulation state to the statement *)
  assert (Fin : forall r r', stE real m c H H' r r' -> perm_result real H m c r r').
  { intros [H1 e] [H1' e'] [((W1 & W1' & (Er & Ec & EA) & _) & F1 & _) Ee]. simpl in *.
    unfold perm_result. simpl. split; [exact Ee|]. split; [exact W1|]. split; [exact W1'|]. split; [exact EA|]. split; [exact F1|].
    set (g := fun i j => elem real H1' c (i, j)).
    assert (Hin : forall p, In p (mpos real m) -> in_range m (fst p) (snd p)).
    { intros [i j] I. unfold mpos in I. rewrite k_dims_P in I. apply in_positions in I. exact I. }
    destruct (fill_spec real g m (mpos real m) H W Hin) as (H2 & E2 & W2 & Vals & Frame2 & Oth2 & Len2).
    rewrite E2. f_equal. destruct F1 as (L1 & O1 & Z1 & N1).
    apply heap_ext; [rewrite (fill_length _ _ _ _ _ _ E2); lia|]. intros l.
    destruct (Nat.eq_dec l (d_values m)) as [->|Nl]; [|rewrite (O1 l Nl); apply Oth2; exact Nl].
    apply (nth_ext _ _ 0 0); [unfold zlen in *; lia|]. intros n Hn.
    set (k := Z.of_nat n). assert (Ek : n = Z.to_nat k) by (unfold k; lia). rewrite Ek.
    destruct (addr_b m k) eqn:Ab.
    - destruct (addr_b_true m k Ab) as (i & j & Rg & Ei).
      destruct (mAT_in_range real H2 m i j W2 Rg) as (k2 & Ei2 & _ & A2). rewrite Ei in Ei2. inversion Ei2; subst k2.
      destruct (mAT_in_range real H1 m i j W1 Rg) as (k1 & Ei1 & _ & A1). rewrite Ei in Ei1. inversion Ei1; subst k1.
      assert (V2 : mAT real H2 m i j = ROk (g i j)).
      { apply Vals. unfold mpos. rewrite k_dims_P. apply in_positions. exact Rg. }
      assert (Rc : in_range c i j) by (unfold in_range in *; rewrite <- Er, <- Ec; exact Rg).
      pose proof (mAT_elem real H1' c W1' i j Rc) as V1. rewrite <- EA, A1 in V1. rewrite A2 in V2.
      inversion V1 as [Q1]. inversion V2 as [Q2]. rewrite Q1, Q2. reflexivity.
    - pose proof (addr_b_false m k Ab) as NA. rewrite (N1 k ltac:(unfold k; lia) NA).
      apply Frame2; [unfold k; lia|]. intros ([i j] & I & Ei). apply (NA i j (Hin _ I) Ei). }
  assert (Fin1 : forall (r r' : R heap), relR (st real m c H H') r r' ->
            relR (perm_result real H m c) (H1 <- r ;; ROk (H1, false)) (H1 <- r' ;; ROk (H1, false))).
  { intros r r' Hr. apply (relR_bind _ _ _ _ (st real m c H H') _ r r'); [exact Hr|].
    intros a b Sab. apply Fin. split; [exact Sab|reflexivity]. }
  assert (El : forall f, elsewhere H m f -> corr m c f f).
  { intros f [Lf Nf]. right. split; [reflexivity|]. split; [exact Nf|]. rewrite Fr. lia. }
  intros [i1 j1 i2 j2|i j|i j|w pi|f|f|a b] Ok; simpl in Ok |- *.
  - apply Fin1. apply (mSwap_sim real m c Ne); exact S0.
  - eapply relR_weaken; [exact Fin|]. apply (mSwapRows_sim real m c Ne); exact S0.
  - eapply relR_weaken; [exact Fin|]. apply (mSwapCols_sim real m c Ne); exact S0.
  - eapply relR_weaken; [exact Fin|]. apply (mPermute_sim real m c Ne); exact S0.
  - destruct Ok as (Hr & Hc & Ef). apply Fin1. apply (mMdotM_sim real m c Ne H H'); try assumption; [left; split; reflexivity|apply El; exact Ef].
  - destruct Ok as (Hr & Hc & Ef). apply Fin1. apply (mMdotM_sim real m c Ne H H'); try assumption; [apply El; exact Ef|left; split; reflexivity].
  - destruct Ok as (Hr & Hc & Ea & Eb). apply Fin1. apply (mMdotM_sim real m c Ne H H'); try assumption; apply El; assumption.
Qed.

(* for every finite composition of Slice / ConstSlice / T over a base matrix: additionally, every element
   of the PARENT that the view does not denote keeps its value *)
Lemma frame_parent_untouched : forall real H H1 l (b : mat), wf_in H b -> guards l (d_rows b, d_cols b) ->
  frame (apply_views real b l) H H1 ->
  forall i' j', in_range b i' j' ->
    (forall i j, in_range (apply_views real b l) i j -> coord l (i, j) <> (i', j')) ->
    mAT real H1 b i' j' = mAT real H b i' j'.
Proof.
  intros real H H1 l b Wb G (L1 & O1 & Z1 & N1) i' j' Rb NC.
  rewrite apply_views_values in *.
  destruct (mAT_in_range real H b i' j' Wb Rb) as (k & Ek & Bk & A). rewrite A.
  unfold mAT, idx. rewrite k_index_P, Ek. cbn [of_opt bind]. rewrite get_ok by lia. f_equal.
  apply N1; [lia|]. intros i j Rg Ei.
  destruct (view_composition_P real l b 0 G) as (_ & _ & I). destruct (I i j Rg) as [Rp Ep].
  rewrite Ep in Ei. destruct Wb as [_ Wb].
  destruct (index_injective _ b _ _ i' j' k Wb Ei Ek) as [A1 A2]. apply (NC i j Rg).
  destruct (coord l (i, j)); simpl in *; subst; reflexivity.
Qed.

(* the statement for every finite composition of Slice / ConstSlice / T over a base matrix b *)
Theorem perm_on_composed_view : forall real H l (b : mat), wf_in H b -> guards l (d_rows b, d_cols b) ->
  let m := apply_views real b l in
  exists H' c, deep_copy real H m = ROk (H', c) /\ d_values c <> d_values b /\ whole c /\
    forall o, perm_op_ok H m o ->
      relR (fun r r' => perm_result real H m c r r' /\
              (* the parent outside the window keeps its elements *)
              forall i' j', in_range b i' j' -> (forall i j, in_range m i j -> coord l (i, j) <> (i', j')) ->
                mAT real (fst r) b i' j' = mAT real H b i' j')
           (run_perm real H m o) (run_perm real H' c o).
Proof.
  intros real H l b Wb G m. pose proof (wf_in_views real H l b Wb G) as Wm. fold m in Wm.
  destruct (perm_on_view_equals_perm_on_copy_then_copy_back real H m Wm) as (H' & c & E & Ne & Wh & Wc & All).
  exists H', c. split; [exact E|]. split; [unfold m in Ne; rewrite apply_views_values in Ne; exact Ne|]. split; [exact Wh|].
  intros o Ok. eapply relR_weaken; [|exact (All o Ok)]. intros r r' PR. split; [exact PR|].
  destruct PR as (_ & _ & _ & _ & F & _). exact (frame_parent_untouched real H (fst r) l b Wb G F).
Qed.

Example perm_on_view_nontrivial :
  let H := [[1; 2; 3; 4; 5; 6; 7; 8; 9; 10; 11; 12; 13; 14; 15; 16]; [1; 0; 2; 1]] in
  let m := apply_views false (new_mat 0 4 4) [VSlice 0 3 1 4; VT; VSlice 0 2 1 3] in
  wf_in H m /\ perm_op_ok H m (PMdotM_right (new_mat 1 2 2)) /\
  opt_of (r <- run_perm false H m (PPermute 0 [1; 0]) ;; ROk (store_of (fst r) 0))
    = Some [1; 2; 3; 4; 5; 7; 6; 8; 9; 11; 10; 12; 13; 14; 15; 16] /\
  opt_of (r <- run_perm false H m (PMdotM_right (new_mat 1 2 2)) ;; ROk (store_of (fst r) 0))
    = Some [1; 2; 3; 4; 5; 6; 19; 8; 9; 10; 31; 12; 13; 14; 15; 16].
Proof. vm_compute. repeat split; try discriminate; try lia; reflexivity. Qed.
