(* C10 (round 6) — the traversal of every cell-by-cell whole-matrix method of the dense matrices, for all nine
   instantiations.  GenLoop.v is derived from the Go source by go2coq_c10 (loops.go) on every run: a method is
   RowMajorCells iff its body is  `for i < rows { for j < cols { .. } }`  over the receiver's Dims() and reaches
   matrices only through At / AT / ConstAt / index / <T>At (i, j) -- i.e. through index(), the kernel of Gen.v the
   theorems are about -- and never through raw offsets into the backing array.  The lemmas below pin the table
   (a "fast path" walking `values` directly, a swapped loop nest, an access at (j, i), a private offset
   computation in ANY instantiation or upper-case twin breaks them or the translation) and state that the loops of
   the model (Model.v / ModelMap.v) have exactly that shape: folds over [positions rows cols]. *)
From Coq Require Import ZArith List Bool.
From ADV Require Import C10.Gen C10.GenLoop C10.Model C10.ModelMap C10.Spec C10.ProofsIndex.
Import ListNotations.
Open Scope Z_scope.

(* method 6 (IsSymmetric) walks the upper triangle, every other method the whole view in row-major order *)
Definition expected_kind (n : nat) : loop_kind := if Nat.eqb n 6 then UpperTriangleCells else RowMajorCells.

Lemma loop_table_complete : map fst LoopDenseP.table = seq 0 27 /\ map fst LoopDenseR.table = seq 0 27.
Proof. split; reflexivity. Qed.

Lemma cellwise_methods_walk_row_major_through_index : forall p,
  In p LoopDenseP.table \/ In p LoopDenseR.table -> snd p = expected_kind (fst p).
Proof.
  intros p [I|I]; simpl in I;
    repeat (destruct I as [<-|I]; [reflexivity|]); destruct I.
Qed.

Lemma named_loops_row_major :
  LoopDenseP.l_Map = RowMajorCells /\ LoopDenseP.l_MapSet = RowMajorCells /\ LoopDenseP.l_Reduce = RowMajorCells /\
  LoopDenseP.l_Reset = RowMajorCells /\ LoopDenseP.l_SetIdentity = RowMajorCells /\ LoopDenseP.l_Set = RowMajorCells /\
  LoopDenseP.l_MaddS = RowMajorCells /\ LoopDenseP.l_MADDS = RowMajorCells /\ LoopDenseP.l_Outer = RowMajorCells /\
  LoopDenseP.l_OUTER = RowMajorCells /\ LoopDenseP.l_Equals = RowMajorCells /\ LoopDenseP.l_EQUALS = RowMajorCells /\
  LoopDenseP.l_MaddM = RowMajorCells /\ LoopDenseP.l_MADDM = RowMajorCells /\ LoopDenseP.l_IsSymmetric = UpperTriangleCells /\
  LoopDenseR.l_Map = RowMajorCells /\ LoopDenseR.l_MapSet = RowMajorCells /\ LoopDenseR.l_Reduce = RowMajorCells /\
  LoopDenseR.l_Reset = RowMajorCells /\ LoopDenseR.l_SetIdentity = RowMajorCells /\ LoopDenseR.l_Set = RowMajorCells /\
  LoopDenseR.l_MaddS = RowMajorCells /\ LoopDenseR.l_MADDS = RowMajorCells /\ LoopDenseR.l_Outer = RowMajorCells /\
  LoopDenseR.l_OUTER = RowMajorCells /\ LoopDenseR.l_Equals = RowMajorCells /\ LoopDenseR.l_EQUALS = RowMajorCells /\
  LoopDenseR.l_MaddM = RowMajorCells /\ LoopDenseR.l_MADDM = RowMajorCells /\ LoopDenseR.l_IsSymmetric = UpperTriangleCells.
Proof. repeat split. Qed.

(* the model's loops are folds over the row-major enumeration of the view, every access through index *)
Lemma model_loops_are_row_major_folds : forall real (m : mat),
  mpos real m = row_major (d_rows m) (d_cols m) /\
  (forall St f s H, mMap real St f s H m = foldR (map_step real St f m) (row_major (d_rows m) (d_cols m)) (s, H)) /\
  (forall St f s H, mMapSet real St f s H m = foldR (mapset_step real St f m) (row_major (d_rows m) (d_cols m)) (s, H)) /\
  (forall A f r H, mReduce real A f r H m =
     foldR (fun r p => v <- mAT real H m (fst p) (snd p) ;; ROk (f r v)) (row_major (d_rows m) (d_cols m)) r) /\
  (forall H i j, mAT real H m i j = (k <- of_opt (DenseP.index m i j) ;; get (store_of H (d_values m)) k)).
Proof.
  intros real m. assert (E : mpos real m = row_major (d_rows m) (d_cols m)) by (unfold mpos; rewrite k_dims_P; reflexivity).
  split; [exact E|]. split; [intros; unfold mMap; rewrite E; reflexivity|].
  split; [intros; unfold mMapSet; rewrite E; reflexivity|].
  split; [intros; unfold mReduce; rewrite E; reflexivity|].
  intros H i j. unfold mAT, idx. rewrite k_index_P. reflexivity.
Qed.
