(* C10 — Tip(): consequences of the cycle theorem of ProofsTipAll.v.
   (1) the round-1 statement without its bound (every shape, every content);
   (2) Tip on a view = Tip on an independent deep copy, for every well-formed view on which Tip is
       specified (a transposed view of any window: only the flag is cleared; a matrix that owns its storage);
   (3) on a NON-transposed proper window the code permutes the parent's whole storage with the window's row
       count: refuted by witnesses (scrambled parent; a loop that never returns to its start cell). *)
From Coq Require Import ZArith List Bool Lia.
From ADV Require Import C10.Gen C10.Model C10.Spec C10.ProofsIndex C10.ProofsViews C10.ProofsIter
                        C10.ProofsIterSkip C10.ProofsOps C10.ProofsTip C10.ProofsTipGen C10.ProofsOpsView C10.ProofsTipAll.
Import ListNotations.
Open Scope Z_scope.

Lemma mAT_T : forall real H (m : mat) i j, mAT real H (DenseP.T m) i j = mAT real H m j i.
Proof. intros real H m i j. unfold mAT, idx. rewrite !k_index_P, index_T. reflexivity. Qed.

Lemma heap1 : forall H : heap, length H = 1%nat -> H = [store_of H 0].
Proof. intros [|s [|t H]] L; simpl in L; try discriminate. reflexivity. Qed.

Theorem tip_correct_all_shapes : forall real rows cols s, 0 <= rows -> 0 <= cols -> zlen s = rows * cols ->
  tip_spec real rows cols s.
Proof.
  intros real rows cols s Hr Hc Ls. unfold tip_spec.
  set (m := new_mat 0 rows cols).
  assert (W : wf_in [s] m).
  { unfold wf_in, m. cbn [new_mat d_values length]. split; [lia|]. change (store_of [s] 0) with s. rewrite Ls.
    unfold wf; simpl. repeat split; lia. }
  assert (Wh : whole m) by (unfold whole, m; simpl; repeat split; reflexivity).
  destruct (tip_whole real [s] m W Wh) as (H1 & E & W1 & L1 & _ & EA).
  cbn [m new_mat d_values d_rows d_cols] in E, W1, EA.
  rewrite (heap1 H1 L1) in E, W1, EA. set (s' := store_of H1 0) in *.
  set (m' := new_mat 0 cols rows) in *.
  assert (Wh' : whole m') by (unfold whole, m'; simpl; repeat split; reflexivity).
  exists s', m', s'. split; [exact E|]. split; [reflexivity|]. split; [reflexivity|]. split; [reflexivity|].
  pose proof (read_all_whole real [s'] m' W1 Wh') as RA. change (store_of [s'] (d_values m')) with s' in RA.
  split; [exact RA|]. rewrite <- RA. symmetry. apply se_read_all.
  split; [rewrite k_T_P; reflexivity|]. split; [rewrite k_T_P; reflexivity|]. exact EA.
Qed.

(* Tip on a view vs Tip on its deep copy *)
Theorem tip_on_view_equals_tip_on_copy : forall real H (m : mat), wf_in H m -> (d_transposed m = true \/ whole m) ->
  exists H' c, deep_copy real H m = ROk (H', c) /\
  exists H1 m1 H1' c1, mTip H m = ROk (H1, m1) /\ mTip H' c = ROk (H1', c1) /\
    (d_rows m1, d_cols m1) = (d_cols m, d_rows m) /\ (d_rows c1, d_cols c1) = (d_cols m, d_rows m) /\
    d_transposed m1 = false /\
    (forall i j, mAT real H1 m1 i j = mAT real H1' c1 i j) /\
    (forall i j, mAT real H1 m1 i j = mAT real H m j i) /\
    (forall l, l <> d_values m -> store_of H1 l = store_of H l) /\
    (d_transposed m = true -> H1 = H).
Proof.
  intros real H m W Sp.
  destruct (deep_copy_spec real H m W) as (H' & c & E & Fr & Ne & Wh & Wc & Old & (Er & Ec & EA)).
  exists H', c. split; [exact E|].
  destruct (tip_whole real H' c Wc Wh) as (H1' & Ec1 & _ & _ & _ & EAc).
  assert (Copy : forall i j, mAT real H1' (new_mat (d_values c) (d_cols c) (d_rows c)) i j = mAT real H m j i).
  { intros i j. rewrite EAc, k_T_P, mAT_T. symmetry. apply EA. }
  destruct Sp as [Ht|Whm].
  - exists H, (DenseP.T m), H1', (new_mat (d_values c) (d_cols c) (d_rows c)).
    split; [apply tip_on_transposed_is_T; exact Ht|]. split; [exact Ec1|].
    split; [reflexivity|]. split; [simpl; rewrite Er, Ec; reflexivity|]. split; [simpl; rewrite Ht; reflexivity|].
    split; [intros i j; rewrite Copy; apply mAT_T|]. split; [intros i j; apply mAT_T|]. split; [reflexivity|reflexivity].
  - destruct (tip_whole real H m W Whm) as (H1 & Em1 & _ & _ & Oth & EAm).
    exists H1, (new_mat (d_values m) (d_cols m) (d_rows m)), H1', (new_mat (d_values c) (d_cols c) (d_rows c)).
    split; [exact Em1|]. split; [exact Ec1|]. split; [reflexivity|]. split; [simpl; rewrite Er, Ec; reflexivity|].
    split; [reflexivity|].
    assert (View : forall i j, mAT real H1 (new_mat (d_values m) (d_cols m) (d_rows m)) i j = mAT real H m j i).
    { intros i j. rewrite EAm, k_T_P. apply mAT_T. }
    split; [intros i j; rewrite Copy; apply View|]. split; [exact View|]. split; [exact Oth|].
    destruct Whm as (Ht & _). rewrite Ht. discriminate.
Qed.

(* (3) Tip on a non-transposed proper window: the code permutes the WHOLE storage of the parent with the
   window's row count and then exchanges the header fields.  3x3 parent:
   - window Slice(0,3,0,2): the parent's third column (cells the view does not denote) is moved;
   - window Slice(0,1,0,3): nothing is moved (rows = 1) and the exchanged header reads the first COLUMN of the
     parent, 1 4 7, instead of the former transpose 1 2 3;
   - window Slice(0,2,0,2): rows = 2 is not coprime to mn - 1 = 8, the cycle from cell 1 runs 2, 4, 0, 0, 0 ...
     and never returns to its start (fuel exhausted in the model, a hang in Go). *)
Lemma tip_on_proper_window_refuted :
  let H := [[1; 2; 3; 4; 5; 6; 7; 8; 9]] in
  let b := new_mat 0 3 3 in
  slice_guard 3 3 0 3 0 2 /\ slice_guard 3 3 0 1 0 3 /\ slice_guard 3 3 0 2 0 2 /\
  wf_in H (DenseP.SLICE b 0 3 0 2) /\ wf_in H (DenseP.SLICE b 0 1 0 3) /\ wf_in H (DenseP.SLICE b 0 2 0 2) /\
  (r <- mTip H (DenseP.SLICE b 0 3 0 2) ;; ROk (store_of (fst r) 0)) = ROk [1; 4; 7; 2; 5; 8; 3; 6; 9] /\
  (r <- mTip H (DenseP.SLICE b 0 1 0 3) ;; read_all false (fst r) (snd r)) = ROk [1; 4; 7] /\
  read_all false H (DenseP.T (DenseP.SLICE b 0 1 0 3)) = ROk [1; 2; 3] /\
  mTip H (DenseP.SLICE b 0 2 0 2) = RFuel.
Proof. vm_compute. repeat split; try discriminate; reflexivity. Qed.
