(* C10 correspondence, second stream: binary operations on up to three views of ONE parent storage
   (or fresh matrices) and the joint iterator.  Compared: the three headers, panic / result list,
   the receiver's elements afterwards and every storage of the heap (parent first, then the fresh
   operands in allocation order r, a, b). *)
From Coq Require Import ZArith List Bool.
From ADV Require Import Base.Corr C10.Gen C10.Model C10.ModelBin.
Import ListNotations.
Open Scope Z_scope.

Inductive bobserved := BObsPanic (hdrs : list (list Z)) | BObsOk (hdrs : list (list Z)) (o : bobs).
Record bcase := mkBCase { bc_real : bool; bc_rows : Z; bc_cols : Z; bc_vals : list Z;
                          bc_r : operand; bc_a : operand; bc_b : operand; bc_op : bop; bc_obs : bobserved }.

Definition zl_eqb := list_eqb Z.eqb.
Definition zll_eqb := list_eqb zl_eqb.
Definition bobs_eqb (x y : bobs) : bool :=
  zl_eqb (bo_res x) (bo_res y) && option_eqb zl_eqb (bo_recv x) (bo_recv y) && zll_eqb (bo_heap x) (bo_heap y).
Definition bmodel (c : bcase) : list (list Z) * R bobs :=
  run_bin (bc_real c) (bc_rows c) (bc_cols c) (bc_vals c) (bc_r c) (bc_a c) (bc_b c) (bc_op c).
Definition bcheck (c : bcase) : bool :=
  match bmodel c, bc_obs c with
  | (h, RPanic), BObsPanic h0 => zll_eqb h h0
  | (h, ROk o), BObsOk h0 o' => zll_eqb h h0 && bobs_eqb o o'
  | _, _ => false
  end.
Definition mismB (cs : list bcase) : list nat := mismatches bcheck cs.
