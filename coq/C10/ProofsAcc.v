(* C10 — the copy-vs-reference classification of every vector-returning accessor of the dense matrices.
   GenAcc.v is derived from the Go source by go2coq_c10 (acc.go) on every run; the lemmas below pin the table
   (a change of any accessor's provenance -- e.g. COL() implemented through ConstCol() -- breaks them) and tie
   it to the alias flag of the model's ConstRow / ConstCol, which the harness observes on the implementation. *)
From Coq Require Import ZArith List Bool.
From ADV Require Import C10.Gen C10.GenAcc C10.Model.
Import ListNotations.
Open Scope Z_scope.

Definition acc_family (real : bool) (which : nat) (t : bool) : acc_kind :=
  match find (fun p => Nat.eqb (fst p) which) (if real then AccDenseR.table else AccDenseP.table) with
  | Some p => snd p t
  | None => Copies
  end.

(* Row / Col / Diag (ROW / COL / DIAG) copy, for every element type and both values of the flag; ConstDiag
   copies for value element types *)
Lemma row_col_diag_accessors_copy : forall t,
  (AccDenseP.ROW t = Copies /\ AccDenseP.COL t = Copies /\ AccDenseP.DIAG t = Copies /\
   AccDenseP.Row t = Copies /\ AccDenseP.Col t = Copies /\ AccDenseP.Diag t = Copies /\ AccDenseP.ConstDiag t = Copies) /\
  (AccDenseR.ROW t = Copies /\ AccDenseR.COL t = Copies /\ AccDenseR.DIAG t = Copies /\
   AccDenseR.Row t = Copies /\ AccDenseR.Col t = Copies /\ AccDenseR.Diag t = Copies).
Proof. intros []; repeat split. Qed.

(* ConstRow / ConstCol return a sub-slice of the storage exactly in the contiguous direction (rows of a
   non-transposed, columns of a transposed matrix); in the other direction value element types copy, while
   Real32/Real64 build a fresh vector of the matrix's own element cells (and so does their ConstDiag);
   AsVector / AsConstVector always expose the storage (F-ASVEC on views) *)
Lemma const_row_col_alias_only_on_contiguous_direction : forall t,
  AccDenseP.ConstRow t = (if t then Copies else AliasesStorage) /\
  AccDenseP.ConstCol t = (if t then AliasesStorage else Copies) /\
  AccDenseR.ConstRow t = (if t then SharesCells else AliasesStorage) /\
  AccDenseR.ConstCol t = (if t then AliasesStorage else SharesCells) /\
  AccDenseR.ConstDiag t = SharesCells /\
  AccDenseP.AsVector t = AliasesStorage /\ AccDenseP.AsConstVector t = AliasesStorage /\
  acc_aliases (AccDenseR.AsVector t) = true /\ acc_aliases (AccDenseR.AsConstVector t) = true.
Proof. intros []; repeat split. Qed.

(* the table has a row for each of the 11 accessors *)
Lemma accessor_table_complete :
  map fst AccDenseP.table = seq 0 11 /\ map fst AccDenseR.table = seq 0 11.
Proof. split; reflexivity. Qed.

(* the model's ConstRow / ConstCol report "aliases the storage" exactly as the table derived from the source
   says (accessors 6 and 7), for every header and heap *)
Lemma model_const_flags_match_table : forall real H (m : mat) i l al,
  (mConstRow real H m i = ROk (l, al) -> al = acc_aliases (acc_family real 6 (d_transposed m))) /\
  (mConstCol real H m i = ROk (l, al) -> al = acc_aliases (acc_family real 7 (d_transposed m))).
Proof.
  intros real H m i l al. unfold mConstRow, mConstCol. split; intros E.
  - destruct (d_transposed m).
    + destruct (mROW real H m i) as [x| |]; cbn [bind] in E; try discriminate. injection E as Q1 Q2; rewrite <- Q2; destruct real; reflexivity.
    + destruct (idx real m i 0) as [k| |]; cbn [bind] in E; try discriminate.
      destruct (segment _ k (d_cols m)) as [x| |]; cbn [bind] in E; try discriminate. injection E as Q1 Q2; rewrite <- Q2; destruct real; reflexivity.
  - destruct (d_transposed m).
    + destruct (idx real m 0 i) as [k| |]; cbn [bind] in E; try discriminate.
      destruct (segment _ k (d_rows m)) as [x| |]; cbn [bind] in E; try discriminate. injection E as Q1 Q2; rewrite <- Q2; destruct real; reflexivity.
    + destruct (mCOL real H m i) as [x| |]; cbn [bind] in E; try discriminate. injection E as Q1 Q2; rewrite <- Q2; destruct real; reflexivity.
Qed.

(* the copying accessors of the model (Row / Col / Diag: table says Copies) return a value and leave the heap as it
   was: what run_op observes after them is the untouched view and parent (the harness writes 999 into the
   returned vector first) *)
Lemma model_copying_accessors_leave_heap : forall real H (m : mat) i,
  run_op real H m (ORow i) = (l <- mROW real H m i ;; finish real l H m) /\
  run_op real H m (OCol i) = (l <- mCOL real H m i ;; finish real l H m) /\
  run_op real H m ODiag = (l <- mDIAG real H m ;; finish real l H m).
Proof. intros real H m i. unfold run_op. destruct (k_dims real m). repeat split. Qed.
