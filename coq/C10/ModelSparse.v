(* C10 — sparse matrices (matrix_sparse_template.in / matrix_sparse_real_template.in at HEAD):
   the same header (no transposed flag) over ONE sparse vector.  The kernels index / ij / SLICE /
   ConstSlice / Dims come from Gen.v (modules SparseP / SparseR); this file models what touches
   the storage.

   Storage model: the parent's sparse vector of length n is a list of n integers, 0 = no entry
   (explicit zero entries are not observable through the public API: iterators skip and delete
   them).  Slice/ConstSlice share the parent's vector object.  T() builds a NEW vector whose
   entries are the cells that exist in the parent at that moment (shared), re-laid out; every
   other position of the new vector gets its own cell when written.  A view is therefore a
   header plus a cell map: cell k is either the parent's cell k1 or an own value.
   No proofs in this file. *)
From Coq Require Import ZArith List Bool.
From ADV Require Import C10.Gen C10.Model.
Import ListNotations.
Open Scope Z_scope.

Inductive cell := Par (k : Z) | Own (v : Z).
Record sview := mkSView { sv_hdr : SparseMatrix unit; sv_cells : list cell; sv_shared : bool }.
(* sv_shared: the view uses the parent's vector object itself (no T() in its history) *)

Definition sk_index (real : bool) (m : SparseMatrix unit) (i j : Z) : option Z :=
  if real then SparseR.index m i j else SparseP.index m i j.
Definition sk_ij (real : bool) (m : SparseMatrix unit) (k : Z) : Z * Z :=
  if real then SparseR.ij m k else SparseP.ij m k.
Definition sk_slice (real : bool) (m : SparseMatrix unit) (a b c d : Z) : SparseMatrix unit :=
  if real then SparseR.Slice m a b c d else SparseP.Slice m a b c d.
Definition sk_cslice (real : bool) (m : SparseMatrix unit) (a b c d : Z) : SparseMatrix unit :=
  if real then SparseR.ConstSlice m a b c d else SparseP.ConstSlice m a b c d.
Definition sk_dims (real : bool) (m : SparseMatrix unit) : Z * Z :=
  if real then SparseR.Dims m else SparseP.Dims m.

Definition snew (rows cols : Z) : SparseMatrix unit := mkSparse tt rows cols 0 rows 0 cols.
Definition ident_cells (n : Z) : list cell := map Par (zseq n).

Section Sparse.
Variable real : bool.

(* cell access: P is the parent's storage *)
Definition cget (P : list Z) (cs : list cell) (k : Z) : R Z :=
  if (k <? 0) || (k >=? zlen cs) then RPanic else
  match nth (Z.to_nat k) cs (Own 0) with Par k1 => get P k1 | Own v => ROk v end.
Definition cput (P : list Z) (cs : list cell) (k v : Z) : R (list Z * list cell) :=
  if (k <? 0) || (k >=? zlen cs) then RPanic else
  match nth (Z.to_nat k) cs (Own 0) with
  | Par k1 => P' <- put P k1 v ;; ROk (P', cs)
  | Own _ => ROk (P, upd (Z.to_nat k) (Own v) cs)
  end.
Definition cvals (P : list Z) (cs : list cell) : R (list Z) := mapR (cget P cs) (zseq (zlen cs)).

Definition sidx (v : sview) (i j : Z) : R Z := of_opt (sk_index real (sv_hdr v) i j).
Definition sAT (P : list Z) (v : sview) (i j : Z) : R Z := k <- sidx v i j ;; cget P (sv_cells v) k.
Definition sSET (P : list Z) (v : sview) (i j x : Z) : R (list Z * sview) :=
  k <- sidx v i j ;; '(P', cs) <- cput P (sv_cells v) k x ;; ROk (P', mkSView (sv_hdr v) cs (sv_shared v)).
Definition spos (v : sview) : list (Z * Z) := let '(n, k) := sk_dims real (sv_hdr v) in positions n k.
Definition sread_all (P : list Z) (v : sview) : R (list Z) := mapR (fun p => sAT P v (fst p) (snd p)) (spos v).

(* non-zero entries of the view's vector, ascending: (k, value) *)
Definition entries (P : list Z) (cs : list cell) : R (list (Z * Z)) :=
  l <- cvals P cs ;; ROk (filter (fun p => negb (snd p =? 0)) (combine (zseq (zlen cs)) l)).
Definition pairs_flat (l : list (Z * Z)) : list Z := flat_map (fun p => [fst p; snd p]) l.

(* T(): re-layout of every existing entry; panics when an entry lies outside the window *)
Definition sT (P : list Z) (v : sview) : R sview :=
  let h := sv_hdr v in
  let h' := mkSparse tt (s_cols h) (s_rows h) (s_colOffset h) (s_colMax h) (s_rowOffset h) (s_rowMax h) in
  es <- entries P (sv_cells v) ;;
  cs <- foldR (fun cs e =>
          let '(i1, j1) := sk_ij real h (fst e) in
          k2 <- of_opt (sk_index real h' j1 i1) ;;
          if (k2 <? 0) || (k2 >=? zlen cs) then RPanic else
          ROk (upd (Z.to_nat k2) (nth (Z.to_nat (fst e)) (sv_cells v) (Own 0)) cs))
        es (map (fun _ => Own 0) (sv_cells v)) ;;
  ROk (mkSView h' cs false).

Definition sapply1 (P : list Z) (v : sview) (c : vc) : R sview :=
  match c with
  | VSlice a b c d => ROk (mkSView (sk_slice real (sv_hdr v) a b c d) (sv_cells v) (sv_shared v))
  | VCSlice a b c d => ROk (mkSView (sk_cslice real (sv_hdr v) a b c d) (sv_cells v) (sv_shared v))
  | VT => sT P v
  end.

(* iterator over the whole vector: (ij k, value) for every non-zero entry with k >= k0 *)
Definition sIterate (P : list Z) (v : sview) (k0 : Z) : R (list Z) :=
  es <- entries P (sv_cells v) ;;
  ROk (flat_map (fun e => let '(i, j) := sk_ij real (sv_hdr v) (fst e) in [i; j; snd e])
                (filter (fun e => k0 <=? fst e) es)).
(* Reset: every entry the iterator visits is set to zero *)
Definition sReset (P : list Z) (v : sview) : R (list Z * sview) :=
  es <- entries P (sv_cells v) ;;
  foldR (fun st e => '(P', cs) <- cput (fst st) (sv_cells (snd st)) (fst e) 0 ;;
                     ROk (P', mkSView (sv_hdr v) cs (sv_shared v))) es (P, v).

Definition sROW (P : list Z) (v : sview) (i : Z) : R (list Z) := mapR (fun j => sAT P v i j) (zseq (s_cols (sv_hdr v))).
Definition sCOL (P : list Z) (v : sview) (j : Z) : R (list Z) := mapR (fun i => sAT P v i j) (zseq (s_rows (sv_hdr v))).
Definition sDIAG (P : list Z) (v : sview) : R (list Z) :=
  let '(n, k) := sk_dims real (sv_hdr v) in
  if negb (n =? k) then RPanic else mapR (fun i => sAT P v i i) (zseq n).
(* ConstRow: values.Slice(k0, k0+cols) — no bounds check in the sparse vector Slice *)
Definition sConstRow (P : list Z) (v : sview) (i : Z) : R (list Z) :=
  k0 <- sidx v i 0 ;;
  mapR (fun t => let k := k0 + t in
                 if (k <? 0) || (k >=? zlen (sv_cells v)) then ROk 0 else cget P (sv_cells v) k)
       (zseq (s_cols (sv_hdr v))).

(* place the entries of the view's vector into a fresh n x m vector through ij; None when one lies outside *)
Definition repack (P : list Z) (v : sview) (strict_at : bool) : R (list Z) :=
  let h := sv_hdr v in
  let '(n, m) := sk_dims real h in
  es <- entries P (sv_cells v) ;;
  foldR (fun acc e =>
           let '(i, j) := sk_ij real h (fst e) in
           (* strict_at: the value is re-read through ConstAt(i,j), which panics outside the window *)
           _ <- (if strict_at then _ <- sidx v i j ;; ROk tt else ROk tt) ;;
           if (i <? 0) || (j <? 0) || (i >=? n) || (j >=? m) then RPanic else
           put acc (i * m + j) (snd e))
        es (map (fun _ => 0) (zseq (n * m))).
(* AsSparse..Vector: (elements, is the result the raw vector itself?) *)
Definition sAsVector (P : list Z) (v : sview) : R (list Z * bool) :=
  let h := sv_hdr v in
  if (s_cols h <? s_colMax h - s_colOffset h) || (s_rows h <? s_rowMax h - s_rowOffset h) then
    l <- repack P v true ;; ROk (l, false)
  else l <- cvals P (sv_cells v) ;; ROk (l, true).
Definition nonzero_pairs (l : list Z) : list Z :=
  pairs_flat (filter (fun p => negb (snd p =? 0)) (combine (zseq (zlen l)) l)).
Definition sJSON (P : list Z) (v : sview) : R (list Z) :=
  let h := sv_hdr v in
  if (s_rowMax h >? s_rows h) || (s_colMax h >? s_cols h) then
    l <- repack P v false ;; ROk (s_rows h :: s_cols h :: nonzero_pairs l)
  else l <- cvals P (sv_cells v) ;; ROk (s_rows h :: s_cols h :: nonzero_pairs l).
(* Export writes the iterator's (i, j, value) triples, Import places them with At(i,j) *)
Definition sExportImport (P : list Z) (v : sview) : R (list Z) :=
  let h := sv_hdr v in
  l <- repack P v false ;; ROk (s_rows h :: s_cols h :: l).

Definition sSwap (P : list Z) (v : sview) (i1 j1 i2 j2 : Z) : R (list Z * sview) :=
  k1 <- sidx v i1 j1 ;; k2 <- sidx v i2 j2 ;;
  let cs := sv_cells v in
  if (k1 <? 0) || (k1 >=? zlen cs) || (k2 <? 0) || (k2 >=? zlen cs) then RPanic else
  if sv_shared v then
    (* the parent's own vector: its two positions exchange their entries *)
    x1 <- cget P cs k1 ;; x2 <- cget P cs k2 ;;
    '(P1, _) <- cput P cs k1 x2 ;; '(P2, _) <- cput P1 cs k2 x1 ;; ROk (P2, v)
  else
    let c1 := nth (Z.to_nat k1) cs (Own 0) in let c2 := nth (Z.to_nat k2) cs (Own 0) in
    ROk (P, mkSView (sv_hdr v) (upd (Z.to_nat k2) c1 (upd (Z.to_nat k1) c2 cs)) false).

(* Tip: the dense cycle-following algorithm on the vector (values.Swap) *)
Definition sTip (P : list Z) (v : sview) : R (list Z * sview) :=
  let h := sv_hdr v in
  let h' := mkSparse tt (s_cols h) (s_rows h) (s_colOffset h) (s_colMax h) (s_rowOffset h) (s_rowMax h) in
  if sv_shared v then
    l <- cvals P (sv_cells v) ;; l' <- tip_store (s_rows h) l ;; ROk (l', mkSView h' (sv_cells v) true)
  else
    (* permute the cells: run the same algorithm on cell indices *)
    p <- tip_store (s_rows h) (zseq (zlen (sv_cells v))) ;;
    ROk (P, mkSView h' (map (fun k => nth (Z.to_nat k) (sv_cells v) (Own 0)) p) false).

Definition sMdotV (P : list Z) (rlen : Z) (a : sview) (b : list Z) : R (list Z) :=
  let '(n, m) := sk_dims real (sv_hdr a) in
  if negb ((rlen =? n) && (zlen b =? m)) then RPanic else
  if (n =? 0) || (m =? 0) then ROk (map (fun _ => 0) (zseq rlen)) else
  mapR (fun i => foldR (fun acc j => x <- sAT P a i j ;; y <- get b j ;; ROk (acc + x * y)) (zseq m) 0) (zseq n).
Definition sVdotM (P : list Z) (rlen : Z) (a : list Z) (b : sview) : R (list Z) :=
  let '(n, m) := sk_dims real (sv_hdr b) in
  if negb ((rlen =? m) && (zlen a =? n)) then RPanic else
  if (n =? 0) || (m =? 0) then ROk (map (fun _ => 0) (zseq rlen)) else
  mapR (fun i => foldR (fun acc j => y <- get a j ;; x <- sAT P b j i ;; ROk (acc + y * x)) (zseq n) 0) (zseq m).

Definition shdr_list (v : sview) : list Z :=
  let h := sv_hdr v in [s_rows h; s_cols h; s_rowOffset h; s_rowMax h; s_colOffset h; s_colMax h; 0].
Definition sfinish (res : list Z) (P : list Z) (v : sview) : R obs :=
  ROk (mkObs res (shdr_list v) (opt_of (sread_all P v)) (nonzero_pairs P)).

Definition srun_op (P : list Z) (v : sview) (o : op) : R obs :=
  let '(n, k) := sk_dims real (sv_hdr v) in
  match o with
  | OSetAt i j x => '(P', v') <- sSET P v i j x ;; sfinish [] P' v'
  | OIter => l <- sIterate P v 0 ;; sfinish l P v
  | OIterFrom i j => k0 <- sidx v i j ;; l <- sIterate P v k0 ;; sfinish l P v
  | OReset => '(P', v') <- sReset P v ;; sfinish [] P' v'
  | ORow i => l <- sROW P v i ;; sfinish l P v
  | OCol j => l <- sCOL P v j ;; sfinish l P v
  | ODiag => l <- sDIAG P v ;; sfinish l P v
  | OConstRow i =>
      l <- sConstRow P v i ;;
      (match l with
       | [] => sfinish [0] P v
       | x :: _ => '(P', v') <- sSET P v i 0 777 ;; sfinish (l ++ [b2z (negb (x =? 0))]) P' v'
       end)
  | OAsVector =>
      '(l, raw) <- sAsVector P v ;;
      (match l with
       | [] => sfinish l P v
       | _ :: _ => if raw then '(P', cs) <- cput P (sv_cells v) 0 555 ;; sfinish l P' (mkSView (sv_hdr v) cs (sv_shared v))
                   else sfinish l P v
       end)
  | OJSON => l <- sJSON P v ;; sfinish l P v
  | OString => l <- sread_all P v ;; sfinish (Z.max 0 n :: l) P v
  | OTable => l <- sread_all P v ;; sfinish l P v
  | OExport => l <- sExportImport P v ;; sfinish l P v
  | OClone =>
      l <- cvals P (sv_cells v) ;;
      (* a deep copy: own cells with the current values, same header *)
      let c := mkSView (sv_hdr v) (map Own l) false in
      r <- sread_all P c ;; sfinish (shdr_list c ++ r) P v
  | OSwap i1 j1 i2 j2 => '(P', v') <- sSwap P v i1 j1 i2 j2 ;; sfinish [] P' v'
  | OMdotV b => l <- sMdotV P n v b ;; sfinish l P v
  | OVdotM b => l <- sVdotM P k b v ;; sfinish l P v
  | OTip => '(P', v') <- sTip P v ;; sfinish [] P' v'
  | _ => RFuel (* not modelled for sparse matrices; the generator does not produce it *)
  end.

End Sparse.

(* base matrix, views, operation.  None: constructing the view panics (T() of a window, F-SPT). *)
Definition run_case_sparse (real : bool) (rows cols : Z) (vals : list Z) (views : list vc) (o : op)
  : option (list Z * R obs) :=
  let v0 := mkSView (snew rows cols) (ident_cells (rows * cols)) true in
  match foldR (sapply1 real vals) views v0 with
  | ROk v => Some (shdr_list v, srun_op real vals v o)
  | _ => None
  end.
