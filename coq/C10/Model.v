(* C10 — executable model of everything of the dense matrix code that touches
   storage (matrix_dense_template.in / matrix_dense_real_template.in at HEAD),
   on a storage-list model: a heap is a list of storages (lists of Z), a matrix
   is the translated header [DenseMatrix nat] whose [d_values] is the location
   of its storage.  Views share the location of their parent.

   The integer kernels (index, ij, SLICE, ConstSlice, T, Dims, iterator
   Ok/next/Index) are NOT written here: they are the definitions regenerated
   from /repo by go2coq_c10 in Gen.v (modules DenseP = plain element types,
   DenseR = Real32/Real64).  No proofs in this file. *)
From Coq Require Import ZArith List Bool.
From ADV Require Import C10.Gen.
Import ListNotations.
Open Scope Z_scope.

(* ---------------------------------------------------------------- results *)
Inductive R (X : Type) := ROk (x : X) | RPanic | RFuel.
Arguments ROk {X}. Arguments RPanic {X}. Arguments RFuel {X}.
Definition bind {X Y} (r : R X) (f : X -> R Y) : R Y :=
  match r with ROk x => f x | RPanic => RPanic | RFuel => RFuel end.
Notation "x <- a ;; b" := (bind a (fun x => b)) (at level 61, a at next level, right associativity).
Notation "' p <- a ;; b" := (bind a (fun p => b)) (at level 61, p pattern, a at next level, right associativity).
Definition of_opt {X} (o : option X) : R X := match o with Some x => ROk x | None => RPanic end.

Fixpoint foldR {X S} (f : S -> X -> R S) (l : list X) (s : S) : R S :=
  match l with [] => ROk s | x :: r => s' <- f s x ;; foldR f r s' end.
Fixpoint mapR {X Y} (f : X -> R Y) (l : list X) : R (list Y) :=
  match l with [] => ROk [] | x :: r => y <- f x ;; ys <- mapR f r ;; ROk (y :: ys) end.

(* ---------------------------------------------------------------- storage *)
Definition zlen {X} (s : list X) : Z := Z.of_nat (length s).
Fixpoint upd {X} (n : nat) (v : X) (l : list X) : list X :=
  match l, n with
  | [], _ => []
  | _ :: r, O => v :: r
  | x :: r, S n' => x :: upd n' v r
  end.
(* Go slice indexing: out of range panics *)
Definition get (s : list Z) (k : Z) : R Z :=
  if (k <? 0) || (k >=? zlen s) then RPanic else ROk (nth (Z.to_nat k) s 0).
Definition put (s : list Z) (k v : Z) : R (list Z) :=
  if (k <? 0) || (k >=? zlen s) then RPanic else ROk (upd (Z.to_nat k) v s).

Definition heap := list (list Z).
Definition store_of (H : heap) (l : nat) : list Z := nth l H [].
Definition set_store (H : heap) (l : nat) (s : list Z) : heap := upd l s H.
Definition alloc (H : heap) (s : list Z) : heap * nat := (H ++ [s], length H).

Definition mat := DenseMatrix nat.
Definition zseq (n : Z) : list Z := map Z.of_nat (seq 0 (Z.to_nat n)).
(* row-major positions of an n x m matrix: the order of `for i { for j {` *)
Definition positions (n m : Z) : list (Z * Z) :=
  flat_map (fun i => map (fun j => (i, j)) (zseq m)) (zseq n).

(* ---------------------------------------------------------------- kernels (from Gen.v) *)
Definition k_index (real : bool) (m : mat) (i j : Z) : option Z :=
  if real then DenseR.index m i j else DenseP.index m i j.
Definition k_slice (real : bool) (m : mat) (a b c d : Z) : mat :=
  if real then DenseR.Slice m a b c d else DenseP.Slice m a b c d.
Definition k_cslice (real : bool) (m : mat) (a b c d : Z) : mat :=
  if real then DenseR.ConstSlice m a b c d else DenseP.ConstSlice m a b c d.
Definition k_T (real : bool) (m : mat) : mat := if real then DenseR.T m else DenseP.T m.
Definition k_dims (real : bool) (m : mat) : Z * Z := if real then DenseR.Dims m else DenseP.Dims m.
Definition k_ok (real : bool) (it : DenseIter nat) : bool := if real then DenseR.it_Ok it else DenseP.it_Ok it.
Definition k_next (real : bool) (it : DenseIter nat) : DenseIter nat := if real then DenseR.it_next it else DenseP.it_next it.
Definition k_Index (real : bool) (it : DenseIter nat) : Z * Z := if real then DenseR.it_Index it else DenseP.it_Index it.

(* constructors: NewDense..Matrix / NullDense..Matrix / ToDense..Matrix *)
Definition new_mat (loc : nat) (rows cols : Z) : mat := mkDense loc rows cols 0 rows 0 cols false.

(* view constructors *)
Inductive vc := VSlice (r0 r1 c0 c1 : Z) | VCSlice (r0 r1 c0 c1 : Z) | VT.
Definition apply1 (real : bool) (m : mat) (v : vc) : mat :=
  match v with
  | VSlice a b c d => k_slice real m a b c d
  | VCSlice a b c d => k_cslice real m a b c d
  | VT => k_T real m
  end.
Definition apply_views (real : bool) (m : mat) (l : list vc) : mat := fold_left (apply1 real) l m.

Section Dense.
Variable real : bool.

(* ---------------------------------------------------------------- element access *)
Definition idx (m : mat) (i j : Z) : R Z := of_opt (k_index real m i j).
Definition mAT (H : heap) (m : mat) (i j : Z) : R Z :=
  k <- idx m i j ;; get (store_of H (d_values m)) k.
Definition mSET (H : heap) (m : mat) (i j v : Z) : R heap :=
  k <- idx m i j ;; s <- put (store_of H (d_values m)) k v ;; ROk (set_store H (d_values m) s).
Definition mpos (m : mat) : list (Z * Z) := let '(n, k) := k_dims real m in positions n k.
Definition read_all (H : heap) (m : mat) : R (list Z) := mapR (fun p => mAT H m (fst p) (snd p)) (mpos m).
Definition dims_eq (a b : mat) : bool :=
  let '(n1, m1) := k_dims real a in let '(n2, m2) := k_dims real b in (n1 =? n2) && (m1 =? m2).

(* ---------------------------------------------------------------- whole-matrix writes *)
Definition mReset (H : heap) (m : mat) : R heap :=
  foldR (fun H p => mSET H m (fst p) (snd p) 0) (mpos m) H.
Definition mSetIdentity (H : heap) (m : mat) : R heap :=
  foldR (fun H p => mSET H m (fst p) (snd p) (if fst p =? snd p then 1 else 0)) (mpos m) H.
Definition mSet (H : heap) (a b : mat) : R heap :=
  if negb (dims_eq a b) then RPanic else
  foldR (fun H p => _ <- idx a (fst p) (snd p) ;; v <- mAT H b (fst p) (snd p) ;; mSET H a (fst p) (snd p) v) (mpos a) H.
(* MaddM / MsubM / MmulM : r(i,j) := f (a(i,j)) (b(i,j)) *)
Definition ew_fun (f : Z) : Z -> Z -> Z :=
  if f =? 0 then Z.add else if f =? 1 then Z.sub else Z.mul.
Definition mEw (f : Z) (H : heap) (r a b : mat) : R heap :=
  if negb (dims_eq r a && dims_eq r b) then RPanic else
  foldR (fun H p => _ <- idx r (fst p) (snd p) ;;
                    x <- mAT H a (fst p) (snd p) ;; y <- mAT H b (fst p) (snd p) ;;
                    mSET H r (fst p) (snd p) (ew_fun f x y)) (mpos r) H.

(* ---------------------------------------------------------------- products *)
Definition dot (H : heap) (a b : mat) (i j m1 : Z) : R Z :=
  foldR (fun t2 k => x <- mAT H a i k ;; y <- mAT H b k j ;; ROk (t2 + x * y)) (zseq m1) 0.
(* storageLocation(): &values[0] *)
Definition storage_location (H : heap) (m : mat) : R nat :=
  if zlen (store_of H (d_values m)) =? 0 then RPanic else ROk (d_values m).
Definition mMdotM (H : heap) (r a b : mat) : R heap :=
  let '(n, m) := k_dims real r in let '(n1, m1) := k_dims real a in let '(n2, m2) := k_dims real b in
  if negb ((n1 =? n) && (m2 =? m) && (m1 =? n2)) then RPanic else
  lr <- storage_location H r ;; lb <- storage_location H b ;;
  if Nat.eqb lr lb then
    foldR (fun H j =>
      t3 <- mapR (fun i => dot H a b i j m1) (zseq n) ;;
      foldR (fun H it => mSET H r (fst it) j (snd it)) (combine (zseq n) t3) H) (zseq m) H
  else
    foldR (fun H i =>
      t3 <- mapR (fun j => dot H a b i j m1) (zseq m) ;;
      foldR (fun H jt => mSET H r i (fst jt) (snd jt)) (combine (zseq m) t3) H) (zseq n) H.
(* r.MdotV(a, b), r.VdotM(a, b) with r a fresh dense vector and b / a a list *)
Definition vget (v : list Z) (k : Z) : R Z := get v k.
Definition mMdotV (H : heap) (rlen : Z) (a : mat) (b : list Z) : R (list Z) :=
  let '(n, m) := k_dims real a in
  if negb ((rlen =? n) && (zlen b =? m)) then RPanic else
  if (n =? 0) || (m =? 0) then ROk (map (fun _ => 0) (zseq rlen)) else
  mapR (fun i => foldR (fun acc j => x <- mAT H a i j ;; y <- vget b j ;; ROk (acc + x * y)) (zseq m) 0) (zseq n).
Definition mVdotM (H : heap) (rlen : Z) (a : list Z) (b : mat) : R (list Z) :=
  let '(n, m) := k_dims real b in
  if negb ((rlen =? m) && (zlen a =? n)) then RPanic else
  if (n =? 0) || (m =? 0) then ROk (map (fun _ => 0) (zseq rlen)) else
  mapR (fun i => foldR (fun acc j => y <- vget a j ;; x <- mAT H b j i ;; ROk (acc + y * x)) (zseq n) 0) (zseq m).

(* ---------------------------------------------------------------- rows, columns, diagonal *)
Definition mROW (H : heap) (m : mat) (i : Z) : R (list Z) := mapR (fun j => mAT H m i j) (zseq (d_cols m)).
Definition mCOL (H : heap) (m : mat) (j : Z) : R (list Z) := mapR (fun i => mAT H m i j) (zseq (d_rows m)).
Definition mDIAG (H : heap) (m : mat) : R (list Z) :=
  let '(n, k) := k_dims real m in
  if negb (n =? k) then RPanic else mapR (fun i => mAT H m i i) (zseq n).
(* values[k0 : k0+n] *)
Definition segment (s : list Z) (k0 n : Z) : R (list Z) :=
  if (k0 <? 0) || (n <? 0) || (k0 + n >? zlen s) then RPanic
  else ROk (firstn (Z.to_nat n) (skipn (Z.to_nat k0) s)).
(* ConstRow / ConstCol : (elements, does the result alias the storage?) *)
Definition mConstRow (H : heap) (m : mat) (i : Z) : R (list Z * bool) :=
  if d_transposed m then l <- mROW H m i ;; ROk (l, real)
  else k0 <- idx m i 0 ;; l <- segment (store_of H (d_values m)) k0 (d_cols m) ;; ROk (l, true).
Definition mConstCol (H : heap) (m : mat) (j : Z) : R (list Z * bool) :=
  if d_transposed m then k0 <- idx m 0 j ;; l <- segment (store_of H (d_values m)) k0 (d_rows m) ;; ROk (l, true)
  else l <- mCOL H m j ;; ROk (l, real).

(* ---------------------------------------------------------------- swaps and permutations *)
Definition mSwap (H : heap) (m : mat) (i1 j1 i2 j2 : Z) : R heap :=
  k1 <- idx m i1 j1 ;; k2 <- idx m i2 j2 ;;
  let s := store_of H (d_values m) in
  v1 <- get s k1 ;; v2 <- get s k2 ;;
  s1 <- put s k1 v2 ;; s2 <- put s1 k2 v1 ;; ROk (set_store H (d_values m) s2).
(* result: (heap, error?) *)
Definition mSwapRows (H : heap) (m : mat) (i j : Z) : R (heap * bool) :=
  let '(n, k) := k_dims real m in
  if negb (n =? k) then ROk (H, true) else
  H' <- foldR (fun H c => mSwap H m i c j c) (zseq k) H ;; ROk (H', false).
Definition mSwapCols (H : heap) (m : mat) (i j : Z) : R (heap * bool) :=
  let '(n, k) := k_dims real m in
  if negb (n =? k) then ROk (H, true) else
  H' <- foldR (fun H r => mSwap H m r i r j) (zseq n) H ;; ROk (H', false).
(* the loop of PermuteRows / PermuteColumns / SymmetricPermutation; an invalid
   entry returns an error and keeps what was already swapped *)
Fixpoint perm_loop (step : heap -> Z -> Z -> R heap) (strict : bool) (n : Z) (is : list Z) (pi : list Z) (H : heap) : R (heap * bool) :=
  match is with
  | [] => ROk (H, false)
  | i :: rest =>
      p <- get pi i ;;
      if (p <? 0) || (p >? n) then ROk (H, true) else
      if p >? i then H' <- step H i p ;; perm_loop step strict n rest pi H'
      else perm_loop step strict n rest pi H
  end.
Definition mPermute (which : Z) (H : heap) (m : mat) (pi : list Z) : R (heap * bool) :=
  let '(n, k) := k_dims real m in
  if negb (n =? k) then ROk (H, true) else
  let rows := fun H i p => '(H', _) <- mSwapRows H m i p ;; ROk H' in
  let cols := fun H i p => '(H', _) <- mSwapCols H m i p ;; ROk H' in
  if which =? 0 then perm_loop rows true n (zseq n) pi H
  else if which =? 1 then perm_loop cols true n (zseq k) pi H
  else perm_loop (fun H i p => H1 <- rows H i p ;; cols H1 i p) false n (zseq n) pi H.

(* ---------------------------------------------------------------- Tip *)
Definition swap_store (s : list Z) (k c : Z) : R (list Z) :=
  v1 <- get s k ;; v2 <- get s c ;; s1 <- put s k v2 ;; put s1 c v1.
Fixpoint tip_cycle (fuel : nat) (rows mn cycle k : Z) (vis : list bool) (s : list Z) : R (list bool * list Z) :=
  match fuel with
  | O => RFuel
  | S f =>
      let k := if negb (k =? mn - 1) then Z.rem (rows * k) (mn - 1) else k in
      if (k <? 0) || (k >=? mn) then RPanic else
      let vis := upd (Z.to_nat k) true vis in
      s' <- swap_store s k cycle ;;
      if k =? cycle then ROk (vis, s') else tip_cycle f rows mn cycle k vis s'
  end.
Definition tip_store (rows : Z) (s : list Z) : R (list Z) :=
  let mn := zlen s in
  r <- foldR (fun st cycle =>
         let '(vis, s) := st in
         if nth (Z.to_nat cycle) vis false then ROk st
         else tip_cycle (S (length s)) rows mn cycle cycle vis s)
       (map (fun c => c + 1) (zseq (mn - 1))) (map (fun _ => false) s, s) ;;
  ROk (snd r).
(* Tip at HEAD (2ffe99c): a transposed matrix only clears its flag (its storage already is the
   row-major order of the transpose); otherwise the storage is permuted; then rows/cols, the
   offsets and the maxima are exchanged in both cases *)
Definition mTip (H : heap) (m : mat) : R (heap * mat) :=
  if d_transposed m then
    ROk (H, mkDense (d_values m) (d_cols m) (d_rows m) (d_colOffset m) (d_colMax m) (d_rowOffset m) (d_rowMax m) false)
  else
  s <- tip_store (d_rows m) (store_of H (d_values m)) ;;
  ROk (set_store H (d_values m) s,
       mkDense (d_values m) (d_cols m) (d_rows m) (d_colOffset m) (d_colMax m) (d_rowOffset m) (d_rowMax m) (d_transposed m)).

(* ---------------------------------------------------------------- reinterpretation, copies, export *)
(* AsVector / AsConstVector: (elements, write target of element 0: storage offset) .
   plain types: the raw storage.  Real types (AsDenseReal..Vector): re-packed
   (sharing the element cells) when the view stops short of the last row or
   column of the storage, else the raw storage. *)
Definition mAsVector (H : heap) (m : mat) : R (list Z * option Z) :=
  let s := store_of H (d_values m) in
  if real && ((d_cols m <? d_colMax m - d_colOffset m) || (d_rows m <? d_rowMax m - d_rowOffset m)) then
    l <- read_all H m ;;
    (if (d_rows m * d_cols m) >? 0 then k <- idx m 0 0 ;; ROk (l, Some k) else ROk (l, None))
  else ROk (s, if zlen s >? 0 then Some 0 else None).
Definition mClone (H : heap) (m : mat) : heap * mat :=
  let '(H', l) := alloc H (store_of H (d_values m)) in
  (H', mkDense l (d_rows m) (d_cols m) (d_rowOffset m) (d_rowMax m) (d_colOffset m) (d_colMax m) (d_transposed m)).
(* MarshalJSON: Rows, Cols, Values *)
Definition mJSON (H : heap) (m : mat) : R (list Z) :=
  if d_transposed m || (d_rowMax m >? d_rows m) || (d_colMax m >? d_cols m) then
    l <- read_all H m ;; ROk (d_rows m :: d_cols m :: l)
  else ROk (d_rows m :: d_cols m :: store_of H (d_values m)).
(* String / Table print ConstAt(i,j) in row-major order *)
Definition mString (H : heap) (m : mat) : R (list Z) := l <- read_all H m ;; ROk (Z.max 0 (d_rows m) :: l).
(* Export then Import into a fresh matrix: an empty table reads back as 0x0 *)
Definition mExportImport (H : heap) (m : mat) : R (list Z) :=
  l <- read_all H m ;;
  if (d_rows m <=? 0) || (d_cols m <=? 0) then ROk [0; 0] else ROk (d_rows m :: d_cols m :: l).
Definition mIsSymmetric (H : heap) (m : mat) : R bool :=
  let '(n, k) := k_dims real m in
  if negb (n =? k) then ROk false else
  foldR (fun acc p => if negb acc then ROk false else
                      if snd p <=? fst p then ROk acc else
                      x <- mAT H m (fst p) (snd p) ;; y <- mAT H m (snd p) (fst p) ;; ROk (x =? y))
        (positions n k) true.

(* ---------------------------------------------------------------- iterator *)
Definition it_get (H : heap) (it : DenseIter nat) : R Z := mAT H (di_m it) (di_i it) (di_j it).
Fixpoint it_skip (fuel : nat) (H : heap) (it : DenseIter nat) : R (DenseIter nat) :=
  match fuel with
  | O => RFuel
  | S f => if k_ok real it then v <- it_get H it ;; if v =? 0 then it_skip f H (k_next real it) else ROk it
           else ROk it
  end.
Definition it_Next (fuel : nat) (H : heap) (it : DenseIter nat) : R (DenseIter nat) :=
  it_skip fuel H (k_next real it).
Definition it_from (fuel : nat) (H : heap) (m : mat) (i j : Z) : R (DenseIter nat) :=
  it_Next fuel H (mkDenseIter m i (j - 1)).
(* for it := ...; it.Ok(); it.Next() { i, j := it.Index(); v := it.GetConst() } *)
Fixpoint it_run (fuel : nat) (H : heap) (it : DenseIter nat) : R (list Z) :=
  match fuel with
  | O => RFuel
  | S f => if k_ok real it then
             v <- it_get H it ;; it' <- it_Next (S f) H it ;; r <- it_run f H it' ;;
             ROk (fst (k_Index real it) :: snd (k_Index real it) :: v :: r)
           else ROk []
  end.
Definition iter_fuel (m : mat) : nat := S (S (Z.to_nat (Z.max 0 (d_rows m) * Z.max 0 (d_cols m) + Z.max 0 (d_rows m)))).
Definition mIterate (H : heap) (m : mat) (i j : Z) : R (list Z) :=
  it <- it_from (iter_fuel m) H m i j ;; it_run (iter_fuel m) H it.

End Dense.

(* ---------------------------------------------------------------- one public operation on a view *)
Inductive op :=
| OSetAt (i j v : Z) | OIter | OIterFrom (i j : Z) | OReset | OSetIdentity | OSet (b : list Z)
| OEw (f mode : Z) (b : list Z) | OMdotM (mode : Z) (b : list Z) | OMdotV (b : list Z) | OVdotM (b : list Z)
| ORow (i : Z) | OCol (j : Z) | ODiag | OConstRow (i : Z) | OConstCol (j : Z)
| OSwap (i1 j1 i2 j2 : Z) | OSwapRows (i j : Z) | OSwapCols (i j : Z) | OPermute (which : Z) (pi : list Z)
| OTip | OAsVector | OAsVecMat (n m : Z) | OClone | OJSON | OString | OTable | OExport | OIsSym.

(* what the harness observes after the operation: result list, the view's header,
   the elements read through the view (None: reading panics), the base storage *)
Definition hdr_list (m : mat) : list Z :=
  [d_rows m; d_cols m; d_rowOffset m; d_rowMax m; d_colOffset m; d_colMax m; if d_transposed m then 1 else 0].
Record obs := mkObs { o_res : list Z; o_hdr : list Z; o_view : option (list Z); o_store : list Z }.
Definition opt_of {X} (r : R X) : option X := match r with ROk x => Some x | _ => None end.
Definition finish (real : bool) (res : list Z) (H : heap) (m : mat) : R obs :=
  ROk (mkObs res (hdr_list m) (opt_of (read_all real H m)) (store_of H 0)).
Definition b2z (b : bool) : Z := if b then 1 else 0.

(* location 0: storage of the base matrix; location 1: storage of the fresh operand *)
Definition run_op (real : bool) (H : heap) (m : mat) (o : op) : R obs :=
  let fin := finish real in
  let '(n, k) := k_dims real m in
  match o with
  | OSetAt i j v => H' <- mSET real H m i j v ;; fin [] H' m
  | OIter => l <- mIterate real H m 0 0 ;; fin l H m
  | OIterFrom i j => l <- mIterate real H m i j ;; fin l H m
  | OReset => H' <- mReset real H m ;; fin [] H' m
  | OSetIdentity => H' <- mSetIdentity real H m ;; fin [] H' m
  | OSet b => let '(H1, l) := alloc H b in H' <- mSet real H1 m (new_mat l n k) ;; fin [] H' m
  | OEw f mode b =>
      let '(H1, l) := alloc H b in
      let fr := new_mat l n k in
      if mode =? 0 then H' <- mEw real f H1 m m fr ;; fin [] H' m
      else if mode =? 1 then H' <- mEw real f H1 fr m fr ;; fin (store_of H' l) H' m
      else H' <- mEw real f H1 m fr m ;; fin [] H' m
  | OMdotM mode b =>
      let '(H1, l) := alloc H b in
      if mode =? 0 then let fr := new_mat l n n in H' <- mMdotM real H1 fr m (k_T real m) ;; fin (store_of H' l) H' m
      else if mode =? 1 then let fr := new_mat l k k in H' <- mMdotM real H1 fr (k_T real m) m ;; fin (store_of H' l) H' m
      else if mode =? 2 then let fr := new_mat l n k in H' <- mMdotM real H1 m m fr ;; fin [] H' m
      else let fr := new_mat l n k in H' <- mMdotM real H1 m fr m ;; fin [] H' m
  | OMdotV b => l <- mMdotV real H n m b ;; fin l H m
  | OVdotM b => l <- mVdotM real H k b m ;; fin l H m
  | ORow i => l <- mROW real H m i ;; fin l H m
  | OCol j => l <- mCOL real H m j ;; fin l H m
  | ODiag => l <- mDIAG real H m ;; fin l H m
  | OConstRow i =>
      '(l, al) <- mConstRow real H m i ;;
      (match l with
       | [] => fin [0] H m
       | x :: _ => H' <- mSET real H m i 0 777 ;; fin (l ++ [b2z al]) H' m
       end)
  | OConstCol j =>
      '(l, al) <- mConstCol real H m j ;;
      (match l with
       | [] => fin [0] H m
       | x :: _ => H' <- mSET real H m 0 j 777 ;; fin (l ++ [b2z al]) H' m
       end)
  | OSwap i1 j1 i2 j2 => H' <- mSwap real H m i1 j1 i2 j2 ;; fin [] H' m
  | OSwapRows i j => '(H', e) <- mSwapRows real H m i j ;; fin [b2z e] H' m
  | OSwapCols i j => '(H', e) <- mSwapCols real H m i j ;; fin [b2z e] H' m
  | OPermute w pi => '(H', e) <- mPermute real w H m pi ;; fin [b2z e] H' m
  | OTip => '(H', m') <- mTip H m ;; fin [] H' m'
  | OAsVector =>
      '(l, w) <- mAsVector real H m ;;
      (match w with
       | None => fin l H m
       | Some kk => s <- put (store_of H (d_values m)) kk 555 ;; fin l (set_store H (d_values m) s) m
       end)
  | OAsVecMat a b =>
      '(l, _) <- mAsVector real H m ;;
      if negb (a * b =? zlen l) then RPanic else
      let '(H1, loc) := alloc H l in
      r <- read_all real H1 (new_mat loc a b) ;; fin (a :: b :: r) H m
  | OClone =>
      let '(H1, c) := mClone H m in
      r <- read_all real H1 c ;;
      (* the harness then writes 444 into element (0,0) of the clone *)
      (if n * k >? 0 then H2 <- mSET real H1 c 0 0 444 ;; fin (hdr_list c ++ r) H2 m else fin (hdr_list c ++ r) H1 m)
  | OJSON => l <- mJSON real H m ;; fin l H m
  | OString => l <- mString real H m ;; fin l H m
  | OTable => l <- read_all real H m ;; fin l H m
  | OExport => l <- mExportImport real H m ;; fin l H m
  | OIsSym => b <- mIsSymmetric real H m ;; fin [b2z b] H m
  end.

(* base matrix of rows x cols over the given storage, then the views, then the operation;
   the header of the view before the operation is observed too *)
Definition run_case (real : bool) (rows cols : Z) (vals : list Z) (views : list vc) (o : op) : list Z * R obs :=
  let m := apply_views real (new_mat 0 rows cols) views in
  (hdr_list m, run_op real [vals] m o).
