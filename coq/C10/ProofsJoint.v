(* C10 — the dense joint iterator over two views (m.JointIterator(b)): its whole report (positions, which side is
   present, both values) is a function of the dimensions and the element functions of the two matrices: iterating
   two views -- of one storage or not, nested, transposed -- reports exactly what iterating independent deep copies
   reports.  Method: the two runs are in lock step (same iterator positions, same cached values). *)
From Coq Require Import ZArith List Bool Lia.
From ADV Require Import C10.Gen C10.Model C10.Spec C10.ProofsIndex C10.ProofsViews C10.ProofsIter
                        C10.ProofsIterSkip C10.ProofsOps C10.ProofsTipGen C10.ProofsOpsView C10.ProofsPermView
                        C10.ModelBin.
Import ListNotations.
Open Scope Z_scope.

Definition rel_it (x x' : mat) (it it' : DenseIter nat) : Prop :=
  di_m it = x /\ di_m it' = x' /\ di_i it = di_i it' /\ di_j it = di_j it'.

Section Lock.
Variable real : bool.
Variables (H H' : heap).

Section One.
Variables (x x' : mat).
Hypothesis SE : same_elems real H x H' x'.

Lemma ok_rel : forall it it', rel_it x x' it it' -> k_ok real it = k_ok real it'.
Proof.
  intros it it' (E1 & E2 & Ei & Ej). destruct SE as (Er & Ec & _). rewrite !k_ok_P. unfold DenseP.it_Ok.
  rewrite E1, E2, Ei, Ej, Er, Ec. reflexivity.
Qed.
Lemma get_rel : forall it it', rel_it x x' it it' -> it_get real H it = it_get real H' it'.
Proof. intros it it' (E1 & E2 & Ei & Ej). destruct SE as (_ & _ & EA). unfold it_get. rewrite E1, E2, Ei, Ej. apply EA. Qed.
Lemma index_rel : forall it it', rel_it x x' it it' -> k_Index real it = k_Index real it'.
Proof. intros it it' (_ & _ & Ei & Ej). rewrite !k_Index_P, Ei, Ej. reflexivity. Qed.
Lemma next_rel : forall it it', rel_it x x' it it' -> rel_it x x' (k_next real it) (k_next real it').
Proof.
  intros [m i j] [m' i' j'] (E1 & E2 & Ei & Ej). destruct SE as (_ & Ec & _). simpl in *. subst m m' i' j'.
  rewrite !k_next_P. unfold DenseP.it_next, di_set_i, di_set_j, rel_it. simpl. rewrite <- Ec.
  destruct (j =? d_cols x - 1); simpl; repeat split; reflexivity.
Qed.
Lemma skip_rel : forall fuel it it', rel_it x x' it it' ->
  relR (rel_it x x') (it_skip real fuel H it) (it_skip real fuel H' it').
Proof.
  induction fuel as [|f IH]; intros it it' Rl; [exact I|]. cbn [it_skip].
  rewrite <- (ok_rel it it' Rl), <- (get_rel it it' Rl). destruct (k_ok real it); [|exact Rl].
  destruct (it_get real H it) as [v| |]; cbn [bind]; try exact I.
  destruct (v =? 0); [|exact Rl]. apply IH. apply next_rel. exact Rl.
Qed.
Lemma Next_rel : forall fuel it it', rel_it x x' it it' ->
  relR (rel_it x x') (it_Next real fuel H it) (it_Next real fuel H' it').
Proof. intros fuel it it' Rl. unfold it_Next. apply skip_rel. apply next_rel. exact Rl. Qed.
Lemma from_rel : forall fuel i j, relR (rel_it x x') (it_from real fuel H x i j) (it_from real fuel H' x' i j).
Proof. intros fuel i j. unfold it_from. apply Next_rel. repeat split. Qed.
End One.

Variables (m m' b b' : mat).
Hypothesis SEm : same_elems real H m H' m'.
Hypothesis SEb : same_elems real H b H' b'.

Definition jrel (s s' : jstate) : Prop :=
  rel_it m m' (j_it1 s) (j_it1 s') /\ rel_it b b' (j_it2 s) (j_it2 s') /\
  j_i s = j_i s' /\ j_j s = j_j s' /\ j_s1 s = j_s1 s' /\ j_s2 s = j_s2 s'.

Lemma jt_Next_rel : forall fuel s s', jrel s s' -> relR jrel (jt_Next real fuel H s) (jt_Next real fuel H' s').
Proof.
  intros fuel s s' (R1 & R2 & Ei & Ej & E1 & E2). unfold jt_Next.
  rewrite <- (ok_rel m m' SEm _ _ R1), <- (ok_rel b b' SEb _ _ R2), <- (get_rel m m' SEm _ _ R1), <- (get_rel b b' SEb _ _ R2),
          <- (index_rel m m' _ _ R1), <- (index_rel b b' _ _ R2), <- Ei, <- Ej.
  match goal with |- relR _ (bind ?X _) (bind ?X _) => destruct X as [[[i j] s1]| |]; cbn [bind]; try exact I end.
  match goal with |- relR _ (bind ?X _) (bind ?X _) => destruct X as [[[[i2 j2] s1'] s2]| |]; cbn [bind]; try exact I end.
  apply (relR_bind _ _ _ _ (rel_it m m')).
  { destruct s1'; [apply Next_rel; assumption|exact R1]. }
  intros it1 it1' Ra. apply (relR_bind _ _ _ _ (rel_it b b')).
  { destruct s2; [apply Next_rel; assumption|exact R2]. }
  intros it2 it2' Rb. simpl. repeat split; try reflexivity; first [apply Ra|apply Rb].
Qed.
Lemma jt_Ok_rel : forall s s', jrel s s' -> jt_Ok s = jt_Ok s'.
Proof. intros s s' (_ & _ & _ & _ & E1 & E2). unfold jt_Ok. rewrite E1, E2. reflexivity. Qed.
Lemma jt_run_rel : forall n fuel s s', jrel s s' -> jt_run real n fuel H s = jt_run real n fuel H' s'.
Proof.
  induction n as [|n IH]; intros fuel s s' J; [reflexivity|]. cbn [jt_run]. rewrite <- (jt_Ok_rel s s' J).
  destruct (jt_Ok s); [|reflexivity]. pose proof (jt_Next_rel fuel s s' J) as RN.
  destruct (jt_Next real fuel H s) as [t| |]; destruct (jt_Next real fuel H' s') as [t'| |]; simpl in RN; try contradiction; cbn [bind]; try reflexivity.
  rewrite (IH fuel t t' RN). destruct J as (_ & _ & Ei & Ej & E1 & E2). rewrite Ei, Ej, E1, E2. reflexivity.
Qed.

Theorem joint_on_views_equals_joint_on_copies : mJoint real H m b = mJoint real H' m' b'.
Proof.
  unfold mJoint. assert (EF : (iter_fuel m + iter_fuel b)%nat = (iter_fuel m' + iter_fuel b')%nat).
  { destruct SEm as (A1 & A2 & _). destruct SEb as (B1 & B2 & _). unfold iter_fuel. rewrite A1, A2, B1, B2. reflexivity. }
  rewrite <- EF. set (fuel := (iter_fuel m + iter_fuel b)%nat). unfold jt_init.
  pose proof (from_rel m m' SEm fuel 0 0) as F1. pose proof (from_rel b b' SEb fuel 0 0) as F2.
  destruct (it_from real fuel H m 0 0) as [i1| |]; destruct (it_from real fuel H' m' 0 0) as [i1'| |]; simpl in F1; try contradiction; cbn [bind]; try reflexivity.
  destruct (it_from real fuel H b 0 0) as [i2| |]; destruct (it_from real fuel H' b' 0 0) as [i2'| |]; simpl in F2; try contradiction; cbn [bind]; try reflexivity.
  assert (J0 : jrel (mkJ i1 i2 (-1) (-1) None 0) (mkJ i1' i2' (-1) (-1) None 0)) by (repeat split; first [apply F1|apply F2|reflexivity]).
  pose proof (jt_Next_rel fuel _ _ J0) as RN.
  destruct (jt_Next real fuel H _) as [t| |]; destruct (jt_Next real fuel H' _) as [t'| |]; simpl in RN; try contradiction; cbn [bind]; try reflexivity.
  apply jt_run_rel. exact RN.
Qed.
End Lock.

Example joint_nontrivial :
  let H := [[1; 2; 3; 4; 0; 6; 7; 8; 9]] in
  let p := new_mat 0 3 3 in
  mJoint false H (DenseP.SLICE p 0 2 0 2) (DenseP.T (DenseP.SLICE p 1 3 1 3))
  = ROk [0; 0; 1; 1; 0; 0; 1; 1; 2; 8; 1; 0; 1; 4; 6; 1; 1; 0; 0; 9].
Proof. vm_compute. reflexivity. Qed.
