(* C10 — operations applied to a view give the same result as the same operation applied to an
   independent deep copy holding the same elements.  Every read-only / arithmetic operation of the
   model that reaches the storage only through index (mAT) is a function of the view's dimensions and
   of its element function; the deep copy has the same dimensions and the same element function.
   MarshalJSON and AsVector bypass index on some headers: JSON is proved equal to the re-packed form on
   every well-formed header, AsVector is proved correct on whole-storage (non-transposed) matrices and
   stays refuted on views (F-ASVEC). *)
From Coq Require Import ZArith List Bool Lia.
From ADV Require Import C10.Gen C10.Model C10.Spec C10.ProofsIndex C10.ProofsViews C10.ProofsIter
                        C10.ProofsIterSkip C10.ProofsOps C10.ProofsTipGen.
Import ListNotations.
Open Scope Z_scope.

(* ---------------------------------------------------------------- extensionality of the monadic loops *)
Lemma mapR_ext : forall X Y (g h : X -> R Y) l, (forall x, g x = h x) -> mapR g l = mapR h l.
Proof. intros X Y g h l E. induction l as [|x l IH]; [reflexivity|]. cbn [mapR]. rewrite E, IH. reflexivity. Qed.
Lemma foldR_ext : forall X S (g h : S -> X -> R S) l s, (forall s x, g s x = h s x) -> foldR g l s = foldR h l s.
Proof.
  intros X S g h l. induction l as [|x l IH]; intros s E; [reflexivity|]. cbn [foldR]. rewrite E.
  destruct (h s x); simpl; try reflexivity. apply IH. exact E.
Qed.
Lemma mapR_ROk : forall X Y (g : X -> R Y) (h : X -> Y) l, (forall x, In x l -> g x = ROk (h x)) ->
  mapR g l = ROk (map h l).
Proof.
  intros X Y g h l E. induction l as [|x l IH]; [reflexivity|]. cbn [mapR map].
  rewrite (E x (or_introl eq_refl)). cbn [bind]. rewrite IH by (intros y Hy; apply E; right; exact Hy). reflexivity.
Qed.

Lemma mapR_pre : forall X Y Z' (g : Y -> R Z') (f : X -> Y) l, mapR g (map f l) = mapR (fun x => g (f x)) l.
Proof. intros X Y Z' g f l. induction l as [|x l IH]; [reflexivity|]. cbn [map mapR]. rewrite IH. reflexivity. Qed.

(* ---------------------------------------------------------------- position t of the nested-loop order *)
Lemma nth_positions : forall n m i j d, 0 <= i < n -> 0 <= j < m ->
  nth (Z.to_nat (i * m + j)) (positions n m) d = (i, j).
Proof.
  intros n m i j d Hi Hj. rewrite <- row_major_lin_eq by lia. unfold row_major_lin.
  set (N := Z.to_nat (n * m)). set (t := Z.to_nat (i * m + j)).
  assert (Ht : (t < N)%nat) by (unfold t, N; nia).
  rewrite (nth_indep _ d (rm_pos m (Z.of_nat 0))) by (rewrite !map_length, seq_length; exact Ht).
  rewrite map_nth, map_nth, seq_nth by exact Ht. simpl Nat.add. unfold t. rewrite Z2Nat.id by nia.
  unfold rm_pos. f_equal.
  - symmetry. apply Z.div_unique with (r := j); [lia|ring].
  - symmetry. apply Z.mod_unique with (q := i); [lia|ring].
Qed.
Lemma positions_length : forall n m, 0 <= n -> 0 <= m -> length (positions n m) = Z.to_nat (n * m).
Proof. intros n m Hn Hm. rewrite <- row_major_lin_eq by lia. unfold row_major_lin. rewrite !map_length, seq_length. reflexivity. Qed.

(* ---------------------------------------------------------------- same elements *)
Definition same_elems (real : bool) (H : heap) (m : mat) (H' : heap) (m' : mat) : Prop :=
  d_rows m = d_rows m' /\ d_cols m = d_cols m' /\ forall i j, mAT real H m i j = mAT real H' m' i j.

Section ReadOps.
Variable real : bool.
Variables (H H' : heap) (m m' : mat).
Hypothesis SE : same_elems real H m H' m'.

Lemma se_read_all : read_all real H m = read_all real H' m'.
Proof.
  destruct SE as (Er & Ec & EA). unfold read_all, mpos. rewrite !k_dims_P, <- Er, <- Ec.
  apply mapR_ext. intros p. apply EA.
Qed.
Lemma se_row : forall i, mROW real H m i = mROW real H' m' i.
Proof. destruct SE as (Er & Ec & EA). intros i. unfold mROW. rewrite <- Ec. apply mapR_ext. intros j. apply EA. Qed.
Lemma se_col : forall j, mCOL real H m j = mCOL real H' m' j.
Proof. destruct SE as (Er & Ec & EA). intros j. unfold mCOL. rewrite <- Er. apply mapR_ext. intros i. apply EA. Qed.
Lemma se_diag : mDIAG real H m = mDIAG real H' m'.
Proof.
  destruct SE as (Er & Ec & EA). unfold mDIAG. rewrite !k_dims_P, <- Er, <- Ec.
  destruct (negb (d_rows m =? d_cols m)); [reflexivity|]. apply mapR_ext. intros i. apply EA.
Qed.
Lemma se_mdotv : forall rlen b, mMdotV real H rlen m b = mMdotV real H' rlen m' b.
Proof.
  destruct SE as (Er & Ec & EA). intros rlen b. unfold mMdotV. rewrite !k_dims_P, <- Er, <- Ec.
  destruct (negb ((rlen =? d_rows m) && (zlen b =? d_cols m))); [reflexivity|].
  destruct ((d_rows m =? 0) || (d_cols m =? 0)); [reflexivity|].
  apply mapR_ext. intros i. apply foldR_ext. intros acc j. rewrite EA. reflexivity.
Qed.
Lemma se_vdotm : forall rlen a, mVdotM real H rlen a m = mVdotM real H' rlen a m'.
Proof.
  destruct SE as (Er & Ec & EA). intros rlen a. unfold mVdotM. rewrite !k_dims_P, <- Er, <- Ec.
  destruct (negb ((rlen =? d_cols m) && (zlen a =? d_rows m))); [reflexivity|].
  destruct ((d_rows m =? 0) || (d_cols m =? 0)); [reflexivity|].
  apply mapR_ext. intros i. apply foldR_ext. intros acc j. rewrite EA. reflexivity.
Qed.
Lemma se_string : mString real H m = mString real H' m'.
Proof. unfold mString. rewrite se_read_all. destruct SE as (Er & _). rewrite Er. reflexivity. Qed.
Lemma se_export : mExportImport real H m = mExportImport real H' m'.
Proof. unfold mExportImport. rewrite se_read_all. destruct SE as (Er & Ec & _). rewrite Er, Ec. reflexivity. Qed.
Lemma se_issym : mIsSymmetric real H m = mIsSymmetric real H' m'.
Proof.
  destruct SE as (Er & Ec & EA). unfold mIsSymmetric. rewrite !k_dims_P, <- Er, <- Ec.
  destruct (negb (d_rows m =? d_cols m)); [reflexivity|].
  apply foldR_ext. intros acc p. rewrite !EA. reflexivity.
Qed.
(* the inner product of MdotM: row i of a view times column j of another one *)
Lemma se_dot_left : forall (b : mat) i j m1, dot real H m b i j m1 = dot real H m b i j m1.
Proof. reflexivity. Qed.
End ReadOps.

(* both operands of a product read through views *)
Lemma se_dot : forall real H H' (a a' b b' : mat) i j m1,
  same_elems real H a H' a' -> same_elems real H b H' b' ->
  dot real H a b i j m1 = dot real H' a' b' i j m1.
Proof.
  intros real H H' a a' b b' i j m1 (_ & _ & EA) (_ & _ & EB). unfold dot.
  apply foldR_ext. intros acc k. rewrite EA, EB. reflexivity.
Qed.
(* the element function determines the iterator's report *)
Lemma se_iterate : forall real H H' (m m' : mat), wf_in H m -> wf_in H' m' -> same_elems real H m H' m' ->
  mIterate real H m 0 0 = mIterate real H' m' 0 0 /\
  forall i j, in_range m i j -> mIterate real H m i j = mIterate real H' m' i j.
Proof.
  intros real H H' m m' W W' (Er & Ec & EA).
  assert (RE : forall ps, report real H m ps = report real H' m' ps).
  { assert (EE : forall p, elem real H m p = elem real H' m' p) by (intros p; unfold elem; rewrite EA; reflexivity).
    intros ps. unfold report.
    rewrite (filter_ext (nonzero real H m) (nonzero real H' m')) by (intros p; unfold nonzero; rewrite EE; reflexivity).
    apply flat_map_ext. intros p. unfold triple. rewrite EE. reflexivity. }
  split.
  - rewrite (iterate_all real H m W), (iterate_all real H' m' W'), <- Er, <- Ec, RE. reflexivity.
  - intros i j Rg. assert (Rg' : in_range m' i j) by (unfold in_range in *; rewrite <- Er, <- Ec; exact Rg).
    rewrite (iterate_from real H m W i j Rg), (iterate_from real H' m' W' i j Rg'), <- Er, <- Ec, RE. reflexivity.
Qed.

(* ---------------------------------------------------------------- whole-storage matrices: storage = elements *)
Definition whole (m : mat) : Prop :=
  d_transposed m = false /\ d_rowOffset m = 0 /\ d_colOffset m = 0 /\ d_rowMax m = d_rows m /\ d_colMax m = d_cols m.
Lemma read_all_whole : forall real H (m : mat), wf_in H m -> whole m ->
  read_all real H m = ROk (store_of H (d_values m)).
Proof.
  intros real H m [Hl (Hr & Hc & _ & _ & _ & _ & Len)] (Ht & Hro & Hco & Hrm & Hcm).
  unfold read_all, mpos. rewrite k_dims_P, <- row_major_lin_eq by lia. unfold row_major_lin.
  set (s := store_of H (d_values m)) in *. rewrite Hrm, Hcm in Len.
  assert (EN : Z.to_nat (d_rows m * d_cols m) = length s) by (unfold zlen in Len; lia).
  rewrite EN. rewrite <- (map_nth_seq_id s 0) at 2.
  rewrite map_map.
  rewrite mapR_pre. rewrite (mapR_ROk _ _ _ (fun t => nth t s 0)); [reflexivity|].
  intros t Ht'. apply in_seq in Ht'.
  assert (Hc0 : 0 < d_cols m) by (unfold zlen in Len; nia).
  assert (Ht2 : 0 <= Z.of_nat t < d_rows m * d_cols m) by (unfold zlen in Len; lia).
  unfold rm_pos, mAT, idx. cbn [fst snd]. rewrite k_index_P.
  assert (Rg : in_range m (Z.of_nat t / d_cols m) (Z.of_nat t mod d_cols m)).
  { unfold in_range. split; [|apply Z.mod_pos_bound; lia].
    split; [apply Z.div_pos; lia|]. apply Z.div_lt_upper_bound; lia. }
  rewrite (index_some m _ _ Rg), Ht, Hro, Hco, Hcm. cbn [of_opt bind].
  replace ((0 + Z.of_nat t / d_cols m) * d_cols m + (0 + Z.of_nat t mod d_cols m)) with (Z.of_nat t)
    by (rewrite (Z.div_mod (Z.of_nat t) (d_cols m)) at 1 by lia; ring).
  fold s. rewrite get_ok by (unfold zlen; lia). rewrite Nat2Z.id. reflexivity.
Qed.

(* MarshalJSON writes Rows, Cols and the elements of the view in row-major order, on EVERY well-formed
   header: the branch that copies the raw storage is taken only when the storage is the view *)
Lemma json_is_repacked : forall real H (m : mat), wf_in H m ->
  mJSON real H m = (l <- read_all real H m ;; ROk (d_rows m :: d_cols m :: l)).
Proof.
  intros real H m W. unfold mJSON.
  destruct (d_transposed m || (d_rowMax m >? d_rows m) || (d_colMax m >? d_cols m)) eqn:E; [reflexivity|].
  apply orb_false_iff in E. destruct E as [E E3]. apply orb_false_iff in E. destruct E as [E1 E2].
  rewrite Z.gtb_ltb in E2, E3. apply Z.ltb_ge in E2. apply Z.ltb_ge in E3.
  assert (Wh : whole m). { destruct W as [_ (Hr & Hc & Hro & Hco & Hrm & Hcm & _)]. unfold whole. split; [exact E1|]. repeat split; lia. }
  rewrite (read_all_whole real H m W Wh). reflexivity.
Qed.
(* AsVector / AsConstVector of a matrix that owns its whole storage: its elements in row-major order *)
Lemma asvector_whole : forall real H (m : mat), wf_in H m -> whole m ->
  (r <- mAsVector real H m ;; ROk (fst r)) = read_all real H m.
Proof.
  intros real H m W Wh. rewrite (read_all_whole real H m W Wh). unfold mAsVector.
  destruct Wh as (Ht & Hro & Hco & Hrm & Hcm). rewrite Hro, Hco, Hrm, Hcm, !Z.sub_0_r, !Z.ltb_irrefl.
  rewrite andb_false_r. reflexivity.
Qed.

(* ---------------------------------------------------------------- the independent deep copy *)
Definition deep_copy (real : bool) (H : heap) (m : mat) : R (heap * mat) :=
  l <- read_all real H m ;; let '(H', loc) := alloc H l in ROk (H', new_mat loc (d_rows m) (d_cols m)).

Lemma deep_copy_spec : forall real H (m : mat), wf_in H m ->
  exists H' c, deep_copy real H m = ROk (H', c) /\
    d_values c = length H /\ d_values c <> d_values m /\ whole c /\ wf_in H' c /\
    (forall l, (l < length H)%nat -> store_of H' l = store_of H l) /\
    same_elems real H m H' c.
Proof.
  intros real H m W. pose proof W as [Hl (Hr & Hc & _)].
  set (el := fun p : Z * Z => elem real H m p).
  assert (ER : read_all real H m = ROk (map el (positions (d_rows m) (d_cols m)))).
  { unfold read_all, mpos. rewrite k_dims_P. apply mapR_ROk. intros [i j] I.
    apply in_positions in I. apply (mAT_elem real H m W i j I). }
  unfold deep_copy. rewrite ER. cbn [bind].
  set (l := map el (positions (d_rows m) (d_cols m))).
  pose proof (alloc_spec H l) as A. destruct (alloc H l) as [H' loc] eqn:EA.
  destruct A as (A1 & A2 & A3 & A4).
  exists H', (new_mat loc (d_rows m) (d_cols m)). split; [reflexivity|].
  assert (LenL : zlen l = d_rows m * d_cols m).
  { unfold zlen, l. rewrite map_length, positions_length by lia. nia. }
  assert (Wc : wf_in H' (new_mat loc (d_rows m) (d_cols m))).
  { unfold wf_in, new_mat; simpl. split; [lia|]. rewrite A2, LenL. unfold wf; simpl. repeat split; lia. }
  split; [exact A1|]. split; [simpl; lia|]. split; [unfold whole, new_mat; simpl; repeat split; reflexivity|].
  split; [exact Wc|]. split; [exact A3|].
  unfold same_elems. split; [reflexivity|]. split; [reflexivity|]. intros i j.
  destruct (Z_lt_dec i 0) as [N1|P1]; [rewrite !mAT_out_of_range by (unfold in_range; simpl; lia); reflexivity|].
  destruct (Z_lt_dec j 0) as [N2|P2]; [rewrite !mAT_out_of_range by (unfold in_range; simpl; lia); reflexivity|].
  destruct (Z_ge_dec i (d_rows m)) as [N3|P3]; [rewrite !mAT_out_of_range by (unfold in_range; simpl; lia); reflexivity|].
  destruct (Z_ge_dec j (d_cols m)) as [N4|P4]; [rewrite !mAT_out_of_range by (unfold in_range; simpl; lia); reflexivity|].
  assert (Rg : in_range m i j) by (unfold in_range; lia).
  rewrite (mAT_elem real H m W i j Rg).
  unfold mAT, idx. rewrite k_index_P.
  assert (Rc : in_range (new_mat loc (d_rows m) (d_cols m)) i j) by (unfold in_range; simpl; lia).
  rewrite (index_some _ i j Rc). cbn [of_opt bind new_mat d_transposed d_rowOffset d_colOffset d_colMax d_values].
  rewrite A2. replace ((0 + i) * d_cols m + (0 + j)) with (i * d_cols m + j) by ring.
  rewrite get_ok by nia. f_equal. unfold l.
  rewrite (nth_indep _ 0 (el (0, 0))) by (rewrite map_length, positions_length by lia; nia).
  rewrite map_nth, nth_positions by lia. reflexivity.
Qed.

(* ---------------------------------------------------------------- the theorem *)
(* every read-only / arithmetic operation of the model, applied to ANY well-formed view (any composition
   of Slice / ConstSlice / T over any storage), equals the operation applied to an independent deep copy *)
Theorem op_on_view_equals_op_on_copy : forall real H (m : mat), wf_in H m ->
  exists H' c, deep_copy real H m = ROk (H', c) /\ d_values c <> d_values m /\ whole c /\ wf_in H' c /\
    (forall l, (l < length H)%nat -> store_of H' l = store_of H l) /\
    (d_rows c, d_cols c) = (d_rows m, d_cols m) /\
    (forall i j, mAT real H m i j = mAT real H' c i j) /\
    read_all real H m = read_all real H' c /\
    (forall i, mROW real H m i = mROW real H' c i) /\
    (forall j, mCOL real H m j = mCOL real H' c j) /\
    mDIAG real H m = mDIAG real H' c /\
    (forall rlen b, mMdotV real H rlen m b = mMdotV real H' rlen c b) /\
    (forall rlen a, mVdotM real H rlen a m = mVdotM real H' rlen a c) /\
    mString real H m = mString real H' c /\
    mExportImport real H m = mExportImport real H' c /\
    mIsSymmetric real H m = mIsSymmetric real H' c /\
    mJSON real H m = mJSON real H' c /\
    mIterate real H m 0 0 = mIterate real H' c 0 0 /\
    (forall i j, in_range m i j -> mIterate real H m i j = mIterate real H' c i j) /\
    (* AsVector is right on the copy (it owns its storage); on the view it is the finding F-ASVEC *)
    (r <- mAsVector real H' c ;; ROk (fst r)) = read_all real H m.
Proof.
  intros real H m W.
  destruct (deep_copy_spec real H m W) as (H' & c & E & Fr & Ne & Wh & Wc & Old & SE).
  exists H', c. split; [exact E|]. split; [exact Ne|]. split; [exact Wh|]. split; [exact Wc|]. split; [exact Old|].
  pose proof SE as (Er & Ec & EA).
  split; [rewrite Er, Ec; reflexivity|]. split; [exact EA|].
  split; [apply se_read_all; exact SE|]. split; [apply se_row; exact SE|]. split; [apply se_col; exact SE|].
  split; [apply se_diag; exact SE|]. split; [apply se_mdotv; exact SE|]. split; [apply se_vdotm; exact SE|].
  split; [apply se_string; exact SE|]. split; [apply se_export; exact SE|]. split; [apply se_issym; exact SE|].
  split.
  { rewrite (json_is_repacked real H m W), (json_is_repacked real H' c Wc), (se_read_all real H H' m c SE), Er, Ec. reflexivity. }
  destruct (se_iterate real H H' m c W Wc SE) as [I1 I2].
  split; [exact I1|]. split; [exact I2|].
  rewrite (asvector_whole real H' c Wc Wh). symmetry. apply se_read_all. exact SE.
Qed.

(* the products: a fresh receiver, both operands read through views (also a transposed slice as the
   right operand): every inner product equals the one over deep copies *)
Theorem product_reads_through_views : forall real H (a b : mat), wf_in H a -> wf_in H b ->
  exists Ha ca Hb cb, deep_copy real H a = ROk (Ha, ca) /\ deep_copy real Ha b = ROk (Hb, cb) /\
    forall i j m1, dot real H a b i j m1 = dot real Hb ca cb i j m1.
Proof.
  intros real H a b Wa Wb.
  destruct (deep_copy_spec real H a Wa) as (Ha & ca & Ea & Fra & Nea & Wha & Wca & Olda & SEa).
  assert (Wb' : wf_in Ha b).
  { destruct Wb as [Hl Wb]. pose proof (alloc_spec H []) as _. unfold wf_in. rewrite (Olda _ Hl).
    split; [|exact Wb]. destruct Wca as [Hlc _]. lia. }
  destruct (deep_copy_spec real Ha b Wb') as (Hb & cb & Eb & Frb & Neb & Whb & Wcb & Oldb & SEb).
  exists Ha, ca, Hb, cb. split; [exact Ea|]. split; [exact Eb|]. intros i j m1.
  (* a read through b / a / ca is unaffected by the later allocations *)
  assert (ATold : forall (x : mat) H1 H2, (forall l, (l < length H1)%nat -> store_of H2 l = store_of H1 l) ->
            (d_values x < length H1)%nat -> forall i j, mAT real H2 x i j = mAT real H1 x i j).
  { intros x H1 H2 O Hx i' j'. unfold mAT. rewrite (O _ Hx). reflexivity. }
  apply se_dot.
  - destruct SEa as (Er & Ec & EA). split; [exact Er|]. split; [exact Ec|]. intros i' j'.
    rewrite EA. symmetry. apply (ATold ca Ha Hb Oldb). destruct Wca as [Hlc _]. exact Hlc.
  - destruct SEb as (Er & Ec & EB). split; [exact Er|]. split; [exact Ec|]. intros i' j'.
    rewrite <- EB. symmetry. apply (ATold b H Ha Olda). destruct Wb as [Hl _]. exact Hl.
Qed.
