(* C10 — Tip(): (1) the algorithm is natural in the storage contents (it only moves cells; its control
   flow reads k, cycle and the visited set, never a value), so a sweep with distinct entries decides every
   content of the same shape; (2) the number theory of the cycle map k |-> rows*k mod (mn-1): it sends the
   row-major position of (i,j) to the row-major position of (j,i) in the transposed shape, rows is coprime
   to mn-1, and the map is a permutation of [0, mn-1) with inverse k |-> cols*k mod (mn-1). *)
From Coq Require Import ZArith List Bool Lia Znumtheory.
From ADV Require Import C10.Gen C10.Model C10.Spec C10.ProofsIndex C10.ProofsViews C10.ProofsTip.
Import ListNotations.
Open Scope Z_scope.

(* ---------------------------------------------------------------- naturality *)
Definition Rmap {X Y} (g : X -> Y) (r : R X) : R Y :=
  match r with ROk x => ROk (g x) | RPanic => RPanic | RFuel => RFuel end.

Section Natural.
Variable f : Z -> Z.

Lemma zlen_map : forall s : list Z, zlen (map f s) = zlen s.
Proof. intros s. unfold zlen. rewrite map_length. reflexivity. Qed.
Lemma upd_map : forall n v (s : list Z), upd n (f v) (map f s) = map f (upd n v s).
Proof. intros n v s. revert n. induction s as [|x s IH]; intros [|n]; simpl; try reflexivity. rewrite IH. reflexivity. Qed.
Lemma get_map : forall s k, get (map f s) k = Rmap f (get s k).
Proof.
  intros s k. unfold get. rewrite zlen_map.
  destruct ((k <? 0) || (k >=? zlen s)) eqn:E; [reflexivity|]. simpl. f_equal.
  apply orb_false_iff in E. destruct E as [E1 E2]. apply Z.ltb_ge in E1. rewrite Z.geb_leb in E2. apply Z.leb_gt in E2.
  rewrite (nth_indep _ 0 (f 0)) by (rewrite map_length; unfold zlen in E2; lia). apply map_nth.
Qed.
Lemma put_map : forall s k v, put (map f s) k (f v) = Rmap (map f) (put s k v).
Proof.
  intros s k v. unfold put. rewrite zlen_map.
  destruct ((k <? 0) || (k >=? zlen s)); [reflexivity|]. simpl. rewrite upd_map. reflexivity.
Qed.
Lemma swap_store_map : forall s k c, swap_store (map f s) k c = Rmap (map f) (swap_store s k c).
Proof.
  intros s k c. unfold swap_store. rewrite !get_map.
  destruct (get s k) as [v1| |]; simpl; try reflexivity.
  destruct (get s c) as [v2| |]; simpl; try reflexivity.
  rewrite put_map. destruct (put s k v2) as [s1| |]; simpl; try reflexivity.
  apply put_map.
Qed.

Definition st_map (p : list bool * list Z) : list bool * list Z := (fst p, map f (snd p)).
Lemma tip_cycle_map : forall fuel rows mn cycle k vis s,
  tip_cycle fuel rows mn cycle k vis (map f s) = Rmap st_map (tip_cycle fuel rows mn cycle k vis s).
Proof.
  induction fuel as [|fuel IH]; intros rows mn cycle k vis s; [reflexivity|].
  cbn [tip_cycle]. set (k' := if negb (k =? mn - 1) then Z.rem (rows * k) (mn - 1) else k).
  destruct ((k' <? 0) || (k' >=? mn)); [reflexivity|].
  rewrite swap_store_map. destruct (swap_store s k' cycle) as [s'| |]; simpl; try reflexivity.
  destruct (k' =? cycle); [reflexivity|]. apply IH.
Qed.
Definition tip_step (rows mn : Z) (st : list bool * list Z) (cycle : Z) : R (list bool * list Z) :=
  let '(vis, s) := st in
  if nth (Z.to_nat cycle) vis false then ROk st
  else tip_cycle (S (length s)) rows mn cycle cycle vis s.
Lemma tip_store_unfold : forall rows s,
  tip_store rows s = (r <- foldR (tip_step rows (zlen s)) (map (fun c => c + 1) (zseq (zlen s - 1)))
                                 (map (fun _ => false) s, s) ;; ROk (snd r)).
Proof. reflexivity. Qed.
Lemma tip_fold_map : forall rows mn cs vis s0,
  foldR (tip_step rows mn) cs (vis, map f s0) = Rmap st_map (foldR (tip_step rows mn) cs (vis, s0)).
Proof.
  intros rows mn cs. induction cs as [|c cs IHc]; intros vis s0; [reflexivity|]. cbn [foldR].
  unfold tip_step at 1 3. rewrite map_length.
  destruct (nth (Z.to_nat c) vis false).
  - cbn [bind]. apply IHc.
  - rewrite tip_cycle_map. destruct (tip_cycle (S (length s0)) rows mn c c vis s0) as [[vis' s']| |]; simpl; try reflexivity.
    apply IHc.
Qed.
Lemma tip_store_map : forall rows s, tip_store rows (map f s) = Rmap (map f) (tip_store rows s).
Proof.
  intros rows s. rewrite !tip_store_unfold. rewrite zlen_map, map_map, tip_fold_map.
  destruct (foldR (tip_step rows (zlen s)) _ (map (fun _ : Z => false) s, s)) as [[vis' s']| |]; reflexivity.
Qed.

(* reading through a header commutes with relabelling the storage *)
Lemma mAT_map : forall real (m : mat) s i j, d_values m = 0%nat ->
  mAT real [map f s] m i j = Rmap f (mAT real [s] m i j).
Proof.
  intros real m s i j E. unfold mAT. destruct (idx real m i j) as [k| |]; simpl; try reflexivity.
  rewrite E. unfold store_of. simpl. apply get_map.
Qed.
Lemma mapR_map : forall X (g h : X -> R Z) (l : list X), (forall x, g x = Rmap f (h x)) ->
  mapR g l = Rmap (map f) (mapR h l).
Proof.
  intros X g h l E. induction l as [|x l IH]; [reflexivity|]. cbn [mapR]. rewrite E.
  destruct (h x) as [y| |]; simpl; try reflexivity. rewrite IH.
  destruct (mapR h l) as [ys| |]; reflexivity.
Qed.
Lemma read_all_map : forall real (m : mat) s, d_values m = 0%nat ->
  read_all real [map f s] m = Rmap (map f) (read_all real [s] m).
Proof. intros real m s E. unfold read_all. apply mapR_map. intros p. apply mAT_map. exact E. Qed.
End Natural.

(* every storage is a relabelling of the storage 1, 2, ..., mn used by the sweep *)
Lemma map_nth_seq_id : forall (s : list Z) d, map (fun i => nth i s d) (seq 0 (length s)) = s.
Proof.
  induction s as [|x s IH]; intros d; [reflexivity|]. simpl. f_equal.
  rewrite <- seq_shift, map_map. apply IH.
Qed.
Lemma relabel : forall s : list Z,
  map (fun v => nth (Z.to_nat (v - 1)) s 0) (map (fun k => k + 1) (zseq (zlen s))) = s.
Proof.
  intros s. unfold zseq, zlen. rewrite Nat2Z.id, !map_map.
  rewrite <- (map_nth_seq_id s 0) at 2. apply map_ext. intros i. f_equal. lia.
Qed.

Lemma zl_eqb_eq : forall a b, zl_eqb a b = true -> a = b.
Proof.
  induction a as [|x a IH]; intros [|y b] E; try reflexivity; unfold zl_eqb in E; simpl in E; try discriminate.
  apply andb_prop in E. destruct E as [El Ef]. apply andb_prop in Ef. destruct Ef as [Exy Ef].
  apply Z.eqb_eq in Exy. subst y. f_equal. apply IH. unfold zl_eqb. rewrite El, Ef. reflexivity.
Qed.
Lemma read_all_real : forall real H m, read_all real H m = read_all false H m.
Proof. intros [] H m; reflexivity. Qed.

(* Tip on a matrix that owns its whole storage (not transposed), for EVERY storage content, on every
   shape of the sweep: the result has the exchanged dimensions and reads exactly as the former T() *)
Definition tip_spec (real : bool) (rows cols : Z) (s : list Z) : Prop :=
  let m := new_mat 0 rows cols in
  exists s' m' l, mTip [s] m = ROk ([s'], m') /\ d_rows m' = cols /\ d_cols m' = rows /\ d_transposed m' = false /\
    read_all real [s'] m' = ROk l /\ read_all real [s] (k_T real m) = ROk l.
Lemma tip_any_contents : forall real rows cols s, tip_ok rows cols = true -> zlen s = rows * cols ->
  tip_spec real rows cols s.
Proof.
  intros real rows cols s Ok Hl. unfold tip_spec. rewrite !read_all_real.
  assert (KT : k_T real (new_mat 0 rows cols) = DenseP.T (new_mat 0 rows cols)) by (destruct real; reflexivity).
  rewrite KT. clear KT.
  set (g := fun v => nth (Z.to_nat (v - 1)) s 0).
  set (s0 := map (fun k => k + 1) (zseq (rows * cols))).
  assert (Es : s = map g s0) by (unfold g, s0; rewrite <- Hl; symmetry; apply relabel).
  unfold tip_ok in Ok. fold s0 in Ok. unfold mTip in Ok |- *. simpl d_transposed in Ok |- *. cbv iota in Ok |- *.
  simpl d_values in Ok |- *. simpl d_rows in Ok |- *. simpl d_cols in Ok |- *.
  simpl d_rowOffset in Ok |- *. simpl d_colOffset in Ok |- *. simpl d_rowMax in Ok |- *. simpl d_colMax in Ok |- *.
  change (store_of [s] 0) with s. change (store_of [s0] 0) with s0 in Ok.
  rewrite Es, tip_store_map.
  destruct (tip_store rows s0) as [s0'| |] eqn:Et; cbn [bind Rmap] in Ok |- *; try discriminate Ok.
  change (set_store [s0] 0 s0') with [s0'] in Ok. change (set_store [map g s0] 0 (map g s0')) with [map g s0'].
  apply andb_prop in Ok. destruct Ok as [Ok1 Ok2]. apply andb_prop in Ok1. destruct Ok1 as [Or Oc].
  set (m' := mkDense 0%nat cols rows 0 cols 0 rows false) in *.
  unfold ropt_eqb in Ok2.
  destruct (read_all false [s0'] m') as [x| |] eqn:Ex; try discriminate Ok2.
  destruct (read_all false [s0] (DenseP.T (new_mat 0 rows cols))) as [y| |] eqn:Ey; try discriminate Ok2.
  apply zl_eqb_eq in Ok2. subst y.
  exists (map g s0'), m', (map g x). split; [reflexivity|]. split; [reflexivity|]. split; [reflexivity|].
  split; [reflexivity|].
  rewrite ?read_all_real. rewrite (read_all_map g false m' s0' eq_refl), Ex.
  rewrite (read_all_map g false (DenseP.T (new_mat 0 rows cols)) s0 eq_refl), Ey. split; reflexivity.
Qed.

(* the bounded sweep (24 x 24) that used to discharge tip_ok here is superseded by the induction over the
   cycles for every shape in ProofsTipAll.v; ProofsTip.v keeps the 16 x 16 sweep as an independent cross-check *)

(* ---------------------------------------------------------------- number theory of the cycle map *)
(* the step of the algorithm *)
Definition tip_next (rows mn k : Z) : Z := if negb (k =? mn - 1) then Z.rem (rows * k) (mn - 1) else k.

(* it sends the row-major position of (i,j) in the rows x cols layout to the row-major position of (j,i)
   in the cols x rows layout -- for every shape *)
Lemma tip_next_transposes : forall rows cols i j, 0 <= i < rows -> 0 <= j < cols ->
  tip_next rows (rows * cols) (i * cols + j) = j * rows + i.
Proof.
  intros rows cols i j Hi Hj. unfold tip_next.
  destruct (i * cols + j =? rows * cols - 1) eqn:E; cbn [negb].
  - apply Z.eqb_eq in E. assert (i = rows - 1 /\ j = cols - 1) by nia. nia.
  - apply Z.eqb_neq in E.
    assert (Hlt : i * cols + j < rows * cols - 1) by nia.
    assert (M : 0 < rows * cols - 1) by nia.
    assert (Hb : j * rows + i < rows * cols - 1).
    { destruct (Z.eq_dec j (cols - 1)) as [Ej|Nj]; [|nia].
      destruct (Z.eq_dec i (rows - 1)) as [Ei|Ni]; [subst; nia|nia]. }
    rewrite Z.rem_mod_nonneg by nia.
    symmetry. apply Z.mod_unique with (q := i); [nia|ring].
Qed.

(* rows is coprime to mn - 1 *)
Lemma tip_rel_prime : forall rows cols, rel_prime rows (rows * cols - 1).
Proof. intros rows cols. apply bezout_rel_prime. apply Bezout_intro with (u := cols) (v := -1). ring. Qed.

(* hence k |-> rows*k mod (mn-1) is injective on [0, mn-1) ... *)
Lemma tip_map_injective : forall rows cols a b, 0 <= a < rows * cols - 1 -> 0 <= b < rows * cols - 1 ->
  (rows * a) mod (rows * cols - 1) = (rows * b) mod (rows * cols - 1) -> a = b.
Proof.
  intros rows cols a b Ha Hb E. set (M := rows * cols - 1) in *.
  assert (D : (M | rows * (a - b))).
  { apply Z.mod_divide; [lia|]. rewrite Z.mul_sub_distr_l, Zminus_mod, E, Z.sub_diag. apply Z.mod_0_l. lia. }
  apply Gauss in D; [|apply rel_prime_sym; apply tip_rel_prime].
  destruct D as [q Eq]. assert (q = 0) by nia. subst q. lia.
Qed.
(* ... and a permutation of [0, mn-1): k |-> cols*k mod (mn-1) is its two-sided inverse; 0 is a fixed
   point, so the map permutes [1, mn-2], the range the cycle loop works on (mn-1 is kept fixed by the code) *)
Lemma tip_map_inverse : forall rows cols k, 0 < rows * cols - 1 -> 0 <= k < rows * cols - 1 ->
  (rows * ((cols * k) mod (rows * cols - 1))) mod (rows * cols - 1) = k /\
  (cols * ((rows * k) mod (rows * cols - 1))) mod (rows * cols - 1) = k /\
  0 <= (rows * k) mod (rows * cols - 1) < rows * cols - 1 /\
  ((rows * k) mod (rows * cols - 1) = 0 <-> k = 0).
Proof.
  intros rows cols k HM Hk. set (M := rows * cols - 1) in *.
  assert (A : forall x y, (x * y = M + 1) -> (x * ((y * k) mod M)) mod M = k).
  { intros x y Exy. rewrite Z.mul_mod_idemp_r by lia.
    replace (x * (y * k)) with (k + k * M) by (rewrite Z.mul_assoc, Exy; ring).
    rewrite Z.mod_add by lia. apply Z.mod_small. exact Hk. }
  split; [apply A; unfold M; ring|]. split; [apply A; unfold M; ring|].
  split; [apply Z.mod_pos_bound; lia|].
  split.
  - intros E0. apply (tip_map_injective rows cols k 0); [exact Hk | fold M; lia|].
    fold M. rewrite E0, Z.mul_0_r. symmetry. apply Z.mod_0_l. lia.
  - intros ->. rewrite Z.mul_0_r. apply Z.mod_0_l. lia.
Qed.
