(* C10 (round 6) — the callback operations (Map / MapSet / the writing iterator with ANY stateful callback that
   sees only the element it is handed and its own closure state, Reduce with any callback), matrix (op) scalar,
   Outer, Equals and ConstDiag on ANY well-formed view: same final callback state / result, the view is left with
   the elements the same call gives an independent deep copy, nothing but the view's cells is touched, and the heap
   is the deep copy's elements written back through the view.

   Method: the simulation of ProofsPermView.v ([st]: view heap / copy heap related by "same elements + own frames"),
   extended with the callback's closure state and with a relation between the two iterators (same coordinates,
   one over the view, one over the copy). *)
From Coq Require Import ZArith List Bool Lia.
From ADV Require Import C10.Gen C10.GenAcc C10.Model C10.ModelMap C10.Spec C10.ProofsIndex C10.ProofsViews C10.ProofsIter
                        C10.ProofsIterSkip C10.ProofsOps C10.ProofsTipGen C10.ProofsOpsView C10.ProofsPermView C10.ModelBin C10.ProofsBinView.
Import ListNotations.
Open Scope Z_scope.

Lemma foldR_rel : forall X A B (P : A -> B -> Prop) (f : A -> X -> R A) (g : B -> X -> R B) l,
  (forall a b x, P a b -> relR P (f a x) (g b x)) -> forall a b, P a b -> relR P (foldR f l a) (foldR g l b).
Proof.
  intros X A B P f g l Step. induction l as [|x l IH]; intros a b Pab; [exact Pab|]. cbn [foldR].
  apply (relR_bind _ _ _ _ P P); [apply Step; exact Pab|exact IH].
Qed.

(* MapSet evaluates the receiver cell's index once more than Map: same function *)
Lemma mapset_step_is_map_step : forall real St f m st p, mapset_step real St f m st p = map_step real St f m st p.
Proof.
  intros real St f m st p. unfold mapset_step, map_step, mAT.
  destruct (idx real m (fst p) (snd p)) as [k| |]; reflexivity.
Qed.
Lemma mMapSet_is_mMap : forall real St f s H m, mMapSet real St f s H m = mMap real St f s H m.
Proof. intros. unfold mMapSet, mMap. apply foldR_ext. intros st p. apply mapset_step_is_map_step. Qed.

(* Reduce is the left fold of the callback over the elements read in row-major order *)
Lemma foldR_reads : forall X A (g : X -> R Z) (f : A -> Z -> A) ps r,
  foldR (fun r p => v <- g p ;; ROk (f r v)) ps r = (l <- mapR g ps ;; ROk (fold_left f l r)).
Proof.
  intros X A g f ps. induction ps as [|p ps IH]; intros r; [reflexivity|]. cbn [foldR mapR].
  destruct (g p) as [v| |]; cbn [bind]; try reflexivity. rewrite IH.
  destruct (mapR g ps) as [l| |]; reflexivity.
Qed.
Lemma reduce_is_fold_of_elements : forall real A (f : A -> Z -> A) r H m,
  mReduce real A f r H m = (l <- read_all real H m ;; ROk (fold_left f l r)).
Proof. intros. unfold mReduce, read_all. apply foldR_reads. Qed.

(* ---------------------------------------------------------------- the simulation, with closure state *)
Section SimX.
Variable real : bool.
Variables (m c : mat).
Hypothesis Hloc : d_values c <> d_values m.
Variables (H0 H0' : heap).

Definition stH := st real m c H0 H0'.

Lemma recv_AT : forall H H' i j, stH H H' -> mAT real H m i j = mAT real H' c i j.
Proof. intros H H' i j (S & _). apply (corr_AT real m c H H' m c i j S). left; split; reflexivity. Qed.
Lemma stH_rows_cols : forall H H', stH H H' -> d_rows m = d_rows c /\ d_cols m = d_cols c.
Proof. intros H H' ((_ & _ & (Er & Ec & _) & _) & _). split; assumption. Qed.
Lemma stH_mpos : forall H H', stH H H' -> mpos real m = mpos real c.
Proof. intros H H' S. unfold mpos. rewrite (st_dims real m c H0 H0' H H' S). reflexivity. Qed.

Lemma idx_sim : forall H H' i j, stH H H' -> relR (fun _ _ => True) (idx real m i j) (idx real c i j).
Proof.
  intros H H' i j (S & _). unfold idx. rewrite !k_index_P.
  destruct (in_range_dec m i j) as [Rg|N].
  - assert (Rg' : in_range c i j) by (apply (sim_in_range real m c H H' i j S); exact Rg).
    destruct (DenseP.index m i j) eqn:E1; [|apply index_guard in E1; unfold in_range in Rg; lia].
    destruct (DenseP.index c i j) eqn:E2; [|apply index_guard in E2; unfold in_range in Rg'; lia].
    exact I.
  - assert (N' : ~ in_range c i j) by (intros Q; apply N; apply (sim_in_range real m c H H' i j S); exact Q).
    destruct (index_guard m i j) as [_ G]. rewrite G by (unfold in_range in N; lia).
    destruct (index_guard c i j) as [_ G']. rewrite G' by (unfold in_range in N'; lia). exact I.
Qed.

Section CB.
Variable St : Type.
Variable f : St -> Z -> St * Z.

Definition stS (r r' : St * heap) : Prop := fst r = fst r' /\ stH (snd r) (snd r').

Lemma map_step_sim : forall r r' p, stS r r' -> relR stS (map_step real St f m r p) (map_step real St f c r' p).
Proof.
  intros [s H] [s' H'] p [Es S]. simpl in Es, S. subst s'. unfold map_step. cbn [fst snd].
  rewrite (recv_AT H H' _ _ S). destruct (mAT real H' c (fst p) (snd p)) as [v| |]; cbn [bind]; try exact I.
  apply (relR_bind _ _ _ _ stH stS); [apply (mSET_sim real m c Hloc); exact S|].
  intros Ha Hb Sab. split; [reflexivity|exact Sab].
Qed.
Lemma mMap_sim : forall s H H', stH H H' -> relR stS (mMap real St f s H m) (mMap real St f s H' c).
Proof.
  intros s H H' S. unfold mMap. rewrite <- (stH_mpos H H' S).
  apply (foldR_rel _ _ _ stS); [intros a b x Pab; apply map_step_sim; exact Pab|]. split; [reflexivity|exact S].
Qed.

(* ---- the writing iterator ---- *)
Definition itrel (it it' : DenseIter nat) : Prop :=
  di_m it = m /\ di_m it' = c /\ di_i it = di_i it' /\ di_j it = di_j it'.
Lemma itrel_ok : forall H H' it it', stH H H' -> itrel it it' -> k_ok real it = k_ok real it'.
Proof.
  intros H H' it it' S (A & B & Ei & Ej). destruct (stH_rows_cols H H' S) as [Er Ec].
  rewrite !k_ok_P. unfold DenseP.it_Ok. rewrite A, B, Ei, Ej, Er, Ec. reflexivity.
Qed.
Lemma itrel_next : forall H H' it it', stH H H' -> itrel it it' -> itrel (k_next real it) (k_next real it').
Proof.
  intros H H' it it' S (A & B & Ei & Ej). destruct (stH_rows_cols H H' S) as [Er Ec].
  rewrite !k_next_P. unfold DenseP.it_next. rewrite A, B, Ej, Ec.
  destruct (di_j it' =? d_cols c - 1); unfold itrel; simpl; rewrite ?A, ?B, ?Ei, ?Ej; repeat split; reflexivity.
Qed.
Lemma itrel_get : forall H H' it it', stH H H' -> itrel it it' -> it_get real H it = it_get real H' it'.
Proof. intros H H' it it' S (A & B & Ei & Ej). unfold it_get. rewrite A, B, Ei, Ej. apply recv_AT; exact S. Qed.
Lemma it_skip_sim : forall fuel H H' it it', stH H H' -> itrel it it' ->
  relR itrel (it_skip real fuel H it) (it_skip real fuel H' it').
Proof.
  induction fuel as [|fuel IH]; intros H H' it it' S Rl; [exact I|]. cbn [it_skip].
  rewrite (itrel_ok H H' it it' S Rl). destruct (k_ok real it'); [|exact Rl].
  rewrite (itrel_get H H' it it' S Rl). destruct (it_get real H' it') as [v| |]; cbn [bind]; try exact I.
  destruct (v =? 0); [|exact Rl]. apply IH; [exact S|]. apply (itrel_next H H'); assumption.
Qed.
Lemma it_map_sim : forall fuel r r' it it', stS r r' -> itrel it it' ->
  relR stS (it_map real St f fuel r it) (it_map real St f fuel r' it').
Proof.
  induction fuel as [|fuel IH]; intros [s H] [s' H'] it it' [Es S] Rl; [exact I|]. simpl in Es, S. subst s'.
  cbn [it_map fst snd]. rewrite (itrel_ok H H' it it' S Rl). destruct (k_ok real it'); [|split; [reflexivity|exact S]].
  rewrite (itrel_get H H' it it' S Rl). destruct (it_get real H' it') as [v| |]; cbn [bind]; try exact I.
  pose proof Rl as (A & B & Ei & Ej). rewrite A, B, Ei, Ej.
  apply (relR_bind _ _ _ _ stH stS); [apply (mSET_sim real m c Hloc); exact S|]. intros Ha Hb Sab.
  apply (relR_bind _ _ _ _ itrel stS).
  - unfold it_Next. apply it_skip_sim; [exact Sab|]. apply (itrel_next Ha Hb); assumption.
  - intros ia ib Rab. apply IH; [split; [reflexivity|exact Sab]|exact Rab].
Qed.
Lemma mIterMap_sim : forall s H H', stH H H' -> relR stS (mIterMap real St f s H m) (mIterMap real St f s H' c).
Proof.
  intros s H H' S. unfold mIterMap, it_from, it_Next. destruct (stH_rows_cols H H' S) as [Er Ec].
  assert (EF : iter_fuel m = iter_fuel c) by (unfold iter_fuel; rewrite Er, Ec; reflexivity). rewrite EF.
  apply (relR_bind _ _ _ _ itrel stS).
  - apply it_skip_sim; [exact S|]. apply (itrel_next H H'); [exact S|]. repeat split; reflexivity.
  - intros ia ib Rab. apply it_map_sim; [split; [reflexivity|exact S]|exact Rab].
Qed.
End CB.

(* ---- matrix (op) scalar with the view as receiver; the operand is the receiver or lives elsewhere ---- *)
Lemma mEwS_sim : forall fz H H' a a' cz, stH H H' -> corr m c a a' ->
  relR stH (mEwS real fz H m a cz) (mEwS real fz H' c a' cz).
Proof.
  intros fz H H' a a' cz S Ca. pose proof S as (Sm & _). unfold mEwS.
  destruct (corr_dims real m c H H' a a' Sm Ca) as [Ea1 Ea2]. destruct (stH_rows_cols H H' S) as [Er Ec].
  unfold dims_eq. rewrite !k_dims_P, <- Ea1, <- Ea2, <- Er, <- Ec.
  destruct (negb ((d_rows m =? d_rows a) && (d_cols m =? d_cols a))); [exact I|].
  rewrite <- (stH_mpos H H' S). apply (foldR_sim real m c H0 H0'); [|exact S]. intros Ha Hb p Sab. pose proof Sab as (Sab' & _).
  apply (relR_bind _ _ _ _ (fun _ _ => True) stH); [apply (idx_sim Ha Hb); exact Sab|]. intros _ _ _.
  rewrite (corr_AT real m c Ha Hb a a' _ _ Sab' Ca). destruct (mAT real Hb a' (fst p) (snd p)) as [x| |]; cbn [bind]; try exact I.
  apply (mSET_sim real m c Hloc); exact Sab.
Qed.
Lemma mOuter_sim : forall H H' a b, stH H H' -> relR stH (mOuter real H m a b) (mOuter real H' c a b).
Proof.
  intros H H' a b S. unfold mOuter. rewrite <- (st_dims real m c H0 H0' H H' S). destruct (k_dims real m) as [n k] eqn:ED.
  destruct (negb ((zlen a =? n) && (zlen b =? k))); [exact I|].
  rewrite <- (stH_mpos H H' S). apply (foldR_sim real m c H0 H0'); [|exact S]. intros Ha Hb p Sab.
  apply (relR_bind _ _ _ _ (fun _ _ => True) stH); [apply (idx_sim Ha Hb); exact Sab|]. intros _ _ _.
  destruct (get a (fst p)) as [x| |]; cbn [bind]; try exact I.
  destruct (get b (snd p)) as [y| |]; cbn [bind]; try exact I.
  apply (mSET_sim real m c Hloc); exact Sab.
Qed.
End SimX.

(* ---------------------------------------------------------------- from the simulation state to the statement *)
(* what is said about the heap [H1] left by the call on the view and the heap [H1'] left by the call on the copy *)
Definition view_result (real : bool) (H : heap) (m c : mat) (H1 H1' : heap) : Prop :=
  wf_in H1 m /\ wf_in H1' c /\
  (forall i j, mAT real H1 m i j = mAT real H1' c i j) /\              (* the view holds the copy's elements *)
  frame m H H1 /\                                                      (* nothing else was touched *)
  fill real (fun i j => elem real H1' c (i, j)) m (mpos real m) H = ROk H1.   (* = the copy written back *)

Lemma st_view_result : forall real H H' (m c : mat) H1 H1', wf_in H m ->
  st real m c H H' H1 H1' -> view_result real H m c H1 H1'.
Proof.
  intros real H H' m c H1 H1' W ((W1 & W1' & (Er & Ec & EA) & _) & F1 & _).
  unfold view_result. split; [exact W1|]. split; [exact W1'|]. split; [exact EA|]. split; [exact F1|].
  set (g := fun i j => elem real H1' c (i, j)).
  assert (Hin : forall p, In p (mpos real m) -> in_range m (fst p) (snd p)).
  { intros [i j] I. unfold mpos in I. rewrite k_dims_P in I. apply in_positions in I. exact I. }
  destruct (fill_spec real g m (mpos real m) H W Hin) as (H2 & E2 & W2 & Vals & Frame2 & Oth2 & Len2).
  rewrite E2. f_equal. destruct F1 as (L1 & O1 & Z1 & N1).
  apply heap_ext; [rewrite (fill_length _ _ _ _ _ _ E2); lia|]. intros l.
  destruct (Nat.eq_dec l (d_values m)) as [->|Nl]; [|rewrite (O1 l Nl); apply Oth2; exact Nl].
  apply (nth_ext _ _ 0 0); [unfold zlen in *; lia|]. intros n Hn.
  set (k := Z.of_nat n). assert (Ek : n = Z.to_nat k) by (unfold k; lia). rewrite Ek.
  destruct (addr_b m k) eqn:Ab.
  - destruct (addr_b_true m k Ab) as (i & j & Rg & Ei).
    destruct (mAT_in_range real H2 m i j W2 Rg) as (k2 & Ei2 & _ & A2). rewrite Ei in Ei2. inversion Ei2; subst k2.
    destruct (mAT_in_range real H1 m i j W1 Rg) as (k1 & Ei1 & _ & A1). rewrite Ei in Ei1. inversion Ei1; subst k1.
    assert (V2 : mAT real H2 m i j = ROk (g i j)).
    { apply Vals. unfold mpos. rewrite k_dims_P. apply in_positions. exact Rg. }
    assert (Rc : in_range c i j) by (unfold in_range in *; rewrite <- Er, <- Ec; exact Rg).
    pose proof (mAT_elem real H1' c W1' i j Rc) as V1. rewrite <- EA, A1 in V1. rewrite A2 in V2.
    inversion V1 as [Q1]. inversion V2 as [Q2]. rewrite Q1, Q2. reflexivity.
  - pose proof (addr_b_false m k Ab) as NA. rewrite (N1 k ltac:(unfold k; lia) NA).
    apply Frame2; [unfold k; lia|]. intros ([i j] & I & Ei). apply (NA i j (Hin _ I) Ei).
Qed.

(* a callback result: final closure state and heap *)
Definition cb_result {St} (real : bool) (H : heap) (m c : mat) (r r' : St * heap) : Prop :=
  fst r = fst r' /\ view_result real H m c (snd r) (snd r').

Lemma cb_result_meaning : forall St real H (m c : mat) (r r' : St * heap),
  cb_result real H m c r r' <->
  (fst r = fst r' /\ wf_in (snd r) m /\ wf_in (snd r') c /\
   (forall i j, mAT real (snd r) m i j = mAT real (snd r') c i j) /\ frame m H (snd r) /\
   fill real (fun i j => elem real (snd r') c (i, j)) m (mpos real m) H = ROk (snd r)).
Proof. intros. unfold cb_result, view_result. tauto. Qed.
Lemma reduce_fold_and_mapset : forall real A (f : A -> Z -> A) r H (m : mat),
  mReduce real A f r H m = (l <- read_all real H m ;; ROk (fold_left f l r)) /\
  forall St (g : St -> Z -> St * Z) s, mMapSet real St g s H m = mMap real St g s H m.
Proof. intros. split; [apply reduce_is_fold_of_elements | intros; apply mMapSet_is_mMap]. Qed.

Lemma equals_ext : forall real H H' (a a' b b' : mat),
  same_elems real H a H' a' -> same_elems real H b H' b' -> mEquals real H a b = mEquals real H' a' b'.
Proof.
  intros real H H' a a' b b' (Ar & Ac & EA) (Br & Bc & EB). unfold mEquals, dims_eq, mpos.
  rewrite !k_dims_P, <- Ar, <- Ac, <- Br, <- Bc.
  destruct (negb ((d_rows a =? d_rows b) && (d_cols a =? d_cols b))); [reflexivity|].
  apply foldR_ext. intros acc p. rewrite EA, EB. reflexivity.
Qed.
Lemma const_diag_ext : forall real H H' (m m' : mat), same_elems real H m H' m' -> mConstDiag real H m = mConstDiag real H' m'.
Proof.
  intros real H H' m m' SE. unfold mConstDiag. rewrite (se_diag real H H' m m' SE).
  destruct real, (d_transposed m), (d_transposed m'); reflexivity.
Qed.

Theorem callbacks_on_view_equal_callbacks_on_copy : forall real H (m : mat), wf_in H m ->
  exists H' c, deep_copy real H m = ROk (H', c) /\ d_values c <> d_values m /\ whole c /\ wf_in H' c /\
    (forall St (f : St -> Z -> St * Z) s,
       relR (cb_result real H m c) (mMap real St f s H m) (mMap real St f s H' c) /\
       relR (cb_result real H m c) (mMapSet real St f s H m) (mMapSet real St f s H' c) /\
       relR (cb_result real H m c) (mIterMap real St f s H m) (mIterMap real St f s H' c)) /\
    (forall A (f : A -> Z -> A) r, mReduce real A f r H m = mReduce real A f r H' c) /\
    (forall fz cz, relR (view_result real H m c) (mEwS real fz H m m cz) (mEwS real fz H' c c cz)) /\
    (forall fz cz a, elsewhere H m a -> relR (view_result real H m c) (mEwS real fz H m a cz) (mEwS real fz H' c a cz)) /\
    (forall a b, relR (view_result real H m c) (mOuter real H m a b) (mOuter real H' c a b)) /\
    (forall b, (d_values b < length H)%nat ->
       mEquals real H m b = mEquals real H' c b /\ mEquals real H b m = mEquals real H' b c) /\
    mEquals real H m m = mEquals real H' c c /\
    mConstDiag real H m = mConstDiag real H' c.
Proof.
  intros real H m W.
  destruct (deep_copy_spec real H m W) as (H' & c & E & Fr & Ne & Wh & Wc & Old & SE).
  exists H', c. split; [exact E|]. split; [exact Ne|]. split; [exact Wh|]. split; [exact Wc|].
  destruct (deep_copy_shape real H m H' c E) as (s0 & EH').
  assert (S0 : st real m c H H' H H').
  { split; [|split; apply frame_refl]. split; [exact W|]. split; [exact Wc|]. split; [exact SE|].
    intros l N1 N2. rewrite Fr in N2. destruct (Nat.lt_ge_cases l (length H)) as [Lt|Ge]; [symmetry; apply Old; exact Lt|].
    unfold store_of. rewrite !nth_overflow; [reflexivity| |lia]. rewrite EH', app_length. simpl. lia. }
  assert (FinS : forall St (r r' : R (St * heap)), relR (stS real m c H H' St) r r' -> relR (cb_result real H m c) r r').
  { intros St r r'. apply relR_weaken. intros a b [Es S]. split; [exact Es|]. exact (st_view_result real H H' m c _ _ W S). }
  assert (FinH : forall (r r' : R heap), relR (stH real m c H H') r r' -> relR (view_result real H m c) r r').
  { intros r r'. apply relR_weaken. intros a b S. exact (st_view_result real H H' m c _ _ W S). }
  assert (Older : forall (b : mat), (d_values b < length H)%nat -> same_elems real H b H' b).
  { intros b Lb. split; [reflexivity|]. split; [reflexivity|]. intros i j. unfold mAT. rewrite (Old _ Lb). reflexivity. }
  split; [|split; [|split; [|split; [|split; [|split; [|split]]]]]].
  - intros St f s. split; [|split].
    + apply FinS. apply (mMap_sim real m c Ne H H'). exact S0.
    + rewrite !mMapSet_is_mMap. apply FinS. apply (mMap_sim real m c Ne H H'). exact S0.
    + apply FinS. apply (mIterMap_sim real m c Ne H H'). exact S0.
  - intros A f r. rewrite !reduce_is_fold_of_elements, (se_read_all real H H' m c SE). reflexivity.
  - intros fz cz. apply FinH. apply (mEwS_sim real m c Ne H H'); [exact S0|]. left; split; reflexivity.
  - intros fz cz a [La Na]. apply FinH. apply (mEwS_sim real m c Ne H H'); [exact S0|].
    right. split; [reflexivity|]. split; [exact Na|]. rewrite Fr. lia.
  - intros a b. apply FinH. apply (mOuter_sim real m c Ne H H'). exact S0.
  - intros b Lb. split; apply equals_ext; try exact SE; apply Older; exact Lb.
  - apply equals_ext; exact SE.
  - apply const_diag_ext. exact SE.
Qed.

(* for every finite composition of Slice / ConstSlice / T over a base matrix b: in addition, every element of the
   PARENT that the window does not denote keeps its value under Map / MapSet / the writing iterator *)
Theorem callbacks_on_composed_view : forall real H l (b : mat), wf_in H b -> guards l (d_rows b, d_cols b) ->
  let m := apply_views real b l in
  exists H' c, deep_copy real H m = ROk (H', c) /\ d_values c <> d_values b /\ whole c /\
    forall St (f : St -> Z -> St * Z) s,
      let P := fun (r r' : St * heap) => cb_result real H m c r r' /\
                 forall i' j', in_range b i' j' -> (forall i j, in_range m i j -> coord l (i, j) <> (i', j')) ->
                   mAT real (snd r) b i' j' = mAT real H b i' j' in
      relR P (mMap real St f s H m) (mMap real St f s H' c) /\
      relR P (mMapSet real St f s H m) (mMapSet real St f s H' c) /\
      relR P (mIterMap real St f s H m) (mIterMap real St f s H' c).
Proof.
  intros real H l b Wb G m. pose proof (wf_in_views real H l b Wb G) as Wm. fold m in Wm.
  destruct (callbacks_on_view_equal_callbacks_on_copy real H m Wm) as (H' & c & E & Ne & Wh & Wc & CB & _).
  exists H', c. split; [exact E|]. split; [unfold m in Ne; rewrite apply_views_values in Ne; exact Ne|]. split; [exact Wh|].
  intros St f s P. destruct (CB St f s) as (A1 & A2 & A3).
  assert (Wk : forall r r' : R (St * heap), relR (cb_result real H m c) r r' -> relR P r r').
  { intros r r'. apply relR_weaken. intros x y PR. split; [exact PR|].
    destruct PR as (_ & _ & _ & _ & F & _). exact (frame_parent_untouched real H (snd x) l b Wb G F). }
  split; [apply Wk; exact A1|]. split; [apply Wk; exact A2|apply Wk; exact A3].
Qed.

(* ---------------------------------------------------------------- Map in closed form *)
(* the callback run sequentially over a list of element values: final state and the produced values *)
Fixpoint map_accum {St} (f : St -> Z -> St * Z) (s : St) (l : list Z) : St * list Z :=
  match l with
  | [] => (s, [])
  | v :: r => (fst (map_accum f (fst (f s v)) r), snd (f s v) :: snd (map_accum f (fst (f s v)) r))
  end.

Lemma elem_of_AT : forall real H (m : mat) p v, mAT real H m (fst p) (snd p) = ROk v -> elem real H m p = v.
Proof. intros real H m p v E. unfold elem. rewrite E. reflexivity. Qed.

Lemma map_loop_closed : forall real St (f : St -> Z -> St * Z) (m : mat) H0 ps, NoDup ps ->
  (forall p, In p ps -> in_range m (fst p) (snd p)) ->
  forall s H, wf_in H m -> frame m H0 H ->
  exists H1, foldR (map_step real St f m) ps (s, H)
             = ROk (fst (map_accum f s (map (elem real H m) ps)), H1) /\
    wf_in H1 m /\ frame m H0 H1 /\
    (forall q, ~ In q ps -> elem real H1 m q = elem real H m q) /\
    map (elem real H1 m) ps = snd (map_accum f s (map (elem real H m) ps)).
Proof.
  intros real St f m H0 ps ND. induction ND as [|p ps NI ND IH]; intros Hin s H W F.
  - exists H. split; [reflexivity|]. split; [exact W|]. split; [exact F|]. split; [intros; reflexivity|reflexivity].
  - destruct p as [i j]. assert (Rg : in_range m i j) by (apply (Hin (i, j)); left; reflexivity).
    cbn [foldR map]. unfold map_step at 1. cbn [fst snd].
    rewrite (mAT_elem real H m W i j Rg). cbn [bind].
    set (v := elem real H m (i, j)). set (s' := fst (f s v)). set (v' := snd (f s v)).
    destruct (mSET_ok real H m i j v' W Rg) as (H' & k & E1 & Ek & Bk & S1 & O1 & W').
    rewrite E1. cbn [bind].
    destruct (mSET_spec real H m i j v' H' W E1) as (_ & Rd & Ot & _).
    destruct (mSET_frame real H0 H m i j v' H' W F E1) as [_ F'].
    assert (Same : forall q, q <> (i, j) -> elem real H' m q = elem real H m q).
    { intros [qi qj] Nq. unfold elem. cbn [fst snd]. rewrite (Ot qi qj Nq). reflexivity. }
    destruct (IH (fun q Hq => Hin q (or_intror Hq)) s' H' W' F') as (H1 & E & W1 & F1 & Keep & Vals).
    assert (EM : map (elem real H' m) ps = map (elem real H m) ps).
    { apply map_ext_in. intros q Hq. apply Same. intros ->. exact (NI Hq). }
    rewrite EM in E, Vals.
    exists H1. cbn [map_accum]. fold v s' v'. split; [exact E|]. split; [exact W1|]. split; [exact F1|]. split.
    + intros q Nq. rewrite (Keep q) by (intros Hq; apply Nq; right; exact Hq).
      apply Same. intros ->. apply Nq. left; reflexivity.
    + cbn [snd]. f_equal; [|exact Vals].
      rewrite (Keep (i, j) NI). apply elem_of_AT. exact Rd.
Qed.

Lemma read_all_elems : forall real H (m : mat), wf_in H m ->
  read_all real H m = ROk (map (elem real H m) (positions (d_rows m) (d_cols m))).
Proof.
  intros real H m W. unfold read_all, mpos. rewrite k_dims_P. apply mapR_ROk. intros [i j] I.
  apply in_positions in I. apply (mAT_elem real H m W i j I).
Qed.

(* Map / MapSet on ANY well-formed view: the callback is run over the elements the view denotes in ROW-MAJOR order,
   threading its closure state; afterwards the view holds, in row-major order, the values the callback produced;
   every cell the view does not denote and every other storage is untouched *)
Theorem map_closed_form : forall real St (f : St -> Z -> St * Z) s H (m : mat), wf_in H m ->
  exists l H1, read_all real H m = ROk l /\
    mMap real St f s H m = ROk (fst (map_accum f s l), H1) /\
    mMapSet real St f s H m = ROk (fst (map_accum f s l), H1) /\
    read_all real H1 m = ROk (snd (map_accum f s l)) /\ wf_in H1 m /\ frame m H H1.
Proof.
  intros real St f s H m W.
  assert (Hin : forall p, In p (positions (d_rows m) (d_cols m)) -> in_range m (fst p) (snd p)).
  { intros [i j] I. apply in_positions in I. exact I. }
  destruct (map_loop_closed real St f m H _ (NoDup_positions (d_rows m) (d_cols m)) Hin s H W (frame_refl m H))
    as (H1 & E & W1 & F1 & _ & Vals).
  exists (map (elem real H m) (positions (d_rows m) (d_cols m))), H1.
  split; [apply read_all_elems; exact W|].
  assert (EM : mMap real St f s H m = ROk (fst (map_accum f s (map (elem real H m) (positions (d_rows m) (d_cols m)))), H1)).
  { unfold mMap, mpos. rewrite k_dims_P. exact E. }
  split; [exact EM|]. split; [rewrite mMapSet_is_mMap; exact EM|].
  split; [rewrite (read_all_elems real H1 m W1), Vals; reflexivity|]. split; [exact W1|exact F1].
Qed.

Example map_closed_form_nontrivial :
  map_accum (cb_affine 2 1 1) 5 [2; 6; 3; 7] = (148, [15; 39; 73; 155]).
Proof. reflexivity. Qed.

(* ---------------------------------------------------------------- non-vacuity *)
Example callbacks_on_view_nontrivial :
  let H := [[1; 2; 3; 4; 0; 6; 7; 8; 9; 10; 11; 12]] in
  let m := apply_views false (new_mat 0 3 4) [VT; VSlice 1 3 0 2] in
  wf_in H m /\ guards [VT; VSlice 1 3 0 2] (3, 4) /\ read_all false H m = ROk [2; 6; 3; 7] /\
  opt_of (r <- mMap false Z (cb_affine 2 1 1) 5 H m ;; ROk (fst r, store_of (snd r) 0))
    = Some (148, [1; 15; 73; 4; 0; 39; 155; 8; 9; 10; 11; 12]) /\
  opt_of (r <- mIterMap false Z (cb_affine 2 1 1) 5 H m ;; ROk (fst r, store_of (snd r) 0))
    = Some (148, [1; 15; 73; 4; 0; 39; 155; 8; 9; 10; 11; 12]) /\
  opt_of (mReduce false Z (red_affine 2 1) 5 H m) = Some 148 /\
  opt_of (r <- deep_copy false H m ;; mReduce false Z (red_affine 2 1) 5 (fst r) (snd r)) = Some 148 /\
  opt_of (H1 <- mOuter false H m [1; 2] [3; 4] ;; ROk (store_of H1 0)) = Some [1; 3; 6; 4; 0; 4; 8; 8; 9; 10; 11; 12] /\
  opt_of (H1 <- mEwS false 2 H m m 3 ;; ROk (store_of H1 0)) = Some [1; 6; 9; 4; 0; 18; 21; 8; 9; 10; 11; 12].
Proof. vm_compute. repeat split; try discriminate; try lia; reflexivity. Qed.
