(* C10 — Tip() for EVERY shape: the cycle-following transposition as coded
       for cycle := 1; cycle < mn; cycle++ { if visited[cycle] { continue }; k = cycle
         for { if k != mn-1 { k = rows*k % (mn-1) }; visited[k] = true; swap(values[k], values[cycle]); if k == cycle { break } } }
   moves the content of every cell k to cell sigma(k) = tip_next rows mn k, where sigma maps the row-major
   cell of (i,j) to the row-major cell of (j,i) in the transposed layout (tip_next_transposes).

   Induction over the cycles: [it t c] is the t-th iterate of sigma from the start cell c.  The inner loop
   (tip_cycle_spec) is analysed by induction on its fuel with the state after t steps described exactly
   (cells it 1 .. it t hold the former contents of it 0 .. it (t-1), cell c holds the former content of
   it t, the visited set grew by it 1 .. it t); it stops exactly when the orbit returns to c, which happens
   before the fuel (mn + 1) runs out by the pigeonhole principle; the outer loop (tip_outer_spec) keeps
   the invariant "visited cells are closed under sigma in both directions, a visited cell's content sits
   at its image, unvisited cells are untouched", with the skip test  if visited[cycle]  as coded. *)
From Coq Require Import ZArith List Bool Lia.
From ADV Require Import C10.Gen C10.Model C10.Spec C10.ProofsIndex C10.ProofsViews C10.ProofsIter
                        C10.ProofsIterSkip C10.ProofsOps C10.ProofsTip C10.ProofsTipGen C10.ProofsOpsView.
Import ListNotations.
Open Scope Z_scope.

Definition zn (s : list Z) (k : Z) : Z := nth (Z.to_nat k) s 0.
Definition bn (v : list bool) (k : Z) : bool := nth (Z.to_nat k) v false.

Lemma zn_upd_same : forall s k v, 0 <= k < zlen s -> zn (upd (Z.to_nat k) v s) k = v.
Proof. intros s k v Hk. unfold zn. apply nth_upd_same. unfold zlen in Hk. lia. Qed.
Lemma zn_upd_other : forall s k x v, 0 <= k -> 0 <= x -> x <> k -> zn (upd (Z.to_nat k) v s) x = zn s x.
Proof. intros s k x v Hk Hx N. unfold zn. apply nth_upd_other. intros E. apply N. apply Z2Nat.inj; lia. Qed.
Lemma bn_upd_same : forall s k v, 0 <= k < Z.of_nat (length s) -> bn (upd (Z.to_nat k) v s) k = v.
Proof. intros s k v Hk. unfold bn. apply nth_upd_same. lia. Qed.
Lemma bn_upd_other : forall s k x v, 0 <= k -> 0 <= x -> x <> k -> bn (upd (Z.to_nat k) v s) x = bn s x.
Proof. intros s k x v Hk Hx N. unfold bn. apply nth_upd_other. intros E. apply N. apply Z2Nat.inj; lia. Qed.
Lemma zlen_upd : forall (s : list Z) n v, zlen (upd n v s) = zlen s.
Proof. intros. unfold zlen. rewrite upd_length. reflexivity. Qed.

(* the parallel assignment  values[k], values[c] = values[c], values[k] *)
Lemma swap_store_spec : forall s k c, 0 <= k < zlen s -> 0 <= c < zlen s ->
  exists s2, swap_store s k c = ROk s2 /\ zlen s2 = zlen s /\
    forall x, 0 <= x -> zn s2 x = if x =? c then zn s k else if x =? k then zn s c else zn s x.
Proof.
  intros s k c Hk Hc. unfold swap_store. rewrite !get_ok by assumption. cbn [bind].
  rewrite put_ok by assumption. cbn [bind]. rewrite put_ok by (rewrite zlen_upd; assumption).
  eexists. split; [reflexivity|]. split; [rewrite !zlen_upd; reflexivity|]. intros x Hx.
  fold (zn s k) (zn s c).
  destruct (x =? c) eqn:E1; [apply Z.eqb_eq in E1; subst x; apply zn_upd_same; rewrite zlen_upd; assumption|].
  apply Z.eqb_neq in E1. rewrite zn_upd_other by lia.
  destruct (x =? k) eqn:E2; [apply Z.eqb_eq in E2; subst x; apply zn_upd_same; assumption|].
  apply Z.eqb_neq in E2. apply zn_upd_other; lia.
Qed.

Section Cycles.
Variables rows mn : Z.
Let sigma := tip_next rows mn.
Definition inD (k : Z) : Prop := 0 <= k < mn.
Hypothesis S1 : forall k, inD k -> inD (sigma k).
Hypothesis S2 : forall a b, inD a -> inD b -> sigma a = sigma b -> a = b.
Hypothesis S3 : forall k, inD k -> sigma k = 0 -> k = 0.
Hypothesis S4 : 0 < mn -> sigma 0 = 0.

Fixpoint it (t : nat) (c : Z) : Z := match t with O => c | S t' => sigma (it t' c) end.
Lemma it_inD : forall t c, inD c -> inD (it t c).
Proof. induction t as [|t IH]; intros c Hc; [exact Hc|]. simpl. apply S1. apply IH. exact Hc. Qed.
Lemma it_zero : forall t c, inD c -> it t c = 0 -> c = 0.
Proof.
  induction t as [|t IH]; intros c Hc E; [exact E|]. simpl in E. apply IH; [exact Hc|].
  apply S3; [apply it_inD; exact Hc|exact E].
Qed.
(* no return to c within T steps: the first T+1 iterates are pairwise distinct *)
Lemma it_distinct : forall c T, inD c -> (forall u, (0 < u <= T)%nat -> it u c <> c) ->
  forall a b, (a < b <= T)%nat -> it a c <> it b c.
Proof.
  intros c T Hc P. induction a as [|a IH]; intros b Hab E.
  - simpl in E. apply (P b); [lia|]. symmetry. exact E.
  - destruct b as [|b]; [lia|]. simpl in E. apply (IH b); [lia|].
    apply S2; [apply it_inD; exact Hc | apply it_inD; exact Hc | exact E].
Qed.
(* ... hence T + 1 <= mn (pigeonhole) *)
Lemma it_bound : forall c T, inD c -> (forall u, (0 < u <= T)%nat -> it u c <> c) -> Z.of_nat (S T) <= mn.
Proof.
  intros c T Hc P.
  set (l := map (fun u => it u c) (seq 0 (S T))).
  assert (ND : NoDup l).
  { apply (NoDup_nth l (it 0 c)). intros a b Ha Hb E. unfold l in Ha, Hb. rewrite map_length, seq_length in Ha, Hb.
    unfold l in E.
    rewrite !(map_nth (fun u => it u c)) in E. rewrite !seq_nth in E by assumption. simpl Nat.add in E.
    destruct (Nat.lt_trichotomy a b) as [Lt|[Eq|Gt]]; [|exact Eq|].
    - exfalso. apply (it_distinct c T Hc P a b); [lia|exact E].
    - exfalso. apply (it_distinct c T Hc P b a); [lia|symmetry; exact E]. }
  assert (IN : incl l (zseq mn)).
  { intros x Hx. unfold l in Hx. apply in_map_iff in Hx. destruct Hx as (u & <- & _). apply in_zseq. apply it_inD. exact Hc. }
  pose proof (NoDup_incl_length ND IN) as Le. unfold l, zseq in Le. rewrite !map_length, !seq_length in Le.
  destruct (Z_lt_dec mn 0); [destruct Hc; lia|]. lia.
Qed.

(* ---------------------------------------------------------------- the inner loop *)
Lemma tip_cycle_spec : forall c s0 vis0, inD c -> zlen s0 = mn -> Z.of_nat (length vis0) = mn ->
  forall fuel t vis s,
  (Z.of_nat fuel + Z.of_nat t >= mn + 1) ->
  (forall u, (0 < u <= t)%nat -> it u c <> c) ->
  zlen s = mn -> Z.of_nat (length vis) = mn ->
  (forall u, (1 <= u <= t)%nat -> zn s (it u c) = zn s0 (it (u - 1) c)) ->
  zn s c = zn s0 (it t c) ->
  (forall x, inD x -> (forall u, (u <= t)%nat -> x <> it u c) -> zn s x = zn s0 x) ->
  (forall x, inD x -> (bn vis x = true <-> (bn vis0 x = true \/ exists u, (1 <= u <= t)%nat /\ x = it u c))) ->
  exists vis' s' L, tip_cycle fuel rows mn c (it t c) vis s = ROk (vis', s') /\
    (1 <= L)%nat /\ it L c = c /\ zlen s' = mn /\ Z.of_nat (length vis') = mn /\
    (forall u, (u < L)%nat -> zn s' (it (S u) c) = zn s0 (it u c)) /\
    (forall x, inD x -> (forall u, (u < L)%nat -> x <> it u c) -> zn s' x = zn s0 x) /\
    (forall x, inD x -> (bn vis' x = true <-> (bn vis0 x = true \/ exists u, (u < L)%nat /\ x = it u c))).
Proof.
  intros c s0 vis0 Hc Ls0 Lv0. induction fuel as [|fuel IH]; intros t vis s Hf P Ls Lv A B C V.
  - exfalso. pose proof (it_bound c t Hc P). lia.
  - cbn [tip_cycle]. change (if negb (it t c =? mn - 1) then Z.rem (rows * it t c) (mn - 1) else it t c) with (it (S t) c).
    set (k' := it (S t) c). assert (Hk' : inD k') by (apply it_inD; exact Hc). unfold inD in Hk', Hc.
    replace ((k' <? 0) || (k' >=? mn)) with false
      by (symmetry; apply orb_false_iff; split; [apply Z.ltb_ge; lia | rewrite Z.geb_leb; apply Z.leb_gt; lia]).
    destruct (swap_store_spec s k' c ltac:(lia) ltac:(lia)) as (s2 & Esw & Ls2 & Zs2). rewrite Esw. cbn [bind].
    assert (V1 : forall x, inD x -> bn (upd (Z.to_nat k') true vis) x = true <-> (x = k' \/ bn vis x = true)).
    { intros x Hx. destruct (Z.eq_dec x k') as [->|N].
      - rewrite bn_upd_same by lia. tauto.
      - rewrite bn_upd_other by (unfold inD in Hx; lia). tauto. }
    destruct (k' =? c) eqn:Ekc.
    + apply Z.eqb_eq in Ekc. exists (upd (Z.to_nat k') true vis), s2, (S t).
      split; [reflexivity|]. split; [lia|]. split; [exact Ekc|]. split; [lia|]. split; [rewrite upd_length; exact Lv|].
      split; [|split].
      * intros u Hu. rewrite Zs2 by (pose proof (it_inD (S u) c Hc) as Q; unfold inD in Q; lia).
        destruct (Nat.eq_dec u t) as [->|Nu].
        -- fold k'. rewrite Ekc, Z.eqb_refl. exact B.
        -- assert (Nc : it (S u) c <> c) by (apply P; lia).
           replace (it (S u) c =? c) with false by (symmetry; apply Z.eqb_neq; exact Nc).
           replace (it (S u) c =? k') with false by (symmetry; apply Z.eqb_neq; rewrite Ekc; exact Nc).
           rewrite (A (S u)) by lia. f_equal. f_equal. lia.
      * intros x Hx NO. rewrite Zs2 by (unfold inD in Hx; lia).
        assert (Nc : x <> c) by (apply (NO 0%nat); lia).
        replace (x =? c) with false by (symmetry; apply Z.eqb_neq; exact Nc).
        replace (x =? k') with false by (symmetry; apply Z.eqb_neq; rewrite Ekc; exact Nc).
        apply C; [exact Hx|]. intros u Hu. apply NO. lia.
      * intros x Hx. rewrite (V1 x Hx), (V x Hx). split.
        -- intros [->|[Q|(u & Hu & ->)]]; [right; exists 0%nat; split; [lia|exact Ekc] | left; exact Q | right; exists u; split; [lia|reflexivity]].
        -- intros [Q|(u & Hu & ->)]; [right; left; exact Q|].
           destruct u as [|u]; [left; simpl; symmetry; exact Ekc|]. right; right. exists (S u). split; [lia|reflexivity].
    + apply Z.eqb_neq in Ekc.
      assert (P' : forall u, (0 < u <= S t)%nat -> it u c <> c).
      { intros u Hu. destruct (Nat.eq_dec u (S t)) as [->|N]; [exact Ekc|apply P; lia]. }
      assert (Dk : forall u, (u <= t)%nat -> k' <> it u c).
      { intros u Hu E. apply (it_distinct c (S t) Hc P' u (S t)); [lia|symmetry; exact E]. }
      destruct (IH (S t) (upd (Z.to_nat k') true vis) s2) as (vis' & s' & L & R1 & R2 & R3 & R4 & R5 & R6 & R7 & R8).
      * lia.
      * exact P'.
      * lia.
      * rewrite upd_length; exact Lv.
      * intros u Hu. rewrite Zs2 by (pose proof (it_inD u c Hc) as Q; unfold inD in Q; lia).
        assert (Nc : it u c <> c) by (apply P'; lia).
        replace (it u c =? c) with false by (symmetry; apply Z.eqb_neq; exact Nc).
        destruct (Nat.eq_dec u (S t)) as [->|Nu].
        -- fold k'. rewrite Z.eqb_refl. replace (S t - 1)%nat with t by lia. exact B.
        -- replace (it u c =? k') with false by (symmetry; apply Z.eqb_neq; intros E; apply (Dk u); [lia|symmetry; exact E]).
           apply A. lia.
      * rewrite Zs2 by lia. rewrite Z.eqb_refl. fold k'. apply C; [exact Hk'|exact Dk].
      * intros x Hx NO. rewrite Zs2 by (unfold inD in Hx; lia).
        assert (Nc : x <> c) by (apply (NO 0%nat); lia).
        replace (x =? c) with false by (symmetry; apply Z.eqb_neq; exact Nc).
        replace (x =? k') with false by (symmetry; apply Z.eqb_neq; apply (NO (S t)); lia).
        apply C; [exact Hx|]. intros u Hu. apply NO. lia.
      * intros x Hx. rewrite (V1 x Hx), (V x Hx). split.
        -- intros [->|[Q|(u & Hu & ->)]]; [right; exists (S t); split; [lia|reflexivity] | left; exact Q | right; exists u; split; [lia|reflexivity]].
        -- intros [Q|(u & Hu & ->)]; [right; left; exact Q|].
           destruct (Nat.eq_dec u (S t)) as [->|N]; [left; reflexivity|]. right; right. exists u. split; [lia|reflexivity].
      * exists vis', s', L. split; [exact R1|]. split; [exact R2|]. split; [exact R3|]. split; [exact R4|]. split; [exact R5|]. split; [exact R6|]. split; [exact R7|exact R8].
Qed.

(* ---------------------------------------------------------------- the outer loop *)
Variable v : list Z.                     (* the storage before Tip *)
Hypothesis Lv : zlen v = mn.

Definition inv (a : nat) (vis : list bool) (s : list Z) : Prop :=
  zlen s = mn /\ Z.of_nat (length vis) = mn /\
  (forall k, 1 <= k < Z.of_nat a -> k < mn -> bn vis k = true) /\
  (forall k, inD k -> bn vis k = bn vis (sigma k)) /\
  (forall k, inD k -> bn vis k = false -> zn s k = zn v k) /\
  (forall k, inD k -> bn vis k = true -> zn s (sigma k) = zn v k) /\
  bn vis 0 = false.

Lemma bool_iff_eq : forall a b : bool, (a = true <-> b = true) -> a = b.
Proof. intros [] [] [A B]; try reflexivity; [symmetry; apply A; reflexivity | apply B; reflexivity]. Qed.

Lemma tip_step_inv : forall a vis s, (1 <= a)%nat -> Z.of_nat a < mn -> inv a vis s ->
  exists vis' s', tip_step rows mn (vis, s) (Z.of_nat a) = ROk (vis', s') /\ inv (S a) vis' s'.
Proof.
  intros a vis s Ha Hm (I1 & I2 & I3 & I4 & I5 & I6 & I7). set (c := Z.of_nat a).
  assert (Hc : inD c) by (unfold inD, c; lia).
  unfold tip_step. fold (bn vis c). destruct (bn vis c) eqn:Evc.
  - exists vis, s. split; [reflexivity|]. repeat split; try assumption.
    intros k Hk Hk2. destruct (Z.eq_dec k c) as [->|N]; [exact Evc|apply I3; unfold c in N; lia].
  - (* the whole orbit of c is unvisited *)
    assert (Unv : forall u, bn vis (it u c) = false).
    { induction u as [|u IHu]; [exact Evc|]. simpl. rewrite <- I4 by (apply it_inD; exact Hc). exact IHu. }
    assert (Fuel : Z.of_nat (S (length s)) + Z.of_nat 0 >= mn + 1) by (unfold zlen in I1; lia).
    destruct (tip_cycle_spec c s vis Hc I1 I2 (S (length s)) 0%nat vis s Fuel) as (vis' & s' & L & R1 & R2 & R3 & R4 & R5 & R6 & R7 & R8);
      try assumption; try reflexivity.
    { intros u Hu; lia. }
    { intros u Hu; lia. }
    { intros x Hx. split; [intros Q; left; exact Q|]. intros [Q|(u & Hu & _)]; [exact Q|lia]. }
    exists vis', s'. split; [exact R1|].
    (* the bounded orbit is closed under sigma in both directions *)
    set (Orb := fun x => exists u, (u < L)%nat /\ x = it u c).
    assert (OrbF : forall x, Orb x -> Orb (sigma x)).
    { intros x (u & Hu & ->). destruct (Nat.eq_dec (S u) L) as [E|N].
      - exists 0%nat. split; [lia|]. simpl. change (sigma (it u c)) with (it (S u) c). rewrite E. exact R3.
      - exists (S u). split; [lia|reflexivity]. }
    assert (OrbB : forall x, inD x -> Orb (sigma x) -> Orb x).
    { intros x Hx (u & Hu & E). destruct u as [|u].
      - simpl in E. exists (L - 1)%nat. split; [lia|]. apply S2; [exact Hx | apply it_inD; exact Hc|].
        rewrite E, <- R3 at 1. replace L with (S (L - 1)) at 1 by lia. reflexivity.
      - exists u. split; [lia|]. apply S2; [exact Hx | apply it_inD; exact Hc | exact E]. }
    assert (OrbUnv : forall x, Orb x -> bn vis x = false) by (intros x (u & _ & ->); apply Unv).
    repeat split.
    + exact R4.
    + exact R5.
    + intros k Hk Hk2. apply (R8 k ltac:(unfold inD; lia)).
      destruct (Z.eq_dec k c) as [->|N]; [right; exists 0%nat; split; [lia|reflexivity]|]. left. apply I3; unfold c in N; lia.
    + intros k Hk. apply bool_iff_eq. rewrite (R8 k Hk), (R8 (sigma k) (S1 k Hk)), <- (I4 k Hk).
      split; (intros [Q|Q]; [left; exact Q|right]); [apply OrbF; exact Q | apply OrbB; assumption].
    + intros k Hk Ef. assert (NV : bn vis k = false).
      { destruct (bn vis k) eqn:Q; [|reflexivity]. rewrite (proj2 (R8 k Hk)) in Ef by (left; exact Q). discriminate. }
      rewrite R7; [apply I5; assumption | exact Hk|].
      intros u Hu E. rewrite (proj2 (R8 k Hk)) in Ef by (right; exists u; split; assumption). discriminate.
    + intros k Hk Et. destruct (bn vis k) eqn:Q.
      * rewrite R7; [apply I6; assumption | apply S1; exact Hk|].
        intros u Hu E. assert (O : Orb k) by (apply OrbB; [exact Hk|exists u; split; assumption]).
        rewrite (OrbUnv k O) in Q. discriminate.
      * apply (R8 k Hk) in Et. destruct Et as [Q'|(u & Hu & ->)]; [rewrite Q' in Q; discriminate|].
        change (sigma (it u c)) with (it (S u) c). rewrite (R6 u Hu). apply I5; [apply it_inD; exact Hc|apply Unv].
    + destruct (bn vis' 0) eqn:Q; [|reflexivity]. apply (R8 0 ltac:(unfold inD in *; lia)) in Q.
      destruct Q as [Q|(u & Hu & E)]; [rewrite Q in I7; discriminate|].
      symmetry in E. apply (it_zero u c Hc) in E. unfold c in E. lia.
Qed.

Lemma tip_outer_spec : forall n a vis s, (1 <= a)%nat -> Z.of_nat (a + n) = Z.max mn 1 -> inv a vis s ->
  exists vis' s', foldR (tip_step rows mn) (map Z.of_nat (seq a n)) (vis, s) = ROk (vis', s') /\ inv (a + n) vis' s'.
Proof.
  induction n as [|n IH]; intros a vis s Ha Hn I.
  - exists vis, s. split; [reflexivity|]. rewrite Nat.add_0_r. exact I.
  - cbn [seq map foldR]. destruct (tip_step_inv a vis s Ha ltac:(lia) I) as (vis1 & s1 & E1 & I1). rewrite E1. cbn [bind].
    destruct (IH (S a) vis1 s1 ltac:(lia) ltac:(lia) I1) as (vis' & s' & E' & I'). exists vis', s'.
    split; [exact E'|]. replace (a + S n)%nat with (S a + n)%nat by lia. exact I'.
Qed.

Lemma inv_final : forall a vis s, Z.of_nat a >= mn -> inv a vis s -> forall k, inD k -> zn s (sigma k) = zn v k.
Proof.
  intros a vis s Ha (I1 & I2 & I3 & I4 & I5 & I6 & I7) k Hk.
  destruct (Z.eq_dec k 0) as [->|N].
  - rewrite S4 by (unfold inD in Hk; lia). apply I5; assumption.
  - apply I6; [exact Hk|]. unfold inD in Hk. apply I3; lia.
Qed.

Lemma bn_all_false : forall (s : list Z) k, bn (map (fun _ => false) s) k = false.
Proof.
  intros s k. unfold bn. generalize (Z.to_nat k). induction s as [|x s IH]; intros [|n]; simpl; auto.
Qed.

Theorem tip_store_moves_cells : 0 <= mn ->
  exists s', tip_store rows v = ROk s' /\ zlen s' = mn /\ forall k, inD k -> zn s' (sigma k) = zn v k.
Proof.
  intros Hmn. rewrite tip_store_unfold, Lv.
  replace (map (fun c => c + 1) (zseq (mn - 1))) with (map Z.of_nat (seq 1 (Z.to_nat (mn - 1)))).
  2:{ unfold zseq. rewrite <- seq_shift, !map_map. apply map_ext. intros x. lia. }
  assert (I0 : inv 1 (map (fun _ => false) v) v).
  { unfold inv. split; [exact Lv|]. split; [rewrite map_length; exact Lv|].
    split; [intros k Hk; lia|]. split; [intros k _; rewrite !bn_all_false; reflexivity|].
    split; [intros; reflexivity|]. split; [intros k _ Q; rewrite bn_all_false in Q; discriminate|apply bn_all_false]. }
  destruct (tip_outer_spec (Z.to_nat (mn - 1)) 1 _ v ltac:(lia) ltac:(lia) I0) as (vis' & s' & E & I).
  rewrite E. cbn [bind snd]. exists s'. split; [reflexivity|]. split; [destruct I as (I1 & _); exact I1|].
  apply (inv_final (1 + Z.to_nat (mn - 1))%nat vis' s'); [lia|exact I].
Qed.
End Cycles.

(* the inner loop from a fresh start: the statement of tip_cycle_spec at t = 0 *)
Lemma tip_inner_loop_one_orbit : forall rows mn,
  (forall k, inD mn k -> inD mn (tip_next rows mn k)) ->
  (forall a b, inD mn a -> inD mn b -> tip_next rows mn a = tip_next rows mn b -> a = b) ->
  forall c s0 vis0, inD mn c -> zlen s0 = mn -> Z.of_nat (length vis0) = mn ->
  exists vis' s' L, tip_cycle (S (length s0)) rows mn c c vis0 s0 = ROk (vis', s') /\
    (1 <= L)%nat /\ it rows mn L c = c /\ zlen s' = mn /\
    (forall u, (u < L)%nat -> zn s' (it rows mn (S u) c) = zn s0 (it rows mn u c)) /\
    (forall x, inD mn x -> (forall u, (u < L)%nat -> x <> it rows mn u c) -> zn s' x = zn s0 x) /\
    (forall x, inD mn x -> (bn vis' x = true <-> (bn vis0 x = true \/ exists u, (u < L)%nat /\ x = it rows mn u c))).
Proof.
  intros rows mn S1 S2 c s0 vis0 Hc Ls Lv.
  destruct (tip_cycle_spec rows mn S1 S2 c s0 vis0 Hc Ls Lv (S (length s0)) 0%nat vis0 s0) as (vis' & s' & L & R1 & R2 & R3 & R4 & _ & R6 & R7 & R8);
    try assumption; try reflexivity.
  - unfold zlen in Ls. lia.
  - intros u Hu. lia.
  - intros u Hu. lia.
  - intros x Hx. split; [intros Q; left; exact Q|]. intros [Q|(u & Hu & _)]; [exact Q|lia].
  - exists vis', s', L. repeat split; try assumption; apply R8; assumption.
Qed.

(* ---------------------------------------------------------------- instantiation: mn = rows * cols *)
Lemma cell_decomp : forall rows cols k, 0 <= rows -> 0 <= cols -> 0 <= k < rows * cols ->
  exists i j, 0 <= i < rows /\ 0 <= j < cols /\ k = i * cols + j.
Proof.
  intros rows cols k Hr Hc Hk. assert (0 < cols) by nia.
  exists (k / cols), (k mod cols). pose proof (Z.mod_pos_bound k cols ltac:(lia)).
  split; [split; [apply Z.div_pos; lia | apply Z.div_lt_upper_bound; nia]|]. split; [lia|].
  rewrite (Z.div_mod k cols) at 1 by lia. ring.
Qed.

Section Shape.
Variables rows cols : Z.
Hypothesis Hr : 0 <= rows.
Hypothesis Hc : 0 <= cols.
Let mn := rows * cols.

Lemma sg_S1 : forall k, inD mn k -> inD mn (tip_next rows mn k).
Proof.
  intros k Hk. destruct (cell_decomp rows cols k Hr Hc Hk) as (i & j & Hi & Hj & ->).
  unfold mn. rewrite (tip_next_transposes rows cols i j Hi Hj). unfold inD. nia.
Qed.
Lemma sg_S2 : forall a b, inD mn a -> inD mn b -> tip_next rows mn a = tip_next rows mn b -> a = b.
Proof.
  intros a b Ha Hb. destruct (cell_decomp rows cols a Hr Hc Ha) as (i & j & Hi & Hj & ->).
  destruct (cell_decomp rows cols b Hr Hc Hb) as (i' & j' & Hi' & Hj' & ->).
  unfold mn. rewrite (tip_next_transposes rows cols i j Hi Hj), (tip_next_transposes rows cols i' j' Hi' Hj').
  intros E. assert (j = j') by nia. subst j'. assert (i = i') by lia. subst i'. reflexivity.
Qed.
Lemma sg_S3 : forall k, inD mn k -> tip_next rows mn k = 0 -> k = 0.
Proof.
  intros k Hk. destruct (cell_decomp rows cols k Hr Hc Hk) as (i & j & Hi & Hj & ->).
  unfold mn. rewrite (tip_next_transposes rows cols i j Hi Hj). intros E.
  assert (i = 0) by nia. assert (j = 0) by nia. subst. ring.
Qed.
Lemma sg_S4 : 0 < mn -> tip_next rows mn 0 = 0.
Proof. intros _. unfold tip_next. destruct (negb (0 =? mn - 1)); [|reflexivity]. rewrite Z.mul_0_r. reflexivity. Qed.

(* Tip's storage permutation, every shape, every content: cell (i,j) of the rows x cols layout ends up at
   cell (j,i) of the cols x rows layout *)
Theorem tip_store_transposes : forall s, zlen s = rows * cols ->
  exists s', tip_store rows s = ROk s' /\ zlen s' = rows * cols /\
    forall i j, 0 <= i < rows -> 0 <= j < cols -> zn s' (j * rows + i) = zn s (i * cols + j).
Proof.
  intros s Ls.
  destruct (tip_store_moves_cells rows mn sg_S1 sg_S2 sg_S3 sg_S4 s Ls ltac:(unfold mn; nia)) as (s' & E & L' & Mv).
  exists s'. split; [exact E|]. split; [exact L'|]. intros i j Hi Hj.
  rewrite <- (tip_next_transposes rows cols i j Hi Hj). apply Mv. unfold inD, mn. nia.
Qed.
End Shape.

Lemma in_range_dec_T : forall (x : mat) i j, {in_range x i j} + {~ in_range x i j}.
Proof.
  intros x i j. unfold in_range.
  destruct (Z_le_dec 0 i); [|right; lia]. destruct (Z_lt_dec i (d_rows x)); [|right; lia].
  destruct (Z_le_dec 0 j); [|right; lia]. destruct (Z_lt_dec j (d_cols x)); [|right; lia]. left; lia.
Qed.

(* ---------------------------------------------------------------- Tip() on a matrix that owns its storage *)
(* every heap, every location, every shape, every content: dimensions exchanged, the header is that of a
   fresh cols x rows matrix over the same storage, element (i,j) is the former element (j,i), i.e. the matrix
   reads exactly as its former T(); no other storage is touched *)
Theorem tip_whole : forall real H (m : mat), wf_in H m -> whole m ->
  exists H1, mTip H m = ROk (H1, new_mat (d_values m) (d_cols m) (d_rows m)) /\
    wf_in H1 (new_mat (d_values m) (d_cols m) (d_rows m)) /\ length H1 = length H /\
    (forall l, l <> d_values m -> store_of H1 l = store_of H l) /\
    (forall i j, mAT real H1 (new_mat (d_values m) (d_cols m) (d_rows m)) i j = mAT real H (k_T real m) i j).
Proof.
  intros real H m [Hl W] (Ht & Hro & Hco & Hrm & Hcm). pose proof W as (Hr & Hc & _ & _ & _ & _ & Len).
  rewrite Hrm, Hcm in Len.
  destruct (tip_store_transposes (d_rows m) (d_cols m) Hr Hc _ Len) as (s' & E & L' & Mv).
  unfold mTip. rewrite Ht, E. cbn [bind]. rewrite Hro, Hco, Hrm, Hcm.
  exists (set_store H (d_values m) s'). split; [reflexivity|].
  assert (W1 : wf_in (set_store H (d_values m) s') (new_mat (d_values m) (d_cols m) (d_rows m))).
  { unfold wf_in. cbn [new_mat d_values]. split; [unfold set_store; rewrite upd_length; exact Hl|].
    rewrite store_set_same by exact Hl. rewrite L'. unfold wf; simpl. repeat split; lia. }
  split; [exact W1|]. split; [unfold set_store; apply upd_length|]. split; [intros l Nl; apply store_set_other; auto|].
  intros i j. rewrite k_T_P.
  set (m' := new_mat (d_values m) (d_cols m) (d_rows m)).
  destruct (in_range_dec_T m' i j) as [Rg|N].
  2:{ rewrite (mAT_out_of_range real _ m' i j N). symmetry. apply mAT_out_of_range.
      intros Q. apply N. apply (proj1 (T_in_range m i j)) in Q. unfold in_range in *. unfold m'. simpl. lia. }
  assert (RT : in_range (DenseP.T m) i j) by (apply (proj2 (T_in_range m i j)); unfold in_range in *; unfold m' in Rg; simpl in Rg; lia).
  unfold mAT, idx. rewrite !k_index_P, (index_some m' i j Rg), (index_some _ i j RT).
  cbn [m' new_mat DenseP.T d_transposed d_rowOffset d_colOffset d_colMax d_rowMax d_values of_opt bind negb].
  rewrite Ht, Hro, Hco, Hcm. cbn [negb]. rewrite store_set_same by exact Hl.
  unfold in_range in Rg. unfold m' in Rg. simpl in Rg.
  rewrite !get_ok by nia. f_equal.
  replace ((0 + i) * d_rows m + (0 + j)) with (i * d_rows m + j) by ring.
  replace ((0 + j) * d_cols m + (0 + i)) with (j * d_cols m + i) by ring.
  apply (Mv j i); lia.
Qed.
