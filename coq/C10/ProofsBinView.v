(* C10 — binary operations whose receiver and operands are views of ONE storage.
   The loops of MaddM/MsubM/MmulM (one ascending pass) and of MdotM (row-buffered or column-buffered
   schedule, chosen by the storageLocation test as coded) are "batched write loops": the values of a batch
   of positions are computed in the CURRENT heap, then written through the receiver.  If the values of a
   batch only depend on cells the loop has not written yet (operands on other cells of the storage, in
   other storages, or the receiver itself read at positions of the current batch), the loop is the plain
   fill of the receiver with the closed form computed in the INITIAL heap.  Hence: the receiver ends up
   with exactly the elements the same call gives independent deep copies, and nothing else is touched. *)
From Coq Require Import ZArith List Bool Lia FinFun.
From ADV Require Import C10.Gen C10.Model C10.Spec C10.ProofsIndex C10.ProofsViews C10.ProofsIter
                        C10.ProofsIterSkip C10.ProofsOps C10.ProofsTipGen C10.ProofsOpsView C10.ProofsPermView
                        C10.ModelBin.
Import ListNotations.
Open Scope Z_scope.

(* ---------------------------------------------------------------- lists *)
Lemma foldR_app : forall X S (f : S -> X -> R S) l1 l2 s,
  foldR f (l1 ++ l2) s = (s' <- foldR f l1 s ;; foldR f l2 s').
Proof.
  intros X S f l1. induction l1 as [|x l1 IH]; intros l2 s; [reflexivity|]. cbn [app foldR].
  destruct (f s x) as [s1| |]; cbn [bind]; try reflexivity. apply IH.
Qed.
Lemma foldR_map : forall X Y S (f : S -> Y -> R S) (h : X -> Y) l s,
  foldR f (map h l) s = foldR (fun s x => f s (h x)) l s.
Proof.
  intros X Y S f h l. induction l as [|x l IH]; intros s; [reflexivity|]. cbn [map foldR].
  destruct (f s (h x)); cbn [bind]; try reflexivity. apply IH.
Qed.
Lemma foldR_ext_in : forall X S (g h : S -> X -> R S) l s, (forall s x, In x l -> g s x = h s x) -> foldR g l s = foldR h l s.
Proof.
  intros X S g h l. induction l as [|x l IH]; intros s E; [reflexivity|]. cbn [foldR].
  rewrite (E s x (or_introl eq_refl)). destruct (h s x); cbn [bind]; try reflexivity.
  apply IH. intros s' y Hy. apply E. right; exact Hy.
Qed.
Lemma foldR_pure : forall X S (f : S -> X -> R S) (h : S -> X -> S) l s,
  (forall s x, In x l -> f s x = ROk (h s x)) -> foldR f l s = ROk (fold_left h l s).
Proof.
  intros X S f h l. induction l as [|x l IH]; intros s E; [reflexivity|]. cbn [foldR fold_left].
  rewrite (E s x (or_introl eq_refl)). cbn [bind]. apply IH. intros s' y Hy. apply E. right; exact Hy.
Qed.
Lemma NoDup_app_intro : forall X (l l' : list X), NoDup l -> NoDup l' -> (forall x, In x l -> ~ In x l') -> NoDup (l ++ l').
Proof.
  intros X l l' N N' D. induction N as [|x l Hx N IH]; [exact N'|]. cbn [app]. constructor.
  - intros I. apply in_app_or in I. destruct I as [I|I]; [exact (Hx I)|]. exact (D x (or_introl eq_refl) I).
  - apply IH. intros y Hy. apply D. right; exact Hy.
Qed.
Lemma NoDup_app_disj : forall X (l l' : list X) x, NoDup (l ++ l') -> In x l -> ~ In x l'.
Proof.
  intros X l l' x N. induction l as [|y l IH]; intros I I'; [destruct I|]. cbn [app] in N. inversion N as [|? ? Hy N1]; subst.
  destruct I as [->|I]; [apply Hy; apply in_or_app; right; exact I'|]. exact (IH N1 I I').
Qed.
Lemma NoDup_zseq : forall n, NoDup (zseq n).
Proof. intros n. unfold zseq. apply Injective_map_NoDup; [intros a b E; lia|apply seq_NoDup]. Qed.
Lemma NoDup_grid : forall (mk : Z -> Z -> Z * Z) xs ys,
  (forall x y x' y', mk x y = mk x' y' -> x = x' /\ y = y') -> NoDup xs -> NoDup ys ->
  NoDup (concat (map (fun x => map (mk x) ys) xs)).
Proof.
  intros mk xs ys Inj Nx Ny. induction Nx as [|x xs Hx Nx IH]; [constructor|]. cbn [map concat].
  apply NoDup_app_intro; [|exact IH|].
  - apply Injective_map_NoDup; [intros a b E; exact (proj2 (Inj _ _ _ _ E))|exact Ny].
  - intros p Ip Ic. apply in_map_iff in Ip. destruct Ip as (y & <- & _).
    apply in_concat in Ic. destruct Ic as (l & Il & Ipl). apply in_map_iff in Il. destruct Il as (x' & <- & Ix').
    apply in_map_iff in Ipl. destruct Ipl as (y' & E & _). destruct (Inj _ _ _ _ E) as [-> _]. exact (Hx Ix').
Qed.
Lemma in_grid : forall (mk : Z -> Z -> Z * Z) xs ys p,
  In p (concat (map (fun x => map (mk x) ys) xs)) <-> exists x y, In x xs /\ In y ys /\ p = mk x y.
Proof.
  intros mk xs ys p. rewrite in_concat. split.
  - intros (l & Il & Ip). apply in_map_iff in Il. destruct Il as (x & <- & Ix). apply in_map_iff in Ip.
    destruct Ip as (y & <- & Iy). exists x, y. auto.
  - intros (x & y & Ix & Iy & ->). exists (map (mk x) ys). split; apply in_map_iff; [exists x|exists y]; auto.
Qed.

(* ---------------------------------------------------------------- operands a write through r cannot change *)
Definition cells_disjoint (x r : mat) : Prop :=
  forall i j i' j' k, DenseP.index x i j = Some k -> DenseP.index r i' j' = Some k -> False.
Definition indep (x r : mat) : Prop := d_values x <> d_values r \/ cells_disjoint x r.

Lemma indep_AT : forall real (r x : mat) H0 H i j, frame r H0 H -> indep x r ->
  mAT real H x i j = mAT real H0 x i j.
Proof.
  intros real r x H0 H i j (L1 & O1 & Z1 & N1) I. unfold mAT, idx. rewrite k_index_P.
  destruct (DenseP.index x i j) as [k|] eqn:Ek; cbn [of_opt bind]; [|reflexivity].
  destruct (Nat.eq_dec (d_values x) (d_values r)) as [E|N]; [|rewrite (O1 _ N); reflexivity].
  destruct I as [N|D]; [contradiction|]. rewrite E. unfold get. rewrite Z1.
  destruct ((k <? 0) || (k >=? zlen (store_of H0 (d_values r)))) eqn:B; [reflexivity|]. f_equal.
  apply orb_false_iff in B. destruct B as [B _]. apply Z.ltb_ge in B.
  apply N1; [exact B|]. intros i' j' _ Ei. exact (D i j i' j' k Ek Ei).
Qed.

(* ---------------------------------------------------------------- batched write loops through one receiver *)
Section Closed.
Variable real : bool.
Variable r : mat.
Variable H0 : heap.

Definition inv (H : heap) : Prop := wf_in H r /\ frame r H0 H.
Definition orig_at (H : heap) (qs : list (Z * Z)) : Prop :=
  forall q, In q qs -> mAT real H r (fst q) (snd q) = mAT real H0 r (fst q) (snd q).

Definition wr (H : heap) (qv : Z * Z * Z) : R heap := mSET real H r (fst (fst qv)) (snd (fst qv)) (snd qv).
Definition batch (val : heap -> Z * Z -> R Z) (H : heap) (qs : list (Z * Z)) : R heap :=
  vs <- mapR (val H) qs ;; foldR wr (combine qs vs) H.

Lemma fill_app : forall g xs ys H, fill real g r (xs ++ ys) H = (H1 <- fill real g r xs H ;; fill real g r ys H1).
Proof. intros. unfold fill. apply foldR_app. Qed.
Lemma combine_fill : forall g qs H,
  foldR wr (combine qs (map (fun q => g (fst q) (snd q)) qs)) H = fill real g r qs H.
Proof.
  intros g qs. induction qs as [|q qs IH]; intros H; [reflexivity|]. unfold fill in *. cbn [map combine foldR].
  unfold wr at 1. cbn [fst snd]. destruct (mSET real H r (fst q) (snd q) (g (fst q) (snd q))); cbn [bind]; try reflexivity. apply IH.
Qed.
Lemma batch_fill : forall val g qs H, (forall q, In q qs -> val H q = ROk (g (fst q) (snd q))) ->
  batch val H qs = fill real g r qs H.
Proof.
  intros val g qs H E. unfold batch. rewrite (mapR_ROk _ _ _ (fun q => g (fst q) (snd q))) by exact E.
  cbn [bind]. apply combine_fill.
Qed.
Lemma fill_inv : forall g ps H H1, inv H -> fill real g r ps H = ROk H1 ->
  inv H1 /\ (forall q, ~ In q ps -> mAT real H1 r (fst q) (snd q) = mAT real H r (fst q) (snd q)).
Proof.
  intros g ps. induction ps as [|p ps IH]; intros H H1 [W F] E.
  - inversion E; subst. split; [split; assumption|]. reflexivity.
  - unfold fill in E. cbn [foldR] in E.
    destruct (mSET real H r (fst p) (snd p) (g (fst p) (snd p))) as [Ha| |] eqn:Ea; cbn [bind] in E; try discriminate.
    destruct (mSET_frame real H0 H r _ _ _ Ha W F Ea) as [Wa Fa].
    destruct (IH Ha H1 (conj Wa Fa) E) as [I1 P1]. split; [exact I1|].
    intros q Nq. rewrite P1 by (intros I; apply Nq; right; exact I).
    destruct (mSET_spec real H r _ _ _ Ha W Ea) as (_ & _ & Ot & _). apply Ot.
    intros Eq. apply Nq. left. destruct p, q; simpl in *. inversion Eq; reflexivity.
Qed.

Lemma batches_fill : forall (val : heap -> Z * Z -> R Z) g bs H,
  inv H -> NoDup (concat bs) -> orig_at H (concat bs) ->
  (forall H qs, In qs bs -> inv H -> orig_at H qs -> forall q, In q qs -> val H q = ROk (g (fst q) (snd q))) ->
  foldR (batch val) bs H = fill real g r (concat bs) H.
Proof.
  intros val g bs. induction bs as [|qs bs IH]; intros H I N O V; [reflexivity|]. cbn [foldR concat].
  rewrite (batch_fill val g qs H).
  2:{ apply (V H qs (or_introl eq_refl) I). intros q Hq. apply O. cbn [concat]. apply in_or_app. left; exact Hq. }
  rewrite fill_app. destruct (fill real g r qs H) as [H1| |] eqn:E1; cbn [bind]; try reflexivity.
  destruct (fill_inv g qs H H1 I E1) as [I1 P1]. cbn [concat] in N, O.
  apply IH; [exact I1| | |].
  - clear -N. induction qs as [|q qs IHq]; [exact N|]. cbn [app] in N. inversion N; subst. apply IHq. assumption.
  - intros q Hq. rewrite P1; [apply O; apply in_or_app; right; exact Hq|].
    intros Iq. exact (NoDup_app_disj _ _ _ q N Iq Hq).
  - intros Hx qs' Iqs. apply V. right; exact Iqs.
Qed.

(* what a fill of the receiver leaves behind *)
Lemma fill_result : forall g ps, wf_in H0 r -> (forall p, In p ps -> in_range r (fst p) (snd p)) ->
  exists H1, fill real g r ps H0 = ROk H1 /\ wf_in H1 r /\ frame r H0 H1 /\
    forall i j, In (i, j) ps -> mAT real H1 r i j = ROk (g i j).
Proof.
  intros g ps W Hin. destruct (fill_spec real g r ps H0 W Hin) as (H1 & E & W1 & Vals & _).
  exists H1. split; [exact E|]. split; [exact W1|]. split; [|exact Vals].
  exact (proj2 (proj1 (fill_inv g ps H0 H1 (conj W (frame_refl r H0)) E))).
Qed.
End Closed.

Lemma concat_singletons : forall X (l : list X), concat (map (fun p => [p]) l) = l.
Proof. intros X l. induction l as [|x l IH]; [reflexivity|]. cbn [map concat app]. rewrite IH. reflexivity. Qed.
Lemma positions_as_grid : forall n m, positions n m = concat (map (fun i => map (fun j => (i, j)) (zseq m)) (zseq n)).
Proof. intros. unfold positions. apply flat_map_concat_map. Qed.
Lemma NoDup_positions : forall n m, NoDup (positions n m).
Proof.
  intros n m. rewrite positions_as_grid. apply (NoDup_grid (fun i j => (i, j))); [|apply NoDup_zseq|apply NoDup_zseq].
  intros x y x' y' E. inversion E. auto.
Qed.
Lemma idx_in_range : forall real (r : mat) i j, in_range r i j -> exists k, idx real r i j = ROk k.
Proof.
  intros real r i j Rg. unfold idx. rewrite k_index_P. destruct (DenseP.index r i j) as [k|] eqn:E; [exists k; reflexivity|].
  apply index_guard in E. unfold in_range in Rg. lia.
Qed.

(* ================================================================ element-wise operations *)
(* an operand of r.MaddM / MsubM / MmulM: the receiver itself, or a matrix of the receiver's shape that no
   write through the receiver can reach (another storage, or other cells of the receiver's storage) *)
Definition ew_opnd (H0 : heap) (r x : mat) : Prop :=
  x = r \/ (indep x r /\ wf_in H0 x /\ d_rows x = d_rows r /\ d_cols x = d_cols r).
Definition ew_g (real : bool) (H0 : heap) (f : Z) (a b : mat) (i j : Z) : Z :=
  ew_fun f (elem real H0 a (i, j)) (elem real H0 b (i, j)).
Definition ew_val (real : bool) (f : Z) (r a b : mat) (H : heap) (p : Z * Z) : R Z :=
  _ <- idx real r (fst p) (snd p) ;; x <- mAT real H a (fst p) (snd p) ;; y <- mAT real H b (fst p) (snd p) ;;
  ROk (ew_fun f x y).

Lemma ew_opnd_dims : forall real H0 r x, ew_opnd H0 r x -> dims_eq real r x = true.
Proof.
  intros real H0 r x [->|(_ & _ & Er & Ec)]; unfold dims_eq; rewrite !k_dims_P; [rewrite !Z.eqb_refl; reflexivity|].
  rewrite Er, Ec, !Z.eqb_refl. reflexivity.
Qed.
Lemma ew_opnd_read : forall real H0 r x H p, wf_in H0 r -> ew_opnd H0 r x -> inv r H0 H -> orig_at real r H0 H [p] ->
  in_range r (fst p) (snd p) -> mAT real H x (fst p) (snd p) = ROk (elem real H0 x p).
Proof.
  intros real H0 r x H [i j] W0 [->|(I & Wx & Er & Ec)] [W F] O Rg; cbn [fst snd] in *.
  - pose proof (O (i, j) (or_introl eq_refl)) as Q. cbn [fst snd] in Q. rewrite Q. apply (mAT_elem real H0 r W0 i j Rg).
  - rewrite (indep_AT real r x H0 H i j F I). apply (mAT_elem real H0 x Wx i j).
    unfold in_range in *. rewrite Er, Ec. exact Rg.
Qed.
Lemma ew_loop_batches : forall real f (r a b : mat) ps H,
  foldR (fun H p => _ <- idx real r (fst p) (snd p) ;;
                    x <- mAT real H a (fst p) (snd p) ;; y <- mAT real H b (fst p) (snd p) ;;
                    mSET real H r (fst p) (snd p) (ew_fun f x y)) ps H
  = foldR (batch real r (ew_val real f r a b)) (map (fun p => [p]) ps) H.
Proof.
  intros real f r a b ps. induction ps as [|p ps IH]; intros H; [reflexivity|]. cbn [map foldR].
  unfold batch at 1, ew_val at 1. cbn [mapR].
  destruct (idx real r (fst p) (snd p)); cbn [bind]; try reflexivity.
  destruct (mAT real H a (fst p) (snd p)); cbn [bind]; try reflexivity.
  destruct (mAT real H b (fst p) (snd p)); cbn [bind]; try reflexivity.
  cbn [combine foldR]. unfold wr at 1. cbn [fst snd].
  destruct (mSET real H r (fst p) (snd p) _); cbn [bind]; try reflexivity. apply IH.
Qed.

Theorem ew_closed_form : forall real f H0 (r a b : mat), wf_in H0 r -> ew_opnd H0 r a -> ew_opnd H0 r b ->
  mEw real f H0 r a b = fill real (ew_g real H0 f a b) r (mpos real r) H0.
Proof.
  intros real f H0 r a b W0 Oa Ob. unfold mEw.
  rewrite (ew_opnd_dims real H0 r a Oa), (ew_opnd_dims real H0 r b Ob). cbn [andb negb].
  rewrite ew_loop_batches.
  rewrite (batches_fill real r H0 (ew_val real f r a b) (ew_g real H0 f a b)).
  - rewrite concat_singletons. reflexivity.
  - split; [exact W0|apply frame_refl].
  - rewrite concat_singletons. unfold mpos. rewrite k_dims_P. apply NoDup_positions.
  - intros q _. reflexivity.
  - intros H qs Iqs I O q Hq. apply in_map_iff in Iqs. destruct Iqs as (p & <- & Ip).
    destruct Hq as [<-|[]]. unfold mpos in Ip. rewrite k_dims_P in Ip. destruct p as [i j]. apply in_positions in Ip.
    unfold ew_val. cbn [fst snd]. destruct (idx_in_range real r i j Ip) as (k & ->). cbn [bind].
    pose proof (ew_opnd_read real H0 r a H (i, j) W0 Oa I O Ip) as Qa. pose proof (ew_opnd_read real H0 r b H (i, j) W0 Ob I O Ip) as Qb.
    cbn [fst snd] in Qa, Qb. rewrite Qa, Qb. reflexivity.
Qed.

(* the specification: every element of the receiver becomes f (a(i,j)) (b(i,j)) with a, b read BEFORE the call;
   every cell the receiver does not denote and every other storage is untouched *)
Theorem ew_on_views_of_one_storage : forall real f H0 (r a b : mat), wf_in H0 r -> ew_opnd H0 r a -> ew_opnd H0 r b ->
  exists H1, mEw real f H0 r a b = ROk H1 /\ wf_in H1 r /\ frame r H0 H1 /\
    forall i j, in_range r i j -> mAT real H1 r i j = ROk (ew_g real H0 f a b i j).
Proof.
  intros real f H0 r a b W0 Oa Ob. rewrite (ew_closed_form real f H0 r a b W0 Oa Ob).
  assert (Hin : forall p, In p (mpos real r) -> in_range r (fst p) (snd p)).
  { intros [i j] I. unfold mpos in I. rewrite k_dims_P in I. apply in_positions in I. exact I. }
  destruct (fill_result real r H0 (ew_g real H0 f a b) (mpos real r) W0 Hin) as (H1 & E & W1 & F1 & V).
  exists H1. split; [exact E|]. split; [exact W1|]. split; [exact F1|]. intros i j Rg. apply V.
  unfold mpos. rewrite k_dims_P. apply in_positions. exact Rg.
Qed.

(* ================================================================ the matrix product r.MdotM(a, b) *)
(* left factor: the receiver itself (then the right factor must live in ANOTHER storage, or the storageLocation
   test picks the column schedule: F-MDOTM-SIBLING), or a matrix no write through the receiver can reach;
   right factor: the receiver itself, or a matrix no write through the receiver can reach *)
Definition prod_lopnd (H0 : heap) (r a b : mat) : Prop := (a = r /\ d_values b <> d_values r) \/ (indep a r /\ wf_in H0 a).
Definition prod_ropnd (H0 : heap) (r b : mat) : Prop := b = r \/ (indep b r /\ wf_in H0 b).
Definition dotv (real : bool) (H0 : heap) (a b : mat) (i j : Z) : Z :=
  fold_left (fun acc k => acc + elem real H0 a (i, k) * elem real H0 b (k, j)) (zseq (d_cols a)) 0.
Definition dval (real : bool) (a b : mat) (m1 : Z) (H : heap) (q : Z * Z) : R Z := dot real H a b (fst q) (snd q) m1.
Definition row_batches (n m : Z) := map (fun i => map (fun j => (i, j)) (zseq m)) (zseq n).
Definition col_batches (n m : Z) := map (fun j => map (fun i => (i, j)) (zseq n)) (zseq m).

Lemma wr_row : forall real (r : mat) i js t3 H,
  foldR (fun H jt => mSET real H r i (fst jt) (snd jt)) (combine js t3) H
  = foldR (wr real r) (combine (map (fun j => (i, j)) js) t3) H.
Proof.
  intros real r i js. induction js as [|j js IH]; intros t3 H; [reflexivity|]. destruct t3 as [|v t3]; [reflexivity|].
  cbn [map combine foldR]. unfold wr at 1. cbn [fst snd]. destruct (mSET real H r i j v); cbn [bind]; try reflexivity. apply IH.
Qed.
Lemma wr_col : forall real (r : mat) j is t3 H,
  foldR (fun H it => mSET real H r (fst it) j (snd it)) (combine is t3) H
  = foldR (wr real r) (combine (map (fun i => (i, j)) is) t3) H.
Proof.
  intros real r j is. induction is as [|i is IH]; intros t3 H; [reflexivity|]. destruct t3 as [|v t3]; [reflexivity|].
  cbn [map combine foldR]. unfold wr at 1. cbn [fst snd]. destruct (mSET real H r i j v); cbn [bind]; try reflexivity. apply IH.
Qed.
Lemma row_sched : forall real (r a b : mat) m1 n m H,
  foldR (fun H i => t3 <- mapR (fun j => dot real H a b i j m1) (zseq m) ;;
                    foldR (fun H jt => mSET real H r i (fst jt) (snd jt)) (combine (zseq m) t3) H) (zseq n) H
  = foldR (batch real r (dval real a b m1)) (row_batches n m) H.
Proof.
  intros real r a b m1 n m H. unfold row_batches. rewrite foldR_map. apply foldR_ext. intros H' i.
  unfold batch, dval. rewrite mapR_pre. cbn [fst snd].
  destruct (mapR (fun j => dot real H' a b i j m1) (zseq m)) as [t3| |]; cbn [bind]; try reflexivity. apply wr_row.
Qed.
Lemma col_sched : forall real (r a b : mat) m1 n m H,
  foldR (fun H j => t3 <- mapR (fun i => dot real H a b i j m1) (zseq n) ;;
                    foldR (fun H it => mSET real H r (fst it) j (snd it)) (combine (zseq n) t3) H) (zseq m) H
  = foldR (batch real r (dval real a b m1)) (col_batches n m) H.
Proof.
  intros real r a b m1 n m H. unfold col_batches. rewrite foldR_map. apply foldR_ext. intros H' j.
  unfold batch, dval. rewrite mapR_pre. cbn [fst snd].
  destruct (mapR (fun i => dot real H' a b i j m1) (zseq n)) as [t3| |]; cbn [bind]; try reflexivity. apply wr_col.
Qed.
Lemma dot_closed : forall real H0 H (a b : mat) i j,
  (forall k, 0 <= k < d_cols a -> mAT real H a i k = ROk (elem real H0 a (i, k))) ->
  (forall k, 0 <= k < d_cols a -> mAT real H b k j = ROk (elem real H0 b (k, j))) ->
  dot real H a b i j (d_cols a) = ROk (dotv real H0 a b i j).
Proof.
  intros real H0 H a b i j RA RB. unfold dot, dotv. apply foldR_pure. intros acc k Ik. apply in_zseq in Ik.
  rewrite (RA k Ik), (RB k Ik). reflexivity.
Qed.
Lemma storage_location_ok : forall H (x : mat), wf_in H x -> 0 < d_rows x -> 0 < d_cols x ->
  storage_location H x = ROk (d_values x).
Proof.
  intros H x (_ & _ & _ & ? & ? & ? & ? & L) Hr Hc. unfold storage_location.
  replace (zlen (store_of H (d_values x)) =? 0) with false by (symmetry; apply Z.eqb_neq; nia). reflexivity.
Qed.

Theorem mdotm_on_views_of_one_storage : forall real H0 (r a b : mat), wf_in H0 r ->
  0 < d_rows r -> 0 < d_cols r -> 0 < d_cols a ->
  d_rows a = d_rows r -> d_cols b = d_cols r -> d_cols a = d_rows b ->
  prod_lopnd H0 r a b -> prod_ropnd H0 r b ->
  exists H1, mMdotM real H0 r a b = ROk H1 /\ wf_in H1 r /\ frame r H0 H1 /\
    forall i j, in_range r i j -> mAT real H1 r i j = ROk (dotv real H0 a b i j).
Proof.
  intros real H0 r a b W0 Pn Pm Pk D1 D2 D3 Oa Ob.
  assert (Wa : wf_in H0 a) by (destruct Oa as [[-> _]|[_ Wa]]; assumption).
  assert (Wb : wf_in H0 b) by (destruct Ob as [->|[_ Wb]]; assumption).
  unfold mMdotM. rewrite !k_dims_P.
  replace ((d_rows a =? d_rows r) && (d_cols b =? d_cols r) && (d_cols a =? d_rows b)) with true
    by (rewrite D1, D2, D3, !Z.eqb_refl; reflexivity). cbn [negb].
  rewrite (storage_location_ok H0 r W0 Pn Pm), (storage_location_ok H0 b Wb ltac:(lia) ltac:(lia)). cbn [bind].
  (* reading the factors in any heap the loop can reach *)
  assert (RAi : forall H i k, inv r H0 H -> indep a r -> 0 <= i < d_rows r -> 0 <= k < d_cols a ->
                 mAT real H a i k = ROk (elem real H0 a (i, k))).
  { intros H i k [_ F] I Hi Hk. rewrite (indep_AT real r a H0 H i k F I). apply (mAT_elem real H0 a Wa). unfold in_range. lia. }
  assert (RBi : forall H k j, inv r H0 H -> indep b r -> 0 <= j < d_cols r -> 0 <= k < d_cols a ->
                 mAT real H b k j = ROk (elem real H0 b (k, j))).
  { intros H k j [_ F] I Hj Hk. rewrite (indep_AT real r b H0 H k j F I). apply (mAT_elem real H0 b Wb). unfold in_range. lia. }
  assert (Fin : forall bs, NoDup (concat bs) ->
            (forall i j, In (i, j) (concat bs) <-> in_range r i j) ->
            (forall H qs, In qs bs -> inv r H0 H -> orig_at real r H0 H qs -> forall q, In q qs ->
               dval real a b (d_cols a) H q = ROk (dotv real H0 a b (fst q) (snd q))) ->
            exists H1, foldR (batch real r (dval real a b (d_cols a))) bs H0 = ROk H1 /\ wf_in H1 r /\ frame r H0 H1 /\
              forall i j, in_range r i j -> mAT real H1 r i j = ROk (dotv real H0 a b i j)).
  { intros bs N Mem V.
    rewrite (batches_fill real r H0 (dval real a b (d_cols a)) (dotv real H0 a b) bs H0
               (conj W0 (frame_refl r H0)) N (fun q _ => eq_refl) V).
    assert (Hin : forall p, In p (concat bs) -> in_range r (fst p) (snd p)) by (intros [i j] I; apply Mem; exact I).
    destruct (fill_result real r H0 (dotv real H0 a b) (concat bs) W0 Hin) as (H1 & E & W1 & F1 & Vals).
    exists H1. split; [exact E|]. split; [exact W1|]. split; [exact F1|]. intros i j Rg. apply Vals. apply Mem. exact Rg. }
  destruct (Nat.eqb (d_values r) (d_values b)) eqn:Eq.
  - (* the receiver shares the right factor's storage: column-buffered schedule *)
    apply Nat.eqb_eq in Eq. rewrite col_sched. apply Fin.
    + unfold col_batches. apply (NoDup_grid (fun j i => (i, j))); [|apply NoDup_zseq|apply NoDup_zseq].
      intros x y x' y' E. inversion E. auto.
    + intros i j. unfold col_batches. rewrite (in_grid (fun j i => (i, j))). unfold in_range. split.
      * intros (x & y & Ix & Iy & E). inversion E; subst. apply in_zseq in Ix. apply in_zseq in Iy. lia.
      * intros Rg. exists j, i. split; [apply in_zseq; lia|]. split; [apply in_zseq; lia|reflexivity].
    + intros H qs Iqs I O q Hq. unfold col_batches in Iqs. apply in_map_iff in Iqs. destruct Iqs as (j & <- & Ij).
      apply in_map_iff in Hq. destruct Hq as (i & <- & Ii). apply in_zseq in Ij. apply in_zseq in Ii.
      unfold dval. cbn [fst snd]. apply dot_closed.
      * destruct Oa as [[_ Nb]|[Ia _]]; [exfalso; apply Nb; symmetry; exact Eq|].
        intros k Hk. apply RAi; assumption.
      * intros k Hk. destruct Ob as [Eb|[Ib _]]; [|apply RBi; assumption].
        rewrite Eb in *. assert (Ik : In (k, j) (map (fun i0 => (i0, j)) (zseq (d_rows r)))).
        { apply in_map_iff. exists k. split; [reflexivity|]. apply in_zseq. lia. }
        pose proof (O (k, j) Ik) as Q. cbn [fst snd] in Q. rewrite Q. apply (mAT_elem real H0 r W0). unfold in_range. lia.
  - (* the right factor lives in another storage: row-buffered schedule *)
    apply Nat.eqb_neq in Eq. rewrite row_sched. apply Fin.
    + unfold row_batches. apply (NoDup_grid (fun i j => (i, j))); [|apply NoDup_zseq|apply NoDup_zseq].
      intros x y x' y' E. inversion E. auto.
    + intros i j. unfold row_batches. rewrite (in_grid (fun i j => (i, j))). unfold in_range. split.
      * intros (x & y & Ix & Iy & E). inversion E; subst. apply in_zseq in Ix. apply in_zseq in Iy. lia.
      * intros Rg. exists i, j. split; [apply in_zseq; lia|]. split; [apply in_zseq; lia|reflexivity].
    + intros H qs Iqs I O q Hq. unfold row_batches in Iqs. apply in_map_iff in Iqs. destruct Iqs as (i & <- & Ii).
      apply in_map_iff in Hq. destruct Hq as (j & <- & Ij). apply in_zseq in Ij. apply in_zseq in Ii.
      unfold dval. cbn [fst snd]. apply dot_closed.
      * intros k Hk. destruct Oa as [[Ea _]|[Ia _]]; [|apply RAi; assumption].
        rewrite Ea in *. assert (Ik : In (i, k) (map (fun j0 => (i, j0)) (zseq (d_cols r)))).
        { apply in_map_iff. exists k. split; [reflexivity|]. apply in_zseq. lia. }
        pose proof (O (i, k) Ik) as Q. cbn [fst snd] in Q. rewrite Q. apply (mAT_elem real H0 r W0). unfold in_range. lia.
      * destruct Ob as [Eb|[Ib _]]; [exfalso; apply Eq; rewrite Eb; reflexivity|].
        intros k Hk. apply RBi; assumption.
Qed.

(* ================================================================ the result depends on the ELEMENTS only:
   the call on views of one storage and the call on any other placement of the same elements (in particular
   independent deep copies, which are [indep] of each other because they live in different storages) leave
   their receivers with the same elements *)
Lemma elem_se : forall real H H' (x x' : mat) p, same_elems real H x H' x' -> elem real H x p = elem real H' x' p.
Proof. intros real H H' x x' p (_ & _ & EA). unfold elem. rewrite EA. reflexivity. Qed.
Lemma fold_left_ext : forall X S (f g : S -> X -> S) l s, (forall s x, f s x = g s x) -> fold_left f l s = fold_left g l s.
Proof. intros X S f g l. induction l as [|x l IH]; intros s E; [reflexivity|]. cbn [fold_left]. rewrite E. apply IH; exact E. Qed.
Lemma same_elems_from_values : forall real H1 H1' (r r' : mat) (g : Z -> Z -> Z),
  d_rows r = d_rows r' -> d_cols r = d_cols r' ->
  (forall i j, in_range r i j -> mAT real H1 r i j = ROk (g i j)) ->
  (forall i j, in_range r' i j -> mAT real H1' r' i j = ROk (g i j)) -> same_elems real H1 r H1' r'.
Proof.
  intros real H1 H1' r r' g Er Ec V V'. split; [exact Er|]. split; [exact Ec|]. intros i j.
  destruct (in_range_dec r i j) as [Rg|N].
  - rewrite (V i j Rg), (V' i j) by (unfold in_range in *; rewrite <- Er, <- Ec; exact Rg). reflexivity.
  - rewrite !mAT_out_of_range; [reflexivity| |exact N]. unfold in_range in *. rewrite <- Er, <- Ec. exact N.
Qed.

Theorem ew_on_views_equals_ew_on_copies : forall real f H (r a b : mat) H' (r' a' b' : mat),
  wf_in H r -> ew_opnd H r a -> ew_opnd H r b -> wf_in H' r' -> ew_opnd H' r' a' -> ew_opnd H' r' b' ->
  same_elems real H r H' r' -> same_elems real H a H' a' -> same_elems real H b H' b' ->
  exists H1 H1', mEw real f H r a b = ROk H1 /\ mEw real f H' r' a' b' = ROk H1' /\
    frame r H H1 /\ frame r' H' H1' /\ same_elems real H1 r H1' r'.
Proof.
  intros real f H r a b H' r' a' b' W Oa Ob W' Oa' Ob' Sr Sa Sb.
  destruct (ew_on_views_of_one_storage real f H r a b W Oa Ob) as (H1 & E & _ & F & V).
  destruct (ew_on_views_of_one_storage real f H' r' a' b' W' Oa' Ob') as (H1' & E' & _ & F' & V').
  exists H1, H1'. split; [exact E|]. split; [exact E'|]. split; [exact F|]. split; [exact F'|].
  destruct Sr as (Er & Ec & _). apply (same_elems_from_values real H1 H1' r r' (ew_g real H f a b) Er Ec V).
  intros i j Rg. rewrite (V' i j Rg). unfold ew_g. rewrite (elem_se real H H' a a' _ Sa), (elem_se real H H' b b' _ Sb). reflexivity.
Qed.

Theorem mdotm_on_views_equals_mdotm_on_copies : forall real H (r a b : mat) H' (r' a' b' : mat),
  wf_in H r -> wf_in H' r' -> 0 < d_rows r -> 0 < d_cols r -> 0 < d_cols a ->
  d_rows a = d_rows r -> d_cols b = d_cols r -> d_cols a = d_rows b ->
  prod_lopnd H r a b -> prod_ropnd H r b -> prod_lopnd H' r' a' b' -> prod_ropnd H' r' b' ->
  d_rows r = d_rows r' -> d_cols r = d_cols r' -> same_elems real H a H' a' -> same_elems real H b H' b' ->
  exists H1 H1', mMdotM real H r a b = ROk H1 /\ mMdotM real H' r' a' b' = ROk H1' /\
    frame r H H1 /\ frame r' H' H1' /\ same_elems real H1 r H1' r'.
Proof.
  intros real H r a b H' r' a' b' W W' Pn Pm Pk D1 D2 D3 Oa Ob Oa' Ob' Er Ec Sa Sb.
  pose proof Sa as (Ea1 & Ea2 & _). pose proof Sb as (Eb1 & Eb2 & _).
  destruct (mdotm_on_views_of_one_storage real H r a b W Pn Pm Pk D1 D2 D3 Oa Ob) as (H1 & E & _ & F & V).
  assert (Pn' : 0 < d_rows r') by lia. assert (Pm' : 0 < d_cols r') by lia. assert (Pk' : 0 < d_cols a') by lia.
  assert (D1' : d_rows a' = d_rows r') by lia. assert (D2' : d_cols b' = d_cols r') by lia.
  assert (D3' : d_cols a' = d_rows b') by lia.
  destruct (mdotm_on_views_of_one_storage real H' r' a' b' W' Pn' Pm' Pk' D1' D2' D3' Oa' Ob') as (H1' & E' & _ & F' & V').
  exists H1, H1'. split; [exact E|]. split; [exact E'|]. split; [exact F|]. split; [exact F'|].
  apply (same_elems_from_values real H1 H1' r r' (dotv real H a b) Er Ec V).
  intros i j Rg. rewrite (V' i j Rg). unfold dotv. rewrite <- Ea2. f_equal. apply fold_left_ext. intros acc k.
  rewrite (elem_se real H H' a a' _ Sa), (elem_se real H H' b b' _ Sb). reflexivity.
Qed.

(* F-MDOTM-SIBLING: the left factor is the receiver and the right factor a (disjoint) window of the same parent:
   the storageLocation test picks the column schedule and the product is wrong; on deep copies it is right *)
Lemma mdotm_left_alias_sibling_refuted :
  let H := [[1; 2; 3; 4; 5; 6; 7; 8; 9; 10; 11; 12; 13; 14; 15; 16]] in
  let p := new_mat 0 4 4 in
  let r := DenseP.SLICE p 0 2 0 2 in let b := DenseP.SLICE p 2 4 2 4 in
  wf_in H r /\ wf_in H b /\ cells_disjoint b r /\
  (H1 <- mMdotM false H r r b ;; read_all false H1 r) = ROk [41; 524; 145; 1836] /\
  (let H' := [[1; 2; 5; 6]; [11; 12; 15; 16]] in
   H1 <- mMdotM false H' (new_mat 0 2 2) (new_mat 0 2 2) (new_mat 1 2 2) ;; read_all false H1 (new_mat 0 2 2)) = ROk [41; 44; 145; 156].
Proof.
  cbv zeta. split; [vm_compute; repeat split; try discriminate; lia|]. split; [vm_compute; repeat split; try discriminate; lia|].
  split; [|split; reflexivity].
  intros i j i' j' k E E'.
  assert (IR : forall (x : mat) u v w, DenseP.index x u v = Some w -> in_range x u v).
  { intros x u v w Ex. unfold in_range. destruct (index_guard x u v) as [_ G].
    destruct (Z_lt_dec u 0); [rewrite G in Ex by lia; discriminate|]. destruct (Z_lt_dec v 0); [rewrite G in Ex by lia; discriminate|].
    destruct (Z_ge_dec u (d_rows x)); [rewrite G in Ex by lia; discriminate|].
    destruct (Z_ge_dec v (d_cols x)); [rewrite G in Ex by lia; discriminate|]. lia. }
  pose proof (IR _ _ _ _ E) as Rg. pose proof (IR _ _ _ _ E') as Rg'.
  rewrite (index_some _ _ _ Rg) in E. rewrite (index_some _ _ _ Rg') in E'.
  unfold in_range, DenseP.SLICE, new_mat, d_set_cols, d_set_colOffset, d_set_rows, d_set_rowOffset in *.
  cbn [d_rows d_cols d_rowOffset d_colOffset d_rowMax d_colMax d_transposed d_values] in *.
  assert (Q : forall x y : Z, Some x = Some y -> x = y) by (intros x y Exy; congruence).
  apply Q in E. apply Q in E'. lia.
Qed.
(* the same shapes with the product's left factor on other cells: right (all three are windows of one parent) *)
Example mdotm_three_windows_nontrivial :
  let H := [[1; 2; 3; 4; 5; 6; 7; 8; 9; 10; 11; 12; 13; 14; 15; 16]] in
  let p := new_mat 0 4 4 in
  let r := DenseP.SLICE p 0 2 0 2 in let a := DenseP.SLICE p 0 2 2 4 in let b := DenseP.T (DenseP.SLICE p 2 4 2 4) in
  (H1 <- mMdotM false H r a b ;; ROk (store_of H1 0)) = ROk [81; 109; 3; 4; 173; 233; 7; 8; 9; 10; 11; 12; 13; 14; 15; 16] /\
  dotv false H a b 1 1 = 233.
Proof. split; reflexivity. Qed.

(* ================================================================ the concrete instance: three independent deep copies *)
Lemma heap_grows : forall real (H H' : heap) (x : mat), (length H <= length H')%nat ->
  (forall l, (l < length H)%nat -> store_of H' l = store_of H l) -> wf_in H x ->
  wf_in H' x /\ forall i j, mAT real H' x i j = mAT real H x i j.
Proof.
  intros real H H' x L Old [Lx Wx]. split.
  - split; [lia|]. rewrite (Old _ Lx). exact Wx.
  - intros i j. unfold mAT. rewrite (Old _ Lx). reflexivity.
Qed.
Lemma same_elems_trans3 : forall real H0 H1 H2 H3 (x c : mat),
  (forall i j, mAT real H1 x i j = mAT real H0 x i j) -> same_elems real H1 x H2 c ->
  (forall i j, mAT real H3 c i j = mAT real H2 c i j) -> same_elems real H0 x H3 c.
Proof.
  intros real H0 H1 H2 H3 x c E1 (Er & Ec & EA) E3. split; [exact Er|]. split; [exact Ec|].
  intros i j. rewrite <- E1, EA, E3. reflexivity.
Qed.

Theorem mdotm_on_views_equals_mdotm_on_deep_copies : forall real H (r a b : mat),
  wf_in H r -> 0 < d_rows r -> 0 < d_cols r -> 0 < d_cols a ->
  d_rows a = d_rows r -> d_cols b = d_cols r -> d_cols a = d_rows b ->
  indep a r -> wf_in H a -> indep b r -> wf_in H b ->
  exists Hr cr Ha ca Hb cb, deep_copy real H r = ROk (Hr, cr) /\ deep_copy real Hr a = ROk (Ha, ca) /\
    deep_copy real Ha b = ROk (Hb, cb) /\
    exists H1 H1', mMdotM real H r a b = ROk H1 /\ mMdotM real Hb cr ca cb = ROk H1' /\
      frame r H H1 /\ frame cr Hb H1' /\ same_elems real H1 r H1' cr.
Proof.
  intros real H r a b W Pn Pm Pk D1 D2 D3 Ia Wa Ib Wb.
  destruct (deep_copy_spec real H r W) as (Hr & cr & Er & Lr & _ & _ & Wcr & Oldr & Sr).
  destruct (deep_copy_shape real H r Hr cr Er) as (sr & EHr).
  assert (Lenr : length Hr = S (length H)) by (rewrite EHr, app_length; simpl; lia).
  destruct (heap_grows real H Hr a ltac:(lia) Oldr Wa) as [Wa1 Ea1].
  destruct (deep_copy_spec real Hr a Wa1) as (Ha & ca & Ea & La & _ & _ & Wca & Olda & Sa).
  destruct (deep_copy_shape real Hr a Ha ca Ea) as (sa & EHa).
  assert (Lena : length Ha = S (length Hr)) by (rewrite EHa, app_length; simpl; lia).
  assert (Oldra : forall l, (l < length H)%nat -> store_of Ha l = store_of H l).
  { intros l Hl. rewrite Olda by lia. apply Oldr; exact Hl. }
  destruct (heap_grows real H Ha b ltac:(lia) Oldra Wb) as [Wb2 Eb2].
  destruct (deep_copy_spec real Ha b Wb2) as (Hb & cb & Eb & Lb & _ & _ & Wcb & Oldb & Sb).
  destruct (deep_copy_shape real Ha b Hb cb Eb) as (sb & EHb).
  assert (Lenb : length Hb = S (length Ha)) by (rewrite EHb, app_length; simpl; lia).
  exists Hr, cr, Ha, ca, Hb, cb. split; [exact Er|]. split; [exact Ea|]. split; [exact Eb|].
  destruct (heap_grows real Hr Ha cr ltac:(lia) Olda Wcr) as [Wcr2 Ecr2].
  destruct (heap_grows real Ha Hb cr ltac:(lia) Oldb Wcr2) as [Wcr3 Ecr3].
  destruct (heap_grows real Ha Hb ca ltac:(lia) Oldb Wca) as [Wca3 Eca3].
  assert (SA : same_elems real H a Hb ca) by (apply (same_elems_trans3 real H Hr Ha Hb a ca Ea1 Sa Eca3)).
  assert (SB : same_elems real H b Hb cb) by (apply (same_elems_trans3 real H Ha Hb Hb b cb Eb2 Sb); reflexivity).
  destruct Sr as (Rr & Rc & _).
  apply (mdotm_on_views_equals_mdotm_on_copies real H r a b Hb cr ca cb W Wcr3 Pn Pm Pk D1 D2 D3); try assumption.
  - right. split; assumption.
  - right. split; assumption.
  - right. split; [left; lia|exact Wca3].
  - right. split; [left; lia|exact Wcb].
Qed.
