(* C10 (round 7) — Equals between TWO views of one storage (shifted windows of one parent, a square window and its
   own T(), a window and itself): the result is decided by the elements the two views denote and by nothing else.
   (1) closed form: on well-formed views of equal shape, a.Equals(b) = "every position holds equal elements"
       (forallb over the row-major positions), a dimension panic otherwise -- in particular no shortcut may be taken
       from the fact that both sides live in the same storage (same d_values), whatever their offsets and flags;
   (2) the call on the two views = the call on two independent deep copies, in both argument orders. *)
From Coq Require Import ZArith List Bool Lia.
From ADV Require Import C10.Gen C10.GenAcc C10.Model C10.ModelMap C10.Spec C10.ProofsIndex C10.ProofsViews C10.ProofsIter
                        C10.ProofsIterSkip C10.ProofsOps C10.ProofsTipGen C10.ProofsOpsView C10.ProofsPermView C10.ModelBin
                        C10.ProofsBinView C10.ProofsMap.
Import ListNotations.
Open Scope Z_scope.

Definition elems_agree (real : bool) (H : heap) (a b : mat) : bool :=
  forallb (fun p => elem real H a p =? elem real H b p) (positions (d_rows a) (d_cols a)).

Lemma equals_loop_closed : forall real H (a b : mat) ps acc,
  (forall p, In p ps -> in_range a (fst p) (snd p) /\ in_range b (fst p) (snd p)) -> wf_in H a -> wf_in H b ->
  foldR (fun acc p => if negb acc then ROk false else
                      x <- mAT real H a (fst p) (snd p) ;; y <- mAT real H b (fst p) (snd p) ;; ROk (x =? y)) ps acc
  = ROk (acc && forallb (fun p => elem real H a p =? elem real H b p) ps).
Proof.
  intros real H a b ps. induction ps as [|p ps IH]; intros acc In Wa Wb.
  - simpl. rewrite andb_true_r. reflexivity.
  - cbn [foldR forallb]. destruct acc; cbn [negb].
    + destruct (In p (or_introl eq_refl)) as [Ra Rb]. destruct p as [i j]. simpl in Ra, Rb. cbn [fst snd].
      rewrite (mAT_elem real H a Wa i j Ra), (mAT_elem real H b Wb i j Rb). cbn [bind].
      rewrite IH; [|intros q Iq; apply In; right; exact Iq|exact Wa|exact Wb].
      simpl. reflexivity.
    + cbn [bind]. rewrite IH; [|intros q Iq; apply In; right; exact Iq|exact Wa|exact Wb]. reflexivity.
Qed.

Theorem equals_closed_form : forall real H (a b : mat), wf_in H a -> wf_in H b ->
  mEquals real H a b =
  if (d_rows a =? d_rows b) && (d_cols a =? d_cols b) then ROk (elems_agree real H a b) else RPanic.
Proof.
  intros real H a b Wa Wb. unfold mEquals, dims_eq, mpos, elems_agree. rewrite !k_dims_P.
  destruct ((d_rows a =? d_rows b) && (d_cols a =? d_cols b)) eqn:D; cbn [negb]; [|reflexivity].
  apply andb_true_iff in D. destruct D as [Dr Dc]. apply Z.eqb_eq in Dr. apply Z.eqb_eq in Dc.
  rewrite equals_loop_closed; [reflexivity| |exact Wa|exact Wb].
  intros [i j] I. apply in_positions in I. unfold in_range. simpl. rewrite <- Dr, <- Dc. split; exact I.
Qed.

(* the Prop reading: true exactly when every position in range holds equal elements *)
Theorem equals_true_iff_all_elements_equal : forall real H (a b : mat), wf_in H a -> wf_in H b ->
  d_rows a = d_rows b -> d_cols a = d_cols b ->
  exists e, mEquals real H a b = ROk e /\
    (e = true <-> forall i j, in_range a i j -> mAT real H a i j = mAT real H b i j).
Proof.
  intros real H a b Wa Wb Dr Dc. rewrite (equals_closed_form real H a b Wa Wb), Dr, Dc, !Z.eqb_refl. cbn [andb].
  eexists. split; [reflexivity|]. unfold elems_agree. rewrite forallb_forall. split.
  - intros A i j Rg. assert (Rb : in_range b i j) by (unfold in_range in *; lia).
    rewrite (mAT_elem real H a Wa i j Rg), (mAT_elem real H b Wb i j Rb). f_equal. apply Z.eqb_eq.
    apply (A (i, j)). apply in_positions. exact Rg.
  - intros A [i j] I. apply in_positions in I. assert (Rg : in_range a i j) by exact I.
    assert (Rb : in_range b i j) by (unfold in_range in *; lia).
    pose proof (A i j Rg) as E. rewrite (mAT_elem real H a Wa i j Rg), (mAT_elem real H b Wb i j Rb) in E.
    inversion E as [E']. rewrite E'. apply Z.eqb_refl.
Qed.

(* Equals on two views (of one storage or not) = Equals on two independent deep copies, both argument orders *)
Theorem equals_on_two_views_equals_on_deep_copies : forall real H (a b : mat), wf_in H a -> wf_in H b ->
  exists Ha ca Hb cb, deep_copy real H a = ROk (Ha, ca) /\ deep_copy real Ha b = ROk (Hb, cb) /\
    d_values ca <> d_values cb /\ d_values ca <> d_values a /\ d_values ca <> d_values b /\
    d_values cb <> d_values a /\ d_values cb <> d_values b /\ whole ca /\ whole cb /\
    mEquals real H a b = mEquals real Hb ca cb /\ mEquals real H b a = mEquals real Hb cb ca.
Proof.
  intros real H a b Wa Wb.
  destruct (deep_copy_spec real H a Wa) as (Ha & ca & Ea & La & _ & Wha & Wca & Olda & Sa).
  destruct (deep_copy_shape real H a Ha ca Ea) as (sa & EHa).
  assert (Lena : length Ha = S (length H)) by (rewrite EHa, app_length; simpl; lia).
  destruct (heap_grows real H Ha b ltac:(lia) Olda Wb) as [Wb1 Eb1].
  destruct (deep_copy_spec real Ha b Wb1) as (Hb & cb & Eb & Lb & _ & Whb & Wcb & Oldb & Sb).
  destruct (deep_copy_shape real Ha b Hb cb Eb) as (sb & EHb).
  assert (Lenb : length Hb = S (length Ha)) by (rewrite EHb, app_length; simpl; lia).
  destruct (heap_grows real Ha Hb ca ltac:(lia) Oldb Wca) as [Wca2 Eca2].
  assert (SA : same_elems real H a Hb ca).
  { apply (same_elems_trans3 real H H Ha Hb a ca); [reflexivity|exact Sa|exact Eca2]. }
  assert (SB : same_elems real H b Hb cb).
  { apply (same_elems_trans3 real H Ha Hb Hb b cb Eb1 Sb). reflexivity. }
  destruct Wa as [La' _]. destruct Wb as [Lb' _].
  exists Ha, ca, Hb, cb. split; [exact Ea|]. split; [exact Eb|].
  repeat (split; [lia|]). split; [exact Wha|]. split; [exact Whb|].
  split; apply equals_ext; assumption.
Qed.

(* non-vacuity: two SHIFTED windows of one 3x3 parent with equal elements / with different elements, a square window
   against its own T() (same storage, same offsets, other flag): symmetric content -> true, asymmetric -> false *)
Lemma equals_views_nontrivial :
  let H := [[1; 2; 1; 2; 1; 2; 4; 2; 1]] in
  let p := new_mat 0 3 3 in
  let a := apply_views false p [VSlice 0 2 0 2] in
  let b := apply_views false p [VSlice 1 3 1 3] in
  let d := apply_views false p [VSlice 1 3 0 2] in
  let aT := apply_views false p [VSlice 0 2 0 2; VT] in
  let dT := apply_views false p [VSlice 1 3 0 2; VT] in
  wf_in H a /\ wf_in H b /\ wf_in H d /\ wf_in H aT /\ wf_in H dT /\
  d_values a = d_values b /\ d_values d = d_values dT /\ a <> b /\ d <> dT /\
  read_all false H a = ROk [1; 2; 2; 1] /\ read_all false H b = ROk [1; 2; 2; 1] /\ read_all false H d = ROk [2; 1; 4; 2] /\
  mEquals false H a b = ROk true /\ mEquals false H a d = ROk false /\
  mEquals false H a aT = ROk true /\ mEquals false H d dT = ROk false /\ mEquals false H dT d = ROk false /\
  mEquals false H a p = RPanic.
Proof. vm_compute. repeat split; try discriminate; try lia; reflexivity. Qed.
