(* C10 — binary operations whose receiver and operands may ALL be views of one storage
   (view.MdotM(view, view), element-wise operations on overlapping / disjoint / transposed windows of one
   parent, Set from a sibling window) and the dense JOINT iterator over two views.  The operations
   themselves are the definitions of Model.v (mEw, mMdotM, mSet: they already take three arbitrary
   headers over one heap); this file adds the operand language, the joint iterator (Next as coded: the
   lexicographic merge of the two zero-skipping iterators, with the stale (i,j) of an exhausted left
   iterator) and the runner the correspondence replays.  No proofs in this file. *)
From Coq Require Import ZArith List Bool.
From ADV Require Import C10.Gen C10.Model C10.ModelMap.
Import ListNotations.
Open Scope Z_scope.

(* an operand: a view program over the base matrix (storage 0), or a fresh matrix in its own storage *)
Inductive operand := PView (l : list vc) | PFresh (n k : Z) (vals : list Z).
Definition mk_operand (real : bool) (H : heap) (base : mat) (p : operand) : heap * mat :=
  match p with
  | PView l => (H, apply_views real base l)
  | PFresh n k vals => let '(H1, loc) := alloc H vals in (H1, new_mat loc n k)
  end.

(* ---------------------------------------------------------------- the dense joint iterator *)
Record jstate := mkJ { j_it1 : DenseIter nat; j_it2 : DenseIter nat; j_i : Z; j_j : Z;
                       j_s1 : option Z;      (* None: s1 is nil *)
                       j_s2 : Z }.           (* the value of s2 (ConstFloat64(0) when the right side is absent) *)
Section Joint.
Variable real : bool.
Definition lex_gt (i j i2 j2 : Z) : bool := (i >? i2) || ((i =? i2) && (j >? j2)).
(* Next() of Dense..MatrixJointIterator *)
Definition jt_Next (fuel : nat) (H : heap) (s : jstate) : R jstate :=
  let ok1 := k_ok real (j_it1 s) in
  let ok2 := k_ok real (j_it2 s) in
  '(i, j, s1) <- (if ok1 then v <- it_get real H (j_it1 s) ;;
                      ROk (fst (k_Index real (j_it1 s)), snd (k_Index real (j_it1 s)), Some v)
                  else ROk (j_i s, j_j s, None)) ;;
  '(i, j, s1, s2) <- (if ok2 then
                        let '(i2, j2) := k_Index real (j_it2 s) in
                        if lex_gt i j i2 j2 || negb ok1 then v <- it_get real H (j_it2 s) ;; ROk (i2, j2, None, Some v)
                        else if (i =? i2) && (j =? j2) then v <- it_get real H (j_it2 s) ;; ROk (i, j, s1, Some v)
                        else ROk (i, j, s1, None)
                      else ROk (i, j, s1, None)) ;;
  it1 <- (match s1 with Some _ => it_Next real fuel H (j_it1 s) | None => ROk (j_it1 s) end) ;;
  it2 <- (match s2 with Some _ => it_Next real fuel H (j_it2 s) | None => ROk (j_it2 s) end) ;;
  ROk (mkJ it1 it2 i j s1 (match s2 with Some v => v | None => 0 end)).
Definition jt_Ok (s : jstate) : bool :=
  negb (match j_s1 s with None => true | Some v => v =? 0 end) || negb (j_s2 s =? 0).
(* JOINT_ITERATOR(b): {m.ITERATOR(), b.ConstIterator(), -1, -1, nil, nil}; Next() *)
Definition jt_init (fuel : nat) (H : heap) (m b : mat) : R jstate :=
  it1 <- it_from real fuel H m 0 0 ;; it2 <- it_from real fuel H b 0 0 ;;
  jt_Next fuel H (mkJ it1 it2 (-1) (-1) None 0).
(* for it := m.JointIterator(b); it.Ok(); it.Next() { i, j := it.Index(); s1, s2 := it.GetConst() } :
   reports i, j, [s1 != nil], value of s1 (0 when nil), value of s2 *)
Fixpoint jt_run (n fuel : nat) (H : heap) (s : jstate) : R (list Z) :=
  match n with
  | O => RFuel
  | S n' => if jt_Ok s then
              s' <- jt_Next fuel H s ;; r <- jt_run n' fuel H s' ;;
              ROk (j_i s :: j_j s :: (match j_s1 s with Some v => [1; v] | None => [0; 0] end) ++ j_s2 s :: r)
            else ROk []
  end.
Definition mJoint (H : heap) (m b : mat) : R (list Z) :=
  let fuel := (iter_fuel m + iter_fuel b)%nat in
  s <- jt_init fuel H m b ;; jt_run fuel fuel H s.
End Joint.

(* ---------------------------------------------------------------- one binary operation on three operands *)
(* BEquals: r.Equals(a, eps) / r.EQUALS(a, eps) with BOTH sides views of one storage (shifted windows, a window and its
   own T()): the loop of ModelMap.mEquals, no shortcut on the storage the two sides share *)
Inductive bop := BEw (f : Z) | BMdotM | BSet | BJoint | BEquals.

(* observed: the headers of r, a, b; then panic, or (result list, elements of the receiver, the whole heap) *)
Record bobs := mkBObs { bo_res : list Z; bo_recv : option (list Z); bo_heap : list (list Z) }.
Definition run_bin (real : bool) (rows cols : Z) (vals : list Z) (r a b : operand) (o : bop)
  : list (list Z) * R bobs :=
  let base := new_mat 0 rows cols in
  let '(H1, mr) := mk_operand real [vals] base r in
  let '(H2, ma) := mk_operand real H1 base a in
  let '(H3, mb) := mk_operand real H2 base b in
  let fin := fun res H' => ROk (mkBObs res (opt_of (read_all real H' mr)) H') in
  ([hdr_list mr; hdr_list ma; hdr_list mb],
   match o with
   | BEw f => H' <- mEw real f H3 mr ma mb ;; fin [] H'
   | BMdotM => H' <- mMdotM real H3 mr ma mb ;; fin [] H'
   | BSet => H' <- mSet real H3 mr ma ;; fin [] H'
   | BJoint => l <- mJoint real H3 mr ma ;; fin l H3
   | BEquals => e <- mEquals real H3 mr ma ;; fin [b2z e] H3
   end).
