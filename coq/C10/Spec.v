(* C10 — abstract specification.  A view program (a finite list of Slice /
   ConstSlice / T constructors applied to a base matrix) DENOTES a window of
   the base: a coordinate map from view coordinates to base coordinates and
   the dimensions of the window.  The theorems of Props.v say that the header
   arithmetic regenerated from /repo (Gen.v) realises this denotation for every
   header, every index and every finite composition. *)
From Coq Require Import ZArith List Bool.
From ADV Require Import C10.Gen C10.Model.
Import ListNotations.
Open Scope Z_scope.

(* well-formed header over a storage of [len] cells *)
Definition wf {V} (len : Z) (h : DenseMatrix V) : Prop :=
  0 <= d_rows h /\ 0 <= d_cols h /\ 0 <= d_rowOffset h /\ 0 <= d_colOffset h /\
  d_rowOffset h + d_rows h <= d_rowMax h /\ d_colOffset h + d_cols h <= d_colMax h /\
  len = d_rowMax h * d_colMax h.
Definition in_range {V} (h : DenseMatrix V) (i j : Z) : Prop := 0 <= i < d_rows h /\ 0 <= j < d_cols h.
(* the documented argument guard of Slice(r0, r1, c0, c1) on an n x m matrix *)
Definition slice_guard (n m r0 r1 c0 c1 : Z) : Prop := 0 <= r0 <= r1 /\ r1 <= n /\ 0 <= c0 <= c1 /\ c1 <= m.

(* sparse headers: no transposed flag *)
Definition swf {V} (len : Z) (h : SparseMatrix V) : Prop :=
  0 <= s_rows h /\ 0 <= s_cols h /\ 0 <= s_rowOffset h /\ 0 <= s_colOffset h /\
  s_rowOffset h + s_rows h <= s_rowMax h /\ s_colOffset h + s_cols h <= s_colMax h /\
  len = s_rowMax h * s_colMax h.
Definition s_in_range {V} (h : SparseMatrix V) (i j : Z) : Prop := 0 <= i < s_rows h /\ 0 <= j < s_cols h.

(* ---- denotation of view programs (plain 2-D array semantics) ---- *)
Definition coord1 (v : vc) (p : Z * Z) : Z * Z :=
  match v with
  | VSlice r0 _ c0 _ | VCSlice r0 _ c0 _ => (r0 + fst p, c0 + snd p)
  | VT => (snd p, fst p)
  end.
(* the first constructor of the list is applied to the base first *)
Fixpoint coord (l : list vc) (p : Z * Z) : Z * Z :=
  match l with [] => p | v :: r => coord1 v (coord r p) end.
Definition dims1 (v : vc) (d : Z * Z) : Z * Z :=
  match v with
  | VSlice r0 r1 c0 c1 | VCSlice r0 r1 c0 c1 => (r1 - r0, c1 - c0)
  | VT => (snd d, fst d)
  end.
Fixpoint vdims (l : list vc) (d : Z * Z) : Z * Z :=
  match l with [] => d | v :: r => vdims r (dims1 v d) end.
Definition guard1 (v : vc) (d : Z * Z) : Prop :=
  match v with
  | VSlice r0 r1 c0 c1 | VCSlice r0 r1 c0 c1 => slice_guard (fst d) (snd d) r0 r1 c0 c1
  | VT => True
  end.
Fixpoint guards (l : list vc) (d : Z * Z) : Prop :=
  match l with [] => True | v :: r => guard1 v d /\ guards r (dims1 v d) end.

(* a 2-D array as a function; the sub-array a view program denotes *)
Definition sub_array {X} (a : Z -> Z -> X) (l : list vc) : Z -> Z -> X :=
  fun i j => a (fst (coord l (i, j))) (snd (coord l (i, j))).

(* row-major enumeration of an n x m matrix, as (i, j) pairs *)
Definition row_major (n m : Z) : list (Z * Z) := positions n m.

(* plain transposition / window of a matrix given as list of rows is not needed:
   all element-level statements are phrased through [sub_array]. *)
