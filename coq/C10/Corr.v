(* C10 correspondence: run the model on a view program and compare with what the
   Go implementation returned (header of the view before the operation, panic /
   result list, header after, elements through the view, raw parent storage). *)
From Coq Require Import ZArith List Bool.
From ADV Require Import Base.Corr C10.Gen C10.Model C10.ModelSparse.
Import ListNotations.
Open Scope Z_scope.

Inductive observed := ObsViewsFail | ObsPanic (hdr0 : list Z) | ObsOk (hdr0 : list Z) (o : obs).
Record case := mkCase { c_sparse : bool; c_real : bool; c_rows : Z; c_cols : Z; c_vals : list Z;
                        c_views : list vc; c_op : op; c_obs : observed }.

Definition zl_eqb := list_eqb Z.eqb.
Definition obs_eqb (a b : obs) : bool :=
  zl_eqb (o_res a) (o_res b) && zl_eqb (o_hdr a) (o_hdr b) &&
  option_eqb zl_eqb (o_view a) (o_view b) && zl_eqb (o_store a) (o_store b).

Definition model (c : case) : option (list Z * R obs) :=
  if c_sparse c then run_case_sparse (c_real c) (c_rows c) (c_cols c) (c_vals c) (c_views c) (c_op c)
  else Some (run_case (c_real c) (c_rows c) (c_cols c) (c_vals c) (c_views c) (c_op c)).

Definition check (c : case) : bool :=
  match model c, c_obs c with
  | None, ObsViewsFail => true
  | Some (h, RPanic), ObsPanic h0 => zl_eqb h h0
  | Some (h, ROk o), ObsOk h0 o' => zl_eqb h h0 && obs_eqb o o'
  | _, _ => false
  end.
Definition mism (cs : list case) : list nat := mismatches check cs.
