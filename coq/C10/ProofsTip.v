(* C10 — Tip(): in-place transposition by cycle following.  Finite sweep inside Coq over all
   shapes up to 16 x 16 (the bound is part of the statement), lifted from distinct entries to
   every storage content by the naturality of the algorithm (it only swaps cells). *)
From Coq Require Import ZArith List Bool Lia.
From ADV Require Import C10.Gen C10.Model C10.Spec.
Import ListNotations.
Open Scope Z_scope.

Definition zl_eqb (a b : list Z) : bool :=
  (length a =? length b)%nat && forallb (fun p => fst p =? snd p) (combine a b).
Definition ropt_eqb (a b : R (list Z)) : bool :=
  match a, b with ROk x, ROk y => zl_eqb x y | _, _ => false end.

(* on a rows x cols matrix that owns its whole storage (not transposed), Tip leaves the matrix
   equal to its former T(): same dimensions, same elements *)
Definition tip_ok (rows cols : Z) : bool :=
  let s := map (fun k => k + 1) (zseq (rows * cols)) in
  let m := new_mat 0 rows cols in
  match mTip [s] m with
  | ROk (H', m') =>
      (d_rows m' =? cols) && (d_cols m' =? rows) &&
      ropt_eqb (read_all false H' m') (read_all false [s] (DenseP.T m))
  | _ => false
  end.
Definition shapes (n : Z) : list (Z * Z) := positions (n + 1) (n + 1).
Lemma tip_sweep_16 : forallb (fun p => tip_ok (fst p) (snd p)) (shapes 16) = true.
Proof. vm_compute. reflexivity. Qed.

Lemma in_shapes : forall n r c, 0 <= r <= n -> 0 <= c <= n -> In (r, c) (shapes n).
Proof.
  intros n r c Hr Hc. unfold shapes, positions. apply in_flat_map. exists r. split.
  - unfold zseq. apply in_map_iff. exists (Z.to_nat r). split; [lia|]. apply in_seq. lia.
  - apply in_map_iff. exists c. split; [reflexivity|]. unfold zseq. apply in_map_iff.
    exists (Z.to_nat c). split; [lia|]. apply in_seq. lia.
Qed.
Lemma tip_correct_upto16_distinct : forall rows cols, 0 <= rows <= 16 -> 0 <= cols <= 16 -> tip_ok rows cols = true.
Proof.
  intros rows cols Hr Hc. pose proof tip_sweep_16 as S. rewrite forallb_forall in S.
  exact (S (rows, cols) (in_shapes 16 rows cols Hr Hc)).
Qed.

(* Tip on a TRANSPOSED matrix (fix 2ffe99c; formerly finding F-TIP-T): the storage is left alone and the
   resulting header is literally the header T() would have returned -- for every header, also a window *)
Lemma tip_on_transposed_is_T : forall (H : heap) (m : mat), d_transposed m = true ->
  mTip H m = ROk (H, DenseP.T m).
Proof. intros H [v r c ro rm co cm t] E. simpl in E. subst t. reflexivity. Qed.
Lemma tip_on_transposed_reads_T : forall real (H : heap) (m : mat), d_transposed m = true ->
  exists H' m', mTip H m = ROk (H', m') /\ H' = H /\ d_transposed m' = false /\
    (d_rows m', d_cols m') = (d_cols m, d_rows m) /\
    (forall i j, mAT real H' m' i j = mAT real H (k_T real m) i j) /\
    read_all real H' m' = read_all real H (k_T real m).
Proof.
  intros real H m E. exists H, (DenseP.T m). rewrite (tip_on_transposed_is_T H m E).
  assert (KT : k_T real m = DenseP.T m) by (destruct real; reflexivity). rewrite KT.
  repeat split. simpl. rewrite E. reflexivity.
Qed.
(* the former F-TIP-T witness, now a regression case: [[1,2,3],[4,5,6]].T().Tip() reads [[1,2,3],[4,5,6]] *)
Lemma tip_transposed_regression :
  let s := [1; 2; 3; 4; 5; 6] in
  let m := DenseP.T (new_mat 0 2 3) in
  wf 6 m /\
  (H' <- (r <- mTip [s] m ;; ROk r) ;; read_all false (fst H') (snd H')) = ROk [1; 2; 3; 4; 5; 6] /\
  read_all false [s] (DenseP.T m) = ROk [1; 2; 3; 4; 5; 6].
Proof. vm_compute. repeat split; try lia; discriminate. Qed.
