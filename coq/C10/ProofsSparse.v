(* C10 — sparse matrices: what holds (T() of a whole matrix re-lays the storage out correctly,
   finite sweep) and witness lemmas for the defects the faithful model exhibits. *)
From Coq Require Import ZArith List Bool Lia.
From ADV Require Import C10.Gen C10.Model C10.ModelSparse C10.Spec C10.ProofsTip.
Import ListNotations.
Open Scope Z_scope.

(* T() of a sparse matrix that owns its whole storage: element (i,j) of the result is element (j,i) *)
Definition sparse_T_ok (rows cols : Z) : bool :=
  let s := map (fun k => if Z.rem k 3 =? 1 then 0 else k + 1) (zseq (rows * cols)) in
  let v0 := mkSView (snew rows cols) (ident_cells (rows * cols)) true in
  match sT false s v0 with
  | ROk v =>
      ropt_eqb (sread_all false s v)
               (mapR (fun p => sAT false s v0 (snd p) (fst p)) (positions cols rows))
  | _ => false
  end.
Lemma sparse_T_sweep_8 : forallb (fun p => sparse_T_ok (fst p) (snd p)) (shapes 8) = true.
Proof. vm_compute. reflexivity. Qed.
Lemma sparse_T_whole_upto8 : forall rows cols, 0 <= rows <= 8 -> 0 <= cols <= 8 -> sparse_T_ok rows cols = true.
Proof.
  intros rows cols Hr Hc. pose proof sparse_T_sweep_8 as S. rewrite forallb_forall in S.
  exact (S (rows, cols) (in_shapes 8 rows cols Hr Hc)).
Qed.

(* F-SPITER: the iterator of a guarded 2x2 slice of a full 3x3 matrix reports all nine entries,
   seven of them outside the slice *)
Lemma sparse_iterator_leaves_view_refuted :
  let P := [1; 2; 3; 4; 5; 6; 7; 8; 9] in
  let v0 := mkSView (snew 3 3) (ident_cells 9) true in
  slice_guard 3 3 1 3 1 3 /\
  (v <- sapply1 false P v0 (VSlice 1 3 1 3) ;; sIterate false P v 0)
  = ROk [-1; -1; 1; -1; 0; 2; -1; 1; 3; 0; -1; 4; 0; 0; 5; 0; 1; 6; 1; -1; 7; 1; 0; 8; 1; 1; 9].
Proof. vm_compute. repeat split; try lia; discriminate. Qed.
(* ... and Reset on that slice clears the whole parent *)
Lemma sparse_reset_on_slice_refuted :
  let P := [1; 2; 3; 4; 5; 6; 7; 8; 9] in
  let v0 := mkSView (snew 3 3) (ident_cells 9) true in
  (v <- sapply1 false P v0 (VSlice 1 3 1 3) ;; r <- sReset P v ;; ROk (fst r))
  = ROk [0; 0; 0; 0; 0; 0; 0; 0; 0].
Proof. vm_compute. reflexivity. Qed.
(* F-SPT: T() of that slice panics *)
Lemma sparse_T_of_slice_refuted :
  run_case_sparse false 3 3 [1; 2; 3; 4; 5; 6; 7; 8; 9] [VSlice 1 3 1 3; VT] OIter = None.
Proof. vm_compute. reflexivity. Qed.
(* F-SPT-REF: a write through T() to a position that has no entry does not reach the parent *)
Lemma sparse_T_not_a_reference_view_refuted :
  let P := [1; 2; 3; 0] in
  let v0 := mkSView (snew 2 2) (ident_cells 4) true in
  (v <- sT false P v0 ;; r <- sSET false P v 1 1 102 ;; x <- sAT false (fst r) (snd r) 1 1 ;; ROk (fst r, x))
  = ROk ([1; 2; 3; 0], 102).
Proof. vm_compute. reflexivity. Qed.
(* F-ASVEC (dense): AsVector of a 2x2 slice of a 3x3 matrix is the parent's storage *)
Lemma dense_asvector_on_view_refuted :
  let H := [[1; 2; 3; 4; 5; 6; 7; 8; 9]] in
  let m := DenseP.SLICE (new_mat 0 3 3) 1 3 1 3 in
  slice_guard 3 3 1 3 1 3 /\
  (r <- mAsVector false H m ;; ROk (fst r)) = ROk [1; 2; 3; 4; 5; 6; 7; 8; 9] /\
  read_all false H m = ROk [5; 6; 8; 9].
Proof. vm_compute. repeat split; try lia; discriminate. Qed.
