(* C10 — the dense ConstIterator / Iterator INCLUDING the zero-skipping loop that Next() wraps
   around next() (it_skip / it_Next / it_from / it_run of Model.v), and the identification of the
   linear row-major enumeration with the nested-loop order for every shape. *)
From Coq Require Import ZArith List Bool Lia.
From ADV Require Import C10.Gen C10.Model C10.Spec C10.ProofsIndex C10.ProofsViews C10.ProofsIter.
Import ListNotations.
Open Scope Z_scope.

(* ---------------------------------------------------------------- lists of naturals *)
Lemma seq_as_map : forall n s, seq s n = map (Nat.add s) (seq 0 n).
Proof.
  induction n as [|n IH]; intros s; simpl; [reflexivity|]. f_equal; [lia|].
  rewrite <- (seq_shift n 0), map_map, (IH (S s)). apply map_ext. intros d. lia.
Qed.
Lemma skipn_seq_gen : forall k n s, skipn k (seq s n) = seq (s + k) (n - k).
Proof.
  induction k as [|k IH]; intros n s.
  - rewrite Nat.add_0_r, Nat.sub_0_r. reflexivity.
  - destruct n as [|n]; [reflexivity|]. simpl. rewrite IH. f_equal. lia.
Qed.

(* ---------------------------------------------------------------- row_major_lin = nested loops, all shapes *)
Lemma row_major_lin_positions_nat : forall a b : nat,
  map (rm_pos (Z.of_nat b)) (map Z.of_nat (seq 0 (a * b))) =
  flat_map (fun i => map (fun j => (i, j)) (map Z.of_nat (seq 0 b))) (map Z.of_nat (seq 0 a)).
Proof.
  intros a b. induction a as [|a IH]; [reflexivity|].
  replace (S a * b)%nat with (a * b + b)%nat by lia.
  rewrite seq_app, !map_app, IH. rewrite seq_S, map_app, flat_map_app. f_equal.
  simpl. rewrite app_nil_r. rewrite (seq_as_map b (a * b)), !map_map.
  apply map_ext_in. intros d Hd. apply in_seq in Hd. unfold rm_pos.
  assert (E : Z.of_nat (a * b + d) = Z.of_nat b * Z.of_nat a + Z.of_nat d) by lia.
  f_equal.
  - symmetry. apply Z.div_unique with (r := Z.of_nat d); [lia | exact E].
  - symmetry. apply Z.mod_unique with (q := Z.of_nat a); [lia | exact E].
Qed.
Lemma row_major_lin_eq : forall n m, 0 <= n -> 0 <= m -> row_major_lin n m = positions n m.
Proof.
  intros n m Hn Hm. unfold row_major_lin, positions, zseq.
  pose proof (row_major_lin_positions_nat (Z.to_nat n) (Z.to_nat m)) as E.
  rewrite Z2Nat.id in E by lia.
  replace (Z.to_nat (n * m)) with (Z.to_nat n * Z.to_nat m)%nat by (rewrite Z2Nat.inj_mul; lia).
  exact E.
Qed.
Lemma positions_no_cols : forall n, positions n 0 = [].
Proof.
  intros n. unfold positions. induction (zseq n) as [|x l IH]; [reflexivity|]. simpl. exact IH.
Qed.

(* ---------------------------------------------------------------- the iterator with zero skipping *)
Section IterSkip.
Variable real : bool.
Variable H : heap.
Variable m : mat.
Hypothesis W : wf_in H m.

(* element (i,j) of the view (0 outside, where reading panics) *)
Definition elem (p : Z * Z) : Z := match mAT real H m (fst p) (snd p) with ROk v => v | _ => 0 end.
Definition triple (p : Z * Z) : list Z := [fst p; snd p; elem p].
Definition nonzero (p : Z * Z) : bool := negb (elem p =? 0).
(* what a loop  for it; it.Ok(); it.Next() { i, j := it.Index(); v := it.GetConst() }  must report for a
   list of positions: the non-zero ones, in that order, once each, with their coordinates and value *)
Definition report (ps : list (Z * Z)) : list Z := flat_map triple (filter nonzero ps).

Lemma mAT_elem : forall i j, in_range m i j -> mAT real H m i j = ROk (elem (i, j)).
Proof.
  intros i j Rg. unfold elem. simpl.
  destruct (mAT_in_range real H m i j W Rg) as (k & _ & _ & E). rewrite E. reflexivity.
Qed.


(* skip to the next non-zero position, then run the loop: reports exactly the non-zero positions of
   the remaining walk *)
Lemma skip_then_run : forall n i j fs fr, 0 < d_cols m -> 0 <= i -> 0 <= j < d_cols m ->
  Z.of_nat n = d_rows m * d_cols m - (i * d_cols m + j) ->
  (n < fs)%nat -> (n < fr)%nat ->
  (it <- it_skip real fs H (st m i j) ;; it_run real fr H it) = ROk (report (walk (S n) (st m i j))).
Proof.
  induction n as [|n IH]; intros i j fs fr Hc Hi Hj Hn Hfs Hfr.
  - assert (Hge : d_rows m <= i) by nia.
    destruct fs as [|fs]; [lia|]. destruct fr as [|fr]; [lia|].
    cbn [it_skip walk]. rewrite k_ok_P. rewrite (ok_st m i j).
    replace (i <? d_rows m) with false by (symmetry; apply Z.ltb_ge; lia). simpl andb. cbv iota.
    cbn [bind it_run]. rewrite k_ok_P. rewrite (ok_st m i j).
    replace (i <? d_rows m) with false by (symmetry; apply Z.ltb_ge; lia). reflexivity.
  - assert (Hir : i < d_rows m) by nia.
    assert (Rg : in_range m i j) by (unfold in_range; lia).
    destruct fs as [|fs]; [lia|]. destruct fr as [|fr]; [lia|].
    change (walk (S (S n)) (st m i j)) with
      (if DenseP.it_Ok (st m i j) then DenseP.it_Index (st m i j) :: walk (S n) (DenseP.it_next (st m i j)) else []).
    assert (Ok1 : DenseP.it_Ok (st m i j) = true).
    { rewrite (ok_st m i j).
      replace (i <? d_rows m) with true by (symmetry; apply Z.ltb_lt; lia).
      replace (j <? d_cols m) with true by (symmetry; apply Z.ltb_lt; lia). reflexivity. }
    rewrite Ok1.
    (* the successor state and the induction hypothesis for it *)
    assert (NX : exists i' j', DenseP.it_next (st m i j) = st m i' j' /\ 0 <= i' /\ 0 <= j' < d_cols m /\
                               Z.of_nat n = d_rows m * d_cols m - (i' * d_cols m + j')).
    { rewrite (next_st m i j). destruct (j =? d_cols m - 1) eqn:Ej.
      - apply Z.eqb_eq in Ej. exists (i + 1), 0. split; [reflexivity|]. lia.
      - apply Z.eqb_neq in Ej. exists i, (j + 1). split; [reflexivity|]. lia. }
    destruct NX as (i' & j' & En & Hi' & Hj' & Hn').
    change (DenseP.it_Index (st m i j)) with (i, j).
    cbn [it_skip]. rewrite k_ok_P, Ok1. unfold it_get. cbn [di_m di_i di_j st].
    rewrite (mAT_elem i j Rg). cbn [bind].
    unfold report. cbn [filter]. unfold nonzero at 1.
    destruct (elem (i, j) =? 0) eqn:Ez; cbn [negb].
    + (* a zero: skipped *)
      rewrite k_next_P. rewrite En.
      rewrite (IH i' j' fs (S fr)) by (try assumption; lia). reflexivity.
    + (* a non-zero element: reported, then Next() *)
      cbn [bind it_run]. rewrite k_ok_P. rewrite Ok1.
      unfold it_get. cbn [di_m di_i di_j st]. rewrite (mAT_elem i j Rg). cbn [bind].
      unfold it_Next. rewrite k_next_P. rewrite En.
      pose proof (IH i' j' (S fr) fr Hc Hi' Hj' Hn' ltac:(lia) ltac:(lia)) as E.
      destruct (it_skip real (S fr) H (st m i' j')) as [it'| |] eqn:Es; cbn [bind] in E |- *; try discriminate E.
      rewrite E. cbn [bind]. rewrite k_Index_P. cbn [flat_map triple fst snd di_i di_j st app].
      unfold report. reflexivity.
Qed.

Lemma fuel_enough : forall i j, 0 <= d_rows m -> 0 <= d_cols m -> 0 <= i -> 0 <= j ->
  (Z.to_nat (d_rows m * d_cols m - (i * d_cols m + j)) < iter_fuel m)%nat.
Proof. intros i j Hr Hc Hi Hj. unfold iter_fuel. nia. Qed.

(* ConstIteratorFrom(i, j) / IteratorFrom(i, j) at an in-range position: the non-zero elements from
   position (i,j) on, in row-major order *)
Theorem iterate_from : forall i j, in_range m i j ->
  mIterate real H m i j = ROk (report (skipn (Z.to_nat (i * d_cols m + j)) (positions (d_rows m) (d_cols m)))).
Proof.
  intros i j [Hi Hj]. destruct W as [_ (Hr & Hc & _)].
  unfold mIterate, it_from, it_Next. rewrite k_next_P.
  change (mkDenseIter m i (j - 1)) with (st m i (j - 1)). rewrite (next_st m i (j - 1)).
  replace (j - 1 =? d_cols m - 1) with false by (symmetry; apply Z.eqb_neq; lia).
  replace (j - 1 + 1) with j by lia.
  set (n := Z.to_nat (d_rows m * d_cols m - (i * d_cols m + j))).
  assert (Hn : Z.of_nat n = d_rows m * d_cols m - (i * d_cols m + j)) by (unfold n; nia).
  pose proof (fuel_enough i j Hr Hc ltac:(lia) ltac:(lia)) as Hf. fold n in Hf.
  rewrite (skip_then_run n i j (iter_fuel m) (iter_fuel m)) by (try assumption; lia).
  f_equal. f_equal.
  rewrite (walk_from m n i j) by lia.
  rewrite <- row_major_lin_eq by lia. unfold row_major_lin.
  rewrite !skipn_map. rewrite skipn_seq_gen. simpl Nat.add.
  replace (Z.to_nat (d_rows m * d_cols m) - Z.to_nat (i * d_cols m + j))%nat with n by (unfold n; nia).
  rewrite (seq_as_map n (Z.to_nat (i * d_cols m + j))), !map_map.
  apply map_ext. intros d. f_equal. nia.
Qed.

(* ConstIterator() / Iterator(): every non-zero element of the view exactly once, in row-major order,
   with its view coordinates; nothing else *)
Theorem iterate_all :
  mIterate real H m 0 0 = ROk (report (positions (d_rows m) (d_cols m))).
Proof.
  destruct W as [_ (Hr & Hc & _)].
  destruct (Z.eq_dec (d_cols m) 0) as [E0|N0].
  - (* no columns: exhausted at once *)
    rewrite E0, positions_no_cols. unfold mIterate, it_from, it_Next. rewrite k_next_P.
    change (mkDenseIter m 0 (0 - 1)) with (st m 0 (0 - 1)). rewrite (next_st m 0 (0 - 1)), E0.
    simpl Z.eqb. cbv iota. unfold iter_fuel. cbn [it_skip]. rewrite k_ok_P, (ok_st m (0 + 1) 0), E0.
    replace (0 <? 0) with false by reflexivity. rewrite andb_false_r. cbn [bind it_run].
    rewrite k_ok_P, (ok_st m (0 + 1) 0), E0. replace (0 <? 0) with false by reflexivity.
    rewrite andb_false_r. reflexivity.
  - destruct (Z.eq_dec (d_rows m) 0) as [R0|NR0].
    + (* no rows *)
      rewrite R0. unfold positions at 1. simpl flat_map.
      unfold mIterate, it_from, it_Next. rewrite k_next_P.
      change (mkDenseIter m 0 (0 - 1)) with (st m 0 (0 - 1)). rewrite (next_st m 0 (0 - 1)).
      replace (0 - 1 =? d_cols m - 1) with false by (symmetry; apply Z.eqb_neq; lia).
      unfold iter_fuel. cbn [it_skip]. rewrite k_ok_P, (ok_st m 0 (0 - 1 + 1)), R0.
      simpl andb. cbn [bind it_run]. rewrite k_ok_P, (ok_st m 0 (0 - 1 + 1)), R0. reflexivity.
    + rewrite (iterate_from 0 0) by (unfold in_range; lia). reflexivity.
Qed.
End IterSkip.
