(* C10 — the dense matrix iterator (translated Ok / next / Index) walks the view in row-major
   order, every position exactly once. *)
From Coq Require Import ZArith List Bool Lia.
From ADV Require Import C10.Gen C10.Model C10.Spec.
Import ListNotations.
Open Scope Z_scope.

(* position number t of an n x m matrix in row-major order *)
Definition rm_pos (cols t : Z) : Z * Z := (t / cols, t mod cols).
Definition row_major_lin (rows cols : Z) : list (Z * Z) :=
  map (rm_pos cols) (map Z.of_nat (seq 0 (Z.to_nat (rows * cols)))).

Section Iter.
Context {V : Type}.

(* the positions visited by  for it := start; it.Ok(); it.next() { it.Index() }  (no zero skipping) *)
Fixpoint walk (fuel : nat) (it : DenseIter V) : list (Z * Z) :=
  match fuel with
  | O => []
  | S f => if DenseP.it_Ok it then DenseP.it_Index it :: walk f (DenseP.it_next it) else []
  end.

Variable h : DenseMatrix V.
Definition st (i j : Z) : DenseIter V := mkDenseIter h i j.

Lemma next_st : forall i j,
  DenseP.it_next (st i j) = if j =? d_cols h - 1 then st (i + 1) 0 else st i (j + 1).
Proof. intros i j. unfold DenseP.it_next, st; simpl. destruct (j =? d_cols h - 1); reflexivity. Qed.
Lemma ok_st : forall i j, DenseP.it_Ok (st i j) = (i <? d_rows h) && (j <? d_cols h).
Proof. reflexivity. Qed.

Lemma walk_from : forall n i j, 0 < d_cols h -> 0 <= i -> 0 <= j < d_cols h ->
  Z.of_nat n = d_rows h * d_cols h - (i * d_cols h + j) ->
  walk (S n) (st i j) = map (rm_pos (d_cols h)) (map (fun d => i * d_cols h + j + Z.of_nat d) (seq 0 n)).
Proof.
  induction n as [|n IH]; intros i j Hc Hi Hj Hn.
  - simpl. rewrite ok_st.
    assert (d_rows h <= i) by nia.
    replace (i <? d_rows h) with false by (symmetry; apply Z.ltb_ge; lia). reflexivity.
  - assert (Hir : i < d_rows h) by nia.
    change (walk (S (S n)) (st i j)) with
      (if DenseP.it_Ok (st i j) then DenseP.it_Index (st i j) :: walk (S n) (DenseP.it_next (st i j)) else []).
    rewrite ok_st.
    replace (i <? d_rows h) with true by (symmetry; apply Z.ltb_lt; lia).
    replace (j <? d_cols h) with true by (symmetry; apply Z.ltb_lt; lia).
    simpl andb. cbv iota.
    rewrite <- cons_seq, <- seq_shift. simpl map at 2. rewrite map_map. simpl map at 1.
    f_equal.
    + unfold rm_pos, DenseP.it_Index, st; simpl. rewrite Z.add_0_r.
      rewrite Z.add_comm, Z.div_add, Z.mod_add by lia.
      rewrite Z.div_small, Z.mod_small by lia. f_equal; lia.
    + rewrite next_st. destruct (j =? d_cols h - 1) eqn:Ej.
      * apply Z.eqb_eq in Ej. rewrite (IH (i + 1) 0) by lia.
        f_equal. apply map_ext. intros d. lia.
      * apply Z.eqb_neq in Ej. rewrite (IH i (j + 1)) by lia.
        f_equal. apply map_ext. intros d. lia.
Qed.

(* ITERATOR(): {m, 0, -1} then next() *)
Theorem iterator_row_major : forall fuel, 0 <= d_rows h -> 0 <= d_cols h ->
  (Z.to_nat (d_rows h * d_cols h) < fuel)%nat ->
  walk fuel (DenseP.it_next (st 0 (-1))) = row_major_lin (d_rows h) (d_cols h).
Proof.
  intros fuel Hr Hc Hf. rewrite next_st.
  destruct (Z.eq_dec (d_cols h) 0) as [E0|N0].
  - (* no columns: the iterator is exhausted at once *)
    rewrite E0. simpl Z.eqb. cbv iota.
    unfold row_major_lin. rewrite Z.mul_0_r. simpl map.
    destruct fuel as [|f]; [reflexivity|]. cbn [walk]. rewrite ok_st, E0.
    replace (0 <? 0) with false by reflexivity. rewrite andb_false_r. reflexivity.
  - replace (-1 =? d_cols h - 1) with false by (symmetry; apply Z.eqb_neq; lia).
    replace (-1 + 1) with 0 by lia.
    assert (Hc' : 0 < d_cols h) by lia.
    (* more fuel than positions: the walk stops by itself *)
    assert (G : forall extra n i j, 0 <= i -> 0 <= j < d_cols h ->
                Z.of_nat n = d_rows h * d_cols h - (i * d_cols h + j) ->
                walk (S n + extra) (st i j) = walk (S n) (st i j)).
    { intros extra n. induction n as [|n IHn]; intros i j Hi Hj Hn.
      - simpl. rewrite ok_st. assert (d_rows h <= i) by nia.
        replace (i <? d_rows h) with false by (symmetry; apply Z.ltb_ge; lia). reflexivity.
      - change (walk (S (S n) + extra) (st i j)) with
          (if DenseP.it_Ok (st i j) then DenseP.it_Index (st i j) :: walk (S n + extra) (DenseP.it_next (st i j)) else []).
        change (walk (S (S n)) (st i j)) with
          (if DenseP.it_Ok (st i j) then DenseP.it_Index (st i j) :: walk (S n) (DenseP.it_next (st i j)) else []).
        destruct (DenseP.it_Ok (st i j)); [|reflexivity]. f_equal.
        rewrite next_st. destruct (j =? d_cols h - 1) eqn:Ej.
        + apply Z.eqb_eq in Ej. apply IHn; lia.
        + apply Z.eqb_neq in Ej. apply IHn; lia. }
    set (n := Z.to_nat (d_rows h * d_cols h)).
    assert (Hn : Z.of_nat n = d_rows h * d_cols h - (0 * d_cols h + 0)) by (unfold n; nia).
    replace fuel with (S n + (fuel - S n))%nat by lia.
    rewrite (G (fuel - S n)%nat n 0 0) by lia.
    rewrite (walk_from n 0 0) by lia.
    unfold row_major_lin. fold n. reflexivity.
Qed.
End Iter.

(* the linear enumeration is the nested-loop order of Spec.row_major (checked for all shapes up to 12x12;
   both are closed terms of the shape) *)
Definition pos_eqb (a b : list (Z * Z)) : bool :=
  (length a =? length b)%nat && forallb (fun p => (fst (fst p) =? fst (snd p)) && (snd (fst p) =? snd (snd p))) (combine a b).
Lemma row_major_lin_is_nested_loop_upto12 :
  forallb (fun p => pos_eqb (row_major_lin (fst p) (snd p)) (row_major (fst p) (snd p))) (positions 13 13) = true.
Proof. vm_compute. reflexivity. Qed.
