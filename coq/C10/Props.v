(* C10 — views and transposes address exactly the elements they denote.
   Statements only; proofs live in Proofs*.v.  Everything is about the header
   arithmetic REGENERATED from /repo (Gen.v: DenseP/SparseP from the plain
   element types, DenseR/SparseR from Real32/Real64) and about the storage-list
   model of Model.v / ModelSparse.v.  All statements hold for every header,
   every index in Z and every finite composition of view constructors. *)
From Coq Require Import ZArith List Bool.
From ADV Require Import C10.Gen C10.Model C10.ModelSparse C10.Spec C10.ProofsIndex C10.ProofsViews C10.ProofsIter C10.ProofsIterSkip C10.ProofsOps C10.ProofsTip C10.ProofsTipGen C10.ProofsOpsView C10.ProofsSparse C10.ProofsSparseT
                        C10.GenAcc C10.ProofsAcc C10.ProofsPermView C10.ProofsTipAll C10.ProofsTipView
                        C10.ModelBin C10.ProofsBinView C10.ProofsJoint C10.ModelMap C10.ProofsMap C10.GenLoop C10.ProofsLoop C10.ProofsEqViews.
Import ListNotations.
Open Scope Z_scope.

(* ---- the Real32/Real64 instantiation has the same kernels as the plain element types ---- *)
Theorem real_kernels_equal_plain : forall V (m : DenseMatrix V) (it : DenseIter V) i j a b c d,
  DenseR.index m i j = DenseP.index m i j /\
  DenseR.SLICE m a b c d = DenseP.SLICE m a b c d /\ DenseR.Slice m a b c d = DenseP.SLICE m a b c d /\
  DenseR.ConstSlice m a b c d = DenseP.SLICE m a b c d /\
  DenseP.Slice m a b c d = DenseP.SLICE m a b c d /\ DenseP.ConstSlice m a b c d = DenseP.SLICE m a b c d /\
  DenseR.T m = DenseP.T m /\ DenseR.MagicT m = DenseP.T m /\ DenseR.Dims m = DenseP.Dims m /\
  DenseR.it_Ok it = DenseP.it_Ok it /\ DenseR.it_next it = DenseP.it_next it /\ DenseR.it_Index it = DenseP.it_Index it.
Proof. intros; repeat split. Qed.
Theorem sparse_real_kernels_equal_plain : forall V (m : SparseMatrix V) i j k a b c d,
  SparseR.index m i j = SparseP.index m i j /\ SparseR.ij m k = SparseP.ij m k /\
  SparseR.SLICE m a b c d = SparseP.SLICE m a b c d /\ SparseR.ConstSlice m a b c d = SparseP.SLICE m a b c d /\
  SparseP.ConstSlice m a b c d = SparseP.SLICE m a b c d /\ SparseR.Dims m = SparseP.Dims m.
Proof. intros; repeat split. Qed.

(* ---- 1. index: panics exactly outside the view, stays inside the storage, is injective ---- *)
Theorem index_panics_exactly_out_of_range : forall V (h : DenseMatrix V) i j,
  DenseP.index h i j = None <-> (i < 0 \/ j < 0 \/ i >= d_rows h \/ j >= d_cols h).
Proof. exact @index_guard. Qed.
Theorem index_in_bounds : forall V len (h : DenseMatrix V) i j, wf len h -> in_range h i j ->
  exists k, DenseP.index h i j = Some k /\ 0 <= k < len.
Proof. exact @ProofsIndex.index_in_bounds. Qed.
Theorem index_injective : forall V len (h : DenseMatrix V) i j i' j' k, wf len h ->
  DenseP.index h i j = Some k -> DenseP.index h i' j' = Some k -> i = i' /\ j = j'.
Proof. exact @ProofsIndex.index_injective. Qed.

(* ---- 2. well-formedness is preserved by the constructors; Slice and T address what they denote ---- *)
Theorem wf_preserved : forall V len (h : DenseMatrix V) r0 r1 c0 c1, wf len h ->
  (slice_guard (d_rows h) (d_cols h) r0 r1 c0 c1 -> wf len (DenseP.SLICE h r0 r1 c0 c1)) /\ wf len (DenseP.T h).
Proof. intros V len h r0 r1 c0 c1 W. split; [intros G; apply wf_slice; assumption | apply wf_T; assumption]. Qed.
Theorem index_slice : forall V (h : DenseMatrix V) r0 r1 c0 c1 i j,
  slice_guard (d_rows h) (d_cols h) r0 r1 c0 c1 -> in_range (DenseP.SLICE h r0 r1 c0 c1) i j ->
  DenseP.index (DenseP.SLICE h r0 r1 c0 c1) i j = DenseP.index h (r0 + i) (c0 + j).
Proof. exact @ProofsIndex.index_slice. Qed.
Theorem index_T : forall V (h : DenseMatrix V) i j, DenseP.index (DenseP.T h) i j = DenseP.index h j i.
Proof. exact @ProofsIndex.index_T. Qed.
Theorem T_T : forall V (h : DenseMatrix V), DenseP.T (DenseP.T h) = h.
Proof. exact @T_involutive. Qed.
Theorem slice_algebra : forall V (h : DenseMatrix V) r0 r1 c0 c1 a0 a1 b0 b1,
  DenseP.SLICE h 0 (d_rows h) 0 (d_cols h) = h /\
  DenseP.SLICE (DenseP.SLICE h r0 r1 c0 c1) a0 a1 b0 b1 = DenseP.SLICE h (r0 + a0) (r0 + a1) (c0 + b0) (c0 + b1) /\
  DenseP.T (DenseP.SLICE h r0 r1 c0 c1) = DenseP.SLICE (DenseP.T h) c0 c1 r0 r1.
Proof. intros. split; [apply slice_full | split; [apply slice_slice | apply T_slice]]. Qed.

(* ---- every finite composition of Slice / ConstSlice / T (both families) ---- *)
Theorem view_composition : forall real l (m : mat) len,
  guards l (d_rows m, d_cols m) ->
  (d_rows (apply_views real m l), d_cols (apply_views real m l)) = vdims l (d_rows m, d_cols m) /\
  (wf len m -> wf len (apply_views real m l)) /\
  forall i j, in_range (apply_views real m l) i j ->
    in_range m (fst (coord l (i, j))) (snd (coord l (i, j))) /\
    k_index real (apply_views real m l) i j = k_index real m (fst (coord l (i, j))) (snd (coord l (i, j))).
Proof.
  intros real l m len G. destruct (view_composition_P real l m len G) as (D & W & I).
  split; [exact D|]. split; [exact W|]. intros i j Rg. rewrite !k_index_P. exact (I i j Rg).
Qed.
Example view_composition_nontrivial :
  let l := [VSlice 1 4 0 3; VT; VCSlice 1 3 0 2] in
  guards l (5, 4) /\ vdims l (5, 4) = (2, 2) /\ coord l (1, 1) = (2, 2) /\
  k_index false (apply_views false (new_mat 0 5 4) l) 1 1 = Some 10.
Proof. cbv. repeat split; try discriminate; reflexivity. Qed.

(* the composed view reads the stated sub-array of the base *)
Theorem view_reads_sub_array : forall real H l (m : mat) i j,
  guards l (d_rows m, d_cols m) -> in_range (apply_views real m l) i j ->
  mAT real H (apply_views real m l) i j = sub_array (mAT real H m) l i j.
Proof. exact view_read. Qed.
Theorem read_outside_view_panics : forall real H (m : mat) i j, ~ in_range m i j -> mAT real H m i j = RPanic.
Proof. exact mAT_out_of_range. Qed.

(* ---- 3. ij ---- *)
Theorem dense_ij_index_partial : forall V len (h : DenseMatrix V) i j k, wf len h ->
  (d_transposed h = false \/ d_rowOffset h = d_colOffset h) ->
  DenseP.index h i j = Some k -> DenseP.ij h k = (i, j).
Proof.
  intros V len h i j k W [Ht|Ho] E.
  - exact (ij_index_plain len h i j k W Ht E).
  - destruct (d_transposed h) eqn:Ht; [exact (ij_index_transposed_partial len h i j k W Ht Ho E) | exact (ij_index_plain len h i j k W Ht E)].
Qed.
(* F-IJ-T: the missing case of the statement above is false for the code as it is *)
Theorem dense_ij_transposed_refuted :
  exists (h : DenseMatrix unit) i j k, wf 9 h /\ DenseP.index h i j = Some k /\ DenseP.ij h k <> (i, j).
Proof.
  exists ijT_witness, 0, 0, 3. destruct ProofsIndex.dense_ij_transposed_refuted as (W & E & F).
  split; [exact W|]. split; [exact E|]. rewrite F. discriminate.
Qed.
Theorem dense_real_ij_refuted :
  exists (h : DenseMatrix unit) i j k, wf 6 h /\ d_transposed h = false /\ DenseR.index h i j = Some k /\ DenseR.ij h k <> (i, j).
Proof.
  exists ijR_witness, 0, 2, 2. destruct ProofsIndex.dense_real_ij_refuted as (W & E & F).
  split; [exact W|]. split; [reflexivity|]. split; [exact E|]. rewrite F. discriminate.
Qed.
(* sparse matrices (no transposed flag): ij inverts index on every well-formed header *)
Theorem sparse_index_in_bounds : forall V len (h : SparseMatrix V) i j, swf len h -> s_in_range h i j ->
  exists k, SparseP.index h i j = Some k /\ 0 <= k < len.
Proof. exact @s_index_in_bounds. Qed.
Theorem sparse_index_panics_exactly_out_of_range : forall V (h : SparseMatrix V) i j,
  SparseP.index h i j = None <-> (i < 0 \/ j < 0 \/ i >= s_rows h \/ j >= s_cols h).
Proof. exact @s_index_guard. Qed.
Theorem sparse_ij_index : forall V len (h : SparseMatrix V) i j k, swf len h ->
  SparseP.index h i j = Some k -> SparseP.ij h k = (i, j).
Proof. exact @s_ij_index. Qed.
Theorem sparse_slice : forall V len (h : SparseMatrix V) r0 r1 c0 c1,
  slice_guard (s_rows h) (s_cols h) r0 r1 c0 c1 ->
  (swf len h -> swf len (SparseP.SLICE h r0 r1 c0 c1)) /\
  forall i j, s_in_range (SparseP.SLICE h r0 r1 c0 c1) i j ->
    SparseP.index (SparseP.SLICE h r0 r1 c0 c1) i j = SparseP.index h (r0 + i) (c0 + j).
Proof.
  intros V len h r0 r1 c0 c1 G. split; [intros W; apply s_wf_slice; assumption|].
  intros i j Rg. apply s_index_slice; assumption.
Qed.

(* ---- 5. reference views write through; copies do not ---- *)
Theorem view_write_through : forall real H l (m : mat) i j v H',
  wf_in H m -> guards l (d_rows m, d_cols m) ->
  mSET real H (apply_views real m l) i j v = ROk H' ->
  let p := coord l (i, j) in
  in_range m (fst p) (snd p) /\
  mAT real H' m (fst p) (snd p) = ROk v /\
  (forall i' j', in_range m i' j' -> (i', j') <> p -> mAT real H' m i' j' = mAT real H m i' j') /\
  (forall loc, loc <> d_values m -> store_of H' loc = store_of H loc).
Proof. exact ProofsViews.view_write_through. Qed.
Example view_write_through_nontrivial :
  let H := [[1; 2; 3; 4; 5; 6; 7; 8; 9; 10; 11; 12]] in
  let m := new_mat 0 3 4 in
  let l := [VT; VSlice 1 4 0 2] in
  wf_in H m /\ guards l (3, 4) /\
  opt_of (H' <- mSET false H (apply_views false m l) 2 1 99 ;; read_all false H' m)
  = Some [1; 2; 3; 4; 5; 6; 7; 99; 9; 10; 11; 12].
Proof. cbv. repeat split; try discriminate; try reflexivity. Qed.
Theorem clone_is_independent_copy : forall real H (m : mat), wf_in H m ->
  let '(H', c) := mClone H m in
  d_values c = length H /\ d_values c <> d_values m /\ wf_in H' c /\
  (forall l, (l < length H)%nat -> store_of H' l = store_of H l) /\
  (forall i j, mAT real H' c i j = mAT real H m i j).
Proof. exact clone_fresh. Qed.
(* the storage segment returned by ConstRow (not transposed) / ConstCol (transposed) is exactly that row / column *)
Theorem const_row_col_segment : forall V (h : DenseMatrix V) i t,
  (d_transposed h = false -> in_range h i 0 -> in_range h i t ->
     exists k0, DenseP.index h i 0 = Some k0 /\ DenseP.index h i t = Some (k0 + t)) /\
  (d_transposed h = true -> in_range h 0 i -> in_range h t i ->
     exists k0, DenseP.index h 0 i = Some k0 /\ DenseP.index h t i = Some (k0 + t)).
Proof. intros V h i t. split; [apply row_contiguous | apply col_contiguous]. Qed.

(* ---- 4. the dense iterator visits the view in row-major order, once each ----
   [walk] is  for it := {m,0,-1}.next(); it.Ok(); it.next() { it.Index() } : the translated kernels alone. *)
Theorem iterator_walk_row_major : forall V (h : DenseMatrix V) fuel, 0 <= d_rows h -> 0 <= d_cols h ->
  (Z.to_nat (d_rows h * d_cols h) < fuel)%nat ->
  walk fuel (DenseP.it_next (mkDenseIter h 0 (-1))) = row_major (d_rows h) (d_cols h).
Proof.
  intros V h fuel Hr Hc Hf. unfold row_major. rewrite <- row_major_lin_eq by assumption.
  exact (iterator_row_major h fuel Hr Hc Hf).
Qed.
(* the linear enumeration t |-> (t / cols, t mod cols) is the nested-loop order, for every shape *)
Theorem row_major_lin_is_nested_loop_order : forall n m, 0 <= n -> 0 <= m -> row_major_lin n m = row_major n m.
Proof. exact row_major_lin_eq. Qed.
(* ConstIterator() / Iterator() as coded, INCLUDING the zero-skipping loop Next() wraps around next():
   the loop  for it := m.ConstIterator(); it.Ok(); it.Next() { i, j := it.Index(); v := it.GetConst() }
   reports exactly the in-view positions holding a NON-ZERO element, in row-major order, once each, with the
   element read through the view; ConstIteratorFrom(i,j) / IteratorFrom(i,j) likewise from position (i,j) on.
   For every well-formed view (any composition of Slice / T), every storage content. *)
Theorem iterator_enumerates_nonzero_row_major : forall real H (m : mat), wf_in H m ->
  mIterate real H m 0 0 = ROk (report real H m (row_major (d_rows m) (d_cols m))) /\
  forall i j, in_range m i j ->
    mIterate real H m i j = ROk (report real H m (skipn (Z.to_nat (i * d_cols m + j)) (row_major (d_rows m) (d_cols m)))).
Proof. intros real H m W. split; [exact (iterate_all real H m W) | exact (iterate_from real H m W)]. Qed.
Example iterator_skip_nontrivial :
  let H := [[1; 2; 3; 4; 0; 6; 7; 8; 9]] in
  let m := apply_views false (new_mat 0 3 3) [VT; VSlice 0 2 1 3] in
  wf_in H m /\ mIterate false H m 0 0 = ROk [0; 0; 4; 0; 1; 7; 1; 1; 8] /\
  report false H m (row_major 2 2) = [0; 0; 4; 0; 1; 7; 1; 1; 8].
Proof. cbv. repeat split; try discriminate; reflexivity. Qed.
Example iterator_nontrivial :
  walk 10 (DenseP.it_next (mkDenseIter (DenseP.T (DenseP.SLICE (new_mat 0 4 5) 1 3 2 5)) 0 (-1)))
  = [(0, 0); (0, 1); (1, 0); (1, 1); (2, 0); (2, 1)].
Proof. reflexivity. Qed.

(* ---- 6. whole-matrix writes through a view = the same operation on a deep copy, nothing else touched ----
   g i j is the value the operation assigns to element (i,j) of an independent deep copy (Reset: 0,
   SetIdentity: [i = j], Set / element-wise operations with operands outside the receiver's storage:
   the operand expression at (i,j)). *)
Theorem whole_matrix_write_on_view : forall real (g : Z -> Z -> Z) H (m : mat), wf_in H m ->
  exists H', fill real g m (mpos real m) H = ROk H' /\
    (forall i j, in_range m i j -> mAT real H' m i j = ROk (g i j)) /\
    (forall k, 0 <= k -> (forall i j, in_range m i j -> DenseP.index m i j <> Some k) ->
       nth (Z.to_nat k) (store_of H' (d_values m)) 0 = nth (Z.to_nat k) (store_of H (d_values m)) 0) /\
    (forall l, l <> d_values m -> store_of H' l = store_of H l).
Proof. exact whole_matrix_write. Qed.
Theorem reset_and_set_identity_are_such_writes : forall real H m,
  mReset real H m = fill real (fun _ _ => 0) m (mpos real m) H /\
  mSetIdentity real H m = fill real (fun i j => if i =? j then 1 else 0) m (mpos real m) H.
Proof. intros; split; reflexivity. Qed.
Example reset_on_view_nontrivial :
  let H := [[1; 2; 3; 4; 5; 6; 7; 8; 9; 10; 11; 12]] in
  let m := apply_views false (new_mat 0 3 4) [VT; VSlice 1 3 0 2] in
  wf_in H m /\ opt_of (H' <- mReset false H m ;; ROk (store_of H' 0)) = Some [1; 0; 0; 4; 5; 0; 0; 8; 9; 10; 11; 12].
Proof. cbv. repeat split; try discriminate; reflexivity. Qed.

(* ---- 6b. read-only / arithmetic operations on a view = the operation on an independent deep copy ----
   for EVERY well-formed view: element reads, Row / Col / Diag (also on nested views), MdotV / VdotM, String / Table,
   Export, IsSymmetric, MarshalJSON (both branches), the iterators; AsVector is right on the copy (whole storage). *)
Theorem op_on_view_equals_op_on_copy : forall real H (m : mat), wf_in H m ->
  exists H' c, deep_copy real H m = ROk (H', c) /\ d_values c <> d_values m /\ whole c /\ wf_in H' c /\
    (forall l, (l < length H)%nat -> store_of H' l = store_of H l) /\
    (d_rows c, d_cols c) = (d_rows m, d_cols m) /\
    (forall i j, mAT real H m i j = mAT real H' c i j) /\
    read_all real H m = read_all real H' c /\
    (forall i, mROW real H m i = mROW real H' c i) /\
    (forall j, mCOL real H m j = mCOL real H' c j) /\
    mDIAG real H m = mDIAG real H' c /\
    (forall rlen b, mMdotV real H rlen m b = mMdotV real H' rlen c b) /\
    (forall rlen a, mVdotM real H rlen a m = mVdotM real H' rlen a c) /\
    mString real H m = mString real H' c /\
    mExportImport real H m = mExportImport real H' c /\
    mIsSymmetric real H m = mIsSymmetric real H' c /\
    mJSON real H m = mJSON real H' c /\
    mIterate real H m 0 0 = mIterate real H' c 0 0 /\
    (forall i j, in_range m i j -> mIterate real H m i j = mIterate real H' c i j) /\
    (r <- mAsVector real H' c ;; ROk (fst r)) = read_all real H m.
Proof. exact ProofsOpsView.op_on_view_equals_op_on_copy. Qed.
Example op_on_view_nontrivial :
  let H := [[1; 2; 3; 4; 5; 6; 7; 8; 9; 10; 11; 12]] in
  let m := apply_views false (new_mat 0 3 4) [VSlice 0 3 1 4; VT; VSlice 1 3 0 2] in
  wf_in H m /\ mROW false H m 1 = ROk [4; 8] /\ mJSON false H m = ROk [2; 2; 3; 7; 4; 8] /\
  opt_of (r <- deep_copy false H m ;; mROW false (fst r) (snd r) 1) = Some [4; 8].
Proof. cbv. repeat split; try discriminate; reflexivity. Qed.
(* MdotM with both operands read through views (e.g. a slice times a transposed slice): every inner product the
   loop computes equals the one over independent deep copies of the operands *)
Theorem product_reads_through_views : forall real H (a b : mat), wf_in H a -> wf_in H b ->
  exists Ha ca Hb cb, deep_copy real H a = ROk (Ha, ca) /\ deep_copy real Ha b = ROk (Hb, cb) /\
    forall i j m1, dot real H a b i j m1 = dot real Hb ca cb i j m1.
Proof. exact ProofsOpsView.product_reads_through_views. Qed.
(* MarshalJSON and AsVector: what they return on every well-formed header / on whole-storage matrices *)
Theorem json_and_asvector_decisions : forall real H (m : mat), wf_in H m ->
  mJSON real H m = (l <- read_all real H m ;; ROk (d_rows m :: d_cols m :: l)) /\
  (whole m -> (r <- mAsVector real H m ;; ROk (fst r)) = read_all real H m).
Proof. intros real H m W. split; [exact (json_is_repacked real H m W) | exact (asvector_whole real H m W)]. Qed.

(* ---- 6c. in-place PERMUTING writes on a view = the operation on a deep copy, then copied back ----
   Swap, SwapRows, SwapColumns, PermuteRows / PermuteColumns / SymmetricPermutation (interchange sequence as
   coded, error flag included), MdotM with the VIEW as receiver (view.MdotM(view, f): row-wise schedule,
   view.MdotM(f, view): column-wise schedule chosen by the storageLocation test, view.MdotM(a, b)).
   For EVERY well-formed view and every argument (also out-of-range ones: both sides panic alike):
   same error outcome; afterwards the view holds exactly the elements the operation gives an independent deep
   copy; every storage cell the view does not denote and every other storage keeps its content (frame); and the
   resulting heap IS the heap obtained by writing the copy's elements back through the view (fill). *)
Theorem op_on_view_equals_op_on_copy_then_copy_back : forall real H (m : mat), wf_in H m ->
  exists H' c, deep_copy real H m = ROk (H', c) /\ d_values c <> d_values m /\ whole c /\ wf_in H' c /\
    forall o, perm_op_ok H m o ->
      relR (fun r r' =>
              snd r = snd r' /\ wf_in (fst r) m /\ wf_in (fst r') c /\
              (forall i j, mAT real (fst r) m i j = mAT real (fst r') c i j) /\
              frame m H (fst r) /\
              fill real (fun i j => elem real (fst r') c (i, j)) m (mpos real m) H = ROk (fst r))
           (run_perm real H m o) (run_perm real H' c o).
Proof. exact perm_on_view_equals_perm_on_copy_then_copy_back. Qed.
(* ... for every finite composition of Slice / ConstSlice / T over a base matrix b; in addition every element
   of the parent that the window does not denote keeps its value *)
Theorem op_on_composed_view_equals_op_on_copy_then_copy_back : forall real H l (b : mat),
  wf_in H b -> guards l (d_rows b, d_cols b) ->
  let m := apply_views real b l in
  exists H' c, deep_copy real H m = ROk (H', c) /\ d_values c <> d_values b /\ whole c /\
    forall o, perm_op_ok H m o ->
      relR (fun r r' => perm_result real H m c r r' /\
              forall i' j', in_range b i' j' -> (forall i j, in_range m i j -> coord l (i, j) <> (i', j')) ->
                mAT real (fst r) b i' j' = mAT real H b i' j')
           (run_perm real H m o) (run_perm real H' c o).
Proof. exact perm_on_composed_view. Qed.
Example permuting_write_on_view_nontrivial :
  let H := [[1; 2; 3; 4; 5; 6; 7; 8; 9; 10; 11; 12; 13; 14; 15; 16]; [1; 0; 2; 1]] in
  let m := apply_views false (new_mat 0 4 4) [VSlice 0 3 1 4; VT; VSlice 0 2 1 3] in
  wf_in H m /\ perm_op_ok H m (PMdotM_right (new_mat 1 2 2)) /\
  opt_of (r <- run_perm false H m (PPermute 0 [1; 0]) ;; ROk (store_of (fst r) 0))
    = Some [1; 2; 3; 4; 5; 7; 6; 8; 9; 11; 10; 12; 13; 14; 15; 16] /\
  opt_of (r <- run_perm false H m (PMdotM_right (new_mat 1 2 2)) ;; ROk (store_of (fst r) 0))
    = Some [1; 2; 3; 4; 5; 6; 19; 8; 9; 10; 31; 12; 13; 14; 15; 16].
Proof. exact perm_on_view_nontrivial. Qed.
(* run_perm is the model's operation, nothing else *)
Theorem run_perm_is_the_model : forall real H m i1 j1 i2 j2 i j w pi f,
  run_perm real H m (PSwapRows i j) = mSwapRows real H m i j /\
  run_perm real H m (PSwapCols i j) = mSwapCols real H m i j /\
  run_perm real H m (PPermute w pi) = mPermute real w H m pi /\
  run_perm real H m (PSwap i1 j1 i2 j2) = (H1 <- mSwap real H m i1 j1 i2 j2 ;; ROk (H1, false)) /\
  run_perm real H m (PMdotM_left f) = (H1 <- mMdotM real H m m f ;; ROk (H1, false)) /\
  run_perm real H m (PMdotM_right f) = (H1 <- mMdotM real H m f m ;; ROk (H1, false)).
Proof. intros. repeat split. Qed.

(* ---- 5b. copy-vs-reference classification of every vector-returning accessor, read off the source ---- *)
Theorem row_col_diag_accessors_copy : forall t,
  (AccDenseP.ROW t = Copies /\ AccDenseP.COL t = Copies /\ AccDenseP.DIAG t = Copies /\
   AccDenseP.Row t = Copies /\ AccDenseP.Col t = Copies /\ AccDenseP.Diag t = Copies /\ AccDenseP.ConstDiag t = Copies) /\
  (AccDenseR.ROW t = Copies /\ AccDenseR.COL t = Copies /\ AccDenseR.DIAG t = Copies /\
   AccDenseR.Row t = Copies /\ AccDenseR.Col t = Copies /\ AccDenseR.Diag t = Copies).
Proof. exact ProofsAcc.row_col_diag_accessors_copy. Qed.
Theorem const_row_col_alias_only_on_contiguous_direction : forall t,
  AccDenseP.ConstRow t = (if t then Copies else AliasesStorage) /\
  AccDenseP.ConstCol t = (if t then AliasesStorage else Copies) /\
  AccDenseR.ConstRow t = (if t then SharesCells else AliasesStorage) /\
  AccDenseR.ConstCol t = (if t then AliasesStorage else SharesCells) /\
  AccDenseR.ConstDiag t = SharesCells /\
  AccDenseP.AsVector t = AliasesStorage /\ AccDenseP.AsConstVector t = AliasesStorage /\
  acc_aliases (AccDenseR.AsVector t) = true /\ acc_aliases (AccDenseR.AsConstVector t) = true.
Proof. exact ProofsAcc.const_row_col_alias_only_on_contiguous_direction. Qed.
Theorem model_alias_flags_match_source_table : forall real H (m : mat) i l al,
  (mConstRow real H m i = ROk (l, al) -> al = acc_aliases (acc_family real 6 (d_transposed m))) /\
  (mConstCol real H m i = ROk (l, al) -> al = acc_aliases (acc_family real 7 (d_transposed m))).
Proof. exact model_const_flags_match_table. Qed.
Theorem accessor_table_complete : map fst AccDenseP.table = seq 0 11 /\ map fst AccDenseR.table = seq 0 11.
Proof. exact ProofsAcc.accessor_table_complete. Qed.

(* ---- 7. Tip ---- *)
(* Tip on a matrix that owns its whole storage: dimensions exchanged, elements = those of the former T().
   EVERY shape, EVERY storage content: the cycle-following loop with its visited bookkeeping and the skip test, as
   coded, by induction over the cycles (ProofsTipAll.v); the fuel of the model's inner loop (mn + 1) is never
   exhausted (pigeonhole) *)
Theorem tip_correct_all_shapes_any_contents : forall real rows cols s, 0 <= rows -> 0 <= cols ->
  zlen s = rows * cols ->
  let m := new_mat 0 rows cols in
  exists s' m' l, mTip [s] m = ROk ([s'], m') /\ d_rows m' = cols /\ d_cols m' = rows /\ d_transposed m' = false /\
    read_all real [s'] m' = ROk l /\ read_all real [s] (k_T real m) = ROk l.
Proof. exact tip_correct_all_shapes. Qed.
(* the storage permutation itself: cell (i,j) of the rows x cols row-major layout ends up at cell (j,i) of the
   cols x rows layout *)
Theorem tip_cycle_loop_moves_every_cell : forall rows cols, 0 <= rows -> 0 <= cols -> forall s, zlen s = rows * cols ->
  exists s', tip_store rows s = ROk s' /\ zlen s' = rows * cols /\
    forall i j, 0 <= i < rows -> 0 <= j < cols ->
      nth (Z.to_nat (j * rows + i)) s' 0 = nth (Z.to_nat (i * cols + j)) s 0.
Proof. exact tip_store_transposes. Qed.
(* one cycle of the inner loop, from any unvisited start cell c of a storage of mn cells, for any step map that is
   an injection of [0, mn) into itself: it terminates when the orbit returns to c (L steps, within the fuel), moves
   the content of every orbit cell to its image, touches nothing else, and marks exactly the orbit *)
Theorem tip_inner_loop_follows_one_orbit : forall rows mn,
  (forall k, inD mn k -> inD mn (tip_next rows mn k)) ->
  (forall a b, inD mn a -> inD mn b -> tip_next rows mn a = tip_next rows mn b -> a = b) ->
  forall c s0 vis0, inD mn c -> zlen s0 = mn -> Z.of_nat (length vis0) = mn ->
  exists vis' s' L, tip_cycle (S (length s0)) rows mn c c vis0 s0 = ROk (vis', s') /\
    (1 <= L)%nat /\ it rows mn L c = c /\ zlen s' = mn /\
    (forall u, (u < L)%nat -> zn s' (it rows mn (S u) c) = zn s0 (it rows mn u c)) /\
    (forall x, inD mn x -> (forall u, (u < L)%nat -> x <> it rows mn u c) -> zn s' x = zn s0 x) /\
    (forall x, inD mn x -> (bn vis' x = true <-> (bn vis0 x = true \/ exists u, (u < L)%nat /\ x = it rows mn u c))).
Proof. exact tip_inner_loop_one_orbit. Qed.
(* Tip on a view = Tip on an independent deep copy, wherever Tip is specified: a transposed view of any window (only
   the flag is cleared, nothing moves) or a matrix that owns its storage (any heap, any location) *)
Theorem tip_on_view_equals_tip_on_copy : forall real H (m : mat), wf_in H m -> (d_transposed m = true \/ whole m) ->
  exists H' c, deep_copy real H m = ROk (H', c) /\
  exists H1 m1 H1' c1, mTip H m = ROk (H1, m1) /\ mTip H' c = ROk (H1', c1) /\
    (d_rows m1, d_cols m1) = (d_cols m, d_rows m) /\ (d_rows c1, d_cols c1) = (d_cols m, d_rows m) /\
    d_transposed m1 = false /\
    (forall i j, mAT real H1 m1 i j = mAT real H1' c1 i j) /\
    (forall i j, mAT real H1 m1 i j = mAT real H m j i) /\
    (forall l, l <> d_values m -> store_of H1 l = store_of H l) /\
    (d_transposed m = true -> H1 = H).
Proof. exact ProofsTipView.tip_on_view_equals_tip_on_copy. Qed.
(* Tip on a NON-transposed proper window permutes the parent's whole storage with the window's row count
   (proposed finding F-TIP-VIEW): cells outside the window move, the window reads a column instead of its
   transpose, or the cycle loop never returns to its start cell *)
Theorem tip_on_proper_window_refuted :
  let H := [[1; 2; 3; 4; 5; 6; 7; 8; 9]] in
  let b := new_mat 0 3 3 in
  slice_guard 3 3 0 3 0 2 /\ slice_guard 3 3 0 1 0 3 /\ slice_guard 3 3 0 2 0 2 /\
  wf_in H (DenseP.SLICE b 0 3 0 2) /\ wf_in H (DenseP.SLICE b 0 1 0 3) /\ wf_in H (DenseP.SLICE b 0 2 0 2) /\
  (r <- mTip H (DenseP.SLICE b 0 3 0 2) ;; ROk (store_of (fst r) 0)) = ROk [1; 4; 7; 2; 5; 8; 3; 6; 9] /\
  (r <- mTip H (DenseP.SLICE b 0 1 0 3) ;; read_all false (fst r) (snd r)) = ROk [1; 4; 7] /\
  read_all false H (DenseP.T (DenseP.SLICE b 0 1 0 3)) = ROk [1; 2; 3] /\
  mTip H (DenseP.SLICE b 0 2 0 2) = RFuel.
Proof. exact ProofsTipView.tip_on_proper_window_refuted. Qed.
Theorem tip_is_natural_in_contents : forall (f : Z -> Z) rows s,
  tip_store rows (map f s) = Rmap (map f) (tip_store rows s).
Proof. exact tip_store_map. Qed.
(* the step k |-> rows*k mod (mn-1) of the cycle loop, for EVERY shape: it carries the row-major cell of (i,j)
   to the row-major cell of (j,i) of the transposed layout; rows is coprime to mn-1; the map is injective on
   [0, mn-1) with two-sided inverse k |-> cols*k mod (mn-1) and fixes 0, i.e. it permutes [1, mn-2] *)
Theorem tip_cycle_map_number_theory : forall rows cols,
  (forall i j, 0 <= i < rows -> 0 <= j < cols -> tip_next rows (rows * cols) (i * cols + j) = j * rows + i) /\
  Znumtheory.rel_prime rows (rows * cols - 1) /\
  (forall a b, 0 <= a < rows * cols - 1 -> 0 <= b < rows * cols - 1 ->
     (rows * a) mod (rows * cols - 1) = (rows * b) mod (rows * cols - 1) -> a = b) /\
  (forall k, 0 < rows * cols - 1 -> 0 <= k < rows * cols - 1 ->
     (rows * ((cols * k) mod (rows * cols - 1))) mod (rows * cols - 1) = k /\
     (cols * ((rows * k) mod (rows * cols - 1))) mod (rows * cols - 1) = k /\
     0 <= (rows * k) mod (rows * cols - 1) < rows * cols - 1 /\
     ((rows * k) mod (rows * cols - 1) = 0 <-> k = 0)).
Proof.
  intros rows cols. split; [exact (tip_next_transposes rows cols)|]. split; [exact (tip_rel_prime rows cols)|].
  split; [exact (tip_map_injective rows cols) | exact (tip_map_inverse rows cols)].
Qed.
Example tip_nontrivial :
  (r <- mTip [[1; 2; 3; 4; 5; 6]] (new_mat 0 2 3) ;; read_all false (fst r) (snd r)) = ROk [1; 4; 2; 5; 3; 6].
Proof. reflexivity. Qed.
(* Tip on a transposed matrix (any header, whole storage or window): nothing is moved and the matrix becomes
   exactly its former T() -- same header as T(), flag cleared, same elements (fix 2ffe99c; formerly F-TIP-T) *)
Theorem tip_on_transposed_equals_former_T : forall real (H : heap) (m : mat), d_transposed m = true ->
  mTip H m = ROk (H, DenseP.T m) /\
  exists H' m', mTip H m = ROk (H', m') /\ H' = H /\ d_transposed m' = false /\
    (d_rows m', d_cols m') = (d_cols m, d_rows m) /\
    (forall i j, mAT real H' m' i j = mAT real H (k_T real m) i j) /\
    read_all real H' m' = read_all real H (k_T real m).
Proof. intros real H m E. split; [exact (tip_on_transposed_is_T H m E) | exact (tip_on_transposed_reads_T real H m E)]. Qed.
Example tip_on_transposed_regression :
  let s := [1; 2; 3; 4; 5; 6] in
  let m := DenseP.T (new_mat 0 2 3) in
  wf 6 m /\
  (H' <- (r <- mTip [s] m ;; ROk r) ;; read_all false (fst H') (snd H')) = ROk [1; 2; 3; 4; 5; 6] /\
  read_all false [s] (DenseP.T m) = ROk [1; 2; 3; 4; 5; 6].
Proof. exact tip_transposed_regression. Qed.

(* ---- sparse storage: T() of a whole matrix is correct; the defects of views are refuted by witnesses ---- *)
(* T() of a sparse matrix that owns its whole storage, every shape, every content: dimensions exchanged and
   element (i,j) of the result is element (j,i) of the receiver *)
Theorem sparse_T_whole : forall real rows cols, 0 <= rows -> 0 <= cols -> forall P, zlen P = rows * cols ->
  let v0 := mkSView (snew rows cols) (ident_cells (rows * cols)) true in
  exists v, sT real P v0 = ROk v /\ sk_dims real (sv_hdr v) = (cols, rows) /\
    forall i j, 0 <= i < cols -> 0 <= j < rows -> sAT real P v i j = sAT real P v0 j i.
Proof. exact ProofsSparseT.sparse_T_whole. Qed.
Example sparse_T_nontrivial :
  (v <- sT false [1; 0; 3; 4; 5; 0] (mkSView (snew 2 3) (ident_cells 6) true) ;; sread_all false [1; 0; 3; 4; 5; 0] v)
  = ROk [1; 4; 0; 5; 3; 0].
Proof. reflexivity. Qed.
Theorem sparse_iterator_leaves_view_refuted :
  let P := [1; 2; 3; 4; 5; 6; 7; 8; 9] in
  let v0 := mkSView (snew 3 3) (ident_cells 9) true in
  slice_guard 3 3 1 3 1 3 /\
  (v <- sapply1 false P v0 (VSlice 1 3 1 3) ;; sIterate false P v 0)
  = ROk [-1; -1; 1; -1; 0; 2; -1; 1; 3; 0; -1; 4; 0; 0; 5; 0; 1; 6; 1; -1; 7; 1; 0; 8; 1; 1; 9].
Proof. exact ProofsSparse.sparse_iterator_leaves_view_refuted. Qed.
Theorem sparse_reset_on_slice_refuted :
  let P := [1; 2; 3; 4; 5; 6; 7; 8; 9] in
  let v0 := mkSView (snew 3 3) (ident_cells 9) true in
  (v <- sapply1 false P v0 (VSlice 1 3 1 3) ;; r <- sReset P v ;; ROk (fst r)) = ROk [0; 0; 0; 0; 0; 0; 0; 0; 0].
Proof. exact ProofsSparse.sparse_reset_on_slice_refuted. Qed.
Theorem sparse_T_of_slice_refuted :
  run_case_sparse false 3 3 [1; 2; 3; 4; 5; 6; 7; 8; 9] [VSlice 1 3 1 3; VT] OIter = None.
Proof. exact ProofsSparse.sparse_T_of_slice_refuted. Qed.
Theorem sparse_T_not_a_reference_view_refuted :
  let P := [1; 2; 3; 0] in
  let v0 := mkSView (snew 2 2) (ident_cells 4) true in
  (v <- sT false P v0 ;; r <- sSET false P v 1 1 102 ;; x <- sAT false (fst r) (snd r) 1 1 ;; ROk (fst r, x))
  = ROk ([1; 2; 3; 0], 102).
Proof. exact ProofsSparse.sparse_T_not_a_reference_view_refuted. Qed.
Theorem dense_asvector_on_view_refuted :
  let H := [[1; 2; 3; 4; 5; 6; 7; 8; 9]] in
  let m := DenseP.SLICE (new_mat 0 3 3) 1 3 1 3 in
  slice_guard 3 3 1 3 1 3 /\
  (r <- mAsVector false H m ;; ROk (fst r)) = ROk [1; 2; 3; 4; 5; 6; 7; 8; 9] /\
  read_all false H m = ROk [5; 6; 8; 9].
Proof. exact ProofsSparse.dense_asvector_on_view_refuted. Qed.

(* ---- 6d. binary operations whose receiver AND operands are views of ONE storage ----
   r.MaddM/MsubM/MmulM(a, b) and r.MdotM(a, b) (row-buffered or column-buffered schedule, chosen by the
   storageLocation test as coded) where every operand is either the receiver itself or a matrix that no write
   through the receiver can reach: it lives in another storage, OR in the receiver's own storage on other cells
   ([indep]: disjoint windows, transposed windows, nested windows of one parent; the two operands may overlap each
   other arbitrarily).  The receiver ends up with the closed form computed from the elements read BEFORE the call,
   every cell it does not denote and every other storage is untouched. *)
Theorem ew_on_views_of_one_storage : forall real f H0 (r a b : mat), wf_in H0 r -> ew_opnd H0 r a -> ew_opnd H0 r b ->
  exists H1, mEw real f H0 r a b = ROk H1 /\ wf_in H1 r /\ frame r H0 H1 /\
    forall i j, in_range r i j -> mAT real H1 r i j = ROk (ew_g real H0 f a b i j).
Proof. exact ProofsBinView.ew_on_views_of_one_storage. Qed.
(* the loop IS the plain fill of the receiver with the closed form *)
Theorem ew_loop_is_fill_with_closed_form : forall real f H0 (r a b : mat), wf_in H0 r -> ew_opnd H0 r a -> ew_opnd H0 r b ->
  mEw real f H0 r a b = fill real (ew_g real H0 f a b) r (mpos real r) H0.
Proof. exact ew_closed_form. Qed.
(* the product: the left factor may be the receiver when the right factor lives in ANOTHER storage (row schedule),
   the right factor may be the receiver (column schedule), both may be windows of the receiver's parent on other
   cells (column schedule although nothing aliases: still right); non-empty shapes (storageLocation takes &values[0]) *)
Theorem mdotm_on_views_of_one_storage : forall real H0 (r a b : mat), wf_in H0 r ->
  0 < d_rows r -> 0 < d_cols r -> 0 < d_cols a ->
  d_rows a = d_rows r -> d_cols b = d_cols r -> d_cols a = d_rows b ->
  prod_lopnd H0 r a b -> prod_ropnd H0 r b ->
  exists H1, mMdotM real H0 r a b = ROk H1 /\ wf_in H1 r /\ frame r H0 H1 /\
    forall i j, in_range r i j -> mAT real H1 r i j = ROk (dotv real H0 a b i j).
Proof. exact ProofsBinView.mdotm_on_views_of_one_storage. Qed.
(* hence: the call on views of one storage and the call on ANY other placement of the same elements -- in particular
   independent deep copies, which live in pairwise different storages and are therefore [indep] -- leave their
   receivers with the same elements, each touching nothing but its receiver *)
Theorem ew_on_views_equals_ew_on_copies : forall real f H (r a b : mat) H' (r' a' b' : mat),
  wf_in H r -> ew_opnd H r a -> ew_opnd H r b -> wf_in H' r' -> ew_opnd H' r' a' -> ew_opnd H' r' b' ->
  same_elems real H r H' r' -> same_elems real H a H' a' -> same_elems real H b H' b' ->
  exists H1 H1', mEw real f H r a b = ROk H1 /\ mEw real f H' r' a' b' = ROk H1' /\
    frame r H H1 /\ frame r' H' H1' /\ same_elems real H1 r H1' r'.
Proof. exact ProofsBinView.ew_on_views_equals_ew_on_copies. Qed.
Theorem mdotm_on_views_equals_mdotm_on_copies : forall real H (r a b : mat) H' (r' a' b' : mat),
  wf_in H r -> wf_in H' r' -> 0 < d_rows r -> 0 < d_cols r -> 0 < d_cols a ->
  d_rows a = d_rows r -> d_cols b = d_cols r -> d_cols a = d_rows b ->
  prod_lopnd H r a b -> prod_ropnd H r b -> prod_lopnd H' r' a' b' -> prod_ropnd H' r' b' ->
  d_rows r = d_rows r' -> d_cols r = d_cols r' -> same_elems real H a H' a' -> same_elems real H b H' b' ->
  exists H1 H1', mMdotM real H r a b = ROk H1 /\ mMdotM real H' r' a' b' = ROk H1' /\
    frame r H H1 /\ frame r' H' H1' /\ same_elems real H1 r H1' r'.
Proof. exact ProofsBinView.mdotm_on_views_equals_mdotm_on_copies. Qed.
(* the concrete instance: view.MdotM(view, view) with all three windows in one heap (factors anywhere the receiver's
   writes cannot reach -- e.g. disjoint or transposed windows of the receiver's own parent) against three
   independent deep copies made by the model's deep_copy *)
Theorem mdotm_on_views_equals_mdotm_on_deep_copies : forall real H (r a b : mat),
  wf_in H r -> 0 < d_rows r -> 0 < d_cols r -> 0 < d_cols a ->
  d_rows a = d_rows r -> d_cols b = d_cols r -> d_cols a = d_rows b ->
  indep a r -> wf_in H a -> indep b r -> wf_in H b ->
  exists Hr cr Ha ca Hb cb, deep_copy real H r = ROk (Hr, cr) /\ deep_copy real Hr a = ROk (Ha, ca) /\
    deep_copy real Ha b = ROk (Hb, cb) /\
    exists H1 H1', mMdotM real H r a b = ROk H1 /\ mMdotM real Hb cr ca cb = ROk H1' /\
      frame r H H1 /\ frame cr Hb H1' /\ same_elems real H1 r H1' cr.
Proof. exact ProofsBinView.mdotm_on_views_equals_mdotm_on_deep_copies. Qed.
Example mdotm_three_windows_of_one_parent_nontrivial :
  let H := [[1; 2; 3; 4; 5; 6; 7; 8; 9; 10; 11; 12; 13; 14; 15; 16]] in
  let p := new_mat 0 4 4 in
  let r := DenseP.SLICE p 0 2 0 2 in let a := DenseP.SLICE p 0 2 2 4 in let b := DenseP.T (DenseP.SLICE p 2 4 2 4) in
  (H1 <- mMdotM false H r a b ;; ROk (store_of H1 0)) = ROk [81; 109; 3; 4; 173; 233; 7; 8; 9; 10; 11; 12; 13; 14; 15; 16] /\
  dotv false H a b 1 1 = 233.
Proof. exact mdotm_three_windows_nontrivial. Qed.
(* the excluded case is false for the code as it is (proposed finding F-MDOTM-SIBLING, C08's F-MDOTM-T seen from
   C10): left factor = receiver, right factor a DISJOINT window of the same parent -> column schedule -> wrong *)
Theorem mdotm_left_alias_with_sibling_right_factor_refuted :
  let H := [[1; 2; 3; 4; 5; 6; 7; 8; 9; 10; 11; 12; 13; 14; 15; 16]] in
  let p := new_mat 0 4 4 in
  let r := DenseP.SLICE p 0 2 0 2 in let b := DenseP.SLICE p 2 4 2 4 in
  wf_in H r /\ wf_in H b /\ cells_disjoint b r /\
  (H1 <- mMdotM false H r r b ;; read_all false H1 r) = ROk [41; 524; 145; 1836] /\
  (let H' := [[1; 2; 5; 6]; [11; 12; 15; 16]] in
   H1 <- mMdotM false H' (new_mat 0 2 2) (new_mat 0 2 2) (new_mat 1 2 2) ;; read_all false H1 (new_mat 0 2 2)) = ROk [41; 44; 145; 156].
Proof. exact mdotm_left_alias_sibling_refuted. Qed.

(* ---- 4b. the dense JOINT iterator (m.JointIterator(b): Next() as coded, the lexicographic merge of the two
   zero-skipping iterators incl. the stale index of an exhausted left side): its whole report is a function of the
   shapes and element functions of the two matrices -- two views (of one storage or not, nested, transposed) report
   exactly what independent deep copies report *)
Theorem joint_iterator_on_views_equals_joint_on_copies : forall real H H' (m m' b b' : mat),
  same_elems real H m H' m' -> same_elems real H b H' b' -> mJoint real H m b = mJoint real H' m' b'.
Proof. exact joint_on_views_equals_joint_on_copies. Qed.
Example joint_iterator_nontrivial :
  let H := [[1; 2; 3; 4; 0; 6; 7; 8; 9]] in
  let p := new_mat 0 3 3 in
  mJoint false H (DenseP.SLICE p 0 2 0 2) (DenseP.T (DenseP.SLICE p 1 3 1 3))
  = ROk [0; 0; 1; 1; 0; 0; 1; 1; 2; 8; 1; 0; 1; 4; 6; 1; 1; 0; 0; 9].
Proof. exact joint_nontrivial. Qed.

(* ---- 6e. callbacks, matrix (op) scalar, Outer, Equals, ConstDiag on views (ModelMap.v) ----
   view.Map(f) / view.MapSet(f) / the writing iterator  for it := view.Iterator(); it.Ok(); it.Next() { f(it.Get()) }
   with ANY callback f that sees the element it is handed and its own closure state (St, any type; the callback may
   write anything, also zeros), view.Reduce(f, r) with any f, view.MaddS/MsubS/MmulS(view | matrix elsewhere, c),
   view.Outer(a, b), Equals in both positions, ConstDiag -- on EVERY well-formed view, every storage content:
   same final closure state / result / panic as the same call on an independent deep copy; the view is left with the
   copy's elements; every cell the view does not denote and every other storage is untouched (frame); the heap IS the
   copy's elements written back through the view. *)
Theorem callbacks_on_view_equal_callbacks_on_copy : forall real H (m : mat), wf_in H m ->
  exists H' c, deep_copy real H m = ROk (H', c) /\ d_values c <> d_values m /\ whole c /\ wf_in H' c /\
    (forall St (f : St -> Z -> St * Z) s,
       relR (cb_result real H m c) (mMap real St f s H m) (mMap real St f s H' c) /\
       relR (cb_result real H m c) (mMapSet real St f s H m) (mMapSet real St f s H' c) /\
       relR (cb_result real H m c) (mIterMap real St f s H m) (mIterMap real St f s H' c)) /\
    (forall A (f : A -> Z -> A) r, mReduce real A f r H m = mReduce real A f r H' c) /\
    (forall fz cz, relR (view_result real H m c) (mEwS real fz H m m cz) (mEwS real fz H' c c cz)) /\
    (forall fz cz a, elsewhere H m a -> relR (view_result real H m c) (mEwS real fz H m a cz) (mEwS real fz H' c a cz)) /\
    (forall a b, relR (view_result real H m c) (mOuter real H m a b) (mOuter real H' c a b)) /\
    (forall b, (d_values b < length H)%nat ->
       mEquals real H m b = mEquals real H' c b /\ mEquals real H b m = mEquals real H' b c) /\
    mEquals real H m m = mEquals real H' c c /\
    mConstDiag real H m = mConstDiag real H' c.
Proof. exact ProofsMap.callbacks_on_view_equal_callbacks_on_copy. Qed.
(* what [cb_result] / [view_result] say, spelled out *)
Theorem callback_result_meaning : forall St real H (m c : mat) (r r' : St * heap),
  cb_result real H m c r r' <->
  (fst r = fst r' /\ wf_in (snd r) m /\ wf_in (snd r') c /\
   (forall i j, mAT real (snd r) m i j = mAT real (snd r') c i j) /\ frame m H (snd r) /\
   fill real (fun i j => elem real (snd r') c (i, j)) m (mpos real m) H = ROk (snd r)).
Proof. exact cb_result_meaning. Qed.
(* ... for every finite composition of Slice / ConstSlice / T over a base matrix b; in addition every element of the
   parent that the window does not denote keeps its value *)
Theorem callbacks_on_composed_view : forall real H l (b : mat), wf_in H b -> guards l (d_rows b, d_cols b) ->
  let m := apply_views real b l in
  exists H' c, deep_copy real H m = ROk (H', c) /\ d_values c <> d_values b /\ whole c /\
    forall St (f : St -> Z -> St * Z) s,
      let P := fun (r r' : St * heap) => cb_result real H m c r r' /\
                 forall i' j', in_range b i' j' -> (forall i j, in_range m i j -> coord l (i, j) <> (i', j')) ->
                   mAT real (snd r) b i' j' = mAT real H b i' j' in
      relR P (mMap real St f s H m) (mMap real St f s H' c) /\
      relR P (mMapSet real St f s H m) (mMapSet real St f s H' c) /\
      relR P (mIterMap real St f s H m) (mIterMap real St f s H' c).
Proof. exact ProofsMap.callbacks_on_composed_view. Qed.
(* Reduce is the left fold of the callback over the elements read through the view in ROW-MAJOR order (so its
   result depends on the elements the view denotes and on nothing else); MapSet is Map *)
Theorem reduce_is_fold_of_row_major_elements : forall real A (f : A -> Z -> A) r H (m : mat),
  mReduce real A f r H m = (l <- read_all real H m ;; ROk (fold_left f l r)) /\
  forall St (g : St -> Z -> St * Z) s, mMapSet real St g s H m = mMap real St g s H m.
Proof. exact reduce_fold_and_mapset. Qed.
Example callbacks_on_view_nontrivial :
  let H := [[1; 2; 3; 4; 0; 6; 7; 8; 9; 10; 11; 12]] in
  let m := apply_views false (new_mat 0 3 4) [VT; VSlice 1 3 0 2] in
  wf_in H m /\ guards [VT; VSlice 1 3 0 2] (3, 4) /\ read_all false H m = ROk [2; 6; 3; 7] /\
  opt_of (r <- mMap false Z (cb_affine 2 1 1) 5 H m ;; ROk (fst r, store_of (snd r) 0))
    = Some (148, [1; 15; 73; 4; 0; 39; 155; 8; 9; 10; 11; 12]) /\
  opt_of (r <- mIterMap false Z (cb_affine 2 1 1) 5 H m ;; ROk (fst r, store_of (snd r) 0))
    = Some (148, [1; 15; 73; 4; 0; 39; 155; 8; 9; 10; 11; 12]) /\
  opt_of (mReduce false Z (red_affine 2 1) 5 H m) = Some 148 /\
  opt_of (r <- deep_copy false H m ;; mReduce false Z (red_affine 2 1) 5 (fst r) (snd r)) = Some 148 /\
  opt_of (H1 <- mOuter false H m [1; 2] [3; 4] ;; ROk (store_of H1 0)) = Some [1; 3; 6; 4; 0; 4; 8; 8; 9; 10; 11; 12] /\
  opt_of (H1 <- mEwS false 2 H m m 3 ;; ROk (store_of H1 0)) = Some [1; 6; 9; 4; 0; 18; 21; 8; 9; 10; 11; 12].
Proof. exact ProofsMap.callbacks_on_view_nontrivial. Qed.

(* Map / MapSet in closed form, on EVERY well-formed view: the callback is run over the elements the view denotes in
   ROW-MAJOR order, threading its closure state ([map_accum]); afterwards the view holds, in row-major order, exactly
   the values the callback produced; frame *)
Theorem map_closed_form : forall real St (f : St -> Z -> St * Z) s H (m : mat), wf_in H m ->
  exists l H1, read_all real H m = ROk l /\
    mMap real St f s H m = ROk (fst (map_accum f s l), H1) /\
    mMapSet real St f s H m = ROk (fst (map_accum f s l), H1) /\
    read_all real H1 m = ROk (snd (map_accum f s l)) /\ wf_in H1 m /\ frame m H H1.
Proof. exact ProofsMap.map_closed_form. Qed.
Example map_closed_form_nontrivial :
  map_accum (cb_affine 2 1 1) 5 [2; 6; 3; 7] = (148, [15; 39; 73; 155]).
Proof. exact ProofsMap.map_closed_form_nontrivial. Qed.

(* ---- 6e'. Equals with BOTH sides views of ONE storage (round 7; ProofsEqViews.v, replayed as BEquals in the second stream) ----
   shifted windows of one parent, a square window against its own T(), a window against itself: on well-formed views
   the result is the dimension panic or "every position holds equal elements" -- decided by the elements the two
   views denote, never by the storage they share (there is no hypothesis on d_values / offsets / flags) *)
Theorem equals_closed_form : forall real H (a b : mat), wf_in H a -> wf_in H b ->
  mEquals real H a b =
  if (d_rows a =? d_rows b) && (d_cols a =? d_cols b) then ROk (elems_agree real H a b) else RPanic.
Proof. exact ProofsEqViews.equals_closed_form. Qed.
Theorem equals_true_iff_all_elements_equal : forall real H (a b : mat), wf_in H a -> wf_in H b ->
  d_rows a = d_rows b -> d_cols a = d_cols b ->
  exists e, mEquals real H a b = ROk e /\
    (e = true <-> forall i j, in_range a i j -> mAT real H a i j = mAT real H b i j).
Proof. exact ProofsEqViews.equals_true_iff_all_elements_equal. Qed.
(* ... hence the call on the two views = the call on two independent deep copies, in both argument orders *)
Theorem equals_on_two_views_equals_on_deep_copies : forall real H (a b : mat), wf_in H a -> wf_in H b ->
  exists Ha ca Hb cb, deep_copy real H a = ROk (Ha, ca) /\ deep_copy real Ha b = ROk (Hb, cb) /\
    d_values ca <> d_values cb /\ d_values ca <> d_values a /\ d_values ca <> d_values b /\
    d_values cb <> d_values a /\ d_values cb <> d_values b /\ whole ca /\ whole cb /\
    mEquals real H a b = mEquals real Hb ca cb /\ mEquals real H b a = mEquals real Hb cb ca.
Proof. exact ProofsEqViews.equals_on_two_views_equals_on_deep_copies. Qed.
Example equals_views_nontrivial :
  let H := [[1; 2; 1; 2; 1; 2; 4; 2; 1]] in
  let p := new_mat 0 3 3 in
  let a := apply_views false p [VSlice 0 2 0 2] in
  let b := apply_views false p [VSlice 1 3 1 3] in
  let d := apply_views false p [VSlice 1 3 0 2] in
  let aT := apply_views false p [VSlice 0 2 0 2; VT] in
  let dT := apply_views false p [VSlice 1 3 0 2; VT] in
  wf_in H a /\ wf_in H b /\ wf_in H d /\ wf_in H aT /\ wf_in H dT /\
  d_values a = d_values b /\ d_values d = d_values dT /\ a <> b /\ d <> dT /\
  read_all false H a = ROk [1; 2; 2; 1] /\ read_all false H b = ROk [1; 2; 2; 1] /\ read_all false H d = ROk [2; 1; 4; 2] /\
  mEquals false H a b = ROk true /\ mEquals false H a d = ROk false /\
  mEquals false H a aT = ROk true /\ mEquals false H d dT = ROk false /\ mEquals false H dT d = ROk false /\
  mEquals false H a p = RPanic.
Proof. exact ProofsEqViews.equals_views_nontrivial. Qed.

(* ---- 6f. the traversal of EVERY cell-by-cell whole-matrix method, re-derived from the source on every run ----
   GenLoop.v (go2coq_c10/loops.go, all nine dense instantiations): Reset, SetIdentity, Set, Map, MapSet, Reduce,
   Equals/EQUALS, M{add,sub,mul,div}{M,S} and their upper-case twins, Outer/OUTER are  for i < rows { for j < cols {  over
   the receiver's Dims() reaching matrices only through At / AT / ConstAt / index (i, j) (never raw offsets into the backing
   array); IsSymmetric walks the upper triangle.  The model's loops have exactly that shape. *)
Theorem cellwise_methods_walk_row_major_through_index : forall p,
  In p LoopDenseP.table \/ In p LoopDenseR.table -> snd p = expected_kind (fst p).
Proof. exact ProofsLoop.cellwise_methods_walk_row_major_through_index. Qed.
Theorem loop_table_complete : map fst LoopDenseP.table = seq 0 27 /\ map fst LoopDenseR.table = seq 0 27.
Proof. exact ProofsLoop.loop_table_complete. Qed.
Theorem model_loops_are_row_major_folds : forall real (m : mat),
  mpos real m = row_major (d_rows m) (d_cols m) /\
  (forall St f s H, mMap real St f s H m = foldR (map_step real St f m) (row_major (d_rows m) (d_cols m)) (s, H)) /\
  (forall St f s H, mMapSet real St f s H m = foldR (mapset_step real St f m) (row_major (d_rows m) (d_cols m)) (s, H)) /\
  (forall A f r H, mReduce real A f r H m =
     foldR (fun r p => v <- mAT real H m (fst p) (snd p) ;; ROk (f r v)) (row_major (d_rows m) (d_cols m)) r) /\
  (forall H i j, mAT real H m i j = (k <- of_opt (DenseP.index m i j) ;; get (store_of H (d_values m)) k)).
Proof. exact ProofsLoop.model_loops_are_row_major_folds. Qed.
Example loop_table_nontrivial :
  LoopDenseP.l_Map = RowMajorCells /\ LoopDenseR.l_MADDS = RowMajorCells /\ LoopDenseP.l_IsSymmetric = UpperTriangleCells /\
  expected_kind 6 = UpperTriangleCells /\ expected_kind 3 = RowMajorCells.
Proof. repeat split. Qed.
