(* C10 — lemmas about the translated integer kernels (Gen.v). *)
From Coq Require Import ZArith List Bool Lia.
From ADV Require Import C10.Gen C10.Model C10.Spec.
Import ListNotations.
Open Scope Z_scope.

(* ---------------------------------------------------------------- the two families coincide *)
Lemma R_index_eq : forall V (m : DenseMatrix V) i j, DenseR.index m i j = DenseP.index m i j.
Proof. reflexivity. Qed.
Lemma R_SLICE_eq : forall V (m : DenseMatrix V) a b c d, DenseR.SLICE m a b c d = DenseP.SLICE m a b c d.
Proof. reflexivity. Qed.
Lemma R_Slice_eq : forall V (m : DenseMatrix V) a b c d, DenseR.Slice m a b c d = DenseP.SLICE m a b c d.
Proof. reflexivity. Qed.
Lemma R_ConstSlice_eq : forall V (m : DenseMatrix V) a b c d, DenseR.ConstSlice m a b c d = DenseP.SLICE m a b c d.
Proof. reflexivity. Qed.
Lemma P_Slice_eq : forall V (m : DenseMatrix V) a b c d, DenseP.Slice m a b c d = DenseP.SLICE m a b c d.
Proof. reflexivity. Qed.
Lemma P_ConstSlice_eq : forall V (m : DenseMatrix V) a b c d, DenseP.ConstSlice m a b c d = DenseP.SLICE m a b c d.
Proof. reflexivity. Qed.
Lemma R_T_eq : forall V (m : DenseMatrix V), DenseR.T m = DenseP.T m.
Proof. reflexivity. Qed.
Lemma R_MagicT_eq : forall V (m : DenseMatrix V), DenseR.MagicT m = DenseP.T m.
Proof. reflexivity. Qed.
Lemma R_Dims_eq : forall V (m : DenseMatrix V), DenseR.Dims m = DenseP.Dims m.
Proof. reflexivity. Qed.
Lemma R_it_Ok_eq : forall V (it : DenseIter V), DenseR.it_Ok it = DenseP.it_Ok it.
Proof. reflexivity. Qed.
Lemma R_it_next_eq : forall V (it : DenseIter V), DenseR.it_next it = DenseP.it_next it.
Proof. reflexivity. Qed.
Lemma R_it_Index_eq : forall V (it : DenseIter V), DenseR.it_Index it = DenseP.it_Index it.
Proof. reflexivity. Qed.
Lemma SR_index_eq : forall V (m : SparseMatrix V) i j, SparseR.index m i j = SparseP.index m i j.
Proof. reflexivity. Qed.
Lemma SR_ij_eq : forall V (m : SparseMatrix V) k, SparseR.ij m k = SparseP.ij m k.
Proof. reflexivity. Qed.
Lemma SR_SLICE_eq : forall V (m : SparseMatrix V) a b c d, SparseR.SLICE m a b c d = SparseP.SLICE m a b c d.
Proof. reflexivity. Qed.
Lemma SR_ConstSlice_eq : forall V (m : SparseMatrix V) a b c d, SparseR.ConstSlice m a b c d = SparseP.SLICE m a b c d.
Proof. reflexivity. Qed.
Lemma SP_ConstSlice_eq : forall V (m : SparseMatrix V) a b c d, SparseP.ConstSlice m a b c d = SparseP.SLICE m a b c d.
Proof. reflexivity. Qed.
Lemma SR_Dims_eq : forall V (m : SparseMatrix V), SparseR.Dims m = SparseP.Dims m.
Proof. reflexivity. Qed.

Lemma k_index_P : forall real m i j, k_index real m i j = DenseP.index m i j.
Proof. intros [] m i j; reflexivity. Qed.
Lemma k_slice_P : forall real m a b c d, k_slice real m a b c d = DenseP.SLICE m a b c d.
Proof. intros [] m a b c d; reflexivity. Qed.
Lemma k_cslice_P : forall real m a b c d, k_cslice real m a b c d = DenseP.SLICE m a b c d.
Proof. intros [] m a b c d; reflexivity. Qed.
Lemma k_T_P : forall real m, k_T real m = DenseP.T m.
Proof. intros [] m; reflexivity. Qed.
Lemma k_dims_P : forall real m, k_dims real m = (d_rows m, d_cols m).
Proof. intros [] m; reflexivity. Qed.
Lemma k_ok_P : forall real it, k_ok real it = DenseP.it_Ok it.
Proof. intros [] it; reflexivity. Qed.
Lemma k_next_P : forall real it, k_next real it = DenseP.it_next it.
Proof. intros [] it; reflexivity. Qed.
Lemma k_Index_P : forall real it, k_Index real it = (di_i it, di_j it).
Proof. intros [] it; reflexivity. Qed.

(* ---------------------------------------------------------------- index: guard and bounds *)
Section Idx.
Context {V : Type}.
Implicit Types h : DenseMatrix V.

Lemma index_guard : forall h i j,
  DenseP.index h i j = None <-> (i < 0 \/ j < 0 \/ i >= d_rows h \/ j >= d_cols h).
Proof.
  intros h i j. unfold DenseP.index.
  destruct (i <? 0) eqn:E1; destruct (j <? 0) eqn:E2;
  destruct (i >=? d_rows h) eqn:E3; destruct (j >=? d_cols h) eqn:E4; simpl;
  try (split; [intros _; lia | reflexivity]);
  destruct (d_transposed h); split; try discriminate; lia.
Qed.

Lemma index_some : forall h i j, in_range h i j ->
  DenseP.index h i j = Some (if d_transposed h
                             then (d_colOffset h + j) * d_rowMax h + (d_rowOffset h + i)
                             else (d_rowOffset h + i) * d_colMax h + (d_colOffset h + j)).
Proof.
  intros h i j [Hi Hj]. unfold DenseP.index.
  replace (i <? 0) with false by (symmetry; apply Z.ltb_ge; lia).
  replace (j <? 0) with false by (symmetry; apply Z.ltb_ge; lia).
  replace (i >=? d_rows h) with false by (symmetry; rewrite Z.geb_leb; apply Z.leb_gt; lia).
  replace (j >=? d_cols h) with false by (symmetry; rewrite Z.geb_leb; apply Z.leb_gt; lia).
  simpl. destruct (d_transposed h); reflexivity.
Qed.

Lemma index_in_bounds : forall len h i j, wf len h -> in_range h i j ->
  exists k, DenseP.index h i j = Some k /\ 0 <= k < len.
Proof.
  intros len h i j (Hr & Hc & Hro & Hco & Hrm & Hcm & Hl) [Hi Hj].
  rewrite index_some by (split; assumption).
  eexists; split; [reflexivity|]. subst len.
  destruct (d_transposed h); nia.
Qed.

Lemma index_injective : forall len h i j i' j' k, wf len h ->
  DenseP.index h i j = Some k -> DenseP.index h i' j' = Some k -> i = i' /\ j = j'.
Proof.
  intros len h i j i' j' k (Hr & Hc & Hro & Hco & Hrm & Hcm & Hl) H1 H2.
  assert (R1 : in_range h i j).
  { destruct (index_guard h i j) as [_ G]. unfold in_range.
    destruct (Z_lt_dec i 0); [rewrite G in H1 by lia; discriminate|].
    destruct (Z_lt_dec j 0); [rewrite G in H1 by lia; discriminate|].
    destruct (Z_ge_dec i (d_rows h)); [rewrite G in H1 by lia; discriminate|].
    destruct (Z_ge_dec j (d_cols h)); [rewrite G in H1 by lia; discriminate|]. lia. }
  assert (R2 : in_range h i' j').
  { destruct (index_guard h i' j') as [_ G]. unfold in_range.
    destruct (Z_lt_dec i' 0); [rewrite G in H2 by lia; discriminate|].
    destruct (Z_lt_dec j' 0); [rewrite G in H2 by lia; discriminate|].
    destruct (Z_ge_dec i' (d_rows h)); [rewrite G in H2 by lia; discriminate|].
    destruct (Z_ge_dec j' (d_cols h)); [rewrite G in H2 by lia; discriminate|]. lia. }
  rewrite index_some in H1 by assumption. rewrite index_some in H2 by assumption.
  destruct R1 as [Hi Hj], R2 as [Hi' Hj'].
  destruct (d_transposed h); inversion H1 as [E1]; inversion H2 as [E2]; clear H1 H2; subst k.
  - (* (co+j)*rm + ro+i = (co+j')*rm + ro+i', with 0 <= ro+i, ro+i' < rm *)
    assert (d_colOffset h + j = d_colOffset h + j') by nia. split; nia.
  - assert (d_rowOffset h + i = d_rowOffset h + i') by nia. split; nia.
Qed.

(* ---------------------------------------------------------------- Slice and T *)
Lemma slice_fields : forall h r0 r1 c0 c1,
  DenseP.SLICE h r0 r1 c0 c1 =
  mkDense (d_values h) (r1 - r0) (c1 - c0) (d_rowOffset h + r0) (d_rowMax h) (d_colOffset h + c0) (d_colMax h) (d_transposed h).
Proof. intros; reflexivity. Qed.

Lemma wf_slice : forall len h r0 r1 c0 c1, wf len h -> slice_guard (d_rows h) (d_cols h) r0 r1 c0 c1 ->
  wf len (DenseP.SLICE h r0 r1 c0 c1).
Proof.
  intros len h r0 r1 c0 c1 (Hr & Hc & Hro & Hco & Hrm & Hcm & Hl) (G1 & G2 & G3 & G4).
  rewrite slice_fields. unfold wf; simpl. repeat split; lia.
Qed.
Lemma wf_T : forall len h, wf len h -> wf len (DenseP.T h).
Proof.
  intros len h (Hr & Hc & Hro & Hco & Hrm & Hcm & Hl). unfold wf, DenseP.T; simpl. repeat split; lia.
Qed.
Lemma wf_new : forall (v : V) rows cols, 0 <= rows -> 0 <= cols ->
  wf (rows * cols) (mkDense v rows cols 0 rows 0 cols false).
Proof. intros; unfold wf; simpl; repeat split; lia. Qed.

Lemma index_slice : forall h r0 r1 c0 c1 i j,
  slice_guard (d_rows h) (d_cols h) r0 r1 c0 c1 -> in_range (DenseP.SLICE h r0 r1 c0 c1) i j ->
  DenseP.index (DenseP.SLICE h r0 r1 c0 c1) i j = DenseP.index h (r0 + i) (c0 + j).
Proof.
  intros h r0 r1 c0 c1 i j (G1 & G2 & G3 & G4) R.
  assert (R' : in_range h (r0 + i) (c0 + j)).
  { destruct R as [Hi Hj]. rewrite slice_fields in Hi, Hj. simpl in Hi, Hj. unfold in_range; lia. }
  rewrite (index_some _ _ _ R), (index_some _ _ _ R'). rewrite slice_fields; simpl.
  destruct (d_transposed h); f_equal; ring.
Qed.
(* an in-range position of the slice is an in-range position of the parent *)
Lemma slice_in_range : forall h r0 r1 c0 c1 i j,
  slice_guard (d_rows h) (d_cols h) r0 r1 c0 c1 -> in_range (DenseP.SLICE h r0 r1 c0 c1) i j ->
  in_range h (r0 + i) (c0 + j).
Proof.
  intros h r0 r1 c0 c1 i j (G1 & G2 & G3 & G4) [Hi Hj].
  rewrite slice_fields in Hi, Hj; simpl in Hi, Hj. unfold in_range; lia.
Qed.

Lemma index_T : forall h i j, DenseP.index (DenseP.T h) i j = DenseP.index h j i.
Proof.
  intros h i j. unfold DenseP.index, DenseP.T; simpl.
  destruct (i <? 0), (j <? 0), (i >=? d_cols h), (j >=? d_rows h); simpl; try reflexivity;
  destruct (d_transposed h); simpl; reflexivity.
Qed.
Lemma T_in_range : forall h i j, in_range (DenseP.T h) i j <-> in_range h j i.
Proof. intros; unfold in_range, DenseP.T; simpl; lia. Qed.
Lemma T_involutive : forall h, DenseP.T (DenseP.T h) = h.
Proof. intros [v r c ro rm co cm t]; unfold DenseP.T; simpl. rewrite Bool.negb_involutive. reflexivity. Qed.
Lemma slice_full : forall h, DenseP.SLICE h 0 (d_rows h) 0 (d_cols h) = h.
Proof.
  intros [v r c ro rm co cm t]; rewrite slice_fields; simpl. f_equal; lia.
Qed.
Lemma slice_slice : forall h r0 r1 c0 c1 a0 a1 b0 b1,
  DenseP.SLICE (DenseP.SLICE h r0 r1 c0 c1) a0 a1 b0 b1 = DenseP.SLICE h (r0 + a0) (r0 + a1) (c0 + b0) (c0 + b1).
Proof. intros. rewrite !slice_fields; simpl. f_equal; lia. Qed.
(* transposition commutes with slicing, rows and columns exchanged *)
Lemma T_slice : forall h r0 r1 c0 c1,
  DenseP.T (DenseP.SLICE h r0 r1 c0 c1) = DenseP.SLICE (DenseP.T h) c0 c1 r0 r1.
Proof. intros. rewrite !slice_fields; reflexivity. Qed.

(* ---------------------------------------------------------------- ij *)
Lemma ij_index_plain : forall len h i j k, wf len h -> d_transposed h = false ->
  DenseP.index h i j = Some k -> DenseP.ij h k = (i, j).
Proof.
  intros len h i j k (Hr & Hc & Hro & Hco & Hrm & Hcm & Hl) Ht H1.
  assert (R1 : in_range h i j).
  { destruct (index_guard h i j) as [_ G]. unfold in_range.
    destruct (Z_lt_dec i 0); [rewrite G in H1 by lia; discriminate|].
    destruct (Z_lt_dec j 0); [rewrite G in H1 by lia; discriminate|].
    destruct (Z_ge_dec i (d_rows h)); [rewrite G in H1 by lia; discriminate|].
    destruct (Z_ge_dec j (d_cols h)); [rewrite G in H1 by lia; discriminate|]. lia. }
  rewrite index_some in H1 by assumption. rewrite Ht in H1. inversion H1 as [E]; clear H1. clear E.
  destruct R1 as [Hi Hj]. unfold DenseP.ij. rewrite Ht. cbv zeta.
  assert (Hcm0 : 0 < d_colMax h) by lia.
  set (a := d_rowOffset h + i). set (b := d_colOffset h + j).
  assert (Ha : 0 <= a) by (unfold a; lia). assert (Hb : 0 <= b < d_colMax h) by (unfold b; lia).
  rewrite Z.quot_div_nonneg, Z.rem_mod_nonneg by nia.
  rewrite Z.div_add_l by lia. rewrite (Z.add_comm (a * d_colMax h) b), Z.mod_add by lia.
  rewrite Z.div_small, Z.mod_small by lia. unfold a, b. f_equal; lia.
Qed.
(* when transposed the code subtracts the offsets the wrong way round: correct iff they coincide *)
Lemma ij_index_transposed_partial : forall len h i j k, wf len h -> d_transposed h = true ->
  d_rowOffset h = d_colOffset h ->
  DenseP.index h i j = Some k -> DenseP.ij h k = (i, j).
Proof.
  intros len h i j k (Hr & Hc & Hro & Hco & Hrm & Hcm & Hl) Ht Heq H1.
  assert (R1 : in_range h i j).
  { destruct (index_guard h i j) as [_ G]. unfold in_range.
    destruct (Z_lt_dec i 0); [rewrite G in H1 by lia; discriminate|].
    destruct (Z_lt_dec j 0); [rewrite G in H1 by lia; discriminate|].
    destruct (Z_ge_dec i (d_rows h)); [rewrite G in H1 by lia; discriminate|].
    destruct (Z_ge_dec j (d_cols h)); [rewrite G in H1 by lia; discriminate|]. lia. }
  rewrite index_some in H1 by assumption. rewrite Ht in H1. inversion H1 as [E]; clear H1. clear E.
  destruct R1 as [Hi Hj]. unfold DenseP.ij. rewrite Ht. cbv zeta.
  assert (Hrm0 : 0 < d_rowMax h) by lia.
  set (a := d_colOffset h + j). set (b := d_rowOffset h + i).
  assert (Ha : 0 <= a) by (unfold a; lia). assert (Hb : 0 <= b < d_rowMax h) by (unfold b; lia).
  rewrite Z.quot_div_nonneg, Z.rem_mod_nonneg by nia.
  rewrite Z.div_add_l by lia. rewrite (Z.add_comm (a * d_rowMax h) b), Z.mod_add by lia.
  rewrite Z.div_small, Z.mod_small by lia. unfold a, b. f_equal; lia.
Qed.
End Idx.

(* F-IJ-T: a 3x3 storage, transposed 1x2 window at row offset 0 / column offset 1 *)
Definition ijT_witness : DenseMatrix unit := mkDense tt 1 2 0 3 1 3 true.
Lemma dense_ij_transposed_refuted :
  wf 9 ijT_witness /\ DenseP.index ijT_witness 0 0 = Some 3 /\ DenseP.ij ijT_witness 3 = (-1, 1).
Proof. unfold wf, ijT_witness; simpl. repeat split; lia. Qed.
(* the Real instantiation uses the other maximum in both branches: wrong on non-square storage *)
Definition ijR_witness : DenseMatrix unit := mkDense tt 2 3 0 2 0 3 false.
Lemma dense_real_ij_refuted :
  wf 6 ijR_witness /\ DenseR.index ijR_witness 0 2 = Some 2 /\ DenseR.ij ijR_witness 2 = (1, 0).
Proof. unfold wf, ijR_witness; simpl. repeat split; lia. Qed.

(* ---------------------------------------------------------------- sparse index / ij *)
Section SIdx.
Context {V : Type}.
Implicit Types h : SparseMatrix V.
Lemma s_index_guard : forall h i j,
  SparseP.index h i j = None <-> (i < 0 \/ j < 0 \/ i >= s_rows h \/ j >= s_cols h).
Proof.
  intros h i j. unfold SparseP.index.
  destruct (i <? 0) eqn:E1; destruct (j <? 0) eqn:E2;
  destruct (i >=? s_rows h) eqn:E3; destruct (j >=? s_cols h) eqn:E4; simpl;
  try (split; [intros _; lia | reflexivity]); split; try discriminate; lia.
Qed.
Lemma s_index_some : forall h i j, s_in_range h i j ->
  SparseP.index h i j = Some ((s_rowOffset h + i) * s_colMax h + (s_colOffset h + j)).
Proof.
  intros h i j [Hi Hj]. unfold SparseP.index.
  replace (i <? 0) with false by (symmetry; apply Z.ltb_ge; lia).
  replace (j <? 0) with false by (symmetry; apply Z.ltb_ge; lia).
  replace (i >=? s_rows h) with false by (symmetry; rewrite Z.geb_leb; apply Z.leb_gt; lia).
  replace (j >=? s_cols h) with false by (symmetry; rewrite Z.geb_leb; apply Z.leb_gt; lia).
  reflexivity.
Qed.
Lemma s_index_in_bounds : forall len h i j, swf len h -> s_in_range h i j ->
  exists k, SparseP.index h i j = Some k /\ 0 <= k < len.
Proof.
  intros len h i j (Hr & Hc & Hro & Hco & Hrm & Hcm & Hl) [Hi Hj].
  rewrite s_index_some by (split; assumption).
  eexists; split; [reflexivity|]. subst len. nia.
Qed.
Lemma s_ij_index : forall len h i j k, swf len h -> SparseP.index h i j = Some k -> SparseP.ij h k = (i, j).
Proof.
  intros len h i j k (Hr & Hc & Hro & Hco & Hrm & Hcm & Hl) H1.
  assert (R1 : s_in_range h i j).
  { destruct (s_index_guard h i j) as [_ G]. unfold s_in_range.
    destruct (Z_lt_dec i 0); [rewrite G in H1 by lia; discriminate|].
    destruct (Z_lt_dec j 0); [rewrite G in H1 by lia; discriminate|].
    destruct (Z_ge_dec i (s_rows h)); [rewrite G in H1 by lia; discriminate|].
    destruct (Z_ge_dec j (s_cols h)); [rewrite G in H1 by lia; discriminate|]. lia. }
  rewrite s_index_some in H1 by assumption. inversion H1 as [E]; clear H1. clear E.
  destruct R1 as [Hi Hj]. unfold SparseP.ij. cbv zeta.
  assert (Hcm0 : 0 < s_colMax h) by lia.
  set (a := s_rowOffset h + i). set (b := s_colOffset h + j).
  assert (Ha : 0 <= a) by (unfold a; lia). assert (Hb : 0 <= b < s_colMax h) by (unfold b; lia).
  rewrite Z.quot_div_nonneg, Z.rem_mod_nonneg by nia.
  rewrite Z.div_add_l by lia. rewrite (Z.add_comm (a * s_colMax h) b), Z.mod_add by lia.
  rewrite Z.div_small, Z.mod_small by lia. unfold a, b. f_equal; lia.
Qed.
Lemma s_slice_fields : forall h r0 r1 c0 c1,
  SparseP.SLICE h r0 r1 c0 c1 =
  mkSparse (s_values h) (r1 - r0) (c1 - c0) (s_rowOffset h + r0) (s_rowMax h) (s_colOffset h + c0) (s_colMax h).
Proof. intros; reflexivity. Qed.
Lemma s_wf_slice : forall len h r0 r1 c0 c1, swf len h -> slice_guard (s_rows h) (s_cols h) r0 r1 c0 c1 ->
  swf len (SparseP.SLICE h r0 r1 c0 c1).
Proof.
  intros len h r0 r1 c0 c1 (Hr & Hc & Hro & Hco & Hrm & Hcm & Hl) (G1 & G2 & G3 & G4).
  rewrite s_slice_fields. unfold swf; simpl. repeat split; lia.
Qed.
Lemma s_index_slice : forall h r0 r1 c0 c1 i j,
  slice_guard (s_rows h) (s_cols h) r0 r1 c0 c1 -> s_in_range (SparseP.SLICE h r0 r1 c0 c1) i j ->
  SparseP.index (SparseP.SLICE h r0 r1 c0 c1) i j = SparseP.index h (r0 + i) (c0 + j).
Proof.
  intros h r0 r1 c0 c1 i j (G1 & G2 & G3 & G4) R.
  assert (R' : s_in_range h (r0 + i) (c0 + j)).
  { destruct R as [Hi Hj]. rewrite s_slice_fields in Hi, Hj. simpl in Hi, Hj. unfold s_in_range; lia. }
  rewrite (s_index_some _ _ _ R), (s_index_some _ _ _ R'). rewrite s_slice_fields; simpl.
  f_equal; ring.
Qed.
End SIdx.
