(* C12/ProofsSW.v — the world of scalars and dense vectors of magic scalars:
   frame of every world operation, histories, Clone of a vector, reference views. *)
From Coq Require Import ZArith List Bool Arith Lia.
From ADV Require Import Base.Fl C01.Model C12.ModelS C12.ProofsS C12.ProofsClone.
Import ListNotations.

Section W.
Context {A : Type} (F : Fl A) (r32 : A -> A).
Notation St := (@St A).
Notation SW := (SW A).
Notation sop := (sop A).

(* ---- allocation of new objects ---- *)
Lemma new_list_only k vals : forall c (s : St), only (seq c (length vals)) s (new_list r32 k vals c s).
Proof.
  induction vals as [|v r IH]; intros c s; simpl; [apply only_refl|].
  eapply only_trans.
  - apply only_upd with (c := c). left; reflexivity.
  - eapply only_mono; [|apply IH]. intros x Hx. right. exact Hx.
Qed.

Lemma conv_list_only kf ids : forall c (s s' : St),
  conv_list F r32 kf ids c s = Ok s' -> only (seq c (length ids)) s s'.
Proof.
  induction ids as [|a r IH]; intros c s s' E; simpl in *.
  - injection E as <-. apply only_refl.
  - destruct (conv_reg F r32 (kf (s a)) c a s) as [s1|e] eqn:E1; simpl in E; [|discriminate].
    eapply only_trans.
    + eapply only_mono; [|apply (frames_conv_reg F r32 _ c a s s1 E1)]. intros x [<-|[]]. left; reflexivity.
    + eapply only_mono; [|apply (IH (S c) s1 s' E)]. intros x Hx. right. exact Hx.
Qed.

(* Clone of a vector whose elements all lie below the allocation pointer: total; slot i of the
   result is the fresh register c+i holding the copy of element i; everything else is untouched *)
Lemma conv_list_spec kf ids : forall c (s : St), (forall a, In a ids -> a < c) ->
  exists s', conv_list F r32 kf ids c s = Ok s' /\
    (forall q, ~ In q (seq c (length ids)) -> s' q = s q) /\
    (forall i, i < length ids -> s' (c + i) = copy_of F r32 (kf (s (nth i ids 0))) (s (nth i ids 0))).
Proof.
  induction ids as [|a r IH]; intros c s B; simpl.
  - exists s. split; [reflexivity|]. split; [reflexivity|]. intros i Li. lia.
  - assert (Hac : a <> c) by (specialize (B a (or_introl eq_refl)); lia).
    destruct (conv_reg_eq F r32 (kf (s a)) c a s Hac c) as (s1 & E1 & _).
    rewrite E1. simpl.
    destruct (IH (S c) s1) as (s' & E & Oth & Cp).
    { intros x Hx. specialize (B x (or_intror Hx)). lia. }
    exists s'. split; [exact E|]. split.
    + intros q Hq. rewrite Oth; [|intro X; apply Hq; right; exact X].
      destruct (conv_reg_eq F r32 (kf (s a)) c a s Hac q) as (s1' & E1' & Q). rewrite E1 in E1'. injection E1' as <-.
      rewrite Q, upd_q. destruct (Nat.eqb q c) eqn:Eq; [|reflexivity]. apply Nat.eqb_eq in Eq. subst. exfalso. apply Hq. left; reflexivity.
    + assert (S1 : forall q, s1 q = upd s c (copy_of F r32 (kf (s a)) (s a)) q).
      { intros q. destruct (conv_reg_eq F r32 (kf (s a)) c a s Hac q) as (s1' & E1' & Q). rewrite E1 in E1'. injection E1' as <-. exact Q. }
      intros [|i] Li.
      * rewrite Nat.add_0_r. rewrite Oth; [|intro X; apply in_seq in X; lia]. rewrite S1, upd_q, Nat.eqb_refl. reflexivity.
      * replace (c + S i) with (S c + i) by lia. rewrite (Cp i) by (simpl in Li; lia). simpl nth.
        assert (Lt : nth i r 0 < c). { apply B. right. apply nth_In. simpl in Li; lia. }
        rewrite S1, upd_q. destruct (Nat.eqb (nth i r 0) c) eqn:Eq; [apply Nat.eqb_eq in Eq; lia|]. reflexivity.
Qed.

(* ---- frame of one world operation ---- *)
Lemma zip3_writes op : forall vr va vb,
  incl (pwrites (map (fun x : nat * nat * nat => let '(c, p, q) := x in IDy op c (@Rg A p) (Rg q)) (zip3 vr va vb))) vr.
Proof.
  induction vr as [|c vr IH]; intros va vb; simpl; [intros y []|].
  destruct va as [|y va]; [intros z []|]. destruct vb as [|z vb]; [intros u []|]. simpl.
  intros u [<-|Hu]; [left; reflexivity | right; eapply IH; exact Hu].
Qed.
Lemma combine_writes (g : nat -> nat -> instr A) : (forall c y, writes (g c y) = [c]) -> forall vr va,
  incl (pwrites (map (fun x => g (fst x) (snd x)) (combine vr va))) vr.
Proof.
  intros Hg. induction vr as [|c vr IH]; intros va; simpl; [intros y []|].
  destruct va as [|y va]; [intros z []|]. simpl. rewrite Hg. simpl.
  intros u [<-|Hu]; [left; reflexivity | right; eapply IH; exact Hu].
Qed.
Lemma compile_writes (w : SW) o p : compile w o = Some p -> incl (pwrites p) (swrites w o).
Proof.
  destruct o; simpl; intros E.
  - injection E as <-. intros x [].
  - injection E as <-. intros x [].
  - injection E as <-. intros x [].
  - injection E as <-. intros x [].
  - injection E as <-. intros x [].
  - injection E as <-. simpl. rewrite app_nil_r. apply incl_refl.
  - destruct (_ && _); [|discriminate]. injection E as <-. apply zip3_writes.
  - destruct (Nat.eqb _ _); [|discriminate]. injection E as <-.
    apply (combine_writes (fun c y => IDy op c (Rg y) b)). reflexivity.
  - destruct (Nat.eqb _ _); [|discriminate]. injection E as <-.
    apply (combine_writes (fun c y => ISet c (Rg y))). reflexivity.
  - injection E as <-. induction (getv w r) as [|c vr IH]; simpl; [intros y []|].
    intros u [<-|Hu]; [left; reflexivity | right; apply IH; exact Hu].
Qed.

Lemma sstep_frame (w w' : SW) o : sstep F r32 w o = Ok w' -> only (swrites w o) (w_st w) (w_st w').
Proof.
  intros E.
  assert (G : forall p, compile w o = Some p ->
              bind (run F r32 p (w_st w)) (fun s => Ok (mkSW s (w_next w) (w_vecs w))) = Ok w' ->
              only (swrites w o) (w_st w) (w_st w')).
  { intros p C E'. destruct (run F r32 p (w_st w)) as [s|e] eqn:R; simpl in E'; [|discriminate]. injection E' as <-. simpl.
    eapply only_mono; [apply (compile_writes w o p C) | apply (frames_run F r32 p _ _ R)]. }
  destruct o;
    try (unfold sstep in E; destruct (compile w _) as [p|] eqn:C; [|discriminate]; exact (G p eq_refl E)); simpl in E.
  - injection E as <-. simpl. apply new_list_only.
  - destruct (clone_list F r32 (getv w t) (w_next w) (w_st w)) as [s|e] eqn:C; simpl in E; [|discriminate].
    injection E as <-. simpl. eapply conv_list_only; exact C.
  - destruct (conv_list F r32 (fun _ => k) (getv w t) (w_next w) (w_st w)) as [s|e] eqn:C; simpl in E; [|discriminate].
    injection E as <-. simpl. eapply conv_list_only; exact C.
  - destruct (_ && _); [|discriminate]. injection E as <-. simpl. apply only_refl.
  - injection E as <-. simpl. apply only_refl.
Qed.

(* existing handles keep their element objects; the allocation pointer only grows *)
Lemma sstep_vecs (w w' : SW) o : sstep F r32 w o = Ok w' ->
  w_next w <= w_next w' /\ (exists l, w_vecs w' = w_vecs w ++ l) /\
  (forall t, t < length (w_vecs w) -> getv w' t = getv w t).
Proof.
  intros E.
  assert (G : forall l n s, w' = mkSW s (w_next w + n) (w_vecs w ++ l) ->
          w_next w <= w_next w' /\ (exists l, w_vecs w' = w_vecs w ++ l) /\ (forall t, t < length (w_vecs w) -> getv w' t = getv w t)).
  { intros l n s ->. simpl. split; [lia|]. split; [eexists; reflexivity|]. intros t Lt. unfold getv. simpl. apply app_nth1. exact Lt. }
  assert (G0 : forall s, w' = mkSW s (w_next w) (w_vecs w) ->
          w_next w <= w_next w' /\ (exists l, w_vecs w' = w_vecs w ++ l) /\ (forall t, t < length (w_vecs w) -> getv w' t = getv w t)).
  { intros s ->. simpl. split; [lia|]. split; [exists []; rewrite app_nil_r; reflexivity|]. intros; reflexivity. }
  destruct o;
    try (unfold sstep in E; destruct (compile w _) as [p|]; [|discriminate];
         destruct (run F r32 p (w_st w)) as [s|e]; simpl in E; [|discriminate]; injection E as <-; eapply G0; reflexivity);
    simpl in E.
  - injection E as <-. eapply G; reflexivity.
  - destruct (clone_list _ _ _ _ _) as [s|e]; simpl in E; [|discriminate]. injection E as <-. eapply G; reflexivity.
  - destruct (conv_list _ _ _ _ _ _) as [s|e]; simpl in E; [|discriminate]. injection E as <-. eapply G; reflexivity.
  - destruct (_ && _); [|discriminate]. injection E as <-. eapply G; reflexivity.
  - injection E as <-. eapply G; reflexivity.
Qed.

(* ---- histories ---- *)
(* every operation of the history, in the world it is executed in, writes outside the protected set P *)
Fixpoint avoids (P : nat -> Prop) (w : SW) (ops : list sop) : Prop :=
  match ops with
  | [] => True
  | o :: r => (forall q, In q (swrites w o) -> ~ P q) /\
              match sstep F r32 w o with Ok w' => avoids P w' r | Panic _ => True end
  end.

Lemma srun_frame P ops : forall (w w' : SW), avoids P w ops -> srun F r32 w ops = Ok w' ->
  forall q, P q -> w_st w' q = w_st w q.
Proof.
  induction ops as [|o r IH]; intros w w' Av E q Pq; simpl in *.
  - injection E as <-. reflexivity.
  - destruct Av as [Av1 Av2]. destruct (sstep F r32 w o) as [w1|e] eqn:S1; simpl in E; [|discriminate].
    rewrite (IH w1 w' Av2 E q Pq). apply (sstep_frame w w1 o S1). intro X. exact (Av1 q X Pq).
Qed.

(* world invariant: every element of every vector lies below the allocation pointer *)
Definition wfw (w : SW) : Prop := forall t a, In a (getv w t) -> a < w_next w.

(* the invariant holds initially and is kept by every operation: it holds in every reachable world *)
Lemma wfw_init : wfw (sinit F).
Proof. intros t a I. unfold getv, sinit in I. simpl in I. destruct t; destruct I. Qed.
Lemma getv_addv_cases (w : SW) s n v t a : In a (getv (addv w s n v) t) -> In a (getv w t) \/ In a v.
Proof.
  unfold getv, addv. simpl. intros I. destruct (Nat.lt_ge_cases t (length (w_vecs w))) as [L|L].
  - rewrite app_nth1 in I by exact L. left. exact I.
  - rewrite app_nth2 in I by exact L. destruct (t - length (w_vecs w)) as [|[|k]]; simpl in I; [right; exact I| destruct I | destruct I].
Qed.
Lemma sstep_wfw (w w' : SW) o : wfw w -> sstep F r32 w o = Ok w' -> wfw w'.
Proof.
  intros W E.
  assert (G0 : forall s, w' = mkSW s (w_next w) (w_vecs w) -> wfw w').
  { intros s ->. intros t a I. exact (W t a I). }
  assert (G : forall s n v, (forall a, In a v -> a < w_next w + n) -> w' = addv w s n v -> wfw w').
  { intros s n v Hv ->. intros t a I. simpl. destruct (getv_addv_cases w s n v t a I) as [X|X]; [specialize (W t a X); lia | apply Hv; exact X]. }
  destruct o;
    try (unfold sstep in E; destruct (compile w _) as [p|]; [|discriminate];
         destruct (run F r32 p (w_st w)) as [s|e]; simpl in E; [|discriminate]; injection E as <-; eapply G0; reflexivity);
    simpl in E.
  - injection E as <-. eapply G; [|reflexivity]. intros a I. apply in_seq in I. lia.
  - destruct (clone_list _ _ _ _ _) as [s|e]; simpl in E; [|discriminate]. injection E as <-.
    eapply G; [|reflexivity]. intros a I. apply in_seq in I. lia.
  - destruct (conv_list _ _ _ _ _ _) as [s|e]; simpl in E; [|discriminate]. injection E as <-.
    eapply G; [|reflexivity]. intros a I. apply in_seq in I. lia.
  - destruct (_ && _); [|discriminate]. injection E as <-. eapply G; [|reflexivity].
    intros a I. apply In_firstn in I. apply In_skipn' in I. specialize (W t a I). lia.
  - injection E as <-. eapply G; [|reflexivity]. intros a I. apply in_app_or in I. destruct I as [I|I]; [specialize (W t a I)|specialize (W u a I)]; lia.
Qed.
Lemma srun_wfw ops : forall (w w' : SW), wfw w -> srun F r32 w ops = Ok w' -> wfw w'.
Proof.
  induction ops as [|o r IH]; intros w w' W E; simpl in E.
  - injection E as <-. exact W.
  - destruct (sstep F r32 w o) as [w1|e] eqn:S1; simpl in E; [|discriminate].
    apply (IH w1 w' (sstep_wfw w w1 o W S1) E).
Qed.

(* ---- Clone of a vector ---- *)
Definition copy_op (o : sop) : option (nat * (Reg A -> kind)) :=
  match o with SClone t => Some (t, @rk A) | SConv k t => Some (t, fun _ => k) | _ => None end.
Lemma clone_vec_fresh (w : SW) o t kf : copy_op o = Some (t, kf) -> wfw w ->
  exists w', sstep F r32 w o = Ok w' /\
    let u := length (w_vecs w) in
    getv w' u = seq (w_next w) (length (getv w t)) /\
    (forall a, In a (getv w' u) -> ~ In a (getv w t)) /\                       (* footprints disjoint *)
    (forall a, In a (getv w' u) -> forall t' b, In b (getv w t') -> a <> b) /\  (* ... from every existing object *)
    (forall q, q < w_next w -> w_st w' q = w_st w q) /\                        (* nothing existing is written *)
    (forall i, i < length (getv w t) ->
       w_st w' (nth i (getv w' u) 0) = copy_of F r32 (kf (w_st w (nth i (getv w t) 0))) (w_st w (nth i (getv w t) 0))).
Proof.
  intros CO W.
  destruct (conv_list_spec kf (getv w t) (w_next w) (w_st w) (W t)) as (s' & E & Oth & Cp).
  assert (ST : sstep F r32 w o = bind (conv_list F r32 kf (getv w t) (w_next w) (w_st w))
                 (fun s => Ok (addv w s (length (getv w t)) (seq (w_next w) (length (getv w t)))))).
  { destruct o; try discriminate; simpl in CO; injection CO as <- <-; reflexivity. }
  rewrite ST, E. simpl. eexists. split; [reflexivity|]. simpl.
  assert (U : getv (addv w s' (length (getv w t)) (seq (w_next w) (length (getv w t)))) (length (w_vecs w))
              = seq (w_next w) (length (getv w t))).
  { unfold getv, addv. simpl. rewrite app_nth2, Nat.sub_diag by lia. reflexivity. }
  rewrite U. split; [reflexivity|]. split; [|split; [|split]].
  - intros a Ia Ib. apply in_seq in Ia. specialize (W t a Ib). lia.
  - intros a Ia t' b Ib ->. apply in_seq in Ia. specialize (W t' b Ib). lia.
  - intros q Lq. apply Oth. intro X. apply in_seq in X. lia.
  - intros i Li. rewrite seq_nth by exact Li. apply Cp. exact Li.
Qed.

(* the clone observes like the source *)
Lemma clone_vec_obs (w w' : SW) o t kf : copy_op o = Some (t, kf) -> wfw w -> sstep F r32 w o = Ok w' ->
  (forall a, In a (getv w t) -> rnd_fixes F r32 (kf (w_st w a)) (w_st w a)) ->
  obs_vec F (w_st w') (getv w' (length (w_vecs w))) = obs_vec F (w_st w) (getv w t).
Proof.
  intros CO W E Fx. destruct (clone_vec_fresh w o t kf CO W) as (w2 & E2 & U & _ & _ & _ & Cp). rewrite E in E2. injection E2 as <-.
  cbv zeta in U, Cp. unfold obs_vec. apply nth_ext with (d := obs_reg F (w_st w' 0)) (d' := obs_reg F (w_st w 0)).
  - rewrite !map_length, U, seq_length. reflexivity.
  - intros i Li. rewrite map_length, U, seq_length in Li.
    rewrite (map_nth (fun k => obs_reg F (w_st w' k)) _ 0), (map_nth (fun k => obs_reg F (w_st w k)) _ 0).
    rewrite (Cp i Li). apply copy_of_obs_eq. apply Fx. apply nth_In. exact Li.
Qed.

(* ---- reference views: Slice and Append hand out the SAME element objects ---- *)
Lemma slice_aliases (w w' : SW) t i j : sstep F r32 w (SSlice t i j) = Ok w' ->
  w_st w' = w_st w /\
  forall p, p < j - i -> nth p (getv w' (length (w_vecs w))) 0 = nth (i + p) (getv w t) 0.
Proof.
  simpl. destruct ((i <=? j) && (j <=? length (getv w t))) eqn:G; [|discriminate]. intros E. injection E as <-.
  split; [reflexivity|]. intros p Lp. unfold getv at 1, addv. simpl. rewrite app_nth2, Nat.sub_diag by lia. simpl.
  rewrite nth_firstn_lt by exact Lp. rewrite nth_skipn_add. reflexivity.
Qed.
Lemma append_aliases (w w' : SW) t u : sstep F r32 w (SAppend t u) = Ok w' ->
  w_st w' = w_st w /\ getv w' (length (w_vecs w)) = getv w t ++ getv w u.
Proof.
  simpl. intros E. injection E as <-. split; [reflexivity|]. unfold getv at 1, addv. simpl.
  rewrite app_nth2, Nat.sub_diag by lia. reflexivity.
Qed.

End W.
