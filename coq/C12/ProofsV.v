(* C12/ProofsV.v — sparse vectors: the C12 statements on C11's heap model, assembled from C11's lemmas. *)
From Coq Require Import ZArith List Bool Lia Sorted.
From ADV Require Import C11.Model C11.Spec C11.Dense C11.ProofsInv C11.ProofsRef C11.ProofsD2 C11.ProofsShare.
Import ListNotations.
Open Scope Z_scope.

(* Clone: every cell of the copy is allocated by the call (so it is disjoint from the cells of every vector
   that existed), the old heap is a prefix of the new one (nothing existing is written), and the copy
   observes like the source: same dense list, same dimension; even the private index is the same key set *)
Lemma sparse_clone_fresh h v : Inv v -> Wf h v ->
  (forall l, In l (cells_of (snd (clone h v))) -> (length h <= l)%nat) /\
  (exists e, fst (clone h v) = h ++ e) /\
  abs (fst (clone h v)) (snd (clone h v)) = abs h v /\
  idx (snd (clone h v)) = idx v /\ dim (snd (clone h v)) = dim v /\
  Inv (snd (clone h v)) /\ Wf (fst (clone h v)) (snd (clone h v)).
Proof.
  intros I W. destruct (Wf_clone h v I W) as [W' Fr]. destruct (clone_idx_dim h v) as [Ei Ed].
  split; [exact Fr|]. split; [apply clone_heap; assumption|]. split; [apply clone_abs; assumption|].
  split; [exact Ei|]. split; [exact Ed|]. split; [apply Inv_clone; exact I | exact W'].
Qed.

(* the iterator exception: a complete ConstIterator loop over a (read-only) sparse vector may change its
   REPRESENTATION (skip() drops stored zeros and value-less index keys) but never what it observes *)
Lemma iterate_keeps_obs h v : Inv v ->
  exists v1 s, iterate h v = Some (v1, s) /\ abs h v1 = abs h v /\ dim v1 = dim v /\ Inv v1.
Proof.
  intros I. destruct (iterate_visits h v I) as (v1 & s & E & _ & _ & A & D & I1). exists v1, s. auto.
Qed.
(* ... and it does change the representation: a stored zero is removed from the map and from the index *)
Lemma iterate_changes_representation :
  let h := [0; 5] in let v := {| vals := [(1, 0%nat); (3, 1%nat)]; idx := [1; 3]; dim := 4 |} in
  Inv v /\ exists v1 s, iterate h v = Some (v1, s) /\ idx v1 = [3] /\ vals v1 = [(3, 1%nat)] /\ abs h v1 = abs h v.
Proof.
  cbv zeta. split.
  - unfold Inv; cbn [vals idx dim]. split; [|split; [|split; [|split]]].
    + repeat constructor; simpl; lia.
    + repeat constructor; simpl; intuition discriminate.
    + intros k l X. unfold lookup in X. destruct (Z.eq_dec k 1) as [->|N1]; [left; reflexivity|]. destruct (Z.eq_dec k 3) as [->|N3]; [right; left; reflexivity|].
      exfalso. apply Z.eqb_neq in N1, N3. rewrite Z.eqb_sym in N1. rewrite Z.eqb_sym in N3. rewrite N1, N3 in X. discriminate X.
    + intros k [<-|[<-|[]]]; lia.
    + lia.
  - eexists. eexists. split; [vm_compute; reflexivity|]. split; [reflexivity|]. split; reflexivity.
Qed.
