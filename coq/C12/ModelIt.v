(* C12/ModelIt.v — ITERATOR objects and their clones (round 5, additive).

   A plain iterator (Dense*/Sparse* Vector/Matrix Iterator) is a heap OBJECT holding a cursor; what matters of the
   cursor is the stream it will still deliver: the list (index, element) from the current position on — every
   position for a dense vector, the non-null positions for a dense matrix (Next skips nullScalar), the stored
   non-null entries for the sparse containers (matrix indices linearised row-major, as the iterators order them).
   The containers themselves are not written while the iterators of a history live.

   A JOINT iterator (the 8 kinds  {Dense,Sparse}{Float,Real}{Vector,Matrix}JointIterator  share this code) holds two
   POINTERS it1, it2 to plain iterator objects and the fields idx, s1, s2, ok:

     Next():  ok1 := it1.Ok(); ok2 := it2.Ok(); s1 = nil; s2 = nil
              if ok1 { idx = it1.Index(); s1 = it1.GET() }
              if ok2 { switch { case idx > it2.Index() || !ok1: idx = it2.Index(); s1 = nil; s2 = it2.GetConst()
                                case idx == it2.Index():        s2 = it2.GetConst() } }
              ok = s1 != nil || s2 != nil                      (dense matrices: Ok() = s1 non-zero || s2 non-zero)
              if s1 != nil { it1.Next() };  if s2 != nil { it2.Next() } else { s2 = ConstFloat64(0.0) }

     Clone(): r.it1 = it1.Clone(); r.it2 = it2.CloneConstIterator(); copy idx, s1, s2, ok        (two NEW objects)

   The regression class of round 5 is [clone_share2]: the clone keeps the source's it2 pointer.
   No proofs in this file. *)
From Coq Require Import ZArith List Bool Arith.
Import ListNotations.

Section It.
Context {A : Type} (zero : A) (isnull : A -> bool).

Definition stream := list (Z * A).
Definition iheap := list stream.                    (* plain iterator objects by id *)

Record joint := mkJ { j1 : nat; j2 : nat; jidx : Z; js1 : option A; js2 : A; jok : bool; jdm : bool }.
Inductive iter := IP (id : nat) | IJ (j : joint).

Definition ids (it : iter) : list nat := match it with IP i => [i] | IJ j => [j1 j; j2 j] end.

Fixpoint set_nth {X} (l : list X) (n : nat) (x : X) : list X :=
  match l, n with
  | [], _ => []
  | _ :: r, 0 => x :: r
  | y :: r, S n' => y :: set_nth r n' x
  end.

(* the stream a NEW iterator on a container reading [vals] delivers from linear index [from] on:
   every position of a dense vector, the non-null positions of every other container *)
Fixpoint stream_at (densevec : bool) (vals : list A) (p : Z) : stream :=
  match vals with
  | [] => []
  | x :: r => if densevec || negb (isnull x) then (p, x) :: stream_at densevec r (p + 1)%Z else stream_at densevec r (p + 1)%Z
  end.
Definition stream_of (densevec : bool) (vals : list A) (from : Z) : stream :=
  filter (fun e => (from <=? fst e)%Z) (stream_at densevec vals 0%Z).

(* ---- the resolved state of an iterator: everything its future behaviour depends on *)
Inductive view :=
| VP (s : stream)
| VJ (s1 s2 : stream) (idx : Z) (v1 : option A) (v2 : A) (ok dm : bool).

Definition view_of (h : iheap) (it : iter) : view :=
  match it with
  | IP i => VP (nth i h [])
  | IJ j => VJ (nth (j1 j) h []) (nth (j2 j) h []) (jidx j) (js1 j) (js2 j) (jok j) (jdm j)
  end.

Definition present {X} (o : option X) : bool := match o with Some _ => true | None => false end.

(* Next() on the resolved state *)
Definition vnext (v : view) : view :=
  match v with
  | VP s => VP (tl s)
  | VJ s1 s2 idx _ _ _ dm =>
      let ok1 := match s1 with [] => false | _ => true end in
      let '(idx, v1) := match s1 with (i, x) :: _ => (i, Some x) | [] => (idx, None) end in
      let '(idx, v1, v2) :=
        match s2 with
        | (i2, y) :: _ =>
            if (idx >? i2)%Z || negb ok1 then (i2, None, Some y)
            else if (idx =? i2)%Z then (idx, v1, Some y) else (idx, v1, None)
        | [] => (idx, v1, None)
        end in
      let ok := present v1 || present v2 in
      VJ (if present v1 then tl s1 else s1) (if present v2 then tl s2 else s2) idx v1
         (match v2 with Some y => y | None => zero end) ok dm
  end.

(* what the public API shows: Ok(), Index(), the element(s) *)
Definition vobs (v : view) : bool * Z * option A * A :=
  match v with
  | VP [] => (false, 0%Z, None, zero)
  | VP ((i, x) :: _) => (true, i, Some x, zero)
  | VJ _ _ idx v1 v2 ok dm =>
      ((if dm then (match v1 with Some x => negb (isnull x) | None => false end) || negb (isnull v2) else ok), idx, v1, v2)
  end.

(* ---- the same on the heap of iterator objects *)
Definition inext (h : iheap) (it : iter) : iheap * iter :=
  match it with
  | IP i => (set_nth h i (tl (nth i h [])), it)
  | IJ j =>
      match vnext (view_of h it) with
      | VJ s1 s2 idx v1 v2 ok dm => (set_nth (set_nth h (j1 j) s1) (j2 j) s2, IJ (mkJ (j1 j) (j2 j) idx v1 v2 ok dm))
      | VP _ => (h, it)
      end
  end.

Definition iclone (h : iheap) (it : iter) : iheap * iter :=
  match it with
  | IP i => (h ++ [nth i h []], IP (length h))
  | IJ j => (h ++ [nth (j1 j) h []; nth (j2 j) h []],
             IJ (mkJ (length h) (S (length h)) (jidx j) (js1 j) (js2 j) (jok j) (jdm j)))
  end.
(* the regression: the clone shares the second operand's iterator object *)
Definition clone_share2 (h : iheap) (it : iter) : iheap * iter :=
  match it with
  | IP i => (h ++ [nth i h []], IP (length h))
  | IJ j => (h ++ [nth (j1 j) h []], IJ (mkJ (length h) (j2 j) (jidx j) (js1 j) (js2 j) (jok j) (jdm j)))
  end.

(* ---- worlds and histories *)
Inductive iop :=
| INew (s : stream)                       (* v.Iterator() / ConstIterator() / IteratorFrom *)
| INewJ (dm : bool) (s1 s2 : stream)      (* a.JointIterator(b): two new plain iterators, then Next() *)
| INext (k : nat)
| IClone (k : nat).

Definition iworld := (iheap * list iter)%type.
Definition idummy : iter := IP 0.

Definition istep (w : iworld) (o : iop) : iworld :=
  let '(h, its) := w in
  match o with
  | INew s => (h ++ [s], its ++ [IP (length h)])
  | INewJ dm s1 s2 =>
      let h1 := h ++ [s1; s2] in
      let '(h2, it) := inext h1 (IJ (mkJ (length h) (S (length h)) (-1)%Z None zero false dm)) in
      (h2, its ++ [it])
  | INext k =>
      if Nat.ltb k (length its) then
        let '(h', it') := inext h (nth k its idummy) in (h', set_nth its k it')
      else w
  | IClone k =>
      if Nat.ltb k (length its) then
        let '(h', it') := iclone h (nth k its idummy) in (h', its ++ [it'])
      else w
  end.
Definition irun (w : iworld) (ops : list iop) : iworld := fold_left istep ops w.
Definition iobs (w : iworld) (k : nat) := vobs (view_of (fst w) (nth k (snd w) idummy)).
Definition nexts_of (k : nat) (ops : list iop) : nat :=
  length (filter (fun o => match o with INext k' => Nat.eqb k k' | _ => false end) ops).

End It.
