(* C12/ModelId.v — SLICE IDENTITIES on top of C01's register file (additive; round 3).

   C01's register file gives every scalar object value semantics: a register holds its derivative list and
   its Hessian rows BY VALUE.  That is faithful to the Go code only as long as no two live scalars share the
   backing array of  Derivative , of the outer  Hessian  slice or of one Hessian ROW.  This file makes the
   identities explicit: every register additionally maps to the ids of its slices

        ir_d  id of the backing array of  Derivative        (None: nil or empty)
        ir_o  id of the backing array of  Hessian            (the [][]float64 of row headers)
        ir_h  ids of the backing arrays of the rows  Hessian[0..n-1]

   and the only place of scalar_real_template.in that creates or drops slices is  Alloc(n, order) :

        if a.N != n || a.Order != order {                         -- otherwise NOTHING happens: ids are kept
          if order >= 1 { a.Derivative = make(n)                  -- fresh
                          if order >= 2 { a.Hessian = make(n); a.Hessian[i] = make(n) }   -- fresh outer, fresh rows
                          else          { a.Hessian = nil } }
          else          { a.Derivative = nil }                    -- the (stale) Hessian stays attached
        }

   Every instruction of C01's table reaches storage only through Alloc (AllocForOne / AllocForTwo / Set / SET /
   SetVariable) followed by ELEMENT-WISE stores, so the identities after an instruction are: for every register
   the instruction writes, KEEP the ids when (N, Order) did not change and take FRESH ones (never seen before,
   in particular never an operand's) otherwise.  [id_exec] is exact for all instructions that call Alloc at most
   once per written register (IMon, IDy, IPow, ISet, IReset, ISetF, ISetVar, IMin, IMax, IAbs, IABSc and the
   operand-copying short cuts of ILogAdd / ILogSub) and for the reductions whose receiver only grows
   (IVmean, IVdotV, IMtrace: AllocForTwo(r, x) is monotone in N and Order).

   The correspondence (CorrI.v) compares, after every operation of a stream-S history, the identities the model
   predicts with the ADDRESSES of the real backing arrays (reflection on the exported fields), up to a
   bijection that is threaded through the whole history.  No proofs in this file. *)
From Coq Require Import ZArith List Bool Arith.
From ADV Require Import Base.Fl C01.Model C12.ModelS.
Import ListNotations.

Record IdReg := mkIR { ir_d : option nat; ir_o : option nat; ir_h : list nat }.
Definition ir_none : IdReg := mkIR None None [].
Definition olist (o : option nat) : list nat := match o with Some k => [k] | None => [] end.
(* the slice part of the footprint of a scalar *)
Definition ir_ids (r : IdReg) : list nat := olist (ir_d r) ++ olist (ir_o r) ++ ir_h r.

Record IW := mkIW { iw_ids : nat -> IdReg; iw_next : nat }.
Definition iinit : IW := mkIW (fun _ => ir_none) 0.

(* Alloc(n, order) on a scalar that has (n0, o0): the new identities and the next unused id *)
Definition id_alloc (ir : IdReg) (n0 o0 n o : nat) (next : nat) : IdReg * nat :=
  if Nat.eqb n0 n && Nat.eqb o0 o then (ir, next)
  else if 1 <=? o then
    if Nat.eqb n 0 then (ir_none, next)                      (* make(.., 0): no backing array *)
    else if 2 <=? o then (mkIR (Some next) (Some (S next)) (seq (S (S next)) n), S (S next) + n)
    else (mkIR (Some next) None [], S next)
  else (mkIR None (ir_o ir) (ir_h ir), next).

Definition iupd (f : nat -> IdReg) (c : nat) (r : IdReg) : nat -> IdReg := fun q => if Nat.eqb q c then r else f q.

Section I.
Context {A : Type} (F : Fl A) (r32 : A -> A).

(* identities of register c after a step that took the register file from s to s' *)
Definition id_upd (s s' : @St A) (iw : IW) (c : nat) : IW :=
  let p := id_alloc (iw_ids iw c) (rn (s c)) (rorder (s c)) (rn (s' c)) (rorder (s' c)) (iw_next iw) in
  mkIW (iupd (iw_ids iw) c (fst p)) (snd p).

Definition id_exec (i : instr A) (si : @St A * IW) : res (@St A * IW) :=
  bind (exec F r32 i (fst si)) (fun s' => Ok (s', fold_left (id_upd (fst si) s') (nodup Nat.eq_dec (writes i)) (snd si))).

Fixpoint id_run (p : list (instr A)) (si : @St A * IW) : res (@St A * IW) :=
  match p with
  | [] => Ok si
  | i :: r => bind (id_exec i si) (id_run r)
  end.

(* a brand-new object (NewReal64(v); Clone = NewReal64(0.0) then Set): no slices yet *)
Definition id_new (iw : IW) (cs : list nat) : IW :=
  mkIW (fold_left (fun f c => iupd f c ir_none) cs (iw_ids iw)) (iw_next iw).

(* Clone / As-conversion of the elements ids into c, c+1, ...: NewReal(0.0) + Set per element *)
Fixpoint id_conv_list (kf : Reg A -> kind) (ids : list nat) (c : nat) (si : @St A * IW) : res (@St A * IW) :=
  match ids with
  | [] => Ok si
  | a :: r =>
      let s0 := upd (fst si) c (null_reg F (kf (fst si a))) in
      bind (conv_reg F r32 (kf (fst si a)) c a (fst si))
           (fun s' => id_conv_list kf r (S c) (s', id_upd s0 s' (id_new (snd si) [c]) c))
  end.

(* one operation of the world of ModelS, with identities *)
Definition id_sstep (w : SW A) (iw : IW) (o : sop A) : res (SW A * IW) :=
  match o with
  | SNew _ vals => bind (sstep F r32 w o) (fun w' => Ok (w', id_new iw (seq (w_next w) (length vals))))
  | SClone t =>
      bind (sstep F r32 w o) (fun w' =>
      bind (id_conv_list (@rk A) (getv w t) (w_next w) (w_st w, iw)) (fun si => Ok (w', snd si)))
  | SConv k t =>
      bind (sstep F r32 w o) (fun w' =>
      bind (id_conv_list (fun _ => k) (getv w t) (w_next w) (w_st w, iw)) (fun si => Ok (w', snd si)))
  | SSlice _ _ _ | SAppend _ _ => bind (sstep F r32 w o) (fun w' => Ok (w', iw))
  | _ =>
      match compile w o with
      | None => Panic EDiffN
      | Some p => bind (id_run p (w_st w, iw)) (fun si => Ok (mkSW (fst si) (w_next w) (w_vecs w), snd si))
      end
  end.

Fixpoint id_srun (w : SW A) (iw : IW) (ops : list (sop A)) : res (SW A * IW) :=
  match ops with
  | [] => Ok (w, iw)
  | o :: r => bind (id_sstep w iw o) (fun wi => id_srun (fst wi) (snd wi) r)
  end.

(* ---- the seeded regression, as a model:  SET with  copy(a.Hessian, b.Hessian)  takes the operand's ROW ids *)
Definition id_set_shared (c b : nat) (s s' : @St A) (iw : IW) : IW :=
  let iw1 := id_upd s s' iw c in
  if 2 <=? rorder (s' c)
  then mkIW (iupd (iw_ids iw1) c (mkIR (ir_d (iw_ids iw1 c)) (ir_o (iw_ids iw1 c)) (ir_h (iw_ids iw1 b)))) (iw_next iw1)
  else iw1.

End I.

(* the instructions that may COPY an operand into the receiver (SET / Set inside) *)
Definition copying {A} (i : instr A) : option (nat * list (opd A)) :=
  match i with
  | ISet c b => Some (c, [b])
  | IMin c a b | IMax c a b => Some (c, [a; b])
  | IAbs c a | IABSc c a => Some (c, [a])
  | ILogAdd c a b _ | ILogSub c a b _ => Some (c, [a; b])
  | _ => None
  end.
