(* C12/Spec.v — what "copies are independent, read-only inputs unchanged" says, per object family.

   FOOTPRINT of an object = the storage it can reach:
     scalar                      its register id                       (ModelS / C01 register file)
     dense vector of scalars     the register ids of its elements       (ModelS: [getv w t])
     dense matrix                the location of its storage            (ModelM / C10 heap: [d_values m])
     sparse vector               the heap cells of its stored entries   (C11: [cells_of v]); its private map and
                                 index are part of the vector value itself (no pointer to them is shared)
   OBSERVATION of an object = what the public read API returns:
     scalar: value, order, N, every derivative and Hessian entry ([obs_reg]);  vectors: that per element
     ([obs_vec]);  dense matrix: dimensions, view shape, every element ([obs_mat]);  sparse vector: the dense
     list of its elements ([C11.Spec.abs]).

   The property, as theorems of Props.v:
   (1) clone_fresh   a copy has a footprint disjoint from every existing footprint and observes like its source;
   (2) frame         an operation writes only inside the footprint of its receiver (plus the temporaries it names /
                     objects it allocates); hence ANY history of operations on one copy leaves the other unchanged;
   (3) readonly      an operand that is not the receiver is left unchanged — with the explicit exception that
                     iterating a sparse operand (skip()) changes its REPRESENTATION, never its observation;
   (4) entry points  without InSitu the caller's storage is never written, with it only the named buffer is.
   Reference views (Slice, T, Append sharing elements) are NOT copies: their footprint is the parent's. *)
From Coq Require Import List.
Import ListNotations.

(* two footprints given as lists of locations *)
Definition disjoint {X} (a b : list X) : Prop := forall x, In x a -> ~ In x b.
