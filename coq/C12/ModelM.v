(* C12/ModelM.v — a WORLD of dense matrices over the storage heap of C10/Model.v,
   and the generic entry-point wrapper of the algorithm packages.

   A matrix object is C10's header [mat] (regenerated from /repo by go2coq_c10)
   whose [d_values] is the location of its storage in the heap; Slice /
   ConstSlice / T make a new header over the SAME location (reference views),
   Clone / CloneMatrix / AsDenseXMatrix of the same type copy the WHOLE storage
   of the parent into a fresh location and keep the view header, New allocates.
   All element accesses, loops and the aliasing test of MdotM are C10's
   definitions ([mSET], [mSet], [mEw], [mMdotM], [mSwap] ...), so this file adds
   only the handle table and the allocation discipline.  Carrier Z (the
   harness uses small integers, exact in float64 and in Real64 values).

   Not modelled here: derivatives of Real64 elements (ModelS.v covers scalars
   and vectors of them), the scratch vectors tmp1/tmp2 of Real matrices (written
   before they are read inside one MdotM call), Tip.  No proofs in this file. *)
From Coq Require Import ZArith List Bool.
From ADV Require Import C10.Gen C10.Model.
Import ListNotations.
Open Scope Z_scope.

Record MW := mkMW { m_heap : heap; m_mats : list mat }.
Definition getm (w : MW) (t : nat) : mat := nth t (m_mats w) (new_mat 0 0 0).
Definition minit : MW := mkMW [] [].

Inductive mop :=
| MNew (rows cols : Z) (vals : list Z)         (* NewDenseXMatrix(vals, rows, cols), len vals = rows*cols *)
| MClone (t : nat)                             (* Clone / CloneMatrix / AsDenseXMatrix (same type) *)
| MView (t : nat) (v : vc)                     (* Slice / ConstSlice / T: same storage *)
| MSetAt (t : nat) (i j v : Z)                 (* m.At(i,j).SetFloat64(v) *)
| MReset (t : nat)
| MSetIdentity (t : nat)
| MSet (t u : nat)                             (* t.Set(u) *)
| MEw (f : Z) (r a b : nat)                    (* r.MaddM / MsubM / MmulM (a, b), f = 0 / 1 / 2 *)
| MMdotM (r a b : nat)
| MSwap (t : nat) (i1 j1 i2 j2 : Z)
| MSwapRows (t : nat) (i j : Z)
| MSwapCols (t : nat) (i j : Z).

Definition slice_ok (real : bool) (m : mat) (v : vc) : bool :=
  let '(n, k) := k_dims real m in
  match v with
  | VSlice a b c d | VCSlice a b c d => (0 <=? a) && (a <=? b) && (b <=? n) && (0 <=? c) && (c <=? d) && (d <=? k)
  | VT => true
  end.

Definition addm (w : MW) (H : heap) (m : mat) : MW := mkMW H (m_mats w ++ [m]).
Definition seth (w : MW) (H : heap) : MW := mkMW H (m_mats w).

Definition mstep (real : bool) (w : MW) (o : mop) : R MW :=
  let H := m_heap w in
  match o with
  | MNew rows cols vals =>
      if negb (zlen vals =? rows * cols) || (rows <? 0) || (cols <? 0) then RPanic else
      let '(H', l) := alloc H vals in ROk (addm w H' (new_mat l rows cols))
  | MClone t => let '(H', c) := mClone H (getm w t) in ROk (addm w H' c)
  | MView t v => if slice_ok real (getm w t) v then ROk (addm w H (apply1 real (getm w t) v)) else RPanic
  | MSetAt t i j v => H' <- mSET real H (getm w t) i j v ;; ROk (seth w H')
  | MReset t => H' <- mReset real H (getm w t) ;; ROk (seth w H')
  | MSetIdentity t => H' <- mSetIdentity real H (getm w t) ;; ROk (seth w H')
  | MSet t u => H' <- mSet real H (getm w t) (getm w u) ;; ROk (seth w H')
  | MEw f r a b => H' <- mEw real f H (getm w r) (getm w a) (getm w b) ;; ROk (seth w H')
  | MMdotM r a b => H' <- mMdotM real H (getm w r) (getm w a) (getm w b) ;; ROk (seth w H')
  | MSwap t i1 j1 i2 j2 => H' <- mSwap real H (getm w t) i1 j1 i2 j2 ;; ROk (seth w H')
  | MSwapRows t i j => '(H', _) <- mSwapRows real H (getm w t) i j ;; ROk (seth w H')
  | MSwapCols t i j => '(H', _) <- mSwapCols real H (getm w t) i j ;; ROk (seth w H')
  end.

Fixpoint mrun (real : bool) (w : MW) (ops : list mop) : R MW :=
  match ops with
  | [] => ROk w
  | o :: r => w' <- mstep real w o ;; mrun real w' r
  end.

(* the storage location an operation may write (its receiver's), None: it writes nothing that exists *)
Definition mwrites (w : MW) (o : mop) : option nat :=
  match o with
  | MNew _ _ _ | MClone _ | MView _ _ => None
  | MSetAt t _ _ _ | MReset t | MSetIdentity t | MSet t _ | MSwap t _ _ _ _ | MSwapRows t _ _ | MSwapCols t _ _ => Some (d_values (getm w t))
  | MEw _ r _ _ | MMdotM r _ _ => Some (d_values (getm w r))
  end.

(* what is observed of a matrix: dimensions, view shape, every element *)
Definition obs_mat (real : bool) (H : heap) (m : mat) : list Z * option (list Z) :=
  (hdr_list m, opt_of (read_all real H m)).

(* ------------------------------------------------------------------ entry points *)
(* The shape every algorithm entry point with an InSitu option has
   (matrixInverse, cholesky, determinant, eigensystem, qrAlgorithm, svd, hessenbergReduction, ...):

      if inSitu.A == nil { inSitu.A = a.CloneMatrix() } else { inSitu.A.Set(a) }     -- per buffer
      ... the algorithm proper works on the buffers (and on objects it allocates itself) ...

   [body] is the algorithm proper: ANY computation that writes existing storage only through the
   locations of the work matrices it is handed (it may allocate).  That side condition is [body_frames]
   in Spec.v; every in-place algorithm written with At(i,j).Set / the operations of [mstep] on its
   buffers satisfies it (ProofsM: [mrun] on receivers among the buffers does). *)
Definition entry (real : bool) (body : heap -> mat -> R heap) (H : heap) (a : mat) (buf : option mat) : R (heap * mat) :=
  match buf with
  | None => let '(H1, w) := mClone H a in H2 <- body H1 w ;; ROk (H2, w)
  | Some b => H1 <- mSet real H b a ;; H2 <- body H1 b ;; ROk (H2, b)
  end.
