(* C12/ProofsCtor.v — proofs about ModelCtor.v (round 7). *)
From Coq Require Import List Bool Arith Lia.
From ADV Require Import C12.ModelCtor.
Import ListNotations.

Section P.
Context {A : Type}.
Notation heap := (@heap A).
Notation stmt := (@stmt A).

Lemma upd_other (f : loc -> A) l x k : k <> l -> upd f l x k = f k.
Proof. intros H. unfold upd. destruct (Nat.eqb k l) eqn:E; [apply Nat.eqb_eq in E; contradiction | reflexivity]. Qed.

Lemma alloc_spec : forall (xs : list A) (h h' : heap) c,
  alloc h xs = (h', c) ->
  h_next h <= h_next h' /\ (forall l, l < h_next h -> h_val h' l = h_val h l) /\ (forall l, In l c -> h_next h <= l).
Proof.
  induction xs as [|x r IH]; intros h h' c H; simpl in H.
  - inversion H; subst. repeat split; auto. intros l [].
  - destruct (alloc (mkH (S (h_next h)) (upd (h_val h) (h_next h) x)) r) as [h2 c2] eqn:E.
    inversion H; subst. apply IH in E. simpl in E. destruct E as (E1 & E2 & E3).
    repeat split.
    + lia.
    + intros l Hl. rewrite E2 by lia. apply upd_other. lia.
    + intros l [Hl | Hl]; [lia | apply E3 in Hl; lia].
Qed.

Lemma wr_other : forall (c : list loc) (xs : list A) (f : loc -> A) n k,
  (forall l, In l c -> n <= l) -> k < n -> wr f c xs k = f k.
Proof.
  induction c as [|l c IH]; intros xs f n k Hc Hk; simpl; [reflexivity|].
  destruct xs as [|x xs]; [reflexivity|].
  rewrite (IH xs _ n k); [| intros l' Hl'; apply Hc; right; exact Hl' | exact Hk].
  apply upd_other. specialize (Hc l (or_introl eq_refl)). lia.
Qed.

(* the invariant kept by an accepted body started on heap h0 *)
Definition inv (n0 : nat) (v0 : loc -> A) (st : heap * env) (f : list nat) : Prop :=
  n0 <= h_next (fst st) /\
  (forall l, l < n0 -> h_val (fst st) l = v0 l) /\
  (forall x, mem x f = true -> forall l, In l (snd st x) -> n0 <= l).

Lemma mem_cons x y f : mem x (y :: f) = Nat.eqb x y || mem x f.
Proof. reflexivity. Qed.

Lemma mem_rem x d f : mem x (rem d f) = true -> x <> d /\ mem x f = true.
Proof.
  unfold mem, rem. rewrite existsb_exists. intros (y & Hy & E). apply filter_In in Hy. destruct Hy as (Hy & Hn).
  apply Nat.eqb_eq in E. subst y. split.
  - intros ->. rewrite Nat.eqb_refl in Hn. discriminate.
  - apply existsb_exists. exists x. split; [exact Hy | apply Nat.eqb_refl].
Qed.

Lemma fold_none (p : list stmt) : fold_left safe_step p None = None.
Proof. induction p as [|s p IH]; simpl; auto. Qed.

Lemma step_inv n0 v0 st f s f' :
  safe_step (Some f) s = Some f' -> inv n0 v0 st f -> inv n0 v0 (step st s) f'.
Proof.
  intros Hs (I1 & I2 & I3). destruct st as [h e]. simpl in *.
  destruct s as [d s | d s | x g]; simpl in *.
  - inversion Hs; subst f'. destruct (alloc h (rdc h (e s))) as [h' c] eqn:E.
    apply alloc_spec in E. destruct E as (E1 & E2 & E3). unfold inv; simpl. repeat split.
    + lia.
    + intros l Hl. rewrite E2 by lia. apply I2, Hl.
    + intros x Hx l Hl. unfold setv in Hl. destruct (Nat.eqb x d) eqn:Exd.
      * apply E3 in Hl. lia.
      * assert (Hx' : mem x f = true) by (unfold mem in *; simpl in Hx; try rewrite Exd in Hx; exact Hx). eapply I3; eauto.
  - inversion Hs; subst f'. unfold inv; simpl. repeat split; auto.
    intros x Hx l Hl. unfold setv in Hl. destruct (Nat.eqb x d) eqn:Exd.
    + destruct (mem s f) eqn:Ms.
      * eapply I3; eauto.
      * apply mem_rem in Hx. apply Nat.eqb_eq in Exd. destruct Hx; contradiction.
    + destruct (mem s f) eqn:Ms.
      * assert (Hx' : mem x f = true) by (unfold mem in *; simpl in Hx; try rewrite Exd in Hx; exact Hx). eapply I3; eauto.
      * apply mem_rem in Hx. destruct Hx as (_ & Hx). eapply I3; eauto.
  - destruct (mem x f) eqn:Mx; [|discriminate]. inversion Hs; subst f'. unfold inv; simpl. repeat split; auto.
    intros l Hl. rewrite (wr_other _ _ _ n0 l); [apply I2, Hl | intros l' Hl'; eapply I3; eauto | exact Hl].
Qed.

Lemma run_inv n0 v0 : forall (p : list stmt) st f f',
  safe_from f p = Some f' -> inv n0 v0 st f -> inv n0 v0 (run p st) f'.
Proof.
  induction p as [|s p IH]; intros st f f' Hs I; unfold safe_from, run in *; simpl in *.
  - inversion Hs; subst; exact I.
  - change (fold_left safe_step p (safe_step (Some f) s) = Some f') in Hs.
    destruct (safe_step (Some f) s) as [f1|] eqn:E1.
    + eapply IH; [exact Hs | eapply step_inv; eauto].
    + rewrite fold_none in Hs. discriminate.
Qed.

(* MAIN: an accepted body writes no cell that existed at entry and returns only new cells *)
Lemma safe_body_frame_l (p : list stmt) (res : nat) :
  ctor_safe p res = true ->
  forall (h : heap) (e : env),
    (forall l, l < h_next h -> h_val (fst (run p (h, e))) l = h_val h l) /\
    (forall l, In l (snd (run p (h, e)) res) -> h_next h <= l) /\
    h_next h <= h_next (fst (run p (h, e))).
Proof.
  unfold ctor_safe. intros Hs h e. destruct (safe_from [] p) as [f|] eqn:E; [|discriminate].
  assert (I0 : inv (h_next h) (h_val h) (h, e) []).
  { unfold inv; simpl. repeat split; auto. intros x Hx. discriminate. }
  pose proof (run_inv _ _ p _ _ _ E I0) as (J1 & J2 & J3).
  repeat split; auto. intros l Hl. eapply J3; eauto.
Qed.

Lemma rdc_ext (h1 h2 : heap) (c : list loc) :
  (forall l, In l c -> h_val h1 l = h_val h2 l) -> rdc h1 c = rdc h2 c.
Proof. intros H. unfold rdc. apply map_ext_in. exact H. Qed.

(* deep copy, stated on observations: every object that existed at entry (cells below h_next) reads as before;
   afterwards, a heap change confined to old cells is invisible through the result, and a change confined to
   new cells is invisible through every old object *)
Lemma flagged_ctor_deep_copy_l (p : bool -> list stmt) (res : nat) :
  ctor_safe_both p res = true ->
  forall (flag : bool) (h : heap) (e : env) (c : list loc),
    (forall l, In l c -> l < h_next h) ->
    let h' := fst (run (p flag) (h, e)) in
    let r := snd (run (p flag) (h, e)) res in
    rdc h' c = rdc h c /\
    (forall l, In l r -> ~ In l c) /\
    (forall h2 : heap, (forall l, h_next h <= l -> h_val h2 l = h_val h' l) -> rdc h2 r = rdc h' r) /\
    (forall h2 : heap, (forall l, l < h_next h -> h_val h2 l = h_val h' l) -> rdc h2 c = rdc h c).
Proof.
  unfold ctor_safe_both. intros Hs flag h e c Hc. apply andb_true_iff in Hs. destruct Hs as (Ht & Hf).
  assert (Hp : ctor_safe (p flag) res = true) by (destruct flag; assumption).
  destruct (safe_body_frame_l _ _ Hp h e) as (F1 & F2 & F3). cbv zeta.
  repeat split.
  - apply rdc_ext. intros l Hl. apply F1, Hc, Hl.
  - intros l Hl Hl'. apply F2 in Hl. apply Hc in Hl'. lia.
  - intros h2 H2. apply rdc_ext. intros l Hl. apply H2, F2, Hl.
  - intros h2 H2. apply rdc_ext. intros l Hl. rewrite H2 by (apply Hc, Hl). apply F1, Hc, Hl.
Qed.

(* the bodies as coded are accepted, whatever the transformers are *)
Lemma hmm_ctor_coded_safe (logf norm : list A -> list A) : ctor_safe_both (hmm_ctor_coded logf norm) 1 = true.
Proof. reflexivity. Qed.
Lemma bfgs_b0_coded_safe (gauss : list A -> list A) : ctor_safe_both (bfgs_b0_coded gauss) 1 = true.
Proof. reflexivity. Qed.

(* the regressions are rejected on exactly the rarely taken branch *)
Lemma onebranch_rejected (logf norm : list A -> list A) :
  ctor_safe (hmm_ctor_onebranch logf norm false) 1 = true /\ ctor_safe (hmm_ctor_onebranch logf norm true) 1 = false.
Proof. split; reflexivity. Qed.
Lemma regularise_rejected (gauss reg : list A -> list A) :
  ctor_safe (bfgs_b0_regularise gauss reg false) 1 = true /\ ctor_safe (bfgs_b0_regularise gauss reg true) 1 = false.
Proof. split; reflexivity. Qed.

End P.

(* concrete executions: contents are numbers, the caller's vector is cells 0,1 holding 2,6 *)
Definition h0 : @heap nat := mkH 2 (fun l => match l with 0 => 2 | 1 => 6 | _ => 0 end).
Definition e0 : env := fun x => match x with 0 => [0; 1] | _ => [] end.
Definition halve (xs : list nat) : list nat := map (fun x => x / 2) xs.
Definition bump (xs : list nat) : list nat := map S xs.

Lemma coded_keeps_arg_example :
  forall flag, rdc (fst (run (hmm_ctor_coded bump halve flag) (h0, e0))) [0; 1] = [2; 6]
            /\ snd (run (hmm_ctor_coded bump halve flag) (h0, e0)) 1 = [2; 3].
Proof. intros [|]; vm_compute; split; reflexivity. Qed.

Lemma onebranch_refuted_l :
  rdc (fst (run (hmm_ctor_onebranch bump halve false) (h0, e0))) [0; 1] = [2; 6] /\
  rdc (fst (run (hmm_ctor_onebranch bump halve true) (h0, e0))) [0; 1] = [1; 3] /\
  snd (run (hmm_ctor_onebranch bump halve true) (h0, e0)) 1 = [0; 1].
Proof. vm_compute. repeat split; reflexivity. Qed.

Lemma regularise_refuted_l :
  rdc (fst (run (bfgs_b0_regularise halve bump false) (h0, e0))) [0; 1] = [2; 6] /\
  rdc (fst (run (bfgs_b0_regularise halve bump true) (h0, e0))) [0; 1] = [3; 7].
Proof. vm_compute. split; reflexivity. Qed.

Lemma onebranch_refuted_full :
  (forall (A : Type) (logf norm : list A -> list A),
     ctor_safe (hmm_ctor_onebranch logf norm false) 1 = true /\ ctor_safe (hmm_ctor_onebranch logf norm true) 1 = false) /\
  rdc (fst (run (hmm_ctor_onebranch bump halve false) (h0, e0))) [0; 1] = [2; 6] /\
  rdc (fst (run (hmm_ctor_onebranch bump halve true) (h0, e0))) [0; 1] = [1; 3] /\
  snd (run (hmm_ctor_onebranch bump halve true) (h0, e0)) 1 = [0; 1].
Proof. split; [intros A logf norm; apply onebranch_rejected | exact onebranch_refuted_l]. Qed.

Lemma regularise_refuted_full :
  (forall (A : Type) (gauss reg : list A -> list A),
     ctor_safe (bfgs_b0_regularise gauss reg false) 1 = true /\ ctor_safe (bfgs_b0_regularise gauss reg true) 1 = false) /\
  rdc (fst (run (bfgs_b0_regularise halve bump false) (h0, e0))) [0; 1] = [2; 6] /\
  rdc (fst (run (bfgs_b0_regularise halve bump true) (h0, e0))) [0; 1] = [3; 7].
Proof. split; [intros A gauss reg; apply regularise_rejected | exact regularise_refuted_l]. Qed.
