(* C12/ProofsRefuted3.v — the two seeded regressions of round 3, as models, are refuted on concrete instances. *)
From Coq Require Import ZArith List Bool Arith Floats.
From ADV Require Import Base.Fl C01.Model C01.Corr C12.ModelS C12.Corr C12.ModelId C12.ModelJ C12.ProofsId.
Import ListNotations.
Open Scope nat_scope.

(* (1) SET written as  copy(a.Derivative, b.Derivative); copy(a.Hessian, b.Hessian) : the receiver takes the ROW ids of
   the operand.  x := variable 0 of 2 at order 2; y.SET(x): afterwards Hessian[0] of y IS Hessian[0] of x. *)
Definition sh_s1 : res (@St float * IW) := id_run FlP round32 [ISetVar 0 0 2 2] (init_st FlP, iinit).
Definition sh_iw2 : option IW :=
  match sh_s1 with
  | Ok (s1, iw1) => match set_reg FlP round32 1 (Rg 0) s1 with
                    | Ok s2 => Some (id_set_shared 1 0 s1 s2 iw1)
                    | Panic _ => None
                    end
  | Panic _ => None
  end.
Lemma shared_rows_break_invariant_refuted :
  exists iw, sh_iw2 = Some iw /\ exists x, In x (ir_h (iw_ids iw 1)) /\ In x (ir_h (iw_ids iw 0)) /\ ~ iwf iw.
Proof.
  eexists. split; [vm_compute; reflexivity|]. exists 2. split; [left; reflexivity|]. split; [left; reflexivity|].
  intros (_ & _ & DJ). apply (DJ 1 0 ltac:(discriminate) 2); cbn; auto.
Qed.
(* ... while the faithful step keeps the invariant on the same input *)
Lemma faithful_set_keeps_rows_apart :
  exists s iw, id_run FlP round32 [ISetVar 0 0 2 2; ISet 1 (Rg 0)] (init_st FlP, iinit) = Ok (s, iw) /\
               ir_h (iw_ids iw 0) = [2; 3] /\ ir_h (iw_ids iw 1) = [6; 7].
Proof. eexists. eexists. split; [vm_compute; reflexivity|]. split; reflexivity. Qed.

(* (2) nullScalar scanning one triangle WITHOUT the diagonal: the jet of x*x at 0 (value 0, gradient 0, Hessian [[2]]) is
   reported null, skip() drops it, and the observation of slot h[0][0] changes from 2 to 0 *)
Definition diag_jet : Reg float := mkReg K64 0%float 2 1 [0%float] [[2%float]].
Lemma null_triangle_drops_diagonal_jet_refuted :
  null_triangle FlP diag_jet = true /\ null_jet FlP diag_jet = false /\ null_coded FlP diag_jet = false /\
  jiterate (null_triangle FlP) [(3%Z, diag_jet)] = [] /\
  jobs FlP [(3%Z, diag_jet)] 3%Z (SH 0 0) = 2%float /\
  jobs FlP (jiterate (null_triangle FlP) [(3%Z, diag_jet)]) 3%Z (SH 0 0) = 0%float /\
  jiterate (null_coded FlP) [(3%Z, diag_jet)] = [(3%Z, diag_jet)].
Proof. repeat split; vm_compute; reflexivity. Qed.
