(* C12/CorrH.v — correspondence for HISTORIES (stream H): sequences of calls of one algorithm entry point that
   share a caller-owned InSitu struct (and sequences of estimator calls sharing the estimator), evaluated by
   vm_compute.

   The harness reports, per history,
     h_refs   for every completed call k: the storage ids reachable from the persistent struct AFTER the call
              (reflection walk over the struct: every pointer / backing array / map it reaches);
     h_objs   every object the CALLER holds: role, the call index before which he obtained it (born), its storage
              ids, and its full observable state when born and after EVERY later call (bit-exact binary64 lists).
   Roles:  0 input of a call (protected)            1 buffer the caller placed in the struct himself (writable)
           2 documented output argument (writable)  3 object returned by a call that shares no storage with the
           struct (protected from then on)          4 returned object that ALIASES the struct (writable work space,
           reported in the evidence)                5 object retained by design (data handed to SetData: the struct
           may reference it, it must still never be written).
   The check is the two frame conditions of ProofsH.body_ok, evaluated on what was observed:
     F1  every protected object has the same observable state after every later call as when it was born;
     F2  after no call does the struct reach the storage of a protected object (roles 0 and 3; for a returned
         object also right after the call that returned it);
   plus honesty conditions on the report (one snapshot per later call for every protected object; a role-4 object really shares storage with the struct). *)
From Coq Require Import ZArith List Bool Floats Arith.
From ADV Require Import Base.Num Base.Corr.
Import ListNotations.
Open Scope nat_scope.

Record hobj := mkHO { ho_role : nat; ho_born : nat; ho_ids : list nat; ho_snaps : list (list float) }.
Record hcase := mkH { h_entry : nat; h_var : nat; h_refs : list (list nat); h_objs : list hobj }.

Definition hmem (x : nat) (l : list nat) : bool := existsb (Nat.eqb x) l.
Definition hdisj (a b : list nat) : bool := forallb (fun x => negb (hmem x b)) a.

Definition h_protected (o : hobj) : bool := Nat.eqb (ho_role o) 0 || Nat.eqb (ho_role o) 3 || Nat.eqb (ho_role o) 5.
Definition h_noretain (o : hobj) : bool := Nat.eqb (ho_role o) 0 || Nat.eqb (ho_role o) 3.

(* F1 *)
Definition h_unchanged (o : hobj) : bool :=
  match ho_snaps o with
  | [] => false
  | s0 :: r => forallb (fun s => list_eqb feqb s0 s) r
  end.
(* F2: calls k >= from *)
Fixpoint h_refs_from (k from : nat) (refs : list (list nat)) (ids : list nat) : bool :=
  match refs with
  | [] => true
  | r :: rest => (Nat.ltb k from || hdisj ids r) && h_refs_from (S k) from rest ids
  end.
Definition h_obj_ok (n : nat) (refs : list (list nat)) (o : hobj) : bool :=
  Nat.leb (ho_born o) n &&
  (if h_protected o then Nat.eqb (length (ho_snaps o)) (S (n - ho_born o)) && h_unchanged o else true) &&
  (if h_noretain o then h_refs_from 0 (if Nat.eqb (ho_role o) 3 then pred (ho_born o) else ho_born o) refs (ho_ids o) else true) &&
  (if Nat.eqb (ho_role o) 4 then negb (Nat.eqb (ho_born o) 0) && negb (hdisj (ho_ids o) (nth (pred (ho_born o)) refs [])) else true) &&
  Nat.leb (ho_role o) 5.
Definition hcheck (c : hcase) : bool := forallb (h_obj_ok (length (h_refs c)) (h_refs c)) (h_objs c).
Definition hmism (cs : list hcase) : list nat := mismatches hcheck cs.

(* diagnosis: indices of the objects that fail *)
Fixpoint h_bad_from (i n : nat) (refs : list (list nat)) (os : list hobj) : list nat :=
  match os with
  | [] => []
  | o :: r => (if h_obj_ok n refs o then [] else [i]) ++ h_bad_from (S i) n refs r
  end.
Definition hbad (c : hcase) : list nat := h_bad_from 0 (length (h_refs c)) (h_refs c) (h_objs c).
