(* C12/ProofsCtorRepo.v — the constructor bodies regenerated from statistics/generic by go2coq_c12k are accepted (round 7). *)
From Coq Require Import List Bool Arith.
From ADV Require Import C12.ModelCtor C12.ProofsCtor C12.GenCtor.
Import ListNotations.

Lemma repo_ctors_accepted (A : Type) (g : nat -> list A -> list A) : ctors_ok (repo_ctors g) = true.
Proof. reflexivity. Qed.

Lemma ctors_ok_in {A : Type} (l : list (nat * (bool -> list (@stmt A)))) :
  ctors_ok l = true -> forall rp, In rp l -> ctor_safe_both (snd rp) (fst rp) = true.
Proof. unfold ctors_ok. intros H rp Hin. rewrite forallb_forall in H. apply H, Hin. Qed.

Lemma repo_ctors_deep_copy_l (A : Type) (g : nat -> list A -> list A) :
  forall rp, In rp (repo_ctors g) ->
  forall (flag : bool) (h : @heap A) (e : env) (c : list loc),
    (forall l, In l c -> l < h_next h) ->
    let h' := fst (run (snd rp flag) (h, e)) in
    let r := snd (run (snd rp flag) (h, e)) (fst rp) in
    rdc h' c = rdc h c /\
    (forall l, In l r -> ~ In l c) /\
    (forall h2 : @heap A, (forall l, h_next h <= l -> h_val h2 l = h_val h' l) -> rdc h2 r = rdc h' r) /\
    (forall h2 : @heap A, (forall l, l < h_next h -> h_val h2 l = h_val h' l) -> rdc h2 c = rdc h c).
Proof.
  intros rp Hin. apply flagged_ctor_deep_copy_l. apply (ctors_ok_in _ (repo_ctors_accepted A g)), Hin.
Qed.

(* non-vacuity: the table has the four exported constructors and the helper, and entry 2 (NewHmmProbabilityVector) runs *)
Lemma repo_ctors_nonvacuous_l :
  length (repo_ctors (fun (_ : nat) (xs : list nat) => halve xs)) = repo_ctor_count /\ 4 <= repo_ctor_count /\
  ctor_bad_from 0 (repo_ctors (fun (_ : nat) (xs : list nat) => halve xs)) = [].
Proof. vm_compute. repeat split; auto. Qed.
