(* C12/CorrK.v — correspondence for stream K (round 7): ModelCtor's bodies against the real constructors.

   Per case the harness reports (bit patterns of the full observable state, as in stream E)
     k_argB / k_argA   the caller's object before / after the call
     k_res0 / k_res1   the result right after the call / after the caller overwrote every element of his object
     k_a1 / k_a2       the caller's object after that overwrite / after every element of the RESULT was overwritten
                       and Normalize() was called on it
     k_shared          whether the reflection walk finds storage reachable from both
   The model is run with the cells 0..n-1 holding k_argB; the in-place transformers are oracles (the log transform is
   not observed: identity; the normalisation yields the reported k_res0), so what the model PREDICTS is the ownership
   structure: which cells the result consists of, hence what the two overwrites do to the other object.
   [k_full = false] (bfgs.Run's Hessian{B0}: the work copy is not observable) compares the caller's object only. *)
From Coq Require Import ZArith List Bool Floats Arith.
From ADV Require Import Base.Num Base.Corr C12.ModelCtor.
Import ListNotations.
Open Scope nat_scope.

Record kcase := mkK { k_id : nat; k_flag : bool; k_full : bool;
                      k_argB : list float; k_argA : list float; k_res0 : list float; k_res1 : list float;
                      k_a1 : list float; k_a2 : list float; k_shared : bool }.

Definition kprog (id : nat) (res0 : list float) (flag : bool) : list (@stmt float) :=
  if Nat.eqb id 4 then bfgs_b0_coded (fun xs => xs) flag
  else hmm_ctor_coded (fun xs => xs) (fun _ => res0) flag.

Definition fzero : float := 0%float.

Definition kcheck_with (prog : nat -> list float -> bool -> list (@stmt float)) (c : kcase) : bool :=
  let n := length (k_argB c) in
  let arg := seq 0 n in
  let h := mkH n (fun l => nth l (k_argB c) fzero) in
  let e : env := fun x => match x with 0 => arg | _ => [] end in
  let '(h1, e1) := run (prog (k_id c) (k_res0 c) (k_flag c)) (h, e) in
  let r := e1 1 in
  (* the caller's object after the call *)
  list_eqb feqb (rdc h1 arg) (k_argA c) &&
  (negb (k_full c) ||
   (list_eqb feqb (rdc h1 r) (k_res0 c) &&
    Bool.eqb (existsb (fun l => existsb (Nat.eqb l) arg) r) (k_shared c) &&
    (* the caller overwrites his object *)
    let h2 := mkH (h_next h1) (wr (h_val h1) arg (k_a1 c)) in
    Nat.eqb (length (k_a1 c)) n &&
    list_eqb feqb (rdc h2 r) (k_res1 c) &&
    (* the result is overwritten (with anything: here the contents of k_a1 reversed) *)
    let h3 := mkH (h_next h2) (wr (h_val h2) r (rev (k_a1 c))) in
    list_eqb feqb (rdc h3 arg) (k_a2 c))).

Definition kcheck : kcase -> bool := kcheck_with kprog.
Definition kmism (cs : list kcase) : list nat := mismatches kcheck cs.

(* the check distinguishes the models: a recorded run of NewHmmProbabilityVector(v, isLog = true) on the unchanged
   library (v = log [1/4; 1/4], snapshot = dimension followed by the elements) is what the coded body predicts and
   not what the clone-on-one-branch body predicts *)
Definition ksample : kcase :=
  mkK 170 true true [2; -1.5; -1.5]%float [2; -1.5; -1.5]%float [2; -0.75; -0.75]%float [2; -0.75; -0.75]%float
      [2; -3.625; -3.625]%float [2; -3.625; -3.625]%float false.
Definition kprog_onebranch (id : nat) (res0 : list float) (flag : bool) : list (@stmt float) :=
  hmm_ctor_onebranch (fun xs => xs) (fun _ => res0) flag.
Example kcheck_accepts_sample : kcheck ksample = true.
Proof. vm_compute. reflexivity. Qed.
Example kcheck_rejects_onebranch_model : kcheck_with kprog_onebranch ksample = false.
Proof. vm_compute. reflexivity. Qed.
