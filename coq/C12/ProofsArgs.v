(* C12/ProofsArgs.v — soundness of the option-list check of ModelArgs.v and the two refuted idioms. *)
From Coq Require Import List Arith Bool Lia.
From ADV Require Import C12.ModelArgs.
Import ListNotations.

(* ------------------------------------------------------------------ heap lemmas *)
Lemma wr_many_next : forall es h a p, next (wr_many h a p es) = next h.
Proof. induction es as [|x r IH]; intros h a p; simpl; [reflexivity|]. rewrite IH. reflexivity. Qed.

Lemma wr_many_other : forall es h a p a' i, a' <> a -> cells (wr_many h a p es) a' i = cells h a' i.
Proof.
  induction es as [|x r IH]; intros h a p a' i Hne; simpl; [reflexivity|].
  rewrite IH by exact Hne. simpl.
  destruct (Nat.eqb a' a) eqn:E; [apply Nat.eqb_eq in E; contradiction|reflexivity].
Qed.

Lemma wr_many_below : forall es h a p i, i < p -> cells (wr_many h a p es) a i = cells h a i.
Proof.
  induction es as [|x r IH]; intros h a p i Hlt; simpl; [reflexivity|].
  rewrite IH by lia. simpl.
  destruct (Nat.eqb i p) eqn:E; [apply Nat.eqb_eq in E; lia|]. rewrite andb_false_r. reflexivity.
Qed.

Lemma wr_many_first : forall r x h a p, cells (wr_many h a p (x :: r)) a p = x.
Proof.
  intros r x h a p. simpl. rewrite wr_many_below by lia. simpl. rewrite !Nat.eqb_refl. reflexivity.
Qed.

Lemma alloc_old : forall h c a i, a < next h -> cells (alloc h c) a i = cells h a i.
Proof.
  intros h c a i Hlt. simpl. destruct (Nat.eqb a (next h)) eqn:E; [apply Nat.eqb_eq in E; lia|reflexivity].
Qed.

(* ------------------------------------------------------------------ the invariant
   every header is well formed (len <= cap, as Go guarantees) and a variable that is not tainted holds either an
   empty-capacity header or an array allocated after the entry point was called (id >= B) *)
Definition inv (B : nat) (T : taint) (f : nat) (e : env) : Prop :=
  (forall v, slen (e v) <= scap (e v)) /\
  (forall v, tainted T f v = false -> scap (e v) = 0 \/ B <= sarr (e v)).

Lemma inv_upd : forall B T f e dst s,
  inv B T f e -> slen s <= scap s -> (tainted T f dst = false -> scap s = 0 \/ B <= sarr s) ->
  inv B T f (upd e dst s).
Proof.
  intros B T f e dst s [Hwf Hinv] Hws Hs. split; intros v; unfold upd; destruct (Nat.eqb v dst) eqn:E.
  - exact Hws.
  - apply Hwf.
  - apply Nat.eqb_eq in E. subst v. exact Hs.
  - apply Hinv.
Qed.

Lemma inv_param : forall B T g s,
  slen s <= scap s -> (tainted T g 0 = false -> scap s = 0 \/ B <= sarr s) -> inv B T g (param_env s).
Proof.
  intros B T g s Hws Hs. split; intros v; unfold param_env; destruct (Nat.eqb v 0) eqn:E.
  - exact Hws.
  - simpl. lia.
  - apply Nat.eqb_eq in E. subst v. exact Hs.
  - intros _. left. reflexivity.
Qed.

Lemma funs_ok_from_spec : forall P T k,
  funs_ok_from T k P = true -> forall f s, In s (nth f P []) -> stmt_ok T (k + f) s = true.
Proof.
  induction P as [|b r IH]; intros T k Hok f s Hin.
  - destruct f; simpl in Hin; contradiction.
  - simpl in Hok. apply andb_true_iff in Hok. destruct Hok as [Hb Hr].
    destruct f as [|f'].
    + simpl in Hin. rewrite Nat.add_0_r. rewrite forallb_forall in Hb. apply Hb. exact Hin.
    + simpl in Hin. replace (k + S f') with (S k + f') by lia. apply (IH T (S k) Hr f' s Hin).
Qed.

Lemma prog_ok_spec : forall P T, prog_ok T P = true -> forall f s, In s (body P f) -> stmt_ok T f s = true.
Proof. intros P T Hok f s Hin. apply (funs_ok_from_spec P T 0 Hok f s Hin). Qed.

Lemma local_step_frame : forall B T f s e h e' h',
  stmt_ok T f s = true -> B <= next h -> inv B T f e -> local_step s e h e' h' ->
  B <= next h' /\ inv B T f e' /\ (forall a i, a < B -> cells h' a i = cells h a i).
Proof.
  intros B T f s e h e' h' Hok HB Hinv Hst.
  destruct Hst as [v e h | dst e h c n k | dst src e h es Hroom | dst src e h es c k Hfull Hcopy
                  | v e h i x Hi | dst src e h lo hi Hlo Hhi | v e h h' Hn Hw]; simpl in Hok.
  - (* range *) split; [exact HB|split; [exact Hinv|reflexivity]].
  - (* fresh *) split; [|split].
    + simpl. lia.
    + apply inv_upd; [exact Hinv|simpl; lia|]. intros _. right. simpl. exact HB.
    + intros a i Ha. apply alloc_old. lia.
  - (* append in place *)
    apply negb_true_iff in Hok. destruct Hinv as [Hwf Hun]. destruct (Hun src Hok) as [Hc0 | Hfar].
    + (* capacity 0: nothing is written *)
      assert (Hes : es = []) by (destruct es; [reflexivity|simpl in Hroom; lia]).
      subst es. simpl. split; [exact HB|split; [|reflexivity]].
      apply inv_upd; [split; assumption|simpl in *; lia|]. intros _. left. simpl. exact Hc0.
    + split; [|split].
      * rewrite wr_many_next. exact HB.
      * apply inv_upd; [split; assumption|simpl; lia|]. intros _. right. simpl. exact Hfar.
      * intros a i Ha. apply wr_many_other. lia.
  - (* append with reallocation *)
    split; [|split].
    + simpl. lia.
    + apply inv_upd; [exact Hinv|simpl; lia|]. intros _. right. simpl. exact HB.
    + intros a i Ha. apply alloc_old. lia.
  - (* store *)
    apply negb_true_iff in Hok. destruct Hinv as [Hwf Hun].
    destruct (Hun v Hok) as [Hc0 | Hfar]; [specialize (Hwf v); lia|].
    split; [exact HB|split; [split; assumption|]].
    intros a i' Ha. simpl.
    destruct (Nat.eqb a (sarr (e v))) eqn:E; [apply Nat.eqb_eq in E; lia|reflexivity].
  - (* alias *)
    split; [exact HB|split; [|reflexivity]]. destruct Hinv as [Hwf Hun].
    apply inv_upd; [split; assumption|simpl; lia|]. intros Hd.
    destruct (tainted T f src) eqn:Ts; [simpl in Hok; rewrite Hd in Hok; discriminate|].
    destruct (Hun src Ts) as [Hc0 | Hfar]; [left; simpl; lia|right; simpl; exact Hfar].
  - (* escape *)
    apply negb_true_iff in Hok. split; [lia|split; [exact Hinv|]]. destruct Hinv as [Hwf Hun].
    intros a i Ha. destruct (Nat.eq_dec (cells h' a i) (cells h a i)) as [Heq|Hne]; [exact Heq|].
    exfalso. destruct (Hw a i Hne) as [Ha' Hrange]. destruct (Hun v Hok) as [Hc0 | Hfar]; lia.
Qed.

(* ------------------------------------------------------------------ executions *)
Lemma exec_frame : forall P T, prog_ok T P = true ->
  forall f e h e' h', exec P f e h e' h' ->
  forall B, B <= next h -> inv B T f e ->
  B <= next h' /\ inv B T f e' /\ (forall a i, a < B -> cells h' a i = cells h a i).
Proof.
  intros P T Hok f e h e' h' Hex.
  induction Hex as [f e h
                   | f s e h e1 h1 e2 h2 Hin Hls Hrest IH
                   | f g v e h eg h1 e2 h2 Hin Hcallee IHc Hrest IH
                   | f g e h c n eg h1 e2 h2 Hin Hcallee IHc Hrest IH]; intros B HB Hinv.
  - split; [exact HB|split; [exact Hinv|reflexivity]].
  - destruct (local_step_frame B T f s e h e1 h1 (prog_ok_spec P T Hok f s Hin) HB Hinv Hls) as [HB1 [Hinv1 Hfr1]].
    destruct (IH B HB1 Hinv1) as [HB2 [Hinv2 Hfr2]].
    split; [exact HB2|split; [exact Hinv2|]]. intros a i Ha. rewrite Hfr2 by exact Ha. apply Hfr1. exact Ha.
  - pose proof (prog_ok_spec P T Hok f _ Hin) as Hs. simpl in Hs. destruct Hinv as [Hwf Hun].
    assert (Hg : inv B T g (param_env (e v))).
    { apply inv_param; [apply Hwf|]. intros Hg0.
      destruct (tainted T f v) eqn:Tv; [simpl in Hs; rewrite Hg0 in Hs; discriminate|]. apply Hun. exact Tv. }
    destruct (IHc B HB Hg) as [HB1 [_ Hfr1]].
    destruct (IH B HB1 (conj Hwf Hun)) as [HB2 [Hinv2 Hfr2]].
    split; [exact HB2|split; [exact Hinv2|]]. intros a i Ha. rewrite Hfr2 by exact Ha. apply Hfr1. exact Ha.
  - assert (HBa : B <= next (alloc h c)) by (simpl; lia).
    assert (Hg : inv B T g (param_env (mkSl (next h) 0 n n))).
    { apply inv_param; [simpl; lia|]. intros _. right. simpl. exact HB. }
    destruct (IHc B HBa Hg) as [HB1 [_ Hfr1]].
    destruct (IH B HB1 Hinv) as [HB2 [Hinv2 Hfr2]].
    split; [exact HB2|split; [exact Hinv2|]]. intros a i Ha. rewrite Hfr2 by exact Ha. rewrite Hfr1 by exact Ha.
    apply alloc_old. lia.
Qed.

Lemma roots_tainted_spec : forall T roots r, roots_tainted T roots = true -> In r roots -> tainted T r 0 = true.
Proof. intros T roots r H Hin. unfold roots_tainted in H. rewrite forallb_forall in H. apply H. exact Hin. Qed.

(* MAIN: an accepted program, entered at any analysed entry point with ANY slice header (any array, offset, len,
   cap) on ANY heap, run to ANY point of ANY execution, has written no cell of any array that existed at entry. *)
Lemma safe_program_frame : forall P roots, args_safe P roots = true ->
  forall r, In r roots -> forall s h e' h', slen s <= scap s ->
  exec P r (param_env s) h e' h' ->
  forall a i, a < next h -> cells h' a i = cells h a i.
Proof.
  intros P roots Hsafe r Hr s h e' h' Hws Hex a i Ha.
  unfold args_safe in Hsafe. apply andb_true_iff in Hsafe. destruct Hsafe as [Hok Hroots].
  assert (Hinv : inv (next h) (infer_taint P roots) r (param_env s)).
  { apply inv_param; [exact Hws|]. intros Hun. rewrite (roots_tainted_spec _ _ _ Hroots Hr) in Hun. discriminate. }
  destruct (exec_frame P _ Hok r _ h e' h' Hex (next h) (le_n _) Hinv) as [_ [_ Hfr]]. apply Hfr. exact Ha.
Qed.

Lemma map_ext_seq : forall (f g : nat -> elem) n k, (forall i, f i = g i) -> map f (seq k n) = map g (seq k n).
Proof. intros f g n k H. apply map_ext. exact H. Qed.

(* what the caller sees: the elements of his slice AND the whole capacity window behind it are as before, so a
   second call with the same slice runs with the same options *)
Lemma safe_program_keeps_option_list : forall P roots, args_safe P roots = true ->
  forall r, In r roots -> forall s h e' h', slen s <= scap s -> sarr s < next h ->
  exec P r (param_env s) h e' h' ->
  view h' s = view h s /\ window h' s = window h s.
Proof.
  intros P roots Hsafe r Hr s h e' h' Hws Hex Hrun.
  pose proof (safe_program_frame P roots Hsafe r Hr s h e' h' Hws Hrun) as Hfr.
  split; unfold view, window; apply map_ext; intros i; apply Hfr; exact Hex.
Qed.

(* ------------------------------------------------------------------ the two idioms, refuted
   (a) append in place:   func Run(args ...interface{}) { args = append(args, o) }  *)
Definition prog_append : prog := [[SAppend 0 0]].
Definition h0 : heap := mkHp (fun a i => if Nat.eqb a 0 then (if Nat.eqb i 0 then 11 else 99) else 0) 1.
Definition s0 : slice := mkSl 0 0 1 2.   (* opts := make([]interface{}, 1, 2) *)

Lemma append_in_place_rejected : args_safe prog_append [0] = false.
Proof. vm_compute. reflexivity. Qed.

Lemma append_in_place_writes_callers_window :
  exists e' h', exec prog_append 0 (param_env s0) h0 e' h' /\ window h0 s0 = [11; 99] /\ window h' s0 = [11; 42].
Proof.
  eexists. eexists. split; [|split].
  - eapply ex_local; [left; reflexivity| |apply ex_done].
    apply (ls_append_inplace 0 0 (param_env s0) h0 [42]). simpl. lia.
  - vm_compute. reflexivity.
  - vm_compute. reflexivity.
Qed.

(* (b) filter in place:   out := args[:0]; for .. { out = append(out, a) }   (keeps the options it does not
   consume and forwards them): the caller's own elements are overwritten, his second call runs with other options *)
Definition prog_filter : prog := [[SAlias 1 0; SAppend 1 1]].
Definition h1 : heap := mkHp (fun a i => if Nat.eqb a 0 then (if Nat.eqb i 0 then 11 else 22) else 0) 1.
Definition s1 : slice := mkSl 0 0 2 2.   (* opts := []interface{}{o11, o22} *)

Lemma filter_in_place_rejected : args_safe prog_filter [0] = false.
Proof. vm_compute. reflexivity. Qed.

Lemma filter_in_place_changes_callers_options :
  exists e' h', exec prog_filter 0 (param_env s1) h1 e' h' /\ view h1 s1 = [11; 22] /\ view h' s1 = [22; 22].
Proof.
  eexists. eexists. split; [|split].
  - eapply ex_local; [left; reflexivity|apply (ls_alias 1 0 (param_env s1) h1 0 0); simpl; lia|].
    eapply ex_local; [right; left; reflexivity| |apply ex_done].
    apply (ls_append_inplace 1 1 _ h1 [22]). vm_compute. lia.
  - vm_compute. reflexivity.
  - vm_compute. reflexivity.
Qed.

(* the same two bodies are fine when they work on a copy / a fresh list, as /repo does (gArgs := []interface{}{};
   gArgs = append(gArgs, arg); sub.Run(.., gArgs...)) *)
Definition prog_copy : prog := [[SRange 0; SFresh 1; SAppend 1 1; SCallSpread 1 1]; [SRange 0; SAppend 0 0]].

Lemma copy_then_forward_accepted : args_safe prog_copy [0] = true.
Proof. vm_compute. reflexivity. Qed.

(* non-vacuity: an execution of prog_copy that allocates, appends twice (once with reallocation, once in place),
   forwards the local list to a callee that appends IN PLACE to it — and the caller's window is untouched *)
Lemma copy_then_forward_runs :
  exists e' h', exec prog_copy 0 (param_env s0) h0 e' h' /\ next h' = 2 /\ window h' s0 = window h0 s0
                /\ cells h' 1 0 = 7 /\ cells h' 1 1 = 8.
Proof.
  eexists. eexists. split; [|split; [|split; [|split]]].
  - eapply ex_local; [right; left; reflexivity|apply (ls_fresh 1 (param_env s0) h0 (fun _ => 0) 0 2)|].
    eapply ex_local; [right; right; left; reflexivity| |].
    { apply (ls_append_inplace 1 1 _ _ [7]). vm_compute. lia. }
    eapply ex_call_spread; [right; right; right; left; reflexivity| |apply ex_done].
    eapply ex_local; [right; left; reflexivity| |apply ex_done].
    apply (ls_append_inplace 0 0 _ _ [8]). vm_compute. lia.
  - vm_compute. reflexivity.
  - vm_compute. reflexivity.
  - vm_compute. reflexivity.
  - vm_compute. reflexivity.
Qed.
