(* C12/ProofsIt.v — clones of iterators (plain and joint) are independent of their source (round 5). *)
From Coq Require Import ZArith List Bool Arith Lia.
From ADV Require Import C12.ModelIt.
Import ListNotations.

Section P.
Context {A : Type} (zero : A).

Notation iter := (@iter A).
Notation iheap := (@iheap A).
Notation view_of := (@view_of A).
Notation vnext := (vnext zero).
Notation inext := (inext zero).
Notation istep := (istep zero).
Notation irun := (irun zero).

Lemma nth_set_nth : forall {X} (l : list X) n x i d, n < length l ->
  nth i (set_nth l n x) d = if Nat.eqb i n then x else nth i l d.
Proof.
  induction l as [|y l IH]; simpl; intros n x i d H; [lia|].
  destruct n; simpl.
  - destruct i; reflexivity.
  - destruct i; simpl; [reflexivity|]. apply IH. lia.
Qed.
Lemma length_set_nth : forall {X} (l : list X) n x, length (set_nth l n x) = length l.
Proof. induction l; simpl; intros; [reflexivity|]. destruct n; simpl; auto. Qed.
Lemma nth_snoc : forall {X} (l : list X) x i d,
  nth i (l ++ [x]) d = if Nat.ltb i (length l) then nth i l d else if Nat.eqb i (length l) then x else d.
Proof.
  intros. destruct (Nat.ltb_spec i (length l)).
  - now apply app_nth1.
  - rewrite app_nth2 by lia. destruct (Nat.eqb_spec i (length l)).
    + subst. now rewrite Nat.sub_diag.
    + destruct (i - length l) eqn:E; [lia|]. simpl. now destruct n0.
Qed.

(* an iterator's own objects exist and are two different ones *)
Definition okit (h : iheap) (it : iter) : Prop := NoDup (ids it) /\ forall i, In i (ids it) -> i < length h.
Definition disj (a b : list nat) : Prop := forall l, In l a -> ~ In l b.

(* the view only depends on the iterator's own objects *)
Lemma view_frame : forall (h h' : iheap) it, (forall i, In i (ids it) -> nth i h' [] = nth i h []) ->
  view_of h' it = view_of h it.
Proof.
  intros h h' [i|j] H; simpl in *.
  - now rewrite H by auto.
  - now rewrite !H by auto.
Qed.

Lemma vnext_shape : forall s1 s2 idx v1 v2 ok dm, exists s1' s2' idx' v1' v2' ok',
  vnext (VJ s1 s2 idx v1 v2 ok dm) = VJ s1' s2' idx' v1' v2' ok' dm.
Proof.
  intros. unfold ModelIt.vnext.
  destruct s1 as [|[i x] s1]; destruct s2 as [|[i2 y] s2]; simpl;
    repeat match goal with |- context [if ?b then _ else _] => destruct b end; simpl; repeat eexists.
Qed.

(* Next(): on the heap = on the resolved state; writes the iterator's own objects only *)
Theorem inext_spec : forall (h h' : iheap) it it', okit h it -> inext h it = (h', it') ->
  view_of h' it' = vnext (view_of h it) /\ ids it' = ids it /\ length h' = length h /\
  forall i, ~ In i (ids it) -> nth i h' [] = nth i h [].
Proof.
  intros h h' [i|j] it' [ND B] H.
  - simpl in H. inversion H; subst. simpl in *. assert (i < length h) by auto.
    split; [rewrite nth_set_nth by auto; now rewrite Nat.eqb_refl|]. split; [reflexivity|]. split; [apply length_set_nth|].
    intros k Hk. rewrite nth_set_nth by auto. destruct (Nat.eqb_spec k i); [subst; exfalso; apply Hk; simpl; auto|reflexivity].
  - simpl in ND, B. assert (L1 : j1 j < length h) by auto. assert (L2 : j2 j < length h) by auto.
    assert (NE : j1 j <> j2 j) by (inversion ND as [|? ? Hn _]; intro Eq; apply Hn; simpl; auto).
    destruct (vnext_shape (nth (j1 j) h []) (nth (j2 j) h []) (jidx j) (js1 j) (js2 j) (jok j) (jdm j))
      as (s1' & s2' & idx' & v1' & v2' & ok' & E).
    unfold ModelIt.inext in H. simpl ModelIt.view_of in *. rewrite E in *. inversion H; subst. clear H. simpl.
    split.
    { rewrite !nth_set_nth by (rewrite ?length_set_nth; auto).
      rewrite Nat.eqb_refl. destruct (Nat.eqb_spec (j1 j) (j2 j)); [tauto|]. now rewrite Nat.eqb_refl. }
    split; [reflexivity|]. split; [now rewrite !length_set_nth|].
    intros k Hk. rewrite !nth_set_nth by (rewrite ?length_set_nth; auto).
    destruct (Nat.eqb_spec k (j2 j)); [subst; exfalso; apply Hk; simpl; auto|]. destruct (Nat.eqb_spec k (j1 j)); [subst; exfalso; apply Hk; simpl; auto|reflexivity].
Qed.

(* Clone(): NEW objects, same resolved state, nothing existing written *)
Theorem iclone_spec : forall (h h' : iheap) it it', okit h it -> iclone h it = (h', it') ->
  view_of h' it' = view_of h it /\ okit h' it' /\ (forall i, In i (ids it') -> length h <= i) /\
  length h <= length h' /\ forall i, i < length h -> nth i h' [] = nth i h [].
Proof.
  intros h h' [i|j] it' [ND B] H; simpl in H; inversion H; subst; clear H; simpl.
  - split; [now rewrite nth_snoc, Nat.ltb_irrefl, Nat.eqb_refl|].
    split; [split; [repeat constructor; simpl; tauto|intros k [<-|[]]; rewrite app_length; simpl; lia]|].
    split; [intros k [<-|[]]; lia|]. split; [rewrite app_length; lia|]. intros k Hk. now apply app_nth1.
  - split.
    { rewrite !app_nth2 by lia. rewrite Nat.sub_diag. replace (S (length h) - length h) with 1 by lia. reflexivity. }
    split; [split|].
    { repeat constructor; simpl; [intros [E|[]]; lia|tauto]. }
    { intros k [<-|[<-|[]]]; rewrite app_length; simpl; lia. }
    split; [intros k [<-|[<-|[]]]; lia|]. split; [rewrite app_length; lia|]. intros k Hk. now apply app_nth1.
Qed.

(* ---- worlds *)
Definition wf (w : @iworld A) : Prop :=
  let '(h, its) := w in
  (forall k, k < length its -> okit h (nth k its idummy)) /\
  (forall k l, k < length its -> l < length its -> k <> l -> disj (ids (nth k its idummy)) (ids (nth l its idummy))).

Definition wview (w : @iworld A) (k : nat) := view_of (fst w) (nth k (snd w) idummy).

Lemma okit_mono : forall (h h' : iheap) it, length h <= length h' -> okit h it -> okit h' it.
Proof. intros h h' it L [ND B]. split; [auto|]. intros i Hi. specialize (B i Hi). lia. Qed.

Lemma append_new : forall (h h' : iheap) its it',
  wf (h, its) -> length h <= length h' -> okit h' it' -> (forall i, In i (ids it') -> length h <= i) ->
  (forall i, i < length h -> nth i h' [] = nth i h []) ->
  wf (h', its ++ [it']) /\ forall c, c < length its -> view_of h' (nth c (its ++ [it']) idummy) = view_of h (nth c its idummy).
Proof.
  intros h h' its it' [WO WD] L OK FR KEEP. split.
  - split.
    + intros k Hk. rewrite app_length in Hk; simpl in Hk. rewrite nth_snoc. destruct (Nat.ltb_spec k (length its)).
      * eapply okit_mono; eauto.
      * replace (Nat.eqb k (length its)) with true by (symmetry; apply Nat.eqb_eq; lia). exact OK.
    + intros k l Hk Hl Hkl. rewrite app_length in Hk, Hl; simpl in Hk, Hl. rewrite !nth_snoc.
      destruct (Nat.ltb_spec k (length its)), (Nat.ltb_spec l (length its)); try lia.
      * now apply WD.
      * replace (Nat.eqb l (length its)) with true by (symmetry; apply Nat.eqb_eq; lia).
        intros i Hi Hi'. apply FR in Hi'. destruct (WO k H) as [_ B]. specialize (B i Hi). lia.
      * replace (Nat.eqb k (length its)) with true by (symmetry; apply Nat.eqb_eq; lia).
        intros i Hi Hi'. apply FR in Hi. destruct (WO l H0) as [_ B]. specialize (B i Hi'). lia.
  - intros c Hc. rewrite app_nth1 by auto. apply view_frame. intros i Hi. apply KEEP. destruct (WO c Hc) as [_ B]. now apply B.
Qed.

(* one step: the addressed iterator does Next() on its resolved state, every other iterator keeps its resolved state *)
Theorem istep_frame : forall w o, wf w ->
  wf (istep w o) /\ length (snd w) <= length (snd (istep w o)) /\
  forall c, c < length (snd w) ->
    wview (istep w o) c = match o with INext k => if Nat.eqb c k then vnext (wview w c) else wview w c | _ => wview w c end.
Proof.
  intros [h its] o W. pose proof W as [WO WD]. destruct o as [s | dm s1 s2 | k | k]; [simpl | unfold ModelIt.istep; cbn [fst snd] | simpl | simpl].
  - (* INew *)
    destruct (append_new h (h ++ [s]) its (IP (length h)) W) as [W' V].
    + rewrite app_length; lia.
    + split; [repeat constructor; simpl; tauto|]. intros i [<-|[]]. rewrite app_length; simpl; lia.
    + intros i [<-|[]]; lia.
    + intros i Hi. now apply app_nth1.
    + split; [exact W'|]. split; [rewrite app_length; simpl; lia|]. intros c Hc. apply V; auto.
  - (* INewJ *)
    set (j0 := IJ (mkJ (length h) (S (length h)) (-1)%Z None zero false dm)).
    destruct (inext (h ++ [s1; s2]) j0) as [h2 it] eqn:E.
    assert (OK0 : okit (h ++ [s1; s2]) j0).
    { split; [repeat constructor; simpl; [intros [E'|[]]; lia|tauto]|]. intros i [<-|[<-|[]]]; rewrite app_length; simpl; lia. }
    destruct (inext_spec _ _ _ _ OK0 E) as (_ & IDS & LEN & KEEP).
    destruct (append_new h h2 its it W) as [W' V].
    + rewrite LEN, app_length; lia.
    + unfold okit. rewrite IDS, LEN. exact OK0.
    + rewrite IDS. unfold j0; simpl. intros i [<-|[<-|[]]]; lia.
    + intros i Hi. rewrite KEEP; [now apply app_nth1|]. unfold j0; simpl. lia.
    + split; [exact W'|]. split; [simpl; rewrite app_length; simpl; lia|]. intros c Hc. apply V; auto.
  - (* INext *)
    destruct (Nat.ltb_spec k (length its)) as [Hk|Hk].
    2:{ split; [exact W|]. split; [simpl; lia|]. intros c Hc. destruct (Nat.eqb_spec c k); [simpl in Hc; lia|reflexivity]. }
    destruct (inext h (nth k its idummy)) as [h' it'] eqn:E.
    destruct (inext_spec _ _ _ _ (WO k Hk) E) as (VN & IDS & LEN & KEEP).
    assert (NTH : forall c, c < length its -> ids (nth c (set_nth its k it') idummy) = ids (nth c its idummy)).
    { intros c Hc. rewrite nth_set_nth by auto. destruct (Nat.eqb_spec c k); [now subst|reflexivity]. }
    split; [|split; [simpl; rewrite length_set_nth; lia|]].
    + split.
      * intros c Hc. rewrite length_set_nth in Hc. unfold okit. rewrite NTH, LEN by auto. now apply WO.
      * intros c l Hc Hl Hcl. rewrite length_set_nth in Hc, Hl. rewrite !NTH by auto. now apply WD.
    + intros c Hc. unfold wview; simpl in *. rewrite nth_set_nth by auto. destruct (Nat.eqb_spec c k).
      * subst c. exact VN.
      * apply view_frame. intros i Hi. apply KEEP. intro Hi'. exact (WD c k Hc Hk n i Hi Hi').
  - (* IClone *)
    destruct (Nat.ltb_spec k (length its)) as [Hk|Hk]; [|split; [exact W|split; [simpl; lia|auto]]].
    destruct (iclone h (nth k its idummy)) as [h' it'] eqn:E.
    destruct (iclone_spec _ _ _ _ (WO k Hk) E) as (_ & OK & FR & LEN & KEEP).
    destruct (append_new h h' its it' W LEN OK FR KEEP) as [W' V].
    split; [exact W'|]. split; [simpl; rewrite app_length; simpl; lia|]. intros c Hc. apply V; auto.
Qed.

(* a clone starts in the resolved state of its source *)
Theorem clone_equal : forall h its k, wf (h, its) -> k < length its ->
  let w' := istep (h, its) (IClone k) in
  length (snd w') = S (length its) /\ wview w' (length its) = wview (h, its) k /\ wview w' k = wview (h, its) k.
Proof.
  intros h its k W Hk w'. destruct (istep_frame (h, its) (IClone k) W) as (_ & _ & F).
  specialize (F k Hk). cbn beta iota in F. fold w' in F.
  split; [|split; [|exact F]]; unfold w'; simpl; (destruct (Nat.ltb_spec k (length its)); [|lia]);
    destruct (iclone h (nth k its idummy)) as [h' it'] eqn:E.
  - simpl; rewrite app_length; simpl; lia.
  - destruct W as [WO _]. destruct (iclone_spec _ _ _ _ (WO k Hk) E) as (VE & _).
    unfold wview; simpl. rewrite nth_snoc, Nat.ltb_irrefl, Nat.eqb_refl. exact VE.
Qed.

Fixpoint iterate {X} (f : X -> X) (n : nat) (x : X) : X := match n with 0 => x | S n' => iterate f n' (f x) end.

(* HISTORIES: after any history the resolved state of an iterator is its old one advanced by the number of Next()
   addressed at IT — whatever was done to the others (its source, its clones, clones of clones) in between *)
Theorem iterator_history_independent : forall ops w c, wf w -> c < length (snd w) ->
  wf (irun w ops) /\ c < length (snd (irun w ops)) /\
  wview (irun w ops) c = iterate vnext (nexts_of c ops) (wview w c).
Proof.
  induction ops as [|o ops IH]; intros w c W Hc; simpl; [auto|].
  destruct (istep_frame w o W) as (W' & L & F).
  destruct (IH (istep w o) c W') as (W2 & L2 & V2); [lia|].
  split; [exact W2|]. split; [exact L2|]. change (wview (irun (istep w o) ops) c = iterate vnext (nexts_of c (o :: ops)) (wview w c)). rewrite V2, (F c Hc).
  unfold nexts_of. simpl. destruct o; try reflexivity. destruct (Nat.eqb c k); reflexivity.
Qed.

End P.

(* ---- the seeded regression, refuted: a joint clone sharing the second operand's iterator object.
   a = [1; 2; 3] dense, b = [10; 20; 30] dense; clone after creation; advancing the SOURCE once makes the clone's next
   element pair (2, 0) instead of (2, 20): b[1] was consumed through the shared object. *)
Definition share_it_world : @iworld Z :=
  let w := istep 0%Z (([] : list (list (Z * Z))), []) (INewJ false [(0, 1); (1, 2); (2, 3)]%Z [(0, 10); (1, 20); (2, 30)]%Z) in
  let '(h, its) := w in
  let '(h', c) := clone_share2 h (nth 0 its idummy) in (h', its ++ [c]).
Lemma shared_it2_breaks_independence_refuted :
  let w1 := istep 0%Z share_it_world (INext 1) in                          (* clone alone *)
  let w2 := istep 0%Z (istep 0%Z share_it_world (INext 0)) (INext 1) in    (* source advanced first *)
  iobs 0%Z (Z.eqb 0) w1 1 = (true, 1%Z, Some 2%Z, 20%Z) /\ iobs 0%Z (Z.eqb 0) w2 1 = (true, 1%Z, Some 2%Z, 0%Z).
Proof. vm_compute. auto. Qed.
