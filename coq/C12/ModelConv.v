(* C12/ModelConv.v — As-CONVERSIONS between representations in a cell-granular ownership model (round 5, additive).

   A scalar CELL is what a Go scalar handle points at: for the plain element types  Float64{ptr *float64}  (dense
   vectors hand out pointers INTO their backing array:  AT(i) = Float64{&v[i]} ), for the Real types the *Real64
   object.  A container owns cells:
       dense vector / matrix      one cell per position            (kind 0 = dense vector, 1 = dense matrix)
       sparse vector / matrix     one cell per STORED position     (kind 2; the map  values[k] -> handle )
   so a container is a list (position, cell), kept in increasing position order.  What is observed at a position is
   the content of its cell, [zero] for an absent entry.

   As-conversion, as coded (vector_*_template.in, matrix_*_template.in):
       same concrete type      -> Clone(): every stored entry (also stored zeros) gets a NEW cell holding the old content
       to dense,  other type   -> a new dense container, NEW cell per position, content = what is read at that position
       to sparse, other type   -> r := Null..;  for it := src.ConstIterator(); it.Ok(); it.Next() { r.AT(it.Index()).Set(it.GetConst()) }
                                  a NEW cell per VISITED position
   where the source's iterator visits: every position of a dense vector; the non-null positions of a dense matrix;
   the stored non-null entries of a sparse container — and its skip() DELETES the stored null entries from the
   source ([iter] = the conversion walks the source with its iterator; AsDenseReal*/AsDense*Matrix read with
   ConstAt instead).

   The regression class of round 5 ("dense -> sparse fast path":  r.values[i] = v.AT(i) ) is [conv_share]: the
   result stores the SOURCE's cell.

   Every later mutation is abstracted as an arbitrary receiver-only transformer [OHavoc c st vals]: afterwards the
   receiver stores exactly the positions [st] (kept positions keep their cell, new ones get NEW cells, the others are
   dropped) and reads [vals]; this covers At(i).Set.., Reset, in-place arithmetic r.Op(r, x), Set, iterator loops.
   No proofs in this file. *)
From Coq Require Import List Bool Arith.
Import ListNotations.

Section Conv.
Context {A : Type} (zero : A) (isnull : A -> bool).

Definition loc := nat.
Record heap := mkH { h_next : loc; h_val : loc -> A }.
Record cont := mkC { c_kind : nat; c_dim : nat; c_ent : list (nat * loc) }.

Definition upd (f : loc -> A) (l : loc) (x : A) : loc -> A := fun k => if Nat.eqb k l then x else f k.

Fixpoint look (e : list (nat * loc)) (p : nat) : option loc :=
  match e with [] => None | (q, l) :: r => if Nat.eqb q p then Some l else look r p end.
Definition rd (h : heap) (c : cont) (p : nat) : A :=
  match look (c_ent c) p with Some l => h_val h l | None => zero end.
Definition obs (h : heap) (c : cont) : list A := map (rd h c) (seq 0 (c_dim c)).
Definition locs (c : cont) : list loc := map snd (c_ent c).
Definition stored (c : cont) : list nat := map fst (c_ent c).

(* allocate one new cell per listed (position, content) *)
Fixpoint alloc_all (h : heap) (pv : list (nat * A)) : heap * list (nat * loc) :=
  match pv with
  | [] => (h, [])
  | (p, x) :: r =>
      let h1 := mkH (S (h_next h)) (upd (h_val h) (h_next h) x) in
      let '(h2, e) := alloc_all h1 r in (h2, (p, h_next h) :: e)
  end.

Definition is_sparse (c : cont) : bool := Nat.eqb (c_kind c) 2.
Definition nonnull (h : heap) (e : nat * loc) : bool := negb (isnull (h_val h (snd e))).

(* the entries the source's iterator visits *)
Definition visited (h : heap) (c : cont) : list (nat * loc) :=
  if Nat.eqb (c_kind c) 0 then c_ent c else filter (nonnull h) (c_ent c).
(* the source after having been walked by its iterator: skip() deleted the stored null entries of a sparse one *)
Definition walked (h : heap) (c : cont) : cont :=
  if is_sparse c then mkC (c_kind c) (c_dim c) (filter (nonnull h) (c_ent c)) else c.

(* conversion; [kind] = kind of the result, [same] = same concrete type (Clone), [iter] = walks the source iterator.
   Returns (heap, source afterwards, result). *)
Definition conv (kind : nat) (same iter : bool) (h : heap) (src : cont) : heap * cont * cont :=
  if same then
    let '(h', e) := alloc_all h (map (fun e => (fst e, h_val h (snd e))) (c_ent src)) in
    (h', src, mkC (c_kind src) (c_dim src) e)
  else if Nat.eqb kind 2 then
    let '(h', e) := alloc_all h (map (fun e => (fst e, h_val h (snd e))) (visited h src)) in
    (h', walked h src, mkC 2 (c_dim src) e)
  else
    let '(h', e) := alloc_all h (map (fun p => (p, rd h src p)) (seq 0 (c_dim src))) in
    (h', (if iter then walked h src else src), mkC kind (c_dim src) e).

(* the regression: the result of a to-sparse conversion stores the source's own cells *)
Definition conv_share (h : heap) (src : cont) : heap * cont * cont :=
  (h, src, mkC 2 (c_dim src) (visited h src)).

(* arbitrary receiver-only transformer: afterwards stores [st], reads [vals] there *)
Fixpoint havoc_ent (h : heap) (old : list (nat * loc)) (st : list nat) (vals : nat -> A) : heap * list (nat * loc) :=
  match st with
  | [] => (h, [])
  | p :: r =>
      match look old p with
      | Some l =>
          let h1 := mkH (h_next h) (upd (h_val h) l (vals p)) in
          let '(h2, e) := havoc_ent h1 old r vals in (h2, (p, l) :: e)
      | None =>
          let h1 := mkH (S (h_next h)) (upd (h_val h) (h_next h) (vals p)) in
          let '(h2, e) := havoc_ent h1 old r vals in (h2, (p, h_next h) :: e)
      end
  end.
Definition havoc (h : heap) (c : cont) (st : list nat) (vals : list A) : heap * cont :=
  let st' := if is_sparse c then st else seq 0 (c_dim c) in
  let '(h', e) := havoc_ent h (c_ent c) st' (fun p => nth p vals zero) in
  (h', mkC (c_kind c) (c_dim c) e).

(* ---- worlds and histories *)
Inductive cop :=
| ONew (kind dim : nat) (st : list nat) (vals : list A)      (* a new container built by the caller *)
| OConv (kind : nat) (same iter : bool) (src : nat)          (* As-conversion of container #src, result appended *)
| OHavoc (c : nat) (st : list nat) (vals : list A).         (* any mutation addressed at container #c *)

Definition world := (heap * list cont)%type.
Fixpoint set_nth {X} (l : list X) (n : nat) (x : X) : list X :=
  match l, n with
  | [], _ => []
  | _ :: r, 0 => x :: r
  | y :: r, S n' => y :: set_nth r n' x
  end.
Definition dummy : cont := mkC 0 0 [].

Definition cstep (w : world) (o : cop) : world :=
  let '(h, cs) := w in
  match o with
  | ONew kind dim st vals =>
      let '(h', c) := havoc h (mkC kind dim []) st vals in (h', cs ++ [c])
  | OConv kind same iter s =>
      if Nat.ltb s (length cs) then
        let '(h', src', r) := conv kind same iter h (nth s cs dummy) in (h', set_nth cs s src' ++ [r])
      else w
  | OHavoc c st vals =>
      if Nat.ltb c (length cs) then
        let '(h', c') := havoc h (nth c cs dummy) st vals in (h', set_nth cs c c')
      else w
  end.
Definition crun (w : world) (ops : list cop) : world := fold_left cstep ops w.
Definition target (o : cop) : option nat := match o with OHavoc c _ _ => Some c | _ => None end.

End Conv.
