(* C12/CorrO.v — correspondence for stream O (round 6): the caller's option list.

   ModelArgs / ProofsArgs: an entry point accepted by args_safe leaves every array that existed at entry as it was,
   for every slice header the caller passes.  The harness calls every entry point of /repo/algorithm that takes
   `args ...interface{}` with the options in a caller-held slice with spare capacity and reports
     o_w0 / o_w1 / o_w2   the shallow identity of every cell of the capacity window (len + spare cells) before the
                          call, after it, and after a second call with the SAME slice (plain-value options only);
     o_ref / o_r1 / o_r2  digests of the bit patterns of the full result (outcome, returned objects, final state of
                          every output / InSitu object) with a literal option list, with the held slice, and of the
                          second call with the same slice (fresh inputs of the same values each time).
   The model's prediction for an accepted program is "nothing changes": windows equal, results equal. *)
From Coq Require Import ZArith List Bool Floats Arith.
From ADV Require Import Base.Num Base.Corr.
Import ListNotations.
Open Scope nat_scope.

Record ocase := mkO { o_id : nat; o_mask : Z; o_spare : nat; o_len : nat;
                      o_w0 : list nat; o_w1 : list nat; o_w2 : list nat;
                      o_ref : list float; o_r1 : list float; o_r2 : list float }.

Definition ocheck (c : ocase) : bool :=
  Nat.eqb (length (o_w0 c)) (o_len c + o_spare c) && Nat.ltb 0 (o_spare c) &&
  list_eqb Nat.eqb (o_w0 c) (o_w1 c) && list_eqb Nat.eqb (o_w0 c) (o_w2 c) &&
  list_eqb feqb (o_ref c) (o_r1 c) && list_eqb feqb (o_ref c) (o_r2 c).
Definition omism (cs : list ocase) : list nat := mismatches ocheck cs.
