(* C12/ProofsConv.v — As-conversions are deep copies in the cell model (round 5). *)
From Coq Require Import List Bool Arith Lia.
From ADV Require Import C12.ModelConv.
Import ListNotations.

Section P.
Context {A : Type} (zero : A) (isnull : A -> bool).
(* null means "reads like an absent entry" (exact carriers; on binary64 a stored -0.0 reads 0.0 once dropped) *)
Hypothesis null_zero : forall x, isnull x = true -> x = zero.

Notation heap := (@heap A).
Notation rd := (rd zero).
Notation obs := (obs zero).
Notation conv := (conv zero isnull).
Notation havoc := (havoc zero).
Notation cstep := (cstep zero isnull).
Notation crun := (crun zero isnull).

Fixpoint lookv (pv : list (nat * A)) (p : nat) : option A :=
  match pv with [] => None | (q, x) :: r => if Nat.eqb q p then Some x else lookv r p end.

Lemma alloc_all_spec : forall pv (h h' : heap) e, alloc_all h pv = (h', e) ->
  h_next h' = h_next h + length pv /\
  (forall l, l < h_next h -> h_val h' l = h_val h l) /\
  map fst e = map fst pv /\
  map snd e = seq (h_next h) (length pv) /\
  (forall p, match look e p with Some l => Some (h_val h' l) | None => None end = lookv pv p).
Proof.
  induction pv as [|[p x] pv IH]; intros h h' e H; simpl in H.
  - inversion H; subst. simpl. repeat split; auto.
  - destruct (alloc_all _ pv) as [h2 e2] eqn:E. inversion H; subst. clear H.
    destruct (IH _ _ _ E) as (N & B & F & S & L). simpl in N, B, S.
    split; [simpl; lia|]. split.
    { intros l Hl. rewrite B by lia. unfold upd. destruct (Nat.eqb_spec l (h_next h)); [lia|reflexivity]. }
    split; [simpl; now rewrite F|]. split; [simpl; now rewrite S|].
    intros q. simpl. destruct (Nat.eqb p q).
    + rewrite B by lia. unfold upd. now rewrite Nat.eqb_refl.
    + apply L.
Qed.

(* ---- well-formed containers *)
Definition bounded (h : heap) (c : cont) : Prop := forall l, In l (locs c) -> l < h_next h.
Definition disj (a b : list loc) : Prop := forall l, In l a -> ~ In l b.

Lemma look_in : forall e p l, look e p = Some l -> In l (map snd e).
Proof.
  induction e as [|[q k] e IH]; simpl; intros p l H; [discriminate|].
  destruct (Nat.eqb q p); [inversion H; auto | right; eauto].
Qed.
Lemma look_in_fst : forall e p l, look e p = Some l -> In p (map fst e).
Proof.
  induction e as [|[q k] e IH]; simpl; intros p l H; [discriminate|].
  destruct (Nat.eqb_spec q p); [auto | right; eauto].
Qed.
Lemma look_none : forall e p, ~ In p (map fst e) -> look e p = None.
Proof.
  induction e as [|[q k] e IH]; simpl; intros p H; [reflexivity|].
  destruct (Nat.eqb_spec q p); [exfalso; auto | apply IH; auto].
Qed.

Lemma rd_frame : forall (h h' : heap) c p,
  (forall l, In l (locs c) -> h_val h' l = h_val h l) -> rd h' c p = rd h c p.
Proof.
  intros h h' c p H. unfold ModelConv.rd. destruct (look (c_ent c) p) eqn:E; [|reflexivity].
  apply H. unfold locs. eapply look_in; eauto.
Qed.
Lemma obs_frame : forall (h h' : heap) c,
  (forall l, In l (locs c) -> h_val h' l = h_val h l) -> obs h' c = obs h c.
Proof. intros. unfold ModelConv.obs. apply map_ext. intros. now apply rd_frame. Qed.

(* dropping stored null entries is not observable *)
Lemma look_filter : forall (h : heap) e p, NoDup (map fst e) ->
  match look (filter (nonnull isnull h) e) p with Some l => h_val h l | None => zero end
  = match look e p with Some l => h_val h l | None => zero end.
Proof.
  induction e as [|[q k] e IH]; simpl; intros p ND; [reflexivity|].
  inversion ND as [|? ? Hn ND']; subst.
  unfold nonnull at 1; simpl. destruct (isnull (h_val h k)) eqn:Z; simpl.
  - destruct (Nat.eqb_spec q p).
    + subst. rewrite look_none.
      * symmetry. now apply null_zero.
      * intro I. apply Hn. clear -I. induction e as [|[a b] e IH]; simpl in *; [tauto|].
        destruct (nonnull isnull h (a, b)); simpl in *; tauto.
    + now apply IH.
  - destruct (Nat.eqb q p); [reflexivity | now apply IH].
Qed.
Lemma rd_walked : forall (h : heap) c p, NoDup (stored c) -> rd h (walked isnull h c) p = rd h c p.
Proof.
  intros h c p ND. unfold walked. destruct (is_sparse c); [|reflexivity].
  unfold ModelConv.rd; simpl. now apply look_filter.
Qed.
Lemma locs_walked : forall (h : heap) c l, In l (locs (walked isnull h c)) -> In l (locs c).
Proof.
  intros h c l. unfold walked. destruct (is_sparse c); [|auto]. unfold locs; simpl.
  rewrite !in_map_iff. intros [x [E I]]. exists x. split; [auto|]. apply filter_In in I. tauto.
Qed.
Lemma nodup_filter_fst : forall (f : nat * loc -> bool) e, NoDup (map fst e) -> NoDup (map fst (filter f e)).
Proof.
  induction e as [|x e IH]; simpl; intros ND; [constructor|]. inversion ND; subst.
  destruct (f x); simpl; [constructor|]; auto.
  intro I. apply H1. rewrite in_map_iff in *. destruct I as [y [E I]]. exists y. split; auto. apply filter_In in I; tauto.
Qed.
Lemma stored_walked : forall (h : heap) c, NoDup (stored c) -> NoDup (stored (walked isnull h c)).
Proof.
  intros h c ND. unfold walked. destruct (is_sparse c); [|auto]. unfold stored; simpl. now apply nodup_filter_fst.
Qed.

Lemma lookv_map_seq : forall (f : nat -> A) n s p, s <= p < s + n -> lookv (map (fun p => (p, f p)) (seq s n)) p = Some (f p).
Proof.
  induction n; simpl; intros s p H; [lia|]. destruct (Nat.eqb_spec s p); [now subst|]. apply IHn. lia.
Qed.
Lemma lookv_map_ent : forall (h : heap) e p,
  lookv (map (fun e => (fst e, h_val h (snd e))) e) p = option_map (h_val h) (look e p).
Proof.
  induction e as [|[q k] e IH]; simpl; intros p; [reflexivity|]. destruct (Nat.eqb q p); [reflexivity|apply IH].
Qed.

(* ================= the conversion ================= *)
(* (1) every cell of the result is NEW, nothing existing is written *)
Theorem conv_fresh : forall kind same iter (h h' : heap) src src' r,
  conv kind same iter h src = (h', src', r) ->
  (forall l, In l (locs r) -> h_next h <= l < h_next h') /\
  (forall l, l < h_next h -> h_val h' l = h_val h l) /\ h_next h <= h_next h' /\ NoDup (locs r).
Proof.
  intros kind same iter h h' src src' r H. unfold ModelConv.conv in H.
  assert (G : forall pv k d e, alloc_all h pv = (h', e) -> r = mkC k d e ->
    (forall l, In l (locs r) -> h_next h <= l < h_next h') /\
    (forall l, l < h_next h -> h_val h' l = h_val h l) /\ h_next h <= h_next h' /\ NoDup (locs r)).
  { intros pv k d e E ->. destruct (alloc_all_spec _ _ _ _ E) as (N & B & _ & S & _).
    unfold locs; simpl. rewrite S. split; [|split; [auto|split; [lia|apply seq_NoDup]]].
    intros l I. apply in_seq in I. lia. }
  destruct same.
  - destruct (alloc_all h _) as [h2 e] eqn:E. injection H as <- Hs <-. eapply G; eauto.
  - destruct (Nat.eqb kind 2).
    + destruct (alloc_all h _) as [h2 e] eqn:E. injection H as <- Hs <-. eapply G; eauto.
    + destruct (alloc_all h _) as [h2 e] eqn:E. injection H as <- Hs <-. eapply G; eauto.
Qed.

(* (2) the result observes like the source, position by position *)
Theorem conv_obs : forall kind same iter (h h' : heap) src src' r,
  NoDup (stored src) -> conv kind same iter h src = (h', src', r) ->
  c_dim r = c_dim src /\ forall p, p < c_dim src -> rd h' r p = rd h src p.
Proof.
  intros kind same iter h h' src src' r ND H. unfold ModelConv.conv in H.
  destruct same; [|destruct (Nat.eqb kind 2) eqn:K].
  - destruct (alloc_all h _) as [h2 e] eqn:E. injection H as <- Hs <-. split; [reflexivity|]. intros p _.
    destruct (alloc_all_spec _ _ _ _ E) as (_ & _ & _ & _ & L). specialize (L p).
    rewrite lookv_map_ent in L. unfold ModelConv.rd; simpl.
    destruct (look e p), (look (c_ent src) p); simpl in L; try discriminate; [now inversion L|reflexivity].
  - destruct (alloc_all h _) as [h2 e] eqn:E. injection H as <- Hs <-. split; [reflexivity|]. intros p _.
    destruct (alloc_all_spec _ _ _ _ E) as (_ & _ & _ & _ & L). specialize (L p).
    rewrite lookv_map_ent in L. unfold ModelConv.rd; simpl.
    transitivity (match look (visited isnull h src) p with Some l => h_val h l | None => zero end).
    { destruct (look e p), (look (visited isnull h src) p); simpl in L; try discriminate; [now inversion L|reflexivity]. }
    unfold visited. destruct (Nat.eqb (c_kind src) 0); [reflexivity|]. now apply look_filter.
  - destruct (alloc_all h _) as [h2 e] eqn:E. injection H as <- Hs <-. split; [reflexivity|]. intros p Hp.
    destruct (alloc_all_spec _ _ _ _ E) as (_ & _ & _ & _ & L). specialize (L p).
    rewrite lookv_map_seq in L by lia. unfold ModelConv.rd at 1; simpl.
    destruct (look e p); [now inversion L|discriminate].
Qed.
Corollary conv_obs_list : forall kind same iter (h h' : heap) src src' r,
  NoDup (stored src) -> conv kind same iter h src = (h', src', r) -> obs h' r = obs h src.
Proof.
  intros kind same iter h h' src src' r ND H. destruct (conv_obs _ _ _ _ _ _ _ _ ND H) as [D R].
  unfold ModelConv.obs. rewrite D. apply map_ext_in. intros p I. apply in_seq in I. apply R. lia.
Qed.

(* (3) the source: same cells or fewer (its own iterator dropped stored nulls), same observation, still well formed *)
Theorem conv_source : forall kind same iter (h h' : heap) src src' r,
  NoDup (stored src) -> conv kind same iter h src = (h', src', r) ->
  (forall l, In l (locs src') -> In l (locs src)) /\ NoDup (stored src') /\ c_dim src' = c_dim src /\
  forall p, rd h src' p = rd h src p.
Proof.
  intros kind same iter h h' src src' r ND H. unfold ModelConv.conv in H.
  assert (W : (forall l, In l (locs (walked isnull h src)) -> In l (locs src)) /\ NoDup (stored (walked isnull h src))
              /\ c_dim (walked isnull h src) = c_dim src /\ forall p, rd h (walked isnull h src) p = rd h src p).
  { split; [apply locs_walked|]. split; [now apply stored_walked|]. split; [unfold walked; now destruct (is_sparse src)|].
    intros; now apply rd_walked. }
  destruct same; [|destruct (Nat.eqb kind 2)]; destruct (alloc_all h _) as [h2 e] eqn:E; injection H as <- <- <-; auto;
    try (destruct iter; auto); repeat split; auto.
Qed.

(* ================= receiver-only mutation ================= *)
Lemma havoc_ent_spec : forall st (h h' : heap) old vals e, havoc_ent h old st vals = (h', e) ->
  h_next h <= h_next h' /\
  (forall l, l < h_next h -> ~ In l (map snd old) -> h_val h' l = h_val h l) /\
  map fst e = st /\
  (forall l, In l (map snd e) -> In l (map snd old) \/ h_next h <= l < h_next h').
Proof.
  induction st as [|p st IH]; intros h h' old vals e H; simpl in H.
  - inversion H; subst. simpl. repeat split; auto. intros l [].
  - destruct (look old p) as [k|] eqn:L.
    + destruct (havoc_ent _ old st vals) as [h2 e2] eqn:E. inversion H; subst. clear H.
      destruct (IH _ _ _ _ _ E) as (N & B & F & I). simpl in N, B, I.
      split; [auto|]. split.
      { intros l Hl Hn. rewrite B by auto. unfold upd. destruct (Nat.eqb_spec l k); [|reflexivity].
        subst. exfalso. apply Hn. eapply look_in; eauto. }
      split; [simpl; now rewrite F|].
      intros l Hl. simpl in Hl. destruct Hl as [<-|Hl]; [left; eapply look_in; eauto | auto].
    + destruct (havoc_ent _ old st vals) as [h2 e2] eqn:E. inversion H; subst. clear H.
      destruct (IH _ _ _ _ _ E) as (N & B & F & I). simpl in N, B, I.
      split; [lia|]. split.
      { intros l Hl Hn. rewrite B by (auto; lia). unfold upd. destruct (Nat.eqb_spec l (h_next h)); [lia|reflexivity]. }
      split; [simpl; now rewrite F|].
      intros l Hl. simpl in Hl. destruct Hl as [<-|Hl]; [right; lia|]. destruct (I l Hl); [auto|right; lia].
Qed.

Theorem havoc_frame : forall (h h' : heap) c c' st vals, havoc h c st vals = (h', c') ->
  h_next h <= h_next h' /\
  (forall l, l < h_next h -> ~ In l (locs c) -> h_val h' l = h_val h l) /\
  (forall l, In l (locs c') -> In l (locs c) \/ h_next h <= l < h_next h') /\
  c_dim c' = c_dim c /\ (NoDup st -> NoDup (stored c')).
Proof.
  intros h h' c c' st vals H. unfold ModelConv.havoc in H.
  destruct (havoc_ent h (c_ent c) _ _) as [h2 e] eqn:E. inversion H; subst. clear H.
  destruct (havoc_ent_spec _ _ _ _ _ _ E) as (N & B & F & I).
  split; [auto|]. split; [exact B|]. split; [exact I|]. split; [reflexivity|].
  intro ND. unfold stored; simpl. rewrite F. destruct (is_sparse c); [auto|apply seq_NoDup].
Qed.

(* ================= worlds ================= *)
Definition wf (w : @world A) : Prop :=
  let '(h, cs) := w in
  (forall i, i < length cs -> bounded h (nth i cs dummy) /\ NoDup (stored (nth i cs dummy))) /\
  (forall i j, i < length cs -> j < length cs -> i <> j -> disj (locs (nth i cs dummy)) (locs (nth j cs dummy))).

Definition valid (o : @cop A) : Prop :=
  match o with ONew _ _ st _ => NoDup st | OHavoc _ st _ => NoDup st | OConv _ _ _ _ => True end.

Lemma nth_set_nth : forall {X} (l : list X) n x i d, n < length l ->
  nth i (set_nth l n x) d = if Nat.eqb i n then x else nth i l d.
Proof.
  induction l as [|y l IH]; simpl; intros n x i d H; [lia|].
  destruct n; simpl.
  - destruct i; reflexivity.
  - destruct i; simpl; [reflexivity|]. apply IH. lia.
Qed.
Lemma length_set_nth : forall {X} (l : list X) n x, length (set_nth l n x) = length l.
Proof. induction l; simpl; intros; [reflexivity|]. destruct n; simpl; auto. Qed.

Lemma nth_snoc : forall {X} (l : list X) x i d,
  nth i (l ++ [x]) d = if Nat.ltb i (length l) then nth i l d else if Nat.eqb i (length l) then x else d.
Proof.
  intros. destruct (Nat.ltb_spec i (length l)).
  - now apply app_nth1.
  - rewrite app_nth2 by lia. destruct (Nat.eqb_spec i (length l)).
    + subst. now rewrite Nat.sub_diag.
    + destruct (i - length l) eqn:E; [lia|]. simpl. now destruct n0.
Qed.

(* world step: a container that is not the receiver keeps its observation; well-formedness is kept;
   a new container (ONew / OConv result) is appended, nothing is ever removed *)
Definition wobs (w : @world A) (c : nat) : list A := obs (fst w) (nth c (snd w) dummy).

Lemma bounded_mono : forall (h h' : heap) c, h_next h <= h_next h' -> bounded h c -> bounded h' c.
Proof. intros h h' c L B l I. specialize (B l I). lia. Qed.

Theorem cstep_frame : forall w o, wf w -> valid o ->
  wf (cstep w o) /\ length (snd w) <= length (snd (cstep w o)) /\
  forall c, c < length (snd w) -> target o <> Some c -> wobs (cstep w o) c = wobs w c.
Proof.
  intros [h cs] o [WB WD] V. destruct o as [kind dim st vals | kind same iter s | c0 st vals]; simpl.
  - (* ONew *)
    destruct (havoc h (mkC kind dim []) st vals) as [h' c'] eqn:E.
    destruct (havoc_frame _ _ _ _ _ _ E) as (N & B & I & D & S). simpl in B, I.
    assert (FR : forall l, In l (locs c') -> h_next h <= l < h_next h') by (intros l Hl; destruct (I l Hl) as [[]|]; auto).
    split; [|split; [simpl; rewrite app_length; simpl; lia|]].
    + split.
      * intros i Hi. rewrite app_length in Hi; simpl in Hi. rewrite nth_snoc.
        destruct (Nat.ltb_spec i (length cs)).
        { destruct (WB i H). split; [eapply bounded_mono; eauto|auto]. }
        { replace (Nat.eqb i (length cs)) with true by (symmetry; apply Nat.eqb_eq; lia).
          split; [intros l Hl; apply FR in Hl; lia | apply S; exact V]. }
      * intros i j Hi Hj Hij. rewrite app_length in Hi, Hj; simpl in Hi, Hj. rewrite !nth_snoc.
        destruct (Nat.ltb_spec i (length cs)), (Nat.ltb_spec j (length cs)); try lia.
        { now apply WD. }
        { replace (Nat.eqb j (length cs)) with true by (symmetry; apply Nat.eqb_eq; lia).
          intros l Hl Hl'. apply FR in Hl'. destruct (WB i H) as [Bi _]. specialize (Bi l Hl). lia. }
        { replace (Nat.eqb i (length cs)) with true by (symmetry; apply Nat.eqb_eq; lia).
          intros l Hl Hl'. apply FR in Hl. destruct (WB j H0) as [Bj _]. specialize (Bj l Hl'). lia. }
    + intros c Hc _. unfold wobs; simpl. rewrite app_nth1 by auto. apply obs_frame.
      intros l Hl. destruct (WB c Hc) as [Bc _]. apply B; [apply Bc; auto|tauto].
  - (* OConv *)
    destruct (Nat.ltb_spec s (length cs)) as [Hs|Hs]; [|split; [split; auto|split; [simpl; lia|auto]]].
    destruct (conv kind same iter h (nth s cs dummy)) as [[h' src'] r] eqn:E.
    destruct (WB s Hs) as [Bs NDs].
    destruct (conv_fresh _ _ _ _ _ _ _ _ E) as (FR & B & N & NDr).
    destruct (conv_source _ _ _ _ _ _ _ _ NDs E) as (LS & NDs' & Ds & RS).
    assert (NTH : forall i, i < length cs -> (forall l, In l (locs (nth i (set_nth cs s src') dummy)) -> In l (locs (nth i cs dummy)))
                  /\ NoDup (stored (nth i (set_nth cs s src') dummy))).
    { intros i Hi. rewrite nth_set_nth by auto. destruct (Nat.eqb_spec i s); [subst; auto|]. split; [auto|apply WB; auto]. }
    split; [|split; [simpl; rewrite app_length, length_set_nth; simpl; lia|]].
    + split.
      * intros i Hi. rewrite app_length, length_set_nth in Hi; simpl in Hi. rewrite nth_snoc, length_set_nth.
        destruct (Nat.ltb_spec i (length cs)).
        { destruct (NTH i H) as [L1 L2]. split; [|auto]. intros l Hl. apply L1 in Hl. destruct (WB i H) as [Bi _]. specialize (Bi l Hl). lia. }
        { replace (Nat.eqb i (length cs)) with true by (symmetry; apply Nat.eqb_eq; lia).
          split; [intros l Hl; apply FR in Hl; lia|].
          destruct (conv_obs _ _ _ _ _ _ _ _ NDs E) as [_ _].
          (* stored r: positions of the allocated entries *)
          clear -E NDs. unfold ModelConv.conv in E.
          destruct same; [|destruct (Nat.eqb kind 2)]; destruct (alloc_all h _) as [h2 e] eqn:EA; inversion E; subst;
            destruct (alloc_all_spec _ _ _ _ EA) as (_ & _ & F & _ & _); unfold stored; simpl; rewrite F, map_map; simpl.
          - exact NDs.
          - unfold visited. destruct (Nat.eqb (c_kind (nth s cs dummy)) 0); [exact NDs|]. now apply nodup_filter_fst.
          - rewrite map_id. apply seq_NoDup. }
      * intros i j Hi Hj Hij. rewrite app_length, length_set_nth in Hi, Hj; simpl in Hi, Hj. rewrite !nth_snoc, !length_set_nth.
        destruct (Nat.ltb_spec i (length cs)), (Nat.ltb_spec j (length cs)); try lia.
        { intros l Hl Hl'. apply (NTH i H) in Hl. apply (NTH j H0) in Hl'. exact (WD i j H H0 Hij l Hl Hl'). }
        { replace (Nat.eqb j (length cs)) with true by (symmetry; apply Nat.eqb_eq; lia).
          intros l Hl Hl'. apply (NTH i H) in Hl. apply FR in Hl'. destruct (WB i H) as [Bi _]. specialize (Bi l Hl). lia. }
        { replace (Nat.eqb i (length cs)) with true by (symmetry; apply Nat.eqb_eq; lia).
          intros l Hl Hl'. apply (NTH j H0) in Hl'. apply FR in Hl. destruct (WB j H0) as [Bj _]. specialize (Bj l Hl'). lia. }
    + intros c Hc _. unfold wobs; simpl. rewrite app_nth1 by (rewrite length_set_nth; auto).
      rewrite nth_set_nth by auto. destruct (Nat.eqb_spec c s).
      * subst c. unfold ModelConv.obs. rewrite Ds. apply map_ext. intros p. rewrite <- RS. apply rd_frame.
        intros l Hl. apply B. apply Bs. auto.
      * apply obs_frame. intros l Hl. apply B. destruct (WB c Hc) as [Bc _]. now apply Bc.
  - (* OHavoc *)
    destruct (Nat.ltb_spec c0 (length cs)) as [Hs|Hs]; [|split; [split; auto|split; [simpl; lia|auto]]].
    destruct (havoc h (nth c0 cs dummy) st vals) as [h' c'] eqn:E.
    destruct (havoc_frame _ _ _ _ _ _ E) as (N & B & I & D & S).
    destruct (WB c0 Hs) as [B0 _].
    split; [|split; [simpl; rewrite length_set_nth; lia|]].
    + split.
      * intros i Hi. rewrite length_set_nth in Hi. rewrite nth_set_nth by auto. destruct (Nat.eqb_spec i c0).
        { split; [|apply S; exact V]. intros l Hl. destruct (I l Hl) as [Hl'|]; [specialize (B0 l Hl'); lia|lia]. }
        { destruct (WB i Hi). split; [eapply bounded_mono; eauto|auto]. }
      * intros i j Hi Hj Hij. rewrite length_set_nth in Hi, Hj. rewrite !nth_set_nth by auto.
        destruct (Nat.eqb_spec i c0), (Nat.eqb_spec j c0); try lia.
        { subst i. intros l Hl Hl'. destruct (I l Hl) as [Ho|Hf].
          - exact (WD c0 j Hs Hj Hij l Ho Hl').
          - destruct (WB j Hj) as [Bj _]. specialize (Bj l Hl'). lia. }
        { subst j. intros l Hl Hl'. destruct (I l Hl') as [Ho|Hf].
          - exact (WD i c0 Hi Hs Hij l Hl Ho).
          - destruct (WB i Hi) as [Bi _]. specialize (Bi l Hl). lia. }
        { now apply WD. }
    + intros c Hc Ht. assert (c <> c0) by (intro; subst; now apply Ht).
      unfold wobs; simpl. rewrite nth_set_nth by auto. destruct (Nat.eqb_spec c c0); [lia|].
      apply obs_frame. intros l Hl. destruct (WB c Hc) as [Bc _]. apply B; [now apply Bc|].
      intro Hl'. exact (WD c c0 Hc Hs H l Hl Hl').
Qed.

(* HISTORIES: whatever is done later — further conversions, new containers, any number of mutations addressed
   at OTHER containers — a container observes the same *)
Theorem history_independent : forall ops w c, wf w -> Forall valid ops -> c < length (snd w) ->
  (forall o, In o ops -> target o <> Some c) ->
  wf (crun w ops) /\ c < length (snd (crun w ops)) /\ wobs (crun w ops) c = wobs w c.
Proof.
  induction ops as [|o ops IH]; intros w c W V Hc T; simpl; [auto|].
  inversion V as [|? ? Vo Vr]; subst.
  destruct (cstep_frame w o W Vo) as (W' & L & F).
  destruct (IH (cstep w o) c W' Vr) as (W2 & L2 & O2); [lia|intros; apply T; simpl; auto|].
  split; [exact W2|]. split; [exact L2|]. rewrite O2. apply F; [auto|apply T; simpl; auto].
Qed.

(* the conversion inside a world: the result is container #(length cs), observes like the source did, its cells are
   disjoint from every other container's, and from then on (previous theorem) both sides are independent *)
Theorem conversion_in_world : forall h cs kind same iter s, wf (h, cs) -> s < length cs ->
  let w' := cstep (h, cs) (OConv kind same iter s) in
  length (snd w') = S (length cs) /\ wf w' /\
  wobs w' (length cs) = wobs (h, cs) s /\ wobs w' s = wobs (h, cs) s /\
  disj (locs (nth (length cs) (snd w') dummy)) (locs (nth s (snd w') dummy)).
Proof.
  intros h cs kind same iter s W Hs w'.
  destruct (cstep_frame (h, cs) (OConv kind same iter s) W I) as (W' & _ & F).
  assert (LEN : length (snd w') = S (length cs)).
  { unfold w'; simpl. destruct (Nat.ltb_spec s (length cs)); [|lia].
    destruct (conv kind same iter h (nth s cs dummy)) as [[h' src'] r]. simpl. rewrite app_length, length_set_nth. simpl. lia. }
  split; [exact LEN|]. split; [exact W'|]. split; [|split].
  - unfold w', wobs; simpl. destruct (Nat.ltb_spec s (length cs)); [|lia].
    destruct (conv kind same iter h (nth s cs dummy)) as [[h' src'] r] eqn:E. simpl.
    rewrite app_nth2 by (rewrite length_set_nth; lia). rewrite length_set_nth, Nat.sub_diag. simpl.
    destruct W as [WB _]. destruct (WB s Hs) as [_ ND]. eapply conv_obs_list; eauto.
  - apply F; [auto|discriminate].
  - fold w' in W'. destruct w' as [h' cs']. destruct W' as [_ WD]. simpl in *. apply WD; lia.
Qed.

End P.

(* ---- the seeded regression, refuted: a to-sparse result that stores the source's cells *)
Definition share_world : world (A := nat) :=
  let h := mkH 2 (fun l => if Nat.eqb l 0 then 7 else 5) in
  let src := mkC 0 2 [(0, 0); (1, 1)] in
  let '(h', s', r) := conv_share (Nat.eqb 0) h src in (h', [s'; r]).
Lemma shared_cells_break_independence_refuted :
  let w := share_world in
  let w' := cstep 0 (Nat.eqb 0) w (OHavoc 1 [0; 1] [9; 9]) in
  wobs 0 w 0 = [7; 5] /\ wobs 0 w' 0 = [9; 9].
Proof. vm_compute. auto. Qed.
