(* C12/CorrJ.v — stream J: entry points of the Real containers on operands holding JETS (round 3).
   A case carries what the implementation did; decided here by vm_compute:
     j_ro    every read-only operand observes the same in EVERY slot of EVERY position before and after the call
             (value, d[k], h[k][l]; -0.0 against 0.0 is equal: a dropped stored -0.0 reads 0.0);
     j_eq    a copy observes like its source;
     j_null  for every stored entry of the tracked operand: its jet and whether it is still stored afterwards —
             a DROPPED entry must be null for the modelled nullScalar (ModelJ.null_coded), and after a complete
             iterator loop (j_full) kept = not null exactly: this ties null_coded to the real nullScalar();
     j_ids   the identities of all backing arrays (Derivative, Hessian, Hessian rows) of all live scalars: no repeats;
     j_mut   the operands' observation around each of the >= 20 mutations of the result. *)
From Coq Require Import ZArith List Bool Floats Arith.
From ADV Require Import Base.Fl Base.Num Base.Corr C01.Model C01.Corr C12.ModelS C12.Corr C12.ModelJ C12.CorrI.
Import ListNotations.

Record jcase := mkJ {
  j_full : bool; j_kind : nat;
  j_ro : list (list float * list float);
  j_eq : list (list float * list float);
  j_null : list (Reg float * bool);
  j_ids : list nat;
  j_mut : list (list float * list float) }.

Definition oeqb (x y : float) : bool := feqb x y || (PrimFloat.eqb x 0%float && PrimFloat.eqb y 0%float).
Definition pair_ok (p : list float * list float) : bool := list_eqb oeqb (fst p) (snd p).

Definition null_ok (full : bool) (e : Reg float * bool) : bool :=
  let nul := null_coded FlP (fst e) in
  if full then Bool.eqb (negb nul) (snd e) else (snd e || nul).

Definition jcheck (c : jcase) : bool :=
  Nat.eqb (j_kind c) 0 && forallb pair_ok (j_ro c) && forallb pair_ok (j_eq c)
  && forallb (null_ok (j_full c)) (j_null c) && nodupb (j_ids c) && forallb pair_ok (j_mut c).
Definition jmism (cs : list jcase) : list nat := mismatches jcheck cs.
